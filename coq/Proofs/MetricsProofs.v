(* Proofs about Model/Metrics.v: flatten / metrics_of / restore / strip / skeleton,
   and the key-path properties (C02). *)
From Coq Require Import ZArith NArith List Bool Lia.
From FV.Model Require Import Bytes Bson Metrics Wf.
Import ListNotations.
Open Scope Z_scope.

(* ------------------------------------------------------------------ *)
(* induction principle for the nested inductive [value]                 *)
(* ------------------------------------------------------------------ *)
Section ValueInd.
  Variable P : value -> Prop.
  Hypothesis H_double : forall b, P (VDouble b).
  Hypothesis H_string : forall s, P (VString s).
  Hypothesis H_doc : forall d, Forall (fun kv => P (snd kv)) d -> P (VDoc d).
  Hypothesis H_arr : forall a, Forall P a -> P (VArr a).
  Hypothesis H_binary : forall st b, P (VBinary st b).
  Hypothesis H_undefined : P VUndefined.
  Hypothesis H_objectid : forall b, P (VObjectID b).
  Hypothesis H_bool : forall b, P (VBool b).
  Hypothesis H_datetime : forall ms, P (VDateTime ms).
  Hypothesis H_null : P VNull.
  Hypothesis H_regex : forall p o, P (VRegex p o).
  Hypothesis H_dbpointer : forall ns oid, P (VDBPointer ns oid).
  Hypothesis H_javascript : forall s, P (VJavaScript s).
  Hypothesis H_symbol : forall s, P (VSymbol s).
  Hypothesis H_cws : forall c sc, Forall (fun kv => P (snd kv)) sc -> P (VCodeWithScope c sc).
  Hypothesis H_int32 : forall i, P (VInt32 i).
  Hypothesis H_timestamp : forall t i, P (VTimestamp t i).
  Hypothesis H_int64 : forall i, P (VInt64 i).
  Hypothesis H_decimal : forall b, P (VDecimal128 b).
  Hypothesis H_minkey : P VMinKey.
  Hypothesis H_maxkey : P VMaxKey.

  Fixpoint value_ind' (v : value) : P v :=
    let elems := fix go (l : list (bytes * value)) : Forall (fun kv => P (snd kv)) l :=
      match l with
      | [] => Forall_nil _
      | kv :: r => Forall_cons kv (match kv as kv0 return P (snd kv0) with (k, x) => value_ind' x end) (go r)
      end in
    match v with
    | VDouble b => H_double b
    | VString s => H_string s
    | VDoc d => H_doc d (elems d)
    | VArr a => H_arr a ((fix go (l : list value) : Forall P l :=
                            match l with
                            | [] => Forall_nil _
                            | x :: r => Forall_cons x (value_ind' x) (go r)
                            end) a)
    | VBinary st b => H_binary st b
    | VUndefined => H_undefined
    | VObjectID b => H_objectid b
    | VBool b => H_bool b
    | VDateTime ms => H_datetime ms
    | VNull => H_null
    | VRegex p o => H_regex p o
    | VDBPointer ns oid => H_dbpointer ns oid
    | VJavaScript s => H_javascript s
    | VSymbol s => H_symbol s
    | VCodeWithScope c sc => H_cws c sc (elems sc)
    | VInt32 i => H_int32 i
    | VTimestamp t i => H_timestamp t i
    | VInt64 i => H_int64 i
    | VDecimal128 b => H_decimal b
    | VMinKey => H_minkey
    | VMaxKey => H_maxkey
    end.
End ValueInd.

(* ------------------------------------------------------------------ *)
(* arithmetic facts                                                     *)
(* ------------------------------------------------------------------ *)
Lemma mp_wrap32_id : forall i, in_i32 i = true -> wrap32 i = i.
Proof.
  intros i H. unfold in_i32 in H. unfold wrap32.
  change (2 ^ 31) with 2147483648 in *. change (2 ^ 32) with 4294967296.
  apply andb_true_iff in H. destruct H as [H1 H2].
  apply Z.leb_le in H1. apply Z.ltb_lt in H2.
  rewrite Z.mod_small by lia. lia.
Qed.

Lemma mp_wrap64_id : forall i, in_i64 i = true -> wrap64 i = i.
Proof.
  intros i H. unfold in_i64 in H. unfold wrap64.
  change (2 ^ 63) with 9223372036854775808 in *. change (2 ^ 64) with 18446744073709551616.
  apply andb_true_iff in H. destruct H as [H1 H2].
  apply Z.leb_le in H1. apply Z.ltb_lt in H2.
  rewrite Z.mod_small by lia. lia.
Qed.

Lemma mp_date_ok_bounds : forall ms, date_ok ms = true -> -9223372036854 <= ms <= 9223372036854.
Proof.
  intros ms H. unfold date_ok in H. apply andb_true_iff in H. destruct H as [H1 H2].
  apply Z.leb_le in H1. apply Z.leb_le in H2. lia.
Qed.

Lemma mp_in_i64_intro : forall z, -9223372036854775808 <= z < 9223372036854775808 -> in_i64 z = true.
Proof.
  intros z H. unfold in_i64. change (2 ^ 63) with 9223372036854775808.
  apply andb_true_iff. split; [apply Z.leb_le | apply Z.ltb_lt]; lia.
Qed.

Lemma epoch_ms_id : forall ms, date_ok ms = true -> epoch_ms ms = ms.
Proof. intros ms _. reflexivity. Qed.

(* the conversion of the pinned tree (t.UnixNano() / 1e6) agreed with it exactly on the dates Go expresses in
   nanoseconds, and not on Go's zero time (year 1), which came back as a day in 1754 *)
Lemma epoch_ms_nano_id : forall ms, date_ok ms = true -> epoch_ms_nano ms = ms.
Proof.
  intros ms H. apply mp_date_ok_bounds in H. unfold epoch_ms_nano.
  rewrite mp_wrap64_id by (apply mp_in_i64_intro; lia).
  apply Z.quot_mul. lia.
Qed.
Example epoch_ms_nano_zero_time : epoch_ms_nano (-62135596800000) = -6795364578871.
Proof. vm_compute. reflexivity. Qed.

Lemma mp_u32_mod_id : forall t, in_u32 t = true -> t mod 2 ^ 32 = t.
Proof.
  intros t H. unfold in_u32 in H. apply andb_true_iff in H. destruct H as [H1 H2].
  apply Z.leb_le in H1. apply Z.ltb_lt in H2. apply Z.mod_small. lia.
Qed.

Lemma mp_u32_i64 : forall t, in_u32 t = true -> in_i64 t = true.
Proof.
  intros t H. unfold in_u32 in H. apply andb_true_iff in H. destruct H as [H1 H2].
  apply Z.leb_le in H1. apply Z.ltb_lt in H2. change (2 ^ 32) with 4294967296 in H2.
  apply mp_in_i64_intro. lia.
Qed.

Lemma mp_i32_i64 : forall t, in_i32 t = true -> in_i64 t = true.
Proof.
  intros t H. unfold in_i32 in H. apply andb_true_iff in H. destruct H as [H1 H2].
  apply Z.leb_le in H1. apply Z.ltb_lt in H2. change (2 ^ 31) with 2147483648 in *.
  apply mp_in_i64_intro. lia.
Qed.

(* ------------------------------------------------------------------ *)
(* list-level companions of the nested fixpoints (arrays)               *)
(* ------------------------------------------------------------------ *)
Fixpoint flatten_arr (a : list value) : list (mtype * Z) :=
  match a with [] => [] | x :: r => flatten x ++ flatten_arr r end.

Fixpoint metrics_of_arr (path : list bytes) (key : bytes) (i : N) (a : list value) : list metric :=
  match a with
  | [] => []
  | x :: r => metrics_of path (key ++ dot :: dec_digits i) x ++ metrics_of_arr path key (i + 1)%N r
  end.

Fixpoint restore_arr (a : list value) (vals : list Z) : option (list value * list Z) :=
  match a with
  | [] => Some ([], vals)
  | x :: r =>
      match restore x vals with
      | Some (ox, vs1) =>
          match restore_arr r vs1 with
          | Some (rs, vs2) => Some (match ox with Some y => y :: rs | None => rs end, vs2)
          | None => None
          end
      | None => None
      end
  end.

Fixpoint strip_arr (a : list value) : list value :=
  match a with [] => [] | x :: r =>
    match strip x with Some y => y :: strip_arr r | None => strip_arr r end end.

Fixpoint skeleton_arr (a : list value) : list value :=
  match a with [] => [] | x :: r =>
    match skeleton x with Some y => y :: skeleton_arr r | None => skeleton_arr r end end.

Fixpoint arr_leaves_ok (a : list value) : bool :=
  match a with [] => true | x :: r => leaves_ok x && arr_leaves_ok r end.

Fixpoint arr_has_ts_seconds (a : list value) : bool :=
  match a with [] => false | x :: r => has_ts_seconds x || arr_has_ts_seconds r end.

(* bridging equations *)
Lemma flatten_VDoc : forall d, flatten (VDoc d) = flatten_doc d.
Proof. reflexivity. Qed.
Lemma flatten_VArr : forall a, flatten (VArr a) = flatten_arr a.
Proof. reflexivity. Qed.

Lemma flatten_doc_eq : forall d, flatten_doc d = flatten (VDoc d).
Proof. reflexivity. Qed.

Lemma metrics_of_VDoc : forall p k d, metrics_of p k (VDoc d) = metrics_of_doc (p ++ [k]) d.
Proof.
  intros p k d. induction d as [|[k0 x] r IH]; [reflexivity|].
  cbn [metrics_of_doc]. rewrite <- IH. reflexivity.
Qed.

Lemma metrics_of_arr_eq : forall p k a i,
  (fix go (i : N) (l : list value) :=
     match l with
     | [] => []
     | x :: r => metrics_of p (k ++ dot :: dec_digits i) x ++ go (i + 1)%N r
     end) i a = metrics_of_arr p k i a.
Proof.
  intros p k a. induction a as [|x r IH]; intro i; [reflexivity|].
  cbn [metrics_of_arr]. rewrite <- IH. reflexivity.
Qed.

Lemma metrics_of_VArr : forall p k a, metrics_of p k (VArr a) = metrics_of_arr p k 0%N a.
Proof. intros p k a. rewrite <- metrics_of_arr_eq. reflexivity. Qed.

Lemma restore_VDoc : forall d vals,
  restore (VDoc d) vals =
  match restore_doc d vals with
  | Some (items, rest) => Some (Some (VDoc items), rest)
  | None => None
  end.
Proof. reflexivity. Qed.

Lemma restore_VArr : forall a vals,
  restore (VArr a) vals =
  match restore_arr a vals with
  | Some (items, rest) => Some (Some (VArr items), rest)
  | None => None
  end.
Proof. reflexivity. Qed.

Lemma strip_VDoc : forall d, strip (VDoc d) = Some (VDoc (strip_doc d)).
Proof. reflexivity. Qed.
Lemma strip_VArr : forall a, strip (VArr a) = Some (VArr (strip_arr a)).
Proof. reflexivity. Qed.
Lemma skeleton_VDoc : forall d, skeleton (VDoc d) = Some (VDoc (skeleton_doc d)).
Proof. reflexivity. Qed.
Lemma skeleton_VArr : forall a, skeleton (VArr a) = Some (VArr (skeleton_arr a)).
Proof. reflexivity. Qed.
Lemma leaves_ok_VDoc : forall d, leaves_ok (VDoc d) = doc_leaves_ok d.
Proof. reflexivity. Qed.
Lemma leaves_ok_VArr : forall a, leaves_ok (VArr a) = arr_leaves_ok a.
Proof. reflexivity. Qed.
Lemma has_ts_seconds_VDoc : forall d, has_ts_seconds (VDoc d) = doc_has_ts_seconds d.
Proof. reflexivity. Qed.
Lemma has_ts_seconds_VArr : forall a, has_ts_seconds (VArr a) = arr_has_ts_seconds a.
Proof. reflexivity. Qed.

(* ------------------------------------------------------------------ *)
(* restoration depends only on the schema                               *)
(* ------------------------------------------------------------------ *)
Definition restore_skel_P (v : value) : Prop :=
  forall vals, restore v vals =
               match skeleton v with Some s => restore s vals | None => Some (None, vals) end.

Lemma restore_doc_skeleton_F : forall d, Forall (fun kv => restore_skel_P (snd kv)) d ->
  forall vals, restore_doc d vals = restore_doc (skeleton_doc d) vals.
Proof.
  intros d HF. induction HF as [|[k x] r Hx HF IH]; intro vals; [reflexivity|].
  cbn [snd] in Hx. cbn [restore_doc skeleton_doc]. rewrite (Hx vals).
  destruct (skeleton x) as [s|].
  - cbn [restore_doc]. destruct (restore s vals) as [[ox vs1]|]; [|reflexivity].
    rewrite IH. reflexivity.
  - rewrite IH. destruct (restore_doc (skeleton_doc r) vals) as [[rs vs2]|]; reflexivity.
Qed.

Lemma restore_arr_skeleton_F : forall a, Forall restore_skel_P a ->
  forall vals, restore_arr a vals = restore_arr (skeleton_arr a) vals.
Proof.
  intros a HF. induction HF as [|x r Hx HF IH]; intro vals; [reflexivity|].
  cbn [restore_arr skeleton_arr]. rewrite (Hx vals).
  destruct (skeleton x) as [s|].
  - cbn [restore_arr]. destruct (restore s vals) as [[ox vs1]|]; [|reflexivity].
    rewrite IH. reflexivity.
  - rewrite IH. destruct (restore_arr (skeleton_arr r) vals) as [[rs vs2]|]; reflexivity.
Qed.

Lemma restore_skeleton_value : forall v, restore_skel_P v.
Proof.
  induction v using value_ind'; unfold restore_skel_P; intro vals; try reflexivity.
  - rewrite skeleton_VDoc, !restore_VDoc. rewrite restore_doc_skeleton_F by assumption. reflexivity.
  - rewrite skeleton_VArr, !restore_VArr. rewrite restore_arr_skeleton_F by assumption. reflexivity.
Qed.

Lemma restore_doc_skeleton : forall d vals, restore_doc d vals = restore_doc (skeleton_doc d) vals.
Proof.
  intros d vals. apply restore_doc_skeleton_F.
  apply Forall_forall. intros kv _. apply restore_skeleton_value.
Qed.

(* ------------------------------------------------------------------ *)
(* restoring a document from its own row                                *)
(* ------------------------------------------------------------------ *)
Definition restore_own_P (v : value) : Prop :=
  leaves_ok v = true -> forall rest,
  restore v (map snd (flatten v) ++ rest) = Some (strip v, rest).

Lemma restore_doc_own_F : forall d, Forall (fun kv => restore_own_P (snd kv)) d ->
  doc_leaves_ok d = true -> forall rest,
  restore_doc d (map snd (flatten_doc d) ++ rest) = Some (strip_doc d, rest).
Proof.
  intros d HF. induction HF as [|[k x] r Hx HF IH]; intros Hok rest; [reflexivity|].
  cbn [snd] in Hx. cbn [doc_leaves_ok] in Hok. apply andb_true_iff in Hok. destruct Hok as [Hok1 Hok2].
  cbn [restore_doc flatten_doc strip_doc]. rewrite map_app, <- app_assoc.
  rewrite (Hx Hok1). rewrite (IH Hok2). destruct (strip x); reflexivity.
Qed.

Lemma restore_arr_own_F : forall a, Forall restore_own_P a ->
  arr_leaves_ok a = true -> forall rest,
  restore_arr a (map snd (flatten_arr a) ++ rest) = Some (strip_arr a, rest).
Proof.
  intros a HF. induction HF as [|x r Hx HF IH]; intros Hok rest; [reflexivity|].
  cbn [arr_leaves_ok] in Hok. apply andb_true_iff in Hok. destruct Hok as [Hok1 Hok2].
  cbn [restore_arr flatten_arr strip_arr]. rewrite map_app, <- app_assoc.
  rewrite (Hx Hok1). rewrite (IH Hok2). destruct (strip x); reflexivity.
Qed.

Lemma restore_own_value : forall v, restore_own_P v.
Proof.
  induction v using value_ind'; unfold restore_own_P; intros Hok rest; try reflexivity.
  - rewrite leaves_ok_VDoc in Hok. rewrite flatten_VDoc, restore_VDoc, strip_VDoc.
    rewrite restore_doc_own_F by assumption. reflexivity.
  - rewrite leaves_ok_VArr in Hok. rewrite flatten_VArr, restore_VArr, strip_VArr.
    rewrite restore_arr_own_F by assumption. reflexivity.
  - destruct b; reflexivity.
  - cbn [leaves_ok] in Hok. cbn [flatten map snd app restore strip].
    rewrite (mp_wrap32_id _ Hok). reflexivity.
  - cbn [leaves_ok] in Hok. apply andb_true_iff in Hok. destruct Hok as [Hok1 Hok2].
    cbn [flatten map snd app restore strip].
    rewrite (mp_u32_mod_id _ Hok1), (mp_u32_mod_id _ Hok2). reflexivity.
Qed.

Lemma restore_doc_self : forall d rest, doc_leaves_ok d = true ->
  restore_doc d (map snd (flatten_doc d) ++ rest) = Some (strip_doc d, rest).
Proof.
  intros d rest Hok. apply restore_doc_own_F; [|assumption].
  apply Forall_forall. intros kv _. apply restore_own_value.
Qed.

Lemma restore_doc_own : forall d rest, doc_leaves_ok d = true ->
  restore_doc (skeleton_doc d) (map snd (flatten_doc d) ++ rest) = Some (strip_doc d, rest).
Proof.
  intros d rest Hok. rewrite <- restore_doc_skeleton. apply restore_doc_self. assumption.
Qed.

Lemma restore_doc_same_schema : forall ref d rest,
  skeleton_doc d = skeleton_doc ref -> doc_leaves_ok d = true ->
  restore_doc ref (map snd (flatten_doc d) ++ rest) = Some (strip_doc d, rest).
Proof.
  intros ref d rest Hs Hok. rewrite restore_doc_skeleton, <- Hs. apply restore_doc_own. assumption.
Qed.

(* ------------------------------------------------------------------ *)
(* metric types are a function of the schema                            *)
(* ------------------------------------------------------------------ *)
Definition types_skel_P (v : value) : Prop :=
  map fst (flatten v) = match skeleton v with Some s => map fst (flatten s) | None => [] end.

Lemma flatten_types_doc_F : forall d, Forall (fun kv => types_skel_P (snd kv)) d ->
  map fst (flatten_doc d) = map fst (flatten_doc (skeleton_doc d)).
Proof.
  intros d HF. induction HF as [|[k x] r Hx HF IH]; [reflexivity|].
  cbn [snd] in Hx. cbn [flatten_doc skeleton_doc]. rewrite map_app, Hx, IH.
  destruct (skeleton x) as [s|]; [|reflexivity].
  cbn [flatten_doc]. rewrite map_app. reflexivity.
Qed.

Lemma flatten_types_arr_F : forall a, Forall types_skel_P a ->
  map fst (flatten_arr a) = map fst (flatten_arr (skeleton_arr a)).
Proof.
  intros a HF. induction HF as [|x r Hx HF IH]; [reflexivity|].
  cbn [flatten_arr skeleton_arr]. rewrite map_app, Hx, IH.
  destruct (skeleton x) as [s|]; [|reflexivity].
  cbn [flatten_arr]. rewrite map_app. reflexivity.
Qed.

Lemma flatten_types_value : forall v, types_skel_P v.
Proof.
  induction v using value_ind'; unfold types_skel_P; try reflexivity.
  - rewrite skeleton_VDoc, !flatten_VDoc. apply flatten_types_doc_F. assumption.
  - rewrite skeleton_VArr, !flatten_VArr. apply flatten_types_arr_F. assumption.
Qed.

Lemma flatten_types_skeleton : forall d, map fst (flatten_doc d) = map fst (flatten_doc (skeleton_doc d)).
Proof.
  intro d. apply flatten_types_doc_F. apply Forall_forall. intros kv _. apply flatten_types_value.
Qed.

Lemma flatten_types_same_schema : forall a b, skeleton_doc a = skeleton_doc b ->
  map fst (flatten_doc a) = map fst (flatten_doc b).
Proof.
  intros a b H. rewrite (flatten_types_skeleton a), (flatten_types_skeleton b), H. reflexivity.
Qed.

(* ------------------------------------------------------------------ *)
(* decoder-side descriptors vs encoder-side vector                      *)
(* ------------------------------------------------------------------ *)
Definition mtypes_P (v : value) : Prop :=
  forall p k, map m_type (metrics_of p k v) = map fst (flatten v).

Lemma metrics_of_doc_types_F : forall d, Forall (fun kv => mtypes_P (snd kv)) d ->
  forall p, map m_type (metrics_of_doc p d) = map fst (flatten_doc d).
Proof.
  intros d HF. induction HF as [|[k x] r Hx HF IH]; intro p; [reflexivity|].
  cbn [snd] in Hx. cbn [metrics_of_doc flatten_doc]. rewrite !map_app, Hx, IH. reflexivity.
Qed.

Lemma metrics_of_arr_types_F : forall a, Forall mtypes_P a ->
  forall p k i, map m_type (metrics_of_arr p k i a) = map fst (flatten_arr a).
Proof.
  intros a HF. induction HF as [|x r Hx HF IH]; intros p k i; [reflexivity|].
  cbn [metrics_of_arr flatten_arr]. rewrite !map_app, Hx, IH. reflexivity.
Qed.

Lemma metrics_of_types_value : forall v, mtypes_P v.
Proof.
  induction v using value_ind'; unfold mtypes_P; intros pp kk; try reflexivity.
  - rewrite metrics_of_VDoc, flatten_VDoc. apply metrics_of_doc_types_F. assumption.
  - rewrite metrics_of_VArr, flatten_VArr. apply metrics_of_arr_types_F. assumption.
Qed.

Lemma metrics_of_doc_types : forall p d, map m_type (metrics_of_doc p d) = map fst (flatten_doc d).
Proof.
  intros p d. apply metrics_of_doc_types_F. apply Forall_forall. intros kv _. apply metrics_of_types_value.
Qed.

Lemma metrics_of_doc_length : forall p d, length (metrics_of_doc p d) = length (flatten_doc d).
Proof.
  intros p d. rewrite <- (map_length m_type), <- (map_length fst (flatten_doc d)).
  rewrite metrics_of_doc_types. reflexivity.
Qed.

Definition mstart_P (v : value) : Prop :=
  has_ts_seconds v = false -> forall p k, map m_start (metrics_of p k v) = map snd (flatten v).

Lemma metrics_of_doc_start_F : forall d, Forall (fun kv => mstart_P (snd kv)) d ->
  doc_has_ts_seconds d = false ->
  forall p, map m_start (metrics_of_doc p d) = map snd (flatten_doc d).
Proof.
  intros d HF. induction HF as [|[k x] r Hx HF IH]; intros Hts p; [reflexivity|].
  cbn [snd] in Hx. cbn [doc_has_ts_seconds] in Hts. apply orb_false_iff in Hts. destruct Hts as [Hts1 Hts2].
  cbn [metrics_of_doc flatten_doc]. rewrite !map_app, (Hx Hts1), (IH Hts2). reflexivity.
Qed.

Lemma metrics_of_arr_start_F : forall a, Forall mstart_P a ->
  arr_has_ts_seconds a = false ->
  forall p k i, map m_start (metrics_of_arr p k i a) = map snd (flatten_arr a).
Proof.
  intros a HF. induction HF as [|x r Hx HF IH]; intros Hts p k i; [reflexivity|].
  cbn [arr_has_ts_seconds] in Hts. apply orb_false_iff in Hts. destruct Hts as [Hts1 Hts2].
  cbn [metrics_of_arr flatten_arr]. rewrite !map_app, (Hx Hts1), (IH Hts2). reflexivity.
Qed.

Lemma metrics_of_start_value : forall v, mstart_P v.
Proof.
  induction v using value_ind'; unfold mstart_P; intros Hts pp kk; try reflexivity.
  - rewrite has_ts_seconds_VDoc in Hts. rewrite metrics_of_VDoc, flatten_VDoc.
    apply metrics_of_doc_start_F; assumption.
  - rewrite has_ts_seconds_VArr in Hts. rewrite metrics_of_VArr, flatten_VArr.
    apply metrics_of_arr_start_F; assumption.
  - cbn [has_ts_seconds] in Hts. apply negb_false_iff in Hts. apply Z.eqb_eq in Hts. subst t.
    reflexivity.
Qed.

Lemma metrics_of_doc_start : forall p d, doc_has_ts_seconds d = false ->
  map m_start (metrics_of_doc p d) = map snd (flatten_doc d).
Proof.
  intros p d Hts. apply metrics_of_doc_start_F; [|assumption].
  apply Forall_forall. intros kv _. apply metrics_of_start_value.
Qed.

(* ------------------------------------------------------------------ *)
(* flattened values are int64                                           *)
(* ------------------------------------------------------------------ *)
Definition flat_i64_P (v : value) : Prop :=
  leaves_ok v = true -> Forall (fun x => in_i64 (snd x) = true) (flatten v).

Lemma flatten_doc_i64_F : forall d, Forall (fun kv => flat_i64_P (snd kv)) d ->
  doc_leaves_ok d = true -> Forall (fun x => in_i64 (snd x) = true) (flatten_doc d).
Proof.
  intros d HF. induction HF as [|[k x] r Hx HF IH]; intro Hok; [constructor|].
  cbn [snd] in Hx. cbn [doc_leaves_ok] in Hok. apply andb_true_iff in Hok. destruct Hok as [Hok1 Hok2].
  cbn [flatten_doc]. apply Forall_app. split; auto.
Qed.

Lemma flatten_arr_i64_F : forall a, Forall flat_i64_P a ->
  arr_leaves_ok a = true -> Forall (fun x => in_i64 (snd x) = true) (flatten_arr a).
Proof.
  intros a HF. induction HF as [|x r Hx HF IH]; intro Hok; [constructor|].
  cbn [arr_leaves_ok] in Hok. apply andb_true_iff in Hok. destruct Hok as [Hok1 Hok2].
  cbn [flatten_arr]. apply Forall_app. split; auto.
Qed.

Lemma flatten_i64_value : forall v, flat_i64_P v.
Proof.
  induction v using value_ind'; unfold flat_i64_P; intro Hok; try (cbn [flatten]; constructor; fail).
  - cbn [leaves_ok] in Hok. cbn [flatten]. repeat constructor. exact Hok.
  - rewrite leaves_ok_VDoc in Hok. rewrite flatten_VDoc. apply flatten_doc_i64_F; assumption.
  - rewrite leaves_ok_VArr in Hok. rewrite flatten_VArr. apply flatten_arr_i64_F; assumption.
  - cbn [flatten]. repeat constructor. cbn [snd]. destruct b; apply mp_in_i64_intro; lia.
  - cbn [leaves_ok] in Hok. cbn [flatten]. repeat constructor. cbn [snd].
    rewrite (epoch_ms_id _ Hok). apply mp_date_ok_bounds in Hok. apply mp_in_i64_intro. lia.
  - cbn [leaves_ok] in Hok. cbn [flatten]. repeat constructor. cbn [snd]. apply mp_i32_i64. exact Hok.
  - cbn [leaves_ok] in Hok. apply andb_true_iff in Hok. destruct Hok as [Hok1 Hok2].
    cbn [flatten]. repeat constructor; cbn [snd]; apply mp_u32_i64; assumption.
  - cbn [leaves_ok] in Hok. cbn [flatten]. repeat constructor. exact Hok.
Qed.

Lemma flatten_in_i64 : forall d, doc_leaves_ok d = true ->
  Forall (fun x => in_i64 (snd x) = true) (flatten_doc d).
Proof.
  intros d Hok. apply flatten_doc_i64_F; [|assumption].
  apply Forall_forall. intros kv _. apply flatten_i64_value.
Qed.

(* ================================================================== *)
(* C02: keys are full, unique paths                                     *)
(* ================================================================== *)

(* specification of the key of every metric leaf, written independently of metrics_of:
   the list of path segments (field names and decimal array indices) from the root *)
Definition seg_inc : bytes := [105; 110; 99]%N.   (* "inc" *)
Fixpoint leaf_paths (path : list bytes) (v : value) : list (list bytes) :=
  match v with
  | VArr a => (fix go (i : N) (l : list value) := match l with [] => [] | x :: r => leaf_paths (path ++ [dec_digits i]) x ++ go (i + 1)%N r end) 0%N a
  | VDoc d => (fix go (l : list (bytes * value)) := match l with [] => [] | (k, x) :: r => leaf_paths (path ++ [k]) x ++ go r end) d
  | VBool _ | VDouble _ | VInt32 _ | VInt64 _ | VDateTime _ => [path]
  | VTimestamp _ _ => [path; path ++ [seg_inc]]
  | _ => []
  end.
Fixpoint leaf_paths_doc (path : list bytes) (d : doc) : list (list bytes) :=
  match d with [] => [] | (k, x) :: r => leaf_paths (path ++ [k]) x ++ leaf_paths_doc path r end.

Fixpoint leaf_paths_arr (path : list bytes) (i : N) (a : list value) : list (list bytes) :=
  match a with
  | [] => []
  | x :: r => leaf_paths (path ++ [dec_digits i]) x ++ leaf_paths_arr path (i + 1)%N r
  end.

Lemma leaf_paths_VDoc : forall p d, leaf_paths p (VDoc d) = leaf_paths_doc p d.
Proof.
  intros p d. induction d as [|[k0 x] r IH]; [reflexivity|].
  cbn [leaf_paths_doc]. rewrite <- IH. reflexivity.
Qed.

Lemma leaf_paths_arr_eq : forall p a i,
  (fix go (i : N) (l : list value) :=
     match l with
     | [] => []
     | x :: r => leaf_paths (p ++ [dec_digits i]) x ++ go (i + 1)%N r
     end) i a = leaf_paths_arr p i a.
Proof.
  intros p a. induction a as [|x r IH]; intro i; [reflexivity|].
  cbn [leaf_paths_arr]. rewrite <- IH. reflexivity.
Qed.

Lemma leaf_paths_VArr : forall p a, leaf_paths p (VArr a) = leaf_paths_arr p 0%N a.
Proof. intros p a. rewrite <- leaf_paths_arr_eq. reflexivity. Qed.

(* ---- join_dot algebra ---- *)
Lemma join_dot_cons : forall (x y : bytes) (r : list bytes), join_dot (x :: y :: r) = x ++ dot :: join_dot (y :: r).
Proof. reflexivity. Qed.

Lemma join_dot_snoc : forall (l : list bytes) (x : bytes), l <> [] -> join_dot (l ++ [x]) = join_dot l ++ dot :: x.
Proof.
  induction l as [|a r IH]; intros x Hne; [congruence|].
  destruct r as [|b r'].
  - reflexivity.
  - change ((a :: b :: r') ++ [x]) with (a :: b :: (r' ++ [x])).
    rewrite !join_dot_cons.
    change (b :: r' ++ [x]) with ((b :: r') ++ [x]).
    rewrite IH by discriminate. rewrite <- app_assoc. reflexivity.
Qed.

Lemma join_dot_key_snoc : forall (path : list bytes) (key s : bytes),
  join_dot (path ++ [key ++ dot :: s]) = join_dot (path ++ [key]) ++ dot :: s.
Proof.
  intros path key s. destruct path as [|a r].
  - reflexivity.
  - rewrite !join_dot_snoc by discriminate. rewrite <- app_assoc. reflexivity.
Qed.

Lemma app_snoc_ne : forall (A : Type) (l : list A) x, l ++ [x] <> [].
Proof. intros A l x H. destruct l; discriminate. Qed.

(* ---- every key is the dot-joined full path ---- *)
Definition keys_paths_P (v : value) : Prop :=
  forall path key pp, pp <> [] -> join_dot (path ++ [key]) = join_dot pp ->
  map metric_key (metrics_of path key v) = map join_dot (leaf_paths pp v).

Lemma keys_paths_doc_F : forall d, Forall (fun kv => keys_paths_P (snd kv)) d ->
  forall path pp, (forall k, join_dot (path ++ [k]) = join_dot (pp ++ [k])) ->
  map metric_key (metrics_of_doc path d) = map join_dot (leaf_paths_doc pp d).
Proof.
  intros d HF. induction HF as [|[k x] r Hx HF IH]; intros path pp Hj; [reflexivity|].
  cbn [snd] in Hx. cbn [metrics_of_doc leaf_paths_doc]. rewrite !map_app.
  rewrite (Hx path k (pp ++ [k])); [|apply app_snoc_ne|apply Hj].
  rewrite (IH path pp Hj). reflexivity.
Qed.

Lemma keys_paths_arr_F : forall a, Forall keys_paths_P a ->
  forall path key pp i, pp <> [] -> join_dot (path ++ [key]) = join_dot pp ->
  map metric_key (metrics_of_arr path key i a) = map join_dot (leaf_paths_arr pp i a).
Proof.
  intros a HF. induction HF as [|x r Hx HF IH]; intros path key pp i Hne Hj; [reflexivity|].
  cbn [metrics_of_arr leaf_paths_arr]. rewrite !map_app.
  rewrite (Hx path (key ++ dot :: dec_digits i) (pp ++ [dec_digits i])).
  - rewrite (IH path key pp (i + 1)%N Hne Hj). reflexivity.
  - apply app_snoc_ne.
  - rewrite join_dot_key_snoc. rewrite (join_dot_snoc pp) by assumption. rewrite Hj. reflexivity.
Qed.

Lemma keys_paths_value : forall v, keys_paths_P v.
Proof.
  induction v using value_ind'; unfold keys_paths_P; intros path key pp Hne Hj;
    try reflexivity;
    try (cbn [metrics_of leaf_paths map]; unfold metric_key; cbn [m_path m_key]; rewrite Hj; reflexivity).
  - rewrite metrics_of_VDoc, leaf_paths_VDoc. apply keys_paths_doc_F; [assumption|].
    intro k. rewrite (join_dot_snoc (path ++ [key])) by apply app_snoc_ne.
    rewrite (join_dot_snoc pp) by assumption. rewrite Hj. reflexivity.
  - rewrite metrics_of_VArr, leaf_paths_VArr. apply keys_paths_arr_F; assumption.
  - cbn [metrics_of leaf_paths map]; unfold metric_key; cbn [m_path m_key].
    rewrite join_dot_key_snoc. rewrite (join_dot_snoc pp) by assumption. rewrite Hj. reflexivity.
Qed.

Lemma metric_keys_are_paths : forall d,
  map metric_key (metrics_of_doc [] d) = map join_dot (leaf_paths_doc [] d).
Proof.
  intro d. apply keys_paths_doc_F.
  - apply Forall_forall. intros kv _. apply keys_paths_value.
  - intro k. reflexivity.
Qed.

(* ------------------------------------------------------------------ *)
(* uniqueness of keys                                                   *)
(* ------------------------------------------------------------------ *)

(* keys usable in dotted paths: no '.', sibling keys distinct, at every level *)
Fixpoint keys_good (v : value) : bool :=
  match v with
  | VArr a => (fix go (l : list value) := match l with [] => true | x :: r => keys_good x && go r end) a
  | VDoc d => (fix go (seen : list bytes) (l : list (bytes * value)) :=
                 match l with [] => true | (k, x) :: r =>
                   key_nodot k && negb (existsb (bytes_eqb k) seen) && keys_good x && go (k :: seen) r end) [] d
  | _ => true
  end.
Definition doc_keys_good (d : doc) : bool := keys_good (VDoc d).

(* [dec_digits] renders at most 40 digits (its fuel), so it is injective only below 10^40:
   an array index of 10^40 or more is rendered by its 40 low digits.  Uniqueness of the
   keys therefore needs every array to have at most 10^40 elements. *)
Lemma dec_digits_not_injective : dec_digits (10 ^ 40)%N = dec_digits (2 * 10 ^ 40)%N.
Proof. vm_compute. reflexivity. Qed.

Fixpoint arrays_small (v : value) : bool :=
  match v with
  | VArr a => (N.of_nat (length a) <=? 10 ^ 40)%N &&
              (fix go (l : list value) := match l with [] => true | x :: r => arrays_small x && go r end) a
  | VDoc d => (fix go (l : list (bytes * value)) :=
                 match l with [] => true | (_, x) :: r => arrays_small x && go r end) d
  | _ => true
  end.
Definition doc_arrays_small (d : doc) : bool := arrays_small (VDoc d).

(* list-level companions *)
Fixpoint keys_good_doc (seen : list bytes) (d : doc) : bool :=
  match d with [] => true | (k, x) :: r =>
    key_nodot k && negb (existsb (bytes_eqb k) seen) && keys_good x && keys_good_doc (k :: seen) r end.
Fixpoint keys_good_arr (a : list value) : bool :=
  match a with [] => true | x :: r => keys_good x && keys_good_arr r end.
Fixpoint arrays_small_doc (d : doc) : bool :=
  match d with [] => true | (_, x) :: r => arrays_small x && arrays_small_doc r end.
Fixpoint arrays_small_arr (a : list value) : bool :=
  match a with [] => true | x :: r => arrays_small x && arrays_small_arr r end.

Lemma keys_good_VDoc : forall d, keys_good (VDoc d) = keys_good_doc [] d.
Proof. reflexivity. Qed.
Lemma keys_good_VArr : forall a, keys_good (VArr a) = keys_good_arr a.
Proof. reflexivity. Qed.
Lemma arrays_small_VDoc : forall d, arrays_small (VDoc d) = arrays_small_doc d.
Proof. reflexivity. Qed.
Lemma arrays_small_VArr : forall a,
  arrays_small (VArr a) = (N.of_nat (length a) <=? 10 ^ 40)%N && arrays_small_arr a.
Proof. reflexivity. Qed.

(* ---- generic list facts ---- *)
Lemma mp_NoDup_app : forall (A : Type) (l m : list A),
  NoDup l -> NoDup m -> (forall x, In x l -> In x m -> False) -> NoDup (l ++ m).
Proof.
  intros A l m Hl Hm Hd. induction Hl as [|a l Ha Hl IH]; [exact Hm|].
  cbn [app]. constructor.
  - intro Hin. apply in_app_or in Hin. destruct Hin as [Hin|Hin]; [contradiction|].
    apply (Hd a); [left; reflexivity|assumption].
  - apply IH. intros x H1 H2. apply (Hd x); [right; assumption|assumption].
Qed.

Lemma mp_NoDup_map_inj : forall (A B : Type) (f : A -> B) (l : list A),
  (forall x y, In x l -> In y l -> f x = f y -> x = y) -> NoDup l -> NoDup (map f l).
Proof.
  intros A B f l Hinj Hl. induction Hl as [|a l Ha Hl IH]; [constructor|].
  cbn [map]. constructor.
  - intro Hin. apply in_map_iff in Hin. destruct Hin as [y [Hy Hyin]].
    assert (y = a) as Hya.
    { apply Hinj; [right; assumption|left; reflexivity|assumption]. }
    subst y. contradiction.
  - apply IH. intros x y Hx Hy. apply Hinj; right; assumption.
Qed.

(* ---- dot-free segments and injectivity of join_dot ---- *)
Definition nodot (s : bytes) : Prop := ~ In dot s.

Lemma nodot_tail : forall a (x : bytes), nodot (a :: x) -> nodot x.
Proof. intros a x H Hin. apply H. right. assumption. Qed.

Lemma split_at_dot : forall (x y l m : bytes), nodot x -> nodot y ->
  x ++ dot :: l = y ++ dot :: m -> x = y /\ l = m.
Proof.
  induction x as [|a x IH]; intros [|b y] l m Hx Hy Heq; cbn [app] in Heq.
  - injection Heq as Heq. split; [reflexivity|assumption].
  - injection Heq as Hb Heq. exfalso. apply Hy. left. symmetry. assumption.
  - injection Heq as Ha Heq. exfalso. apply Hx. left. assumption.
  - injection Heq as Hab Heq. subst b.
    destruct (IH y l m (nodot_tail _ _ Hx) (nodot_tail _ _ Hy) Heq) as [H1 H2].
    subst. split; reflexivity.
Qed.

Lemma nodot_no_split : forall (x y m : bytes), nodot x -> x <> y ++ dot :: m.
Proof.
  intros x y m Hx Heq. apply Hx. rewrite Heq. apply in_or_app. right. left. reflexivity.
Qed.

Lemma join_dot_inj : forall l1 l2 : list bytes, l1 <> [] -> l2 <> [] ->
  Forall nodot l1 -> Forall nodot l2 -> join_dot l1 = join_dot l2 -> l1 = l2.
Proof.
  induction l1 as [|x r1 IH]; intros [|y r2] Hn1 Hn2 Hd1 Hd2 Heq; try congruence.
  inversion Hd1 as [|? ? Hx Hr1]; subst. inversion Hd2 as [|? ? Hy Hr2]; subst.
  destruct r1 as [|x' r1']; destruct r2 as [|y' r2'].
  - cbn [join_dot] in Heq. subst. reflexivity.
  - rewrite join_dot_cons in Heq. change (join_dot [x]) with x in Heq.
    exfalso. exact (nodot_no_split _ _ _ Hx Heq).
  - rewrite join_dot_cons in Heq. symmetry in Heq. change (join_dot [y]) with y in Heq.
    exfalso. exact (nodot_no_split _ _ _ Hy Heq).
  - rewrite !join_dot_cons in Heq.
    destruct (split_at_dot _ _ _ _ Hx Hy Heq) as [H1 H2]. subst y.
    f_equal. apply IH; try discriminate; assumption.
Qed.

Lemma key_nodot_nodot : forall k, key_nodot k = true -> nodot k.
Proof.
  intros k H Hin. unfold key_nodot in H. rewrite forallb_forall in H.
  specialize (H dot Hin). unfold dot in H. cbn in H. discriminate.
Qed.

Lemma seg_inc_nodot : nodot seg_inc.
Proof.
  unfold nodot, seg_inc, dot. cbn [In]. intro H.
  repeat (destruct H as [H|H]; [discriminate|]). exact H.
Qed.

(* ---- dec_digits: dot-free, and injective below 10^40 ---- *)
Lemma dec_digits_fuel_nodot : forall f n acc, nodot acc -> nodot (dec_digits_fuel f n acc).
Proof.
  induction f as [|f IH]; intros n acc Hacc; [exact Hacc|].
  cbn [dec_digits_fuel].
  assert (nodot ((48 + n mod 10)%N :: acc)) as Hacc'.
  { intros [Hin|Hin]; [|exact (Hacc Hin)]. unfold dot in Hin. remember (n mod 10)%N as m. lia. }
  destruct (n <? 10)%N; [exact Hacc'|]. apply IH. exact Hacc'.
Qed.

Lemma dec_digits_nodot : forall n, nodot (dec_digits n).
Proof. intro n. apply dec_digits_fuel_nodot. intros []. Qed.

Definition dstep (a d : N) : N := (10 * a + (d - 48))%N.

Lemma dec_digits_fuel_val : forall f n acc, (n < 10 ^ N.of_nat f)%N ->
  fold_left dstep (dec_digits_fuel f n acc) 0%N = fold_left dstep acc n.
Proof.
  induction f as [|f IH]; intros n acc Hn.
  - cbn [dec_digits_fuel]. change (10 ^ N.of_nat 0)%N with 1%N in Hn.
    assert (n = 0%N) by lia. subst n. reflexivity.
  - cbn [dec_digits_fuel]. pose proof (N.div_mod n 10 ltac:(discriminate)) as Hdm.
    pose proof (N.mod_lt n 10 ltac:(discriminate)) as Hml.
    destruct (n <? 10)%N eqn:E.
    + apply N.ltb_lt in E. cbn [fold_left]. f_equal. unfold dstep.
      rewrite N.mod_small by assumption. lia.
    + apply N.ltb_ge in E. rewrite IH.
      * cbn [fold_left]. f_equal. unfold dstep.
        remember (n mod 10)%N as m. remember (n / 10)%N as q. lia.
      * rewrite Nat2N.inj_succ, N.pow_succ_r' in Hn.
        apply N.div_lt_upper_bound; [discriminate|assumption].
Qed.

Lemma dec_digits_inj : forall i j, (i < 10 ^ 40)%N -> (j < 10 ^ 40)%N ->
  dec_digits i = dec_digits j -> i = j.
Proof.
  intros i j Hi Hj Heq.
  change 40%N with (N.of_nat 40) in Hi, Hj.
  pose proof (dec_digits_fuel_val 40 i [] Hi) as H1.
  pose proof (dec_digits_fuel_val 40 j [] Hj) as H2.
  fold (dec_digits i) in H1. fold (dec_digits j) in H2.
  rewrite Heq in H1. rewrite H1 in H2. exact H2.
Qed.

(* ---- shape of the leaf paths: all extend the prefix ---- *)
Definition prefix_P (v : value) : Prop :=
  forall p q, In q (leaf_paths p v) -> exists s, q = p ++ s.

Lemma leaf_paths_doc_prefix_F : forall d, Forall (fun kv => prefix_P (snd kv)) d ->
  forall p q, In q (leaf_paths_doc p d) -> exists k s, In k (map fst d) /\ q = p ++ k :: s.
Proof.
  intros d HF. induction HF as [|[k x] r Hx HF IH]; intros p q Hin; [destruct Hin|].
  cbn [snd] in Hx. cbn [leaf_paths_doc] in Hin. apply in_app_or in Hin. destruct Hin as [Hin|Hin].
  - destruct (Hx _ _ Hin) as [s Hs]. exists k, s. split; [left; reflexivity|].
    rewrite Hs, <- app_assoc. reflexivity.
  - destruct (IH _ _ Hin) as [k' [s [Hk Hs]]]. exists k', s. split; [right; assumption|assumption].
Qed.

Lemma leaf_paths_arr_prefix_F : forall a, Forall prefix_P a ->
  forall p i q, In q (leaf_paths_arr p i a) ->
  exists j s, (i <= j < i + N.of_nat (length a))%N /\ q = p ++ dec_digits j :: s.
Proof.
  intros a HF. induction HF as [|x r Hx HF IH]; intros p i q Hin; [destruct Hin|].
  cbn [leaf_paths_arr] in Hin. apply in_app_or in Hin. destruct Hin as [Hin|Hin].
  - destruct (Hx _ _ Hin) as [s Hs]. exists i, s. split.
    + cbn [length]. lia.
    + rewrite Hs, <- app_assoc. reflexivity.
  - destruct (IH _ _ _ Hin) as [j [s [Hj Hs]]]. exists j, s. split; [|assumption].
    cbn [length]. lia.
Qed.

Ltac leaf_in H :=
  cbn [leaf_paths In] in H;
  repeat match type of H with _ \/ _ => destruct H as [H|H] end;
  try contradiction; subst.

Lemma leaf_paths_prefix : forall v, prefix_P v.
Proof.
  induction v using value_ind'; unfold prefix_P; intros pp q Hin;
    try (leaf_in Hin; exists []; rewrite app_nil_r; reflexivity).
  - rewrite leaf_paths_VDoc in Hin.
    destruct (leaf_paths_doc_prefix_F _ H _ _ Hin) as [k [s [_ Hs]]]. exists (k :: s). assumption.
  - rewrite leaf_paths_VArr in Hin.
    destruct (leaf_paths_arr_prefix_F _ H _ _ _ Hin) as [j [s [_ Hs]]]. exists (dec_digits j :: s). assumption.
  - leaf_in Hin.
    + exists []. rewrite app_nil_r. reflexivity.
    + exists [seg_inc]. reflexivity.
Qed.

Lemma leaf_paths_doc_prefix : forall d p q, In q (leaf_paths_doc p d) ->
  exists k s, In k (map fst d) /\ q = p ++ k :: s.
Proof.
  intros d. apply leaf_paths_doc_prefix_F. apply Forall_forall. intros kv _. apply leaf_paths_prefix.
Qed.

Lemma leaf_paths_arr_prefix : forall a p i q, In q (leaf_paths_arr p i a) ->
  exists j s, (i <= j < i + N.of_nat (length a))%N /\ q = p ++ dec_digits j :: s.
Proof.
  intros a. apply leaf_paths_arr_prefix_F. apply Forall_forall. intros kv _. apply leaf_paths_prefix.
Qed.

(* ---- what keys_good says about one level of a document ---- *)
Lemma existsb_bytes_eqb_false : forall k seen, existsb (bytes_eqb k) seen = false -> ~ In k seen.
Proof.
  intros k seen H Hin.
  assert (existsb (bytes_eqb k) seen = true) as Ht.
  { apply existsb_exists. exists k. split; [assumption|].
    unfold bytes_eqb. destruct (list_eq_dec N.eq_dec k k); [reflexivity|congruence]. }
  congruence.
Qed.

Lemma keys_good_doc_spec : forall d seen, keys_good_doc seen d = true ->
  Forall (fun kv => nodot (fst kv) /\ keys_good (snd kv) = true) d /\
  NoDup (map fst d) /\ (forall k, In k (map fst d) -> ~ In k seen).
Proof.
  induction d as [|[k x] r IH]; intros seen H.
  - split; [constructor|]. split; [constructor|]. intros k [].
  - cbn [keys_good_doc] in H. rewrite !andb_true_iff in H. destruct H as [[[Hk Hseen] Hx] Hr].
    apply negb_true_iff in Hseen. apply existsb_bytes_eqb_false in Hseen.
    destruct (IH _ Hr) as [HF [Hnd Hdis]]. cbn [map fst].
    split; [|split].
    + constructor; [|assumption]. cbn [fst snd]. split; [apply key_nodot_nodot|]; assumption.
    + constructor; [|assumption]. intro Hin. apply (Hdis k Hin). left. reflexivity.
    + intros k' [Hk'|Hk'].
      * subst k'. assumption.
      * intro Hin. apply (Hdis k' Hk'). right. assumption.
Qed.

(* ---- all paths consist of dot-free segments ---- *)
Definition segs_nodot_P (v : value) : Prop :=
  keys_good v = true -> forall p q, Forall nodot p -> In q (leaf_paths p v) -> Forall nodot q.

Lemma Forall_nodot_snoc : forall p k, Forall nodot p -> nodot k -> Forall nodot (p ++ [k]).
Proof. intros p k Hp Hk. apply Forall_app. split; [assumption|]. constructor; [assumption|constructor]. Qed.

Lemma segs_nodot_doc_F : forall d, Forall (fun kv => segs_nodot_P (snd kv)) d ->
  Forall (fun kv => nodot (fst kv) /\ keys_good (snd kv) = true) d ->
  forall p q, Forall nodot p -> In q (leaf_paths_doc p d) -> Forall nodot q.
Proof.
  intros d HF. induction HF as [|[k x] r Hx HF IH]; intros Hg p q Hp Hin; [destruct Hin|].
  cbn [snd] in Hx. inversion Hg as [|? ? [Hk Hgx] Hgr]; subst. cbn [fst snd] in Hk, Hgx.
  cbn [leaf_paths_doc] in Hin. apply in_app_or in Hin. destruct Hin as [Hin|Hin].
  - apply (Hx Hgx (p ++ [k]) q); [apply Forall_nodot_snoc|]; assumption.
  - apply (IH Hgr p q); assumption.
Qed.

Lemma segs_nodot_arr_F : forall a, Forall segs_nodot_P a -> keys_good_arr a = true ->
  forall p i q, Forall nodot p -> In q (leaf_paths_arr p i a) -> Forall nodot q.
Proof.
  intros a HF. induction HF as [|x r Hx HF IH]; intros Hg p i q Hp Hin; [destruct Hin|].
  cbn [keys_good_arr] in Hg. apply andb_true_iff in Hg. destruct Hg as [Hgx Hgr].
  cbn [leaf_paths_arr] in Hin. apply in_app_or in Hin. destruct Hin as [Hin|Hin].
  - apply (Hx Hgx (p ++ [dec_digits i]) q); [apply Forall_nodot_snoc|]; try assumption.
    apply dec_digits_nodot.
  - apply (IH Hgr p (i + 1)%N q); assumption.
Qed.

Lemma segs_nodot_value : forall v, segs_nodot_P v.
Proof.
  induction v using value_ind'; unfold segs_nodot_P; intros Hg pp q Hp Hin;
    try (leaf_in Hin; assumption).
  - rewrite leaf_paths_VDoc in Hin. rewrite keys_good_VDoc in Hg.
    apply keys_good_doc_spec in Hg. destruct Hg as [Hg _].
    apply (segs_nodot_doc_F _ H Hg pp q); assumption.
  - rewrite leaf_paths_VArr in Hin. rewrite keys_good_VArr in Hg.
    apply (segs_nodot_arr_F _ H Hg pp 0%N q); assumption.
  - leaf_in Hin; [assumption|]. apply Forall_nodot_snoc; [assumption|apply seg_inc_nodot].
Qed.

(* ---- distinct leaves have distinct paths ---- *)
Definition paths_nodup_P (v : value) : Prop :=
  keys_good v = true -> arrays_small v = true -> forall p, NoDup (leaf_paths p v).

Lemma paths_nodup_doc_F : forall d, Forall (fun kv => paths_nodup_P (snd kv)) d ->
  Forall (fun kv => nodot (fst kv) /\ keys_good (snd kv) = true) d ->
  NoDup (map fst d) -> arrays_small_doc d = true ->
  forall p, NoDup (leaf_paths_doc p d).
Proof.
  intros d HF. induction HF as [|[k x] r Hx HF IH]; intros Hg Hnd Hsm p; [constructor|].
  cbn [snd] in Hx. inversion Hg as [|? ? [Hk Hgx] Hgr]; subst. cbn [fst snd] in Hk, Hgx.
  cbn [map fst] in Hnd. inversion Hnd as [|? ? Hkr Hndr]; subst.
  cbn [arrays_small_doc] in Hsm. apply andb_true_iff in Hsm. destruct Hsm as [Hsx Hsr].
  cbn [leaf_paths_doc]. apply mp_NoDup_app.
  - apply Hx; assumption.
  - apply IH; assumption.
  - intros q H1 H2.
    destruct (leaf_paths_prefix x _ _ H1) as [s1 Hs1].
    destruct (leaf_paths_doc_prefix r _ _ H2) as [k' [s2 [Hk' Hs2]]].
    rewrite Hs1, <- app_assoc in Hs2. apply app_inv_head in Hs2. cbn [app] in Hs2.
    injection Hs2 as Hkk _. subst k'. contradiction.
Qed.

Lemma paths_nodup_arr_F : forall a, Forall paths_nodup_P a ->
  keys_good_arr a = true -> arrays_small_arr a = true ->
  forall p i, (i + N.of_nat (length a) <= 10 ^ 40)%N -> NoDup (leaf_paths_arr p i a).
Proof.
  intros a HF. induction HF as [|x r Hx HF IH]; intros Hg Hsm p i Hlen; [constructor|].
  cbn [keys_good_arr] in Hg. apply andb_true_iff in Hg. destruct Hg as [Hgx Hgr].
  cbn [arrays_small_arr] in Hsm. apply andb_true_iff in Hsm. destruct Hsm as [Hsx Hsr].
  cbn [length] in Hlen. rewrite Nat2N.inj_succ in Hlen.
  cbn [leaf_paths_arr]. apply mp_NoDup_app.
  - apply Hx; assumption.
  - apply IH; try assumption. lia.
  - intros q H1 H2.
    destruct (leaf_paths_prefix x _ _ H1) as [s1 Hs1].
    destruct (leaf_paths_arr_prefix r _ _ _ H2) as [j [s2 [Hj Hs2]]].
    rewrite Hs1, <- app_assoc in Hs2. apply app_inv_head in Hs2. cbn [app] in Hs2.
    injection Hs2 as Hij _. apply dec_digits_inj in Hij; lia.
Qed.

Lemma paths_nodup_value : forall v, paths_nodup_P v.
Proof.
  induction v using value_ind'; unfold paths_nodup_P; intros Hg Hsm pp;
    try (cbn [leaf_paths]; repeat constructor; cbn [In]; tauto).
  - rewrite leaf_paths_VDoc. rewrite keys_good_VDoc in Hg. rewrite arrays_small_VDoc in Hsm.
    apply keys_good_doc_spec in Hg. destruct Hg as [Hg [Hnd _]].
    apply paths_nodup_doc_F; assumption.
  - rewrite leaf_paths_VArr. rewrite keys_good_VArr in Hg. rewrite arrays_small_VArr in Hsm.
    apply andb_true_iff in Hsm. destruct Hsm as [Hlen Hsm]. apply N.leb_le in Hlen.
    apply paths_nodup_arr_F; try assumption.
  - cbn [leaf_paths]. constructor; [|repeat constructor; cbn [In]; tauto].
    cbn [In]. intros [Heq|[]].
    assert (length (pp ++ [seg_inc]) = length pp) as Hl by (rewrite Heq; reflexivity).
    rewrite app_length in Hl. cbn [length] in Hl. lia.
Qed.

(* distinct leaves never share a key.  No side condition about timestamps is needed:
   the second key "k.inc" of a timestamp leaf k could only clash with a sibling field
   literally named "k.inc", which [key_nodot] (part of [keys_good]) already excludes.
   The only extra hypothesis is the bound on array lengths that makes the decimal
   rendering of indices injective (see [dec_digits_not_injective]). *)
Lemma metric_keys_nodup : forall d, doc_keys_good d = true -> doc_arrays_small d = true ->
  NoDup (map metric_key (metrics_of_doc [] d)).
Proof.
  intros d Hg Hsm. rewrite metric_keys_are_paths.
  assert (forall q, In q (leaf_paths_doc [] d) -> q <> [] /\ Forall nodot q) as Hshape.
  { intros q Hin. split.
    - destruct (leaf_paths_doc_prefix d _ _ Hin) as [k [s [_ Hs]]]. rewrite Hs. discriminate.
    - rewrite <- leaf_paths_VDoc in Hin.
      apply (segs_nodot_value (VDoc d) Hg [] q); [constructor|assumption]. }
  apply mp_NoDup_map_inj.
  - intros q1 q2 H1 H2 Heq. destruct (Hshape _ H1) as [Hn1 Hd1]. destruct (Hshape _ H2) as [Hn2 Hd2].
    apply join_dot_inj; assumption.
  - rewrite <- leaf_paths_VDoc. apply paths_nodup_value; assumption.
Qed.

Print Assumptions restore_doc_same_schema.
Print Assumptions metrics_of_doc_start.
Print Assumptions metric_keys_are_paths.
Print Assumptions metric_keys_nodup.
