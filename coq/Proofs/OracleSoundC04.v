(* Oracle soundness for C04: the executable oracle c04_ok of Model/FrameOk.v
   accepts the model reader's own observation of a damaged stream. *)
From Coq Require Import ZArith NArith List Bool Lia Arith.
From FV.Model Require Import Bytes Bson Metrics Codec Collector Wf RoundTrip CollectorOk Validate Frame Views Instance FrameOk.
From FV.Proofs Require Import FrameProofs.
Import ListNotations.
Open Scope Z_scope.

(* a document that readChunks hands to the chunk decoder: type is the number 1 (and
   not the number 0); on the streams the collectors write: the int32 1 *)
Definition is_chunk_doc (d : doc) : bool :=
  negb (is_num 0 (lookup k_type d)) && is_num 1 (lookup k_type d).

Section Reader.
Variable inflate : bytes -> option bytes.
Variable limit : N.
Variable cap : option N.

Lemma chunks_count : forall ds meta cs,
  read_chunks_b inflate limit cap meta ds = (cs, None) -> length cs = length (filter is_chunk_doc ds).
Proof.
  induction ds as [|d r IH]; intros meta cs H; cbn [read_chunks_b] in H.
  - injection H as <-. reflexivity.
  - cbn [filter]. unfold is_chunk_doc at 1.
    destruct (is_num 0 (lookup k_type d)); cbn [negb andb]; [exact (IH _ _ H)|].
    destruct (is_num 1 (lookup k_type d)); cbn [negb] in H |- *; [|exact (IH _ _ H)].
    destruct (read_chunk_b inflate limit cap meta d) as [c|e]; [|discriminate H].
    destruct (read_chunks_b inflate limit cap meta r) as [cs' e'] eqn:Er.
    injection H as <- ->. cbn [length]. f_equal. exact (IH _ _ Er).
Qed.

Lemma firstn_app_len : forall (A : Type) (a b : list A), firstn (length a) (a ++ b) = a.
Proof. intros A a b. induction a as [|x a IH]; [reflexivity|]. cbn [length app firstn]. rewrite IH. reflexivity. Qed.

Lemma stream_after_good : forall good rest cs0,
  Forall frame_ok good -> read_chunks_b inflate limit cap None good = (cs0, None) ->
  exists cs', fst (read_stream inflate limit cap (enc_stream good ++ rest)) = cs0 ++ cs'.
Proof.
  intros good rest cs0 Hf Hc. unfold read_stream.
  rewrite (prefix_intact_docs good rest Hf), read_chunks_b_app, Hc.
  destruct (read_chunks_b inflate limit cap (last_meta None good) (fst (read_docs rest))) as [cb eb].
  exists cb. reflexivity.
Qed.

Lemma c04_oracle_sound : forall good rest seed_rest cs0,
  Forall frame_ok good ->
  read_chunks_b inflate limit cap None good = (cs0, None) ->
  let m := length (filter is_chunk_doc good) in
  let r := read_stream inflate limit cap (enc_stream good ++ rest) in
  let rs := read_stream inflate limit cap (enc_stream good ++ seed_rest) in
  firstn m (fst r) = cs0 /\ firstn m (fst rs) = cs0 /\
  c04_ok (snd r) (repeat (snd r) 5) m (length (fst r)) true = true.
Proof.
  intros good rest seed_rest cs0 Hf Hc m r rs.
  assert (Hm : m = length cs0) by (symmetry; exact (chunks_count _ _ _ Hc)).
  destruct (stream_after_good good rest cs0 Hf Hc) as [c1 H1].
  destruct (stream_after_good good seed_rest cs0 Hf Hc) as [c2 H2].
  fold r in H1. fold rs in H2. rewrite H1, H2, Hm.
  split; [apply firstn_app_len|]. split; [apply firstn_app_len|].
  unfold c04_ok. rewrite andb_true_r. apply andb_true_iff. split.
  - destruct (snd r); reflexivity.
  - apply Nat.leb_le. rewrite app_length. lia.
Qed.

End Reader.

(* what the driver takes for "damaged": the error flag of the byte-level model reader
   in its executable instance (trivial codec, evaluation cap) *)
Lemma c04_damaged_spec : forall bs,
  fst (c04_damaged bs) = snd (read_stream inflate_flag reader_limit (Some delta_cap) bs).
Proof.
  intro bs. unfold c04_damaged, x_read_stream, read_stream.
  destruct (read_docs bs) as [docs fe].
  destruct (read_chunks_b inflate_flag reader_limit (Some delta_cap) None docs) as [cs ce]. reflexivity.
Qed.
