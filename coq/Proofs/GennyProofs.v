(* Proofs about Model/Genny.v (C20).  The vocabulary of the theorem statements
   (positions, "first sample of a new second", the hypotheses) is defined first. *)
From Coq Require Import ZArith List Bool Lia Arith.
From FV.Model Require Import Genny.
Import ListNotations.
Open Scope Z_scope.

(* ---- vocabulary ---- *)

(* position of a sample in a stream: (chunk number, index in the chunk), ordered
   lexicographically *)
Definition pos := (nat * nat)%type.
Definition pos_le (p q : pos) : Prop :=
  (fst p < fst q)%nat \/ (fst p = fst q /\ (snd p <= snd q)%nat).
Definition pos_lt (p q : pos) : Prop :=
  (fst p < fst q)%nat \/ (fst p = fst q /\ (snd p < snd q)%nat).

(* where the cursor stands: current chunk number and prevIdx; (0,0) before the
   first chunk was fetched *)
Definition c_pos (c : cursor) : pos := (pred (c_ci c), c_idx c).

Definition sample_at (chs : list chunk) (p : pos) : option sample :=
  match nth_error chs (fst p) with
  | Some ch => nth_error ch (snd p)
  | None => None
  end.

(* s, at position q, is the first sample at or after [from] whose ceiling second
   differs from psec *)
Definition first_new_second (chs : list chunk) (from : pos) (psec : Z) (q : pos) (s : sample) : Prop :=
  pos_le from q /\ sample_at chs q = Some s /\ ceil_sec (fst s) <> psec /\
  forall p s', pos_le from p -> pos_lt p q -> sample_at chs p = Some s' -> ceil_sec (fst s') = psec.

(* v is the translation of one of the stream's own samples *)
Definition own (chs : list chunk) (v : vals) : Prop :=
  exists ch s, In ch chs /\ In s ch /\ v = select s.

(* what one actor does in one second: repeat the previous sub-document, or
   select the first sample of a new second *)
Definition selection_rule (chs : list chunk) (t : Z) (c c' : cursor) (v : vals) : Prop :=
  v = c_psample c' /\
  ((c_psec c' = c_psec c /\ c_psample c' = c_psample c) \/
   (c_psec c <= t /\ exists s, first_new_second chs (c_pos c) (c_psec c) (c_pos c') s /\
                              v = select s /\ c_psec c' = ceil_sec (fst s))).

(* hypotheses on actor lists *)
Definition has_chunks (actors : list actor) : Prop := Forall (fun a => a_chunks a <> []) actors.
Definition keys_ok (actors : list actor) : Prop :=
  Forall (fun a => forall ch s, In ch (a_chunks a) -> In s ch -> select s <> []) actors.
Definition stamps_in_range (start end_ : Z) : Prop := - 2 ^ 63 <= 1000 * start /\ 1000 * end_ <= 2 ^ 63.

(* cursors after n seconds *)
Definition states_after (actors : list actor) (start : Z) (n : nat) : option (list astate) :=
  option_map fst (run n start (init_states actors)).

Definition chunk_last_ts (ch : chunk) : Z :=
  match ch with [] => 0 | s0 :: _ => fst (last ch s0) end.

(* ---- positions ---- *)
Lemma pos_le_refl : forall p, pos_le p p.
Proof. intros [a b]. unfold pos_le. simpl. lia. Qed.

Lemma pos_le_trans : forall p q r, pos_le p q -> pos_le q r -> pos_le p r.
Proof. intros [a b] [c d] [e f]. unfold pos_le. simpl. lia. Qed.

(* ---- the scan inside one chunk ---- *)
Lemma find_from_some : forall psec l j q s,
  find_from psec l j = Some (q, s) ->
  (j <= q)%nat /\ nth_error l (q - j) = Some s /\ ceil_sec (fst s) <> psec /\
  forall k s', (k < q - j)%nat -> nth_error l k = Some s' -> ceil_sec (fst s') = psec.
Proof.
  intros psec l. induction l as [|x r IH]; intros j q s H; simpl in H; [discriminate|].
  destruct (ceil_sec (fst x) =? psec) eqn:E.
  - apply IH in H. destruct H as (Hle & Hn & Hs & Hk).
    apply Z.eqb_eq in E.
    replace (q - j)%nat with (S (q - S j)) by lia.
    repeat split; try lia; auto.
    intros k s' Hlt Hk'. destruct k as [|k]; simpl in Hk'.
    + inversion Hk'; subst; auto.
    + apply (Hk k); auto. lia.
  - inversion H; subst. apply Z.eqb_neq in E.
    replace (q - q)%nat with O by lia. simpl.
    repeat split; auto. intros k s' Hlt. lia.
Qed.

Lemma find_from_none : forall psec l j,
  find_from psec l j = None -> forall s', In s' l -> ceil_sec (fst s') = psec.
Proof.
  intros psec l. induction l as [|x r IH]; intros j H s' Hin; simpl in *; [tauto|].
  destruct (ceil_sec (fst x) =? psec) eqn:E; [|discriminate].
  destruct Hin as [->|Hin]; [apply Z.eqb_eq; auto|eauto].
Qed.

Lemma nth_error_skipn' : forall (A : Type) n (l : list A) k,
  nth_error (skipn n l) k = nth_error l (n + k).
Proof.
  intros A n. induction n as [|n IH]; intros l k; simpl; auto.
  destruct l; simpl; auto. destruct k; auto.
Qed.

Lemma scan_some : forall psec cur idx q s,
  find_from psec (skipn idx cur) idx = Some (q, s) ->
  (idx <= q)%nat /\ nth_error cur q = Some s /\ ceil_sec (fst s) <> psec /\
  forall k s', (idx <= k < q)%nat -> nth_error cur k = Some s' -> ceil_sec (fst s') = psec.
Proof.
  intros psec cur idx q s H. apply find_from_some in H.
  destruct H as (Hle & Hn & Hs & Hk).
  rewrite nth_error_skipn' in Hn. replace (idx + (q - idx))%nat with q in Hn by lia.
  repeat split; auto. intros k s' Hr Hk'.
  apply (Hk (k - idx)%nat); [lia|]. rewrite nth_error_skipn'.
  replace (idx + (k - idx))%nat with k by lia. auto.
Qed.

Lemma scan_none : forall psec cur idx,
  find_from psec (skipn idx cur) idx = None ->
  forall k s', (idx <= k)%nat -> nth_error cur k = Some s' -> ceil_sec (fst s') = psec.
Proof.
  intros psec cur idx H k s' Hr Hk.
  apply (find_from_none _ _ _ H). apply (nth_error_In _ (k - idx)).
  rewrite nth_error_skipn'. replace (idx + (k - idx))%nat with k by lia. auto.
Qed.

(* ---- the chunk loop ---- *)
Definition cur_wf (chs : list chunk) (c : cursor) : Prop :=
  exists done cur, c_cur c = Some cur /\ chs = done ++ cur :: c_rest c /\ c_ci c = S (length done).

Lemma len_snoc : forall (done : list chunk) (cur : chunk), S (S (length done)) = S (length (done ++ [cur])).
Proof. intros. rewrite app_length. simpl. lia. Qed.

Lemma split_snoc : forall (done : list chunk) (cur c1 : chunk) (r : list chunk), done ++ cur :: c1 :: r = (done ++ [cur]) ++ c1 :: r.
Proof. intros. rewrite <- app_assoc. reflexivity. Qed.

Lemma sample_at_cur : forall (done : list chunk) (cur : chunk) (rest : list chunk) k,
  sample_at (done ++ cur :: rest) (length done, k) = nth_error cur k.
Proof.
  intros. unfold sample_at. simpl.
  rewrite nth_error_app2 by lia. replace (length done - length done)%nat with O by lia. reflexivity.
Qed.

Lemma own_of_nth : forall (chs : list chunk) (done : list chunk) (cur : chunk) (rest : list chunk) q s,
  chs = done ++ cur :: rest ->
  nth_error cur q = Some s -> own chs (select s).
Proof.
  intros chs done cur rest q s Hc H. exists cur, s. repeat split.
  - rewrite Hc. apply in_or_app. right. left. reflexivity.
  - eapply nth_error_In; eauto.
Qed.

Lemma window_loop_wf : forall (chs rest : list chunk) (cur : chunk) (done : list chunk) idx psec ps r c',
  chs = done ++ cur :: rest ->
  window_loop rest cur (S (length done)) idx psec ps = (r, c') ->
  cur_wf chs c' /\ pos_le (length done, idx) (c_pos c') /\
  (c_psample c' = ps \/ own chs (c_psample c')) /\
  (forall e, r = Some e -> e = c_psample c' /\ own chs e).
Proof.
  intros chs rest. induction rest as [|c1 rr IH]; intros cur done idx psec ps r c' Hchs H; simpl in H.
  - destruct (find_from psec (skipn idx cur) idx) as [[j s]|] eqn:F.
    + destruct (scan_some _ _ _ _ _ F) as (Hle & Hn & _ & _).
      pose proof (own_of_nth _ done cur [] j s Hchs Hn) as Hown.
      destruct (select s) as [|kv e] eqn:E; inversion H; subst r c'; clear H.
      * split; [exists done, cur; simpl; auto|].
        split; [unfold c_pos, pos_le; simpl; lia|].
        split; [right; simpl; auto|]. intros e0 He; discriminate.
      * split; [exists done, cur; simpl; auto|].
        split; [unfold c_pos, pos_le; simpl; lia|].
        split; [right; simpl; auto|]. intros e0 He; inversion He; subst; simpl; auto.
    + inversion H; subst r c'; clear H.
      split; [exists done, cur; simpl; auto|].
      split; [unfold c_pos, pos_le; simpl; lia|].
      split; [left; reflexivity|]. intros e0 He; discriminate.
  - destruct (find_from psec (skipn idx cur) idx) as [[j s]|] eqn:F.
    + destruct (scan_some _ _ _ _ _ F) as (Hle & Hn & _ & _).
      pose proof (own_of_nth _ done cur (c1 :: rr) j s Hchs Hn) as Hown.
      destruct (select s) as [|kv e] eqn:E.
      * rewrite (len_snoc done cur) in H. rewrite split_snoc in Hchs.
        destruct (IH _ _ _ _ _ _ _ Hchs H) as (Hwf & Hpos & Hps & Hr).
        split; [auto|]. split.
        { eapply pos_le_trans; [|exact Hpos]. unfold pos_le. simpl.
          rewrite app_length. simpl. lia. }
        split; [|auto].
        destruct Hps as [Hps|Hps]; [|auto]. right. rewrite Hps. auto.
      * inversion H; subst r c'; clear H.
        split; [exists done, cur; simpl; auto|].
        split; [unfold c_pos, pos_le; simpl; lia|].
        split; [right; simpl; auto|]. intros e0 He; inversion He; subst; simpl; auto.
    + rewrite (len_snoc done cur) in H. rewrite split_snoc in Hchs.
      destruct (IH _ _ _ _ _ _ _ Hchs H) as (Hwf & Hpos & Hps & Hr).
      split; [auto|]. split.
      { eapply pos_le_trans; [|exact Hpos]. unfold pos_le. simpl.
        rewrite app_length. simpl. lia. }
      split; auto.
Qed.

Lemma window_loop_first : forall (chs rest : list chunk) (cur : chunk) (done : list chunk) idx psec ps r c',
  chs = done ++ cur :: rest ->
  (forall ch s, In ch chs -> In s ch -> select s <> []) ->
  window_loop rest cur (S (length done)) idx psec ps = (r, c') ->
  match r with
  | Some e => exists s, first_new_second chs (length done, idx) psec (c_pos c') s /\
                        e = select s /\ c_psec c' = ceil_sec (fst s) /\ c_psample c' = e
  | None => c_psec c' = psec /\ c_psample c' = ps
  end.
Proof.
  intros chs rest. induction rest as [|c1 rr IH]; intros cur done idx psec ps r c' Hchs Hkeys H; simpl in H.
  - destruct (find_from psec (skipn idx cur) idx) as [[j s]|] eqn:F.
    + destruct (scan_some _ _ _ _ _ F) as (Hle & Hn & Hsec & Hk).
      destruct (select s) as [|kv e] eqn:E.
      * exfalso. apply (Hkeys cur s); auto.
        -- rewrite Hchs. apply in_or_app. right. left. reflexivity.
        -- eapply nth_error_In; eauto.
      * inversion H; subst r c'; clear H. exists s. simpl. repeat split; auto.
        -- unfold c_pos, pos_le. simpl. lia.
        -- unfold c_pos. simpl. rewrite Hchs. rewrite sample_at_cur. auto.
        -- intros p s' Hp Hq Hs'. unfold c_pos in Hq. simpl in Hq.
           destruct p as [pc pi]. unfold pos_le, pos_lt in *. simpl in *.
           assert (pc = length done) by lia. subst pc.
           rewrite Hchs in Hs'. rewrite sample_at_cur in Hs'.
           apply (Hk pi); auto. lia.
    + inversion H; subst r c'; clear H. simpl. auto.
  - destruct (find_from psec (skipn idx cur) idx) as [[j s]|] eqn:F.
    + destruct (scan_some _ _ _ _ _ F) as (Hle & Hn & Hsec & Hk).
      destruct (select s) as [|kv e] eqn:E.
      * exfalso. apply (Hkeys cur s); auto.
        -- rewrite Hchs. apply in_or_app. right. left. reflexivity.
        -- eapply nth_error_In; eauto.
      * inversion H; subst r c'; clear H. exists s. simpl. repeat split; auto.
        -- unfold c_pos, pos_le. simpl. lia.
        -- unfold c_pos. simpl. rewrite Hchs. rewrite sample_at_cur. auto.
        -- intros p s' Hp Hq Hs'. unfold c_pos in Hq. simpl in Hq.
           destruct p as [pc pi]. unfold pos_le, pos_lt in *. simpl in *.
           assert (pc = length done) by lia. subst pc.
           rewrite Hchs in Hs'. rewrite sample_at_cur in Hs'.
           apply (Hk pi); auto. lia.
    + pose proof (scan_none _ _ _ F) as Hnone.
      rewrite (len_snoc done cur) in H. pose proof Hchs as Hchs'. rewrite split_snoc in Hchs'.
      specialize (IH _ _ _ _ _ _ _ Hchs' Hkeys H).
      destruct r as [e|]; [|exact IH].
      destruct IH as (s & (Hfrom & Hat & Hsec & Hskip) & He & Hps & Hsm).
      exists s. repeat split; auto.
      * eapply pos_le_trans; [|exact Hfrom]. unfold pos_le. simpl.
        rewrite app_length. simpl. lia.
      * intros p s' Hp Hq Hs'. destruct p as [pc pi].
        destruct (Nat.eq_dec pc (length done)) as [->|Hne].
        -- rewrite Hchs in Hs'. rewrite sample_at_cur in Hs'.
           apply (Hnone pi); auto. unfold pos_le in Hp. simpl in Hp. lia.
        -- apply (Hskip (pc, pi)); auto.
           unfold pos_le in *. simpl in *. rewrite app_length. simpl. lia.
Qed.

(* the skipped samples in the "nothing found" case *)
Lemma window_loop_none : forall (chs rest : list chunk) (cur : chunk) (done : list chunk) idx psec ps c',
  chs = done ++ cur :: rest ->
  (forall ch s, In ch chs -> In s ch -> select s <> []) ->
  window_loop rest cur (S (length done)) idx psec ps = (None, c') ->
  forall p s', pos_le (length done, idx) p -> sample_at chs p = Some s' -> ceil_sec (fst s') = psec.
Proof.
  intros chs rest. induction rest as [|c1 rr IH]; intros cur done idx psec ps c' Hchs Hkeys H; simpl in H.
  - destruct (find_from psec (skipn idx cur) idx) as [[j s]|] eqn:F.
    + destruct (scan_some _ _ _ _ _ F) as (Hle & Hn & Hsec & Hk).
      destruct (select s) as [|kv e] eqn:E; [|discriminate].
      exfalso. apply (Hkeys cur s); auto.
      * rewrite Hchs. apply in_or_app. right. left. reflexivity.
      * eapply nth_error_In; eauto.
    + pose proof (scan_none _ _ _ F) as Hnone.
      intros [pc pi] s' Hp Hs'.
      destruct (Nat.eq_dec pc (length done)) as [->|Hne].
      * rewrite Hchs in Hs'. rewrite sample_at_cur in Hs'.
        apply (Hnone pi); auto. unfold pos_le in Hp. simpl in Hp. lia.
      * exfalso. unfold sample_at in Hs'. simpl in Hs'.
        assert (Hnn : nth_error chs pc = None).
        { apply nth_error_None. rewrite Hchs. rewrite app_length. simpl.
          unfold pos_le in Hp. simpl in Hp. lia. }
        rewrite Hnn in Hs'. discriminate.
  - destruct (find_from psec (skipn idx cur) idx) as [[j s]|] eqn:F.
    + destruct (scan_some _ _ _ _ _ F) as (Hle & Hn & Hsec & Hk).
      destruct (select s) as [|kv e] eqn:E; [|discriminate].
      exfalso. apply (Hkeys cur s); auto.
      * rewrite Hchs. apply in_or_app. right. left. reflexivity.
      * eapply nth_error_In; eauto.
    + pose proof (scan_none _ _ _ F) as Hnone.
      rewrite (len_snoc done cur) in H. pose proof Hchs as Hchs'. rewrite split_snoc in Hchs'.
      specialize (IH _ _ _ _ _ _ Hchs' Hkeys H).
      intros [pc pi] s' Hp Hs'.
      destruct (Nat.eq_dec pc (length done)) as [->|Hne].
      * rewrite Hchs in Hs'. rewrite sample_at_cur in Hs'.
        apply (Hnone pi); auto. unfold pos_le in Hp. simpl in Hp. lia.
      * apply (IH (pc, pi)); auto.
        unfold pos_le in *. simpl in *. rewrite app_length. simpl. lia.
Qed.

(* ---- cursor invariant ---- *)
Definition cur_inv (chs : list chunk) (c : cursor) : Prop :=
  ((c_cur c = None /\ c_rest c = chs /\ c_ci c = O /\ c_idx c = O) \/ cur_wf chs c) /\
  (c_psample c = zeroed \/ own chs (c_psample c)).

Lemma init_inv : forall a, cur_inv (a_chunks a) (init_cursor a).
Proof. intros a. split; [left|left]; simpl; auto. Qed.

Lemma next_window_unfold : forall chs c,
  chs <> [] -> cur_inv chs c ->
  exists done cur rest,
    chs = done ++ cur :: rest /\ c_pos c = (length done, c_idx c) /\
    next_window c = Some (window_loop rest cur (S (length done)) (c_idx c) (c_psec c) (c_psample c)).
Proof.
  intros chs c Hne [[(Hc & Hr & Hci & Hi)|(done & cur & Hc & Hchs & Hci)] _].
  - destruct chs as [|h t]; [congruence|].
    exists [], h, t. unfold next_window, c_pos. rewrite Hc, Hr, Hci. simpl. auto.
  - exists done, cur, (c_rest c). unfold next_window, c_pos. rewrite Hc, Hci. simpl. rewrite Hc. auto.
Qed.

Lemma step_actor_spec : forall chs t c,
  chs <> [] -> cur_inv chs c ->
  exists c' v, step_actor t c = Some (c', v) /\ cur_inv chs c' /\
               pos_le (c_pos c) (c_pos c') /\ v = c_psample c' /\ (v = zeroed \/ own chs v).
Proof.
  intros chs t c Hne Hinv. unfold step_actor.
  destruct (c_psec c <=? t) eqn:G.
  - destruct (next_window_unfold chs c Hne Hinv) as (done & cur & rest & Hchs & Hpos & Hnw).
    rewrite Hnw.
    destruct (window_loop rest cur (S (length done)) (c_idx c) (c_psec c) (c_psample c)) as [r c'] eqn:W.
    destruct (window_loop_wf _ _ _ _ _ _ _ _ _ Hchs W) as (Hwf & Hp & Hps & Hr).
    assert (Hinv' : cur_inv chs c').
    { split; [right; auto|]. destruct Hps as [Hps|Hps]; [|auto]. rewrite Hps. apply Hinv. }
    rewrite Hpos.
    destruct r as [e|].
    + destruct (Hr e eq_refl) as (He & Hown). exists c', e. repeat split; auto; apply Hinv'.
    + exists c', (c_psample c'). repeat split; auto; apply Hinv'.
  - exists c, (c_psample c). repeat split; auto; try apply Hinv. apply pos_le_refl.
Qed.

Lemma step_actor_rule : forall chs t c c' v,
  chs <> [] -> cur_inv chs c ->
  (forall ch s, In ch chs -> In s ch -> select s <> []) ->
  step_actor t c = Some (c', v) ->
  selection_rule chs t c c' v.
Proof.
  intros chs t c c' v Hne Hinv Hkeys H. unfold step_actor in H. unfold selection_rule.
  destruct (c_psec c <=? t) eqn:G.
  - apply Z.leb_le in G.
    destruct (next_window_unfold chs c Hne Hinv) as (done & cur & rest & Hchs & Hpos & Hnw).
    rewrite Hnw in H.
    destruct (window_loop rest cur (S (length done)) (c_idx c) (c_psec c) (c_psample c)) as [r c1] eqn:W.
    pose proof (window_loop_first _ _ _ _ _ _ _ _ _ Hchs Hkeys W) as Hf.
    destruct r as [e|]; inversion H; subst; clear H.
    + destruct Hf as (s & Hfirst & He & Hsec & Hsm). split; [auto|].
      right. split; [auto|]. exists s. rewrite Hpos. auto.
    + destruct Hf as (Hsec & Hsm). split; [auto|]. left. auto.
  - inversion H; subst. split; auto.
Qed.

(* ---- all actors, one second ---- *)
Definition st_inv (a : actor) (nc : astate) : Prop :=
  fst nc = a_name a /\ cur_inv (a_chunks a) (snd nc).

Lemma init_states_inv : forall actors, Forall2 st_inv actors (init_states actors).
Proof.
  induction actors as [|a r IH]; simpl; constructor; auto.
  split; simpl; auto. apply init_inv.
Qed.

Definition own_or_zero (a : actor) (nv : Z * vals) : Prop :=
  snd nv = zeroed \/ own (a_chunks a) (snd nv).
Definition st_le (nc nc' : astate) : Prop := pos_le (c_pos (snd nc)) (c_pos (snd nc')).

Lemma step_all_spec : forall t actors st,
  has_chunks actors -> Forall2 st_inv actors st ->
  exists st' vs, step_all t st = Some (st', vs) /\ Forall2 st_inv actors st' /\
                 map fst vs = map a_name actors /\ Forall2 own_or_zero actors vs /\
                 Forall2 st_le st st'.
Proof.
  intros t actors st Hc Hinv. induction Hinv as [|a [nm c] actors st [Hnm Hci] Hrest IH].
  - exists [], []. simpl. repeat split; constructor.
  - inversion Hc as [|? ? Hne Hc']; subst. simpl in Hnm, Hci.
    destruct (step_actor_spec _ t c Hne Hci) as (c' & v & Hs & Hinv' & Hp & Hv & Ho).
    destruct (IH Hc') as (st' & vs & Hsa & Hi & Hn & Hown & Hle).
    exists ((nm, c') :: st'), ((nm, v) :: vs). simpl. rewrite Hs, Hsa.
    repeat split.
    + constructor; auto. split; auto.
    + simpl. rewrite Hnm, Hn. reflexivity.
    + constructor; auto.
    + constructor; auto.
Qed.

Lemma step_all_nth : forall t st st' vs,
  step_all t st = Some (st', vs) ->
  forall j nc, nth_error st j = Some nc ->
  exists c' v, step_actor t (snd nc) = Some (c', v) /\
               nth_error st' j = Some (fst nc, c') /\ nth_error vs j = Some (fst nc, v).
Proof.
  intros t st. induction st as [|[nm c] r IH]; intros st' vs H j nc Hj.
  - destruct j; discriminate.
  - simpl in H. destruct (step_actor t c) as [[c' v]|] eqn:S1; [|discriminate].
    destruct (step_all t r) as [[r' vs']|] eqn:S2; [|discriminate].
    inversion H; subst; clear H.
    destruct j as [|j]; simpl in *.
    + inversion Hj; subst. simpl. eauto.
    + eapply IH; eauto.
Qed.

Lemma Forall2_nth : forall (A B : Type) (R : A -> B -> Prop) l1 l2 j a b,
  Forall2 R l1 l2 -> nth_error l1 j = Some a -> nth_error l2 j = Some b -> R a b.
Proof.
  intros A B R l1 l2 j a b H. revert j. induction H as [|x y l1 l2 Hxy _ IH]; intros j H1 H2.
  - destruct j; discriminate.
  - destruct j; simpl in *; [inversion H1; inversion H2; subst; auto|eauto].
Qed.

Lemma Forall2_trans_le : forall l1 l2 l3,
  Forall2 st_le l1 l2 -> Forall2 st_le l2 l3 -> Forall2 st_le l1 l3.
Proof.
  intros l1 l2 l3 H. revert l3. induction H as [|x y l1 l2 Hxy _ IH]; intros l3 H3.
  - inversion H3. constructor.
  - inversion H3; subst. constructor; auto. unfold st_le in *. eapply pos_le_trans; eauto.
Qed.

Lemma Forall2_refl_le : forall l, Forall2 st_le l l.
Proof. induction l; constructor; auto. apply pos_le_refl. Qed.

(* ---- the loop over the seconds ---- *)
Definition stamps (f : Z -> Z) (t : Z) (n : nat) : list Z := map (fun i => f (t + Z.of_nat i)) (seq 0 n).

Lemma stamps_S : forall f t n, stamps f t (S n) = f t :: stamps f (t + 1) n.
Proof.
  intros. unfold stamps. simpl. f_equal; [f_equal; lia|].
  rewrite <- seq_shift. rewrite map_map. apply map_ext. intros i. f_equal. lia.
Qed.

Definition shape_ok (actors : list actor) (o : out_sample) : Prop := map fst (snd o) = map a_name actors.
Definition own_ok_sample (actors : list actor) (o : out_sample) : Prop := Forall2 own_or_zero actors (snd o).

Lemma run_spec : forall actors n t st,
  has_chunks actors -> Forall2 st_inv actors st ->
  exists stf outs, run n t st = Some (stf, outs) /\ Forall2 st_inv actors stf /\
    (actors <> [] -> map fst outs = stamps stamp_ms t n) /\
    Forall (shape_ok actors) outs /\ Forall (own_ok_sample actors) outs /\ Forall2 st_le st stf.
Proof.
  intros actors n. induction n as [|n IH]; intros t st Hc Hinv.
  - exists st, []. simpl. repeat split; auto. apply Forall2_refl_le.
  - destruct (step_all_spec t actors st Hc Hinv) as (st' & vs & Hs & Hi & Hn & Ho & Hle).
    destruct (IH (t + 1) st' Hc Hi) as (stf & outs & Hr & Hif & Hst & Hsh & Hown & Hle').
    simpl. rewrite Hs, Hr.
    destruct vs as [|v0 vs'].
    + (* no actors *)
      destruct actors; [|discriminate]. exists stf, outs.
      split; [reflexivity|]. split; [auto|]. split; [intros Habs; congruence|].
      split; [auto|]. split; [auto|]. eapply Forall2_trans_le; eauto.
    + exists stf, ((stamp_ms t, v0 :: vs') :: outs).
      split; [reflexivity|]. split; [auto|]. split.
      { intros Hne. rewrite stamps_S. simpl. f_equal. auto. }
      split; [constructor; auto|]. split; [constructor; auto|].
      eapply Forall2_trans_le; eauto.
Qed.

Lemma run_app : forall n m t st,
  run (n + m) t st =
  match run n t st with
  | None => None
  | Some (st1, o1) =>
      match run m (t + Z.of_nat n) st1 with
      | None => None
      | Some (st2, o2) => Some (st2, o1 ++ o2)
      end
  end.
Proof.
  induction n as [|n IH]; intros m t st.
  - simpl. replace (t + 0) with t by lia. destruct (run m t st) as [[? ?]|]; reflexivity.
  - change (S n + m)%nat with (S (n + m)). cbn [run].
    destruct (step_all t st) as [[st' vs]|]; [|reflexivity].
    rewrite IH. destruct (run n (t + 1) st') as [[st1 o1]|]; [|reflexivity].
    replace (t + 1 + Z.of_nat n) with (t + Z.of_nat (S n)) by lia.
    destruct (run m (t + Z.of_nat (S n)) st1) as [[st2 o2]|]; [|reflexivity].
    destruct vs; reflexivity.
Qed.

Lemma stamp_ms_exact : forall t, - 2 ^ 63 <= 1000 * t < 2 ^ 63 -> stamp_ms t = 1000 * t.
Proof.
  intros t H. unfold stamp_ms, wrap_i64.
  rewrite Z.mod_small by lia. lia.
Qed.

(* ---- C20 lemmas ---- *)
Lemma genny_count : forall actors start end_,
  actors <> [] -> has_chunks actors -> start < end_ -> stamps_in_range start end_ ->
  exists out, translate_span actors start end_ = Some out /\
    map fst out = map (fun i => 1000 * (start + Z.of_nat i)) (seq 0 (Z.to_nat (end_ - start))).
Proof.
  intros actors start end_ Hne Hc Hlt [Hlo Hhi]. unfold translate_span.
  destruct (run_spec actors (Z.to_nat (end_ - start)) start _ Hc (init_states_inv actors))
    as (stf & outs & Hr & _ & Hst & _).
  rewrite Hr. simpl. exists outs. split; auto.
  rewrite (Hst Hne). unfold stamps. apply map_ext_in. intros i Hi.
  apply in_seq in Hi. apply stamp_ms_exact. lia.
Qed.

Lemma genny_shape : forall actors start end_,
  has_chunks actors ->
  exists out, translate_span actors start end_ = Some out /\
    Forall (fun o => map fst (snd o) = map a_name actors) out.
Proof.
  intros actors start end_ Hc. unfold translate_span.
  destruct (run_spec actors (Z.to_nat (end_ - start)) start _ Hc (init_states_inv actors))
    as (stf & outs & Hr & _ & _ & Hsh & _).
  rewrite Hr. simpl. eauto.
Qed.

Lemma genny_own_data : forall actors start end_,
  has_chunks actors ->
  exists out, translate_span actors start end_ = Some out /\
    Forall (fun o => Forall2 (fun a nv => snd nv = zeroed \/ own (a_chunks a) (snd nv)) actors (snd o)) out.
Proof.
  intros actors start end_ Hc. unfold translate_span.
  destruct (run_spec actors (Z.to_nat (end_ - start)) start _ Hc (init_states_inv actors))
    as (stf & outs & Hr & _ & _ & _ & Hown & _).
  rewrite Hr. simpl. eauto.
Qed.

Lemma states_after_inv : forall actors start n,
  has_chunks actors ->
  exists cs, states_after actors start n = Some cs /\ Forall2 st_inv actors cs.
Proof.
  intros actors start n Hc. unfold states_after.
  destruct (run_spec actors n start _ Hc (init_states_inv actors)) as (stf & outs & Hr & Hi & _).
  rewrite Hr. simpl. eauto.
Qed.

Lemma genny_monotone : forall actors start n m cs cs',
  has_chunks actors -> (n <= m)%nat ->
  states_after actors start n = Some cs -> states_after actors start m = Some cs' ->
  Forall2 (fun nc nc' => pos_le (c_pos (snd nc)) (c_pos (snd nc'))) cs cs'.
Proof.
  intros actors start n m cs cs' Hc Hnm Hn Hm.
  destruct (states_after_inv actors start n Hc) as (cs0 & Hn0 & Hinv).
  rewrite Hn in Hn0. inversion Hn0; subst cs0; clear Hn0.
  unfold states_after in *. replace m with (n + (m - n))%nat in Hm by lia.
  rewrite run_app in Hm.
  destruct (run n start (init_states actors)) as [[st1 o1]|]; [|discriminate].
  simpl in Hn. inversion Hn; subst st1; clear Hn.
  destruct (run_spec actors (m - n) (start + Z.of_nat n) cs Hc Hinv) as (stf & outs & Hr & _ & _ & _ & _ & Hle).
  rewrite Hr in Hm. simpl in Hm. inversion Hm; subst. exact Hle.
Qed.

Lemma genny_selected_first : forall actors start n cs,
  has_chunks actors -> keys_ok actors ->
  states_after actors start n = Some cs ->
  exists cs' vs,
    step_all (start + Z.of_nat n) cs = Some (cs', vs) /\
    states_after actors start (S n) = Some cs' /\
    (forall j a nc nc' nv,
       nth_error actors j = Some a -> nth_error cs j = Some nc ->
       nth_error cs' j = Some nc' -> nth_error vs j = Some nv ->
       selection_rule (a_chunks a) (start + Z.of_nat n) (snd nc) (snd nc') (snd nv)) /\
    (forall end_ out, actors <> [] -> translate_span actors start end_ = Some out ->
       (n < Z.to_nat (end_ - start))%nat ->
       nth_error out n = Some (stamp_ms (start + Z.of_nat n), vs)).
Proof.
  intros actors start n cs Hc Hk Hn.
  destruct (states_after_inv actors start n Hc) as (cs0 & Hn0 & Hinv).
  rewrite Hn in Hn0. inversion Hn0; subst cs0; clear Hn0.
  destruct (step_all_spec (start + Z.of_nat n) actors cs Hc Hinv) as (cs' & vs & Hs & Hi & Hnm & _ & _).
  exists cs', vs. split; [auto|].
  assert (Hrun1 : forall k, run (n + S k) start (init_states actors) =
            match run k (start + Z.of_nat n + 1) cs' with
            | None => None
            | Some (st2, o2) =>
                Some (st2, match run n start (init_states actors) with Some (_, o1) => o1 | None => [] end
                           ++ match vs with [] => o2 | _ :: _ => (stamp_ms (start + Z.of_nat n), vs) :: o2 end)
            end).
  { intros k. rewrite run_app. unfold states_after in Hn.
    destruct (run n start (init_states actors)) as [[st1 o1]|]; [|discriminate].
    simpl in Hn. inversion Hn; subst st1. cbn [run]. rewrite Hs.
    destruct (run k (start + Z.of_nat n + 1) cs') as [[st2 o2]|]; reflexivity. }
  split; [|split].
  - unfold states_after. replace (S n) with (n + 1)%nat by lia. rewrite (Hrun1 O). simpl. reflexivity.
  - intros j a nc nc' nv Ha Hnc Hnc' Hnv.
    destruct (step_all_nth _ _ _ _ Hs j nc Hnc) as (c' & v & Hsa & Hc' & Hv).
    rewrite Hc' in Hnc'. rewrite Hv in Hnv. inversion Hnc'; inversion Hnv; subst; clear Hnc' Hnv.
    simpl. pose proof (Forall2_nth _ _ _ _ _ _ _ _ Hinv Ha Hnc) as [_ Hci].
    eapply step_actor_rule; eauto.
    + unfold has_chunks in Hc. rewrite Forall_forall in Hc. apply Hc. eapply nth_error_In; eauto.
    + unfold keys_ok in Hk. rewrite Forall_forall in Hk. apply Hk. eapply nth_error_In; eauto.
  - intros end_ out Hne Hout Hlt. unfold translate_span in Hout.
    replace (Z.to_nat (end_ - start)) with (n + S (Z.to_nat (end_ - start) - S n))%nat in Hout by lia.
    rewrite Hrun1 in Hout.
    destruct (run (Z.to_nat (end_ - start) - S n) (start + Z.of_nat n + 1) cs') as [[st2 o2]|]; [|discriminate].
    simpl in Hout. inversion Hout; subst out; clear Hout.
    destruct (run_spec actors n start _ Hc (init_states_inv actors)) as (stf & o1 & Hr & _ & Hst & _).
    rewrite Hr. specialize (Hst Hne).
    assert (Hlen : length o1 = n).
    { pose proof (map_length fst o1) as Hml. rewrite Hst in Hml. unfold stamps in Hml.
      rewrite map_length, seq_length in Hml. auto. }
    rewrite nth_error_app2 by lia. rewrite Hlen. replace (n - n)%nat with O by lia.
    destruct vs as [|v0 vs'].
    + destruct actors; [congruence|discriminate].
    + reflexivity.
Qed.

(* ---- output chunking ---- *)
Fixpoint abl_full {A : Type} (n : nat) (cs : list (list A)) : Prop :=
  match cs with
  | [] => True
  | x :: r => match r with [] => True | _ :: _ => length x = n /\ abl_full n r end
  end.

Lemma stream_collect_spec : forall (A : Type) maxn (l buf : list A),
  (1 <= maxn)%nat -> (length buf <= maxn)%nat ->
  concat (stream_collect maxn buf l) = buf ++ l /\
  Forall (fun c => (1 <= length c <= maxn)%nat) (stream_collect maxn buf l) /\
  abl_full maxn (stream_collect maxn buf l).
Proof.
  intros A maxn l. induction l as [|x r IH]; intros buf Hm Hb.
  - simpl. destruct buf as [|b0 br].
    + simpl. repeat split; auto.
    + simpl. rewrite app_nil_r. repeat split; auto. constructor; auto. simpl in *. lia.
  - cbn [stream_collect]. destruct (maxn <=? length buf)%nat eqn:E.
    + apply Nat.leb_le in E. destruct buf as [|b0 br]; [simpl in E; lia|].
      destruct (IH [x] Hm) as (Hc & Hf & Ha); [simpl; lia|].
      repeat split.
      * cbn [concat]. rewrite Hc. reflexivity.
      * constructor; auto. lia.
      * cbn [abl_full]. destruct (stream_collect maxn [x] r); auto. split; auto. lia.
    + apply Nat.leb_gt in E.
      destruct (IH (buf ++ [x]) Hm) as (Hc & Hf & Ha); [rewrite app_length; simpl; lia|].
      rewrite <- app_assoc in Hc. auto.
Qed.

Lemma abl_full_pre : forall (A : Type) n (cs pre : list (list A)) x,
  abl_full n cs -> cs = pre ++ [x] -> Forall (fun c => length c = n) pre.
Proof.
  intros A n cs. induction cs as [|c r IH]; intros pre x Ha He.
  - destruct pre; discriminate.
  - destruct pre as [|p pre']; [constructor|].
    simpl in He. inversion He; subst p. clear He.
    cbn [abl_full] in Ha. destruct r as [|c2 r'].
    + destruct pre'; discriminate.
    + destruct Ha as [Hl Ha]. constructor; auto. eapply IH; eauto.
Qed.

Lemma genny_chunks : forall out,
  concat (output_chunks out) = out /\
  Forall (fun c => (1 <= length c <= 300)%nat) (output_chunks out) /\
  (forall pre lastc, output_chunks out = pre ++ [lastc] -> Forall (fun c => length c = 300%nat) pre).
Proof.
  intros out. unfold output_chunks, max_samples.
  destruct (stream_collect_spec out_sample 300 out []) as (Hc & Hf & Ha); [lia|simpl; lia|].
  repeat split; auto. intros pre lastc He. eapply abl_full_pre; eauto.
Qed.

(* ---- GetGennyTime ---- *)
Lemma ggt_loop_spec : forall chs st en,
  Forall (fun ch => ch <> []) chs -> st <> 0 ->
  ggt_loop chs st en = Some (st, fold_left Z.max (map chunk_last_ts chs) en).
Proof.
  induction chs as [|ch r IH]; intros st en Hne Hst; simpl; auto.
  inversion Hne as [|? ? Hch Hr]; subst.
  destruct ch as [|s0 ch']; [congruence|].
  destruct (st =? 0) eqn:E; [apply Z.eqb_eq in E; congruence|].
  rewrite IH; auto.
Qed.

Lemma fold_max_ge : forall l a, a <= fold_left Z.max l a.
Proof. induction l as [|x r IH]; intros a; simpl; [lia|]. specialize (IH (Z.max a x)). lia. Qed.

Lemma fold_max_bound : forall l a b, a <= b -> (forall x, In x l -> x <= b) -> fold_left Z.max l a <= b.
Proof.
  induction l as [|x r IH]; intros a b Ha Hl; simpl; auto.
  apply IH; [|intros; apply Hl; right; auto]. specialize (Hl x (or_introl eq_refl)). lia.
Qed.

Lemma fold_max_in : forall l a b, In b l -> b <= fold_left Z.max l a.
Proof.
  induction l as [|x r IH]; intros a b Hin; simpl; [destruct Hin|].
  destruct Hin as [->|Hin]; [|auto].
  pose proof (fold_max_ge r (Z.max a b)). lia.
Qed.

Lemma genny_time : forall a s0 c0 rest,
  a_start a = 0 -> a_chunks a = (s0 :: c0) :: rest ->
  Forall (fun ch => ch <> []) (a_chunks a) -> ceil_sec (fst s0) <> 0 ->
  get_genny_time a =
    Some (ceil_sec (fst s0), ceil_sec (fold_left Z.max (map chunk_last_ts (a_chunks a)) 0)) /\
  (forall L, 0 <= L -> In L (map chunk_last_ts (a_chunks a)) ->
             (forall x, In x (map chunk_last_ts (a_chunks a)) -> x <= L) ->
             get_genny_time a = Some (ceil_sec (fst s0), ceil_sec L)).
Proof.
  intros a s0 c0 rest Hst Hch Hne Hs0.
  assert (H1 : get_genny_time a =
    Some (ceil_sec (fst s0), ceil_sec (fold_left Z.max (map chunk_last_ts (a_chunks a)) 0))).
  { unfold get_genny_time. rewrite Hch, Hst. rewrite Hch in Hne.
    inversion Hne as [|? ? _ Hr]; subst. cbn [ggt_loop]. change (0 =? 0) with true. cbv iota.
    rewrite ggt_loop_spec; auto. }
  split; [exact H1|].
  intros L HL Hin Hmax. rewrite H1. do 3 f_equal.
  apply Z.le_antisymm.
  - apply fold_max_bound; auto.
  - apply fold_max_in; auto.
Qed.
