(* C14 o C01: the samples an event collector writes, pushed through any
   compressing FTDC collector and read back, are exactly the running totals.
   The event collectors of Model/Events.v hand [marshal p] (a Bson.doc, the layout
   of Performance.MarshalDocument) to the wrapped ftdc collector; here it is shown
   that these documents satisfy every hypothesis of the structured round trip
   (Proofs/CodecProofs.v codec_roundtrip = Props/C01.v C01_roundtrip), that all
   their leaves are metrics (nothing is stripped), and that UnmarshalDocument
   recovers the event from the restored document. *)
From Coq Require Import ZArith NArith List Bool Lia.
From FV.Model Require Import Bytes Bson Events EventsOk.
From FV.Model Require Import Metrics Codec Collector Wf RoundTrip.
From FV.Proofs Require Import BytesProofs BsonProofs CodecProofs.
From FV.Proofs Require EventsProofs.
Import ListNotations.
Open Scope Z_scope.

(* Events and Collector both define kind / run / step / op / obs: the unqualified
   names are Collector's here, the event collectors' are written Events.x *)

(* ------------------------------------------------------------------ vocabulary *)
(* a sample that survives the FTDC codec: every field an int64, and the timestamp
   inside the range Go's time.Time expresses in nanoseconds (Wf.date_ok:
   |ms| <= 9223372036854, the years 1678..2262) *)
Definition perf_ok (p : perf) : Prop := perf_wf p = true /\ date_ok (p_ts p) = true.

(* UnmarshalDocument into a zero Performance *)
Definition doc_perf (d : doc) : option perf := unmarshal zero_perf d.

(* what a reader of the FTDC stream sees: ReadStructuredMetrics without an error,
   every restored document unmarshalled *)
Definition decode_perfs (inflate : bytes -> option bytes) (outer : list doc) : option (list perf) :=
  match read_structured inflate outer with
  | (Some docs, None) => all_some (map doc_perf docs)
  | _ => None
  end.

(* ------------------------------------------------------------------ one marshalled sample *)
Lemma marshal_skeleton : forall p, skeleton_doc (marshal p) = skeleton_doc (marshal zero_perf).
Proof. intros p. reflexivity. Qed.

Lemma marshal_strip : forall p, strip_doc (marshal p) = marshal p.
Proof. intros p. reflexivity. Qed.

Lemma marshal_no_ts_seconds : forall p, doc_has_ts_seconds (marshal p) = false.
Proof. intros p. reflexivity. Qed.

Lemma marshal_metric_count : forall p, length (flatten_doc (marshal p)) = 11%nat.
Proof. intros p. reflexivity. Qed.

Ltac split_wf H :=
  repeat match type of H with
         | (_ && _ = true) => let H2 := fresh "Hf" in apply andb_prop in H; destruct H as [H H2]
         end.

Lemma marshal_doc_ok : forall p, perf_wf p = true -> doc_ok (marshal p) = true.
Proof.
  intros [ts id n ops size errors dur total state workers failed] H.
  unfold perf_wf in H.
  cbn [p_ts p_id p_n p_ops p_size p_errors p_dur p_total p_state p_workers p_failed] in H.
  split_wf H.
  unfold marshal.
  cbn [doc_ok value_ok p_ts p_id p_n p_ops p_size p_errors p_dur p_total p_state p_workers p_failed].
  repeat match goal with Hx : in_i64 _ = true |- _ => rewrite Hx; clear Hx end.
  reflexivity.
Qed.

Lemma marshal_leaves_ok : forall p, perf_ok p -> doc_leaves_ok (marshal p) = true.
Proof.
  intros [ts id n ops size errors dur total state workers failed] [H Hd].
  unfold perf_wf in H.
  cbn [p_ts p_id p_n p_ops p_size p_errors p_dur p_total p_state p_workers p_failed] in H, Hd.
  split_wf H.
  unfold marshal.
  cbn [doc_leaves_ok leaves_ok p_ts p_id p_n p_ops p_size p_errors p_dur p_total p_state p_workers p_failed].
  rewrite Hd.
  repeat match goal with Hx : in_i64 _ = true |- _ => rewrite Hx; clear Hx end.
  reflexivity.
Qed.

(* the encoding has the same length whatever the values: 193 bytes *)
Lemma marshal_enc_length : forall p, length (enc_doc (marshal p)) = 193%nat.
Proof.
  intros p. unfold enc_doc, marshal.
  repeat (rewrite ?bs_frame_length, ?bs_enc_elems_cons_length, ?bs_enc_VDoc).
  cbn [enc_value enc_elems]. rewrite !le_enc_length. reflexivity.
Qed.

Lemma marshal_small : forall p, Wf.small (enc_doc (marshal p)).
Proof. intros p. unfold Wf.small. rewrite marshal_enc_length. reflexivity. Qed.

Lemma doc_perf_marshal : forall p, doc_perf (marshal p) = Some p.
Proof. intros p. apply EventsProofs.marshal_roundtrip. Qed.

Lemma all_some_doc_perf : forall ps, all_some (map doc_perf (map marshal ps)) = Some ps.
Proof.
  induction ps as [|p r IH]; [reflexivity|].
  cbn [map all_some]. rewrite doc_perf_marshal, IH. reflexivity.
Qed.

(* everything C01 asks of one document, for a marshalled sample *)
Lemma marshal_facts : forall p, perf_wf p = true -> date_ok (p_ts p) = true ->
  doc_ok (marshal p) = true /\ doc_leaves_ok (marshal p) = true /\ Wf.small (enc_doc (marshal p)) /\
  doc_has_ts_seconds (marshal p) = false /\ length (flatten_doc (marshal p)) = 11%nat /\
  skeleton_doc (marshal p) = skeleton_doc (marshal zero_perf) /\
  strip_doc (marshal p) = marshal p /\ doc_perf (marshal p) = Some p.
Proof.
  intros p Hwf Hd.
  split; [apply marshal_doc_ok; exact Hwf|]. split; [apply marshal_leaves_ok; split; assumption|].
  split; [apply marshal_small|]. split; [apply marshal_no_ts_seconds|]. split; [apply marshal_metric_count|].
  split; [apply marshal_skeleton|]. split; [apply marshal_strip|apply doc_perf_marshal].
Qed.

(* ------------------------------------------------------------------ a sequence of samples *)
Lemma marshal_same_schema : forall ps, same_schema (map marshal ps).
Proof.
  intros ps a b Ha Hb. apply in_map_iff in Ha. apply in_map_iff in Hb.
  destruct Ha as [pa [<- _]]. destruct Hb as [pb [<- _]].
  rewrite (marshal_skeleton pa), (marshal_skeleton pb). reflexivity.
Qed.

Lemma strip_marshal_all : forall ps, map strip_doc (map marshal ps) = map marshal ps.
Proof. intros ps. rewrite map_map. apply map_ext. intros p. apply marshal_strip. Qed.

(* the hypotheses of C01 hold of every non-empty sequence of good samples *)
Lemma marshal_inputs_ok : forall ps nows,
  ps <> [] -> Forall perf_ok ps ->
  length nows = length ps -> Forall (fun t => in_i64 t = true) nows ->
  (map marshal ps <> [] /\ length nows = length (map marshal ps) /\ Forall (fun t => in_i64 t = true) nows /\
   same_schema (map marshal ps) /\
   Forall (fun d => doc_ok d = true /\ doc_leaves_ok d = true /\ Wf.small (enc_doc d)) (map marshal ps) /\
   (N.of_nat (length (flatten_doc (hd [] (map marshal ps)))) < 2 ^ 32)%N) /\
  Forall (fun d => doc_has_ts_seconds d = false) (map marshal ps).
Proof.
  intros ps nows Hne Hok Hlen Hnows. split; [split; [|split; [|split; [|split; [|split]]]]|].
  - destruct ps; [congruence|discriminate].
  - rewrite map_length. exact Hlen.
  - exact Hnows.
  - apply marshal_same_schema.
  - rewrite Forall_map. revert Hok. apply Forall_impl. intros p Hp.
    split; [apply marshal_doc_ok; apply Hp|]. split; [apply marshal_leaves_ok; exact Hp|apply marshal_small].
  - destruct ps as [|p r]; [congruence|]. cbn [map hd]. rewrite marshal_metric_count. reflexivity.
  - rewrite Forall_map. apply Forall_forall. intros p _. apply marshal_no_ts_seconds.
Qed.

Lemma fits_marshal : forall k n (ps : list perf),
  (k = KBase -> Z.of_nat (length ps) <= n + 1) -> fits k n (map marshal ps).
Proof. intros k n ps H. destruct k; cbn [fits]; try exact I. rewrite map_length. apply H. reflexivity. Qed.

Section Compose.
Variable deflate : bytes -> bytes.
Variable inflate : bytes -> option bytes.
Hypothesis inflate_deflate : forall p, inflate (deflate p) = Some p.

(* any list of good samples, any compressing collector kind: every Add and the
   flush succeed, the reader restores exactly the marshalled documents (nothing is
   stripped) and unmarshalling them yields the samples *)
Theorem perfs_roundtrip : forall k n ps nows,
  compressing k = true -> 1 <= n < 2 ^ 31 -> ps <> [] -> Forall perf_ok ps ->
  length nows = length ps -> Forall (fun t => in_i64 t = true) nows ->
  (k = KBase -> Z.of_nat (length ps) <= n + 1) ->
  let res := emit deflate k n (map marshal ps) nows in
  snd res = map (fun _ => BAdd ROk) ps ++ [BFlush true] /\
  read_structured inflate (emitted (snd (fst res))) = (Some (map marshal ps), None) /\
  decode_perfs inflate (emitted (snd (fst res))) = Some ps.
Proof.
  intros k n ps nows Hk Hn Hne Hok Hlen Hnows Hfits res.
  destruct (marshal_inputs_ok ps nows Hne Hok Hlen Hnows) as [Hin Hts].
  destruct (codec_roundtrip deflate inflate inflate_deflate k n (map marshal ps) nows Hk Hn Hin
              (fits_marshal k n ps Hfits) Hts) as [Hobs Hread].
  fold res in Hobs, Hread. rewrite strip_marshal_all in Hread. rewrite map_map in Hobs.
  split; [exact Hobs|]. split; [exact Hread|].
  unfold decode_perfs. rewrite Hread. apply all_some_doc_perf.
Qed.

(* ------------------------------------------------------------------ running totals are good samples *)
Lemma next_id_i64 : forall prev e, in_i64 (p_id e) = true -> in_i64 (next_id prev e) = true.
Proof. intros prev e H. unfold next_id. destruct (p_id e =? 0); [apply wrap64_range|exact H]. Qed.

Lemma fold_next_id_i64 : forall r a, in_i64 a = true -> Forall (fun e => in_i64 (p_id e) = true) r ->
  in_i64 (fold_left next_id r a) = true.
Proof.
  induction r as [|e r IH]; intros a Ha Hr; [exact Ha|].
  inversion Hr as [|x y He Hr']; subst. cbn [fold_left]. apply IH; [apply next_id_i64; exact He|exact Hr'].
Qed.

Lemma perf_wf_id : forall p, perf_wf p = true -> in_i64 (p_id p) = true.
Proof. intros p H. unfold perf_wf in H. split_wf H. assumption. Qed.

Lemma totals_ok : forall evs, evs <> [] -> Forall perf_ok evs -> perf_ok (totals evs).
Proof.
  intros evs Hne Hall.
  assert (Hlast : perf_ok (last evs zero_perf)).
  { rewrite Forall_forall in Hall. apply Hall.
    destruct (exists_last Hne) as [l [e He]]. rewrite He, last_last. apply in_or_app. right. left. reflexivity. }
  assert (Hid : in_i64 (id_after evs) = true).
  { destruct evs as [|e r]; [congruence|]. cbn [id_after].
    inversion Hall as [|x y He Hr]; subst. apply fold_next_id_i64; [apply perf_wf_id; apply He|].
    revert Hr. apply Forall_impl. intros p Hp. apply perf_wf_id. apply Hp. }
  destruct Hlast as [Hwf Hd]. unfold perf_ok, totals.
  cbn [p_ts]. split; [|exact Hd].
  unfold perf_wf in *.
  cbn [p_ts p_id p_n p_ops p_size p_errors p_dur p_total p_state p_workers p_failed].
  split_wf Hwf.
  rewrite Hid, !wrap64_range.
  repeat match goal with Hx : in_i64 _ = true |- _ => rewrite Hx; clear Hx end.
  reflexivity.
Qed.

Lemma Forall_firstn_ok : forall (P : perf -> Prop) n l, Forall P l -> Forall P (firstn n l).
Proof.
  intros P n l H. rewrite <- (firstn_skipn n l) in H. apply Forall_app in H. apply H.
Qed.

Lemma prefix_totals_ok : forall ps (idx : list nat), ps <> [] -> Forall perf_ok ps ->
  Forall perf_ok (map (fun k => totals (firstn (S k) ps)) idx).
Proof.
  intros ps idx Hne Hall. rewrite Forall_map. apply Forall_forall. intros k _.
  apply totals_ok; [|apply Forall_firstn_ok; exact Hall].
  destruct ps; [congruence|discriminate].
Qed.

Lemma Forall_perf_ok_split : forall ps, Forall perf_ok ps <->
  Forall (fun p => perf_wf p = true) ps /\ Forall (fun p => date_ok (p_ts p) = true) ps.
Proof.
  intros ps. split.
  - intros H. split; revert H; apply Forall_impl; intros p Hp; apply Hp.
  - intros [H1 H2]. rewrite Forall_forall in *. intros p Hp. split; [apply H1|apply H2]; exact Hp.
Qed.

(* ------------------------------------------------------------------ the three event collectors end to end *)
Theorem end_to_end_cumulative : forall k n ps nows,
  compressing k = true -> 1 <= n < 2 ^ 31 -> ps <> [] ->
  Forall (fun p => perf_wf p = true) ps -> Forall (fun p => date_ok (p_ts p) = true) ps ->
  length nows = length ps -> Forall (fun t => in_i64 t = true) nows ->
  (k = KBase -> Z.of_nat (length ps) <= n + 1) ->
  let written := written_of (snd (Events.run KCumulative Events.init (map EvNew ps))) in
  let res := emit deflate k n (map marshal written) nows in
  snd res = map (fun _ => BAdd ROk) ps ++ [BFlush true] /\
  read_structured inflate (emitted (snd (fst res))) =
    (Some (map marshal (map (fun j => totals (firstn (S j) ps)) (seq 0 (length ps)))), None) /\
  decode_perfs inflate (emitted (snd (fst res))) =
    Some (map (fun j => totals (firstn (S j) ps)) (seq 0 (length ps))).
Proof.
  intros k n ps nows Hk Hn Hne Hwf Hdate Hlen Hnows Hfits written res.
  destruct (EventsProofs.cumulative_fresh ps Hwf) as (_ & Hwr & _). cbn zeta in Hwr.
  subst res. subst written. rewrite Hwr. unfold expected_cumulative.
  set (exp := map (fun j => totals (firstn (S j) ps)) (seq 0 (length ps))).
  assert (Hel : length exp = length ps) by (unfold exp; rewrite map_length, seq_length; reflexivity).
  assert (Hok : Forall perf_ok exp).
  { apply prefix_totals_ok; [exact Hne|]. apply Forall_perf_ok_split. split; assumption. }
  assert (Hexp : exp <> []).
  { intros E. rewrite E in Hel. destruct ps; [congruence|discriminate Hel]. }
  destruct (perfs_roundtrip k n exp nows Hk Hn Hexp Hok) as (Hobs & Hread & Hdec);
    [rewrite Hel; exact Hlen|exact Hnows|rewrite Hel; exact Hfits|].
  split; [|split; assumption].
  rewrite Hobs. f_equal. unfold exp. rewrite map_map.
  clear. generalize 0%nat. induction ps as [|p r IH]; intros a; [reflexivity|].
  cbn [length seq map]. f_equal. apply IH.
Qed.

Theorem end_to_end_sampling : forall m k n ps nows,
  1 <= m -> Z.of_nat (length ps) < 2 ^ 63 ->
  compressing k = true -> 1 <= n < 2 ^ 31 -> ps <> [] ->
  Forall (fun p => perf_wf p = true) ps -> Forall (fun p => date_ok (p_ts p) = true) ps ->
  let written := written_of (snd (Events.run (KSampling m) Events.init (map EvNew ps))) in
  length nows = length written -> Forall (fun t => in_i64 t = true) nows ->
  (k = KBase -> Z.of_nat (length written) <= n + 1) ->
  let res := emit deflate k n (map marshal written) nows in
  snd res = map (fun _ => BAdd ROk) written ++ [BFlush true] /\
  written = map (fun j => totals (firstn (S j) ps))
                (filter (fun j => Z.of_nat j mod m =? 0) (seq 0 (length ps))) /\
  read_structured inflate (emitted (snd (fst res))) = (Some (map marshal written), None) /\
  decode_perfs inflate (emitted (snd (fst res))) = Some written.
Proof.
  intros m k n ps nows Hm Hlenps Hk Hn Hne Hwf Hdate written Hlen Hnows Hfits res.
  destruct (EventsProofs.sampling_fresh m ps Hm Hwf Hlenps) as (_ & Hwr & _). cbn zeta in Hwr.
  fold written in Hwr. unfold expected_sampling in Hwr.
  assert (Hok : Forall perf_ok written).
  { rewrite Hwr. apply prefix_totals_ok; [exact Hne|]. apply Forall_perf_ok_split. split; assumption. }
  assert (Hw : written <> []).
  { rewrite Hwr. destruct ps as [|p r]; [congruence|]. cbn [length seq filter].
    change (Z.of_nat 0) with 0. rewrite Z.mod_0_l by lia. cbn [Z.eqb map]. discriminate. }
  destruct (perfs_roundtrip k n written nows Hk Hn Hw Hok Hlen Hnows Hfits) as (Hobs & Hread & Hdec).
  split; [exact Hobs|]. split; [exact Hwr|]. split; assumption.
Qed.

Theorem end_to_end_passthrough : forall k n ps nows,
  compressing k = true -> 1 <= n < 2 ^ 31 -> ps <> [] ->
  Forall (fun p => perf_wf p = true) ps -> Forall (fun p => date_ok (p_ts p) = true) ps ->
  length nows = length ps -> Forall (fun t => in_i64 t = true) nows ->
  (k = KBase -> Z.of_nat (length ps) <= n + 1) ->
  let written := written_of (snd (Events.run KPassthrough Events.init (map EvNew ps))) in
  let res := emit deflate k n (map marshal written) nows in
  snd res = map (fun _ => BAdd ROk) ps ++ [BFlush true] /\
  read_structured inflate (emitted (snd (fst res))) = (Some (map marshal ps), None) /\
  decode_perfs inflate (emitted (snd (fst res))) = Some ps.
Proof.
  intros k n ps nows Hk Hn Hne Hwf Hdate Hlen Hnows Hfits written res.
  destruct (EventsProofs.passthrough_fresh ps) as (_ & Hwr & _). cbn zeta in Hwr.
  subst res. subst written. rewrite Hwr.
  apply perfs_roundtrip; try assumption. apply Forall_perf_ok_split. split; assumption.
Qed.

End Compose.

Print Assumptions perfs_roundtrip.
Print Assumptions end_to_end_cumulative.
Print Assumptions end_to_end_sampling.
Print Assumptions end_to_end_passthrough.
