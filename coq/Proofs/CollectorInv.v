(* C07: the invariant of a whole history.  State and writer are described by two
   lists of groups: those already written (chunk documents in the writer, possibly
   with metadata documents in between) and those pending in the collector.  Every
   operation is followed through all five compressing kinds. *)
From Coq Require Import ZArith NArith List Bool Lia Arith.
From FV.Model Require Import Bytes Bson Metrics Codec Collector Wf RoundTrip CollectorOk.
From FV.Proofs Require Import BytesProofs BsonProofs MetricsProofs CodecChunk CodecProofs CollectorBase
  CollectorKinds.
Import ListNotations.
Open Scope Z_scope.

Ltac cc_concat := repeat (rewrite ?concat_app; cbn [concat]; rewrite ?app_nil_r); rewrite <- ?app_assoc; try reflexivity.

Lemma cc2_new_batch : forall (bss : list (list (list doc))) d,
  concat (concat (bss ++ [[[d]]])) = concat (concat bss) ++ [d].
Proof. intros. cc_concat. Qed.

Lemma cc2_new_chunk : forall (bss0 : list (list (list doc))) gs d,
  concat (concat (bss0 ++ [gs ++ [[d]]])) = concat (concat (bss0 ++ [gs])) ++ [d].
Proof. intros. cc_concat. Qed.

Lemma cc2_join : forall (bss0 : list (list (list doc))) gs0 g d,
  concat (concat (bss0 ++ [gs0 ++ [g ++ [d]]])) = concat (concat (bss0 ++ [gs0 ++ [g]])) ++ [d].
Proof. intros. cc_concat. Qed.

Lemma c_flush_eq : forall deflate c w,
  c_flush deflate c w = flush_with c_info (c_resolve deflate) c_reset c w.
Proof.
  intros deflate c w. destruct c as [b|b|x|s|s|u]; try reflexivity; cbn [c_flush].
  - unfold sc_flush, flush_with. cbn [c_info c_resolve c_reset].
    destruct (snd (in_info (sc_inner s)) =? 0); [reflexivity|].
    destruct (in_resolve deflate (sc_inner s)) as [o|]; [|reflexivity].
    destruct (w_write w o) as [w' ok]. destruct ok; reflexivity.
  - unfold sd_flush, flush_with. cbn [c_info c_resolve c_reset].
    destruct (snd (in_info (sc_inner (sd_s s))) =? 0); [reflexivity|].
    destruct (in_resolve deflate (sc_inner (sd_s s))) as [o|]; [|reflexivity].
    destruct (w_write w o) as [w' ok]. destruct ok; reflexivity.
Qed.

Section Inv.
Variable deflate : bytes -> bytes.
Variable D : doc -> Prop.

Definition env_ok (k : kind) : Prop := (forall d, D d -> doc_wf d) /\ distinguishable k D.

Definition holds (k : kind) (n : Z) (c : coll) (gsp : list (list doc)) : Prop :=
  match k, c with
  | KBase, CBase b => exists g, bch D n b g /\ glen g <= n + 1 /\ gsp = ne g
  | KBatch, CBatch b => batch_inv D n b gsp
  | KDyn, CDyn x => exists bss, dyn_inv D n x bss /\ gsp = concat bss
  | KStream, CStream s => exists g, stream_inv D n s g /\ gsp = ne g
  | KSDyn, CSDyn c => exists g, sdyn_inv D n c g /\ gsp = ne g
  | _, _ => False
  end.

Definition INV (k : kind) (n : Z) (st : coll * writer) (gsw gsp : list (list doc)) : Prop :=
  w_faults (snd st) = [] /\ wstream deflate (cap_of k n - 1) (emitted (snd st)) gsw /\ holds k n (fst st) gsp.

Lemma ne_nonempty : forall g, Forall (fun g : list doc => g <> []) (ne g).
Proof. intros [|a g]; [constructor|]. constructor; [discriminate|constructor]. Qed.

Lemma gs_ok_nonempty : forall n gs, gs_ok n gs -> Forall (fun g : list doc => g <> []) gs.
Proof. intros n gs H. revert H. apply Forall_impl. intros g [H _]. exact H. Qed.

Lemma holds_init : forall k n, compressing k = true -> 1 <= n -> holds k n (new_coll k n) [].
Proof.
  intros k n Hk Hn. destruct k; try discriminate Hk; cbn [new_coll holds].
  - exists []. split; [apply bch_new|]. split; [change (glen []) with 0; lia|reflexivity].
  - apply ba_new_inv.
  - exists []. split; [apply dy_new_inv|reflexivity].
  - exists []. split; [apply stream_new_inv; lia|reflexivity].
  - exists []. split; [apply sd_new_inv; lia|reflexivity].
Qed.

Lemma holds_nonempty : forall k n c gsp, holds k n c gsp -> Forall (fun g : list doc => g <> []) gsp.
Proof.
  intros k n c gsp H. destruct k; destruct c as [b|b|x|s|s|u]; cbn [holds] in H; try contradiction.
  - destruct H as (g & _ & _ & E). subst gsp. apply ne_nonempty.
  - destruct H as [_ [(E & _)|(_ & _ & Hok)]]; [subst gsp; constructor|apply (gs_ok_nonempty n); exact Hok].
  - destruct H as (bss & Hx & E). subst gsp. apply (gs_ok_nonempty n). apply (dyn_gs_ok D n x bss Hx).
  - destruct H as (g & _ & E). subst gsp. apply ne_nonempty.
  - destruct H as (g & _ & E). subst gsp. apply ne_nonempty.
Qed.

Lemma concat_nil_nonempty : forall gs : list (list doc), Forall (fun g : list doc => g <> []) gs -> concat gs = [] -> gs = [].
Proof.
  intros gs H E. destruct H as [|g gs Hg _]; [reflexivity|]. cbn [concat] in E.
  apply app_eq_nil in E. destruct E as [E _]. congruence.
Qed.

Lemma holds_info : forall k n c gsp, env_ok k -> holds k n c gsp -> snd (c_info c) = glen (concat gsp).
Proof.
  intros k n c gsp [Hwf Hdist] H. destruct k; destruct c as [b|b|x|s|s|u]; cbn [holds] in H; try contradiction; cbn [c_info].
  - destruct H as (g & Hb & _ & E). subst gsp. rewrite ne_concat. apply (bch_info D _ Hwf Hdist _ _ _ Hb).
  - apply (ba_info_inv D _ Hwf Hdist _ _ _ H).
  - destruct H as (bss & Hx & E). subst gsp. apply (dy_info_inv deflate D _ Hwf Hdist _ _ _ Hx).
  - destruct H as (g & Hs & E). subst gsp. rewrite ne_concat. apply (sc_info_inv D _ Hwf Hdist _ _ _ Hs).
  - destruct H as (g & [Hs _] & E). subst gsp. rewrite ne_concat. apply (sc_info_inv D _ Hwf Hdist _ _ _ Hs).
Qed.

Lemma ne_nil_inv : forall g, ne g = [] -> g = [].
Proof. intros [|a g] H; [reflexivity|discriminate H]. Qed.

Lemma holds_resolve_nil : forall k n c, holds k n c [] -> c_resolve deflate c = None.
Proof.
  intros k n c H. destruct k; destruct c as [b|b|x|s|s|u]; cbn [holds] in H; try contradiction; cbn [c_resolve].
  - destruct H as (g & Hb & _ & E). symmetry in E. apply ne_nil_inv in E. subst g.
    rewrite (bch_resolve_nil deflate D n b Hb). reflexivity.
  - rewrite (ba_resolve_nil deflate D n b H). reflexivity.
  - destruct H as (bss & Hx & E). symmetry in E.
    assert (bss = []) as ->.
    { pose proof (dyn_nes D n x bss Hx) as Hnes. destruct Hnes as [|gs bss' Hgs _]; [reflexivity|].
      cbn [concat] in E. apply app_eq_nil in E. destruct E as [E _]. congruence. }
    rewrite (dy_resolve_nil deflate D n x Hx). reflexivity.
  - destruct H as (g & Hs & E). symmetry in E. apply ne_nil_inv in E. subst g.
    apply (sc_resolve_nil deflate D n s Hs).
  - destruct H as (g & [Hs _] & E). symmetry in E. apply ne_nil_inv in E. subst g.
    apply (sc_resolve_nil deflate D n (sd_s s) Hs).
Qed.

Lemma holds_resolve : forall k n c gsp, env_ok k -> holds k n c gsp -> gsp <> [] ->
  exists out, c_resolve deflate c = Some (OFtdc out) /\ wstream deflate (cap_of k n - 1) out gsp.
Proof.
  intros k n c gsp [Hwf Hdist] H Hne.
  destruct k; destruct c as [b|b|x|s|s|u]; cbn [holds] in H; try contradiction; cbn [c_resolve cap_of].
  - destruct H as (g & Hb & Hl & E). subst gsp. destruct g as [|d0 ds]; [cbn [ne] in Hne; congruence|].
    destruct (bch_resolve deflate D Hwf n (n + 1 - 1) b d0 ds Hb) as [out [Hres Hws]].
    { unfold glen in Hl. cbn [length] in Hl. lia. }
    exists out. rewrite Hres. split; [reflexivity|exact Hws].
  - destruct (ba_resolve_inv deflate D _ Hwf Hdist n b gsp H Hne) as [out [Hres Hws]].
    exists out. rewrite Hres. split; [reflexivity|exact Hws].
  - destruct H as (bss & Hx & E). subst gsp.
    assert (Hbne : bss <> []) by (intros ->; apply Hne; reflexivity).
    destruct (dy_resolve_inv deflate D _ Hwf Hdist n x bss Hx Hbne) as [out [Hres Hws]].
    exists out. rewrite Hres. split; [reflexivity|exact Hws].
  - destruct H as (g & Hs & E). subst gsp. destruct g as [|d0 ds]; [cbn [ne] in Hne; congruence|].
    apply (sc_resolve_inv deflate D _ Hwf Hdist n s _ Hs). discriminate.
  - destruct H as (g & [Hs _] & E). subst gsp. destruct g as [|d0 ds]; [cbn [ne] in Hne; congruence|].
    apply (sc_resolve_inv deflate D _ Hwf Hdist n (sd_s s) _ Hs). discriminate.
Qed.

Lemma holds_max : forall k n c gsp, holds k n c gsp ->
  match c with
  | CBatch b => ba_max b = n
  | CDyn x => dy_max x = n
  | _ => True
  end.
Proof.
  intros k n c gsp H. destruct k; destruct c as [b|b|x|s|s|u]; cbn [holds] in H; try contradiction; try exact I.
  - apply H.
  - destruct H as (bss & Hx & _). apply Hx.
Qed.

Lemma holds_reset : forall k n c gsp, 1 <= n -> holds k n c gsp -> holds k n (c_reset c) [].
Proof.
  intros k n c gsp Hn H. destruct k; destruct c as [b|b|x|s|s|u]; cbn [holds] in H; try contradiction;
    cbn [c_reset holds].
  - destruct H as (g & Hb & _ & _). exists []. split; [apply (bch_reset D n b g Hb)|].
    split; [change (glen []) with 0; lia|reflexivity].
  - destruct H as [Hmax _]. rewrite Hmax. apply ba_new_inv.
  - destruct H as (bss & [Hmax _] & _). rewrite Hmax. exists []. split; [apply dy_new_inv|reflexivity].
  - destruct H as (g & Hs & _). exists []. split; [apply (sc_reset_inv D n s g ltac:(lia) Hs)|reflexivity].
  - destruct H as (g & Hs & _). exists []. split; [apply (sd_reset_inv D n s g ltac:(lia) Hs)|reflexivity].
Qed.

Lemma holds_set_meta : forall k n c gsp m, holds k n c gsp -> holds k n (c_set_meta c m) gsp.
Proof.
  intros k n c gsp m H. destruct k; destruct c as [b|b|x|s|s|u]; cbn [holds] in H; try contradiction;
    cbn [c_set_meta holds].
  - exact H.
  - apply ba_set_meta_inv. exact H.
  - destruct H as (bss & Hx & E). exists bss. split; [apply dy_set_meta_inv; exact Hx|exact E].
  - destruct H as (g & Hs & E). exists g. split; [apply sc_set_meta_inv; exact Hs|exact E].
  - destruct H as (g & [Hs Hh] & E). exists g. split; [|exact E].
    split; [cbn [sd_s]; apply sc_set_meta_inv; exact Hs|exact Hh].
Qed.

(* ------------------------------------------------------------------ Flush *)
Lemma inv_flush : forall k n c w gsw gsp, env_ok k -> 1 <= n -> INV k n (c, w) gsw gsp ->
  exists c' w', c_flush deflate c w = (c', w', true) /\ INV k n (c', w') (gsw ++ gsp) [] /\
                (gsp = [] -> c' = c /\ w' = w).
Proof.
  intros k n c w gsw gsp Henv Hn (Hf & Hw & Hc). cbn [fst snd] in *.
  rewrite c_flush_eq. destruct gsp as [|g gsp'].
  - exists c, w. unfold flush_with. rewrite (holds_info k n c [] Henv Hc). cbn [concat]. change (glen []) with 0.
    split; [reflexivity|]. split; [|intros _; split; reflexivity].
    rewrite app_nil_r. repeat split; assumption.
  - assert (Hne : g :: gsp' <> []) by discriminate.
    destruct (holds_resolve k n c _ Henv Hc Hne) as [out [Hres Hws]].
    exists (c_reset c), (w_push w out). split; [|split; [|intros E; discriminate E]].
    + apply flush_with_ok; try assumption. rewrite (holds_info k n c _ Henv Hc).
      pose proof (holds_nonempty k n c _ Hc) as Hnes. inversion Hnes as [|u v Hg _]; subst.
      cbn [concat]. rewrite glen_app. pose proof (glen_pos g Hg). pose proof (glen_nonneg (concat gsp')). lia.
    + split; [reflexivity|]. cbn [fst snd]. split; [|apply (holds_reset k n c _ Hn Hc)].
      rewrite emitted_push. apply wstream_app; assumption.
Qed.

(* ------------------------------------------------------------------ Add *)
Definition contents (gsw gsp : list (list doc)) : list doc := concat gsw ++ concat gsp.

Lemma aware_false : forall k g d, sig_aware k = false -> sigprem (sig_aware k) g d.
Proof. intros k g d H Haw. rewrite H in Haw. discriminate Haw. Qed.

Lemma inv_push : forall k n w gsw out g, w_faults w = [] -> wstream deflate (cap_of k n - 1) (emitted w) gsw ->
  wstream deflate (cap_of k n - 1) out [g] ->
  w_faults (w_push w out) = [] /\ wstream deflate (cap_of k n - 1) (emitted (w_push w out)) (gsw ++ [g]).
Proof.
  intros k n w gsw out g Hf Hw Hout. split; [reflexivity|]. rewrite emitted_push. apply wstream_app; assumption.
Qed.

Lemma contents_flush : forall gsw (g : list doc) d, g <> [] ->
  contents (gsw ++ [g]) (ne [d]) = contents gsw (ne g) ++ [d].
Proof.
  intros gsw g d Hne. unfold contents. rewrite cp_concat_snoc, !ne_concat. reflexivity.
Qed.

Lemma contents_join : forall gsw (g : list doc) d, contents gsw (ne (g ++ [d])) = contents gsw (ne g) ++ [d].
Proof. intros gsw g d. unfold contents. rewrite !ne_concat, app_assoc. reflexivity. Qed.

Lemma inv_add : forall k n c w gsw gsp d now, compressing k = true -> env_ok k -> 1 <= n ->
  INV k n (c, w) gsw gsp -> D d ->
  exists c' w' r, c_add deflate c w d now = (c', w', r) /\
    ((r = ROk /\ exists gsw' gsp', INV k n (c', w') gsw' gsp' /\ contents gsw' gsp' = contents gsw gsp ++ [d]) \/
     (r <> ROk /\ c' = c /\ w' = w)).
Proof.
  intros k n c w gsw gsp d now Hk Henv Hn (Hf & Hw & Hc) Hd. pose proof Henv as [Hwf Hdist]. cbn [fst snd] in *.
  destruct k; try discriminate Hk; destruct c as [b|b|x|s|s|u]; cbn [holds] in Hc; try contradiction; cbn [c_add].
  - (* base *)
    destruct Hc as (g & Hb & Hl & E). subst gsp. destruct g as [|d0 ds].
    + destruct (bch_add_empty D n b d now Hb Hd) as [b' [Hadd Hb']]. rewrite Hadd.
      eexists. eexists. eexists. split; [reflexivity|]. left. split; [reflexivity|].
      exists gsw, (ne [d]). split; [|apply (contents_join gsw [] d)].
      split; [exact Hf|]. split; [exact Hw|]. cbn [fst holds]. exists [d]. split; [exact Hb'|].
      split; [change (glen [d]) with 1; lia|reflexivity].
    + destruct (bch_add D _ Hwf Hdist n b (d0 :: ds) d now Hb ltac:(discriminate) Hd (aware_false KBase _ _ eq_refl))
        as [(b' & Hadd & Hb' & Hroom & _)|(r & Hadd & Hr & _)]; rewrite Hadd.
      * eexists. eexists. eexists. split; [reflexivity|]. left. split; [reflexivity|].
        exists gsw, (ne ((d0 :: ds) ++ [d])). split; [|apply contents_join].
        split; [exact Hf|]. split; [exact Hw|]. cbn [fst holds]. exists ((d0 :: ds) ++ [d]). split; [exact Hb'|].
        split; [rewrite glen_snoc; lia|reflexivity].
      * eexists. eexists. eexists. split; [reflexivity|]. right.
        split; [apply of_add_res_ok; exact Hr|split; reflexivity].
  - (* batch *)
    destruct gsp as [|g0 gsp'].
    + destruct (ba_add_fresh D _ Hwf Hdist n b d now Hn Hc Hd) as [b' [Hadd Hb']]. rewrite Hadd.
      eexists. eexists. eexists. split; [reflexivity|]. left. split; [reflexivity|].
      exists gsw, [[d]]. split; [|unfold contents; cbn [concat]; rewrite !app_nil_r; reflexivity].
      split; [exact Hf|]. split; [exact Hw|exact Hb'].
    + destruct (@exists_last _ (g0 :: gsp') ltac:(discriminate)) as (gs0 & g & Egs). rewrite Egs in *.
      destruct (Z_le_gt_dec n (glen g)) as [Hfull|Hroom].
      * destruct (ba_add_full D _ Hwf Hdist n b gs0 g d now Hn Hc Hfull Hd) as [b' [Hadd Hb']]. rewrite Hadd.
        eexists. eexists. eexists. split; [reflexivity|]. left. split; [reflexivity|].
        exists gsw, ((gs0 ++ [g]) ++ [[d]]). split; [|unfold contents; rewrite cp_concat_snoc, app_assoc; reflexivity].
        split; [exact Hf|]. split; [exact Hw|exact Hb'].
      * destruct (ba_add_room D _ Hwf Hdist n b gs0 g d now Hc ltac:(lia) Hd (aware_false KBatch _ _ eq_refl))
          as [(b' & Hadd & Hb' & _)|(r & Hadd & Hr & _)]; rewrite Hadd.
        -- eexists. eexists. eexists. split; [reflexivity|]. left. split; [reflexivity|].
           exists gsw, (gs0 ++ [g ++ [d]]).
           split; [|unfold contents; rewrite !cp_concat_snoc, !app_assoc; reflexivity].
           split; [exact Hf|]. split; [exact Hw|exact Hb'].
        -- eexists. eexists. eexists. split; [reflexivity|]. right. split; [exact Hr|split; reflexivity].
  - (* dynamic *)
    destruct Hc as (bss & Hx & E). subst gsp. destruct (dy_hash x) as [h|] eqn:Eh.
    + pose proof Hx as [_ Hst]. rewrite Eh in Hst. destruct Hst as (Hbne & _ & Hnes & _).
      destruct (bytes_eqb h (fst (schema_sig d))) eqn:Esig.
      * apply cb_bytes_eqb_true in Esig.
        destruct (exists_last Hbne) as (bss0 & gs & Ebss). rewrite Ebss in *.
        assert (Hgsne : gs <> []).
        { apply Forall_app in Hnes. destruct Hnes as [_ Hl]. inversion Hl; assumption. }
        destruct (exists_last Hgsne) as (gs0 & g & Egs). rewrite Egs in *.
        destruct (Z_le_gt_dec n (glen g)) as [Hfull|Hroom].
        -- destruct (dy_add_same_full D _ Hwf Hdist n x bss0 gs0 g h d now Hn Hx Eh Esig Hfull Hd) as (x' & Hadd & Hx' & _).
           rewrite Hadd. eexists. eexists. eexists. split; [reflexivity|]. left. split; [reflexivity|].
           exists gsw, (concat (bss0 ++ [(gs0 ++ [g]) ++ [[d]]])).
           split; [|unfold contents; rewrite cc2_new_chunk, app_assoc; reflexivity].
           split; [exact Hf|]. split; [exact Hw|]. cbn [fst holds]. eexists. split; [exact Hx'|reflexivity].
        -- destruct (dy_add_same_room D _ Hwf Hdist n x bss0 gs0 g h d now Hx Eh Esig ltac:(lia) Hd)
             as [(x' & Hadd & Hx' & _)|(r & Hadd & Hr & _)]; rewrite Hadd.
           ++ eexists. eexists. eexists. split; [reflexivity|]. left. split; [reflexivity|].
              exists gsw, (concat (bss0 ++ [gs0 ++ [g ++ [d]]])).
              split; [|unfold contents; rewrite cc2_join, app_assoc; reflexivity].
              split; [exact Hf|]. split; [exact Hw|]. cbn [fst holds]. eexists. split; [exact Hx'|reflexivity].
           ++ eexists. eexists. eexists. split; [reflexivity|]. right. split; [exact Hr|split; reflexivity].
      * apply cb_bytes_eqb_false in Esig.
        destruct (dy_add_change D _ Hwf Hdist n x bss h d now Hn Hx Eh Esig Hd) as (x' & Hadd & Hx').
        rewrite Hadd. eexists. eexists. eexists. split; [reflexivity|]. left. split; [reflexivity|].
        exists gsw, (concat (bss ++ [[[d]]])).
        split; [|unfold contents; rewrite cc2_new_batch, app_assoc; reflexivity].
        split; [exact Hf|]. split; [exact Hw|]. cbn [fst holds]. eexists. split; [exact Hx'|reflexivity].
    + destruct (dy_add_fresh D _ Hwf Hdist n x bss d now Hn Hx Eh Hd) as (Ebss & x' & Hadd & Hx'). subst bss.
      rewrite Hadd. eexists. eexists. eexists. split; [reflexivity|]. left. split; [reflexivity|].
      exists gsw, (concat [[[d]]]). split; [|unfold contents; cbn [concat app]; rewrite !app_nil_r; reflexivity].
      split; [exact Hf|]. split; [exact Hw|]. cbn [fst holds]. eexists. split; [exact Hx'|reflexivity].
  - (* streaming *)
    destruct Hc as (g & Hs & E). subst gsp.
    destruct (Z_le_gt_dec n (glen g)) as [Hfull|Hroom].
    + destruct (sc_add_full deflate D _ Hwf Hdist n s g w d now Hn Hs Hfull Hf Hd) as (out & s' & Hadd & Hout & Hs').
      rewrite Hadd. eexists. eexists. eexists. split; [reflexivity|]. left. split; [reflexivity|].
      assert (Hne : g <> []) by (intros ->; change (glen []) with 0 in Hfull; lia).
      exists (gsw ++ [g]), (ne [d]). split; [|apply contents_flush; exact Hne].
      destruct (inv_push KStream n w gsw out g Hf Hw Hout) as [Hf' Hw'].
      split; [exact Hf'|]. split; [exact Hw'|]. cbn [fst holds]. exists [d]. split; [exact Hs'|reflexivity].
    + rewrite (sc_add_room deflate D n s g w d now Hs ltac:(lia)). destruct g as [|d0 ds].
      * destruct (sc_tail_empty D _ Hwf Hdist n s w d now Hn Hs Hd) as [s' [Htail Hs']]. rewrite Htail.
        eexists. eexists. eexists. split; [reflexivity|]. left. split; [reflexivity|].
        exists gsw, (ne [d]). split; [|apply (contents_join gsw [] d)].
        split; [exact Hf|]. split; [exact Hw|]. cbn [fst holds]. exists [d]. split; [exact Hs'|reflexivity].
      * destruct (sc_tail_room D _ Hwf Hdist n s (d0 :: ds) w d now Hs ltac:(discriminate) ltac:(lia) Hd
                    (aware_false KStream _ _ eq_refl)) as [(s' & Htail & Hs' & _)|(r & Htail & Hr & _)]; rewrite Htail.
        -- eexists. eexists. eexists. split; [reflexivity|]. left. split; [reflexivity|].
           exists gsw, (ne ((d0 :: ds) ++ [d])). split; [|apply contents_join].
           split; [exact Hf|]. split; [exact Hw|]. cbn [fst holds]. eexists. split; [exact Hs'|reflexivity].
        -- eexists. eexists. eexists. split; [reflexivity|]. right. split; [exact Hr|split; reflexivity].
  - (* streaming dynamic *)
    destruct Hc as (g & Hs & E). subst gsp.
    destruct (sd_changed s d) eqn:Ech.
    + destruct (sd_add_changed deflate D _ Hwf Hdist n s g w d now Hn Hs Ech Hf Hd) as (c' & w' & Hadd & Hc' & Hcase).
      rewrite Hadd. eexists. eexists. eexists. split; [reflexivity|]. left. split; [reflexivity|].
      destruct Hcase as [[Eg Ew]|(Hne & out & Ew & Hout)]; subst w'.
      * subst g. exists gsw, (ne [d]). split; [|apply (contents_join gsw [] d)].
        split; [exact Hf|]. split; [exact Hw|]. cbn [fst holds]. exists [d]. split; [exact Hc'|reflexivity].
      * exists (gsw ++ [g]), (ne [d]). split; [|apply contents_flush; exact Hne].
        destruct (inv_push KSDyn n w gsw out g Hf Hw Hout) as [Hf' Hw'].
        split; [exact Hf'|]. split; [exact Hw'|]. cbn [fst holds]. exists [d]. split; [exact Hc'|reflexivity].
    + destruct (Z_le_gt_dec n (glen g)) as [Hfull|Hroom].
      * destruct (sd_add_same_full deflate D _ Hwf Hdist n s g w d now Hn Hs Ech Hfull Hf Hd) as (out & c' & Hadd & Hout & Hc').
        rewrite Hadd. eexists. eexists. eexists. split; [reflexivity|]. left. split; [reflexivity|].
        assert (Hne : g <> []) by (intros ->; change (glen []) with 0 in Hfull; lia).
        exists (gsw ++ [g]), (ne [d]). split; [|apply contents_flush; exact Hne].
        destruct (inv_push KSDyn n w gsw out g Hf Hw Hout) as [Hf' Hw'].
        split; [exact Hf'|]. split; [exact Hw'|]. cbn [fst holds]. exists [d]. split; [exact Hc'|reflexivity].
      * destruct (sd_add_same_room deflate D _ Hwf Hdist n s g w d now Hn Hs Ech ltac:(lia) Hd)
          as [(c' & Hadd & Hc' & _)|(r & Hadd & Hr & _)]; rewrite Hadd.
        -- eexists. eexists. eexists. split; [reflexivity|]. left. split; [reflexivity|].
           exists gsw, (ne (g ++ [d])). split; [|apply contents_join].
           split; [exact Hf|]. split; [exact Hw|]. cbn [fst holds]. eexists. split; [exact Hc'|reflexivity].
        -- eexists. eexists. eexists. split; [reflexivity|]. right. split; [exact Hr|split; reflexivity].
Qed.

(* Add of an unreadable input: only the streaming collector does anything (its
   flush-before-add at capacity) *)
Lemma inv_add_bad : forall k n c w gsw gsp, compressing k = true -> env_ok k -> 1 <= n ->
  INV k n (c, w) gsw gsp ->
  exists c' w' r, c_add_bad deflate c w = (c', w', r) /\ r <> ROk /\
    (k <> KStream -> c' = c /\ w' = w) /\
    exists gsw' gsp', INV k n (c', w') gsw' gsp' /\ contents gsw' gsp' = contents gsw gsp.
Proof.
  intros k n c w gsw gsp Hk Henv Hn Hinv. pose proof Hinv as (Hf & Hw & Hc). cbn [fst snd] in *.
  destruct k; try discriminate Hk; destruct c as [b|b|x|s|s|u]; cbn [holds] in Hc; try contradiction; cbn [c_add_bad];
    try (eexists; eexists; eexists; split; [reflexivity|]; split; [discriminate|]; split; [intros _; split; reflexivity|];
         exists gsw, gsp; split; [exact Hinv|reflexivity]).
  destruct Hc as (g & Hs & E). subst gsp. pose proof Hs as (b & _ & Hmax & Hcnt & _). rewrite Hmax, Hcnt.
  destruct (n <=? glen g) eqn:Efull.
  - apply Z.leb_le in Efull.
    assert (Hne : g <> []) by (intros ->; change (glen []) with 0 in Efull; lia).
    destruct Henv as [Hwf Hdist].
    destruct (sc_flush_inv deflate D _ Hwf Hdist n s g w ltac:(lia) Hs Hne Hf) as (out & Hfl & Hout & Hs').
    rewrite Hfl. eexists. eexists. eexists. split; [reflexivity|]. split; [discriminate|].
    split; [intros H; congruence|]. exists (gsw ++ [g]), (ne []).
    split; [|unfold contents; rewrite cp_concat_snoc, !ne_concat, app_nil_r; reflexivity].
    destruct (inv_push KStream n w gsw out g Hf Hw Hout) as [Hf' Hw'].
    split; [exact Hf'|]. split; [exact Hw'|]. cbn [fst holds]. exists []. split; [exact Hs'|reflexivity].
  - eexists. eexists. eexists. split; [reflexivity|]. split; [discriminate|]. split; [intros _; split; reflexivity|].
    exists gsw, (ne g). split; [exact Hinv|reflexivity].
Qed.

End Inv.
