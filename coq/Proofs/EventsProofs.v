(* Proofs about the events model (Model/Events.v) against the specification of
   running totals (Model/EventsOk.v).  The property theorems of Props/C14.v are
   closed by [exact] of lemmas proved here. *)
From Coq Require Import String Ascii ZArith NArith List Bool Lia Arith.
From FV.Model Require Import Bytes Bson Events EventsOk.
Import ListNotations.
Open Scope Z_scope.

Ltac dlia := Z.div_mod_to_equations; lia.

(* ------------------------------------------------------------------ int64 *)

Lemma in_i64_iff : forall z, in_i64 z = true <-> - 2 ^ 63 <= z < 2 ^ 63.
Proof.
  intros z. unfold in_i64. rewrite andb_true_iff, Z.leb_le, Z.ltb_lt. tauto.
Qed.

Lemma wrap64_range : forall z, in_i64 (wrap64 z) = true.
Proof. intros z. apply in_i64_iff. unfold wrap64. dlia. Qed.

Lemma wrap64_id : forall z, in_i64 z = true -> wrap64 z = z.
Proof. intros z Hz. apply in_i64_iff in Hz. unfold wrap64. dlia. Qed.

Lemma wrap64_small : forall z, - 2 ^ 63 <= z < 2 ^ 63 -> wrap64 z = z.
Proof. intros z Hz. apply wrap64_id, in_i64_iff, Hz. Qed.

Lemma wrap64_add_l : forall a b, wrap64 (wrap64 a + b) = wrap64 (a + b).
Proof. intros a b. unfold wrap64. dlia. Qed.

Lemma wrap64_add_r : forall a b, wrap64 (a + wrap64 b) = wrap64 (a + b).
Proof. intros a b. unfold wrap64. dlia. Qed.

(* ------------------------------------------------------------------ time *)

Lemma time_ms_roundtrip : forall ms, in_i64 ms = true ->
  time_to_ms (fst (ms_to_time ms)) (snd (ms_to_time ms)) = ms /\
  0 <= snd (ms_to_time ms) < 1000000000.
Proof.
  intros ms Hms. apply in_i64_iff in Hms.
  unfold ms_to_time.
  assert (Hq : ms = 1000 * Z.quot ms 1000 + Z.rem ms 1000 /\ -1000 < Z.rem ms 1000 < 1000)
    by (Z.to_euclidean_division_equations; lia).
  destruct Hq as [Hq Hr].
  set (q := Z.quot ms 1000) in *. set (r := Z.rem ms 1000) in *.
  rewrite (wrap64_small (r * 1000000)) by lia.
  unfold go_time_unix.
  destruct (r * 1000000 <? 0) eqn:Hneg; cbn [orb].
  - apply Z.ltb_lt in Hneg.
    assert (Hn : Z.quot (r * 1000000) 1000000000 = 0) by (apply Z.quot_small_iff; lia).
    rewrite Hn. replace (q + 0) with q by ring. replace (0 * 1000000000) with 0 by ring.
    assert (Hqr : - 2 ^ 63 <= q < 2 ^ 63) by lia.
    rewrite (wrap64_small q) by exact Hqr.
    rewrite (wrap64_small 0) by lia.
    replace (r * 1000000 - 0) with (r * 1000000) by ring.
    rewrite (wrap64_small (r * 1000000)) by lia.
    assert (Hlt : r * 1000000 <? 0 = true) by (apply Z.ltb_lt; exact Hneg).
    rewrite Hlt. cbn [fst snd].
    rewrite (wrap64_small (q - 1)) by lia.
    rewrite (wrap64_small (r * 1000000 + 1000000000)) by lia.
    split; [| lia].
    unfold time_to_ms. rewrite wrap64_add_l.
    replace ((r * 1000000 + 1000000000) / 1000000) with (r + 1000) by dlia.
    replace ((q - 1) * 1000 + (r + 1000)) with ms by lia.
    apply wrap64_small. exact Hms.
  - apply Z.ltb_ge in Hneg.
    assert (Hge : 1000000000 <=? r * 1000000 = false) by (apply Z.leb_gt; lia).
    rewrite Hge. cbn [fst snd]. split; [| lia].
    unfold time_to_ms. rewrite wrap64_add_l.
    replace (r * 1000000 / 1000000) with r by dlia.
    replace (q * 1000 + r) with ms by lia.
    apply wrap64_small. exact Hms.
Qed.

(* the other direction: a time with sub-millisecond digits comes back cut to
   the millisecond (seconds in a range where nothing overflows) *)
Lemma time_trunc_ms : forall sec nsec,
  - 2 ^ 50 < sec < 2 ^ 50 -> 0 <= nsec < 1000000000 ->
  ms_to_time (time_to_ms sec nsec) = (sec, nsec - nsec mod 1000000).
Proof.
  intros sec nsec Hs Hn.
  assert (H50 : 2 ^ 50 = 1125899906842624) by reflexivity.
  assert (H63 : 2 ^ 63 = 9223372036854775808) by reflexivity.
  unfold time_to_ms.
  rewrite (wrap64_small (sec * 1000)) by lia.
  set (m := nsec / 1000000).
  assert (Hm : 0 <= m < 1000) by (unfold m; dlia).
  assert (Hmn : nsec - nsec mod 1000000 = m * 1000000) by (unfold m; dlia).
  rewrite Hmn.
  rewrite (wrap64_small (sec * 1000 + m)) by lia.
  unfold ms_to_time.
  set (ms := sec * 1000 + m).
  assert (Hq : ms = 1000 * Z.quot ms 1000 + Z.rem ms 1000 /\ -1000 < Z.rem ms 1000 < 1000 /\
               (0 <= ms -> 0 <= Z.rem ms 1000) /\ (ms <= 0 -> Z.rem ms 1000 <= 0))
    by (Z.to_euclidean_division_equations; lia).
  destruct Hq as (Hq & Hr & Hsign).
  set (q := Z.quot ms 1000) in *. set (r := Z.rem ms 1000) in *.
  rewrite (wrap64_small (r * 1000000)) by lia.
  unfold go_time_unix.
  destruct (r * 1000000 <? 0) eqn:Hneg; cbn [orb].
  - apply Z.ltb_lt in Hneg.
    assert (Hn0 : Z.quot (r * 1000000) 1000000000 = 0) by (apply Z.quot_small_iff; lia).
    rewrite Hn0. replace (q + 0) with q by ring. replace (0 * 1000000000) with 0 by ring.
    rewrite (wrap64_small q) by lia.
    rewrite (wrap64_small 0) by lia.
    replace (r * 1000000 - 0) with (r * 1000000) by ring.
    rewrite (wrap64_small (r * 1000000)) by lia.
    assert (Hlt : r * 1000000 <? 0 = true) by (apply Z.ltb_lt; exact Hneg).
    rewrite Hlt.
    rewrite (wrap64_small (q - 1)) by lia.
    rewrite (wrap64_small (r * 1000000 + 1000000000)) by lia.
    assert (ms < 0) by lia.
    f_equal; unfold ms in *; lia.
  - apply Z.ltb_ge in Hneg.
    assert (Hge : 1000000000 <=? r * 1000000 = false) by (apply Z.leb_gt; lia).
    rewrite Hge.
    f_equal; unfold ms in *; lia.
Qed.

Local Opaque wrap64.

(* ------------------------------------------------------------------ the heap *)

Lemma upd_length : forall st i f, length (upd st i f) = length st.
Proof.
  induction st as [|p r IH]; intros i f; [reflexivity|].
  destruct i; cbn [upd length]; [reflexivity | now rewrite IH].
Qed.

Lemma get_upd_same : forall st i f, (i < length st)%nat -> get (upd st i f) i = f (get st i).
Proof.
  unfold get. induction st as [|p r IH]; intros i f Hi; cbn [length] in Hi; [lia|].
  destruct i; cbn [upd nth]; [reflexivity | apply IH; lia].
Qed.

Lemma get_upd_other : forall st i j f, i <> j -> get (upd st i f) j = get st j.
Proof.
  unfold get. induction st as [|p r IH]; intros i j f Hij; [reflexivity|].
  destruct i, j; cbn [upd nth]; try reflexivity; [congruence | apply IH; congruence].
Qed.

Lemma get_app_old : forall st p i, (i < length st)%nat -> get (st ++ [p]) i = get st i.
Proof. intros st p i Hi. unfold get. apply app_nth1. exact Hi. Qed.

Lemma get_app_new : forall st p, get (st ++ [p]) (length st) = p.
Proof. intros st p. unfold get. rewrite app_nth2, Nat.sub_diag by lia. reflexivity. Qed.

(* ------------------------------------------------------------------ Performance.Add *)

Definition run_assignments (fs : list (perf -> perf -> perf)) (s : store) (pi ii : nat) : store :=
  fold_left (fun s f => assign s pi ii f) fs s.

Lemma run_assignments_length : forall fs s pi ii, length (run_assignments fs s pi ii) = length s.
Proof.
  unfold run_assignments. induction fs as [|f r IH]; intros s pi ii; cbn [fold_left]; [reflexivity|].
  rewrite IH. unfold assign. apply upd_length.
Qed.

Lemma run_assignments_other : forall fs s pi ii j, j <> pi ->
  get (run_assignments fs s pi ii) j = get s j.
Proof.
  unfold run_assignments. induction fs as [|f r IH]; intros s pi ii j Hj; cbn [fold_left]; [reflexivity|].
  rewrite IH by exact Hj. unfold assign. apply get_upd_other. congruence.
Qed.

(* p and in are different objects: in is not touched by the assignments *)
Lemma run_assignments_diff : forall fs s pi ii, pi <> ii -> (pi < length s)%nat ->
  get (run_assignments fs s pi ii) pi = fold_left (fun p f => f p (get s ii)) fs (get s pi).
Proof.
  unfold run_assignments. induction fs as [|f r IH]; intros s pi ii Hd Hp; cbn [fold_left]; [reflexivity|].
  rewrite IH; [| exact Hd | unfold assign; rewrite upd_length; exact Hp].
  unfold assign. rewrite get_upd_same by exact Hp. rewrite get_upd_other by exact Hd. reflexivity.
Qed.

(* p and in are the same object: every assignment reads what the previous ones wrote *)
Lemma run_assignments_same : forall fs s pi, (pi < length s)%nat ->
  get (run_assignments fs s pi pi) pi = fold_left (fun p f => f p p) fs (get s pi).
Proof.
  unfold run_assignments. induction fs as [|f r IH]; intros s pi Hp; cbn [fold_left]; [reflexivity|].
  rewrite IH; [| unfold assign; rewrite upd_length; exact Hp].
  unfold assign. rewrite get_upd_same by exact Hp. reflexivity.
Qed.

Lemma add_assignments_diff : forall p v,
  fold_left (fun p f => f p v) add_assignments p =
  mkPerf (p_ts v) (p_id v)
         (wrap64 (p_n p + p_n v)) (wrap64 (p_ops p + p_ops v)) (wrap64 (p_size p + p_size v))
         (wrap64 (p_errors p + p_errors v)) (wrap64 (p_dur p + p_dur v)) (wrap64 (p_total p + p_total v))
         (p_state v) (p_workers v) (p_failed v).
Proof. intros [] []. reflexivity. Qed.

Lemma add_assignments_same : forall p,
  fold_left (fun p f => f p p) add_assignments p =
  mkPerf (p_ts p) (p_id p)
         (wrap64 (p_n p + p_n p)) (wrap64 (p_ops p + p_ops p)) (wrap64 (p_size p + p_size p))
         (wrap64 (p_errors p + p_errors p)) (wrap64 (p_dur p + p_dur p)) (wrap64 (p_total p + p_total p))
         (p_state p) (p_workers p) (p_failed p).
Proof. intros []. reflexivity. Qed.

Lemma add_id_rule_length : forall st pi ii, length (add_id_rule st pi ii) = length st.
Proof. intros. unfold add_id_rule. destruct (_ =? 0); [apply upd_length | reflexivity]. Qed.

Lemma add_id_rule_in : forall st pi ii, (ii < length st)%nat ->
  get (add_id_rule st pi ii) ii = set_id (get st ii) (next_id (p_id (get st pi)) (get st ii)).
Proof.
  intros st pi ii Hi. unfold add_id_rule, next_id.
  destruct (p_id (get st ii) =? 0) eqn:E.
  - rewrite get_upd_same by exact Hi. reflexivity.
  - destruct (get st ii); reflexivity.
Qed.

Lemma add_id_rule_other : forall st pi ii j, j <> ii -> get (add_id_rule st pi ii) j = get st j.
Proof.
  intros st pi ii j Hj. unfold add_id_rule. destruct (_ =? 0); [| reflexivity].
  apply get_upd_other. congruence.
Qed.

(* What p.Add(in) does to the heap, for ANY two pointers (equal or not):
   *p becomes [accumulate *p *in]; *in (when another object) only has its id
   filled in; nothing else changes *)
Lemma perf_add_spec : forall st pi ii, (pi < length st)%nat -> (ii < length st)%nat ->
  length (perf_add st pi ii) = length st /\
  get (perf_add st pi ii) pi = accumulate (get st pi) (get st ii) /\
  (ii <> pi -> get (perf_add st pi ii) ii = set_id (get st ii) (next_id (p_id (get st pi)) (get st ii))) /\
  (forall j, j <> pi -> j <> ii -> get (perf_add st pi ii) j = get st j).
Proof.
  intros st pi ii Hp Hi. unfold perf_add. fold (run_assignments add_assignments (add_id_rule st pi ii) pi ii).
  split; [rewrite run_assignments_length; apply add_id_rule_length|].
  split; [| split].
  - destruct (Nat.eq_dec pi ii) as [E|D].
    + subst ii. rewrite run_assignments_same by (rewrite add_id_rule_length; exact Hp).
      rewrite add_assignments_same, add_id_rule_in by exact Hp.
      destruct (get st pi); reflexivity.
    + rewrite run_assignments_diff by (try exact D; rewrite add_id_rule_length; exact Hp).
      rewrite add_assignments_diff, add_id_rule_in by exact Hi.
      rewrite add_id_rule_other by exact D.
      destruct (get st pi), (get st ii); reflexivity.
  - intros D. rewrite run_assignments_other by exact D. apply add_id_rule_in. exact Hi.
  - intros j Hjp Hji. rewrite run_assignments_other by exact Hjp. apply add_id_rule_other. exact Hji.
Qed.

(* ------------------------------------------------------------------ totals *)

Lemma sumf_snoc : forall f l v, sumf f (l ++ [v]) = sumf f l + f v.
Proof.
  intros f l v. unfold sumf. induction l as [|a r IH]; cbn [app fold_right]; [lia | rewrite IH; lia].
Qed.

Lemma id_after_snoc : forall l v, l <> [] -> id_after (l ++ [v]) = next_id (id_after l) v.
Proof.
  intros [|e r] v Hl; [congruence|]. cbn [id_after app]. rewrite fold_left_app. reflexivity.
Qed.

Lemma totals_single : forall e, perf_wf e = true -> totals [e] = e.
Proof.
  intros [ts id n ops size errors dur total st wk fl] Hwf.
  unfold perf_wf in Hwf. cbn [p_ts p_id p_n p_ops p_size p_errors p_dur p_total p_state p_workers] in Hwf.
  repeat (apply andb_true_iff in Hwf; destruct Hwf as [Hwf ?]).
  unfold totals, sumf. cbn [last fold_right id_after fold_left p_ts p_id p_n p_ops p_size p_errors p_dur p_total p_state p_workers p_failed].
  repeat rewrite Z.add_0_r.
  repeat rewrite wrap64_id by assumption. reflexivity.
Qed.

Lemma totals_snoc : forall l v, l <> [] -> totals (l ++ [v]) = accumulate (totals l) v.
Proof.
  intros l v Hl. unfold totals, accumulate.
  cbn [p_ts p_id p_n p_ops p_size p_errors p_dur p_total p_state p_workers p_failed].
  rewrite last_last, (id_after_snoc l v Hl). repeat rewrite sumf_snoc. repeat rewrite wrap64_add_l.
  reflexivity.
Qed.

(* prefix of a list *)
Definition pre (all : list perf) (k : nat) : perf := totals (firstn (S k) all).

Lemma firstn_all_app : forall (l r : list perf), firstn (length l) (l ++ r) = l.
Proof. induction l as [|a l IH]; intros r; cbn [length firstn app]; [destruct r; reflexivity | now rewrite IH]. Qed.

Lemma pre_at_end : forall l v r, pre (l ++ v :: r) (length l) = totals (l ++ [v]).
Proof.
  intros l v r. unfold pre.
  replace (l ++ v :: r) with ((l ++ [v]) ++ r) by (rewrite <- app_assoc; reflexivity).
  replace (S (length l)) with (length (l ++ [v])) by (rewrite app_length; cbn [length]; lia).
  rewrite firstn_all_app. reflexivity.
Qed.

(* ------------------------------------------------------------------ one operation *)

Definition prepare (s : state) (o : op) : option (state * nat * perf) :=
  match o with
  | EvNil => None
  | EvNew p => Some (mkState (s_store s ++ [p]) (s_current s) (s_count s), length (s_store s), p)
  | EvAgain i => if Nat.ltb i (length (s_store s)) then Some (s, i, get (s_store s) i) else None
  end.

Lemma step_prepare : forall k s o,
  step k s o = match prepare s o with
               | Some (s0, idx, v) => (fst (add_event k s0 idx), mkObs (Some v) (snd (add_event k s0 idx)))
               | None => (s, mkObs None (match o with EvNil => RRefused | _ => RNoObject end))
               end.
Proof.
  intros k s o. destruct o as [p|i|]; cbn [step prepare].
  - destruct (add_event k _ _); reflexivity.
  - destruct (Nat.ltb i (length (s_store s))); [destruct (add_event k _ _)|]; reflexivity.
  - reflexivity.
Qed.

Definition wf_op (o : op) : Prop := match o with EvNew p => perf_wf p = true | _ => True end.
Definition wf_history (ops : list op) : Prop := Forall wf_op ops.

(* c.current points at the totals of the events added so far *)
Definition inv0 (s : state) (evs : list perf) : Prop :=
  match evs with
  | [] => s_current s = None
  | _ :: _ => exists c, s_current s = Some c /\ (c < length (s_store s))%nat /\
                        get (s_store s) c = totals evs
  end.

Definition inv (s : state) (evs : list perf) : Prop :=
  inv0 s evs /\ (evs = [] -> s_store s = []).

Lemma prepare_inv : forall s evs o s0 idx v,
  inv s evs -> wf_op o -> prepare s o = Some (s0, idx, v) ->
  inv0 s0 evs /\ (idx < length (s_store s0))%nat /\ get (s_store s0) idx = v /\
  (evs = [] -> perf_wf v = true) /\ s_count s0 = s_count s.
Proof.
  intros s evs o s0 idx v [Hi He] Hwf Hp. destruct o as [p|i|]; cbn [prepare] in Hp.
  - inversion Hp; subst; clear Hp. cbn [s_store s_count].
    split; [| split; [| split; [| split]]].
    + destruct evs as [|e r]; [exact Hi|]. destruct Hi as (c & Hc & Hlt & Hg).
      exists c. cbn [s_current s_store]. split; [exact Hc|].
      split; [rewrite app_length; cbn [length]; lia|].
      rewrite get_app_old by exact Hlt. exact Hg.
    + rewrite app_length; cbn [length]; lia.
    + apply get_app_new.
    + intros _. exact Hwf.
    + reflexivity.
  - destruct (Nat.ltb i (length (s_store s))) eqn:E; [| discriminate].
    inversion Hp; subst; clear Hp. apply Nat.ltb_lt in E.
    split; [exact Hi|]. split; [exact E|]. split; [reflexivity|]. split; [| reflexivity].
    intros Hnil. rewrite (He Hnil) in E. cbn [length] in E. lia.
  - discriminate.
Qed.

Lemma fold_current_inv : forall s evs idx,
  inv0 s evs -> (idx < length (s_store s))%nat ->
  (evs = [] -> perf_wf (get (s_store s) idx) = true) ->
  inv (fold_current s idx) (evs ++ [get (s_store s) idx]) /\
  current_value (fold_current s idx) = totals (evs ++ [get (s_store s) idx]) /\
  s_count (fold_current s idx) = s_count s.
Proof.
  intros s evs idx Hi Hidx Hwf. unfold fold_current, current_value.
  destruct evs as [|e r].
  - cbn [inv0] in Hi. rewrite Hi. cbn [s_current s_store s_count app].
    rewrite totals_single by (apply Hwf; reflexivity).
    split; [| split; reflexivity].
    split; [| discriminate].
    exists idx. cbn [s_current s_store]. repeat split; [exact Hidx|].
    symmetry. apply totals_single. apply Hwf. reflexivity.
  - destruct Hi as (c & Hc & Hlt & Hg). rewrite Hc. cbn [s_current s_store s_count].
    destruct (perf_add_spec (s_store s) c idx Hlt Hidx) as (Hlen & Hget & _ & _).
    assert (Ht : get (perf_add (s_store s) c idx) c = totals ((e :: r) ++ [get (s_store s) idx])).
    { rewrite Hget, Hg. symmetry. apply totals_snoc. discriminate. }
    split; [| split; [exact Ht | reflexivity]].
    split; [| intros H; destruct r; discriminate].
    cbn [app]. exists c. cbn [s_current s_store]. split; [reflexivity|]. split; [lia|]. exact Ht.
Qed.

(* ------------------------------------------------------------------ cumulative collector *)

Lemma run_cons : forall k s o r,
  run k s (o :: r) = (fst (run k (fst (step k s o)) r), snd (step k s o) :: snd (run k (fst (step k s o)) r)).
Proof.
  intros k s o r. cbn [run]. destruct (step k s o) as [s1 ob]. cbn [fst snd].
  destruct (run k s1 r) as [s2 obs]. reflexivity.
Qed.

Lemma cum_run : forall ops s evs, inv s evs -> wf_history ops ->
  let tr := snd (run KCumulative s ops) in
  let all := evs ++ added_of tr in
  inv (fst (run KCumulative s ops)) all /\
  results_of tr = map (fun k => RWritten (pre all k)) (seq (length evs) (length (added_of tr))) /\
  written_of tr = map (pre all) (seq (length evs) (length (added_of tr))).
Proof.
  induction ops as [|o r IH]; intros s evs Hinv Hwf.
  - cbn [run fst snd added_of results_of written_of length seq map]. rewrite app_nil_r. auto.
  - inversion Hwf as [|? ? Hwo Hwr]; subst.
    rewrite run_cons. cbn [fst snd]. rewrite step_prepare.
    destruct (prepare s o) as [[[s0 idx] v]|] eqn:Hp.
    + destruct (prepare_inv s evs o s0 idx v Hinv Hwo Hp) as (Hi0 & Hidx & Hv & Hwfv & _).
      cbn [add_event fst snd].
      rewrite <- Hv in Hwfv.
      destruct (fold_current_inv s0 evs idx Hi0 Hidx Hwfv) as (Hinv1 & Hcur & _).
      rewrite Hv in Hinv1, Hcur.
      specialize (IH (fold_current s0 idx) (evs ++ [v]) Hinv1 Hwr).
      cbn zeta in IH. destruct IH as (IHinv & IHres & IHwr).
      set (tr := snd (run KCumulative (fold_current s0 idx) r)) in *.
      cbn [added_of results_of written_of o_added o_res length seq map].
      rewrite <- app_assoc in IHinv, IHres, IHwr. cbn [app] in IHinv, IHres, IHwr.
      rewrite app_length in IHres, IHwr. cbn [length] in IHres, IHwr.
      replace (length evs + 1)%nat with (S (length evs)) in IHres, IHwr by lia.
      split; [exact IHinv|].
      rewrite pre_at_end, Hcur.
      split; [rewrite IHres | rewrite IHwr]; reflexivity.
    + cbn [fst snd].
      specialize (IH s evs Hinv Hwr). cbn zeta in IH.
      cbn [added_of results_of written_of o_added o_res].
      destruct o; exact IH.
Qed.

Lemma cumulative_general : forall ops, wf_history ops ->
  let tr := snd (run KCumulative init ops) in
  results_of tr = map RWritten (expected_cumulative (added_of tr)) /\
  written_of tr = expected_cumulative (added_of tr).
Proof.
  intros ops Hwf.
  assert (Hinit : inv init []) by (split; [reflexivity | intros _; reflexivity]).
  destruct (cum_run ops init [] Hinit Hwf) as (_ & Hres & Hwr).
  cbn [app length] in Hres, Hwr. cbn zeta.
  unfold expected_cumulative. rewrite map_map. split; [exact Hres | exact Hwr].
Qed.

(* fresh events: the value of each event when it is added is the value it was
   created with *)
Lemma added_of_fresh : forall k ps s, added_of (snd (run k s (map EvNew ps))) = ps.
Proof.
  intros k. induction ps as [|p r IH]; intros s; [reflexivity|].
  cbn [map]. rewrite run_cons. cbn [snd]. rewrite step_prepare. cbn [prepare fst snd added_of o_added].
  rewrite IH. reflexivity.
Qed.

Lemma wf_history_fresh : forall ps, Forall (fun p => perf_wf p = true) ps -> wf_history (map EvNew ps).
Proof. intros ps H. unfold wf_history. rewrite Forall_map. exact H. Qed.

Lemma cumulative_fresh : forall ps, Forall (fun p => perf_wf p = true) ps ->
  let tr := snd (run KCumulative init (map EvNew ps)) in
  results_of tr = map RWritten (expected_cumulative ps) /\
  written_of tr = expected_cumulative ps /\
  forall k, (k < length ps)%nat -> nth k (written_of tr) zero_perf = totals (firstn (S k) ps).
Proof.
  intros ps Hwf. cbn zeta.
  destruct (cumulative_general (map EvNew ps) (wf_history_fresh ps Hwf)) as (Hres & Hwr).
  cbn zeta in Hres, Hwr. rewrite added_of_fresh in Hres, Hwr.
  split; [exact Hres|]. split; [exact Hwr|].
  intros k Hk. rewrite Hwr. unfold expected_cumulative.
  rewrite (nth_indep _ zero_perf (totals (firstn (S 0) ps))) by (rewrite map_length, seq_length; exact Hk).
  rewrite (map_nth (fun k => totals (firstn (S k) ps)) (seq 0 (length ps)) 0%nat k).
  rewrite seq_nth by exact Hk. reflexivity.
Qed.

(* the meaning of [totals], field by field *)
Lemma totals_meaning : forall evs e,
  p_n (totals evs) = wrap64 (sumf p_n evs) /\ p_ops (totals evs) = wrap64 (sumf p_ops evs) /\
  p_size (totals evs) = wrap64 (sumf p_size evs) /\ p_errors (totals evs) = wrap64 (sumf p_errors evs) /\
  p_dur (totals evs) = wrap64 (sumf p_dur evs) /\ p_total (totals evs) = wrap64 (sumf p_total evs) /\
  p_ts (totals (evs ++ [e])) = p_ts e /\ p_state (totals (evs ++ [e])) = p_state e /\
  p_workers (totals (evs ++ [e])) = p_workers e /\ p_failed (totals (evs ++ [e])) = p_failed e /\
  p_id (totals [e]) = p_id e /\
  (evs <> [] -> p_id (totals (evs ++ [e])) = if p_id e =? 0 then wrap64 (p_id (totals evs) + 1) else p_id e).
Proof.
  intros evs e. unfold totals.
  cbn [p_ts p_id p_n p_ops p_size p_errors p_dur p_total p_state p_workers p_failed].
  rewrite last_last. repeat split.
  intros Hne. rewrite (id_after_snoc evs e Hne). reflexivity.
Qed.

(* ------------------------------------------------------------------ sampling collector *)

Definition samp_res (n : Z) (all : list perf) (k : nat) : res :=
  if Z.of_nat k mod n =? 0 then RWritten (pre all k) else RSkipped.

Definition samp_pos (n : Z) (k : nat) : bool := Z.of_nat k mod n =? 0.

Lemma samp_run : forall n, 1 <= n -> forall ops s evs, inv s evs -> wf_history ops ->
  s_count s = Z.of_nat (length evs) ->
  Z.of_nat (length evs + length ops) < 2 ^ 63 ->
  let tr := snd (run (KSampling n) s ops) in
  let all := evs ++ added_of tr in
  inv (fst (run (KSampling n) s ops)) all /\
  s_count (fst (run (KSampling n) s ops)) = Z.of_nat (length all) /\
  results_of tr = map (samp_res n all) (seq (length evs) (length (added_of tr))) /\
  written_of tr = map (pre all) (filter (samp_pos n) (seq (length evs) (length (added_of tr)))).
Proof.
  intros n Hn. induction ops as [|o r IH]; intros s evs Hinv Hwf Hcnt Hlen.
  - cbn [run fst snd added_of results_of written_of length seq map filter]. rewrite app_nil_r. auto.
  - inversion Hwf as [|? ? Hwo Hwr]; subst.
    cbn [length] in Hlen.
    rewrite run_cons. cbn [fst snd]. rewrite step_prepare.
    destruct (prepare s o) as [[[s0 idx] v]|] eqn:Hp.
    + destruct (prepare_inv s evs o s0 idx v Hinv Hwo Hp) as (Hi0 & Hidx & Hv & Hwfv & Hc0).
      rewrite <- Hv in Hwfv.
      destruct (fold_current_inv s0 evs idx Hi0 Hidx Hwfv) as (Hinv1 & Hcur & Hc1).
      rewrite Hv in Hinv1, Hcur.
      cbn [add_event].
      assert (Hn0 : n =? 0 = false) by (apply Z.eqb_neq; lia).
      rewrite Hn0.
      set (s1 := fold_current s0 idx) in *.
      assert (Hcount1 : s_count s1 = Z.of_nat (length evs)) by (rewrite Hc1, Hc0; exact Hcnt).
      set (s2 := mkState (s_store s1) (s_current s1) (wrap64 (s_count s1 + 1))).
      assert (Hcv : current_value s2 = totals (evs ++ [v])) by exact Hcur.
      assert (Hinv2 : inv s2 (evs ++ [v])).
      { destruct Hinv1 as [Ha Hb]. split; [| exact Hb].
        unfold inv0 in *. destruct (evs ++ [v]); [exact Ha|]. exact Ha. }
      assert (Hcount2 : s_count s2 = Z.of_nat (length (evs ++ [v]))).
      { unfold s2. cbn [s_count]. rewrite Hcount1, app_length. cbn [length].
        rewrite wrap64_small by lia. lia. }
      assert (Hrem : (Z.rem (s_count s1) n =? 0) = samp_pos n (length evs)).
      { unfold samp_pos. rewrite Hcount1. rewrite Z.rem_mod_nonneg by lia. reflexivity. }
      assert (Hlen2 : Z.of_nat (length (evs ++ [v]) + length r) < 2 ^ 63).
      { rewrite app_length. cbn [length]. lia. }
      assert (Hstep : (if Z.rem (s_count s1) n =? 0 then (s2, RWritten (current_value s2)) else (s2, RSkipped))
                      = (s2, if samp_pos n (length evs) then RWritten (totals (evs ++ [v])) else RSkipped)).
      { rewrite Hrem, Hcv. destruct (samp_pos n (length evs)); reflexivity. }
      fold s2. rewrite Hstep. cbn [fst snd].
      specialize (IH s2 (evs ++ [v]) Hinv2 Hwr Hcount2 Hlen2).
      cbn zeta in IH. destruct IH as (IHinv & IHcnt & IHres & IHwr).
      set (tr := snd (run (KSampling n) s2 r)) in *.
      cbn [added_of results_of written_of o_added o_res length seq map filter].
      rewrite <- app_assoc in IHinv, IHcnt, IHres, IHwr. cbn [app] in IHinv, IHcnt, IHres, IHwr.
      rewrite app_length in IHres, IHwr. cbn [length] in IHres, IHwr.
      replace (length evs + 1)%nat with (S (length evs)) in IHres, IHwr by lia.
      split; [exact IHinv|]. split; [exact IHcnt|].
      unfold samp_res at 1. fold (samp_pos n (length evs)).
      rewrite pre_at_end.
      destruct (samp_pos n (length evs)) eqn:Epos.
      * split; [rewrite IHres | cbn [map]; rewrite pre_at_end, IHwr]; reflexivity.
      * split; [rewrite IHres | rewrite IHwr]; reflexivity.
    + cbn [fst snd].
      assert (Hlen' : Z.of_nat (length evs + length r) < 2 ^ 63) by lia.
      specialize (IH s evs Hinv Hwr Hcnt Hlen'). cbn zeta in IH.
      cbn [added_of results_of written_of o_added o_res].
      destruct o; exact IH.
Qed.

(* ceil(m / n) positions of 0 .. m-1 are multiples of n *)
Lemma count_multiples : forall n, 1 <= n -> forall m,
  Z.of_nat (length (filter (samp_pos n) (seq 0 m))) = (Z.of_nat m + n - 1) / n.
Proof.
  intros n Hn. induction m as [|m IH].
  - cbn [seq filter length]. symmetry. apply Z.div_small. lia.
  - rewrite seq_S, filter_app, app_length, Nat2Z.inj_add, IH. cbn [plus filter].
    unfold samp_pos.
    pose proof (Z.div_mod (Z.of_nat m) n ltac:(lia)) as Hdm.
    pose proof (Z.mod_pos_bound (Z.of_nat m) n ltac:(lia)) as Hb.
    set (q := Z.of_nat m / n) in *. set (r := Z.of_nat m mod n) in *.
    destruct (r =? 0) eqn:E.
    + apply Z.eqb_eq in E. cbn [length].
      assert (H1 : (Z.of_nat m + n - 1) / n = q) by (symmetry; apply Z.div_unique with (r := n - 1); lia).
      assert (H2 : (Z.of_nat (S m) + n - 1) / n = q + 1) by (symmetry; apply Z.div_unique with (r := 0); lia).
      rewrite H1, H2. lia.
    + apply Z.eqb_neq in E. cbn [length].
      assert (H1 : (Z.of_nat m + n - 1) / n = q + 1) by (symmetry; apply Z.div_unique with (r := r - 1); lia).
      assert (H2 : (Z.of_nat (S m) + n - 1) / n = q + 1) by (symmetry; apply Z.div_unique with (r := r); lia).
      rewrite H1, H2. lia.
Qed.

Lemma sampling_general : forall n ops, 1 <= n -> wf_history ops -> Z.of_nat (length ops) < 2 ^ 63 ->
  let tr := snd (run (KSampling n) init ops) in
  results_of tr = expected_sampling_results n (added_of tr) /\
  written_of tr = expected_sampling n (added_of tr) /\
  Z.of_nat (length (written_of tr)) = (Z.of_nat (length (added_of tr)) + n - 1) / n.
Proof.
  intros n ops Hn Hwf Hlen.
  assert (Hinit : inv init []) by (split; [reflexivity | intros _; reflexivity]).
  destruct (samp_run n Hn ops init [] Hinit Hwf eq_refl Hlen) as (_ & _ & Hres & Hwr).
  cbn [app length] in Hres, Hwr. cbn zeta.
  split; [exact Hres|]. split; [exact Hwr|].
  rewrite Hwr, map_length. apply count_multiples. exact Hn.
Qed.

Lemma sampling_fresh : forall n ps, 1 <= n -> Forall (fun p => perf_wf p = true) ps ->
  Z.of_nat (length ps) < 2 ^ 63 ->
  let tr := snd (run (KSampling n) init (map EvNew ps)) in
  results_of tr = expected_sampling_results n ps /\
  written_of tr = expected_sampling n ps /\
  Z.of_nat (length (written_of tr)) = (Z.of_nat (length ps) + n - 1) / n.
Proof.
  intros n ps Hn Hwf Hlen. cbn zeta.
  assert (Hlen' : Z.of_nat (length (map EvNew ps)) < 2 ^ 63) by (rewrite map_length; exact Hlen).
  pose proof (sampling_general n (map EvNew ps) Hn (wf_history_fresh ps Hwf) Hlen') as H.
  cbn zeta in H. rewrite added_of_fresh in H. exact H.
Qed.

(* ------------------------------------------------------------------ pass-through collector *)

Lemma pass_run : forall ops s,
  let tr := snd (run KPassthrough s ops) in
  results_of tr = map RWritten (added_of tr) /\ written_of tr = added_of tr /\
  s_current (fst (run KPassthrough s ops)) = s_current s /\
  s_count (fst (run KPassthrough s ops)) = s_count s /\
  exists news, s_store (fst (run KPassthrough s ops)) = s_store s ++ news.
Proof.
  induction ops as [|o r IH]; intros s.
  - cbn [run fst snd added_of results_of written_of map]. repeat split. exists []. now rewrite app_nil_r.
  - rewrite run_cons. cbn [fst snd]. rewrite step_prepare.
    destruct o as [p|i|]; cbn [prepare].
    + cbn [add_event fst snd s_store].
      specialize (IH (mkState (s_store s ++ [p]) (s_current s) (s_count s))). cbn zeta in IH.
      destruct IH as (Hres & Hwr & Hc & Hn & news & Hst).
      cbn [added_of results_of written_of o_added o_res map]. rewrite get_app_new.
      rewrite Hres, Hwr. repeat split; [exact Hc | exact Hn |].
      exists (p :: news). rewrite Hst. cbn [s_store]. rewrite <- app_assoc. reflexivity.
    + destruct (Nat.ltb i (length (s_store s))).
      * cbn [add_event fst snd]. specialize (IH s). cbn zeta in IH.
        destruct IH as (Hres & Hwr & Hrest).
        cbn [added_of results_of written_of o_added o_res map]. rewrite Hres, Hwr. repeat split; apply Hrest.
      * cbn [fst snd added_of results_of written_of o_added o_res]. apply IH.
    + cbn [fst snd added_of results_of written_of o_added o_res]. apply IH.
Qed.

Lemma passthrough_general : forall ops,
  let tr := snd (run KPassthrough init ops) in
  results_of tr = map RWritten (added_of tr) /\ written_of tr = added_of tr.
Proof. intros ops. cbn zeta. destruct (pass_run ops init) as (H1 & H2 & _). split; assumption. Qed.

Lemma pass_fresh_store : forall ps s,
  s_store (fst (run KPassthrough s (map EvNew ps))) = s_store s ++ ps.
Proof.
  induction ps as [|p r IH]; intros s; [cbn [map run fst]; now rewrite app_nil_r|].
  cbn [map]. rewrite run_cons. cbn [fst]. rewrite step_prepare. cbn [prepare add_event fst].
  rewrite IH. cbn [s_store]. rewrite <- app_assoc. reflexivity.
Qed.

Lemma passthrough_fresh : forall ps,
  let r := run KPassthrough init (map EvNew ps) in
  results_of (snd r) = map RWritten ps /\ written_of (snd r) = ps /\
  s_store (fst r) = ps /\ s_current (fst r) = None.
Proof.
  intros ps. cbn zeta.
  destruct (pass_run (map EvNew ps) init) as (H1 & H2 & H3 & _).
  cbn zeta in H1, H2. rewrite added_of_fresh in H1, H2.
  repeat split; [exact H1 | exact H2 | apply (pass_fresh_store ps init) | exact H3].
Qed.

(* ------------------------------------------------------------------ nil events *)

Lemma nil_refused : forall k s, step k s EvNil = (s, mkObs None RRefused).
Proof. reflexivity. Qed.

Definition is_nil (o : op) : bool := match o with EvNil => true | _ => false end.
Definition drop_nils (ops : list op) : list op := filter (fun o => negb (is_nil o)) ops.

Lemma nil_transparent : forall k ops s,
  fst (run k s ops) = fst (run k s (drop_nils ops)) /\
  added_of (snd (run k s ops)) = added_of (snd (run k s (drop_nils ops))) /\
  results_of (snd (run k s ops)) = results_of (snd (run k s (drop_nils ops))) /\
  written_of (snd (run k s ops)) = written_of (snd (run k s (drop_nils ops))).
Proof.
  intros k. induction ops as [|o r IH]; intros s; [repeat split|].
  destruct o as [p|i|]; cbn [drop_nils filter is_nil negb]; fold (drop_nils r).
  - rewrite !run_cons. cbn [fst snd]. destruct (IH (fst (step k s (EvNew p)))) as (A & B & C & D).
    cbn [added_of results_of written_of]. rewrite A, B, C, D. repeat split.
  - rewrite !run_cons. cbn [fst snd]. destruct (IH (fst (step k s (EvAgain i)))) as (A & B & C & D).
    cbn [added_of results_of written_of]. rewrite A, B, C, D. repeat split.
  - rewrite run_cons. rewrite nil_refused. cbn [fst snd added_of results_of written_of o_added o_res].
    apply IH.
Qed.

(* the outcome of an operation is a refusal exactly when the operation is EvNil *)
Lemma refused_iff_nil : forall k s o, 1 <= match k with KSampling n => n | _ => 1 end ->
  (o_res (snd (step k s o)) = RRefused <-> o = EvNil).
Proof.
  intros k s o Hk. rewrite step_prepare. split.
  - destruct o as [p|i|]; [| | reflexivity]; cbn [prepare].
    + cbn [snd o_res]. destruct k as [|n|]; cbn [add_event snd]; try discriminate.
      assert (E : n =? 0 = false) by (apply Z.eqb_neq; lia). rewrite E.
      destruct (Z.rem _ n =? 0); discriminate.
    + destruct (Nat.ltb i (length (s_store s))); cbn [snd o_res]; [| discriminate].
      destruct k as [|n|]; cbn [add_event snd]; try discriminate.
      assert (E : n =? 0 = false) by (apply Z.eqb_neq; lia). rewrite E.
      destruct (Z.rem _ n =? 0); discriminate.
  - intros ->. reflexivity.
Qed.

(* ------------------------------------------------------------------ marshal / unmarshal *)

(* the key tables of the model, spelled out *)
Fixpoint bytes_of_string (s : string) : bytes :=
  match s with
  | EmptyString => []
  | String c r => N_of_ascii c :: bytes_of_string r
  end.

Lemma key_tables_spelled :
  map (fun kv => fst kv) (marshal zero_perf) =
    map bytes_of_string ["ts"; "id"; "counters"; "timers"; "gauges"]%string /\
  model_flat_keys =
    map bytes_of_string ["ts"; "id"; "counters.n"; "counters.ops"; "counters.size"; "counters.errors";
                         "timers.dur"; "timers.total"; "gauges.state"; "gauges.workers"; "gauges.failed"]%string /\
  [uk_ts; uk_id; uk_counters; uk_n; uk_ops; uk_size; uk_errors; uk_timers; uk_dur; uk_total;
   uk_gauges; uk_state; uk_workers; uk_failed] =
    map bytes_of_string ["ts"; "id"; "counters"; "n"; "ops"; "size"; "errors"; "timers"; "dur"; "total";
                         "gauges"; "state"; "workers"; "failed"]%string.
Proof. repeat split. Qed.

Lemma marshal_roundtrip : forall p q0, unmarshal q0 (marshal p) = Some p.
Proof. intros [] []. reflexivity. Qed.

Lemma marshal_flat_keys : forall p, flat_keys [] (marshal p) = model_flat_keys.
Proof. intros []. reflexivity. Qed.

(* ------------------------------------------------------------------ oracles accept the model *)

Lemma perf_eqb_refl : forall p, perf_eqb p p = true.
Proof.
  intros p. unfold perf_eqb. repeat rewrite Z.eqb_refl. rewrite Bool.eqb_reflx. reflexivity.
Qed.

Lemma perfs_eqb_refl : forall l, perfs_eqb l l = true.
Proof. induction l as [|p r IH]; [reflexivity|]. cbn [perfs_eqb]. now rewrite perf_eqb_refl, IH. Qed.

Lemma perf_eqb_eq : forall a b, perf_eqb a b = true -> a = b.
Proof.
  intros [a1 a2 a3 a4 a5 a6 a7 a8 a9 a10 a11] [b1 b2 b3 b4 b5 b6 b7 b8 b9 b10 b11] H. unfold perf_eqb in H.
  cbn [p_ts p_id p_n p_ops p_size p_errors p_dur p_total p_state p_workers p_failed] in H.
  repeat (apply andb_true_iff in H; destruct H as [H ?]).
  repeat match goal with E : (_ =? _) = true |- _ => apply Z.eqb_eq in E end.
  match goal with E : Bool.eqb _ _ = true |- _ => apply Bool.eqb_prop in E end.
  subst. reflexivity.
Qed.

Lemma perfs_eqb_eq : forall a b, perfs_eqb a b = true -> a = b.
Proof.
  induction a as [|x r IH]; intros [|y s] H; cbn [perfs_eqb] in H; try discriminate; [reflexivity|].
  apply andb_true_iff in H. destruct H as [H1 H2]. apply perf_eqb_eq in H1. apply IH in H2. now subst.
Qed.

(* the oracles hold of what the model writes, and say exactly what the theorems say *)
Lemma oracle_cumulative_sound : forall ops, wf_history ops ->
  let tr := snd (run KCumulative init ops) in c14_ok_cumulative (added_of tr) (written_of tr) = true.
Proof.
  intros ops Hwf. cbn zeta. unfold c14_ok_cumulative.
  destruct (cumulative_general ops Hwf) as (_ & Hwr). cbn zeta in Hwr. rewrite Hwr. apply perfs_eqb_refl.
Qed.

Lemma oracle_cumulative_exact : forall evs written,
  c14_ok_cumulative evs written = true <-> written = expected_cumulative evs.
Proof.
  intros. unfold c14_ok_cumulative. split; [apply perfs_eqb_eq | intros ->; apply perfs_eqb_refl].
Qed.

Lemma oracle_sampling_sound : forall n ops, 1 <= n -> wf_history ops -> Z.of_nat (length ops) < 2 ^ 63 ->
  let tr := snd (run (KSampling n) init ops) in c14_ok_sampling n (added_of tr) (written_of tr) = true.
Proof.
  intros n ops Hn Hwf Hlen. cbn zeta. unfold c14_ok_sampling.
  destruct (sampling_general n ops Hn Hwf Hlen) as (_ & Hwr & Hcnt). cbn zeta in Hwr, Hcnt.
  apply andb_true_iff. split; [rewrite Hwr; apply perfs_eqb_refl | apply Z.eqb_eq; exact Hcnt].
Qed.

Lemma oracle_passthrough_sound : forall ops,
  let tr := snd (run KPassthrough init ops) in c14_ok_passthrough (added_of tr) (written_of tr) = true.
Proof.
  intros ops. cbn zeta. unfold c14_ok_passthrough.
  destruct (passthrough_general ops) as (_ & Hwr). cbn zeta in Hwr. rewrite Hwr. apply perfs_eqb_refl.
Qed.

Lemma oracle_roundtrip_sound : forall sec nsec p q0,
  - 2 ^ 50 < sec < 2 ^ 50 -> 0 <= nsec < 1000000000 ->
  exists s' n' q, model_obs_roundtrip sec nsec p q0 = Some (s', n', q) /\
                  c14_ok_roundtrip sec nsec p s' n' q = true.
Proof.
  intros sec nsec p q0 Hs Hn. unfold model_obs_roundtrip.
  rewrite marshal_roundtrip.
  assert (Hts : p_ts (set_ts p (time_to_ms sec nsec)) = time_to_ms sec nsec) by (destruct p; reflexivity).
  rewrite Hts, (time_trunc_ms sec nsec Hs Hn).
  eexists _, _, _. split; [reflexivity|].
  unfold c14_ok_roundtrip. rewrite !Z.eqb_refl, !andb_true_r.
  assert (Hset : set_ts (set_ts p (time_to_ms sec nsec)) 0 = set_ts p 0) by (destruct p; reflexivity).
  rewrite Hset. apply perf_eqb_refl.
Qed.
