(* Proofs about the HDR histogram model (Model/Hdr.v), used by Props/C12.v. *)
From Coq Require Import ZArith List Bool Lia ZifyBool FinFun.
From FV.Model Require Import Hdr.
Import ListNotations.
Open Scope Z_scope.

(* ------------------------------------------------------------------ *)
(* sums, zrange                                                        *)
(* ------------------------------------------------------------------ *)

Definition zsum (l : list Z) : Z := fold_right Z.add 0 l.

Lemma zsum_cons a l : zsum (a :: l) = a + zsum l.
Proof. reflexivity. Qed.

Lemma zsum_app l1 l2 : zsum (l1 ++ l2) = zsum l1 + zsum l2.
Proof.
  induction l1 as [|a l1 IH].
  - reflexivity.
  - rewrite <- app_comm_cons, !zsum_cons, IH. lia.
Qed.

Lemma zrange_nil a n : n <= 0 -> zrange a n = [].
Proof.
  intros H. unfold zrange. replace (Z.to_nat n) with 0%nat by lia. reflexivity.
Qed.

Lemma zrange_snoc a n : 0 <= n -> zrange a (n + 1) = zrange a n ++ [a + n].
Proof.
  intros H. unfold zrange.
  replace (Z.to_nat (n + 1)) with (S (Z.to_nat n)) by lia.
  rewrite seq_S, map_app. cbn [map]. f_equal. f_equal. lia.
Qed.

Lemma zrange_cons a n : 0 <= n -> zrange a (n + 1) = a :: zrange (a + 1) n.
Proof.
  intros H. unfold zrange.
  replace (Z.to_nat (n + 1)) with (S (Z.to_nat n)) by lia.
  cbn [seq map]. f_equal.
  - lia.
  - rewrite <- seq_shift, map_map. apply map_ext. intros k. lia.
Qed.

Lemma zrange_app a n m :
  0 <= n -> 0 <= m -> zrange a n ++ zrange (a + n) m = zrange a (n + m).
Proof.
  intros Hn Hm. pattern m. apply natlike_ind; [ | | exact Hm].
  - rewrite (zrange_nil (a + n) 0) by lia. rewrite app_nil_r. f_equal. lia.
  - intros x Hx IH. unfold Z.succ.
    rewrite zrange_snoc by lia. rewrite app_assoc, IH.
    replace (n + (x + 1)) with ((n + x) + 1) by lia.
    rewrite zrange_snoc by lia. f_equal. f_equal. lia.
Qed.

Lemma In_zrange x a n : In x (zrange a n) <-> a <= x < a + n.
Proof.
  unfold zrange. rewrite in_map_iff. split.
  - intros [k [Hk Hin]]. apply in_seq in Hin. lia.
  - intros H. exists (Z.to_nat (x - a)). split; [lia|]. apply in_seq. lia.
Qed.

Lemma zrange_shift k a n : map (fun s => k + s) (zrange a n) = zrange (k + a) n.
Proof. unfold zrange. rewrite map_map. apply map_ext. intros i. lia. Qed.

Lemma NoDup_zrange a n : NoDup (zrange a n).
Proof.
  unfold zrange. apply Injective_map_NoDup.
  - intros x y Hxy. lia.
  - apply seq_NoDup.
Qed.

(* ------------------------------------------------------------------ *)
(* geometry of a configuration                                         *)
(* ------------------------------------------------------------------ *)

Record geom (c : cfg) (hi : Z) : Prop := mkGeom {
  g_u    : 0 <= c_unit c;
  g_hm   : 1 <= c_hm c;
  g_sbc  : c_sbc c = 2 * 2 ^ c_hm c;
  g_hc   : c_hc c = 2 ^ c_hm c;
  g_mask : c_mask c = (c_sbc c - 1) * 2 ^ c_unit c;
  g_bc   : 1 <= c_bc c;
  g_hi   : hi < c_sbc c * 2 ^ (c_unit c + (c_bc c - 1));
  g_len  : c_len c = (c_bc c + 1) * c_hc c
}.

Lemma pow2_pos a : 0 <= a -> 0 < 2 ^ a.
Proof. intros H. apply Z.pow_pos_nonneg; lia. Qed.

Lemma pow2_S a : 0 <= a -> 2 ^ (a + 1) = 2 * 2 ^ a.
Proof. intros H. rewrite Z.pow_add_r by lia. change (2 ^ 1) with 2. lia. Qed.

Lemma buckets_loop_spec fuel : forall sm hi n,
  0 < sm -> hi < 2 ^ Z.of_nat fuel * sm ->
  exists k, 0 <= k /\ buckets_loop fuel sm hi n = n + k /\ hi < sm * 2 ^ k.
Proof.
  induction fuel as [|f IH]; intros sm hi n Hsm Hhi.
  - exists 0. cbn [buckets_loop]. change (2 ^ Z.of_nat 0) with 1 in Hhi.
    change (2 ^ 0) with 1. lia.
  - cbn [buckets_loop]. destruct (sm <=? hi) eqn:E.
    + destruct (IH (2 * sm) hi (n + 1)) as [k [Hk [Heq Hlt]]]; [lia| |].
      { rewrite Nat2Z.inj_succ, Z.pow_succ_r in Hhi by lia. lia. }
      exists (k + 1). rewrite Z.pow_add_r by lia. change (2 ^ 1) with 2. lia.
    + exists 0. change (2 ^ 0) with 1. lia.
Qed.

Lemma hm_cases s : 1 <= s <= 5 ->
  1 <= Z.max (sub_bucket_count_magnitude s) 1 - 1 /\
  10 ^ s <= 2 ^ (Z.max (sub_bucket_count_magnitude s) 1 - 1).
Proof.
  intros H. assert (s = 1 \/ s = 2 \/ s = 3 \/ s = 4 \/ s = 5) as D by lia.
  destruct D as [->|[->|[->|[->| ->]]]]; vm_compute; split; intro; discriminate.
Qed.

Lemma cfg_unit lo hi s : c_unit (config_of lo hi s) = unit_magnitude lo.
Proof. reflexivity. Qed.
Lemma cfg_hm lo hi s :
  c_hm (config_of lo hi s) = Z.max (sub_bucket_count_magnitude s) 1 - 1.
Proof. reflexivity. Qed.
Lemma cfg_sbc lo hi s : c_sbc (config_of lo hi s) = 2 ^ (c_hm (config_of lo hi s) + 1).
Proof. reflexivity. Qed.
Lemma cfg_hc lo hi s : c_hc (config_of lo hi s) = c_sbc (config_of lo hi s) / 2.
Proof. reflexivity. Qed.
Lemma cfg_mask lo hi s :
  c_mask (config_of lo hi s) =
  (c_sbc (config_of lo hi s) - 1) * 2 ^ c_unit (config_of lo hi s).
Proof. reflexivity. Qed.
Lemma cfg_bc lo hi s :
  c_bc (config_of lo hi s) =
  buckets_loop 64 (c_sbc (config_of lo hi s) * 2 ^ c_unit (config_of lo hi s)) hi 1.
Proof. reflexivity. Qed.
Lemma cfg_len lo hi s :
  c_len (config_of lo hi s) =
  (c_bc (config_of lo hi s) + 1) * (c_sbc (config_of lo hi s) / 2).
Proof. reflexivity. Qed.

Lemma unit_magnitude_spec lo : 0 <= unit_magnitude lo /\ 2 ^ unit_magnitude lo <= Z.max 1 lo.
Proof.
  unfold unit_magnitude. destruct (lo <? 1) eqn:E.
  - change (2 ^ 0) with 1. lia.
  - split. apply Z.log2_nonneg.
    pose proof (Z.log2_spec lo). lia.
Qed.

Lemma config_geom lo hi s :
  0 <= lo /\ 1 <= hi < 2 ^ 62 /\ 1 <= s <= 5 ->
  geom (config_of lo hi s) hi /\
  10 ^ s <= c_hc (config_of lo hi s) /\
  2 ^ c_unit (config_of lo hi s) <= Z.max 1 lo.
Proof.
  intros [Hlo [Hhi Hs]].
  pose proof (cfg_unit lo hi s) as Eu.
  pose proof (cfg_hm lo hi s) as Ehm.
  pose proof (cfg_sbc lo hi s) as Esbc.
  pose proof (cfg_hc lo hi s) as Ehc.
  pose proof (cfg_mask lo hi s) as Emask.
  pose proof (cfg_bc lo hi s) as Ebc.
  pose proof (cfg_len lo hi s) as Elen.
  generalize dependent (config_of lo hi s). intros c Eu Ehm Esbc Ehc Emask Ebc Elen.
  destruct (hm_cases s Hs) as [Hhm H10]. rewrite <- Ehm in Hhm, H10.
  destruct (unit_magnitude_spec lo) as [Hu0 Hu1]. rewrite <- Eu in Hu0, Hu1.
  assert (Hsbc : c_sbc c = 2 * 2 ^ c_hm c).
  { rewrite Esbc. rewrite Z.pow_add_r by lia. change (2 ^ 1) with 2. lia. }
  assert (Hhc : c_hc c = 2 ^ c_hm c).
  { rewrite Ehc, Hsbc. rewrite Z.mul_comm. apply Z.div_mul. lia. }
  pose proof (pow2_pos (c_hm c) ltac:(lia)) as Pa.
  pose proof (pow2_pos (c_unit c) Hu0) as Pb.
  assert (P64 : 2 ^ 62 < 2 ^ Z.of_nat 64) by (vm_compute; reflexivity).
  destruct (buckets_loop_spec 64 (c_sbc c * 2 ^ c_unit c) hi 1) as [k [Hk [Hbk Hlt]]].
  { nia. }
  { nia. }
  rewrite <- Ebc in Hbk.
  split; [|split].
  - constructor; try assumption; try lia.
    + replace (c_bc c - 1) with k by lia. rewrite Z.pow_add_r by lia. lia.
  - rewrite Hhc. exact H10.
  - exact Hu1.
Qed.

(* ------------------------------------------------------------------ *)
(* buckets and cells                                                   *)
(* ------------------------------------------------------------------ *)

Definition in_bucket (c : cfg) (v b : Z) : Prop :=
  (b = 0 /\ v < c_sbc c * 2 ^ c_unit c) \/
  (1 <= b /\ c_hc c * 2 ^ (b + c_unit c) <= v < c_sbc c * 2 ^ (b + c_unit c)).

Lemma log2_mask c hi : geom c hi -> Z.log2 (c_mask c) = c_hm c + c_unit c.
Proof.
  intros [Gu Ghm Gsbc Ghc Gmask Gbc Ghi Glen].
  apply Z.log2_unique; [lia|].
  rewrite Z.pow_succ_r by lia. rewrite Z.pow_add_r by lia.
  rewrite Gmask, Gsbc.
  pose proof (pow2_pos (c_hm c) ltac:(lia)) as Pa.
  pose proof (pow2_pos (c_unit c) Gu) as Pb.
  nia.
Qed.

Lemma bitlen_lor c hi v : geom c hi -> 0 <= v ->
  bitlen (Z.lor v (c_mask c)) = Z.max (Z.log2 v) (c_hm c + c_unit c) + 1.
Proof.
  intros G Hv. pose proof (log2_mask c hi G) as Lm.
  destruct G as [Gu Ghm Gsbc Ghc Gmask Gbc Ghi Glen].
  assert (Hm : 0 <= c_mask c).
  { rewrite Gmask, Gsbc.
    pose proof (pow2_pos (c_hm c) ltac:(lia)). pose proof (pow2_pos (c_unit c) Gu). nia. }
  pose proof (Z.log2_lor v (c_mask c) Hv Hm) as Ll. rewrite Lm in Ll.
  unfold bitlen.
  destruct (Z.lor v (c_mask c) <=? 0) eqn:E.
  - exfalso. apply Z.leb_le in E. apply Z.log2_nonpos in E. lia.
  - rewrite Ll. reflexivity.
Qed.

Lemma bucket_unique c hi v b : geom c hi -> 0 <= v -> in_bucket c v b -> bucket_index c v = b.
Proof.
  intros G Hv Hb. unfold bucket_index. rewrite (bitlen_lor c hi v G Hv).
  destruct G as [Gu Ghm Gsbc Ghc Gmask Gbc Ghi Glen].
  pose proof (pow2_pos (c_hm c) ltac:(lia)) as Pa.
  destruct Hb as [[Hb Hlt] | [Hb [Hle Hlt]]].
  - subst b. assert (Z.log2 v <= c_hm c + c_unit c); [|lia].
    destruct (Z.eq_dec v 0) as [->|Hnz].
    + change (Z.log2 0) with 0. lia.
    + assert (Z.log2 v < c_hm c + c_unit c + 1); [|lia].
      apply Z.log2_lt_pow2; [lia|].
      rewrite pow2_S by lia. rewrite Z.pow_add_r by lia.
      rewrite Gsbc in Hlt. lia.
  - assert (Z.log2 v = b + c_unit c + c_hm c); [|lia].
    apply Z.log2_unique; [lia|].
    rewrite Z.pow_succ_r by lia. rewrite (Z.pow_add_r 2 (b + c_unit c)) by lia.
    rewrite Gsbc, Ghc in *. lia.
Qed.

Lemma bucket_exists c hi v : geom c hi -> 0 <= v ->
  0 <= bucket_index c v /\ in_bucket c v (bucket_index c v).
Proof.
  intros G Hv.
  destruct (Z_lt_le_dec v (c_sbc c * 2 ^ c_unit c)) as [Hlt|Hge].
  - assert (Hb : in_bucket c v 0) by (left; split; [reflexivity|exact Hlt]).
    rewrite (bucket_unique c hi v 0 G Hv Hb). split; [lia|exact Hb].
  - pose proof G as [Gu Ghm Gsbc Ghc Gmask Gbc Ghi Glen].
    pose proof (pow2_pos (c_hm c) ltac:(lia)) as Pa.
    pose proof (pow2_pos (c_unit c) Gu) as Pb.
    assert (Hvpos : 0 < v) by nia.
    assert (Hl : c_hm c + c_unit c + 1 <= Z.log2 v).
    { apply Z.log2_le_pow2; [lia|].
      rewrite pow2_S by lia. rewrite Z.pow_add_r by lia.
      rewrite Gsbc in Hge. lia. }
    pose proof (Z.log2_spec v Hvpos) as Hs.
    assert (Hb : in_bucket c v (Z.log2 v - c_unit c - c_hm c)).
    { right. split; [lia|].
      replace (Z.log2 v - c_unit c - c_hm c + c_unit c) with (Z.log2 v - c_hm c) by lia.
      rewrite Z.pow_succ_r in Hs by lia.
      replace (Z.log2 v) with ((Z.log2 v - c_hm c) + c_hm c) in Hs by lia.
      rewrite Z.pow_add_r in Hs by lia.
      replace (Z.log2 v - c_hm c + c_hm c - c_hm c) with (Z.log2 v - c_hm c) by lia.
      rewrite Gsbc, Ghc. lia. }
    rewrite (bucket_unique c hi v _ G Hv Hb). split; [lia|exact Hb].
Qed.

Definition cell_ok (c : cfg) (b s : Z) : Prop :=
  0 <= b /\ 0 <= s < c_sbc c /\ (1 <= b -> c_hc c <= s).

Definition in_cell (c : cfg) (b s w : Z) : Prop :=
  s * 2 ^ (b + c_unit c) <= w < (s + 1) * 2 ^ (b + c_unit c).

Lemma cell_index c hi b s w : geom c hi -> cell_ok c b s -> in_cell c b s w ->
  0 <= w /\ bucket_index c w = b /\ sub_bucket_index c w b = s.
Proof.
  intros G [Hb [Hs Hs1]] [Hlo Hup].
  pose proof G as [Gu Ghm Gsbc Ghc Gmask Gbc Ghi Glen].
  pose proof (pow2_pos (b + c_unit c) ltac:(lia)) as Pp.
  assert (Hw : 0 <= w) by nia.
  split; [exact Hw|]. split.
  - apply (bucket_unique c hi w b G Hw).
    destruct (Z.eq_dec b 0) as [->|Hnz].
    + left. split; [reflexivity|]. rewrite Z.add_0_l in *. nia.
    + right. split; [lia|]. specialize (Hs1 ltac:(lia)). nia.
  - unfold sub_bucket_index. rewrite Z.shiftr_div_pow2 by lia.
    symmetry. apply Z.div_unique with (r := w - s * 2 ^ (b + c_unit c)); lia.
Qed.

Lemma value_cell c hi v : geom c hi -> 0 <= v ->
  cell_ok c (bucket_index c v) (sub_bucket_index c v (bucket_index c v)) /\
  in_cell c (bucket_index c v) (sub_bucket_index c v (bucket_index c v)) v.
Proof.
  intros G Hv. destruct (bucket_exists c hi v G Hv) as [Hb0 Hb].
  pose proof G as [Gu Ghm Gsbc Ghc Gmask Gbc Ghi Glen].
  set (b := bucket_index c v) in *.
  unfold sub_bucket_index. rewrite Z.shiftr_div_pow2 by lia.
  pose proof (pow2_pos (b + c_unit c) ltac:(lia)) as Pp.
  pose proof (pow2_pos (c_hm c) ltac:(lia)) as Pa.
  pose proof (Z.div_mod v (2 ^ (b + c_unit c)) ltac:(lia)) as Hdm.
  pose proof (Z.mod_pos_bound v (2 ^ (b + c_unit c)) Pp) as Hmod.
  assert (Hs0 : 0 <= v / 2 ^ (b + c_unit c)) by (apply Z.div_pos; lia).
  unfold cell_ok, in_cell. split; [split; [exact Hb0|split]|].
  - split; [exact Hs0|].
    apply Z.div_lt_upper_bound; [lia|].
    destruct Hb as [[Hb Hlt] | [Hb [Hle Hlt]]].
    + rewrite Hb, Z.add_0_l. lia.
    + lia.
  - intros Hb1. destruct Hb as [[Hb Hlt] | [Hb [Hle Hlt]]]; [lia|].
    apply Z.div_le_lower_bound; lia.
  - lia.
Qed.

Lemma value_bucket_bound c hi v : geom c hi -> 0 <= v <= hi -> bucket_index c v < c_bc c.
Proof.
  intros G Hv. destruct (bucket_exists c hi v G ltac:(lia)) as [Hb0 Hb].
  pose proof G as [Gu Ghm Gsbc Ghc Gmask Gbc Ghi Glen].
  destruct Hb as [[Hb Hlt] | [Hb [Hle Hlt]]]; [lia|].
  pose proof (pow2_pos (c_hm c) ltac:(lia)) as Pa.
  assert (H : bucket_index c v + c_unit c < c_unit c + c_bc c); [|lia].
  apply (Z.pow_lt_mono_r_iff 2); [lia|lia|].
  replace (c_unit c + c_bc c) with (Z.succ (c_unit c + (c_bc c - 1))) by lia.
  rewrite Z.pow_succ_r by lia.
  rewrite Gsbc, Ghc in *. nia.
Qed.

(* facts about every member of a cell *)
Lemma cell_facts c hi b s w : geom c hi -> cell_ok c b s -> in_cell c b s w ->
  counts_index_for c w = counts_index c b s /\
  lowest_equiv c w = s * 2 ^ (b + c_unit c) /\
  size_of_range c w = 2 ^ (b + c_unit c) /\
  highest_equiv c w = (s + 1) * 2 ^ (b + c_unit c) - 1.
Proof.
  intros G Hok Hin. destruct (cell_index c hi b s w G Hok Hin) as [Hw [Eb Es]].
  destruct Hok as [Hb [Hs Hs1]].
  assert (E1 : lowest_equiv c w = s * 2 ^ (b + c_unit c)).
  { unfold lowest_equiv. cbv zeta. rewrite Eb, Es. reflexivity. }
  assert (E2 : size_of_range c w = 2 ^ (b + c_unit c)).
  { unfold size_of_range. cbv zeta. rewrite Eb, Es.
    destruct (c_sbc c <=? s) eqn:E; [lia|]. f_equal. lia. }
  split; [|split; [exact E1|split; [exact E2|]]].
  - unfold counts_index_for. cbv zeta. rewrite Eb, Es. reflexivity.
  - unfold highest_equiv, next_non_equiv. rewrite E1, E2. lia.
Qed.

(* ------------------------------------------------------------------ *)
(* general forms of properties 1-4                                     *)
(* ------------------------------------------------------------------ *)

Lemma accepts_gen c hi v : geom c hi -> 0 <= v <= hi ->
  0 <= counts_index_for c v < c_len c.
Proof.
  intros G Hv. destruct (value_cell c hi v G ltac:(lia)) as [[Hb [Hs Hs1]] _].
  pose proof (value_bucket_bound c hi v G Hv) as Hbc.
  pose proof G as [Gu Ghm Gsbc Ghc Gmask Gbc Ghi Glen].
  unfold counts_index_for, counts_index. cbv zeta.
  set (b := bucket_index c v) in *. set (s := sub_bucket_index c v b) in *.
  pose proof (pow2_pos (c_hm c) ltac:(lia)) as Pa.
  rewrite Glen, Gsbc, Ghc in *.
  split.
  - destruct (Z.eq_dec b 0) as [E|E]; [rewrite E; lia|].
    specialize (Hs1 ltac:(lia)). nia.
  - nia.
Qed.

Lemma in_range_gen c hi v : geom c hi -> 0 <= v ->
  lowest_equiv c v <= v <= highest_equiv c v.
Proof.
  intros G Hv. destruct (value_cell c hi v G Hv) as [Hok Hin].
  destruct (cell_facts c hi _ _ v G Hok Hin) as [_ [E1 [_ E3]]].
  rewrite E1, E3. unfold in_cell in Hin. lia.
Qed.

Lemma class_gen c hi v w : geom c hi -> 0 <= v ->
  lowest_equiv c v <= w <= highest_equiv c v ->
  in_cell c (bucket_index c v) (sub_bucket_index c v (bucket_index c v)) w.
Proof.
  intros G Hv Hw. destruct (value_cell c hi v G Hv) as [Hok Hin].
  destruct (cell_facts c hi _ _ v G Hok Hin) as [_ [E1 [_ E3]]].
  rewrite E1, E3 in Hw. unfold in_cell. lia.
Qed.

(* ------------------------------------------------------------------ *)
(* C12 statements 1-4                                                  *)
(* ------------------------------------------------------------------ *)

Lemma hdr_accepts : forall lo hi s v,
  (0 <= lo /\ 1 <= hi < 2 ^ 62 /\ 1 <= s <= 5) -> 0 <= v <= hi ->
  0 <= counts_index_for (config_of lo hi s) v < c_len (config_of lo hi s).
Proof.
  intros lo hi s v Hc Hv. destruct (config_geom lo hi s Hc) as [G _].
  exact (accepts_gen _ hi v G Hv).
Qed.
Print Assumptions hdr_accepts.

Lemma hdr_in_range : forall lo hi s v,
  (0 <= lo /\ 1 <= hi < 2 ^ 62 /\ 1 <= s <= 5) -> 0 <= v <= hi ->
  lowest_equiv (config_of lo hi s) v <= v <= highest_equiv (config_of lo hi s) v.
Proof.
  intros lo hi s v Hc Hv. destruct (config_geom lo hi s Hc) as [G _].
  exact (in_range_gen _ hi v G ltac:(lia)).
Qed.
Print Assumptions hdr_in_range.

Lemma hdr_width : forall lo hi s v,
  (0 <= lo /\ 1 <= hi < 2 ^ 62 /\ 1 <= s <= 5) -> 0 <= v <= hi ->
  let c := config_of lo hi s in
  highest_equiv c v - lowest_equiv c v + 1 = size_of_range c v /\
  (size_of_range c v = 2 ^ c_unit c \/ size_of_range c v * 10 ^ s <= v) /\
  2 ^ c_unit c <= Z.max 1 lo.
Proof.
  intros lo hi s v Hc Hv. cbv zeta.
  destruct (config_geom lo hi s Hc) as [G [H10 Hu]].
  generalize dependent (config_of lo hi s). intros c G H10 Hu.
  split; [|split; [|exact Hu]].
  - unfold highest_equiv, next_non_equiv. lia.
  - destruct (value_cell c hi v G ltac:(lia)) as [Hok Hin].
    destruct (cell_facts c hi _ _ v G Hok Hin) as [_ [_ [E2 _]]].
    destruct (bucket_exists c hi v G ltac:(lia)) as [Hb0 Hb].
    rewrite E2.
    destruct Hb as [[Hb Hlt] | [Hb [Hle Hlt]]].
    + left. rewrite Hb. f_equal.
    + right. destruct G as [Gu Ghm Gsbc Ghc Gmask Gbc Ghi Glen].
      pose proof (pow2_pos (bucket_index c v + c_unit c) ltac:(lia)) as Pp.
      assert (0 < 10 ^ s) by (apply Z.pow_pos_nonneg; lia).
      nia.
Qed.
Print Assumptions hdr_width.

Lemma hdr_range_is_class : forall lo hi s v w,
  (0 <= lo /\ 1 <= hi < 2 ^ 62 /\ 1 <= s <= 5) -> 0 <= v <= hi ->
  let c := config_of lo hi s in
  lowest_equiv c v <= w <= highest_equiv c v ->
  counts_index_for c w = counts_index_for c v.
Proof.
  intros lo hi s v w Hc Hv. cbv zeta.
  destruct (config_geom lo hi s Hc) as [G _].
  generalize dependent (config_of lo hi s). intros c G Hw.
  destruct (value_cell c hi v G ltac:(lia)) as [Hok _].
  pose proof (class_gen c hi v w G ltac:(lia) Hw) as Hin.
  destruct (cell_facts c hi _ _ w G Hok Hin) as [E _].
  rewrite E. reflexivity.
Qed.
Print Assumptions hdr_range_is_class.

(* ------------------------------------------------------------------ *)
(* cells                                                               *)
(* ------------------------------------------------------------------ *)

Lemma map_flat_map {A B C} (g : B -> C) (F : A -> list B) (l : list A) :
  map g (flat_map F l) = flat_map (fun a => map g (F a)) l.
Proof.
  induction l as [|a l IH]; cbn [flat_map map].
  - reflexivity.
  - rewrite map_app, IH. reflexivity.
Qed.

Lemma In_cells c hi b sb : geom c hi ->
  (In (b, sb) (cells c) <-> 0 <= b < c_bc c /\ cell_ok c b sb).
Proof.
  intros [Gu Ghm Gsbc Ghc Gmask Gbc Ghi Glen].
  pose proof (pow2_pos (c_hm c) ltac:(lia)) as Pa.
  unfold cells, cell_ok. rewrite in_flat_map. split.
  - intros [b' [Hb' Hin]]. apply In_zrange in Hb'.
    apply in_map_iff in Hin. destruct Hin as [s' [Heq Hs']].
    inversion Heq; subst b' s'.
    destruct (b =? 0) eqn:E; apply In_zrange in Hs'; lia.
  - intros [Hb [Hb0 [Hs Hs1]]]. exists b. split.
    + apply In_zrange. lia.
    + apply in_map. destruct (b =? 0) eqn:E; apply In_zrange; [lia|].
      specialize (Hs1 ltac:(lia)). lia.
Qed.

Lemma cells_rest_gen (hc sbc : Z) (G : Z -> list Z) :
  0 < hc ->
  (forall b, 1 <= b -> G b = zrange (b * hc + hc) hc) ->
  forall n : nat, flat_map G (zrange 1 (Z.of_nat n)) = zrange (2 * hc) (Z.of_nat n * hc).
Proof.
  intros Hhc HG. induction n as [|n IH].
  - rewrite zrange_nil by lia. rewrite zrange_nil by lia. reflexivity.
  - rewrite Nat2Z.inj_succ. unfold Z.succ.
    rewrite zrange_snoc by lia. rewrite flat_map_app, IH.
    cbn [flat_map]. rewrite app_nil_r. rewrite HG by lia.
    replace ((1 + Z.of_nat n) * hc + hc) with (2 * hc + Z.of_nat n * hc) by lia.
    rewrite zrange_app by nia. f_equal. lia.
Qed.

Lemma cells_index_map c hi : geom c hi ->
  map (fun bs => counts_index c (fst bs) (snd bs)) (cells c) = zrange 0 (c_len c).
Proof.
  intros [Gu Ghm Gsbc Ghc Gmask Gbc Ghi Glen].
  pose proof (pow2_pos (c_hm c) ltac:(lia)) as Pa.
  unfold cells. rewrite map_flat_map.
  set (G := fun b : Z => if b =? 0 then zrange 0 (c_sbc c) else zrange (b * c_hc c + c_hc c) (c_hc c)).
  rewrite (flat_map_ext _ G).
  2:{ intros b. rewrite map_map. cbn [fst snd]. unfold counts_index, G.
      rewrite (map_ext _ (fun s => b * c_hc c + s)).
      2:{ intros s. rewrite Ghc. lia. }
      destruct (b =? 0) eqn:E; rewrite zrange_shift.
      - f_equal. lia.
      - f_equal. lia. }
  replace (c_bc c) with ((c_bc c - 1) + 1) by lia.
  rewrite zrange_cons by lia. cbn [flat_map].
  replace (c_bc c - 1) with (Z.of_nat (Z.to_nat (c_bc c - 1))) by lia.
  change (0 + 1) with 1.
  rewrite (cells_rest_gen (c_hc c) (c_sbc c) G).
  - unfold G. change (0 =? 0) with true. cbv iota.
    rewrite Gsbc, <- Ghc.
    rewrite (zrange_app 0 (2 * c_hc c)) by nia.
    rewrite Glen. f_equal. rewrite Z2Nat.id by lia. lia.
  - lia.
  - intros b Hb. unfold G. destruct (b =? 0) eqn:E; [lia|]. reflexivity.
Qed.

Lemma cells_value_index c hi b sb : geom c hi -> In (b, sb) (cells c) ->
  counts_index_for c (value_from_index c b sb) = counts_index c b sb.
Proof.
  intros G Hin. apply (In_cells c hi b sb G) in Hin. destruct Hin as [Hb Hok].
  assert (Hc : in_cell c b sb (value_from_index c b sb)).
  { destruct G as [Gu Ghm Gsbc Ghc Gmask Gbc Ghi Glen].
    pose proof (pow2_pos (b + c_unit c) ltac:(lia)) as Pp.
    unfold in_cell, value_from_index. lia. }
  destruct (cell_facts c hi b sb _ G Hok Hc) as [E _]. exact E.
Qed.

Lemma hdr_cells_cover : forall lo hi s,
  (0 <= lo /\ 1 <= hi < 2 ^ 62 /\ 1 <= s <= 5) ->
  let c := config_of lo hi s in
  map (fun bs => counts_index c (fst bs) (snd bs)) (cells c) = zrange 0 (c_len c) /\
  forall b sb, In (b, sb) (cells c) ->
     counts_index_for c (value_from_index c b sb) = counts_index c b sb.
Proof.
  intros lo hi s Hc. cbv zeta.
  destruct (config_geom lo hi s Hc) as [G _].
  split.
  - exact (cells_index_map _ hi G).
  - intros b sb. exact (cells_value_index _ hi b sb G).
Qed.
Print Assumptions hdr_cells_cover.

(* ------------------------------------------------------------------ *)
(* counting                                                            *)
(* ------------------------------------------------------------------ *)

Lemma zsum_map_zero {A} (f : A -> Z) l : (forall x, f x = 0) -> zsum (map f l) = 0.
Proof.
  intros H. induction l as [|a l IH]; cbn [map].
  - reflexivity.
  - rewrite zsum_cons, IH, H. reflexivity.
Qed.

Lemma zsum_map_nonneg {A} (f : A -> Z) l : (forall x, 0 <= f x) -> 0 <= zsum (map f l).
Proof.
  intros H. induction l as [|a l IH]; cbn [map].
  - change (zsum []) with 0. lia.
  - rewrite zsum_cons. specialize (H a). lia.
Qed.

Lemma zsum_upd_notin f i d l : ~ In i l -> zsum (map (upd f i d) l) = zsum (map f l).
Proof.
  induction l as [|a l IH]; cbn [map]; intros H.
  - reflexivity.
  - rewrite !zsum_cons, IH.
    + unfold upd. destruct (a =? i) eqn:E; [|reflexivity].
      exfalso. apply H. left. lia.
    + intros Hin. apply H. right. exact Hin.
Qed.

Lemma zsum_upd_in f i d l : NoDup l -> In i l ->
  zsum (map (upd f i d) l) = zsum (map f l) + d.
Proof.
  induction l as [|a l IH]; intros ND Hin.
  - destruct Hin.
  - inversion ND as [|a' l' Hnotin ND']; subst. cbn [map]. rewrite !zsum_cons.
    destruct Hin as [->|Hin].
    + rewrite zsum_upd_notin by assumption. unfold upd. rewrite Z.eqb_refl. lia.
    + rewrite IH by assumption. unfold upd. destruct (a =? i) eqn:E; [|lia].
      exfalso. apply Z.eqb_eq in E. subst. contradiction.
Qed.

Definition hinv (c : cfg) (h : hist) : Prop :=
  h_cfg h = c /\ (forall i, 0 <= h_counts h i) /\
  h_total h = zsum (map (h_counts h) (zrange 0 (c_len c))).

Lemma record_value_inv c h v : hinv c h ->
  (record_value h v = None /\ ~ (0 <= counts_index_for c v < c_len c)) \/
  (exists h', record_value h v = Some h' /\ hinv c h' /\ h_total h' = h_total h + 1 /\
              0 <= counts_index_for c v < c_len c).
Proof.
  intros [Hc [Hnn Ht]]. unfold record_value, record_values. cbv zeta. rewrite Hc.
  destruct ((counts_index_for c v <? 0) || (c_len c <=? counts_index_for c v)) eqn:E.
  - left. split; [reflexivity|lia].
  - right. eexists. split; [reflexivity|]. split; [|split; [reflexivity|lia]].
    unfold hinv. cbn [h_cfg h_counts h_total]. split; [reflexivity|split].
    + intros i. unfold upd. specialize (Hnn i). destruct (i =? counts_index_for c v); lia.
    + rewrite zsum_upd_in; [lia|apply NoDup_zrange|apply In_zrange; lia].
Qed.

Lemma record_all_inv c hi : geom c hi -> forall vs h h' k,
  hinv c h -> record_all h vs = (h', k) ->
  hinv c h' /\ h_total h' = h_total h + k /\
  (Forall (fun v => 0 <= v <= hi) vs -> k = Z.of_nat (length vs)).
Proof.
  intros G. induction vs as [|v r IH]; intros h h' k Hinv Hrec.
  - cbn [record_all] in Hrec. inversion Hrec; subst.
    split; [assumption|]. split; [lia|]. intros _. reflexivity.
  - cbn [record_all] in Hrec.
    destruct (record_value_inv c h v Hinv) as [[En Hno] | [h1 [Es [Hinv1 [Ht1 Hin]]]]].
    + rewrite En in Hrec. destruct (IH h h' k Hinv Hrec) as [A [B C]].
      split; [exact A|split; [exact B|]]. intros HF.
      exfalso. apply Hno. apply (accepts_gen c hi v G). exact (Forall_inv HF).
    + rewrite Es in Hrec. destruct (record_all h1 r) as [h2 k2] eqn:E2.
      inversion Hrec; subst.
      destruct (IH h1 h' k2 Hinv1 E2) as [A [B C]].
      split; [exact A|]. split; [lia|]. intros HF.
      rewrite (C (Forall_inv_tail HF)). cbn [length]. lia.
Qed.

Lemma iterate_stop h cs ct : h_total h <= ct -> iterate h cs ct = [].
Proof.
  intros H. destruct cs as [|[b s] r]; cbn [iterate]; [reflexivity|].
  destruct (h_total h <=? ct) eqn:E; [reflexivity|lia].
Qed.

Definition cell_count (h : hist) (bs : Z * Z) : Z :=
  h_counts h (counts_index (h_cfg h) (fst bs) (snd bs)).

Lemma iterate_sum h : (forall i, 0 <= h_counts h i) -> forall cs ct,
  ct + zsum (map (cell_count h) cs) = h_total h ->
  zsum (map st_count_at (iterate h cs ct)) = h_total h - ct.
Proof.
  intros Hnn. induction cs as [|[b s] r IH]; intros ct Hsum.
  - cbn [map] in Hsum. change (zsum []) with 0 in Hsum.
    cbn [iterate map]. change (zsum []) with 0. lia.
  - cbn [iterate]. cbn [map] in Hsum. rewrite zsum_cons in Hsum.
    unfold cell_count at 1 in Hsum. cbn [fst snd] in Hsum.
    assert (0 <= zsum (map (cell_count h) r))
      by (apply zsum_map_nonneg; intros x; apply Hnn).
    pose proof (Hnn (counts_index (h_cfg h) b s)) as Hc0.
    destruct (h_total h <=? ct) eqn:E.
    + cbn [map]. change (zsum []) with 0. lia.
    + cbn [map st_count_at]. rewrite zsum_cons. rewrite IH by lia. lia.
Qed.

Lemma cell_count_map c hi h : geom c hi -> h_cfg h = c ->
  map (cell_count h) (cells c) = map (h_counts h) (zrange 0 (c_len c)).
Proof.
  intros G Hc. rewrite <- (cells_index_map c hi G). rewrite map_map.
  apply map_ext. intros bs. unfold cell_count. rewrite Hc. reflexivity.
Qed.

Lemma sum_bars_total c hi h : geom c hi -> hinv c h ->
  fold_right Z.add 0 (map b_count (distribution h)) = h_total h.
Proof.
  intros G [Hc [Hnn Ht]]. unfold distribution. rewrite map_map.
  rewrite (map_ext _ st_count_at) by (intros st; reflexivity).
  unfold steps.
  pose proof (iterate_sum h Hnn (cells (h_cfg h)) 0) as X.
  rewrite Hc in X at 1. rewrite (cell_count_map c hi h G Hc) in X.
  unfold zsum in X, Ht. rewrite X; lia.
Qed.

Lemma hinv_new lo hi s : hinv (config_of lo hi s) (new lo hi s).
Proof.
  unfold hinv, new. cbn [h_cfg h_counts h_total].
  split; [reflexivity|split].
  - intros i. lia.
  - rewrite zsum_map_zero; [reflexivity|]. intros x. reflexivity.
Qed.

Lemma hdr_count_invariant : forall lo hi s vs,
  (0 <= lo /\ 1 <= hi < 2 ^ 62 /\ 1 <= s <= 5) ->
  let '(h, k) := record_all (new lo hi s) vs in
  h_total h = k /\ fold_right Z.add 0 (counts_list h) = k /\
  fold_right Z.add 0 (map b_count (distribution h)) = k /\
  (Forall (fun v => 0 <= v <= hi) vs -> k = Z.of_nat (length vs)).
Proof.
  intros lo hi s vs Hc.
  destruct (config_geom lo hi s Hc) as [G _].
  pose proof (hinv_new lo hi s) as Hinv.
  destruct (record_all (new lo hi s) vs) as [h k] eqn:E.
  destruct (record_all_inv _ hi G vs _ h k Hinv E) as [A [B C]].
  change (h_total (new lo hi s)) with 0 in B.
  split; [lia|]. split; [|split; [|exact C]].
  - unfold counts_list. destruct A as [Ac [_ At]]. rewrite Ac.
    unfold zsum in At. lia.
  - rewrite (sum_bars_total _ hi h G A). lia.
Qed.
Print Assumptions hdr_count_invariant.

(* ------------------------------------------------------------------ *)
(* a single recorded value                                             *)
(* ------------------------------------------------------------------ *)

Definition zero_step (st : step) : Prop := st_count_at st = 0 /\ st_count_to st = 0.

Lemma iterate_zero_prefix h tl : 0 < h_total h -> forall pre,
  (forall bs, In bs pre -> cell_count h bs = 0) ->
  exists zs, iterate h (pre ++ tl) 0 = zs ++ iterate h tl 0 /\ Forall zero_step zs.
Proof.
  intros Ht. induction pre as [|[b s] r IH]; intros Hz.
  - exists []. split; [reflexivity|constructor].
  - destruct IH as [zs [E F]].
    { intros bs Hin. apply Hz. right. exact Hin. }
    pose proof (Hz (b, s) (or_introl eq_refl)) as H0.
    unfold cell_count in H0. cbn [fst snd] in H0.
    assert (H1 : iterate h (((b, s) :: r) ++ tl) 0 =
                 mkStep 0 0 (value_from_index (h_cfg h) b s)
                        (highest_equiv (h_cfg h) (value_from_index (h_cfg h) b s))
                 :: iterate h (r ++ tl) 0).
    { rewrite <- app_comm_cons. cbn [iterate].
      destruct (h_total h <=? 0) eqn:E0; [lia|]. rewrite H0. reflexivity. }
    exists (mkStep 0 0 (value_from_index (h_cfg h) b s)
                   (highest_equiv (h_cfg h) (value_from_index (h_cfg h) b s)) :: zs).
    rewrite H1, E. split; [reflexivity|].
    constructor; [split; reflexivity|exact F].
Qed.

Lemma equiv_idem c hi v : geom c hi -> 0 <= v ->
  lowest_equiv c (lowest_equiv c v) = lowest_equiv c v /\
  highest_equiv c (lowest_equiv c v) = highest_equiv c v /\
  lowest_equiv c (highest_equiv c v) = lowest_equiv c v /\
  highest_equiv c (highest_equiv c v) = highest_equiv c v.
Proof.
  intros G Hv. destruct (value_cell c hi v G Hv) as [Hok Hin].
  destruct (cell_facts c hi _ _ v G Hok Hin) as [_ [E1 [_ E3]]].
  pose proof (in_range_gen c hi v G Hv) as Hr.
  pose proof (class_gen c hi v (lowest_equiv c v) G Hv ltac:(lia)) as HL.
  pose proof (class_gen c hi v (highest_equiv c v) G Hv ltac:(lia)) as HH.
  destruct (cell_facts c hi _ _ _ G Hok HL) as [_ [L1 [_ L3]]].
  destruct (cell_facts c hi _ _ _ G Hok HH) as [_ [H1 [_ H3]]].
  rewrite L1, L3, H1, H3, E1, E3. repeat split; reflexivity.
Qed.

Lemma single_steps c hi h v : geom c hi -> 0 <= v <= hi ->
  h_cfg h = c -> h_total h = 1 ->
  (forall j, h_counts h j = if j =? counts_index_for c v then 1 else 0) ->
  exists zs, steps h = zs ++ [mkStep 1 1 (lowest_equiv c v) (highest_equiv c (lowest_equiv c v))]
             /\ Forall zero_step zs.
Proof.
  intros G Hv Hc Ht Hcnt.
  destruct (value_cell c hi v G ltac:(lia)) as [Hok _].
  pose proof (value_bucket_bound c hi v G Hv) as Hbc.
  set (b0 := bucket_index c v) in *. set (s0 := sub_bucket_index c v b0) in *.
  assert (Hidx : counts_index_for c v = counts_index c b0 s0) by reflexivity.
  assert (Hlow : lowest_equiv c v = value_from_index c b0 s0) by reflexivity.
  assert (Hin : In (b0, s0) (cells c)).
  { apply (In_cells c hi b0 s0 G). split; [destruct Hok as [Hb _]; lia|exact Hok]. }
  destruct (in_split _ _ Hin) as [pre [post Hsplit]].
  pose proof (cells_index_map c hi G) as Hmap.
  pose proof (NoDup_zrange 0 (c_len c)) as ND. rewrite <- Hmap, Hsplit in ND.
  rewrite map_app in ND. cbn [map fst snd] in ND.
  apply NoDup_remove_2 in ND.
  assert (Hpre : forall bs, In bs pre -> cell_count h bs = 0).
  { intros bs Hbs. unfold cell_count. rewrite Hc, Hcnt.
    destruct (counts_index c (fst bs) (snd bs) =? counts_index_for c v) eqn:E; [|reflexivity].
    exfalso. apply ND. apply in_or_app. left.
    apply Z.eqb_eq in E. rewrite <- Hidx, <- E.
    apply (in_map (fun bs => counts_index c (fst bs) (snd bs))). exact Hbs. }
  destruct (iterate_zero_prefix h ((b0, s0) :: post) ltac:(lia) pre Hpre) as [zs [E F]].
  exists zs. split; [|exact F].
  unfold steps. rewrite Hc, Hsplit, E. f_equal.
  cbn [iterate]. destruct (h_total h <=? 0) eqn:E0; [lia|].
  rewrite iterate_stop.
  2:{ rewrite Hc, Hcnt, <- Hidx, Z.eqb_refl. lia. }
  rewrite Hc, Hcnt, <- Hidx, Z.eqb_refl, <- Hlow. reflexivity.
Qed.

Lemma first_nonzero_app zs st : Forall zero_step zs -> st_count_at st <> 0 ->
  first_nonzero (zs ++ [st]) = st_highest st.
Proof.
  intros F Hst. induction F as [|z zs [Hz _] F IH]; cbn [app first_nonzero].
  - destruct (st_count_at st =? 0) eqn:E; [lia|reflexivity].
  - rewrite Hz. change (0 =? 0) with true. cbv iota. exact IH.
Qed.

Lemma fold_max_zero (zs : list step) : Forall zero_step zs -> forall acc,
  fold_left (fun acc st => if st_count_at st =? 0 then acc else st_highest st) zs acc = acc.
Proof.
  intros F. induction F as [|z zs [Hz _] F IH]; intros acc; cbn [fold_left].
  - reflexivity.
  - rewrite Hz. change (0 =? 0) with true. cbv iota. apply IH.
Qed.

Lemma scan_rank_app c zs st : Forall zero_step zs -> st_count_to st = 1 ->
  scan_rank c (zs ++ [st]) 1 = highest_equiv c (st_value_from st).
Proof.
  intros F Hst. induction F as [|z zs [_ Hz] F IH]; cbn [app scan_rank].
  - rewrite Hst. reflexivity.
  - rewrite Hz. change (1 <=? 0) with false. cbv iota. exact IH.
Qed.

Lemma single_gen c hi h v : geom c hi -> 0 <= v <= hi ->
  h_cfg h = c -> h_total h = 1 ->
  (forall j, h_counts h j = if j =? counts_index_for c v then 1 else 0) ->
  hmin h = lowest_equiv c v /\ hmax h = highest_equiv c v /\
  value_at_rank h 1 = highest_equiv c v /\
  exists pre, distribution h = pre ++ [mkBar (lowest_equiv c v) (highest_equiv c v) 1] /\
              Forall (fun b => b_count b = 0) pre.
Proof.
  intros G Hv Hc Ht Hcnt.
  destruct (single_steps c hi h v G Hv Hc Ht Hcnt) as [zs [Es F]].
  destruct (equiv_idem c hi v G ltac:(lia)) as [I1 [I2 [I3 I4]]].
  rewrite I2 in Es.
  split; [|split; [|split]].
  - unfold hmin. rewrite Es, Hc. rewrite first_nonzero_app; [|exact F|cbn [st_count_at]; lia].
    cbn [st_highest]. exact I3.
  - unfold hmax. cbv zeta. rewrite Es, Hc. rewrite fold_left_app. rewrite (fold_max_zero zs F).
    cbn [fold_left st_count_at st_highest]. change (1 =? 0) with false. cbv iota. exact I4.
  - unfold value_at_rank. rewrite Es, Hc. rewrite scan_rank_app; [|exact F|reflexivity].
    cbn [st_value_from]. exact I2.
  - unfold distribution. rewrite Es, Hc. rewrite map_app. cbn [map st_value_from st_highest st_count_at].
    rewrite I1. eexists. split; [reflexivity|].
    apply Forall_forall. intros b Hb. apply in_map_iff in Hb. destruct Hb as [st [Eb Hst]].
    rewrite <- Eb. cbn [b_count].
    rewrite Forall_forall in F. exact (proj1 (F st Hst)).
Qed.

Lemma hdr_single_value : forall lo hi s v h,
  (0 <= lo /\ 1 <= hi < 2 ^ 62 /\ 1 <= s <= 5) -> 0 <= v <= hi ->
  record_value (new lo hi s) v = Some h ->
  let c := config_of lo hi s in
  hmin h = lowest_equiv c v /\ hmax h = highest_equiv c v /\
  value_at_rank h 1 = highest_equiv c v /\
  exists pre, distribution h = pre ++ [mkBar (lowest_equiv c v) (highest_equiv c v) 1] /\
              Forall (fun b => b_count b = 0) pre.
Proof.
  intros lo hi s v h Hcfg Hv Hrec. cbv zeta.
  destruct (config_geom lo hi s Hcfg) as [G _].
  unfold record_value, record_values, new in Hrec. cbv zeta in Hrec.
  cbn [h_cfg h_total h_counts] in Hrec.
  destruct ((counts_index_for (config_of lo hi s) v <? 0)
            || (c_len (config_of lo hi s) <=? counts_index_for (config_of lo hi s) v));
    [discriminate|].
  injection Hrec as Hh.
  apply (single_gen _ hi h v G Hv).
  - rewrite <- Hh. reflexivity.
  - rewrite <- Hh. reflexivity.
  - intros j. rewrite <- Hh. cbn [h_counts]. unfold upd.
    destruct (j =? counts_index_for (config_of lo hi s) v); reflexivity.
Qed.
Print Assumptions hdr_single_value.
