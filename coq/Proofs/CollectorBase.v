(* C07/C08, foundations: the metric count of the schema signature, streams of
   chunk documents interleaved with metadata documents and what the reader makes
   of them, and the base collector as a log of the documents it holds (any
   metadata, any mixture of schemas over time, rejected Adds). *)
From Coq Require Import ZArith NArith List Bool Lia Arith.
From FV.Model Require Import Bytes Bson Metrics Codec Collector Wf RoundTrip CollectorOk.
From FV.Proofs Require Import BytesProofs BsonProofs MetricsProofs CodecChunk CodecProofs.
Import ListNotations.
Open Scope Z_scope.

(* ------------------------------------------------------------------ list facts *)
Lemma cb_bytes_eqb_refl : forall a, bytes_eqb a a = true.
Proof. intros a. unfold bytes_eqb. destruct (list_eq_dec N.eq_dec a a); [reflexivity|congruence]. Qed.

Lemma cb_bytes_eqb_true : forall a b, bytes_eqb a b = true -> a = b.
Proof. intros a b. unfold bytes_eqb. destruct (list_eq_dec N.eq_dec a b); [intros _; assumption|discriminate]. Qed.

Lemma cb_bytes_eqb_false : forall a b, bytes_eqb a b = false -> a <> b.
Proof. intros a b. unfold bytes_eqb. destruct (list_eq_dec N.eq_dec a b); [discriminate|intros _; assumption]. Qed.

Lemma cb_docs_eqb_refl : forall l, docs_eqb l l = true.
Proof.
  induction l as [|a r IH]; [reflexivity|]. cbn [docs_eqb]. unfold doc_eqb.
  rewrite cb_bytes_eqb_refl, IH. reflexivity.
Qed.

Lemma cb_removelast_last : forall (A : Type) (l : list A) d, l <> [] -> removelast l ++ [last l d] = l.
Proof. intros A l d H. symmetry. apply app_removelast_last. exact H. Qed.

Lemma cb_hd_app : forall (A : Type) (l r : list A) d, l <> [] -> hd d (l ++ r) = hd d l.
Proof. intros A [|a l] r d H; [congruence|reflexivity]. Qed.

Lemma cb_last_snoc_in : forall (A : Type) (l : list A) a d, In (last (l ++ [a]) d) (l ++ [a]).
Proof. intros A l a d. rewrite last_last. apply in_or_app. right. left. reflexivity. Qed.

Lemma cb_firstn_map_app : forall (A B : Type) (f : A -> B) (l r : list A),
  firstn (length (map f l)) (map f (l ++ r)) = map f l.
Proof.
  intros A B f l r. rewrite map_app. rewrite firstn_app, Nat.sub_diag, firstn_all. cbn [firstn].
  rewrite app_nil_r. reflexivity.
Qed.

(* ------------------------------------------------------------------ types_agree *)
Lemma cb_types_agree_true : forall a b : list (mtype * Z), types_agree a b = true -> map fst a = map fst b.
Proof.
  induction a as [|[t1 x1] a IH]; intros [|[t2 x2] b] H; cbn [types_agree] in H; try discriminate H; [reflexivity|].
  apply andb_true_iff in H. destruct H as [Ht Hr]. cbn [map fst]. f_equal; [|apply IH; exact Hr].
  destruct t1, t2; try discriminate Ht; reflexivity.
Qed.

Lemma cb_types_agree_iff : forall a b : list (mtype * Z),
  (Nat.eqb (length a) (length b) && types_agree a b = true) <-> map fst a = map fst b.
Proof.
  intros a b. split.
  - intros H. apply andb_true_iff in H. apply cb_types_agree_true. apply H.
  - intros H. apply andb_true_iff. split; [|apply types_agree_fst; exact H].
    apply Nat.eqb_eq. rewrite <- (map_length fst a), <- (map_length fst b), H. reflexivity.
Qed.

(* ------------------------------------------------------------------ signature count = metric count *)
Definition hk_arr (key : bytes) :=
  fix go (i : N) (l : list value) : list bytes * Z :=
    match l with
    | [] => ([], 0)
    | x :: r => let '(k1, n1) := hash_keys (comp key (dec_digits i)) x in
                let '(k2, n2) := go (i + 1)%N r in (k1 ++ k2, n1 + n2)
    end.
Definition hk_doc (key : bytes) :=
  fix go (l : list (bytes * value)) : list bytes * Z :=
    match l with
    | [] => ([], 0)
    | (k, x) :: r => let '(k1, n1) := hash_keys (comp key k) x in
                     let '(k2, n2) := go r in (k1 ++ k2, n1 + n2)
    end.

Lemma hash_keys_VArr : forall key a,
  hash_keys key (VArr a) = ((key ++ mark_arr) :: fst (hk_arr key 0%N a), snd (hk_arr key 0%N a)).
Proof. intros key a. cbn [hash_keys]. fold (hk_arr key). destruct (hk_arr key 0%N a). reflexivity. Qed.
Lemma hash_keys_VDoc : forall key d,
  hash_keys key (VDoc d) = ((key ++ mark_doc) :: fst (hk_doc key d), snd (hk_doc key d)).
Proof. intros key d. cbn [hash_keys]. fold (hk_doc key). destruct (hk_doc key d). reflexivity. Qed.
Lemma hash_keys_fields_hk : forall d, hash_keys_fields d = hk_doc [] d.
Proof.
  induction d as [|[k x] r IH]; [reflexivity|].
  cbn [hash_keys_fields hk_doc]. fold (hk_doc []). rewrite IH. reflexivity.
Qed.

Definition hcount_P (v : value) : Prop := forall key, snd (hash_keys key v) = Z.of_nat (length (flatten v)).

Lemma hcount_doc_F : forall d, Forall (fun kv => hcount_P (snd kv)) d ->
  forall key, snd (hk_doc key d) = Z.of_nat (length (flatten_doc d)).
Proof.
  intros d HF key. induction HF as [|[k x] r Hx HF IH]; [reflexivity|].
  cbn [snd] in Hx. cbn [hk_doc flatten_doc]. fold (hk_doc key).
  specialize (Hx (comp key k)).
  destruct (hash_keys (comp key k) x) as [k1 n1]. destruct (hk_doc key r) as [k2 n2].
  cbn [snd] in *. rewrite app_length, Nat2Z.inj_add. lia.
Qed.

Lemma hcount_arr_F : forall a, Forall hcount_P a ->
  forall key i, snd (hk_arr key i a) = Z.of_nat (length (flatten_arr a)).
Proof.
  intros a HF key. induction HF as [|x r Hx HF IH]; intros i; [reflexivity|].
  cbn [hk_arr flatten_arr]. fold (hk_arr key).
  specialize (Hx (comp key (dec_digits i))). specialize (IH (i + 1)%N).
  destruct (hash_keys (comp key (dec_digits i)) x) as [k1 n1]. destruct (hk_arr key (i + 1)%N r) as [k2 n2].
  cbn [snd] in *. rewrite app_length, Nat2Z.inj_add. lia.
Qed.

Lemma hcount_value : forall v, hcount_P v.
Proof.
  induction v using value_ind'; unfold hcount_P; intros key; try reflexivity.
  - rewrite hash_keys_VDoc, flatten_VDoc. cbn [snd]. apply hcount_doc_F. assumption.
  - rewrite hash_keys_VArr, flatten_VArr. cbn [snd]. apply hcount_arr_F. assumption.
Qed.

Lemma hash_keys_doc_count : forall d, snd (hash_keys_doc d) = Z.of_nat (length (flatten_doc d)).
Proof.
  intros d. unfold hash_keys_doc. rewrite hash_keys_fields_hk.
  pose proof (hcount_doc_F d) as H.
  assert (HF : Forall (fun kv : bytes * value => hcount_P (snd kv)) d).
  { apply Forall_forall. intros kv _. apply hcount_value. }
  specialize (H HF []). destruct (hk_doc [] d) as [ks n]. exact H.
Qed.

(* the second component of the signature is the metric count *)
Lemma schema_sig_count : forall d, snd (schema_sig d) = Z.of_nat (length (flatten_doc d)).
Proof.
  intros d. unfold schema_sig. pose proof (hash_keys_doc_count d) as H.
  destruct (hash_keys_doc d) as [ks n]. exact H.
Qed.

Lemma schema_sig_fst_types : forall a b,
  fst (schema_sig a) = fst (schema_sig b) -> map fst (flatten_doc a) = map fst (flatten_doc b) ->
  schema_sig a = schema_sig b.
Proof.
  intros a b Hf Ht. pose proof (schema_sig_count a) as Ha. pose proof (schema_sig_count b) as Hb.
  destruct (schema_sig a) as [sa na]. destruct (schema_sig b) as [sb nb]. cbn [fst snd] in *.
  subst sb. f_equal. rewrite Ha, Hb, <- (map_length fst (flatten_doc a)), Ht, map_length. reflexivity.
Qed.

(* ------------------------------------------------------------------ chunk streams *)
Section Stream.
Variable deflate : bytes -> bytes.
Variable inflate : bytes -> option bytes.
Hypothesis inflate_deflate : forall p, inflate (deflate p) = Some p.

(* [g] is one group: documents of one schema, each representable *)
Definition ggroup (g : list doc) : Prop :=
  Forall doc_wf g /\ forall d, In d g -> skeleton_doc d = skeleton_doc (hd [] g).

(* [cd] is the chunk document of the non-empty group [g] of at most m+1 documents *)
Definition ischunk (m : Z) (cd : doc) (g : list doc) : Prop :=
  exists s d0 ds, g = d0 :: ds /\ Z.of_nat (length ds) <= m /\ cd = group_chunk deflate s d0 ds.

(* a sequence of outer documents: chunk documents of the groups [gs] in order,
   with metadata documents anywhere in between *)
Inductive wstream (m : Z) : list doc -> list (list doc) -> Prop :=
| ws_nil : wstream m [] []
| ws_meta : forall s md ds gs, wstream m ds gs -> wstream m (meta_doc s md :: ds) gs
| ws_chunk : forall cd g ds gs, ischunk m cd g -> ggroup g -> wstream m ds gs -> wstream m (cd :: ds) (g :: gs).

Lemma wstream_app : forall m ds1 gs1 ds2 gs2,
  wstream m ds1 gs1 -> wstream m ds2 gs2 -> wstream m (ds1 ++ ds2) (gs1 ++ gs2).
Proof.
  intros m ds1 gs1 ds2 gs2 H1 H2. induction H1 as [|s md ds gs H IH|cd g ds gs Hc Hg H IH].
  - exact H2.
  - cbn [app]. apply ws_meta. exact IH.
  - cbn [app]. apply ws_chunk; assumption.
Qed.

Lemma wstream_le : forall m m' ds gs, m <= m' -> wstream m ds gs -> wstream m' ds gs.
Proof.
  intros m m' ds gs Hle H. induction H as [|s md ds gs H IH|cd g ds gs Hc Hg H IH].
  - constructor.
  - apply ws_meta. exact IH.
  - apply ws_chunk; try assumption.
    destruct Hc as (s & d0 & ds' & Eg & Hlen & Ecd). exists s, d0, ds'. repeat split; try assumption. lia.
Qed.

Lemma wstream_lens : forall m ds gs, wstream m ds gs ->
  Forall (fun g : list doc => g <> [] /\ Z.of_nat (length g) <= m + 1) gs.
Proof.
  intros m ds gs H. induction H as [|s md ds gs H IH|cd g ds gs Hc Hg H IH]; [constructor|exact IH|].
  constructor; [|exact IH]. destruct Hc as (s & d0 & ds' & Eg & Hlen & _). subst g.
  split; [discriminate|]. cbn [length]. lia.
Qed.

Definition glen (g : list doc) : Z := Z.of_nat (length g).

Lemma read_wstream : forall m ds gs, m < 2 ^ 31 -> wstream m ds gs ->
  forall meta, exists cs, read_chunks inflate meta ds = (cs, None) /\
    flat_map structured_docs cs = map (fun d => Some (strip_doc d)) (concat gs) /\
    map ck_npoints cs = map glen gs.
Proof.
  intros m ds gs Hm H. induction H as [|s md ds gs H IH|cd g ds gs Hc Hg H IH]; intros meta.
  - exists []. repeat split.
  - destruct (IH (Some (meta_doc s md))) as [cs Hcs]. exists cs.
    unfold read_chunks in *. cbn [read_chunks_gen].
    change (is_num 0 (lookup k_type (meta_doc s md))) with true. cbv iota. exact Hcs.
  - destruct (IH meta) as [cs (Hcs & Hdocs & Hsz)].
    destruct Hc as (s & d0 & ds' & Eg & Hlen & Ecd). subst g cd.
    destruct Hg as [Hwf Hsk].
    assert (Hd0 : doc_wf d0) by (inversion Hwf; assumption).
    destruct Hd0 as (Hok & Hlv & Hsm & Hts & Hcnt).
    exists (group_ck meta s d0 ds' :: cs). split; [|split].
    + unfold read_chunks in *. cbn [read_chunks_gen]. unfold group_chunk at 1 2. rewrite lookup_type_chunk.
      change (is_num 0 (Some (VInt32 1))) with false. change (is_num 1 (Some (VInt32 1))) with true.
      cbn [negb]. fold (group_chunk deflate s d0 ds'). fold (read_chunk inflate meta (group_chunk deflate s d0 ds')).
      rewrite (read_group_chunk deflate inflate inflate_deflate) by (try assumption; lia).
      rewrite Hcs. reflexivity.
    + cbn [flat_map concat]. rewrite map_app, Hdocs. f_equal.
      apply group_structured_docs; [|exact Hts].
      apply Forall_forall. intros d Hd. split.
      * apply (Hsk d Hd).
      * rewrite Forall_forall in Hwf. apply (Hwf d Hd).
    + cbn [map]. rewrite Hsz. f_equal. unfold group_ck, glen. cbn [ck_npoints length]. lia.
Qed.

Lemma decode_wstream : forall m ds gs, m < 2 ^ 31 -> wstream m ds gs ->
  exists metas, decode_ftdc inflate None ds = Some (mkDecoded (map strip_doc (concat gs)) (map glen gs) metas).
Proof.
  intros m ds gs Hm H. destruct (read_wstream m ds gs Hm H None) as [cs (Hcs & Hdocs & Hsz)].
  exists (map ck_meta cs). unfold decode_ftdc. unfold read_chunks in Hcs. rewrite Hcs, Hdocs.
  rewrite <- (map_map strip_doc (@Some doc)), cc_all_some_map, Hsz. reflexivity.
Qed.

Lemma glen_bound : forall m gs, Forall (fun g : list doc => g <> [] /\ Z.of_nat (length g) <= m + 1) gs ->
  forallb (fun s => s <=? m + 1) (map glen gs) = true.
Proof.
  intros m gs H. induction H as [|g gs [_ Hg] H IH]; [reflexivity|].
  cbn [map forallb]. rewrite IH. unfold glen. rewrite (proj2 (Z.leb_le _ _) Hg). reflexivity.
Qed.

End Stream.

(* ------------------------------------------------------------------ the base collector as a log *)
Section Bch.
Variable deflate : bytes -> bytes.
(* the family of documents ever offered to the collector *)
Variable D : doc -> Prop.
Variable aware : bool.
Hypothesis D_wf : forall d, D d -> doc_wf d.
Hypothesis D_dist : forall a b, D a -> D b -> map fst (flatten_doc a) = map fst (flatten_doc b) ->
  (aware = true -> schema_sig a = schema_sig b) -> skeleton_doc a = skeleton_doc b.

Definition dgroup (g : list doc) : Prop :=
  Forall D g /\ forall d, In d g -> skeleton_doc d = skeleton_doc (hd [] g).

Lemma dgroup_ggroup : forall g, dgroup g -> ggroup g.
Proof.
  intros g [HD Hsk]. split; [|exact Hsk]. revert HD. apply Forall_impl. exact D_wf.
Qed.

Lemma dgroup_nil : dgroup [].
Proof. split; [constructor|]. intros d []. Qed.

Lemma dgroup_single : forall d, D d -> dgroup [d].
Proof. intros d Hd. split; [constructor; [exact Hd|constructor]|]. intros x [<-|[]]. reflexivity. Qed.

(* the collector holds exactly the documents g *)
Definition bch (n : Z) (b : bcoll) (g : list doc) : Prop :=
  bc_max b = n /\ dgroup g /\
  match g with
  | [] => bc_ref b = None /\ bc_rows b = []
  | d0 :: ds => bc_ref b = Some d0 /\ bc_last b = flatten_doc (last ds d0) /\ bc_rows b = delta_rows d0 ds
  end.

Lemma bch_new : forall n, bch n (bc_new n) [].
Proof. intros n. split; [reflexivity|]. split; [apply dgroup_nil|]. split; reflexivity. Qed.

Lemma bch_reset : forall n b g, bch n b g -> bch n (bc_reset b) [].
Proof.
  intros n b g (Hmax & _ & _). split; [exact Hmax|]. split; [apply dgroup_nil|]. split; reflexivity.
Qed.

Lemma bch_set_meta : forall n b g m, bch n b g -> bch n (bc_set_meta b m) g.
Proof. intros n b g m H. exact H. Qed.

Lemma bch_info : forall n b g, bch n b g -> snd (bc_info b) = glen g.
Proof.
  intros n b g (_ & _ & Hst). unfold bc_info, glen. cbn [snd]. destruct g as [|d0 ds].
  - destruct Hst as [Href Hrows]. rewrite Href, Hrows. reflexivity.
  - destruct Hst as (Href & _ & Hrows). rewrite Href, Hrows, delta_rows_length. cbn [length]. lia.
Qed.

Lemma bch_ref_nil : forall n b, bch n b [] -> bc_ref b = None.
Proof. intros n b (_ & _ & Href & _). exact Href. Qed.

Lemma bch_ref_cons : forall n b d0 ds, bch n b (d0 :: ds) -> bc_ref b = Some d0.
Proof. intros n b d0 ds (_ & _ & Href & _). exact Href. Qed.

Lemma bch_add_empty : forall n b d now, bch n b [] -> D d ->
  exists b', bc_add b d now = (b', AddOk) /\ bch n b' [d].
Proof.
  intros n b d now (Hmax & _ & Href & _) Hd. unfold bc_add. rewrite Href.
  eexists. split; [reflexivity|]. split; [exact Hmax|]. split; [apply dgroup_single; exact Hd|].
  cbn [bc_ref bc_last bc_rows last delta_rows]. repeat split.
Qed.

(* Add into a non-empty collector: accepted exactly when there is room and the
   metric types are those of the reference document; otherwise nothing changes *)
Lemma bch_add : forall n b g d now, bch n b g -> g <> [] -> D d ->
  (aware = true -> forall x, In x g -> fst (schema_sig x) = fst (schema_sig d)) ->
  (exists b', bc_add b d now = (b', AddOk) /\ bch n b' (g ++ [d]) /\ glen g <= n /\
              map fst (flatten_doc d) = map fst (flatten_doc (hd [] g))) \/
  (exists r, bc_add b d now = (b, r) /\ r <> AddOk /\
             (n < glen g \/ map fst (flatten_doc d) <> map fst (flatten_doc (hd [] g)))).
Proof.
  intros n b g d now (Hmax & [HD Hsk] & Hst) Hne Hd Hsig.
  destruct g as [|d0 ds]; [congruence|]. clear Hne. destruct Hst as (Href & Hlast & Hrows).
  cbn [hd] in *.
  assert (Hlin : In (last ds d0) (d0 :: ds)) by apply cp_last_in.
  assert (Htl : map fst (flatten_doc (last ds d0)) = map fst (flatten_doc d0)).
  { apply flatten_types_same_schema. apply (Hsk _ Hlin). }
  unfold bc_add. rewrite Href, Hmax, Hrows, delta_rows_length, Hlast.
  unfold glen. cbn [length].
  destruct (n <=? Z.of_nat (length ds)) eqn:Efull.
  { apply Z.leb_le in Efull. right. exists AddFull. split; [reflexivity|]. split; [discriminate|]. left. lia. }
  apply Z.leb_gt in Efull.
  destruct (Nat.eqb (length (flatten_doc d)) (length (flatten_doc (last ds d0)))) eqn:Elen; cbn [negb].
  2:{ right. exists AddCount. split; [reflexivity|]. split; [discriminate|]. right. intros Heq.
      apply Nat.eqb_neq in Elen. apply Elen.
      rewrite <- (map_length fst (flatten_doc d)), <- (map_length fst (flatten_doc (last ds d0))), Htl, Heq. reflexivity. }
  destruct (types_agree (flatten_doc d) (flatten_doc (last ds d0))) eqn:Ety; cbn [negb].
  2:{ right. exists AddTypes. split; [reflexivity|]. split; [discriminate|]. right. intros Heq.
      rewrite types_agree_fst in Ety; [discriminate Ety|]. rewrite Htl. exact Heq. }
  apply cb_types_agree_true in Ety.
  assert (Hty : map fst (flatten_doc d) = map fst (flatten_doc d0)) by (rewrite Ety; exact Htl).
  assert (Hd0 : D d0) by (inversion HD; assumption).
  assert (Hskd : skeleton_doc d = skeleton_doc d0).
  { apply D_dist; try assumption. intros Haw. apply schema_sig_fst_types; [|exact Hty].
    symmetry. apply (Hsig Haw d0). left. reflexivity. }
  left. eexists. split; [reflexivity|]. split; [|split; [lia|exact Hty]].
  split; [reflexivity|]. split.
  - split; [apply Forall_app; split; [exact HD|constructor; [exact Hd|constructor]]|].
    cbn [app hd]. intros x Hx. change (d0 :: ds ++ [d]) with ((d0 :: ds) ++ [d]) in Hx.
    apply in_app_or in Hx. destruct Hx as [Hx|[<-|[]]]; [apply (Hsk x Hx)|exact Hskd].
  - cbn [app bc_ref bc_last bc_rows]. rewrite last_last, delta_rows_snoc. repeat split.
Qed.

Lemma bch_resolve : forall n m b d0 ds, bch n b (d0 :: ds) -> Z.of_nat (length ds) <= m ->
  exists out, bc_resolve deflate b = Some out /\ wstream deflate m out [d0 :: ds].
Proof.
  intros n m b d0 ds (Hmax & Hg & Href & Hlast & Hrows) Hlen.
  assert (Hlen0 : length (flatten_doc (last ds d0)) = length (flatten_doc d0)).
  { apply same_skeleton_length. destruct Hg as [_ Hsk]. apply (Hsk _ (cp_last_in _ ds d0)). }
  assert (Hck : ischunk deflate m (group_chunk deflate (bc_started b) d0 ds) (d0 :: ds)).
  { exists (bc_started b), d0, ds. repeat split. exact Hlen. }
  pose proof (dgroup_ggroup _ Hg) as Hgg.
  unfold bc_resolve. rewrite Href, Hlast, Hrows, Hlen0. fold (group_chunk deflate (bc_started b) d0 ds).
  eexists. split; [reflexivity|].
  destruct (bc_meta b) as [md|]; cbn [app].
  - apply ws_meta. apply ws_chunk; [exact Hck|exact Hgg|constructor].
  - apply ws_chunk; [exact Hck|exact Hgg|constructor].
Qed.

Lemma bch_resolve_nil : forall n b, bch n b [] -> bc_resolve deflate b = None.
Proof. intros n b H. unfold bc_resolve. rewrite (bch_ref_nil _ _ H). reflexivity. Qed.

End Bch.
