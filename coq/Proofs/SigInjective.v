(* C08: the schema signature of bson_hash.go (the byte string fed to FNV) is an
   unambiguous framing.  Two representable documents with the same key string and
   the same metric types have the same skeleton, hence [distinguishable] holds of
   the schema-aware collector kinds and need not be assumed.

   Route: (1) the written tokens are the encodings of structured tokens
   (path as a list of components, marker); (2) the encoding of a token list is
   injective when no component holds a zero byte and no marker is a dot; (3) a
   pre-order parse of the structured token list, by depth, recovers the skeleton
   up to leaf types; (4) the metric types, read left to right, fix the leaf
   types (a timestamp contributes two MTs, every other leaf one entry). *)
From Coq Require Import ZArith NArith List Bool Lia Arith.
From FV.Model Require Import Bytes Bson Metrics Codec Collector Wf RoundTrip CollectorOk.
From FV.Proofs Require Import BytesProofs BsonProofs MetricsProofs CollectorBase CollectorSizes.
Import ListNotations.
Open Scope Z_scope.

(* ------------------------------------------------------------------ structured tokens *)
Definition stok : Type := (list bytes * N)%type.

Fixpoint stoks (cs : list bytes) (v : value) : list stok :=
  match v with
  | VArr a =>
      (cs, 91%N) ::
      (fix go (i : N) (l : list value) : list stok :=
         match l with
         | [] => []
         | x :: r => stoks (cs ++ [dec_digits i]) x ++ go (i + 1)%N r
         end) 0%N a
  | VDoc d =>
      (cs, 123%N) ::
      (fix go (l : list (bytes * value)) : list stok :=
         match l with
         | [] => []
         | (k, x) :: r => stoks (cs ++ [k]) x ++ go r
         end) d
  | VBool _ | VDouble _ | VInt32 _ | VInt64 _ | VDateTime _ | VTimestamp _ _ => [(cs, 59%N)]
  | _ => []
  end.

Fixpoint stoks_doc (cs : list bytes) (d : list (bytes * value)) : list stok :=
  match d with [] => [] | (k, x) :: r => stoks (cs ++ [k]) x ++ stoks_doc cs r end.

Lemma stoks_VDoc : forall cs d, stoks cs (VDoc d) = (cs, 123%N) :: stoks_doc cs d.
Proof.
  intros cs d. cbn [stoks]. f_equal. induction d as [|[k x] r IH]; [reflexivity|].
  cbn [stoks_doc]. rewrite <- IH. reflexivity.
Qed.

Lemma stoks_VArr : forall cs a, stoks cs (VArr a) = (cs, 91%N) :: stoks_doc cs (arr_keys 0 a).
Proof.
  intros cs a. cbn [stoks]. f_equal. generalize 0%N. induction a as [|x r IH]; intros i; [reflexivity|].
  cbn [arr_keys stoks_doc]. rewrite <- IH. reflexivity.
Qed.

Lemma skeleton_arr_keys : forall a i, skeleton_arr a = map snd (skeleton_doc (arr_keys i a)).
Proof.
  induction a as [|x r IH]; intros i; [reflexivity|].
  cbn [skeleton_arr arr_keys skeleton_doc]. destruct (skeleton x) as [s|].
  - cbn [map snd]. f_equal. apply IH.
  - apply IH.
Qed.

Lemma flatten_arr_keys : forall a i, flatten_arr a = flatten_doc (arr_keys i a).
Proof.
  induction a as [|x r IH]; intros i; [reflexivity|].
  cbn [flatten_arr arr_keys flatten_doc]. f_equal. apply IH.
Qed.

(* ------------------------------------------------------------------ the byte encoding *)
Definition nz (c : bytes) : Prop := ~ In 0%N c.
Definition encp (cs : list bytes) : bytes := concat (map (fun c => 0%N :: dot :: c) cs).
Definition enc (t : stok) : bytes := encp (fst t) ++ [0%N; snd t].
Definition good (t : stok) : Prop := Forall nz (fst t) /\ snd t <> dot.

Lemma encp_snoc : forall cs k, encp (cs ++ [k]) = comp (encp cs) k.
Proof.
  intros cs k. unfold encp, comp. rewrite map_app, concat_app. cbn [map concat].
  rewrite app_nil_r. reflexivity.
Qed.

Lemma hk_doc_cons_fst : forall key k x r,
  fst (hk_doc key ((k, x) :: r)) = fst (hash_keys (comp key k) x) ++ fst (hk_doc key r).
Proof.
  intros key k x r. cbn [hk_doc]. fold (hk_doc key).
  destruct (hash_keys (comp key k) x) as [k1 n1]. destruct (hk_doc key r) as [k2 n2]. reflexivity.
Qed.

Lemma hk_arr_cons_fst : forall key i x r,
  fst (hk_arr key i (x :: r)) = fst (hash_keys (comp key (dec_digits i)) x) ++ fst (hk_arr key (i + 1)%N r).
Proof.
  intros key i x r. cbn [hk_arr]. fold (hk_arr key).
  destruct (hash_keys (comp key (dec_digits i)) x) as [k1 n1]. destruct (hk_arr key (i + 1)%N r) as [k2 n2].
  reflexivity.
Qed.

Lemma hk_arr_keys_fst : forall key a i, fst (hk_arr key i a) = fst (hk_doc key (arr_keys i a)).
Proof.
  intros key a. induction a as [|x r IH]; intros i; [reflexivity|].
  cbn [arr_keys]. rewrite hk_arr_cons_fst, hk_doc_cons_fst, IH. reflexivity.
Qed.

Definition tok_enc_P (v : value) : Prop :=
  forall cs, fst (hash_keys (encp cs) v) = map enc (stoks cs v).

Lemma tok_enc_doc_F : forall d, Forall (fun kv => tok_enc_P (snd kv)) d ->
  forall cs, fst (hk_doc (encp cs) d) = map enc (stoks_doc cs d).
Proof.
  intros d HF cs. induction HF as [|[k x] r Hx HF IH]; [reflexivity|].
  cbn [snd] in Hx. rewrite hk_doc_cons_fst. cbn [stoks_doc]. rewrite map_app, <- IH, <- (Hx (cs ++ [k])), encp_snoc.
  reflexivity.
Qed.

Lemma tok_enc_value : forall v, tok_enc_P v.
Proof.
  induction v using MetricsProofs.value_ind'; unfold tok_enc_P; intros cs; try reflexivity.
  - rewrite hash_keys_VDoc, stoks_VDoc. cbn [fst map]. f_equal. apply tok_enc_doc_F. assumption.
  - rewrite hash_keys_VArr, stoks_VArr. cbn [fst map]. f_equal. rewrite hk_arr_keys_fst.
    apply tok_enc_doc_F. apply bs_Forall_arr_keys. assumption.
Qed.

Lemma sig_fst_enc : forall d, fst (schema_sig d) = concat (map enc (stoks [] (VDoc d))).
Proof.
  intros d. rewrite <- (tok_enc_value (VDoc d) []). rewrite hash_keys_VDoc. cbn [fst].
  unfold schema_sig, hash_keys_doc. rewrite hash_keys_fields_hk.
  change (encp []) with (@nil N). destruct (hk_doc [] d) as [ks n]. reflexivity.
Qed.

(* ------------------------------------------------------------------ the encoding is injective *)
Lemma nz_split : forall c1 c2 A B, nz c1 -> nz c2 -> c1 ++ 0%N :: A = c2 ++ 0%N :: B -> c1 = c2 /\ A = B.
Proof.
  unfold nz. induction c1 as [|b1 c1 IH]; intros [|b2 c2] A B H1 H2 E; cbn [app] in E.
  - injection E as E. split; [reflexivity|exact E].
  - injection E as E0 _. exfalso. apply H2. left. symmetry. exact E0.
  - injection E as E0 _. exfalso. apply H1. left. exact E0.
  - injection E as E0 E. subst b2.
    destruct (IH c2 A B) as [Ec EA]; [intros Hin; apply H1; right; exact Hin|intros Hin; apply H2; right; exact Hin|exact E|].
    subst c2. split; [reflexivity|exact EA].
Qed.

Lemma encp_tail_hd : forall cs m R, exists A, encp cs ++ 0%N :: m :: R = 0%N :: A.
Proof.
  intros [|c cs] m R; [exists (m :: R); reflexivity|].
  unfold encp. cbn [map concat app]. eexists. reflexivity.
Qed.

Lemma enc_inj_app : forall cs1 cs2 m1 m2 R1 R2,
  Forall nz cs1 -> Forall nz cs2 -> m1 <> dot -> m2 <> dot ->
  encp cs1 ++ 0%N :: m1 :: R1 = encp cs2 ++ 0%N :: m2 :: R2 -> cs1 = cs2 /\ m1 = m2 /\ R1 = R2.
Proof.
  induction cs1 as [|c1 cs1 IH]; intros [|c2 cs2] m1 m2 R1 R2 H1 H2 Hm1 Hm2 E.
  - cbn in E. injection E as Em ER. repeat split; assumption.
  - exfalso. unfold encp in E. cbn [map concat app] in E. injection E as Em _. apply Hm1. exact Em.
  - exfalso. unfold encp in E. cbn [map concat app] in E. injection E as Em _. apply Hm2. symmetry. exact Em.
  - inversion H1 as [|? ? Hc1 H1']. inversion H2 as [|? ? Hc2 H2']. subst.
    change (encp (c1 :: cs1)) with ((0%N :: dot :: c1) ++ encp cs1) in E.
    change (encp (c2 :: cs2)) with ((0%N :: dot :: c2) ++ encp cs2) in E.
    rewrite <- !app_assoc in E. cbn [app] in E. injection E as E.
    destruct (encp_tail_hd cs1 m1 R1) as [A EA]. destruct (encp_tail_hd cs2 m2 R2) as [B EB].
    pose proof E as E'. rewrite EA, EB in E'.
    destruct (nz_split c1 c2 A B Hc1 Hc2 E') as [Ec _]. subst c2.
    apply app_inv_head in E.
    destruct (IH cs2 m1 m2 R1 R2 H1' H2' Hm1 Hm2 E) as (Ecs & Em & ER).
    subst. repeat split.
Qed.

Lemma enc_app : forall cs m R, enc (cs, m) ++ R = encp cs ++ 0%N :: m :: R.
Proof. intros cs m R. unfold enc. cbn [fst snd]. rewrite <- app_assoc. reflexivity. Qed.

Lemma concat_enc_inj : forall l1 l2, Forall good l1 -> Forall good l2 ->
  concat (map enc l1) = concat (map enc l2) -> l1 = l2.
Proof.
  induction l1 as [|[cs1 m1] l1 IH]; intros [|[cs2 m2] l2] H1 H2 E.
  - reflexivity.
  - exfalso. cbn [map concat] in E. rewrite enc_app in E.
    destruct (encp_tail_hd cs2 m2 (concat (map enc l2))) as [A EA].
    rewrite EA in E. discriminate E.
  - exfalso. cbn [map concat] in E. rewrite enc_app in E.
    destruct (encp_tail_hd cs1 m1 (concat (map enc l1))) as [A EA].
    rewrite EA in E. discriminate E.
  - inversion H1 as [|? ? [Hc1 Hm1] H1']. inversion H2 as [|? ? [Hc2 Hm2] H2']. subst.
    cbn [fst snd] in *. cbn [map concat] in E. rewrite !enc_app in E.
    destruct (enc_inj_app _ _ _ _ _ _ Hc1 Hc2 Hm1 Hm2 E) as (Ecs & Em & ER). subst.
    f_equal. apply IH; assumption.
Qed.

(* ------------------------------------------------------------------ tokens of representable values are good *)
Lemma key_ok_nz : forall k, key_ok k = true -> nz k.
Proof.
  intros k H Hin. unfold key_ok in H. rewrite forallb_forall in H. specialize (H _ Hin).
  cbn in H. discriminate H.
Qed.

Lemma Forall_nz_snoc : forall cs k, Forall nz cs -> key_ok k = true -> Forall nz (cs ++ [k]).
Proof.
  intros cs k H Hk. apply Forall_app. split; [exact H|]. constructor; [apply key_ok_nz; exact Hk|constructor].
Qed.

Definition good_P (v : value) : Prop :=
  value_ok v = true -> forall cs, Forall nz cs -> Forall good (stoks cs v).

Lemma good_doc_F : forall d, Forall (fun kv => good_P (snd kv)) d ->
  doc_ok d = true -> forall cs, Forall nz cs -> Forall good (stoks_doc cs d).
Proof.
  intros d HF. induction HF as [|[k x] r Hx HF IH]; intros Hok cs Hcs; [constructor|].
  cbn [snd] in Hx. cbn [doc_ok] in Hok. apply andb_true_iff in Hok. destruct Hok as [Hok Hr].
  apply andb_true_iff in Hok. destruct Hok as [Hk Hv].
  cbn [stoks_doc]. apply Forall_app. split.
  - apply Hx; [exact Hv|]. apply Forall_nz_snoc; assumption.
  - apply IH; assumption.
Qed.

Lemma good_leaf : forall cs, Forall nz cs -> Forall good [(cs, 59%N)].
Proof. intros cs H. constructor; [|constructor]. split; [exact H|]. cbn [snd]. unfold dot. discriminate. Qed.

Lemma good_value : forall v, good_P v.
Proof.
  induction v using MetricsProofs.value_ind'; unfold good_P; intros Hok cs Hcs;
    try (cbn [stoks]; constructor; fail); try (apply good_leaf; exact Hcs).
  - rewrite stoks_VDoc. rewrite bs_ok_VDoc in Hok. constructor.
    + split; [exact Hcs|]. cbn [snd]. unfold dot. discriminate.
    + apply good_doc_F; assumption.
  - rewrite stoks_VArr. rewrite bs_ok_VArr in Hok. constructor.
    + split; [exact Hcs|]. cbn [snd]. unfold dot. discriminate.
    + apply good_doc_F; [apply bs_Forall_arr_keys; assumption|apply bs_doc_ok_arr_keys; exact Hok|exact Hcs].
Qed.

(* ------------------------------------------------------------------ the pre-order parse *)
Definition hd_le (n : nat) (r : list stok) : Prop :=
  match r with [] => True | t :: _ => (length (fst t) <= n)%nat end.

Lemma hd_le_S : forall n r, hd_le n r -> hd_le (S n) r.
Proof. intros n [|t r] H; [exact I|]. cbn [hd_le] in *. lia. Qed.

Lemma skeleton_none : forall v, skeleton v = None -> forall cs, stoks cs v = [] /\ flatten v = [].
Proof. intros v H cs. destruct v; try discriminate H; split; reflexivity. Qed.

Lemma skeleton_some_hd : forall v s, skeleton v = Some s -> forall cs, exists m rest, stoks cs v = (cs, m) :: rest.
Proof.
  intros v s H cs. destruct v; try discriminate H; eexists; eexists; reflexivity.
Qed.

Lemma hd_le_doc : forall cs d R, hd_le (length cs) R -> hd_le (S (length cs)) (stoks_doc cs d ++ R).
Proof.
  intros cs d R HR. induction d as [|[k x] r IH]; [apply hd_le_S; exact HR|].
  cbn [stoks_doc]. destruct (skeleton x) as [s|] eqn:Es.
  - destruct (skeleton_some_hd x s Es (cs ++ [k])) as (m & rest & E). rewrite E. cbn [app hd_le fst].
    rewrite app_length. cbn [length]. lia.
  - destruct (skeleton_none x Es (cs ++ [k])) as [E _]. rewrite E. exact IH.
Qed.

Definition parse_P (x : value) : Prop :=
  forall y cs r1 r2 t1 t2 sx sy,
    skeleton x = Some sx -> skeleton y = Some sy ->
    stoks cs x ++ r1 = stoks cs y ++ r2 ->
    hd_le (length cs) r1 -> hd_le (length cs) r2 ->
    map fst (flatten x) ++ t1 = map fst (flatten y) ++ t2 ->
    sx = sy /\ r1 = r2 /\ t1 = t2.

Lemma snoc_len_false : forall (cs : list bytes) k, (length (cs ++ [k]) <= length cs)%nat -> False.
Proof. intros cs k H. rewrite app_length in H. cbn [length] in H. lia. Qed.

Lemma parse_doc_F : forall d1, Forall (fun kv => parse_P (snd kv)) d1 ->
  forall d2 cs R1 R2 T1 T2,
    stoks_doc cs d1 ++ R1 = stoks_doc cs d2 ++ R2 ->
    hd_le (length cs) R1 -> hd_le (length cs) R2 ->
    map fst (flatten_doc d1) ++ T1 = map fst (flatten_doc d2) ++ T2 ->
    skeleton_doc d1 = skeleton_doc d2 /\ R1 = R2 /\ T1 = T2.
Proof.
  intros d1 HF. induction HF as [|[k1 x1] d1 Hx HF IH].
  - (* d1 = [] *)
    induction d2 as [|[k2 x2] d2 IH2]; intros cs R1 R2 T1 T2 Htok HR1 HR2 Hty.
    + cbn [stoks_doc flatten_doc map app] in *. repeat split; assumption.
    + cbn [stoks_doc flatten_doc skeleton_doc] in *. destruct (skeleton x2) as [s2|] eqn:Es2.
      * exfalso. destruct (skeleton_some_hd x2 s2 Es2 (cs ++ [k2])) as (m & rest & E).
        rewrite E in Htok. cbn [app] in Htok. subst R1. cbn [hd_le fst] in HR1.
        apply (snoc_len_false _ _ HR1).
      * destruct (skeleton_none x2 Es2 (cs ++ [k2])) as [E1 E2]. rewrite E1 in Htok. rewrite E2 in Hty.
        cbn [app map] in Htok, Hty. apply (IH2 cs R1 R2 T1 T2); assumption.
  - cbn [snd] in Hx. destruct (skeleton x1) as [s1|] eqn:Es1.
    2:{ intros d2 cs R1 R2 T1 T2 Htok HR1 HR2 Hty. cbn [stoks_doc flatten_doc skeleton_doc] in *.
        rewrite Es1. destruct (skeleton_none x1 Es1 (cs ++ [k1])) as [E1 E2]. rewrite E1 in Htok. rewrite E2 in Hty.
        cbn [app map] in Htok, Hty. apply (IH d2 cs R1 R2 T1 T2); assumption. }
    induction d2 as [|[k2 x2] d2 IH2]; intros cs R1 R2 T1 T2 Htok HR1 HR2 Hty.
    + exfalso. cbn [stoks_doc app] in Htok. destruct (skeleton_some_hd x1 s1 Es1 (cs ++ [k1])) as (m & rest & E).
      rewrite E in Htok. cbn [app] in Htok. subst R2. cbn [hd_le fst] in HR2.
      apply (snoc_len_false _ _ HR2).
    + destruct (skeleton x2) as [s2|] eqn:Es2.
      2:{ cbn [stoks_doc flatten_doc skeleton_doc] in Htok, Hty |- *. rewrite Es2.
          destruct (skeleton_none x2 Es2 (cs ++ [k2])) as [E1 E2]. rewrite E1 in Htok. rewrite E2 in Hty.
          cbn [app map] in Htok, Hty. apply (IH2 cs R1 R2 T1 T2); assumption. }
      cbn [stoks_doc flatten_doc] in Htok, Hty. rewrite <- !app_assoc in Htok. rewrite !map_app, <- !app_assoc in Hty.
      assert (Ek : k1 = k2).
      { destruct (skeleton_some_hd x1 s1 Es1 (cs ++ [k1])) as (m1 & rest1 & E1).
        destruct (skeleton_some_hd x2 s2 Es2 (cs ++ [k2])) as (m2 & rest2 & E2).
        rewrite E1, E2 in Htok. cbn [app] in Htok. injection Htok as Ep _ _.
        apply app_inj_tail in Ep. apply Ep. }
      subst k2.
      destruct (Hx x2 (cs ++ [k1]) _ _ (map fst (flatten_doc d1) ++ T1) (map fst (flatten_doc d2) ++ T2) s1 s2 Es1 Es2 Htok)
        as (Es & ER & ET).
      * rewrite app_length. cbn [length]. rewrite Nat.add_1_r. apply hd_le_doc. exact HR1.
      * rewrite app_length. cbn [length]. rewrite Nat.add_1_r. apply hd_le_doc. exact HR2.
      * exact Hty.
      * destruct (IH d2 cs R1 R2 T1 T2 ER HR1 HR2 ET) as (Esk & ER' & ET').
        cbn [skeleton_doc]. rewrite Es1, Es2, Es, Esk. repeat split; assumption.
Qed.

Definition is_leaf (v : value) : bool :=
  match v with
  | VBool _ | VDouble _ | VInt32 _ | VInt64 _ | VDateTime _ | VTimestamp _ _ => true
  | _ => false
  end.

Lemma parse_leaf : forall x, is_leaf x = true -> parse_P x.
Proof.
  intros x Hx y cs r1 r2 t1 t2 sx sy Hsx Hsy Htok Hr1 Hr2 Hty.
  destruct x; try discriminate Hx; destruct y; try discriminate Hsy;
    try (rewrite stoks_VDoc in Htok; cbn [stoks app] in Htok; discriminate Htok);
    try (rewrite stoks_VArr in Htok; cbn [stoks app] in Htok; discriminate Htok);
    cbn [skeleton zero_leaf] in Hsx, Hsy; injection Hsx as <-; injection Hsy as <-;
    cbn [stoks app] in Htok; injection Htok as Htok;
    cbn [flatten map fst app] in Hty; try discriminate Hty;
    repeat split; try assumption; congruence.
Qed.

Lemma parse_value : forall x, parse_P x.
Proof.
  induction x using MetricsProofs.value_ind';
    try (apply parse_leaf; reflexivity);
    try (intros y cs r1 r2 t1 t2 sx sy Hsx; discriminate Hsx).
  - (* VDoc *)
    intros y cs r1 r2 t1 t2 sx sy Hsx Hsy Htok Hr1 Hr2 Hty.
    rewrite stoks_VDoc in Htok.
    destruct y; try discriminate Hsy; try (cbn [stoks app] in Htok; discriminate Htok).
    rewrite stoks_VDoc in Htok. cbn [app] in Htok. injection Htok as Htok.
    rewrite skeleton_VDoc in Hsx, Hsy. injection Hsx as <-. injection Hsy as <-.
    rewrite !flatten_VDoc in Hty.
    destruct (parse_doc_F d H d0 cs r1 r2 t1 t2 Htok Hr1 Hr2 Hty) as (E & ER & ET).
    rewrite E. repeat split; assumption.
  - (* VArr *)
    intros y cs r1 r2 t1 t2 sx sy Hsx Hsy Htok Hr1 Hr2 Hty.
    rewrite stoks_VArr in Htok.
    destruct y; try discriminate Hsy; try (cbn [stoks app] in Htok; discriminate Htok).
    rewrite stoks_VArr in Htok. cbn [app] in Htok. injection Htok as Htok.
    rewrite skeleton_VArr in Hsx, Hsy. injection Hsx as <-. injection Hsy as <-.
    rewrite !flatten_VArr, (flatten_arr_keys a 0), (flatten_arr_keys a0 0) in Hty.
    destruct (parse_doc_F (arr_keys 0 a) (bs_Forall_arr_keys _ a 0%N H) (arr_keys 0 a0) cs r1 r2 t1 t2 Htok Hr1 Hr2 Hty)
      as (E & ER & ET).
    rewrite (skeleton_arr_keys a 0), (skeleton_arr_keys a0 0), E. repeat split; assumption.
Qed.

(* ------------------------------------------------------------------ the theorem *)
Theorem sig_injective : forall a b,
  doc_ok a = true -> doc_ok b = true ->
  fst (schema_sig a) = fst (schema_sig b) ->
  map fst (flatten_doc a) = map fst (flatten_doc b) ->
  skeleton_doc a = skeleton_doc b.
Proof.
  intros a b Ha Hb Hsig Hty. rewrite !sig_fst_enc in Hsig.
  apply concat_enc_inj in Hsig.
  2:{ apply good_value; [rewrite bs_ok_VDoc; exact Ha|constructor]. }
  2:{ apply good_value; [rewrite bs_ok_VDoc; exact Hb|constructor]. }
  assert (E : stoks [] (VDoc a) ++ [] = stoks [] (VDoc b) ++ []) by (rewrite !app_nil_r; exact Hsig).
  assert (T : map fst (flatten (VDoc a)) ++ [] = map fst (flatten (VDoc b)) ++ []).
  { rewrite !app_nil_r, !flatten_VDoc. exact Hty. }
  destruct (parse_value (VDoc a) (VDoc b) [] [] [] [] [] _ _ (skeleton_VDoc a) (skeleton_VDoc b) E I I T) as (Es & _ & _).
  injection Es as Es. exact Es.
Qed.

(* ------------------------------------------------------------------ C08 without the assumption *)
Lemma distinguishable_aware : forall k (D : doc -> Prop),
  sig_aware k = true -> (forall d, D d -> doc_ok d = true) -> distinguishable k D.
Proof.
  intros k D Haw Hok a b Ha Hb Hty Hsig. apply sig_injective.
  - apply Hok. exact Ha.
  - apply Hok. exact Hb.
  - rewrite (Hsig Haw). reflexivity.
  - exact Hty.
Qed.

Section C8All.
Variable deflate : bytes -> bytes.
Variable inflate : bytes -> option bytes.
Hypothesis inflate_deflate : forall p, inflate (deflate p) = Some p.

Lemma c08_dynamic_all_schemas : forall k n docs nows,
  k = KDyn \/ k = KSDyn -> 1 <= n < 2 ^ 31 -> length nows = length docs ->
  Forall doc_wf docs -> no_type_only_change k docs ->
  let res := emit deflate k n docs nows in
  snd res = map (fun _ => BAdd ROk) docs ++ [BFlush true] /\
  exists d, decode_ftdc inflate None (emitted (snd (fst res))) = Some d /\ c08_ok n docs true d = true.
Proof.
  intros k n docs nows Hk Hn Hlen Hwf Hnt.
  apply (c08_dynamic deflate inflate inflate_deflate k n docs nows Hk Hn Hlen).
  split; [exact Hwf|]. split; [|exact Hnt].
  apply distinguishable_aware.
  - destruct Hk as [->| ->]; reflexivity.
  - intros d Hd. rewrite Forall_forall in Hwf. destruct (Hwf d Hd) as [Hok _]. exact Hok.
Qed.

End C8All.

(* ------------------------------------------------------------------ historical witness
   The framing before the repair: the checksum was fed the bare dotted paths of
   the metric leaves (components joined by a single '.', containers writing
   nothing), so moving a component boundary between neighbouring leaves left the
   byte string unchanged. *)
Fixpoint old_hash_keys (key : bytes) (v : value) : list bytes * Z :=
  match v with
  | VArr a =>
      (fix go (i : N) (l : list value) : list bytes * Z :=
         match l with
         | [] => ([], 0)
         | x :: r => let '(k1, n1) := old_hash_keys (key ++ dot :: dec_digits i) x in
                     let '(k2, n2) := go (i + 1)%N r in (k1 ++ k2, n1 + n2)
         end) 0%N a
  | VDoc d =>
      (fix go (l : list (bytes * value)) : list bytes * Z :=
         match l with
         | [] => ([], 0)
         | (k, x) :: r => let '(k1, n1) := old_hash_keys (key ++ dot :: k) x in
                          let '(k2, n2) := go r in (k1 ++ k2, n1 + n2)
         end) d
  | VBool _ | VDouble _ | VInt32 _ | VInt64 _ | VDateTime _ => ([key], 1)
  | VTimestamp _ _ => ([key], 2)
  | _ => ([], 0)
  end.

Fixpoint old_hash_keys_fields (d : doc) : list bytes * Z :=
  match d with
  | [] => ([], 0)
  | (k, x) :: r => let '(k1, n1) := old_hash_keys (dot :: k) x in
                   let '(k2, n2) := old_hash_keys_fields r in (k1 ++ k2, n1 + n2)
  end.

Definition old_schema_sig (d : doc) : bytes * Z :=
  let '(ks, n) := old_hash_keys_fields d in (concat ks, n).

(* {a: int64, b: {c: int64}} and {a: {b: int64}, c: int64}: both ".a.b.c" with two
   int64 metrics, yet different skeletons; the repaired signature separates them *)
Example old_sig_collision :
  let d1 : doc := [([97]%N, VInt64 1); ([98]%N, VDoc [([99]%N, VInt64 2)])] in
  let d2 : doc := [([97]%N, VDoc [([98]%N, VInt64 1)]); ([99]%N, VInt64 2)] in
  doc_ok d1 = true /\ doc_ok d2 = true /\
  old_schema_sig d1 = old_schema_sig d2 /\
  map fst (flatten_doc d1) = map fst (flatten_doc d2) /\
  skeleton_doc d1 <> skeleton_doc d2 /\
  fst (schema_sig d1) <> fst (schema_sig d2).
Proof.
  cbv zeta. split; [vm_compute; reflexivity|]. split; [vm_compute; reflexivity|].
  split; [vm_compute; reflexivity|]. split; [vm_compute; reflexivity|].
  split; vm_compute; intros E; discriminate E.
Qed.
