(* C11 — proofs.  Read side: the reader's chunk metadata against the scan
   [spec_metas] and its positional reading; the iterator views.  Emit side: the
   metadata slot of every collector kind as an invariant over arbitrary operation
   histories; erasure of the metadata history commutes with every operation. *)
From Coq Require Import ZArith NArith List Bool Lia Arith.
From FV.Model Require Import Bytes Bson Metrics Codec Collector Wf RoundTrip CollectorOk Views Instance MetaOk.
Import ListNotations.
Open Scope Z_scope.

(* ================================================================== read side *)
Section Read.
Variable inflate : bytes -> option bytes.
Variable cap : option N.

Definition with_meta (c : chunk) (m : option doc) : chunk :=
  mkChunk (ck_metrics c) (ck_npoints c) (ck_id c) m (ck_ref c).

(* the metadata handed to the chunk reader is stored and influences nothing else *)
Lemma read_chunk_gen_meta : forall m d,
  read_chunk_gen inflate cap m d =
  match read_chunk_gen inflate cap None d with
  | inl c => inl (with_meta c m)
  | inr e => inr e
  end.
Proof.
  intros m d. unfold read_chunk_gen.
  repeat match goal with
         | |- context [match ?x with _ => _ end] => destruct x; try reflexivity
         end.
Qed.

Lemma read_chunk_gen_ck_meta : forall m d c, read_chunk_gen inflate cap m d = inl c -> ck_meta c = m.
Proof.
  intros m d c H. rewrite read_chunk_gen_meta in H.
  destruct (read_chunk_gen inflate cap None d) as [c0|e]; [|discriminate H].
  injection H as <-. reflexivity.
Qed.

Lemma is_chunkd_eq : forall d, is_meta d = false -> is_chunkd d = is_num 1 (lookup k_type d).
Proof. intros d H. unfold is_chunkd. rewrite H. reflexivity. Qed.

Lemma is_chunkd_meta : forall d, is_meta d = true -> is_chunkd d = false.
Proof. intros d H. unfold is_chunkd. rewrite H. reflexivity. Qed.

(* one unfolding step of the reader in terms of the classification *)
Lemma read_chunks_gen_cons : forall cur d r,
  read_chunks_gen inflate cap cur (d :: r) =
  if is_meta d then read_chunks_gen inflate cap (Some d) r
  else if negb (is_chunkd d) then read_chunks_gen inflate cap cur r
  else match read_chunk_gen inflate cap cur d with
       | inl c => let '(cs, e) := read_chunks_gen inflate cap cur r in (c :: cs, e)
       | inr e => ([], Some e)
       end.
Proof.
  intros cur d r. cbn [read_chunks_gen]. fold (is_meta d).
  destruct (is_meta d) eqn:Em; [reflexivity|]. rewrite (is_chunkd_eq d Em). reflexivity.
Qed.

Lemma read_metas_gen : forall ds cur,
  map ck_meta (fst (read_chunks_gen inflate cap cur ds)) =
  firstn (length (fst (read_chunks_gen inflate cap cur ds))) (spec_metas cur ds).
Proof.
  induction ds as [|d r IH]; intros cur; [reflexivity|].
  rewrite read_chunks_gen_cons. cbn [spec_metas].
  destruct (is_meta d) eqn:Em; [apply IH|].
  destruct (is_chunkd d) eqn:Ec; cbn [negb]; [|apply IH].
  destruct (read_chunk_gen inflate cap cur d) as [c|e] eqn:Er; [|reflexivity].
  specialize (IH cur). destruct (read_chunks_gen inflate cap cur r) as [cs e'].
  cbn [fst map length firstn] in *. rewrite (read_chunk_gen_ck_meta _ _ _ Er). f_equal. exact IH.
Qed.

(* the delivered chunks are the readings of the first chunk documents, each with
   the metadata it reports *)
Lemma read_docs_gen : forall ds cur,
  Forall2 (fun c d => read_chunk_gen inflate cap (ck_meta c) d = inl c)
          (fst (read_chunks_gen inflate cap cur ds))
          (firstn (length (fst (read_chunks_gen inflate cap cur ds))) (chunk_docs ds)).
Proof.
  induction ds as [|d r IH]; intros cur; [constructor|].
  rewrite read_chunks_gen_cons. unfold chunk_docs. cbn [filter]. fold (chunk_docs r).
  destruct (is_meta d) eqn:Em; [rewrite (is_chunkd_meta d Em); apply IH|].
  destruct (is_chunkd d) eqn:Ec; cbn [negb]; [|apply IH].
  destruct (read_chunk_gen inflate cap cur d) as [c|e] eqn:Er; [|constructor].
  specialize (IH cur). destruct (read_chunks_gen inflate cap cur r) as [cs e'].
  cbn [fst length firstn] in *. constructor; [|exact IH].
  rewrite (read_chunk_gen_ck_meta _ _ _ Er). exact Er.
Qed.

(* without an error every chunk document is delivered *)
Lemma read_all_gen : forall ds cur, snd (read_chunks_gen inflate cap cur ds) = None ->
  length (fst (read_chunks_gen inflate cap cur ds)) = chunk_count ds.
Proof.
  induction ds as [|d r IH]; intros cur; [reflexivity|].
  rewrite read_chunks_gen_cons. unfold chunk_count, chunk_docs. cbn [filter]. fold (chunk_docs r).
  destruct (is_meta d) eqn:Em; [rewrite (is_chunkd_meta d Em); apply IH|].
  destruct (is_chunkd d) eqn:Ec; cbn [negb]; [|apply IH].
  destruct (read_chunk_gen inflate cap cur d) as [c|e] eqn:Er; [|discriminate].
  specialize (IH cur). destruct (read_chunks_gen inflate cap cur r) as [cs e'].
  cbn [fst snd length] in *. intros H. rewrite (IH H). reflexivity.
Qed.

(* with an error, delivery stops before the end *)
Lemma read_le_gen : forall ds cur,
  (length (fst (read_chunks_gen inflate cap cur ds)) <= chunk_count ds)%nat.
Proof.
  induction ds as [|d r IH]; intros cur; [apply Nat.le_refl|].
  rewrite read_chunks_gen_cons. unfold chunk_count, chunk_docs. cbn [filter]. fold (chunk_docs r).
  destruct (is_meta d) eqn:Em; [rewrite (is_chunkd_meta d Em); apply IH|].
  destruct (is_chunkd d) eqn:Ec; cbn [negb]; [|apply IH].
  destruct (read_chunk_gen inflate cap cur d) as [c|e] eqn:Er; [|cbn [fst length]; lia].
  specialize (IH cur). destruct (read_chunks_gen inflate cap cur r) as [cs e'].
  cbn [fst length] in *. unfold chunk_count in IH. lia.
Qed.

End Read.

(* ------------------------------------------------------------------ the scan by position *)
Lemma find_app_l : forall (A : Type) (f : A -> bool) (l r : list A),
  find f (l ++ r) = match find f l with Some x => Some x | None => find f r end.
Proof.
  intros A f l r. induction l as [|a l IH]; [reflexivity|].
  cbn [app find]. destruct (f a); [reflexivity|exact IH].
Qed.

Definition or_else (a b : option doc) : option doc := match a with Some x => Some x | None => b end.

Lemma last_meta_cons : forall d pre, last_meta (d :: pre) = or_else (last_meta pre) (if is_meta d then Some d else None).
Proof.
  intros d pre. unfold last_meta. cbn [rev]. rewrite find_app_l. cbn [find].
  destruct (find is_meta (rev pre)); reflexivity.
Qed.

Lemma spec_metas_at_gen : forall pre cur d post, is_chunkd d = true ->
  nth_error (spec_metas cur (pre ++ d :: post)) (chunk_count pre) = Some (or_else (last_meta pre) cur).
Proof.
  induction pre as [|a pre IH]; intros cur d post Hd.
  - cbn [app spec_metas]. destruct (is_meta d) eqn:Em; [rewrite (is_chunkd_meta d Em) in Hd; discriminate Hd|].
    rewrite Hd. reflexivity.
  - cbn [app spec_metas]. rewrite last_meta_cons. unfold chunk_count, chunk_docs. cbn [filter]. fold (chunk_docs pre).
    destruct (is_meta a) eqn:Em.
    + rewrite (is_chunkd_meta a Em). fold (chunk_count pre). rewrite (IH (Some a) d post Hd).
      destruct (last_meta pre); reflexivity.
    + destruct (is_chunkd a) eqn:Ec.
      * cbn [length nth_error]. fold (chunk_count pre). rewrite (IH cur d post Hd).
        destruct (last_meta pre); reflexivity.
      * fold (chunk_count pre). rewrite (IH cur d post Hd). destruct (last_meta pre); reflexivity.
Qed.

Lemma spec_metas_at : forall pre d post, is_chunkd d = true ->
  nth_error (spec_metas None (pre ++ d :: post)) (chunk_count pre) = Some (last_meta pre).
Proof.
  intros pre d post Hd. rewrite (spec_metas_at_gen pre None d post Hd). destruct (last_meta pre); reflexivity.
Qed.

Lemma last_meta_none : forall pre, last_meta pre = None <-> Forall (fun d => is_meta d = false) pre.
Proof.
  induction pre as [|d pre IH].
  - split; [constructor|reflexivity].
  - rewrite last_meta_cons. split.
    + intros H. destruct (last_meta pre) eqn:El; [discriminate H|]. cbn [or_else] in H.
      destruct (is_meta d) eqn:Em; [discriminate H|]. constructor; [exact Em|]. apply IH. reflexivity.
    + intros H. inversion H as [|x y Hd Hr]; subst. rewrite (proj2 IH Hr), Hd. reflexivity.
Qed.

Lemma last_meta_some : forall pre m, last_meta pre = Some m -> In m pre /\ is_meta m = true.
Proof.
  intros pre m H. unfold last_meta in H. apply find_some in H. destruct H as [Hin Hm].
  split; [apply in_rev; exact Hin|exact Hm].
Qed.

Lemma spec_metas_length : forall ds cur, length (spec_metas cur ds) = chunk_count ds.
Proof.
  induction ds as [|d r IH]; intros cur; [reflexivity|].
  cbn [spec_metas]. unfold chunk_count, chunk_docs. cbn [filter]. fold (chunk_docs r).
  destruct (is_meta d) eqn:Em; [rewrite (is_chunkd_meta d Em); apply IH|].
  destruct (is_chunkd d); [cbn [length]; f_equal; apply IH|apply IH].
Qed.

(* ------------------------------------------------------------------ the iterator views *)
Lemma tag_items_snd : forall (A : Type) (f : chunk -> list A) cs, map snd (tag_items f cs) = flat_map f cs.
Proof.
  intros A f cs. unfold tag_items. induction cs as [|c r IH]; [reflexivity|].
  cbn [flat_map]. rewrite map_app, IH, map_map. cbn [snd]. rewrite map_id. reflexivity.
Qed.

Lemma map_const_repeat : forall (A B : Type) (x : B) (l : list A), map (fun _ => x) l = repeat x (length l).
Proof. intros A B x l. induction l as [|a r IH]; [reflexivity|]. cbn [map length repeat]. rewrite IH. reflexivity. Qed.

Lemma tag_items_fst : forall (A : Type) (f : chunk -> list A) cs,
  map fst (tag_items f cs) = spread (map (fun c => length (f c)) cs) (map ck_meta cs).
Proof.
  intros A f cs. unfold tag_items, spread. induction cs as [|c r IH]; [reflexivity|].
  cbn [flat_map map combine fst snd]. rewrite map_app, IH, map_map. cbn [fst].
  rewrite map_const_repeat. reflexivity.
Qed.

Lemma flat_docs_length : forall c, length (flat_docs c) = Z.to_nat (ck_npoints c).
Proof. intros c. unfold flat_docs. rewrite map_length, seq_length. reflexivity. Qed.

Lemma structured_docs_length : forall c, length (structured_docs c) = Z.to_nat (ck_npoints c).
Proof. intros c. unfold structured_docs. rewrite map_length, seq_length. reflexivity. Qed.

Definition npoints_nat (c : chunk) : nat := Z.to_nat (ck_npoints c).

Lemma flat_items_fst : forall cs, map fst (flat_items cs) = spread (map npoints_nat cs) (map ck_meta cs).
Proof.
  intros cs. unfold flat_items. rewrite tag_items_fst. f_equal. apply map_ext. exact flat_docs_length.
Qed.

Lemma structured_items_fst : forall cs, map fst (structured_items cs) = spread (map npoints_nat cs) (map ck_meta cs).
Proof.
  intros cs. unfold structured_items. rewrite tag_items_fst. f_equal. apply map_ext. exact structured_docs_length.
Qed.

Lemma series_items_fst : forall cs, map fst (series_items cs) = map ck_meta cs.
Proof.
  intros cs. unfold series_items, tag_items. induction cs as [|c r IH]; [reflexivity|].
  cbn [flat_map map app fst] in *. rewrite IH. reflexivity.
Qed.

Lemma series_items_snd : forall cs, map snd (series_items cs) = map series_doc cs.
Proof.
  intros cs. unfold series_items. rewrite tag_items_snd. induction cs as [|c r IH]; [reflexivity|].
  cbn [flat_map map app] in *. rewrite IH. reflexivity.
Qed.

Lemma matrix_items_fst : forall cs,
  map fst (matrix_items cs) = firstn (length (matrix_items cs)) (map ck_meta cs).
Proof.
  induction cs as [|c r IH]; [reflexivity|].
  cbn [matrix_items]. destruct (matrix_doc c); [|reflexivity].
  cbn [map fst length firstn]. rewrite IH. reflexivity.
Qed.

Lemma matrix_items_snd : forall cs,
  map (fun x => Some (snd x)) (matrix_items cs) = firstn (length (matrix_items cs)) (map matrix_doc cs).
Proof.
  induction cs as [|c r IH]; [reflexivity|].
  cbn [matrix_items]. destruct (matrix_doc c) eqn:E; [|reflexivity].
  cbn [map snd length firstn]. rewrite IH, E. reflexivity.
Qed.

Lemma matrix_items_le : forall cs, (length (matrix_items cs) <= length cs)%nat.
Proof.
  induction cs as [|c r IH]; [apply Nat.le_refl|].
  cbn [matrix_items]. destruct (matrix_doc c); cbn [length]; lia.
Qed.

Lemma firstn_firstn_le : forall (A : Type) (l : list A) i j, (i <= j)%nat -> firstn i (firstn j l) = firstn i l.
Proof. intros A l i j H. rewrite firstn_firstn. rewrite Nat.min_l by exact H. reflexivity. Qed.

Lemma nth_error_firstn_lt : forall (A : Type) (l : list A) n i, (i < n)%nat ->
  nth_error (firstn n l) i = nth_error l i.
Proof.
  intros A l. induction l as [|a l IH]; intros n i H.
  - rewrite firstn_nil. reflexivity.
  - destruct n as [|n]; [lia|]. destruct i as [|i]; [reflexivity|]. cbn [firstn nth_error]. apply IH. lia.
Qed.

Lemma Forall2_nth_error : forall (A B : Type) (R : A -> B -> Prop) l1 l2, Forall2 R l1 l2 ->
  forall i a b, nth_error l1 i = Some a -> nth_error l2 i = Some b -> R a b.
Proof.
  intros A B R l1 l2 H. induction H as [|x y l1 l2 Hxy H IH]; intros i a b Ha Hb.
  - destruct i; discriminate Ha.
  - destruct i as [|i]; cbn [nth_error] in Ha, Hb.
    + injection Ha as <-. injection Hb as <-. exact Hxy.
    + apply (IH i a b Ha Hb).
Qed.

Section Items.
Variable inflate : bytes -> option bytes.

Theorem meta_read : forall ds,
  let cs := fst (read_chunks inflate None ds) in
  map ck_meta cs = firstn (length cs) (spec_metas None ds) /\
  Forall2 (fun c d => read_chunk inflate (ck_meta c) d = inl c) cs (firstn (length cs) (chunk_docs ds)) /\
  (length cs <= chunk_count ds)%nat /\
  (snd (read_chunks inflate None ds) = None -> length cs = chunk_count ds).
Proof.
  intros ds cs. unfold cs, read_chunks, read_chunk. split; [apply read_metas_gen|].
  split; [apply read_docs_gen|]. split; [apply read_le_gen|apply read_all_gen].
Qed.

Theorem meta_read_at : forall pre d post,
  is_chunkd d = true ->
  nth_error (spec_metas None (pre ++ d :: post)) (chunk_count pre) = Some (last_meta pre) /\
  (last_meta pre = None <-> Forall (fun x => is_meta x = false) pre) /\
  (forall m, last_meta pre = Some m -> In m pre /\ is_meta m = true) /\
  forall c, nth_error (fst (read_chunks inflate None (pre ++ d :: post))) (chunk_count pre) = Some c ->
            ck_meta c = last_meta pre /\ read_chunk inflate (last_meta pre) d = inl c.
Proof.
  intros pre d post Hd. split; [apply spec_metas_at; exact Hd|].
  split; [apply last_meta_none|]. split; [apply last_meta_some|].
  intros c Hc.
  destruct (meta_read (pre ++ d :: post)) as (Hm & Hd2 & _ & _).
  set (cs := fst (read_chunks inflate None (pre ++ d :: post))) in *.
  assert (Hlt : (chunk_count pre < length cs)%nat) by (apply nth_error_Some; rewrite Hc; discriminate).
  assert (Hck : ck_meta c = last_meta pre).
  { assert (H1 : nth_error (map ck_meta cs) (chunk_count pre) = Some (ck_meta c)) by (apply map_nth_error; exact Hc).
    rewrite Hm in H1. rewrite nth_error_firstn_lt in H1 by exact Hlt.
    rewrite (spec_metas_at pre d post Hd) in H1. injection H1 as H1. symmetry. exact H1. }
  split; [exact Hck|].
  (* the chunk document at that index of [chunk_docs] is d *)
  assert (Hnd : nth_error (firstn (length cs) (chunk_docs (pre ++ d :: post))) (chunk_count pre) = Some d).
  { rewrite nth_error_firstn_lt by exact Hlt.
    unfold chunk_docs, chunk_count, chunk_docs. rewrite filter_app. cbn [filter]. rewrite Hd.
    rewrite nth_error_app2 by apply Nat.le_refl. rewrite Nat.sub_diag. reflexivity. }
  rewrite <- Hck. exact (Forall2_nth_error _ _ _ _ _ Hd2 _ _ _ Hc Hnd).
Qed.

(* the per-item metadata of the four views *)
Theorem meta_items : forall ds,
  let cs := fst (read_chunks inflate None ds) in
  let ms := firstn (length cs) (spec_metas None ds) in
  map fst (structured_items cs) = spread (map npoints_nat cs) ms /\
  map snd (structured_items cs) = flat_map structured_docs cs /\
  map fst (flat_items cs) = spread (map npoints_nat cs) ms /\
  map snd (flat_items cs) = flat_map flat_docs cs /\
  map fst (series_items cs) = ms /\
  map snd (series_items cs) = map series_doc cs /\
  map fst (matrix_items cs) = firstn (length (matrix_items cs)) ms /\
  map (fun x => Some (snd x)) (matrix_items cs) = firstn (length (matrix_items cs)) (map matrix_doc cs).
Proof.
  intros ds cs ms.
  assert (Hm : map ck_meta cs = ms) by (apply (meta_read ds)).
  repeat split.
  - rewrite structured_items_fst, Hm. reflexivity.
  - apply tag_items_snd.
  - rewrite flat_items_fst, Hm. reflexivity.
  - apply tag_items_snd.
  - rewrite series_items_fst. exact Hm.
  - apply series_items_snd.
  - rewrite matrix_items_fst, Hm. reflexivity.
  - apply matrix_items_snd.
Qed.

End Items.

(* ================================================================== emit side: the metadata slot *)
(* ---- list facts ---- *)
Definition hd_tl {A : Type} (P0 P : A -> Prop) (l : list A) : Prop :=
  match l with [] => False | x :: r => P0 x /\ Forall P r end.

Lemma Forall_removelast : forall (A : Type) (P : A -> Prop) l, Forall P l -> Forall P (removelast l).
Proof.
  intros A P l H. induction H as [|x l Hx H IH]; [constructor|].
  destruct l as [|y l]; [constructor|]. change (removelast (x :: y :: l)) with (x :: removelast (y :: l)).
  constructor; assumption.
Qed.

Lemma Forall_last : forall (A : Type) (P : A -> Prop) l d, Forall P l -> P d -> P (last l d).
Proof.
  intros A P l d H Hd. induction H as [|x l Hx H IH]; [exact Hd|].
  destruct l as [|y l]; [exact Hx|]. exact IH.
Qed.

Lemma Forall_last_ne : forall (A : Type) (P : A -> Prop) l a d, Forall P (a :: l) -> P (last (a :: l) d).
Proof.
  intros A P l. induction l as [|b l IH]; intros a d H; inversion H as [|x y Ha Hl]; subst; [exact Ha|].
  change (last (a :: b :: l) d) with (last (b :: l) d). apply IH. exact Hl.
Qed.

Lemma Forall_snoc : forall (A : Type) (P : A -> Prop) l x, Forall P l -> P x -> Forall P (l ++ [x]).
Proof. intros A P l x Hl Hx. apply Forall_app. split; [exact Hl|constructor; [exact Hx|constructor]]. Qed.

Lemma Forall_upd_last : forall (A : Type) (P : A -> Prop) l d x,
  Forall P l -> P d -> (P (last l d) -> P x) -> Forall P (removelast l ++ [x]).
Proof.
  intros A P l d x Hl Hd Hx. apply Forall_snoc; [apply Forall_removelast; exact Hl|].
  apply Hx. apply Forall_last; assumption.
Qed.

Lemma hd_tl_snoc : forall (A : Type) (P0 P : A -> Prop) l x, hd_tl P0 P l -> P x -> hd_tl P0 P (l ++ [x]).
Proof.
  intros A P0 P [|a l] x H Hx; [destruct H|]. destruct H as [H0 Hr]. cbn [app hd_tl].
  split; [exact H0|apply Forall_snoc; assumption].
Qed.

Lemma hd_tl_upd_last : forall (A : Type) (P0 P : A -> Prop) l d x,
  hd_tl P0 P l -> (P0 (last l d) -> P0 x) -> (P (last l d) -> P x) -> hd_tl P0 P (removelast l ++ [x]).
Proof.
  intros A P0 P [|a l] d x H H0x Hx; [destruct H|]. destruct H as [H0 Hr].
  destruct l as [|b l].
  - cbn [removelast app hd_tl last] in *. split; [apply H0x; exact H0|constructor].
  - change (removelast (a :: b :: l)) with (a :: removelast (b :: l)).
    change (last (a :: b :: l) d) with (last (b :: l) d) in *.
    cbn [app hd_tl]. split; [exact H0|].
    apply Forall_snoc; [apply Forall_removelast; exact Hr|].
    apply Hx. apply Forall_last_ne. exact Hr.
Qed.

Lemma skipn_length_app : forall (A : Type) (l r : list A), skipn (length l) (l ++ r) = r.
Proof. intros A l r. induction l as [|a l IH]; [reflexivity|exact IH]. Qed.

(* ---- the base collector ---- *)
Lemma bc_add_meta : forall b d now, bc_meta (fst (bc_add b d now)) = bc_meta b.
Proof.
  intros b d now. unfold bc_add. destruct (bc_ref b); [|reflexivity]. cbv zeta.
  repeat match goal with |- context [if ?x then _ else _] => destruct x; try reflexivity end.
Qed.

Lemma bc_new_meta : forall n, bc_meta (bc_new n) = None.
Proof. reflexivity. Qed.

Definition nometa (c : bcoll) : Prop := bc_meta c = None.
Definition batch_nometa (b : batch) : Prop := Forall nometa (ba_chunks b).
Definition batch_minv (b : batch) (slot : option doc) : Prop :=
  hd_tl (fun c => bc_meta c = slot) nometa (ba_chunks b).
Definition dyn_minv (x : dyn) (slot : option doc) : Prop :=
  hd_tl (fun b => batch_minv b slot) batch_nometa (dy_chunks x).
Definition stream_minv (s : scoll) (slot : option doc) : Prop :=
  exists b, sc_inner s = IB b /\ bc_meta b = slot.

Definition minv (k : kind) (c : coll) (slot : option doc) : Prop :=
  match k, c with
  | KBase, CBase b => bc_meta b = slot
  | KBatch, CBatch b => batch_minv b slot
  | KDyn, CDyn x => dyn_minv x slot
  | KStream, CStream s => stream_minv s slot
  | KSDyn, CSDyn s => stream_minv (sd_s s) slot
  | _, _ => False
  end.

Definition recs_ok (k : kind) (slot : option doc) (recs : list wrec) : Prop :=
  Forall (fun rc => outp_ok k slot (rec_out rc)) recs.

(* ---- batch: chunk lists ---- *)
Lemma ba_add_chunks : forall b d now,
  ba_chunks (fst (ba_add b d now)) =
  let last_c := last (ba_chunks b) (bc_new (ba_max b)) in
  if ba_max b <=? snd (bc_info last_c)
  then ba_chunks b ++ [fst (bc_add (bc_new (ba_max b)) d now)]
  else removelast (ba_chunks b) ++ [fst (bc_add last_c d now)].
Proof.
  intros b d now. unfold ba_add. cbv zeta.
  destruct (ba_max b <=? snd (bc_info (last (ba_chunks b) (bc_new (ba_max b))))).
  - destruct (bc_add (bc_new (ba_max b)) d now). reflexivity.
  - destruct (bc_add (last (ba_chunks b) (bc_new (ba_max b))) d now). reflexivity.
Qed.

Lemma ba_add_minv : forall b d now slot, batch_minv b slot -> batch_minv (fst (ba_add b d now)) slot.
Proof.
  intros b d now slot H. unfold batch_minv in *. rewrite ba_add_chunks. cbv zeta.
  destruct (ba_max b <=? snd (bc_info (last (ba_chunks b) (bc_new (ba_max b))))).
  - apply hd_tl_snoc; [exact H|]. unfold nometa. rewrite bc_add_meta. reflexivity.
  - apply (hd_tl_upd_last _ _ _ _ (bc_new (ba_max b))); [exact H| |]; unfold nometa; rewrite bc_add_meta; intros E; exact E.
Qed.

Lemma ba_add_nometa : forall b d now, batch_nometa b -> batch_nometa (fst (ba_add b d now)).
Proof.
  intros b d now H. unfold batch_nometa in *. rewrite ba_add_chunks. cbv zeta.
  destruct (ba_max b <=? snd (bc_info (last (ba_chunks b) (bc_new (ba_max b))))).
  - apply Forall_snoc; [exact H|]. unfold nometa. rewrite bc_add_meta. reflexivity.
  - apply (Forall_upd_last _ nometa _ (bc_new (ba_max b))); [exact H|reflexivity|].
    unfold nometa. rewrite bc_add_meta. intros E; exact E.
Qed.

Lemma ba_new_minv : forall n, batch_minv (ba_new n) None.
Proof. intros n. split; [reflexivity|constructor]. Qed.

Lemma ba_new_nometa : forall n, batch_nometa (ba_new n).
Proof. intros n. constructor; [reflexivity|constructor]. Qed.

Lemma ba_set_meta_minv : forall b m slot, batch_minv b slot -> batch_minv (ba_set_meta b m) m.
Proof.
  intros b m slot H. unfold batch_minv, ba_set_meta in *. destruct (ba_chunks b) as [|c r]; [destruct H|].
  cbn [ba_chunks hd_tl] in *. split; [reflexivity|apply H].
Qed.

(* ---- dyn: batch lists ---- *)
Lemma dy_add_chunks : forall x d now,
  dy_chunks (fst (dy_add x d now)) =
  match dy_hash x with
  | None => match dy_chunks x with
            | b0 :: r => fst (ba_add b0 d now) :: r
            | [] => []
            end
  | Some h =>
      if bytes_eqb h (fst (schema_sig d))
      then removelast (dy_chunks x) ++ [fst (ba_add (last (dy_chunks x) (ba_new (dy_max x))) d now)]
      else dy_chunks x ++ [fst (ba_add (ba_new (dy_max x)) d now)]
  end.
Proof.
  intros x d now. unfold dy_add. cbv zeta. destruct (dy_hash x) as [h|].
  - destruct (bytes_eqb h (fst (schema_sig d))).
    + destruct (ba_add (last (dy_chunks x) (ba_new (dy_max x))) d now). reflexivity.
    + destruct (ba_add (ba_new (dy_max x)) d now). reflexivity.
  - destruct (dy_chunks x) as [|b0 r] eqn:E; [cbn [fst]; exact E|]. destruct (ba_add b0 d now). reflexivity.
Qed.

Lemma dy_add_minv : forall x d now slot, dyn_minv x slot -> dyn_minv (fst (dy_add x d now)) slot.
Proof.
  intros x d now slot H. unfold dyn_minv in *. rewrite dy_add_chunks.
  destruct (dy_hash x) as [h|].
  - destruct (bytes_eqb h (fst (schema_sig d))).
    + apply (hd_tl_upd_last _ _ _ _ (ba_new (dy_max x))); [exact H|apply ba_add_minv|apply ba_add_nometa].
    + apply hd_tl_snoc; [exact H|]. apply ba_add_nometa. apply ba_new_nometa.
  - destruct (dy_chunks x) as [|b0 r]; [destruct H|]. destruct H as [H0 Hr].
    split; [apply ba_add_minv; exact H0|exact Hr].
Qed.

Lemma dy_new_minv : forall n, dyn_minv (dy_new n) None.
Proof. intros n. split; [apply ba_new_minv|constructor]. Qed.

Lemma dy_set_meta_minv : forall x m slot, dyn_minv x slot -> dyn_minv (dy_set_meta x m) m.
Proof.
  intros x m slot H. unfold dyn_minv, dy_set_meta in *. destruct (dy_chunks x) as [|b r]; [destruct H|].
  cbn [dy_chunks hd_tl] in *. split; [apply (ba_set_meta_minv b m slot); apply H|apply H].
Qed.

Section Emit.
Variable deflate : bytes -> bytes.

(* ---- Resolve ---- *)
Lemma bc_resolve_shape : forall b ds, bc_resolve deflate b = Some ds ->
  exists data, ds = opt_meta (bc_meta b) (bc_started b) ++ [chunk_doc (bc_started b) data].
Proof.
  intros b ds H. unfold bc_resolve in H. destruct (bc_ref b) as [ref|]; [|discriminate H].
  injection H as <-. eexists. unfold opt_meta. reflexivity.
Qed.

Lemma bc_resolve_ok : forall k b ds, bc_resolve deflate b = Some ds -> out_ok k (bc_meta b) ds.
Proof.
  intros k b ds H. destruct (bc_resolve_shape b ds H) as [data ->].
  exists (bc_started b), data, []. split; [reflexivity|]. split; [constructor|reflexivity].
Qed.

Definition rstep (acc : option (list doc)) (c : bcoll) : option (list doc) :=
  match acc, bc_resolve deflate c with Some a, Some x => Some (a ++ x) | _, _ => None end.

Lemma fold_rstep_none : forall l, fold_left rstep l None = None.
Proof. induction l as [|c l IH]; [reflexivity|exact IH]. Qed.

Lemma fold_rstep_nometa : forall l acc ds, Forall nometa l -> fold_left rstep l (Some acc) = Some ds ->
  exists rest, ds = acc ++ rest /\ Forall is_chunk_doc rest.
Proof.
  induction l as [|c l IH]; intros acc ds Hl H.
  - cbn [fold_left] in H. injection H as <-. exists []. split; [symmetry; apply app_nil_r|constructor].
  - inversion Hl as [|x y Hc Hr]; subst. cbn [fold_left] in H. unfold rstep at 2 in H.
    destruct (bc_resolve deflate c) as [x|] eqn:Ex; [|rewrite fold_rstep_none in H; discriminate H].
    destruct (bc_resolve_shape c x Ex) as [data ->]. unfold nometa in Hc. rewrite Hc in H. cbn [opt_meta app] in H.
    destruct (IH _ _ Hr H) as [rest [-> Hrest]].
    exists (chunk_doc (bc_started c) data :: rest). split; [rewrite <- app_assoc; reflexivity|].
    constructor; [eexists; eexists; reflexivity|exact Hrest].
Qed.

Lemma ba_resolve_nometa : forall b ds, batch_nometa b -> ba_resolve deflate b = Some ds -> Forall is_chunk_doc ds.
Proof.
  intros b ds Hb H. change (ba_resolve deflate b) with (fold_left rstep (ba_chunks b) (Some [])) in H.
  destruct (fold_rstep_nometa _ _ _ Hb H) as [rest [-> Hrest]]. exact Hrest.
Qed.

Lemma ba_resolve_shape : forall b slot ds, batch_minv b slot -> ba_resolve deflate b = Some ds ->
  exists s data rest, ds = opt_meta slot s ++ chunk_doc s data :: rest /\ Forall is_chunk_doc rest.
Proof.
  intros b slot ds Hb H. change (ba_resolve deflate b) with (fold_left rstep (ba_chunks b) (Some [])) in H.
  unfold batch_minv in Hb. destruct (ba_chunks b) as [|c0 r]; [destruct Hb|]. destruct Hb as [H0 Hr].
  cbn [fold_left] in H. unfold rstep at 2 in H.
  destruct (bc_resolve deflate c0) as [x|] eqn:Ex; [|rewrite fold_rstep_none in H; discriminate H].
  destruct (bc_resolve_shape c0 x Ex) as [data ->]. rewrite H0 in H. cbn [app] in H.
  destruct (fold_rstep_nometa _ _ _ Hr H) as [rest [-> Hrest]].
  exists (bc_started c0), data, rest. split; [rewrite <- app_assoc; reflexivity|exact Hrest].
Qed.

Definition dstep (acc : option (list doc)) (b : batch) : option (list doc) :=
  match acc, ba_resolve deflate b with Some a, Some x => Some (a ++ x) | _, _ => None end.

Lemma fold_dstep_none : forall l, fold_left dstep l None = None.
Proof. induction l as [|c l IH]; [reflexivity|exact IH]. Qed.

Lemma fold_dstep_nometa : forall l acc ds, Forall batch_nometa l -> fold_left dstep l (Some acc) = Some ds ->
  exists rest, ds = acc ++ rest /\ Forall is_chunk_doc rest.
Proof.
  induction l as [|b l IH]; intros acc ds Hl H.
  - cbn [fold_left] in H. injection H as <-. exists []. split; [symmetry; apply app_nil_r|constructor].
  - inversion Hl as [|x y Hb Hr]; subst. cbn [fold_left] in H. unfold dstep at 2 in H.
    destruct (ba_resolve deflate b) as [x|] eqn:Ex; [|rewrite fold_dstep_none in H; discriminate H].
    destruct (IH _ _ Hr H) as [rest [-> Hrest]].
    exists (x ++ rest). split; [rewrite <- app_assoc; reflexivity|].
    apply Forall_app. split; [apply (ba_resolve_nometa b x Hb Ex)|exact Hrest].
Qed.

Lemma dy_resolve_shape : forall x slot ds, dyn_minv x slot -> dy_resolve deflate x = Some ds ->
  exists s data rest, ds = opt_meta slot s ++ chunk_doc s data :: rest /\ Forall is_chunk_doc rest.
Proof.
  intros x slot ds Hx H. change (dy_resolve deflate x) with (fold_left dstep (dy_chunks x) (Some [])) in H.
  unfold dyn_minv in Hx. destruct (dy_chunks x) as [|b0 r]; [destruct Hx|]. destruct Hx as [H0 Hr].
  cbn [fold_left] in H. unfold dstep at 2 in H.
  destruct (ba_resolve deflate b0) as [y|] eqn:Ey; [|rewrite fold_dstep_none in H; discriminate H].
  destruct (ba_resolve_shape b0 slot y H0 Ey) as (s & data & rest0 & -> & Hrest0). cbn [app] in H.
  destruct (fold_dstep_nometa _ _ _ Hr H) as [rest [-> Hrest]].
  exists s, data, (rest0 ++ rest). split.
  - rewrite <- app_assoc. reflexivity.
  - apply Forall_app. split; assumption.
Qed.

Lemma in_resolve_ok : forall k s slot p, stream_minv s slot -> in_resolve deflate (sc_inner s) = Some p ->
  outp_ok k slot p.
Proof.
  intros k s slot p (b & Hi & Hm) H. rewrite Hi in H. cbn [in_resolve] in H.
  destruct (bc_resolve deflate b) as [x|] eqn:Ex; [|discriminate H]. injection H as <-.
  cbn [outp_ok]. rewrite <- Hm. apply bc_resolve_ok. exact Ex.
Qed.

Lemma resolve_ok : forall k c slot p, minv k c slot -> c_resolve deflate c = Some p -> outp_ok k slot p.
Proof.
  intros k c slot p Hinv H. destruct k, c; cbn [minv] in Hinv; try contradiction; cbn [c_resolve] in H.
  - destruct (bc_resolve deflate b) as [x|] eqn:Ex; [|discriminate H]. injection H as <-.
    cbn [outp_ok]. rewrite <- Hinv. apply bc_resolve_ok. exact Ex.
  - destruct (ba_resolve deflate b) as [x|] eqn:Ex; [|discriminate H]. injection H as <-.
    destruct (ba_resolve_shape b slot x Hinv Ex) as (s & data & rest & -> & Hrest).
    exists s, data, rest. repeat split; [exact Hrest|discriminate].
  - destruct (dy_resolve deflate d) as [x|] eqn:Ex; [|discriminate H]. injection H as <-.
    destruct (dy_resolve_shape d slot x Hinv Ex) as (s & data & rest & -> & Hrest).
    exists s, data, rest. repeat split; [exact Hrest|discriminate].
  - apply (in_resolve_ok KStream s slot p Hinv H).
  - apply (in_resolve_ok KSDyn (sd_s s) slot p Hinv H).
Qed.

End Emit.

(* ------------------------------------------------------------------ writer, flush, streaming Add *)
Lemma w_write_spec : forall w p w' ok, w_write w p = (w', ok) ->
  (ok = true /\ w_log w' = w_log w ++ [WFull p]) \/
  (ok = false /\ (w_log w' = w_log w \/ exists n, w_log w' = w_log w ++ [WPart n p])).
Proof.
  intros w p w' ok H. unfold w_write in H.
  destruct (w_faults w) as [|[| |n] r]; injection H as <- <-; cbn [w_log].
  - left. split; reflexivity.
  - left. split; reflexivity.
  - right. split; [reflexivity|left; reflexivity].
  - right. split; [reflexivity|right; exists n; reflexivity].
Qed.

Lemma flush_with_spec : forall (A : Type) (info : A -> Z * Z) (resolve : A -> option outp) (rst : A -> A) c w c' w' ok,
  flush_with info resolve rst c w = (c', w', ok) ->
  exists recs, w_log w' = w_log w ++ recs /\
    ((recs = [] /\ c' = c) \/
     (exists p, resolve c = Some p /\ recs = [WFull p] /\ c' = rst c) \/
     (exists p n, resolve c = Some p /\ recs = [WPart n p] /\ c' = c)).
Proof.
  intros A info resolve rst c w c' w' ok H. unfold flush_with in H.
  destruct (snd (info c) =? 0).
  { injection H as <- <- <-. exists []. split; [symmetry; apply app_nil_r|left; split; reflexivity]. }
  destruct (resolve c) as [p|] eqn:Er.
  2:{ injection H as <- <- <-. exists []. split; [symmetry; apply app_nil_r|left; split; reflexivity]. }
  destruct (w_write w p) as [w1 ok1] eqn:Ew.
  destruct (w_write_spec w p w1 ok1 Ew) as [[-> Hlog]|[-> [Hlog|[n Hlog]]]]; injection H as <- <- <-.
  - exists [WFull p]. split; [exact Hlog|]. right. left. exists p. repeat split.
  - exists []. split; [rewrite app_nil_r; exact Hlog|left; split; reflexivity].
  - exists [WPart n p]. split; [exact Hlog|]. right. right. exists p, n. repeat split.
Qed.

Lemma flush_minv_gen : forall (A : Type) (info : A -> Z * Z) (resolve : A -> option outp) (rst : A -> A) c w c' w' ok k slot,
  flush_with info resolve rst c w = (c', w', ok) ->
  (forall p, resolve c = Some p -> outp_ok k slot p) ->
  exists recs, w_log w' = w_log w ++ recs /\ recs_ok k slot recs /\
    ((c' = c /\ existsb rec_full recs = false) \/ (c' = rst c /\ existsb rec_full recs = true)).
Proof.
  intros A info resolve rst c w c' w' ok k slot H Hres.
  destruct (flush_with_spec A info resolve rst c w c' w' ok H) as [recs [Hlog Hc]].
  exists recs. split; [exact Hlog|].
  destruct Hc as [[-> ->]|[(p & Hp & -> & ->)|(p & n & Hp & -> & ->)]].
  - split; [constructor|left; split; reflexivity].
  - split; [constructor; [apply Hres; exact Hp|constructor]|right; split; reflexivity].
  - split; [constructor; [apply Hres; exact Hp|constructor]|left; split; reflexivity].
Qed.

Section Step.
Variable deflate : bytes -> bytes.

Lemma sc_reset_minv : forall s slot, stream_minv s slot -> stream_minv (sc_reset s) slot.
Proof.
  intros s slot (b & Hi & Hm). exists (bc_reset b). unfold sc_reset. cbn [sc_inner]. rewrite Hi.
  split; [reflexivity|exact Hm].
Qed.

Lemma sc_flush_minv : forall k s w s' w' ok slot, stream_minv s slot -> sc_flush deflate s w = (s', w', ok) ->
  exists recs, w_log w' = w_log w ++ recs /\ recs_ok k slot recs /\ stream_minv s' slot.
Proof.
  intros k s w s' w' ok slot Hs H. unfold sc_flush in H.
  destruct (flush_minv_gen _ _ _ _ _ _ _ _ _ k slot H (fun p Hp => in_resolve_ok deflate k s slot p Hs Hp))
    as (recs & Hlog & Hok & Hc).
  exists recs. split; [exact Hlog|]. split; [exact Hok|].
  destruct Hc as [[-> _]|[-> _]]; [exact Hs|apply sc_reset_minv; exact Hs].
Qed.

Lemma sd_flush_minv : forall k c w c' w' ok slot, stream_minv (sd_s c) slot -> sd_flush deflate c w = (c', w', ok) ->
  exists recs, w_log w' = w_log w ++ recs /\ recs_ok k slot recs /\ stream_minv (sd_s c') slot.
Proof.
  intros k c w c' w' ok slot Hs H. unfold sd_flush in H.
  destruct (flush_minv_gen _ _ _ _ _ _ _ _ _ k slot H (fun p Hp => in_resolve_ok deflate k (sd_s c) slot p Hs Hp))
    as (recs & Hlog & Hok & Hc).
  exists recs. split; [exact Hlog|]. split; [exact Hok|].
  destruct Hc as [[-> _]|[-> _]]; [exact Hs|]. unfold sd_reset. cbn [sd_s]. apply sc_reset_minv; exact Hs.
Qed.

Lemma in_add_minv : forall s d now slot, stream_minv s slot ->
  exists b', fst (in_add (sc_inner s) d now) = IB b' /\ bc_meta b' = slot.
Proof.
  intros s d now slot (b & Hi & Hm). rewrite Hi. cbn [in_add].
  pose proof (bc_add_meta b d now) as Hb. destruct (bc_add b d now) as [b' r]. cbn [fst] in *.
  exists b'. split; [reflexivity|]. rewrite Hb. exact Hm.
Qed.

(* the part of sc_add after the optional flush *)
Lemma sc_add_tail_minv : forall s1 d now slot, stream_minv s1 slot ->
  forall s' r,
  (let '(i', r) := in_add (sc_inner s1) d now in
   match r with
   | ROk => (mkScoll (sc_max s1) (sc_count s1 + 1) i', r)
   | _ => (mkScoll (sc_max s1) (sc_count s1) i', r)
   end) = (s', r) -> stream_minv s' slot.
Proof.
  intros s1 d now slot Hs s' r H.
  destruct (in_add_minv s1 d now slot Hs) as (b' & Hb & Hm).
  destruct (in_add (sc_inner s1) d now) as [i' r0]. cbn [fst] in Hb. subst i'.
  exists b'. destruct r0; injection H as <- _; split; try reflexivity; exact Hm.
Qed.

Lemma sc_add_minv : forall k s w d now s' w' r slot, stream_minv s slot -> sc_add deflate s w d now = (s', w', r) ->
  exists recs, w_log w' = w_log w ++ recs /\ recs_ok k slot recs /\ stream_minv s' slot.
Proof.
  intros k s w d now s' w' r slot Hs H. unfold sc_add in H.
  assert (Hpre : exists s1 w1 ok recs,
            (if sc_max s <=? sc_count s then sc_flush deflate s w else (s, w, true)) = (s1, w1, ok) /\
            w_log w1 = w_log w ++ recs /\ recs_ok k slot recs /\ stream_minv s1 slot).
  { destruct (sc_max s <=? sc_count s).
    - destruct (sc_flush deflate s w) as [[s1 w1] ok] eqn:Ef.
      destruct (sc_flush_minv k s w s1 w1 ok slot Hs Ef) as (recs & Hlog & Hok & Hs1).
      exists s1, w1, ok, recs. repeat split; assumption.
    - exists s, w, true, []. repeat split; [symmetry; apply app_nil_r|constructor|exact Hs]. }
  destruct Hpre as (s1 & w1 & ok & recs & Epre & Hlog & Hok & Hs1). rewrite Epre in H.
  exists recs. destruct ok; cbn [negb] in H.
  - destruct (in_add (sc_inner s1) d now) as [i' r0] eqn:Ea.
    assert (Hw : w' = w1) by (destruct r0; injection H as _ <- _; reflexivity). subst w'.
    split; [exact Hlog|]. split; [exact Hok|].
    apply (sc_add_tail_minv s1 d now slot Hs1 s' r). rewrite Ea.
    destruct r0; injection H as <- <-; reflexivity.
  - injection H as <- <- _. repeat split; assumption.
Qed.

Lemma sd_add_minv : forall k c w d now c' w' r slot, stream_minv (sd_s c) slot -> sd_add deflate c w d now = (c', w', r) ->
  exists recs, w_log w' = w_log w ++ recs /\ recs_ok k slot recs /\ stream_minv (sd_s c') slot.
Proof.
  intros k c w d now c' w' r slot Hs H. unfold sd_add in H.
  destruct (schema_sig d) as [sig num].
  match type of H with context [if ?ch then _ else (c, w, true)] => set (changed := ch) in H end.
  assert (Hpre : exists c1 w1 ok recs,
            (if changed
             then let '(c', w', ok') := if 0 <? sc_count (sd_s c) then sd_flush deflate c w else (c, w, true) in
                  if ok' then (mkSdcoll (Some sig) num (sd_s c'), w', true) else (c', w', false)
             else (c, w, true)) = (c1, w1, ok) /\
            w_log w1 = w_log w ++ recs /\ recs_ok k slot recs /\ stream_minv (sd_s c1) slot).
  { destruct changed.
    - destruct (0 <? sc_count (sd_s c)).
      + destruct (sd_flush deflate c w) as [[c0 w0] ok0] eqn:Ef.
        destruct (sd_flush_minv k c w c0 w0 ok0 slot Hs Ef) as (recs & Hlog & Hok & Hs0).
        destruct ok0; eexists; eexists; eexists; exists recs; (split; [reflexivity|]); repeat split; assumption.
      + eexists; eexists; eexists; exists []. split; [reflexivity|].
        repeat split; [symmetry; apply app_nil_r|constructor|exact Hs].
    - exists c, w, true, []. repeat split; [symmetry; apply app_nil_r|constructor|exact Hs]. }
  destruct Hpre as (c1 & w1 & ok & recs & Epre & Hlog & Hok & Hs1). rewrite Epre in H.
  destruct ok; cbn [negb] in H.
  - destruct (sc_add deflate (sd_s c1) w1 d now) as [[s2 w2] r2] eqn:Ea.
    destruct (sc_add_minv k (sd_s c1) w1 d now s2 w2 r2 slot Hs1 Ea) as (recs2 & Hlog2 & Hok2 & Hs2).
    injection H as <- <- _. exists (recs ++ recs2). split; [rewrite Hlog2, Hlog, app_assoc; reflexivity|].
    split; [apply Forall_app; split; assumption|exact Hs2].
  - injection H as <- <- _. exists recs. repeat split; assumption.
Qed.

End Step.

(* ------------------------------------------------------------------ one operation, whole histories *)
Section Trace.
Variable deflate : bytes -> bytes.

Lemma minv_init : forall k n, compressing k = true -> minv k (new_coll k n) None.
Proof.
  intros k n Hk. destruct k; try discriminate Hk; cbn [minv new_coll].
  - reflexivity.
  - apply ba_new_minv.
  - apply dy_new_minv.
  - exists (bc_new n). split; reflexivity.
  - exists (bc_new n). split; reflexivity.
Qed.

Lemma minv_reset : forall k c slot, minv k c slot -> minv k (c_reset c) (if multi_chunk k then None else slot).
Proof.
  intros k c slot H. destruct k, c; cbn [minv] in H; try contradiction; cbn [c_reset minv multi_chunk].
  - exact H.
  - apply ba_new_minv.
  - apply dy_new_minv.
  - apply sc_reset_minv. exact H.
  - unfold sd_reset. cbn [sd_s]. apply sc_reset_minv. exact H.
Qed.

Lemma minv_set_meta : forall k c slot m, minv k c slot -> minv k (c_set_meta c m) m.
Proof.
  intros k c slot m H. destruct k, c; cbn [minv] in H; try contradiction; cbn [c_set_meta minv].
  - reflexivity.
  - apply (ba_set_meta_minv b m slot H).
  - apply (dy_set_meta_minv d m slot H).
  - destruct H as (b & Hi & _). rewrite Hi. exists (bc_set_meta b m). split; reflexivity.
  - destruct H as (b & Hi & _). cbn [sd_s sc_inner]. rewrite Hi. exists (bc_set_meta b m). split; reflexivity.
Qed.

Lemma minv_flush : forall k c w c' w' ok slot, minv k c slot -> c_flush deflate c w = (c', w', ok) ->
  exists recs, w_log w' = w_log w ++ recs /\ recs_ok k slot recs /\
    minv k c' (if multi_chunk k && existsb rec_full recs then None else slot).
Proof.
  intros k c w c' w' ok slot Hinv H.
  assert (Hgen : forall c0, c0 = c -> flush_with c_info (c_resolve deflate) c_reset c0 w = (c', w', ok) ->
            exists recs, w_log w' = w_log w ++ recs /\ recs_ok k slot recs /\
              minv k c' (if multi_chunk k && existsb rec_full recs then None else slot)).
  { intros c0 -> Hf.
    destruct (flush_minv_gen _ _ _ _ _ _ _ _ _ k slot Hf (fun p Hp => resolve_ok deflate k c slot p Hinv Hp))
      as (recs & Hlog & Hok & Hc).
    exists recs. split; [exact Hlog|]. split; [exact Hok|].
    destruct Hc as [[-> Hf0]|[-> Hf1]].
    - rewrite Hf0, andb_false_r. exact Hinv.
    - rewrite Hf1, andb_true_r. apply minv_reset. exact Hinv. }
  destruct k, c; cbn [minv] in Hinv; try contradiction; cbn [c_flush] in H.
  - apply (Hgen _ eq_refl H).
  - apply (Hgen _ eq_refl H).
  - apply (Hgen _ eq_refl H).
  - destruct (sc_flush deflate s w) as [[s1 w1] ok1] eqn:Ef. injection H as <- <- _.
    destruct (sc_flush_minv deflate KStream s w s1 w1 ok1 slot Hinv Ef) as (recs & Hlog & Hok & Hs).
    exists recs. repeat split; assumption.
  - destruct (sd_flush deflate s w) as [[s1 w1] ok1] eqn:Ef. injection H as <- <- _.
    destruct (sd_flush_minv deflate KSDyn s w s1 w1 ok1 slot Hinv Ef) as (recs & Hlog & Hok & Hs).
    exists recs. repeat split; assumption.
Qed.

Lemma minv_add : forall k c w d now c' w' r slot, minv k c slot -> c_add deflate c w d now = (c', w', r) ->
  exists recs, w_log w' = w_log w ++ recs /\ recs_ok k slot recs /\ minv k c' slot.
Proof.
  intros k c w d now c' w' r slot Hinv H.
  destruct k, c; cbn [minv] in Hinv; try contradiction; cbn [c_add] in H.
  - pose proof (bc_add_meta b d now) as Hb. destruct (bc_add b d now) as [b' r0]. injection H as <- <- _.
    exists []. repeat split; [symmetry; apply app_nil_r|constructor|]. cbn [minv fst] in *. rewrite Hb. exact Hinv.
  - pose proof (ba_add_minv b d now slot Hinv) as Hb. destruct (ba_add b d now) as [b' r0]. injection H as <- <- _.
    exists []. repeat split; [symmetry; apply app_nil_r|constructor|exact Hb].
  - pose proof (dy_add_minv d0 d now slot Hinv) as Hb. destruct (dy_add d0 d now) as [x' r0]. injection H as <- <- _.
    exists []. repeat split; [symmetry; apply app_nil_r|constructor|exact Hb].
  - destruct (sc_add deflate s w d now) as [[s1 w1] r1] eqn:Ea. injection H as <- <- _.
    apply (sc_add_minv deflate KStream s w d now s1 w1 r1 slot Hinv Ea).
  - destruct (sd_add deflate s w d now) as [[s1 w1] r1] eqn:Ea. injection H as <- <- _.
    apply (sd_add_minv deflate KSDyn s w d now s1 w1 r1 slot Hinv Ea).
Qed.

Lemma minv_add_bad : forall k c w c' w' r slot, minv k c slot -> c_add_bad deflate c w = (c', w', r) ->
  exists recs, w_log w' = w_log w ++ recs /\ recs_ok k slot recs /\ minv k c' slot.
Proof.
  intros k c w c' w' r slot Hinv H.
  destruct k, c; cbn [minv] in Hinv; try contradiction; cbn [c_add_bad] in H;
    try (injection H as <- <- _; exists []; repeat split; [symmetry; apply app_nil_r|constructor|exact Hinv]).
  destruct (sc_max s <=? sc_count s).
  - destruct (sc_flush deflate s w) as [[s1 w1] ok1] eqn:Ef. injection H as <- <- _.
    apply (sc_flush_minv deflate KStream s w s1 w1 ok1 slot Hinv Ef).
  - injection H as <- <- _. exists []. repeat split; [symmetry; apply app_nil_r|constructor|exact Hinv].
Qed.

(* one operation: the writer's log only grows, everything written or resolved has
   the shape dictated by the slot before the operation, and the slot moves as
   [slot_next] says *)
Lemma step_minv : forall k c w o c' w' b slot,
  minv k c slot -> step deflate (c, w) o = ((c', w'), b) ->
  exists recs, w_log w' = w_log w ++ recs /\ recs_ok k slot recs /\
    (forall x, b = BResolve (Some x) -> outp_ok k slot x) /\
    minv k c' (slot_next k slot (mkEvent o (match b with BResolve x => x | _ => None end) recs)).
Proof.
  intros k c w o c' w' b slot Hinv H. unfold step in H. unfold slot_next. cbn [ev_op ev_recs].
  destruct o as [d now| | | | |m|].
  - destruct (c_add deflate c w d now) as [[c1 w1] r] eqn:Ea. injection H as <- <- <-.
    destruct (minv_add k c w d now c1 w1 r slot Hinv Ea) as (recs & Hlog & Hok & Hc).
    exists recs. repeat split; try assumption. intros x Hx; discriminate Hx.
  - destruct (c_add_bad deflate c w) as [[c1 w1] r] eqn:Ea. injection H as <- <- <-.
    destruct (minv_add_bad k c w c1 w1 r slot Hinv Ea) as (recs & Hlog & Hok & Hc).
    exists recs. repeat split; try assumption. intros x Hx; discriminate Hx.
  - injection H as <- <- <-. exists []. repeat split; [symmetry; apply app_nil_r|constructor| |exact Hinv].
    intros x Hx. injection Hx as Hx. apply (resolve_ok deflate k c slot x Hinv Hx).
  - injection H as <- <- <-. exists []. repeat split; [symmetry; apply app_nil_r|constructor| |].
    + intros x Hx; discriminate Hx.
    + apply minv_reset. exact Hinv.
  - destruct (c_flush deflate c w) as [[c1 w1] ok] eqn:Ef. injection H as <- <- <-.
    destruct (minv_flush k c w c1 w1 ok slot Hinv Ef) as (recs & Hlog & Hok & Hc).
    exists recs. repeat split; try assumption. intros x Hx; discriminate Hx.
  - injection H as <- <- <-. exists []. repeat split; [symmetry; apply app_nil_r|constructor| |].
    + intros x Hx; discriminate Hx.
    + apply (minv_set_meta k c slot m Hinv).
  - destruct (c_info c) as [mi si]. injection H as <- <- <-.
    exists []. repeat split; [symmetry; apply app_nil_r|constructor| |exact Hinv].
    intros x Hx; discriminate Hx.
Qed.

Lemma trace_ok_run : forall ops k c w slot, minv k c slot -> trace_ok k slot (run_trace deflate (c, w) ops).
Proof.
  induction ops as [|o r IH]; intros k c w slot Hinv; [exact I|].
  cbn [run_trace]. destruct (step deflate (c, w) o) as [[c' w'] b] eqn:Es.
  destruct (step_minv k c w o c' w' b slot Hinv Es) as (recs & Hlog & Hok & Hres & Hc).
  cbn [snd]. rewrite Hlog, skipn_length_app. cbn [trace_ok ev_resolve ev_recs].
  split; [|split; [exact Hok|]].
  - intros x Hx. destruct b; try discriminate Hx. apply Hres. rewrite Hx. reflexivity.
  - apply IH. exact Hc.
Qed.

Theorem meta_emit_shape : forall k n faults ops, compressing k = true ->
  trace_ok k None (run_trace deflate (new_coll k n, mkWriter [] faults false) ops).
Proof. intros k n faults ops Hk. apply trace_ok_run. apply minv_init. exact Hk. Qed.

(* one-chunk kinds: the slot is the last document passed to SetMetadata *)
Lemma slot_after_single : forall ops k st slot, multi_chunk k = false ->
  slot_after k slot (run_trace deflate st ops) = last_set slot ops.
Proof.
  induction ops as [|o r IH]; intros k st slot Hk; [reflexivity|].
  cbn [run_trace]. destruct (step deflate st o) as [st' b]. cbn [slot_after].
  unfold slot_next at 1. cbn [ev_op ev_recs]. rewrite Hk.
  destruct o; cbn [andb last_set]; apply IH; exact Hk.
Qed.

End Trace.

(* ------------------------------------------------------------------ the Prop statement implies the executable oracle *)
Lemma bytes_eqb_refl : forall a, bytes_eqb a a = true.
Proof. intros a. unfold bytes_eqb. destruct (list_eq_dec N.eq_dec a a); [reflexivity|congruence]. Qed.

Lemma doc_eqb_refl : forall a, doc_eqb a a = true.
Proof. intros a. unfold doc_eqb. apply bytes_eqb_refl. Qed.

Lemma chunk_shape_chunk_doc : forall s data, chunk_shape (chunk_doc s data) = Some s.
Proof. reflexivity. Qed.

Lemma meta_shape_meta_doc : forall s m, meta_shape (meta_doc s m) = Some (s, m).
Proof. reflexivity. Qed.

Lemma tail_okb_true : forall k rest, Forall is_chunk_doc rest -> (multi_chunk k = false -> rest = []) -> tail_okb k rest = true.
Proof.
  intros k rest Hr Hk. unfold tail_okb. apply andb_true_iff. split.
  - apply forallb_forall. intros d Hd. rewrite Forall_forall in Hr. destruct (Hr d Hd) as (s & data & ->).
    unfold is_chunk_shape. rewrite chunk_shape_chunk_doc. reflexivity.
  - destruct (multi_chunk k); [reflexivity|]. rewrite (Hk eq_refl). reflexivity.
Qed.

Lemma out_okb_true : forall k slot ds, out_ok k slot ds -> out_okb k slot ds = true.
Proof.
  intros k slot ds (s & data & rest & -> & Hr & Hk). unfold out_okb. destruct slot as [m|]; cbn [opt_meta app].
  - rewrite meta_shape_meta_doc, chunk_shape_chunk_doc, Z.eqb_refl, doc_eqb_refl, (tail_okb_true k rest Hr Hk). reflexivity.
  - unfold is_chunk_shape. rewrite chunk_shape_chunk_doc, (tail_okb_true k rest Hr Hk). reflexivity.
Qed.

Lemma outp_okb_true : forall k slot o, outp_ok k slot o -> outp_okb k slot o = true.
Proof. intros k slot [ds|j ds] H; [apply out_okb_true; exact H|destruct H]. Qed.

Lemma trace_okb_true : forall evs k slot, trace_ok k slot evs -> trace_okb k slot evs = true.
Proof.
  induction evs as [|e r IH]; intros k slot H; [reflexivity|].
  destruct H as (Hres & Hrecs & Hr). cbn [trace_okb].
  rewrite (IH _ _ Hr), andb_true_r. apply andb_true_iff. split.
  - destruct (ev_resolve e) as [o|]; [apply outp_okb_true; apply Hres; reflexivity|reflexivity].
  - apply forallb_forall. intros rc Hrc. rewrite Forall_forall in Hrecs. specialize (Hrecs rc Hrc).
    destruct rc as [o|n o]; cbn [rec_okb rec_out] in *; [apply outp_okb_true; exact Hrecs|reflexivity].
Qed.

(* ================================================================== erasing the metadata history *)
Lemma drop_meta_app : forall a b, drop_meta (a ++ b) = drop_meta a ++ drop_meta b.
Proof. intros a b. unfold drop_meta. apply filter_app. Qed.

Lemma last_map : forall (A B : Type) (f : A -> B) l d, last (map f l) (f d) = f (last l d).
Proof.
  intros A B f l d. induction l as [|a l IH]; [reflexivity|].
  destruct l as [|b l]; [reflexivity|]. exact IH.
Qed.

Lemma removelast_map : forall (A B : Type) (f : A -> B) l, removelast (map f l) = map f (removelast l).
Proof.
  intros A B f l. induction l as [|a l IH]; [reflexivity|].
  destruct l as [|b l]; [reflexivity|]. cbn [map] in *. cbn [removelast] in *. rewrite IH. reflexivity.
Qed.

Lemma fold_left_map_same : forall (A B : Type) (g : A -> B -> A) (f : B -> B) l a,
  (forall a x, g a (f x) = g a x) -> fold_left g (map f l) a = fold_left g l a.
Proof.
  intros A B g f l. induction l as [|x l IH]; intros a H; [reflexivity|].
  cbn [map fold_left]. rewrite H. apply IH. exact H.
Qed.

(* ---- base ---- *)
Lemma bc_add_unfold : forall b d now, bc_add b d now = (fst (bc_add b d now), snd (bc_add b d now)).
Proof. intros. apply surjective_pairing. Qed.

Lemma bc_add_erase : forall b d now,
  bc_add (bc_erase b) d now = (bc_erase (fst (bc_add b d now)), snd (bc_add b d now)).
Proof.
  intros b d now. unfold bc_add, bc_erase, bc_set_meta. cbn [bc_ref bc_meta bc_max bc_rows bc_last bc_started].
  destruct (bc_ref b) eqn:E; [|reflexivity]. cbv zeta.
  repeat match goal with |- context [if ?x then _ else _] => destruct x; try reflexivity end;
    cbn [fst snd]; rewrite E; reflexivity.
Qed.

Lemma bc_info_erase : forall b, bc_info (bc_erase b) = bc_info b.
Proof. reflexivity. Qed.

Lemma bc_reset_erase : forall b, bc_reset (bc_erase b) = bc_erase (bc_reset b).
Proof. reflexivity. Qed.

Lemma bc_set_meta_erase : forall b m, bc_erase (bc_set_meta b m) = bc_erase b.
Proof. reflexivity. Qed.

Section Erase.
Variable deflate : bytes -> bytes.

Lemma bc_resolve_erase : forall b, bc_resolve deflate (bc_erase b) = option_map drop_meta (bc_resolve deflate b).
Proof.
  intros b. unfold bc_resolve, bc_erase, bc_set_meta. cbn [bc_ref bc_meta bc_max bc_rows bc_last bc_started].
  destruct (bc_ref b); [|reflexivity]. destruct (bc_meta b); reflexivity.
Qed.

(* ---- batch ---- *)
Lemma ba_add_unfold : forall b d now,
  ba_add b d now =
  let last_c := last (ba_chunks b) (bc_new (ba_max b)) in
  if ba_max b <=? snd (bc_info last_c)
  then (mkBatch (ba_max b) (ba_chunks b ++ [fst (bc_add (bc_new (ba_max b)) d now)]),
        of_add_res (snd (bc_add (bc_new (ba_max b)) d now)))
  else (mkBatch (ba_max b) (removelast (ba_chunks b) ++ [fst (bc_add last_c d now)]),
        of_add_res (snd (bc_add last_c d now))).
Proof.
  intros b d now. unfold ba_add. cbv zeta.
  destruct (ba_max b <=? snd (bc_info (last (ba_chunks b) (bc_new (ba_max b))))).
  - destruct (bc_add (bc_new (ba_max b)) d now). reflexivity.
  - destruct (bc_add (last (ba_chunks b) (bc_new (ba_max b))) d now). reflexivity.
Qed.

Lemma last_map_bc_erase : forall l n, last (map bc_erase l) (bc_new n) = bc_erase (last l (bc_new n)).
Proof. intros l n. change (bc_new n) with (bc_erase (bc_new n)) at 1. apply last_map. Qed.

Lemma bc_add_new_erased : forall n d now, fst (bc_add (bc_new n) d now) = bc_erase (fst (bc_add (bc_new n) d now)).
Proof.
  intros n d now. pose proof (bc_add_erase (bc_new n) d now) as H.
  change (bc_erase (bc_new n)) with (bc_new n) in H. apply (f_equal fst) in H. exact H.
Qed.

Lemma ba_add_erase : forall b d now,
  ba_add (ba_erase b) d now = (ba_erase (fst (ba_add b d now)), snd (ba_add b d now)).
Proof.
  intros [n l] d now. rewrite !ba_add_unfold. cbv zeta. unfold ba_erase. cbn [ba_chunks ba_max].
  rewrite !last_map_bc_erase, bc_info_erase.
  destruct (n <=? snd (bc_info (last l (bc_new n)))); cbn [fst snd ba_chunks ba_max].
  - rewrite map_app. cbn [map]. rewrite <- bc_add_new_erased. reflexivity.
  - rewrite !bc_add_erase. cbn [fst snd]. rewrite map_app, removelast_map. reflexivity.
Qed.

Lemma fold_rstep_erase : forall l acc,
  fold_left (rstep deflate) (map bc_erase l) (option_map drop_meta acc) =
  option_map drop_meta (fold_left (rstep deflate) l acc).
Proof.
  induction l as [|c l IH]; intros acc; [reflexivity|].
  cbn [map fold_left]. rewrite <- IH. f_equal. unfold rstep. rewrite bc_resolve_erase.
  destruct acc as [a|]; [|reflexivity]. destruct (bc_resolve deflate c) as [x|]; [|reflexivity].
  cbn [option_map]. rewrite drop_meta_app. reflexivity.
Qed.

Lemma ba_resolve_erase : forall b, ba_resolve deflate (ba_erase b) = option_map drop_meta (ba_resolve deflate b).
Proof.
  intros b. change (ba_resolve deflate (ba_erase b)) with (fold_left (rstep deflate) (map bc_erase (ba_chunks b)) (option_map drop_meta (Some []))).
  rewrite fold_rstep_erase. reflexivity.
Qed.

Lemma ba_info_erase : forall b, ba_info (ba_erase b) = ba_info b.
Proof.
  intros b. unfold ba_info, ba_erase. cbn [ba_chunks]. apply fold_left_map_same.
  intros [m s] c. rewrite bc_info_erase. reflexivity.
Qed.

Lemma ba_set_meta_erase : forall b m, ba_erase (ba_set_meta b m) = ba_erase b.
Proof. intros b m. unfold ba_set_meta, ba_erase. destruct (ba_chunks b) as [|c r] eqn:E; [rewrite E; reflexivity|reflexivity]. Qed.

Lemma ba_new_erase : forall n, ba_erase (ba_new n) = ba_new n.
Proof. reflexivity. Qed.

(* ---- dyn ---- *)
Lemma dy_add_unfold : forall x d now,
  dy_add x d now =
  match dy_hash x with
  | None => match dy_chunks x with
            | b0 :: r => (mkDyn (dy_max x) (fst (ba_add b0 d now) :: r) (Some (fst (schema_sig d))), snd (ba_add b0 d now))
            | [] => (x, RNoWriter)
            end
  | Some h =>
      if bytes_eqb h (fst (schema_sig d))
      then (mkDyn (dy_max x) (removelast (dy_chunks x) ++ [fst (ba_add (last (dy_chunks x) (ba_new (dy_max x))) d now)]) (dy_hash x),
            snd (ba_add (last (dy_chunks x) (ba_new (dy_max x))) d now))
      else (mkDyn (dy_max x) (dy_chunks x ++ [fst (ba_add (ba_new (dy_max x)) d now)]) (Some (fst (schema_sig d))),
            snd (ba_add (ba_new (dy_max x)) d now))
  end.
Proof.
  intros x d now. unfold dy_add. cbv zeta. destruct (dy_hash x) as [h|].
  - destruct (bytes_eqb h (fst (schema_sig d))).
    + destruct (ba_add (last (dy_chunks x) (ba_new (dy_max x))) d now). reflexivity.
    + destruct (ba_add (ba_new (dy_max x)) d now). reflexivity.
  - destruct (dy_chunks x) as [|b0 r]; [reflexivity|]. destruct (ba_add b0 d now). reflexivity.
Qed.

Lemma last_map_ba_erase : forall l n, last (map ba_erase l) (ba_new n) = ba_erase (last l (ba_new n)).
Proof. intros l n. change (ba_new n) with (ba_erase (ba_new n)) at 1. apply last_map. Qed.

Lemma ba_add_new_erased : forall n d now, fst (ba_add (ba_new n) d now) = ba_erase (fst (ba_add (ba_new n) d now)).
Proof.
  intros n d now. pose proof (ba_add_erase (ba_new n) d now) as H.
  change (ba_erase (ba_new n)) with (ba_new n) in H. apply (f_equal fst) in H. exact H.
Qed.

Lemma dy_add_erase : forall x d now,
  dy_add (dy_erase x) d now = (dy_erase (fst (dy_add x d now)), snd (dy_add x d now)).
Proof.
  intros [n l h] d now. rewrite !dy_add_unfold. unfold dy_erase. cbn [dy_chunks dy_max dy_hash].
  destruct h as [h|].
  - destruct (bytes_eqb h (fst (schema_sig d))); cbn [fst snd dy_chunks dy_max dy_hash].
    + rewrite !last_map_ba_erase, !ba_add_erase. cbn [fst snd]. rewrite map_app, removelast_map. reflexivity.
    + rewrite map_app. cbn [map]. rewrite <- ba_add_new_erased. reflexivity.
  - destruct l as [|b0 r]; cbn [map fst snd dy_chunks dy_max dy_hash]; [reflexivity|].
    rewrite !ba_add_erase. reflexivity.
Qed.

Lemma fold_dstep_erase : forall l acc,
  fold_left (dstep deflate) (map ba_erase l) (option_map drop_meta acc) =
  option_map drop_meta (fold_left (dstep deflate) l acc).
Proof.
  induction l as [|c l IH]; intros acc; [reflexivity|].
  cbn [map fold_left]. rewrite <- IH. f_equal. unfold dstep. rewrite ba_resolve_erase.
  destruct acc as [a|]; [|reflexivity]. destruct (ba_resolve deflate c) as [x|]; [|reflexivity].
  cbn [option_map]. rewrite drop_meta_app. reflexivity.
Qed.

Lemma dy_resolve_erase : forall x, dy_resolve deflate (dy_erase x) = option_map drop_meta (dy_resolve deflate x).
Proof.
  intros x. change (dy_resolve deflate (dy_erase x)) with (fold_left (dstep deflate) (map ba_erase (dy_chunks x)) (option_map drop_meta (Some []))).
  rewrite fold_dstep_erase. reflexivity.
Qed.

Lemma dy_info_erase : forall x, dy_info (dy_erase x) = dy_info x.
Proof.
  intros x. unfold dy_info, dy_erase. cbn [dy_chunks]. apply fold_left_map_same.
  intros [m s] c. rewrite ba_info_erase. reflexivity.
Qed.

Lemma dy_set_meta_erase : forall x m, dy_erase (dy_set_meta x m) = dy_erase x.
Proof.
  intros x m. unfold dy_set_meta, dy_erase. destruct (dy_chunks x) as [|b r] eqn:E; [rewrite E; reflexivity|].
  cbn [dy_chunks dy_max dy_hash map]. rewrite ba_set_meta_erase. reflexivity.
Qed.

End Erase.

(* ---- writer, flush, streaming ---- *)
Definition er3 {A B : Type} (e : A -> A) (t : A * writer * B) : A * writer * B :=
  let '(c, w, x) := t in (e c, writer_erase w, x).

Lemma w_write_erase : forall w p,
  w_write (writer_erase w) (out_erase p) = (writer_erase (fst (w_write w p)), snd (w_write w p)).
Proof.
  intros w p. unfold w_write, writer_erase. cbn [w_faults w_log w_closed].
  destruct (w_faults w) as [|[| |n] r]; cbn [fst snd w_log w_faults w_closed tl]; rewrite ?map_app; reflexivity.
Qed.

Lemma flush_with_erase : forall (A : Type) (info : A -> Z * Z) (resolve : A -> option outp) (rst e : A -> A) c w,
  (forall c, info (e c) = info c) -> (forall c, resolve (e c) = option_map out_erase (resolve c)) ->
  (forall c, rst (e c) = e (rst c)) ->
  flush_with info resolve rst (e c) (writer_erase w) = er3 e (flush_with info resolve rst c w).
Proof.
  intros A info resolve rst e c w Hi Hr Hrst. unfold flush_with. rewrite Hi.
  destruct (snd (info c) =? 0); [reflexivity|]. rewrite Hr.
  destruct (resolve c) as [p|]; cbn [option_map]; [|reflexivity].
  rewrite w_write_erase. destruct (w_write w p) as [w1 ok]. cbn [fst snd].
  destruct ok; [rewrite Hrst|]; reflexivity.
Qed.

Lemma in_info_erase : forall i, in_info (in_erase i) = in_info i.
Proof. intros [b|u]; reflexivity. Qed.

Lemma in_reset_erase : forall i, in_reset (in_erase i) = in_erase (in_reset i).
Proof. intros [b|u]; reflexivity. Qed.

Lemma in_add_erase : forall i d now, in_add (in_erase i) d now = (in_erase (fst (in_add i d now)), snd (in_add i d now)).
Proof.
  intros [b|u] d now; cbn [in_erase in_add].
  - rewrite bc_add_erase. destruct (bc_add b d now). reflexivity.
  - destruct (uc_add u d). reflexivity.
Qed.

Section Erase2.
Variable deflate : bytes -> bytes.

Lemma in_resolve_erase : forall i, in_resolve deflate (in_erase i) = option_map out_erase (in_resolve deflate i).
Proof.
  intros [b|u]; cbn [in_erase in_resolve].
  - rewrite bc_resolve_erase. destruct (bc_resolve deflate b); reflexivity.
  - unfold uc_resolve. destruct (uc_samples u); reflexivity.
Qed.

Lemma sc_reset_erase : forall s, sc_reset (sc_erase s) = sc_erase (sc_reset s).
Proof. intros s. unfold sc_reset, sc_erase. cbn [sc_max sc_count sc_inner]. rewrite in_reset_erase. reflexivity. Qed.

Lemma sc_flush_erase : forall s w, sc_flush deflate (sc_erase s) (writer_erase w) = er3 sc_erase (sc_flush deflate s w).
Proof.
  intros s w. unfold sc_flush. apply (flush_with_erase scoll _ _ sc_reset sc_erase s w).
  - intros c. apply in_info_erase.
  - intros c. apply in_resolve_erase.
  - apply sc_reset_erase.
Qed.

Lemma sc_add_erase : forall s w d now,
  sc_add deflate (sc_erase s) (writer_erase w) d now = er3 sc_erase (sc_add deflate s w d now).
Proof.
  intros s w d now. unfold sc_add. cbn [sc_erase sc_max sc_count].
  assert (Hpre : (if sc_max s <=? sc_count s then sc_flush deflate (sc_erase s) (writer_erase w)
                  else (sc_erase s, writer_erase w, true))
                 = er3 sc_erase (if sc_max s <=? sc_count s then sc_flush deflate s w else (s, w, true))).
  { destruct (sc_max s <=? sc_count s); [apply sc_flush_erase|reflexivity]. }
  fold (sc_erase s). rewrite Hpre.
  destruct (if sc_max s <=? sc_count s then sc_flush deflate s w else (s, w, true)) as [[s1 w1] ok].
  cbn [er3]. destruct ok; cbn [negb]; [|reflexivity].
  cbn [sc_erase sc_inner sc_max sc_count]. rewrite in_add_erase.
  destruct (in_add (sc_inner s1) d now) as [i' r]. cbn [fst snd]. destruct r; reflexivity.
Qed.

Definition sd_erase (c : sdcoll) : sdcoll := mkSdcoll (sd_hash c) (sd_mcount c) (sc_erase (sd_s c)).

Lemma sd_flush_erase : forall c w, sd_flush deflate (sd_erase c) (writer_erase w) = er3 sd_erase (sd_flush deflate c w).
Proof.
  intros c w. unfold sd_flush. apply (flush_with_erase sdcoll _ _ sd_reset sd_erase c w).
  - intros x. apply in_info_erase.
  - intros x. apply in_resolve_erase.
  - intros x. unfold sd_reset, sd_erase. cbn [sd_s sd_hash sd_mcount]. rewrite sc_reset_erase. reflexivity.
Qed.

Lemma sd_add_erase : forall c w d now,
  sd_add deflate (sd_erase c) (writer_erase w) d now = er3 sd_erase (sd_add deflate c w d now).
Proof.
  intros c w d now. unfold sd_add. destruct (schema_sig d) as [sig num].
  cbn [sd_erase sd_hash sd_mcount sd_s sc_erase sc_count]. fold (sc_erase (sd_s c)). fold (sd_erase c).
  match goal with |- context [if ?ch then _ else (c, w, true)] => set (changed := ch) end.
  assert (Hpre :
    (if changed
     then let '(c', w', ok') := if 0 <? sc_count (sd_s c) then sd_flush deflate (sd_erase c) (writer_erase w)
                                else (sd_erase c, writer_erase w, true) in
          if ok' then (mkSdcoll (Some sig) num (sd_s c'), w', true) else (c', w', false)
     else (sd_erase c, writer_erase w, true))
    = er3 sd_erase
        (if changed
         then let '(c', w', ok') := if 0 <? sc_count (sd_s c) then sd_flush deflate c w else (c, w, true) in
              if ok' then (mkSdcoll (Some sig) num (sd_s c'), w', true) else (c', w', false)
         else (c, w, true))).
  { destruct changed; [|reflexivity].
    destruct (0 <? sc_count (sd_s c)); [|reflexivity].
    rewrite sd_flush_erase. destruct (sd_flush deflate c w) as [[c0 w0] ok0]. cbn [er3].
    destruct ok0; reflexivity. }
  rewrite Hpre.
  destruct (if changed
            then let '(c', w', ok') := if 0 <? sc_count (sd_s c) then sd_flush deflate c w else (c, w, true) in
                 if ok' then (mkSdcoll (Some sig) num (sd_s c'), w', true) else (c', w', false)
            else (c, w, true)) as [[c1 w1] ok].
  cbn [er3]. destruct ok; cbn [negb]; [|reflexivity].
  cbn [sd_erase sd_s sd_hash sd_mcount]. rewrite sc_add_erase.
  destruct (sc_add deflate (sd_s c1) w1 d now) as [[s2 w2] r2]. reflexivity.
Qed.

(* ---- all kinds ---- *)
Lemma c_info_erase : forall c, c_info (coll_erase c) = c_info c.
Proof.
  intros [b|b|x|s|s|u]; cbn [coll_erase c_info]; try reflexivity.
  - apply ba_info_erase.
  - apply dy_info_erase.
  - apply in_info_erase.
  - apply in_info_erase.
Qed.

Lemma c_resolve_erase : forall c, c_resolve deflate (coll_erase c) = option_map out_erase (c_resolve deflate c).
Proof.
  intros [b|b|x|s|s|u]; cbn [coll_erase c_resolve].
  - rewrite bc_resolve_erase. destruct (bc_resolve deflate b); reflexivity.
  - rewrite ba_resolve_erase. destruct (ba_resolve deflate b); reflexivity.
  - rewrite dy_resolve_erase. destruct (dy_resolve deflate x); reflexivity.
  - apply in_resolve_erase.
  - apply in_resolve_erase.
  - unfold uc_resolve. destruct (uc_samples u); reflexivity.
Qed.

Lemma c_reset_erase : forall c, c_reset (coll_erase c) = coll_erase (c_reset c).
Proof.
  intros [b|b|x|s|s|u]; cbn [coll_erase c_reset]; try reflexivity.
  - rewrite sc_reset_erase. reflexivity.
  - unfold sd_reset. cbn [sd_s]. rewrite sc_reset_erase. reflexivity.
Qed.

Lemma c_add_erase : forall c w d now,
  c_add deflate (coll_erase c) (writer_erase w) d now = er3 coll_erase (c_add deflate c w d now).
Proof.
  intros [b|b|x|s|s|u] w d now; cbn [coll_erase c_add].
  - rewrite bc_add_erase. destruct (bc_add b d now). reflexivity.
  - rewrite ba_add_erase. destruct (ba_add b d now). reflexivity.
  - rewrite dy_add_erase. destruct (dy_add x d now). reflexivity.
  - rewrite sc_add_erase. destruct (sc_add deflate s w d now) as [[s1 w1] r]. reflexivity.
  - fold (sd_erase s). rewrite sd_add_erase. destruct (sd_add deflate s w d now) as [[s1 w1] r]. reflexivity.
  - destruct (uc_add u d). reflexivity.
Qed.

Lemma c_add_bad_erase : forall c w,
  c_add_bad deflate (coll_erase c) (writer_erase w) = er3 coll_erase (c_add_bad deflate c w).
Proof.
  intros [b|b|x|s|s|u] w; cbn [coll_erase c_add_bad]; try reflexivity.
  cbn [sc_erase sc_max sc_count]. fold (sc_erase s).
  destruct (sc_max s <=? sc_count s); [|reflexivity].
  rewrite sc_flush_erase. destruct (sc_flush deflate s w) as [[s1 w1] ok]. reflexivity.
Qed.

Lemma c_flush_erase : forall c w,
  c_flush deflate (coll_erase c) (writer_erase w) = er3 coll_erase (c_flush deflate c w).
Proof.
  intros c w.
  assert (Hgen : flush_with c_info (c_resolve deflate) c_reset (coll_erase c) (writer_erase w)
                 = er3 coll_erase (flush_with c_info (c_resolve deflate) c_reset c w)).
  { apply flush_with_erase; [apply c_info_erase|apply c_resolve_erase|apply c_reset_erase]. }
  destruct c as [b|b|x|s|s|u]; try exact Hgen; cbn [coll_erase c_flush].
  - rewrite sc_flush_erase. destruct (sc_flush deflate s w) as [[s1 w1] ok]. reflexivity.
  - fold (sd_erase s). rewrite sd_flush_erase. destruct (sd_flush deflate s w) as [[s1 w1] ok]. reflexivity.
Qed.

Lemma c_set_meta_erase : forall c m, comp_coll c = true -> coll_erase (c_set_meta c m) = coll_erase c.
Proof.
  intros [b|b|x|s|s|u] m Hc; cbn [coll_erase c_set_meta]; try reflexivity.
  - rewrite ba_set_meta_erase. reflexivity.
  - rewrite dy_set_meta_erase. reflexivity.
  - cbn [comp_coll] in Hc. unfold sc_erase. cbn [sc_max sc_count sc_inner].
    destruct (sc_inner s); [reflexivity|discriminate Hc].
  - cbn [comp_coll] in Hc. unfold sc_erase. cbn [sd_hash sd_mcount sd_s sc_max sc_count sc_inner].
    destruct (sc_inner (sd_s s)); [reflexivity|discriminate Hc].
  - discriminate Hc.
Qed.

Lemma minv_comp : forall k c slot, minv k c slot -> comp_coll c = true.
Proof.
  intros k c slot H. destruct k, c; cbn [minv] in H; try contradiction; try reflexivity.
  - destruct H as (b & Hi & _). cbn [comp_coll]. rewrite Hi. reflexivity.
  - destruct H as (b & Hi & _). cbn [comp_coll]. rewrite Hi. reflexivity.
Qed.

(* one operation other than SetMetadata commutes with the erasure *)
Lemma step_erase : forall c w o, is_set_meta o = false ->
  step deflate (coll_erase c, writer_erase w) o =
  (let '((c', w'), b) := step deflate (c, w) o in ((coll_erase c', writer_erase w'), obs_erase b)) /\
  is_bset (snd (step deflate (c, w) o)) = false.
Proof.
  intros c w o Ho. unfold step. destruct o as [d now| | | | |m|]; try discriminate Ho.
  - rewrite c_add_erase. destruct (c_add deflate c w d now) as [[c1 w1] r]. split; reflexivity.
  - rewrite c_add_bad_erase. destruct (c_add_bad deflate c w) as [[c1 w1] r]. split; reflexivity.
  - rewrite c_resolve_erase. destruct (c_resolve deflate c); split; reflexivity.
  - rewrite c_reset_erase. split; reflexivity.
  - rewrite c_flush_erase. destruct (c_flush deflate c w) as [[c1 w1] ok]. split; reflexivity.
  - rewrite c_info_erase. destruct (c_info c). split; reflexivity.
Qed.

Lemma run_erase : forall ops k c w slot, minv k c slot ->
  run deflate (coll_erase c, writer_erase w) (ops_erase ops) =
  (let '((c', w'), bs) := run deflate (c, w) ops in ((coll_erase c', writer_erase w'), obss_erase bs)).
Proof.
  induction ops as [|o r IH]; intros k c w slot Hinv; [reflexivity|].
  unfold ops_erase. cbn [filter]. fold (ops_erase r).
  destruct (is_set_meta o) eqn:Eo; cbn [negb].
  - destruct o; try discriminate Eo. cbn [run step].
    pose proof (minv_set_meta k c slot m Hinv) as Hinv'.
    rewrite <- (c_set_meta_erase c m (minv_comp k c slot Hinv)).
    rewrite (IH k _ w m Hinv').
    destruct (run deflate (c_set_meta c m, w) r) as [[c' w'] bs]. reflexivity.
  - cbn [run]. destruct (step_erase c w o Eo) as [Hs Hb]. rewrite Hs.
    destruct (step deflate (c, w) o) as [[c1 w1] b] eqn:Es.
    destruct (step_minv deflate k c w o c1 w1 b slot Hinv Es) as (recs & _ & _ & _ & Hinv1).
    rewrite (IH k c1 w1 _ Hinv1).
    destruct (run deflate (c1, w1) r) as [[c' w'] bs].
    unfold obss_erase. cbn [filter snd] in *. rewrite Hb. reflexivity.
Qed.

Lemma new_coll_erase : forall k n, coll_erase (new_coll k n) = new_coll k n.
Proof. intros [] n; reflexivity. Qed.

Lemma resolve_outs_erase : forall bs, resolve_outs (obss_erase bs) = map out_erase (resolve_outs bs).
Proof.
  induction bs as [|b r IH]; [reflexivity|].
  unfold obss_erase. cbn [filter]. destruct b as [x|[o|]| | | |]; cbn [is_bset negb map obs_erase resolve_outs flat_map app];
    fold (obss_erase r); fold (resolve_outs (obss_erase r)); fold (resolve_outs r); rewrite ?IH; reflexivity.
Qed.

Theorem meta_emit_erase : forall k n faults ops, compressing k = true ->
  let r1 := run deflate (new_coll k n, mkWriter [] faults false) ops in
  let r2 := run deflate (new_coll k n, mkWriter [] faults false) (ops_erase ops) in
  fst (fst r2) = coll_erase (fst (fst r1)) /\
  w_log (snd (fst r2)) = map wrec_erase (w_log (snd (fst r1))) /\
  snd r2 = obss_erase (snd r1) /\
  resolve_outs (snd r2) = map out_erase (resolve_outs (snd r1)).
Proof.
  intros k n faults ops Hk r1 r2.
  pose proof (run_erase ops k (new_coll k n) (mkWriter [] faults false) None (minv_init k n Hk)) as H.
  rewrite new_coll_erase in H. change (writer_erase (mkWriter [] faults false)) with (mkWriter [] faults false) in H.
  unfold r2. rewrite H. unfold r1. destruct (run deflate (new_coll k n, mkWriter [] faults false) ops) as [[c' w'] bs].
  cbn [fst snd]. repeat split. apply resolve_outs_erase.
Qed.

End Erase2.

(* ---- the decoded samples do not see the metadata documents ---- *)
Section Decode.
Variable inflate : bytes -> option bytes.
Variable cap : option N.

Lemma drop_meta_cons : forall d r, drop_meta (d :: r) = if is_meta d then drop_meta r else d :: drop_meta r.
Proof. intros d r. unfold drop_meta. cbn [filter]. destruct (is_meta d); reflexivity. Qed.

Lemma read_chunks_drop_meta : forall ds m1 m2,
  map unmeta (fst (read_chunks_gen inflate cap m1 ds)) =
  map unmeta (fst (read_chunks_gen inflate cap m2 (drop_meta ds))) /\
  snd (read_chunks_gen inflate cap m1 ds) = snd (read_chunks_gen inflate cap m2 (drop_meta ds)).
Proof.
  induction ds as [|d r IH]; intros m1 m2; [split; reflexivity|].
  rewrite drop_meta_cons, read_chunks_gen_cons.
  destruct (is_meta d) eqn:Em; [apply IH|].
  rewrite read_chunks_gen_cons, Em.
  destruct (is_chunkd d); cbn [negb]; [|apply IH].
  rewrite (read_chunk_gen_meta inflate cap m1 d), (read_chunk_gen_meta inflate cap m2 d).
  destruct (read_chunk_gen inflate cap None d) as [c|e]; [|split; reflexivity].
  destruct (IH m1 m2) as [H1 H2].
  destruct (read_chunks_gen inflate cap m1 r) as [cs1 e1].
  destruct (read_chunks_gen inflate cap m2 (drop_meta r)) as [cs2 e2].
  cbn [fst snd map] in *. split; [f_equal; exact H1|exact H2].
Qed.

Lemma structured_unmeta : forall cs, flat_map structured_docs cs = flat_map structured_docs (map unmeta cs).
Proof. induction cs as [|c r IH]; [reflexivity|]. cbn [map flat_map]. rewrite IH. reflexivity. Qed.

Lemma npoints_unmeta : forall cs, map ck_npoints cs = map ck_npoints (map unmeta cs).
Proof. intros cs. rewrite map_map. reflexivity. Qed.

Theorem decode_drop_meta : forall ds,
  same_samples (decode_ftdc inflate cap (drop_meta ds)) (decode_ftdc inflate cap ds).
Proof.
  intros ds. unfold decode_ftdc.
  destruct (read_chunks_drop_meta ds None None) as [H1 H2].
  destruct (read_chunks_gen inflate cap None ds) as [cs1 e1].
  destruct (read_chunks_gen inflate cap None (drop_meta ds)) as [cs2 e2].
  cbn [fst snd] in *. subst e2.
  rewrite (structured_unmeta cs2), (structured_unmeta cs1), (npoints_unmeta cs2), (npoints_unmeta cs1), H1.
  destruct e1; [exact I|].
  destruct (all_some (flat_map structured_docs (map unmeta cs2))); [|exact I].
  split; reflexivity.
Qed.

End Decode.

(* ================================================================== the statements of Props/C11.v *)
Section Statements.
Variable deflate : bytes -> bytes.
Variable inflate : bytes -> option bytes.

Theorem meta_emit : forall k n faults ops, compressing k = true ->
  let tr := run_trace deflate (new_coll k n, mkWriter [] faults false) ops in
  trace_ok k None tr /\
  trace_okb k None tr = true /\
  (multi_chunk k = false -> slot_after k None tr = last_set None ops).
Proof.
  intros k n faults ops Hk tr. pose proof (meta_emit_shape deflate k n faults ops Hk) as H.
  split; [exact H|]. split; [apply trace_okb_true; exact H|].
  intros Hm. apply slot_after_single. exact Hm.
Qed.

Theorem meta_indep : forall k n faults ops, compressing k = true ->
  let r1 := run deflate (new_coll k n, mkWriter [] faults false) ops in
  let r2 := run deflate (new_coll k n, mkWriter [] faults false) (ops_erase ops) in
  resolve_outs (snd r2) = map out_erase (resolve_outs (snd r1)) /\
  w_log (snd (fst r2)) = map wrec_erase (w_log (snd (fst r1))) /\
  snd r2 = obss_erase (snd r1) /\
  (forall cap ds, same_samples (decode_ftdc inflate cap (drop_meta ds)) (decode_ftdc inflate cap ds)).
Proof.
  intros k n faults ops Hk r1 r2.
  destruct (meta_emit_erase deflate k n faults ops Hk) as (_ & Hw & Hb & Hr).
  split; [exact Hr|]. split; [exact Hw|]. split; [exact Hb|].
  intros cap ds. apply decode_drop_meta.
Qed.

End Statements.

(* non-vacuity: a batch collector of chunk size 1 with two samples, metadata set,
   replaced after data, resolved: one metadata document (the replacement) ahead of
   the first chunk only, and both chunks report it when read back *)
Definition ex_m1 : doc := [([104]%N, VInt32 1)].
Definition ex_m2 : doc := [([104]%N, VInt32 2)].
Definition ex_d (x : Z) : doc := [([120]%N, VInt64 x)].
Definition ex_ops : list op :=
  [OSetMeta (Some ex_m1); OAdd (ex_d 5) 0; OAdd (ex_d 7) 0; OSetMeta (Some ex_m2); OResolve].

Theorem meta_example :
  exists d1 d2,
    resolve_outs (snd (run deflate_flag (new_coll KBatch 1, mkWriter [] [] false) ex_ops))
      = [OFtdc [meta_doc 0 ex_m2; chunk_doc 0 d1; chunk_doc 0 d2]] /\
    map ck_meta (fst (read_chunks inflate_flag None [meta_doc 0 ex_m2; chunk_doc 0 d1; chunk_doc 0 d2]))
      = [Some (meta_doc 0 ex_m2); Some (meta_doc 0 ex_m2)] /\
    spec_metas None [meta_doc 0 ex_m2; chunk_doc 0 d1; chunk_doc 0 d2]
      = [Some (meta_doc 0 ex_m2); Some (meta_doc 0 ex_m2)].
Proof. eexists. eexists. split; [vm_compute; reflexivity|]. split; vm_compute; reflexivity. Qed.
