(* C17: the uncompressed collectors refine the (records, pending, metadata)
   specification machine of Model/UncOk.v; flavour, batch and schema invariants;
   the executable oracle c17_step accepts every observation of the model. *)
From Coq Require Import ZArith NArith List Bool Lia Arith.
From FV.Model Require Import Bytes Bson Metrics Codec Collector Wf RoundTrip CollectorOk Instance UncOk.
Import ListNotations.
Open Scope Z_scope.

(* ------------------------------------------------------------------ list facts *)
Lemma up_skipn_app : forall (A : Type) (l r : list A), skipn (length l) (l ++ r) = r.
Proof. intros A l r. induction l as [|a l IH]; [reflexivity|exact IH]. Qed.

Lemma up_firstn_app : forall (A : Type) (l r : list A), firstn (length l) (l ++ r) = l.
Proof. intros A l r. induction l as [|a l IH]; [reflexivity|cbn [length app firstn]; rewrite IH; reflexivity]. Qed.

Lemma up_skipn_all : forall (A : Type) (l : list A), skipn (length l) l = [].
Proof. intros A l. induction l as [|a l IH]; [reflexivity|exact IH]. Qed.

Lemma up_flat_map_snoc : forall (A B : Type) (f : A -> list B) l x, flat_map f (l ++ [x]) = flat_map f l ++ f x.
Proof. intros A B f l x. rewrite flat_map_app. cbn [flat_map]. rewrite app_nil_r. reflexivity. Qed.

Lemma up_bytes_eqb_refl : forall a, bytes_eqb a a = true.
Proof. intros a. unfold bytes_eqb. destruct (list_eq_dec N.eq_dec a a) as [_|H]; [reflexivity|contradiction]. Qed.

Lemma up_bytes_eqb_true : forall a b, bytes_eqb a b = true -> a = b.
Proof. intros a b H. unfold bytes_eqb in H. destruct (list_eq_dec N.eq_dec a b) as [E|_]; [exact E|discriminate H]. Qed.

Lemma up_docs_eqb_refl : forall l, docs_eqb l l = true.
Proof.
  induction l as [|d l IH]; [reflexivity|]. cbn [docs_eqb]. unfold doc_eqb.
  rewrite up_bytes_eqb_refl, IH. reflexivity.
Qed.

Lemma up_lines_eqb_refl : forall l, lines_eqb l l = true.
Proof. induction l as [|d l IH]; [reflexivity|]. cbn [lines_eqb]. rewrite up_bytes_eqb_refl, IH. reflexivity. Qed.

Lemma up_length_zero : forall (A : Type) (l : list A), Z.of_nat (length l) = 0 -> l = [].
Proof. intros A l H. destruct l; [reflexivity|cbn [length] in H; lia]. Qed.

Ltac split_lets :=
  repeat match goal with
         | |- context [let '(_, _) := ?x in _] => destruct x
         | |- context [if ?x then _ else _] => destruct x
         | |- context [match ?x with Some _ => _ | None => _ end] => destruct x
         end.

(* ------------------------------------------------------------------ the writer *)
Lemma log_ev_wev : forall w w' p e, log_ev w w' p e -> wev_of w w' = e.
Proof.
  intros w w' p e H. unfold wev_of. destruct e as [| |k]; cbn [log_ev] in H; rewrite H.
  - rewrite up_skipn_all. reflexivity.
  - rewrite up_skipn_app. reflexivity.
  - rewrite up_skipn_app. reflexivity.
Qed.

Lemma w_write_ev : forall w p, exists w' ok e,
  w_write w p = (w', ok) /\ log_ev w w' p e /\ (ok = true <-> e = WDone).
Proof.
  intros w p. unfold w_write. destruct (w_faults w) as [|[| |k] r].
  - eexists _, true, WDone. split; [reflexivity|]. split; [reflexivity|]. split; reflexivity.
  - eexists _, true, WDone. split; [reflexivity|]. split; [reflexivity|]. split; reflexivity.
  - eexists _, false, WNone. split; [reflexivity|]. split; [reflexivity|]. split; discriminate.
  - eexists _, false, (WShort k). split; [reflexivity|]. split; [reflexivity|]. split; discriminate.
Qed.

Lemma w_write_ok : forall w p, next_write_ok w -> exists w', w_write w p = (w', true) /\ w_log w' = w_log w ++ [WFull p].
Proof.
  intros w p H. unfold w_write, next_write_ok in *. destruct (w_faults w) as [|[| |k] r]; try contradiction.
  - eexists. split; reflexivity.
  - eexists. split; reflexivity.
Qed.

(* ------------------------------------------------------------------ FlushCollector *)
Lemma flush_with_spec : forall (A : Type) (info : A -> Z * Z) (resolve : A -> option outp) (rst : A -> A)
    (c : A) (w : writer) (j : bool) (m : option doc) (p : list doc),
  snd (info c) = Z.of_nat (length p) ->
  resolve c = match p with [] => None | _ => Some (ODocs j (mh m ++ p)) end ->
  (p = [] /\ flush_with info resolve rst c w = (c, w, true)) \/
  (p <> [] /\ exists w' ok e, w_write w (ODocs j (mh m ++ p)) = (w', ok) /\
     log_ev w w' (ODocs j (mh m ++ p)) e /\ (ok = true <-> e = WDone) /\
     flush_with info resolve rst c w = ((if ok then rst c else c), w', ok)).
Proof.
  intros A info resolve rst c w j m p Hinfo Hres. unfold flush_with. rewrite Hinfo.
  destruct p as [|d p].
  - left. split; reflexivity.
  - right. split; [discriminate|].
    replace (Z.of_nat (length (d :: p)) =? 0) with false by (symmetry; apply Z.eqb_neq; cbn [length]; lia).
    rewrite Hres.
    destruct (w_write_ev w (ODocs j (mh m ++ d :: p))) as (w' & ok & e & Hw & Hlog & Hok).
    exists w', ok, e. rewrite Hw. repeat split; try assumption; try apply Hok.
    destruct ok; reflexivity.
Qed.

(* ------------------------------------------------------------------ uncompressedCollector *)
Definition uc_inv (j : bool) (n : Z) (u : ucoll) : Prop :=
  uc_json u = j /\ uc_batch u = n /\ Z.of_nat (length (uc_samples u)) <= n /\
  Forall (fun s : doc => s = [] \/ Z.of_nat (length s) = uc_mcount u) (uc_samples u) /\
  (uc_samples u = [] -> uc_mcount u = 0).

Lemma uc_resolve_spec : forall u,
  uc_resolve u = match uc_samples u with [] => None | _ => Some (ODocs (uc_json u) (mh (uc_meta u) ++ uc_samples u)) end.
Proof. intros u. unfold uc_resolve, mh. destruct (uc_samples u); reflexivity. Qed.

Lemma uc_new_inv : forall j n, 0 <= n -> uc_inv j n (mkUcoll j n 0 None []).
Proof. intros j n Hn. unfold uc_inv. cbn. repeat split; try lia. constructor. Qed.

Lemma uc_reset_inv : forall j n u, 0 <= n -> uc_inv j n u -> uc_inv j n (uc_reset u).
Proof.
  intros j n u Hn (Hj & Hb & _). unfold uc_inv, uc_reset. cbn [uc_json uc_batch uc_samples uc_mcount length].
  repeat split; try assumption; try lia. constructor.
Qed.

Lemma uc_set_meta_inv : forall j n u m, uc_inv j n u ->
  uc_inv j n (mkUcoll (uc_json u) (uc_batch u) (uc_mcount u) m (uc_samples u)).
Proof. intros j n u m H. exact H. Qed.

Lemma uc_add_spec : forall j n u d, 1 <= n -> uc_inv j n u ->
  exists u', uc_add u d = (u', uc_add_res u d) /\ uc_inv j n u' /\ uc_meta u' = uc_meta u /\
    uc_samples u' = uc_samples u ++ (match uc_add_res u d with ROk => [d] | _ => [] end).
Proof.
  intros j n u d Hn (Hj & Hb & Hlen & Hall & Hnil). unfold uc_add, uc_add_res.
  destruct (uc_mcount u =? 0) eqn:E0; cbn [negb andb].
  - apply Z.eqb_eq in E0. rewrite Z.eqb_refl. cbn [negb].
    assert (Hempty : Forall (fun s : doc => s = []) (uc_samples u)).
    { eapply Forall_impl; [|exact Hall]. intros s [Hs|Hs]; [exact Hs|]. rewrite E0 in Hs. apply up_length_zero. exact Hs. }
    destruct (uc_batch u <=? Z.of_nat (length (uc_samples u))) eqn:Eb.
    + eexists. split; [reflexivity|]. rewrite app_nil_r. split; [|split; reflexivity].
      unfold uc_inv. cbn [uc_json uc_batch uc_samples uc_mcount]. repeat split; try assumption.
      * eapply Forall_impl; [|exact Hempty]. intros s Hs. left. exact Hs.
      * intros Hs. apply Z.leb_le in Eb. rewrite Hs in Eb. cbn [length] in Eb. lia.
    + eexists. split; [reflexivity|]. split; [|split; reflexivity].
      apply Z.leb_gt in Eb.
      unfold uc_inv. cbn [uc_json uc_batch uc_samples uc_mcount]. repeat split; try assumption.
      * rewrite app_length. cbn [length]. lia.
      * apply Forall_app. split.
        -- eapply Forall_impl; [|exact Hempty]. intros s Hs. left. exact Hs.
        -- constructor; [right; reflexivity|constructor].
      * intros Hs. destruct (uc_samples u); discriminate Hs.
  - destruct (Z.of_nat (length d) =? uc_mcount u) eqn:El; cbn [negb].
    + apply Z.eqb_eq in El.
      destruct (uc_batch u <=? Z.of_nat (length (uc_samples u))) eqn:Eb.
      * eexists. split; [reflexivity|]. rewrite app_nil_r. split; [|split; reflexivity].
        unfold uc_inv. cbn [uc_json uc_batch uc_samples uc_mcount]. repeat split; assumption.
      * eexists. split; [reflexivity|]. split; [|split; reflexivity].
        apply Z.leb_gt in Eb.
        unfold uc_inv. cbn [uc_json uc_batch uc_samples uc_mcount]. repeat split; try assumption.
        -- rewrite app_length. cbn [length]. lia.
        -- apply Forall_app. split; [exact Hall|]. constructor; [right; exact El|constructor].
        -- intros Hs. destruct (uc_samples u); discriminate Hs.
    + eexists. split; [reflexivity|]. rewrite app_nil_r. split; [|split; reflexivity].
      unfold uc_inv. cbn [uc_json uc_batch uc_samples uc_mcount]. repeat split; assumption.
Qed.

(* ------------------------------------------------------------------ streamingCollector over an uncompressed collector *)
Section Kinds.
Variable deflate : bytes -> bytes.

(* s wraps the uncompressed collector u *)
Definition sc_holds (j : bool) (n : Z) (s : scoll) (u : ucoll) : Prop :=
  sc_inner s = IU u /\ uc_inv j n u /\ sc_max s = n /\ sc_count s = Z.of_nat (length (uc_samples u)).

Definition payload (j : bool) (u : ucoll) : outp := ODocs j (mh (uc_meta u) ++ uc_samples u).

Lemma sc_reset_holds : forall j n s u, 0 <= n -> sc_holds j n s u -> sc_holds j n (sc_reset s) (uc_reset u).
Proof.
  intros j n s u Hn (Hi & Hu & Hm & Hc). unfold sc_holds, sc_reset. cbn [sc_inner sc_max sc_count].
  rewrite Hi. cbn [in_reset]. split; [reflexivity|]. split; [apply uc_reset_inv; assumption|].
  split; [exact Hm|reflexivity].
Qed.

Lemma sc_flush_spec : forall j n s u w, sc_holds j n s u ->
  (uc_samples u = [] /\ sc_flush deflate s w = (s, w, true)) \/
  (uc_samples u <> [] /\ exists w' ok e, w_write w (payload j u) = (w', ok) /\
     log_ev w w' (payload j u) e /\ (ok = true <-> e = WDone) /\
     sc_flush deflate s w = ((if ok then sc_reset s else s), w', ok)).
Proof.
  intros j n s u w (Hi & Hu & Hm & Hc). unfold sc_flush, payload.
  apply flush_with_spec.
  - rewrite Hi. reflexivity.
  - rewrite Hi. cbn [in_resolve]. rewrite uc_resolve_spec. destruct Hu as (Hj & _). rewrite Hj. reflexivity.
Qed.

(* the three outcomes of an Add through a wrapper of type S holding u:
   no write; a completed write of everything pending followed by the acceptance
   of d; a failed write that leaves the collector as it was *)
Inductive gen_out (S : Type) (holds : S -> ucoll -> Prop) (j : bool) (u : ucoll) (w : writer) (d : doc)
  : S -> ucoll -> writer -> ares -> Prop :=
| so_quiet : forall s' u' r, r <> RFlush -> holds s' u' -> uc_meta u' = uc_meta u ->
    uc_samples u' = uc_samples u ++ (match r with ROk => [d] | _ => [] end) ->
    gen_out S holds j u w d s' u' w r
| so_wrote : forall s' u' w', uc_samples u <> [] -> w_log w' = w_log w ++ [WFull (payload j u)] ->
    holds s' u' -> uc_meta u' = uc_meta u -> uc_samples u' = [d] ->
    gen_out S holds j u w d s' u' w' ROk
| so_failed : forall s' w' e, holds s' u -> uc_samples u <> [] -> log_ev w w' (payload j u) e -> e <> WDone ->
    gen_out S holds j u w d s' u w' RFlush.
Arguments gen_out {S} holds j u w d _ _ _ _.
Definition sc_out (j : bool) (n : Z) := gen_out (sc_holds j n) j.

Lemma scoll_eta : forall s, mkScoll (sc_max s) (sc_count s) (sc_inner s) = s.
Proof. intros []. reflexivity. Qed.

(* below capacity: no write, the wrapped collector decides *)
Lemma sc_add_room : forall j n s u w d now, 1 <= n -> sc_holds j n s u ->
  Z.of_nat (length (uc_samples u)) < n ->
  exists s' u', sc_add deflate s w d now = (s', w, uc_add_res u d) /\ sc_holds j n s' u' /\
    uc_meta u' = uc_meta u /\
    uc_samples u' = uc_samples u ++ (match uc_add_res u d with ROk => [d] | _ => [] end) /\
    uc_add_res u d <> RFlush.
Proof.
  intros j n s u w d now Hn (Hi & Hu & Hm & Hc) Hlt. unfold sc_add.
  replace (sc_max s <=? sc_count s) with false by (symmetry; apply Z.leb_gt; lia).
  cbn [negb]. rewrite Hi. cbn [in_add].
  destruct (uc_add_spec j n u d Hn Hu) as (u' & Ha & Hu' & Hmeta & Hs). rewrite Ha.
  assert (Hnf : uc_add_res u d <> RFlush).
  { unfold uc_add_res. destruct (_ && _); [discriminate|]. destruct (_ <=? _); discriminate. }
  destruct (uc_add_res u d) eqn:Er; (eexists _, u'; split; [reflexivity|]; split; [|split; [exact Hmeta|split; [exact Hs|exact Hnf]]]);
    unfold sc_holds; cbn [sc_inner sc_max sc_count]; (split; [reflexivity|]); (split; [exact Hu'|]); (split; [exact Hm|]);
    rewrite Hs, ?app_nil_r, ?app_length; cbn [length]; lia.
Qed.

(* at capacity: flush first; the emptied collector accepts any document *)
Lemma sc_add_full : forall j n s u w d now, 1 <= n -> sc_holds j n s u ->
  n <= Z.of_nat (length (uc_samples u)) ->
  uc_samples u <> [] /\
  exists w' ok e, w_write w (payload j u) = (w', ok) /\ log_ev w w' (payload j u) e /\ (ok = true <-> e = WDone) /\
    if ok then exists s' u', sc_add deflate s w d now = (s', w', ROk) /\ sc_holds j n s' u' /\
                 uc_meta u' = uc_meta u /\ uc_samples u' = [d]
    else sc_add deflate s w d now = (s, w', RFlush).
Proof.
  intros j n s u w d now Hn Hh Hge. pose proof Hh as (Hi & Hu & Hm & Hc).
  assert (Hne : uc_samples u <> []) by (intros E; rewrite E in Hge; cbn [length] in Hge; lia).
  split; [exact Hne|]. unfold sc_add.
  replace (sc_max s <=? sc_count s) with true by (symmetry; apply Z.leb_le; lia).
  destruct (sc_flush_spec j n s u w Hh) as [[E _]|(_ & w' & ok & e & Hw & Hlog & Hok & Hf)]; [contradiction|].
  exists w', ok, e. split; [exact Hw|]. split; [exact Hlog|]. split; [exact Hok|].
  rewrite Hf. destruct ok; cbn [negb].
  - assert (Hr : sc_holds j n (sc_reset s) (uc_reset u)) by (apply sc_reset_holds; [lia|exact Hh]).
    destruct Hr as (Hi' & Hu' & Hm' & Hc'). rewrite Hi'. cbn [in_add].
    destruct (uc_add_spec j n (uc_reset u) d Hn Hu') as (u2 & Ha & Hu2 & Hmeta & Hs). rewrite Ha.
    assert (Er : uc_add_res (uc_reset u) d = ROk).
    { unfold uc_add_res, uc_reset. cbn [uc_mcount uc_batch uc_samples length]. cbn [Z.eqb negb andb].
      destruct Hu as (_ & Hb & _). rewrite Hb. replace (n <=? Z.of_nat 0) with false by (symmetry; apply Z.leb_gt; lia). reflexivity. }
    rewrite Er in *. eexists _, u2. split; [reflexivity|]. split; [|split; [exact Hmeta|exact Hs]].
    unfold sc_holds. cbn [sc_inner sc_max sc_count]. split; [reflexivity|]. split; [exact Hu2|]. split; [exact Hm'|].
    rewrite Hs. cbn [sc_reset sc_count uc_reset uc_samples app length]. lia.
  - reflexivity.
Qed.

Lemma sc_add_out : forall j n s u w d now, 1 <= n -> sc_holds j n s u ->
  exists s' u' w' r, sc_add deflate s w d now = (s', w', r) /\ sc_out j n u w d s' u' w' r.
Proof.
  intros j n s u w d now Hn Hh.
  destruct (Z_lt_le_dec (Z.of_nat (length (uc_samples u))) n) as [Hlt|Hge].
  - destruct (sc_add_room j n s u w d now Hn Hh Hlt) as (s' & u' & Ha & Hh' & Hm & Hs & Hnf).
    exists s', u', w, (uc_add_res u d). split; [exact Ha|]. apply so_quiet; assumption.
  - destruct (sc_add_full j n s u w d now Hn Hh Hge) as (Hne & w' & ok & e & Hw & Hlog & Hok & Hres).
    destruct ok.
    + destruct Hres as (s' & u' & Ha & Hh' & Hm & Hs).
      exists s', u', w', ROk. split; [exact Ha|]. apply so_wrote; try assumption.
      assert (e = WDone) by (apply Hok; reflexivity). subst e. exact Hlog.
    + exists s, u, w', RFlush. split; [exact Hres|]. apply so_failed with (e := e); try assumption.
      intros E. apply Hok in E. discriminate E.
Qed.

(* ------------------------------------------------------------------ streamingDynamicCollector over an uncompressed collector *)
Definition sd_holds (j : bool) (n : Z) (c : sdcoll) (u : ucoll) : Prop :=
  sc_holds j n (sd_s c) u /\
  match sd_hash c with
  | None => uc_samples u = []
  | Some h => Forall (fun s => schema_sig s = (h, sd_mcount c)) (uc_samples u)
  end.

Lemma sdcoll_eta : forall c, mkSdcoll (sd_hash c) (sd_mcount c) (sd_s c) = c.
Proof. intros []. reflexivity. Qed.

Lemma sd_reset_holds : forall j n c u, 0 <= n -> sd_holds j n c u -> sd_holds j n (sd_reset c) (uc_reset u).
Proof.
  intros j n c u Hn (Hs & _). split.
  - cbn [sd_reset sd_s]. apply sc_reset_holds; assumption.
  - reflexivity.
Qed.

Lemma sd_flush_spec : forall j n c u w, sd_holds j n c u ->
  (uc_samples u = [] /\ sd_flush deflate c w = (c, w, true)) \/
  (uc_samples u <> [] /\ exists w' ok e, w_write w (payload j u) = (w', ok) /\
     log_ev w w' (payload j u) e /\ (ok = true <-> e = WDone) /\
     sd_flush deflate c w = ((if ok then sd_reset c else c), w', ok)).
Proof.
  intros j n c u w ((Hi & Hu & Hm & Hc) & _). unfold sd_flush, payload.
  apply flush_with_spec.
  - rewrite Hi. reflexivity.
  - rewrite Hi. cbn [in_resolve]. rewrite uc_resolve_spec. destruct Hu as (Hj & _). rewrite Hj. reflexivity.
Qed.

Lemma uc_add_res_empty : forall j n u d, 1 <= n -> uc_inv j n u -> uc_samples u = [] -> uc_add_res u d = ROk.
Proof.
  intros j n u d Hn (_ & Hb & _ & _ & Hnil) He. unfold uc_add_res. rewrite (Hnil He), He, Hb.
  cbn [Z.eqb negb andb length]. replace (n <=? Z.of_nat 0) with false by (symmetry; apply Z.leb_gt; lia). reflexivity.
Qed.

Lemma sd_add_eq : forall c w d now,
  sd_add deflate c w d now =
  let '(c1, w1, ok) :=
    if sd_changed c d then
      let '(c', w', ok') := if 0 <? sc_count (sd_s c) then sd_flush deflate c w else (c, w, true) in
      if ok' then (mkSdcoll (Some (fst (schema_sig d))) (snd (schema_sig d)) (sd_s c'), w', true) else (c', w', false)
    else (c, w, true) in
  if negb ok then (c1, w1, RFlush)
  else let '(s', w2, r) := sc_add deflate (sd_s c1) w1 d now in
       (mkSdcoll (sd_hash c1) (sd_mcount c1) s', w2, r).
Proof. intros c w d now. unfold sd_add, sd_changed. destruct (schema_sig d) as [sig num]. reflexivity. Qed.

(* a document whose signature is new on an empty collector: recorded, accepted *)
Lemma sd_add_fresh : forall j n c u w d now, 1 <= n -> sd_holds j n c u ->
  sd_changed c d = true -> uc_samples u = [] ->
  exists c' u', sd_add deflate c w d now = (c', w, ROk) /\ sd_holds j n c' u' /\
    uc_meta u' = uc_meta u /\ uc_samples u' = [d].
Proof.
  intros j n c u w d now Hn (Hs & _) Hch He. rewrite sd_add_eq, Hch.
  pose proof Hs as (_ & Hu & _ & Hc).
  replace (0 <? sc_count (sd_s c)) with false by (symmetry; apply Z.ltb_ge; rewrite Hc, He; cbn [length]; lia).
  cbn [negb sd_s].
  destruct (sc_add_room j n (sd_s c) u w d now Hn Hs) as (s' & u' & Ha & Hh' & Hm & Hsm & _).
  { rewrite He. cbn [length]. lia. }
  rewrite (uc_add_res_empty j n u d Hn Hu He) in *. rewrite Ha.
  eexists _, u'. split; [reflexivity|]. split; [|split; [exact Hm|rewrite Hsm, He; reflexivity]].
  split; [exact Hh'|]. cbn [sd_hash sd_mcount]. rewrite Hsm, He. cbn [app].
  constructor; [|constructor]. destruct (schema_sig d); reflexivity.
Qed.

(* a document whose signature differs from the pending samples': flush, then accept *)
Lemma sd_add_change : forall j n c u w d now, 1 <= n -> sd_holds j n c u ->
  sd_changed c d = true -> uc_samples u <> [] ->
  exists w' ok e, w_write w (payload j u) = (w', ok) /\ log_ev w w' (payload j u) e /\ (ok = true <-> e = WDone) /\
    if ok then exists c' u', sd_add deflate c w d now = (c', w', ROk) /\ sd_holds j n c' u' /\
                 uc_meta u' = uc_meta u /\ uc_samples u' = [d]
    else sd_add deflate c w d now = (c, w', RFlush).
Proof.
  intros j n c u w d now Hn Hh Hch Hne. pose proof Hh as (Hs & _). pose proof Hs as (_ & Hu & _ & Hc).
  rewrite sd_add_eq, Hch.
  replace (0 <? sc_count (sd_s c)) with true.
  2:{ symmetry. apply Z.ltb_lt. rewrite Hc. destruct (uc_samples u); [contradiction|cbn [length]; lia]. }
  destruct (sd_flush_spec j n c u w Hh) as [[E _]|(_ & w' & ok & e & Hw & Hlog & Hok & Hf)]; [contradiction|].
  exists w', ok, e. split; [exact Hw|]. split; [exact Hlog|]. split; [exact Hok|].
  rewrite Hf. destruct ok; cbn [negb sd_s sd_hash sd_mcount]; [|reflexivity].
  assert (Hr : sc_holds j n (sc_reset (sd_s c)) (uc_reset u)) by (apply sc_reset_holds; [lia|exact Hs]).
  destruct (sc_add_room j n (sc_reset (sd_s c)) (uc_reset u) w' d now Hn Hr) as (s' & u' & Ha & Hh' & Hm & Hsm & _).
  { cbn [uc_reset uc_samples length]. lia. }
  assert (Er : uc_add_res (uc_reset u) d = ROk).
  { apply (uc_add_res_empty j n); [exact Hn| |reflexivity]. destruct Hr as (_ & Hx & _). exact Hx. }
  rewrite Er in *. cbn [sd_reset sd_s]. rewrite Ha.
  eexists _, u'. split; [reflexivity|]. split; [|split; [exact Hm|exact Hsm]].
  split; [exact Hh'|]. cbn [sd_hash sd_mcount]. rewrite Hsm. cbn [uc_reset uc_samples app].
  constructor; [|constructor]. destruct (schema_sig d); reflexivity.
Qed.

(* same signature as the pending samples: the streaming wrapper decides *)
Lemma sd_add_same : forall j n c u w d now, 1 <= n -> sd_holds j n c u -> sd_changed c d = false ->
  exists s' u' w' r, sc_add deflate (sd_s c) w d now = (s', w', r) /\ sc_out j n u w d s' u' w' r /\
    sd_add deflate c w d now = (mkSdcoll (sd_hash c) (sd_mcount c) s', w', r) /\
    sd_holds j n (mkSdcoll (sd_hash c) (sd_mcount c) s') u'.
Proof.
  intros j n c u w d now Hn (Hs & Hhash) Hch.
  destruct (sc_add_out j n (sd_s c) u w d now Hn Hs) as (s' & u' & w' & r & Ha & Ho).
  exists s', u', w', r. split; [exact Ha|]. split; [exact Ho|].
  rewrite sd_add_eq, Hch. cbn [negb]. rewrite Ha. split; [reflexivity|].
  unfold sd_changed in Hch. destruct (sd_hash c) as [h|] eqn:Eh; [|discriminate Hch].
  apply orb_false_iff in Hch. destruct Hch as [H1 H2].
  apply negb_false_iff in H1, H2. apply Z.eqb_eq in H1. apply up_bytes_eqb_true in H2.
  assert (Hd : schema_sig d = (h, sd_mcount c)) by (destruct (schema_sig d); cbn [fst snd] in *; subst; reflexivity).
  unfold sc_out in Ho. inversion Ho as [s2 u2 r2 Hnf Hh2 Hm2 Hs2|s2 u2 w2 Hne Hlog Hh2 Hm2 Hs2|s2 w2 e Hh2 Hne Hlog He]; subst.
  - split; [exact Hh2|]. cbn [sd_hash sd_mcount]. rewrite Hs2. apply Forall_app. split; [exact Hhash|].
    destruct r; constructor; try constructor. exact Hd.
  - split; [exact Hh2|]. cbn [sd_hash sd_mcount]. rewrite Hs2. constructor; [exact Hd|constructor].
  - split; [exact Hh2|]. cbn [sd_hash sd_mcount]. exact Hhash.
Qed.

Definition sd_out (j : bool) (n : Z) := gen_out (sd_holds j n) j.

Lemma sd_add_out : forall j n c u w d now, 1 <= n -> sd_holds j n c u ->
  exists c' u' w' r, sd_add deflate c w d now = (c', w', r) /\ sd_out j n u w d c' u' w' r.
Proof.
  intros j n c u w d now Hn Hh. destruct (sd_changed c d) eqn:Hch.
  - destruct (uc_samples u) as [|x xs] eqn:Es.
    + destruct (sd_add_fresh j n c u w d now Hn Hh Hch Es) as (c' & u' & Ha & Hh' & Hm & Hs).
      exists c', u', w, ROk. split; [exact Ha|]. apply so_quiet; try assumption; [discriminate|].
      rewrite Es. exact Hs.
    + assert (Hne : uc_samples u <> []) by (rewrite Es; discriminate).
      destruct (sd_add_change j n c u w d now Hn Hh Hch Hne) as (w' & ok & e & Hw & Hlog & Hok & Hres).
      destruct ok.
      * destruct Hres as (c' & u' & Ha & Hh' & Hm & Hs).
        exists c', u', w', ROk. split; [exact Ha|]. apply so_wrote; try assumption.
        assert (e = WDone) by (apply Hok; reflexivity). subst e. exact Hlog.
      * exists c, u, w', RFlush. split; [exact Hres|]. apply so_failed with (e := e); try assumption.
        intros E. apply Hok in E. discriminate E.
  - destruct (sd_add_same j n c u w d now Hn Hh Hch) as (s' & u' & w' & r & _ & Ho & Ha & Hh').
    eexists _, u', w', r. split; [exact Ha|].
    unfold sc_out in Ho. inversion Ho as [s2 u2 r2 Hnf Hh2 Hm2 Hs2|s2 u2 w2 Hne Hlog Hh2 Hm2 Hs2|s2 w2 e Hh2 Hne Hlog He]; subst.
    + apply so_quiet; assumption.
    + apply so_wrote; assumption.
    + apply so_failed with (e := e); assumption.
Qed.

(* ------------------------------------------------------------------ all three classes behind the collector interface *)
Definition st_holds (j : bool) (n : Z) (c : coll) (u : ucoll) : Prop :=
  match c with
  | CUnc x => x = u /\ uc_inv j n u
  | CStream s => sc_holds j n s u
  | CSDyn x => sd_holds j n x u
  | _ => False
  end.

Definition is_sdyn (c : coll) : bool := match c with CSDyn _ => true | _ => false end.

Lemma st_holds_proj : forall j n c u, st_holds j n c u -> coll_ucoll c = Some u /\ uc_inv j n u.
Proof.
  intros j n c u H. destruct c as [| | |s|x|x]; cbn [st_holds] in H; try contradiction.
  - destruct H as (Hi & Hu & _). cbn [coll_ucoll]. rewrite Hi. split; [reflexivity|exact Hu].
  - destruct H as ((Hi & Hu & _) & _). cbn [coll_ucoll]. rewrite Hi. split; [reflexivity|exact Hu].
  - destruct H as (E & Hu). subst x. split; [reflexivity|exact Hu].
Qed.

Lemma st_holds_pend : forall j n c u, st_holds j n c u -> pend c = uc_samples u /\ cmeta c = uc_meta u /\ cjson c = Some j.
Proof.
  intros j n c u H. apply st_holds_proj in H. destruct H as (E & (Hj & _)). unfold pend, cmeta, cjson. rewrite E, Hj.
  repeat split.
Qed.

Lemma st_holds_obs : forall j n c u, st_holds j n c u ->
  c_info c = (uc_mcount u, Z.of_nat (length (uc_samples u))) /\ c_resolve deflate c = uc_resolve u.
Proof.
  intros j n c u H. destruct c as [| | |s|x|x]; cbn [st_holds] in H; try contradiction.
  - destruct H as (Hi & _). cbn [c_info c_resolve]. rewrite Hi. split; reflexivity.
  - destruct H as ((Hi & _) & _). cbn [c_info c_resolve]. rewrite Hi. split; reflexivity.
  - destruct H as (E & _). subst x. split; reflexivity.
Qed.

Lemma st_new_holds : forall k n, unc_kind k = true -> 0 <= n ->
  st_holds (kind_json k) n (new_coll k n) (mkUcoll (kind_json k) n 0 None []).
Proof.
  intros k n Hk Hn. pose proof (uc_new_inv (kind_json k) n Hn) as Hu.
  destruct k; try discriminate Hk; cbn [new_coll st_holds kind_json] in *.
  - split; [reflexivity|exact Hu].
  - split; [reflexivity|exact Hu].
  - repeat split; try apply Hu.
  - repeat split; try apply Hu.
  - repeat split; try apply Hu.
  - repeat split; try apply Hu.
Qed.

Lemma c_reset_holds : forall j n c u, 0 <= n -> st_holds j n c u -> st_holds j n (c_reset c) (uc_reset u).
Proof.
  intros j n c u Hn H. destruct c as [| | |s|x|x]; cbn [st_holds] in H; try contradiction; cbn [c_reset st_holds].
  - apply sc_reset_holds; assumption.
  - apply sd_reset_holds; assumption.
  - destruct H as (E & Hu). subst x. split; [reflexivity|apply uc_reset_inv; assumption].
Qed.

Definition uc_with_meta (u : ucoll) (m : option doc) : ucoll :=
  mkUcoll (uc_json u) (uc_batch u) (uc_mcount u) m (uc_samples u).

Lemma c_set_meta_holds : forall j n c u m, st_holds j n c u -> st_holds j n (c_set_meta c m) (uc_with_meta u m).
Proof.
  intros j n c u m H. destruct c as [| | |s|x|x]; cbn [st_holds] in H; try contradiction; cbn [c_set_meta st_holds].
  - destruct H as (Hi & Hu & Hm & Hc). unfold sc_holds. cbn [sc_inner sc_max sc_count]. rewrite Hi. cbn [in_set_meta].
    split; [reflexivity|]. split; [exact Hu|]. split; assumption.
  - destruct H as ((Hi & Hu & Hm & Hc) & Hh). unfold sd_holds, sc_holds. cbn [sd_s sd_hash sd_mcount sc_inner sc_max sc_count].
    rewrite Hi. cbn [in_set_meta]. split; [|exact Hh].
    split; [reflexivity|]. split; [exact Hu|]. split; assumption.
  - destruct H as (E & Hu). subst x. split; [reflexivity|exact Hu].
Qed.

Lemma gen_out_map : forall (S T : Type) (h1 : S -> ucoll -> Prop) (h2 : T -> ucoll -> Prop) (f : S -> T),
  (forall s u, h1 s u -> h2 (f s) u) ->
  forall j u w d s' u' w' r, gen_out h1 j u w d s' u' w' r -> gen_out h2 j u w d (f s') u' w' r.
Proof.
  intros S T h1 h2 f Hf j u w d s' u' w' r Ho.
  inversion Ho as [s2 u2 r2 Hnf Hh2 Hm2 Hs2|s2 u2 w2 Hne Hlog Hh2 Hm2 Hs2|s2 w2 e Hh2 Hne Hlog He]; subst.
  - apply so_quiet; try assumption. apply Hf. exact Hh2.
  - apply so_wrote; try assumption. apply Hf. exact Hh2.
  - apply so_failed with (e := e); try assumption. apply Hf. exact Hh2.
Qed.

Lemma c_add_out : forall j n c u w d now, 1 <= n -> st_holds j n c u ->
  exists c' u' w' r, c_add deflate c w d now = (c', w', r) /\ gen_out (st_holds j n) j u w d c' u' w' r /\
    is_sdyn c' = is_sdyn c.
Proof.
  intros j n c u w d now Hn H. destruct c as [| | |s|x|x]; cbn [st_holds] in H; try contradiction; cbn [c_add].
  - destruct (sc_add_out j n s u w d now Hn H) as (s' & u' & w' & r & Ha & Ho). rewrite Ha.
    exists (CStream s'), u', w', r. split; [reflexivity|]. split; [|reflexivity].
    apply (gen_out_map _ _ (sc_holds j n) (st_holds j n) CStream); [|exact Ho]. intros s0 u0 H0. exact H0.
  - destruct (sd_add_out j n x u w d now Hn H) as (s' & u' & w' & r & Ha & Ho). rewrite Ha.
    exists (CSDyn s'), u', w', r. split; [reflexivity|]. split; [|reflexivity].
    apply (gen_out_map _ _ (sd_holds j n) (st_holds j n) CSDyn); [|exact Ho]. intros s0 u0 H0. exact H0.
  - destruct H as (E & Hu). subst x.
    destruct (uc_add_spec j n u d Hn Hu) as (u' & Ha & Hu' & Hm & Hs). rewrite Ha.
    exists (CUnc u'), u', w, (uc_add_res u d). split; [reflexivity|]. split; [|reflexivity].
    apply so_quiet; try assumption.
    + unfold uc_add_res. destruct (_ && _); [discriminate|]. destruct (_ <=? _); discriminate.
    + split; [reflexivity|exact Hu'].
Qed.

(* FlushCollector on any of the kinds *)
Inductive flush_out (j : bool) (n : Z) (c : coll) (u : ucoll) (w : writer) : coll -> ucoll -> writer -> bool -> Prop :=
| fo_quiet : uc_samples u = [] -> flush_out j n c u w c u w true
| fo_wrote : forall w', uc_samples u <> [] -> w_log w' = w_log w ++ [WFull (payload j u)] ->
    flush_out j n c u w (c_reset c) (uc_reset u) w' true
| fo_failed : forall w' e, uc_samples u <> [] -> log_ev w w' (payload j u) e -> e <> WDone ->
    flush_out j n c u w c u w' false.

Lemma flush_res_out : forall j n c u w w' ok e (c' : coll),
  uc_samples u <> [] -> log_ev w w' (payload j u) e -> (ok = true <-> e = WDone) ->
  c' = (if ok then c_reset c else c) ->
  flush_out j n c u w c' (if ok then uc_reset u else u) w' ok.
Proof.
  intros j n c u w w' ok e c' Hne Hlog Hok E. subst c'. destruct ok.
  - assert (e = WDone) by (apply Hok; reflexivity). subst e. apply fo_wrote; assumption.
  - apply fo_failed with (e := e); try assumption. intros E. apply Hok in E. discriminate E.
Qed.

Lemma c_flush_out : forall j n c u w, st_holds j n c u ->
  exists c' u' w' ok, c_flush deflate c w = (c', w', ok) /\ flush_out j n c u w c' u' w' ok.
Proof.
  intros j n c u w H. pose proof H as H0. destruct c as [| | |s|x|x]; cbn [st_holds] in H; try contradiction; cbn [c_flush].
  - destruct (sc_flush_spec j n s u w H) as [[E Hf]|(Hne & w' & ok & e & Hw & Hlog & Hok & Hf)]; rewrite Hf.
    + exists (CStream s), u, w, true. split; [reflexivity|]. apply fo_quiet. exact E.
    + eexists _, _, w', ok. split; [reflexivity|]. apply (flush_res_out j n (CStream s) u w w' ok e); try assumption.
      destruct ok; reflexivity.
  - destruct (sd_flush_spec j n x u w H) as [[E Hf]|(Hne & w' & ok & e & Hw & Hlog & Hok & Hf)]; rewrite Hf.
    + exists (CSDyn x), u, w, true. split; [reflexivity|]. apply fo_quiet. exact E.
    + eexists _, _, w', ok. split; [reflexivity|]. apply (flush_res_out j n (CSDyn x) u w w' ok e); try assumption.
      destruct ok; reflexivity.
  - destruct H as (E & Hu). subst x.
    destruct (flush_with_spec coll c_info (c_resolve deflate) c_reset (CUnc u) w j (uc_meta u) (uc_samples u))
      as [[E Hf]|(Hne & w' & ok & e & Hw & Hlog & Hok & Hf)].
    + reflexivity.
    + cbn [c_resolve]. rewrite uc_resolve_spec. destruct Hu as (Hj & _). rewrite Hj. reflexivity.
    + rewrite Hf. exists (CUnc u), u, w, true. split; [reflexivity|]. apply fo_quiet. exact E.
    + rewrite Hf. eexists _, _, w', ok. split; [reflexivity|].
      apply (flush_res_out j n (CUnc u) u w w' ok e); try assumption. reflexivity.
Qed.

(* Add of an unreadable input *)
Lemma c_add_bad_out : forall j n c u w, st_holds j n c u ->
  exists c' u' w' r, c_add_bad deflate c w = (c', w', r) /\ r <> ROk /\ is_sdyn c' = is_sdyn c /\
    ((c' = c /\ u' = u /\ w' = w) \/ exists ok, flush_out j n c u w c' u' w' ok).
Proof.
  intros j n c u w H. pose proof H as H0. destruct c as [| | |s|x|x]; cbn [st_holds] in H; try contradiction; cbn [c_add_bad].
  - destruct (sc_max s <=? sc_count s).
    + destruct (c_flush_out j n (CStream s) u w H0) as (c' & u' & w' & ok & Hf & Ho). cbn [c_flush] in Hf.
      destruct (sc_flush deflate s w) as [[s1 w1] ok1]. injection Hf as E1 E2 E3. subst c' w' ok.
      exists (CStream s1), u', w1, (if ok1 then RCount else RFlush). split; [reflexivity|].
      split; [destruct ok1; discriminate|]. split; [reflexivity|]. right. exists ok1. exact Ho.
    + exists (CStream s), u, w, RCount. split; [reflexivity|]. split; [discriminate|]. split; [reflexivity|].
      left. repeat split.
  - exists (CSDyn x), u, w, RCount. split; [reflexivity|]. split; [discriminate|]. split; [reflexivity|]. left. repeat split.
  - exists (CUnc x), u, w, RCount. split; [reflexivity|]. split; [discriminate|]. split; [reflexivity|]. left. repeat split.
Qed.

(* ------------------------------------------------------------------ refinement *)
(* summary of a transition that may write once and then append [added] *)
Definition tr (j : bool) (n : Z) (u : ucoll) (w : writer) (added : list doc) (c' : coll) (u' : ucoll) (w' : writer) : Prop :=
  st_holds j n c' u' /\ uc_meta u' = uc_meta u /\
  exists e, log_ev w w' (payload j u) e /\ (e <> WNone -> uc_samples u <> []) /\
    uc_samples u' = (match e with WDone => [] | _ => uc_samples u end) ++ added.

Lemma gen_out_tr : forall j n u w d c' u' w' r,
  gen_out (st_holds j n) j u w d c' u' w' r -> tr j n u w (match r with ROk => [d] | _ => [] end) c' u' w'.
Proof.
  intros j n u w d c' u' w' r Ho.
  inversion Ho as [s2 u2 r2 Hnf Hh2 Hm2 Hs2|s2 u2 w2 Hne Hlog Hh2 Hm2 Hs2|s2 w2 e Hh2 Hne Hlog He]; subst.
  - split; [exact Hh2|]. split; [exact Hm2|]. exists WNone. split; [reflexivity|]. split; [intros X; contradiction|exact Hs2].
  - split; [exact Hh2|]. split; [exact Hm2|]. exists WDone. split; [exact Hlog|]. split; [intros _; exact Hne|exact Hs2].
  - split; [exact Hh2|]. split; [reflexivity|]. exists e. split; [exact Hlog|]. split; [intros _; exact Hne|].
    rewrite app_nil_r. destruct e; [reflexivity|contradiction|reflexivity].
Qed.

Lemma flush_out_tr : forall j n c u w c' u' w' ok, 0 <= n -> st_holds j n c u ->
  flush_out j n c u w c' u' w' ok -> tr j n u w [] c' u' w'.
Proof.
  intros j n c u w c' u' w' ok Hn Hh Ho. inversion Ho as [He|w2 Hne Hlog|w2 e Hne Hlog He]; subst.
  - split; [exact Hh|]. split; [reflexivity|]. exists WNone. split; [reflexivity|]. split; [intros X; contradiction|].
    rewrite app_nil_r. reflexivity.
  - split; [apply c_reset_holds; assumption|]. split; [reflexivity|]. exists WDone. split; [exact Hlog|].
    split; [intros _; exact Hne|reflexivity].
  - split; [exact Hh|]. split; [reflexivity|]. exists e. split; [exact Hlog|]. split; [intros _; exact Hne|].
    rewrite app_nil_r. destruct e; [reflexivity|contradiction|reflexivity].
Qed.

Definition Inv (j : bool) (n : Z) (st : coll * writer) (a : aspec) : Prop :=
  (exists u, st_holds j n (fst st) u) /\ refines j st a /\ recs_bounded n a /\
  (is_sdyn (fst st) = true -> recs_unmixed a).

Lemma sd_pending_one_schema : forall j n c u, st_holds j n c u -> is_sdyn c = true -> one_schema (uc_samples u).
Proof.
  intros j n c u H Hs. destruct c as [| | |s|x|x]; try discriminate Hs. cbn [st_holds] in H. destruct H as (_ & Hh).
  destruct (sd_hash x) as [h|].
  - intros a b Ha Hb. rewrite Forall_forall in Hh. rewrite (Hh a Ha), (Hh b Hb). reflexivity.
  - rewrite Hh. intros a b [].
Qed.

Lemma tr_inv : forall j n c w a u added c' u' w',
  Inv j n (c, w) a -> st_holds j n c u -> tr j n u w added c' u' w' -> is_sdyn c' = is_sdyn c ->
  let a1 := spec_flush a (wev_of w w') in
  Inv j n (c', w') (mkAspec (a_recs a1) (a_pend a1 ++ added) (a_meta a)).
Proof.
  intros j n c w a u added c' u' w' (_ & (Hlog & Hp & Hm) & Hb & Hx) Hh (Hh' & Hmeta & e & Hev & Hne & Hs) Hcls.
  cbn [fst snd] in *.
  destruct (st_holds_pend j n c u Hh) as (Ep & Em & _). destruct (st_holds_pend j n c' u' Hh') as (Ep' & Em' & _).
  rewrite Ep in Hp. rewrite Em in Hm.
  rewrite (log_ev_wev w w' _ e Hev). cbn zeta.
  assert (Hu : uc_inv j n u) by (apply (st_holds_proj j n c u Hh)).
  destruct Hu as (_ & _ & Hlen & _).
  split; [exists u'; exact Hh'|]. unfold refines. cbn [fst snd].
  destruct e as [| |k]; cbn [spec_flush a_recs a_pend a_meta log_ev] in *.
  - split; [|split; [exact Hb|rewrite Hcls; exact Hx]].
    split; [rewrite Hev; exact Hlog|]. split; [rewrite Ep', Hs, Hp; reflexivity|rewrite Em', Hmeta; exact Hm].
  - assert (Hne' : uc_samples u <> []) by (apply Hne; discriminate).
    split; [|split].
    + split; [|split; [rewrite Ep', Hs; reflexivity|rewrite Em', Hmeta; exact Hm]].
      rewrite Hev, Hlog, map_app. cbn [map]. unfold wrec_of, payload. cbn [gr_meta gr_samples gr_part].
      rewrite <- Hp, <- Hm. reflexivity.
    + unfold recs_bounded. cbn [a_recs]. apply Forall_app. split; [exact Hb|]. constructor; [|constructor].
      cbn [gr_samples]. rewrite <- Hp. split; assumption.
    + intros Hsd. rewrite Hcls in Hsd. unfold recs_unmixed. cbn [a_recs]. apply Forall_app. split; [apply Hx; exact Hsd|].
      constructor; [|constructor]. cbn [gr_samples]. rewrite <- Hp. apply (sd_pending_one_schema j n c u Hh Hsd).
  - assert (Hne' : uc_samples u <> []) by (apply Hne; discriminate).
    split; [|split].
    + split; [|split; [rewrite Ep', Hs, Hp; reflexivity|rewrite Em', Hmeta; exact Hm]].
      rewrite Hev, Hlog, map_app. cbn [map]. unfold wrec_of, payload. cbn [gr_meta gr_samples gr_part].
      rewrite <- Hp, <- Hm. reflexivity.
    + unfold recs_bounded. cbn [a_recs]. apply Forall_app. split; [exact Hb|]. constructor; [|constructor].
      cbn [gr_samples]. rewrite <- Hp. split; assumption.
    + intros Hsd. rewrite Hcls in Hsd. unfold recs_unmixed. cbn [a_recs]. apply Forall_app. split; [apply Hx; exact Hsd|].
      constructor; [|constructor]. cbn [gr_samples]. rewrite <- Hp. apply (sd_pending_one_schema j n c u Hh Hsd).
Qed.

Lemma aspec_eta : forall a, mkAspec (a_recs a) (a_pend a) (a_meta a) = a.
Proof. intros []. reflexivity. Qed.

Lemma spec_flush_meta : forall a e, a_meta (spec_flush a e) = a_meta a.
Proof. intros a [| |k]; reflexivity. Qed.

Lemma wev_of_same : forall w, wev_of w w = WNone.
Proof. intros w. apply (log_ev_wev w w (OFtdc []) WNone). reflexivity. Qed.

Lemma tr_refl : forall j n c u w, st_holds j n c u -> tr j n u w [] c u w.
Proof.
  intros j n c u w H. split; [exact H|]. split; [reflexivity|]. exists WNone. split; [reflexivity|].
  split; [intros X; contradiction|rewrite app_nil_r; reflexivity].
Qed.

Lemma flush_out_cls : forall j n c u w c' u' w' ok, flush_out j n c u w c' u' w' ok -> is_sdyn c' = is_sdyn c.
Proof.
  intros j n c u w c' u' w' ok Ho. inversion Ho; subst; try reflexivity. destruct c; reflexivity.
Qed.

(* what the observations of Resolve and Info must be in a specification state *)
Definition obs_spec (j : bool) (a : aspec) (b : obs) : Prop :=
  match b with
  | BResolve r => r = spec_resolve j a
  | BInfo _ s => s = Z.of_nat (length (a_pend a))
  | _ => True
  end.

Lemma Inv_obs : forall j n c w a, Inv j n (c, w) a ->
  c_resolve deflate c = spec_resolve j a /\ snd (c_info c) = Z.of_nat (length (a_pend a)) /\
  Z.of_nat (length (a_pend a)) <= n /\ cjson c = Some j.
Proof.
  intros j n c w a ((u & Hh) & (_ & Hp & Hm) & _). cbn [fst snd] in *.
  destruct (st_holds_pend j n c u Hh) as (Ep & Em & Ej). destruct (st_holds_obs j n c u Hh) as (Ei & Er).
  destruct (st_holds_proj j n c u Hh) as (_ & (Hj & _ & Hlen & _)).
  rewrite Ep in Hp. rewrite Em in Hm. rewrite Er, Ei, uc_resolve_spec. unfold spec_resolve. rewrite <- Hp, <- Hm, Hj.
  cbn [snd]. repeat split; try assumption.
Qed.

Lemma step_inv : forall j n st a o st' b, 1 <= n -> Inv j n st a -> step deflate st o = (st', b) ->
  Inv j n st' (spec_step a o b (wev_of (snd st) (snd st'))) /\ obs_spec j a b.
Proof.
  intros j n [c w] a o st' b Hn HI Hstep. pose proof HI as ((u & Hh) & Href & Hb & Hx). cbn [fst snd] in *.
  destruct o as [d now| | | | |m|]; cbn [step] in Hstep.
  - destruct (c_add_out j n c u w d now Hn Hh) as (c' & u' & w' & r & Ha & Ho & Hcls). rewrite Ha in Hstep.
    injection Hstep as E1 E2. subst st' b. cbn [snd]. split; [|exact I].
    pose proof (tr_inv j n c w a u _ c' u' w' HI Hh (gen_out_tr j n u w d c' u' w' r Ho) Hcls) as HI'. cbn zeta in HI'.
    unfold spec_step, spec_op.
    destruct r; rewrite ?app_nil_r in HI'; try (rewrite <- (spec_flush_meta a (wev_of w w')) in HI'; rewrite aspec_eta in HI'; exact HI').
    rewrite spec_flush_meta. exact HI'.
  - destruct (c_add_bad_out j n c u w Hh) as (c' & u' & w' & r & Ha & Hr & Hcls & Hcase). rewrite Ha in Hstep.
    injection Hstep as E1 E2. subst st' b. cbn [snd]. split; [|exact I].
    assert (Htr : tr j n u w [] c' u' w').
    { destruct Hcase as [(E1 & E2 & E3)|(ok & Ho)].
      - subst. apply tr_refl. exact Hh.
      - apply (flush_out_tr j n c u w c' u' w' ok); [lia|exact Hh|exact Ho]. }
    pose proof (tr_inv j n c w a u _ c' u' w' HI Hh Htr Hcls) as HI'. cbn zeta in HI'.
    unfold spec_step, spec_op. rewrite app_nil_r in HI'.
    rewrite <- (spec_flush_meta a (wev_of w w')) in HI'. rewrite aspec_eta in HI'. exact HI'.
  - injection Hstep as E1 E2. subst st' b. cbn [snd obs_spec]. rewrite wev_of_same.
    split; [exact HI|]. apply (Inv_obs j n c w a HI).
  - injection Hstep as E1 E2. subst st' b. cbn [snd]. rewrite wev_of_same. split; [|exact I].
    unfold spec_step, spec_op, spec_flush. cbn [a_recs a_pend a_meta].
    pose proof (c_reset_holds j n c u ltac:(lia) Hh) as Hh'.
    destruct (st_holds_pend j n c u Hh) as (Ep & Em & _). destruct (st_holds_pend j n _ _ Hh') as (Ep' & Em' & _).
    destruct Href as (Hlog & Hp & Hm). cbn [fst snd] in *.
    split; [exists (uc_reset u); exact Hh'|]. split; [|split; [exact Hb|]].
    + unfold refines. cbn [fst snd a_recs a_pend a_meta]. split; [exact Hlog|]. split; [rewrite Ep'; reflexivity|].
      rewrite Em'. cbn [uc_reset uc_meta]. rewrite <- Em. exact Hm.
    + cbn [fst]. intros Hs. apply Hx. destruct c; try discriminate Hs; reflexivity.
  - destruct (c_flush_out j n c u w Hh) as (c' & u' & w' & ok & Hf & Ho). rewrite Hf in Hstep.
    injection Hstep as E1 E2. subst st' b. cbn [snd]. split; [|exact I].
    pose proof (tr_inv j n c w a u _ c' u' w' HI Hh (flush_out_tr j n c u w c' u' w' ok ltac:(lia) Hh Ho)
                       (flush_out_cls j n c u w c' u' w' ok Ho)) as HI'. cbn zeta in HI'.
    unfold spec_step, spec_op. rewrite app_nil_r in HI'.
    rewrite <- (spec_flush_meta a (wev_of w w')) in HI'. rewrite aspec_eta in HI'. exact HI'.
  - injection Hstep as E1 E2. subst st' b. cbn [snd]. rewrite wev_of_same. split; [|exact I].
    unfold spec_step, spec_op, spec_flush. cbn [a_recs a_pend a_meta].
    pose proof (c_set_meta_holds j n c u m Hh) as Hh'.
    destruct (st_holds_pend j n c u Hh) as (Ep & Em & _). destruct (st_holds_pend j n _ _ Hh') as (Ep' & Em' & _).
    destruct Href as (Hlog & Hp & Hm). cbn [fst snd] in *.
    split; [exists (uc_with_meta u m); exact Hh'|]. split; [|split; [exact Hb|]].
    + unfold refines. cbn [fst snd a_recs a_pend a_meta]. split; [exact Hlog|]. split; [rewrite Ep'; cbn [uc_with_meta uc_samples]; rewrite <- Ep; exact Hp|].
      rewrite Em'. reflexivity.
    + cbn [fst]. intros Hs. apply Hx. destruct c; try discriminate Hs; reflexivity.
  - destruct (st_holds_obs j n c u Hh) as (Ei & _). rewrite Ei in Hstep.
    injection Hstep as E1 E2. subst st' b. cbn [snd obs_spec]. rewrite wev_of_same.
    split; [exact HI|]. destruct (Inv_obs j n c w a HI) as (_ & Hinfo & _). rewrite Ei in Hinfo. exact Hinfo.
Qed.

Lemma init_inv : forall k n fs, unc_kind k = true -> 0 <= n -> Inv (kind_json k) n (init_state k n fs) aspec0.
Proof.
  intros k n fs Hk Hn. unfold init_state, Inv. cbn [fst snd].
  pose proof (st_new_holds k n Hk Hn) as Hh.
  split; [eexists; exact Hh|]. split; [|split; [constructor|intros _; constructor]].
  destruct (st_holds_pend _ _ _ _ Hh) as (Ep & Em & _).
  unfold refines. cbn [fst snd w_log aspec0 a_recs a_pend a_meta map]. rewrite Ep, Em. repeat split.
Qed.

(* the invariant along a whole history *)
Lemma spec_trace_inv : forall j n ops st a, 1 <= n -> Inv j n st a ->
  Inv j n (fst (spec_trace deflate st a ops)) (snd (spec_trace deflate st a ops)).
Proof.
  intros j n ops. induction ops as [|o r IH]; intros st a Hn HI; [exact HI|].
  cbn [spec_trace]. destruct (step deflate st o) as [st' b] eqn:Es.
  apply IH; [exact Hn|]. apply (step_inv j n st a o st' b Hn HI Es).
Qed.

Lemma spec_trace_run : forall ops st a, fst (spec_trace deflate st a ops) = fst (run deflate st ops).
Proof.
  induction ops as [|o r IH]; intros st a; [reflexivity|].
  cbn [spec_trace run]. destruct (step deflate st o) as [st' b].
  specialize (IH st' (spec_step a o b (wev_of (snd st) (snd st')))).
  destruct (run deflate st' r) as [st'' bs]. cbn [fst] in *. exact IH.
Qed.

Lemma reachable_inv : forall k n st, unc_kind k = true -> 1 <= n -> reachable deflate k n st ->
  exists a, Inv (kind_json k) n st a.
Proof.
  intros k n st Hk Hn (fs & ops & E). rewrite <- (spec_trace_run ops _ aspec0) in E. subst st.
  eexists. apply spec_trace_inv; [exact Hn|]. apply init_inv; [exact Hk|lia].
Qed.

(* ------------------------------------------------------------------ C17_log *)
Theorem unc_log : forall k n fs ops, unc_kind k = true -> 1 <= n ->
  let st := fst (spec_trace deflate (init_state k n fs) aspec0 ops) in
  let a := snd (spec_trace deflate (init_state k n fs) aspec0 ops) in
  st = fst (run deflate (init_state k n fs) ops) /\
  refines (kind_json k) st a /\
  c_resolve deflate (fst st) = spec_resolve (kind_json k) a /\
  snd (c_info (fst st)) = Z.of_nat (length (a_pend a)).
Proof.
  intros k n fs ops Hk Hn. cbn zeta.
  pose proof (spec_trace_inv (kind_json k) n ops _ _ Hn (init_inv k n fs Hk ltac:(lia))) as HI.
  split; [apply spec_trace_run|].
  destruct (spec_trace deflate (init_state k n fs) aspec0 ops) as [[c w] a]. cbn [fst snd] in *.
  destruct (Inv_obs _ _ _ _ _ HI) as (Hr & Hi & _). destruct HI as (_ & Href & _).
  split; [exact Href|]. split; [exact Hr|exact Hi].
Qed.

(* the specification's total: what Add accepted and Reset did not discard *)
Lemma spec_flush_total : forall a e, a_total (spec_flush a e) = a_total a.
Proof.
  intros a [| |k]; unfold a_total; cbn [spec_flush a_recs a_pend]; [reflexivity| |].
  - rewrite up_flat_map_snoc. cbn [gr_durable gr_part gr_samples]. rewrite app_nil_r. reflexivity.
  - rewrite up_flat_map_snoc. cbn [gr_durable gr_part]. rewrite app_nil_r. reflexivity.
Qed.

Lemma spec_op_total : forall a o b,
  a_total (spec_op a o b) =
  match o, b with
  | OAdd d _, BAdd ROk => a_total a ++ [d]
  | OReset, _ => firstn (length (flat_map gr_durable (a_recs a))) (a_total a)
  | _, _ => a_total a
  end.
Proof.
  intros a o b. unfold a_total, spec_op.
  destruct o as [d now| | | | |m|]; try reflexivity.
  - destruct b as [r| | | | |]; try reflexivity. destruct r; try reflexivity. cbn [a_recs a_pend]. rewrite app_assoc. reflexivity.
  - cbn [a_recs a_pend]. rewrite up_firstn_app, app_nil_r. reflexivity.
Qed.

(* ------------------------------------------------------------------ C17_flavour *)
Definition obs_flavour (j : bool) (b : obs) : Prop :=
  match b with BResolve (Some o) => exists ds, o = ODocs j ds | _ => True end.

Lemma run_obs_flavour : forall j n ops st a, 1 <= n -> Inv j n st a -> Forall (obs_flavour j) (snd (run deflate st ops)).
Proof.
  intros j n ops. induction ops as [|o r IH]; intros st a Hn HI; [constructor|].
  cbn [run]. destruct (step deflate st o) as [st' b] eqn:Es.
  destruct (step_inv j n st a o st' b Hn HI Es) as (HI' & Hobs).
  specialize (IH st' _ Hn HI'). destruct (run deflate st' r) as [st'' bs]. cbn [snd] in *.
  constructor; [|exact IH].
  destruct b as [| [o'|] | | | |]; cbn [obs_flavour]; try exact I.
  cbn [obs_spec] in Hobs. unfold spec_resolve in Hobs. destruct (a_pend a); [discriminate Hobs|].
  injection Hobs as Hobs. subst o'. eexists. reflexivity.
Qed.

Theorem unc_flavour : forall k n fs ops, unc_kind k = true -> 1 <= n ->
  let res := run deflate (init_state k n fs) ops in
  cjson (fst (fst res)) = Some (kind_json k) /\
  Forall (fun r => exists ds, wrec_outp r = ODocs (kind_json k) ds) (w_log (snd (fst res))) /\
  Forall (obs_flavour (kind_json k)) (snd res).
Proof.
  intros k n fs ops Hk Hn. cbn zeta.
  pose proof (init_inv k n fs Hk ltac:(lia)) as HI0.
  split; [|split; [|apply (run_obs_flavour _ n ops _ _ Hn HI0)]].
  - pose proof (spec_trace_inv (kind_json k) n ops _ _ Hn HI0) as HI. rewrite spec_trace_run in HI.
    destruct (fst (run deflate (init_state k n fs) ops)) as [c w]. apply (Inv_obs _ _ _ _ _ HI).
  - pose proof (spec_trace_inv (kind_json k) n ops _ _ Hn HI0) as HI. rewrite spec_trace_run in HI.
    destruct HI as (_ & (Hlog & _) & _). rewrite Hlog. apply Forall_forall. intros r Hin.
    apply in_map_iff in Hin. destruct Hin as (g & E & _). subst r. unfold wrec_of.
    destruct (gr_part g); cbn [wrec_outp]; eexists; reflexivity.
Qed.

(* ------------------------------------------------------------------ C17_batch *)
Theorem unc_batch_bound : forall k n fs ops, unc_kind k = true -> 1 <= n ->
  let a := snd (spec_trace deflate (init_state k n fs) aspec0 ops) in
  recs_bounded n a /\ Z.of_nat (length (a_pend a)) <= n.
Proof.
  intros k n fs ops Hk Hn. cbn zeta.
  pose proof (spec_trace_inv (kind_json k) n ops _ _ Hn (init_inv k n fs Hk ltac:(lia))) as HI.
  destruct (spec_trace deflate (init_state k n fs) aspec0 ops) as [[c w] a]. cbn [fst snd] in *.
  destruct (Inv_obs _ _ _ _ _ HI) as (_ & _ & Hlen & _). destruct HI as (_ & _ & Hb & _). split; assumption.
Qed.

Lemma reachable_holds : forall k n c w, unc_kind k = true -> 1 <= n -> reachable deflate k n (c, w) ->
  exists u, st_holds (kind_json k) n c u.
Proof. intros k n c w Hk Hn Hr. destruct (reachable_inv k n (c, w) Hk Hn Hr) as (a & (Hu & _)). exact Hu. Qed.

Definition cls (c : coll) : nat :=
  match c with CBase _ => 0 | CBatch _ => 1 | CDyn _ => 2 | CStream _ => 3 | CSDyn _ => 4 | CUnc _ => 5 end%nat.

Lemma c_add_cls : forall c w d now, cls (fst (fst (c_add deflate c w d now))) = cls c.
Proof. intros c w d now. destruct c; cbn [c_add]; split_lets; reflexivity. Qed.
Lemma c_add_bad_cls : forall c w, cls (fst (fst (c_add_bad deflate c w))) = cls c.
Proof. intros c w. destruct c; cbn [c_add_bad]; split_lets; reflexivity. Qed.
Lemma c_reset_cls : forall c, cls (c_reset c) = cls c.
Proof. intros c. destruct c; reflexivity. Qed.
Lemma c_flush_cls : forall c w, cls (fst (fst (c_flush deflate c w))) = cls c.
Proof.
  intros c w. destruct c; cbn [c_flush]; unfold sc_flush, sd_flush, flush_with; split_lets; reflexivity.
Qed.

Lemma step_cls : forall st o, cls (fst (fst (step deflate st o))) = cls (fst st).
Proof.
  intros [c w] o. destruct o; cbn [step fst].
  - pose proof (c_add_cls c w d now) as H. destruct (c_add deflate c w d now) as [[c' w'] r]. exact H.
  - pose proof (c_add_bad_cls c w) as H. destruct (c_add_bad deflate c w) as [[c' w'] r]. exact H.
  - reflexivity.
  - apply c_reset_cls.
  - pose proof (c_flush_cls c w) as H. destruct (c_flush deflate c w) as [[c' w'] r]. exact H.
  - destruct c; reflexivity.
  - destruct (c_info c). reflexivity.
Qed.

Lemma run_cls : forall ops st, cls (fst (fst (run deflate st ops))) = cls (fst st).
Proof.
  induction ops as [|o r IH]; intros st; [reflexivity|].
  cbn [run]. pose proof (step_cls st o) as Hs. destruct (step deflate st o) as [st' b].
  specialize (IH st'). destruct (run deflate st' r) as [st'' bs]. cbn [fst] in *. congruence.
Qed.

Lemma reachable_class : forall k n c w, unc_kind k = true -> reachable deflate k n (c, w) ->
  match c with
  | CUnc _ => plain_kind k = true
  | CStream _ => stream_kind k = true
  | CSDyn _ => sdyn_kind k = true
  | _ => False
  end.
Proof.
  intros k n c w Hk (fs & ops & E). pose proof (run_cls ops (init_state k n fs)) as H. rewrite E in H.
  cbn [fst init_state] in H. destruct k; try discriminate Hk; cbn [new_coll cls] in H; destruct c; try discriminate H; reflexivity.
Qed.

(* ------------------------------------------------------------------ C17_batch / C17_schema: what Add does, per class *)
Lemma uc_add_res_cases : forall u d,
  (uc_mcount u <> 0 /\ Z.of_nat (length d) <> uc_mcount u /\ uc_add_res u d = RCount) \/
  ((uc_mcount u = 0 \/ Z.of_nat (length d) = uc_mcount u) /\
   ((uc_batch u <= Z.of_nat (length (uc_samples u)) /\ uc_add_res u d = RFull) \/
    (Z.of_nat (length (uc_samples u)) < uc_batch u /\ uc_add_res u d = ROk))).
Proof.
  intros u d. unfold uc_add_res.
  destruct (uc_mcount u =? 0) eqn:E0; cbn [negb andb].
  - apply Z.eqb_eq in E0. right. split; [left; exact E0|].
    destruct (uc_batch u <=? Z.of_nat (length (uc_samples u))) eqn:Eb.
    + left. apply Z.leb_le in Eb. split; [exact Eb|reflexivity].
    + right. apply Z.leb_gt in Eb. split; [exact Eb|reflexivity].
  - apply Z.eqb_neq in E0. destruct (Z.of_nat (length d) =? uc_mcount u) eqn:El; cbn [negb].
    + apply Z.eqb_eq in El. right. split; [right; exact El|].
      destruct (uc_batch u <=? Z.of_nat (length (uc_samples u))) eqn:Eb.
      * left. apply Z.leb_le in Eb. split; [exact Eb|reflexivity].
      * right. apply Z.leb_gt in Eb. split; [exact Eb|reflexivity].
    + apply Z.eqb_neq in El. left. repeat split; assumption.
Qed.

(* plain kinds: no write, the outcome is uc_add_res, samples grow iff accepted *)
Theorem unc_add_plain : forall k n u w d now, unc_kind k = true -> 1 <= n -> reachable deflate k n (CUnc u, w) ->
  uc_batch u = n /\
  Forall (fun s : doc => s = [] \/ Z.of_nat (length s) = uc_mcount u) (uc_samples u) /\
  exists u', step deflate (CUnc u, w) (OAdd d now) = ((CUnc u', w), BAdd (uc_add_res u d)) /\
    uc_meta u' = uc_meta u /\
    uc_samples u' = uc_samples u ++ (match uc_add_res u d with ROk => [d] | _ => [] end).
Proof.
  intros k n u w d now Hk Hn Hr. destruct (reachable_holds k n _ _ Hk Hn Hr) as (u0 & E & Hu). subst u0.
  pose proof Hu as (_ & Hb & _ & Hall & _). split; [exact Hb|]. split; [exact Hall|].
  destruct (uc_add_spec _ n u d Hn Hu) as (u' & Ha & _ & Hm & Hs).
  exists u'. cbn [step c_add]. rewrite Ha. repeat split; assumption.
Qed.

(* streaming kinds below capacity: as the plain kinds *)
Theorem unc_add_stream_room : forall k n s u w d now, unc_kind k = true -> 1 <= n ->
  reachable deflate k n (CStream s, w) -> sc_inner s = IU u ->
  sc_count s = Z.of_nat (length (uc_samples u)) /\ sc_max s = n /\
  Forall (fun x : doc => x = [] \/ Z.of_nat (length x) = uc_mcount u) (uc_samples u) /\
  (Z.of_nat (length (uc_samples u)) < n ->
   exists s' u', step deflate (CStream s, w) (OAdd d now) = ((CStream s', w), BAdd (uc_add_res u d)) /\
     sc_inner s' = IU u' /\ uc_meta u' = uc_meta u /\
     uc_samples u' = uc_samples u ++ (match uc_add_res u d with ROk => [d] | _ => [] end)).
Proof.
  intros k n s u w d now Hk Hn Hr Hi. destruct (reachable_holds k n _ _ Hk Hn Hr) as (u0 & Hh). cbn [st_holds] in Hh.
  pose proof Hh as (Hi0 & Hu & Hm & Hc). rewrite Hi in Hi0. injection Hi0 as E. subst u0.
  pose proof Hu as (_ & _ & _ & Hall & _).
  split; [exact Hc|]. split; [exact Hm|]. split; [exact Hall|]. intros Hlt.
  destruct (sc_add_room _ n s u w d now Hn Hh Hlt) as (s' & u' & Ha & (Hi' & _) & Hmeta & Hs & _).
  exists s', u'. cbn [step c_add]. rewrite Ha. repeat split; assumption.
Qed.

(* streaming and schema-aware kinds at capacity: everything pending is handed to
   the writer first; if the write is acknowledged the document is accepted into
   the emptied collector, otherwise nothing changes and Add fails *)
Theorem unc_add_full : forall k n c w d now, unc_kind k = true -> 1 <= n -> reachable deflate k n (c, w) ->
  plain_kind k = false -> n <= Z.of_nat (length (pend c)) ->
  let P := ODocs (kind_json k) (mh (cmeta c) ++ pend c) in
  exists w' ok e, w_write w P = (w', ok) /\ log_ev w w' P e /\ (ok = true <-> e = WDone) /\
    if ok then exists c', step deflate (c, w) (OAdd d now) = ((c', w'), BAdd ROk) /\ cmeta c' = cmeta c /\ pend c' = [d]
    else step deflate (c, w) (OAdd d now) = ((c, w'), BAdd RFlush).
Proof.
  intros k n c w d now Hk Hn Hr Hp Hge. cbn zeta.
  destruct (reachable_holds k n _ _ Hk Hn Hr) as (u & Hh).
  pose proof (reachable_class k n c w Hk Hr) as Hc.
  destruct (st_holds_pend _ _ _ _ Hh) as (Ep & Em & _). rewrite Ep in *. rewrite Em.
  destruct c as [| | |s|x|x]; try contradiction; [| |rewrite Hc in Hp; discriminate Hp]; cbn [st_holds] in Hh.
  - destruct (sc_add_full _ n s u w d now Hn Hh Hge) as (_ & w' & ok & e & Hw & Hlog & Hok & Hres).
    exists w', ok, e. split; [exact Hw|]. split; [exact Hlog|]. split; [exact Hok|]. cbn [step c_add].
    destruct ok.
    + destruct Hres as (s' & u' & Ha & Hh' & Hm & Hs). rewrite Ha. exists (CStream s'). split; [reflexivity|].
      destruct (st_holds_pend _ n (CStream s') u' Hh') as (Ep' & Em' & _). rewrite Ep', Em'. split; assumption.
    + rewrite Hres. reflexivity.
  - pose proof Hh as (Hs & _).
    assert (Hne : uc_samples u <> []) by (intros E; rewrite E in Hge; cbn [length] in Hge; lia).
    destruct (sd_changed x d) eqn:Hch.
    + destruct (sd_add_change _ n x u w d now Hn Hh Hch Hne) as (w' & ok & e & Hw & Hlog & Hok & Hres).
      exists w', ok, e. split; [exact Hw|]. split; [exact Hlog|]. split; [exact Hok|]. cbn [step c_add].
      destruct ok.
      * destruct Hres as (c' & u' & Ha & Hh' & Hm & Hsm). rewrite Ha. exists (CSDyn c'). split; [reflexivity|].
        destruct (st_holds_pend _ n (CSDyn c') u' Hh') as (Ep' & Em' & _). rewrite Ep', Em'. split; assumption.
      * rewrite Hres. reflexivity.
    + destruct (sc_add_full _ n (sd_s x) u w d now Hn Hs Hge) as (_ & w' & ok & e & Hw & Hlog & Hok & Hres).
      exists w', ok, e. split; [exact Hw|]. split; [exact Hlog|]. split; [exact Hok|]. cbn [step c_add].
      rewrite sd_add_eq, Hch. cbn [negb].
      destruct ok.
      * destruct Hres as (s' & u' & Ha & Hh' & Hm & Hsm). rewrite Ha. eexists. split; [reflexivity|].
        destruct Hh' as (Hi' & _). unfold cmeta, pend. cbn [coll_ucoll sd_s]. rewrite Hi'. cbn [inner_ucoll]. split; assumption.
      * rewrite Hres. rewrite sdcoll_eta. reflexivity.
Qed.

(* schema-aware kinds: the pending samples share one signature, and the schema
   test compares the document with them *)
Lemma sd_changed_pending : forall j n x u d, sd_holds j n x u -> uc_samples u <> [] ->
  (sd_changed x d = false <-> forall s, In s (uc_samples u) -> schema_sig s = schema_sig d).
Proof.
  intros j n x u d (_ & Hh) Hne. unfold sd_changed. destruct (sd_hash x) as [h|].
  - rewrite Forall_forall in Hh. split.
    + intros Hch s Hin. apply orb_false_iff in Hch. destruct Hch as [H1 H2].
      apply negb_false_iff in H1, H2. apply Z.eqb_eq in H1. apply up_bytes_eqb_true in H2.
      rewrite (Hh s Hin). destruct (schema_sig d). cbn [fst snd] in *. subst. reflexivity.
    + intros Hall. destruct (uc_samples u) as [|s0 r] eqn:Es; [contradiction|].
      specialize (Hall s0 (or_introl eq_refl)). rewrite (Hh s0 (or_introl eq_refl)) in Hall. rewrite <- Hall.
      cbn [fst snd]. rewrite Z.eqb_refl, up_bytes_eqb_refl. reflexivity.
  - contradiction.
Qed.

Theorem unc_add_sdyn : forall k n x u w d now, unc_kind k = true -> 1 <= n ->
  reachable deflate k n (CSDyn x, w) -> sc_inner (sd_s x) = IU u -> next_write_ok w ->
  let c := CSDyn x in
  let P := ODocs (kind_json k) (mh (uc_meta u) ++ uc_samples u) in
  (* the pending samples have one signature; "changed" means: differs from theirs *)
  (uc_samples u <> [] -> (sd_changed x d = false <-> forall s, In s (uc_samples u) -> schema_sig s = schema_sig d)) /\
  (* nothing pending: accepted without a write *)
  (uc_samples u = [] ->
     exists c', step deflate (c, w) (OAdd d now) = ((c', w), BAdd ROk) /\ cmeta c' = uc_meta u /\ pend c' = [d]) /\
  (* schema change or capacity: a new output starts *)
  (uc_samples u <> [] -> sd_changed x d = true \/ n <= Z.of_nat (length (uc_samples u)) ->
     exists c' w', step deflate (c, w) (OAdd d now) = ((c', w'), BAdd ROk) /\
       w_log w' = w_log w ++ [WFull P] /\ cmeta c' = uc_meta u /\ pend c' = [d]) /\
  (* same schema, room: the wrapped collector decides (top-level field count) *)
  (uc_samples u <> [] -> sd_changed x d = false -> Z.of_nat (length (uc_samples u)) < n ->
     exists c', step deflate (c, w) (OAdd d now) = ((c', w), BAdd (uc_add_res u d)) /\ cmeta c' = uc_meta u /\
       pend c' = uc_samples u ++ (match uc_add_res u d with ROk => [d] | _ => [] end)).
Proof.
  intros k n x u w d now Hk Hn Hr Hi Hw. cbn zeta.
  destruct (reachable_holds k n _ _ Hk Hn Hr) as (u0 & Hh). cbn [st_holds] in Hh.
  pose proof Hh as ((Hi0 & Hu & Hm & Hc) & _). rewrite Hi in Hi0. injection Hi0 as E. subst u0.
  pose proof Hh as (Hs & _).
  assert (Hproj : forall s' u', sc_inner s' = IU u' -> forall h m, cmeta (CSDyn (mkSdcoll h m s')) = uc_meta u' /\ pend (CSDyn (mkSdcoll h m s')) = uc_samples u').
  { intros s' u' Hi' h m. unfold cmeta, pend. cbn [coll_ucoll sd_s]. rewrite Hi'. split; reflexivity. }
  split; [intros Hne; apply (sd_changed_pending _ n x u d Hh Hne)|]. split; [|split].
  - intros He. cbn [step c_add]. destruct (sd_changed x d) eqn:Hch.
    + destruct (sd_add_fresh _ n x u w d now Hn Hh Hch He) as (c' & u' & Ha & Hh' & Hmeta & Hsm). rewrite Ha.
      exists (CSDyn c'). split; [reflexivity|].
      destruct (st_holds_pend _ n (CSDyn c') u' Hh') as (Ep' & Em' & _). rewrite Ep', Em'. split; assumption.
    + rewrite sd_add_eq, Hch. cbn [negb].
      destruct (sc_add_room _ n (sd_s x) u w d now Hn Hs) as (s' & u' & Ha & (Hi' & _) & Hmeta & Hsm & _).
      { rewrite He. cbn [length]. lia. }
      rewrite (uc_add_res_empty _ n u d Hn Hu He) in *. rewrite Ha. eexists. split; [reflexivity|].
      destruct (Hproj s' u' Hi' (sd_hash x) (sd_mcount x)) as (E1 & E2). rewrite E1, E2, Hsm, He. split; [exact Hmeta|reflexivity].
  - intros Hne Hcase. cbn [step c_add]. destruct (sd_changed x d) eqn:Hch.
    + destruct (sd_add_change _ n x u w d now Hn Hh Hch Hne) as (w' & ok & e & Hww & Hlog & Hok & Hres).
      destruct (w_write_ok w (payload (kind_json k) u) Hw) as (w2 & Hw2 & Hlog2).
      rewrite Hw2 in Hww. injection Hww as E1 E2. subst w2 ok.
      destruct Hres as (c' & u' & Ha & Hh' & Hmeta & Hsm). rewrite Ha. exists (CSDyn c'), w'. split; [reflexivity|].
      split; [exact Hlog2|].
      destruct (st_holds_pend _ n (CSDyn c') u' Hh') as (Ep' & Em' & _). rewrite Ep', Em'. split; assumption.
    + destruct Hcase as [Hx|Hge]; [discriminate Hx|].
      destruct (sc_add_full _ n (sd_s x) u w d now Hn Hs Hge) as (_ & w' & ok & e & Hww & Hlog & Hok & Hres).
      destruct (w_write_ok w (payload (kind_json k) u) Hw) as (w2 & Hw2 & Hlog2).
      rewrite Hw2 in Hww. injection Hww as E1 E2. subst w2 ok.
      destruct Hres as (s' & u' & Ha & (Hi' & _) & Hmeta & Hsm).
      rewrite sd_add_eq, Hch. cbn [negb]. rewrite Ha. eexists _, w'. split; [reflexivity|]. split; [exact Hlog2|].
      destruct (Hproj s' u' Hi' (sd_hash x) (sd_mcount x)) as (E1 & E2). rewrite E1, E2. split; assumption.
  - intros Hne Hch Hlt. cbn [step c_add]. rewrite sd_add_eq, Hch. cbn [negb].
    destruct (sc_add_room _ n (sd_s x) u w d now Hn Hs Hlt) as (s' & u' & Ha & (Hi' & _) & Hmeta & Hsm & _).
    rewrite Ha. eexists. split; [reflexivity|].
    destruct (Hproj s' u' Hi' (sd_hash x) (sd_mcount x)) as (E1 & E2). rewrite E1, E2. split; assumption.
Qed.

(* schema-aware kinds never mix signatures within one output *)
Theorem unc_unmixed : forall k n fs ops, unc_kind k = true -> sdyn_kind k = true -> 1 <= n ->
  let a := snd (spec_trace deflate (init_state k n fs) aspec0 ops) in
  recs_unmixed a /\ one_schema (a_pend a).
Proof.
  intros k n fs ops Hk Hsd Hn. cbn zeta.
  pose proof (spec_trace_inv (kind_json k) n ops _ _ Hn (init_inv k n fs Hk ltac:(lia))) as HI.
  pose proof (spec_trace_run ops (init_state k n fs) aspec0) as Hrun.
  destruct (spec_trace deflate (init_state k n fs) aspec0 ops) as [[c w] a]. cbn [fst snd] in *.
  assert (Hr : reachable deflate k n (c, w)) by (exists fs, ops; symmetry; exact Hrun).
  pose proof (reachable_class k n c w Hk Hr) as Hc.
  destruct HI as ((u & Hh) & (_ & Hp & _) & _ & Hx). cbn [fst snd] in *.
  assert (Hs : is_sdyn c = true).
  { destruct c; try contradiction; try reflexivity; destruct k; discriminate. }
  split; [apply Hx; exact Hs|].
  destruct (st_holds_pend _ _ _ _ Hh) as (Ep & _). rewrite <- Hp, Ep.
  apply (sd_pending_one_schema _ n c u Hh Hs).
Qed.

End Kinds.

(* ------------------------------------------------------------------ a concrete history *)
Definition ex_A1 : doc := [([120]%N, VInt64 1); ([121]%N, VInt64 2)].
Definition ex_A2 : doc := [([120]%N, VInt64 3); ([121]%N, VInt64 4)].
Definition ex_B : doc := [([120]%N, VInt64 5)].
Definition ex_M : doc := [([104]%N, VString [49]%N)].
Definition ex_ops : list op :=
  [OSetMeta (Some ex_M); OAdd ex_A1 0; OAdd ex_A2 0; OAdd ex_B 0; OFlush; OAdd ex_A1 0; OReset; OResolve; OAdd ex_A2 0].

Lemma unc_example : forall deflate : bytes -> bytes,
  let res := run deflate (init_state KSDynUncB 2 []) ex_ops in
  w_log (snd (fst res)) = [WFull (ODocs false [ex_M; ex_A1; ex_A2]); WFull (ODocs false [ex_M; ex_B])] /\
  snd res = [BSetMeta; BAdd ROk; BAdd ROk; BAdd ROk; BFlush true; BAdd ROk; BReset; BResolve None; BAdd ROk] /\
  c_resolve deflate (fst (fst res)) = Some (ODocs false [ex_M; ex_A2]) /\
  a_total (snd (spec_trace deflate (init_state KSDynUncB 2 []) aspec0 ex_ops)) = [ex_A1; ex_A2; ex_B; ex_A2].
Proof. intros deflate. cbv zeta. repeat split; vm_compute; reflexivity. Qed.

(* ------------------------------------------------------------------ the oracle accepts the model *)
Section Oracle.
Variable render : doc -> bytes.
Hypothesis render_nl : forall d, ~ In 10%N (render d).
Variable deflate : bytes -> bytes.

Notation smp := (smp render).
Notation view_of := (view_of render).
Notation view_of_rec := (view_of_rec render).

Lemma split_lines_line : forall x r, ~ In 10%N x ->
  split_lines (x ++ 10%N :: r) = let '(ls, rest) := split_lines r in (x :: ls, rest).
Proof.
  induction x as [|b x IH]; intros r Hx.
  - cbn [app split_lines]. destruct (split_lines r) as [ls rest]. rewrite N.eqb_refl. reflexivity.
  - cbn [app split_lines]. rewrite IH by (intros H; apply Hx; right; exact H).
    destruct (split_lines r) as [ls rest].
    replace (b =? 10)%N with false; [reflexivity|].
    symmetry. apply N.eqb_neq. intros E. apply Hx. left. rewrite E. reflexivity.
Qed.

Lemma split_lines_render : forall ds,
  split_lines (flat_map (fun d => render d ++ [10%N]) ds) = (map render ds, []).
Proof.
  induction ds as [|d ds IH]; [reflexivity|].
  cbn [flat_map map]. rewrite <- app_assoc. cbn [app]. rewrite split_lines_line by apply render_nl.
  rewrite IH. reflexivity.
Qed.

Lemma parsed_ok_refl : forall ds, parsed_ok (map Some ds) ds = true.
Proof.
  induction ds as [|d ds IH]; [reflexivity|]. cbn [map parsed_ok]. rewrite IH.
  unfold doc_eqb. rewrite up_bytes_eqb_refl. destruct (json_stable d); reflexivity.
Qed.

Lemma map_fst_smp : forall ds, map fst (map smp ds) = ds.
Proof. induction ds as [|d ds IH]; [reflexivity|]. cbn [map fst UncOk.smp]. rewrite IH. reflexivity. Qed.
Lemma map_snd_smp : forall ds, map snd (map smp ds) = map render ds.
Proof. induction ds as [|d ds IH]; [reflexivity|]. cbn [map snd UncOk.smp]. rewrite IH. reflexivity. Qed.

Lemma check_out_ok : forall j ds, check_out j (map smp ds) (view_of (ODocs j ds)) = [].
Proof.
  intros j ds. destruct j; cbn [UncOk.view_of check_out negb].
  - rewrite split_lines_render, map_snd_smp, up_lines_eqb_refl, map_fst_smp, parsed_ok_refl. reflexivity.
  - rewrite map_fst_smp, up_docs_eqb_refl. reflexivity.
Qed.

Lemma view_count_ok : forall j ds, view_count (view_of (ODocs j ds)) = length ds.
Proof.
  intros j ds. destruct j; cbn [UncOk.view_of view_count]; [|reflexivity].
  rewrite split_lines_render. cbn [fst]. apply map_length.
Qed.

Lemma mh_map : forall (m : option doc), mh (option_map smp m) = map smp (mh m).
Proof. intros [x|]; reflexivity. Qed.

(* expected content of a record, as the oracle stores it *)
Definition frec (r : grec) : option (list sample) :=
  match gr_part r with None => Some (map smp (mh (gr_meta r) ++ gr_samples r)) | Some _ => None end.

Definition orel (a : aspec) (s : ost) : Prop :=
  o_total s = map smp (a_total a) /\ o_dur s = length (flat_map gr_durable (a_recs a)) /\
  o_recs s = map frec (a_recs a) /\ o_meta s = option_map smp (a_meta a).

Definition views (j : bool) (recs : list grec) : list oview := map view_of_rec (map (wrec_of j) recs).

Lemma views_length : forall j recs, length (views j recs) = length (map frec recs).
Proof. intros j recs. unfold views. rewrite !map_length. reflexivity. Qed.

Lemma views_snoc : forall j recs g, views j (recs ++ [g]) = views j recs ++ [view_of_rec (wrec_of j g)].
Proof. intros j recs g. unfold views. rewrite !map_app. reflexivity. Qed.

Lemma check_olds_ok : forall j recs rest, check_olds j (map frec recs) (views j recs ++ rest) = [].
Proof.
  intros j recs rest. induction recs as [|g recs IH]; [reflexivity|].
  cbn [map views app check_olds]. fold (views j recs). rewrite IH, app_nil_r.
  unfold frec, wrec_of. destruct (gr_part g); cbn [UncOk.view_of_rec]; [reflexivity|].
  rewrite check_out_ok. reflexivity.
Qed.

Lemma skipn_smp : forall D X, skipn (length D) (map smp (D ++ X)) = map smp X.
Proof. intros D X. rewrite map_app. rewrite <- (map_length smp D). apply up_skipn_app. Qed.

Lemma check_news_full : forall j n M D P R recs_o,
  P <> [] -> Z.of_nat (length P) <= n ->
  check_news j n (mh (option_map smp M)) (map smp (D ++ P ++ R)) (length D) recs_o
             [view_of (ODocs j (mh M ++ P))] =
  ((length D + length P)%nat, recs_o ++ [Some (map smp (mh M ++ P))], []).
Proof.
  intros j n M D P R recs_o Hne Hlen.
  assert (Hk : (view_count (view_of (ODocs j (mh M ++ P))) - length (mh (option_map smp M)))%nat = length P).
  { rewrite view_count_ok, mh_map, map_length, app_length. lia. }
  assert (Hexp : mh (option_map smp M) ++ firstn (length P) (skipn (length D) (map smp (D ++ P ++ R))) = map smp (mh M ++ P)).
  { rewrite skipn_smp, map_app, <- (map_length smp P), up_firstn_app, mh_map, <- map_app. reflexivity. }
  assert (Hz : (length P =? 0)%nat = false) by (destruct P; [contradiction|reflexivity]).
  assert (Hb : (Z.of_nat (length P) <=? n) = true) by (apply Z.leb_le; exact Hlen).
  destruct j; cbn [UncOk.view_of check_news]; cbn [UncOk.view_of] in Hk; rewrite Hk, Hexp, Hz, Hb.
  - pose proof (check_out_ok true (mh M ++ P)) as Hc. cbn [UncOk.view_of] in Hc. rewrite Hc. reflexivity.
  - pose proof (check_out_ok false (mh M ++ P)) as Hc. cbn [UncOk.view_of] in Hc. rewrite Hc. reflexivity.
Qed.

Lemma flat_durable_snoc_full : forall recs M P,
  flat_map gr_durable (recs ++ [mkGrec M P None]) = flat_map gr_durable recs ++ P.
Proof. intros. rewrite up_flat_map_snoc. reflexivity. Qed.
Lemma flat_durable_snoc_part : forall recs M P k,
  flat_map gr_durable (recs ++ [mkGrec M P (Some k)]) = flat_map gr_durable recs.
Proof. intros. rewrite up_flat_map_snoc. cbn [gr_durable gr_part]. apply app_nil_r. Qed.

(* the checks after the writer records: Resolve and Info *)
Lemma tail_checks_ok : forall j n M' P',
  Z.of_nat (length P') <= n ->
  (match option_map view_of (spec_resolve j (mkAspec [] P' M')) with
   | None => match map smp P' with [] => [] | _ => [XMissing] end
   | Some v => (match map smp P' with [] => [XEmpty] | _ => [] end) ++
               check_out j (mh (option_map smp M') ++ map smp P') v ++
               (if Z.of_nat (length (map smp P')) <=? n then [] else [XBatch])
   end) ++ (if Z.of_nat (length P') =? Z.of_nat (length (map smp P')) then [] else [XInfo]) = [].
Proof.
  intros j n M' P' Hlen. rewrite map_length, Z.eqb_refl, app_nil_r.
  unfold spec_resolve. cbn [a_pend a_meta]. destruct P' as [|p P']; [reflexivity|].
  cbn [option_map]. rewrite mh_map, <- map_app, check_out_ok.
  replace (Z.of_nat (length (p :: P')) <=? n) with true by (symmetry; apply Z.leb_le; exact Hlen). reflexivity.
Qed.

Lemma spec_resolve_recs : forall j recs P M, spec_resolve j (mkAspec recs P M) = spec_resolve j (mkAspec [] P M).
Proof. reflexivity. Qed.

Lemma core_ok : forall j n s recs P M e Q P' M' total1 meta1,
  o_dur s = length (flat_map gr_durable recs) -> o_recs s = map frec recs -> o_meta s = option_map smp M ->
  total1 = map smp (flat_map gr_durable recs ++ Q) -> meta1 = option_map smp M' ->
  match e with
  | WNone => P' = Q
  | WDone => Q = P ++ P' /\ P <> [] /\ Z.of_nat (length P) <= n
  | WShort _ => P' = Q
  end ->
  Z.of_nat (length P') <= n ->
  let a' := mkAspec (a_recs (spec_flush (mkAspec recs P M) e)) P' M' in
  exists s', c17_core j n s total1 meta1 (views j (a_recs a')) (option_map view_of (spec_resolve j a'))
                      (Z.of_nat (length P')) = (s', []) /\ orel a' s'.
Proof.
  intros j n s recs P M e Q P' M' total1 meta1 Hdur Hrecs Hmeta Ht Hm He Hlen. cbn zeta. subst total1 meta1.
  unfold c17_core. rewrite Hrecs, Hdur, Hmeta, spec_resolve_recs.
  destruct e as [| |k]; cbn [spec_flush a_recs a_pend a_meta].
  - subst Q.
    assert (H1 : check_olds j (map frec recs) (views j recs) = []).
    { rewrite <- (app_nil_r (views j recs)). apply check_olds_ok. }
    assert (H2 : skipn (length (map frec recs)) (views j recs) = []).
    { rewrite <- (views_length j recs). apply up_skipn_all. }
    rewrite H1, H2. cbn [check_news]. rewrite skipn_smp. cbn [app]. rewrite (tail_checks_ok j n M' P' Hlen).
    eexists. split; [reflexivity|]. unfold orel, a_total. cbn [o_total o_dur o_recs o_meta a_recs a_pend a_meta].
    repeat split.
  - destruct He as (EQ & Hne & HlenP). subst Q.
    assert (H1 : check_olds j (map frec recs) (views j (recs ++ [mkGrec M P None])) = []).
    { rewrite views_snoc. apply check_olds_ok. }
    assert (H2 : skipn (length (map frec recs)) (views j (recs ++ [mkGrec M P None])) = [view_of (ODocs j (mh M ++ P))]).
    { rewrite views_snoc, <- (views_length j recs), up_skipn_app. reflexivity. }
    rewrite H1, H2.
    rewrite (check_news_full j n M (flat_map gr_durable recs) P P' (map frec recs) Hne HlenP).
    rewrite app_assoc, <- app_length, skipn_smp. cbn [app]. rewrite (tail_checks_ok j n M' P' Hlen).
    eexists. split; [reflexivity|]. unfold orel, a_total. cbn [o_total o_dur o_recs o_meta a_recs a_pend a_meta].
    rewrite flat_durable_snoc_full. repeat split; rewrite ?(map_app frec), ?app_assoc; reflexivity.
  - subst Q.
    assert (H1 : check_olds j (map frec recs) (views j (recs ++ [mkGrec M P (Some k)])) = []).
    { rewrite views_snoc. apply check_olds_ok. }
    assert (H2 : skipn (length (map frec recs)) (views j (recs ++ [mkGrec M P (Some k)])) = [VPartial]).
    { rewrite views_snoc, <- (views_length j recs), up_skipn_app. reflexivity. }
    rewrite H1, H2. cbn [check_news].
    rewrite skipn_smp. cbn [app]. rewrite (tail_checks_ok j n M' P' Hlen).
    eexists. split; [reflexivity|]. unfold orel, a_total. cbn [o_total o_dur o_recs o_meta a_recs a_pend a_meta].
    rewrite flat_durable_snoc_part. repeat split; rewrite ?(map_app frec); reflexivity.
Qed.

Lemma c_add_bad_res : forall c w, snd (c_add_bad deflate c w) <> ROk.
Proof. intros c w. destruct c; cbn [c_add_bad]; split_lets; cbn [snd]; discriminate. Qed.

Lemma step_add_bad_obs : forall st st' b, step deflate st OAddBad = (st', b) -> obs_add_ok b = false.
Proof.
  intros [c w] st' b H. cbn [step] in H. pose proof (c_add_bad_res c w) as Hr.
  destruct (c_add_bad deflate c w) as [[c' w'] r]. injection H as _ E. subst b. cbn [snd] in Hr.
  destruct r; try reflexivity. contradiction.
Qed.

Lemma step_quiet_writer : forall st o st' b, step deflate st o = (st', b) ->
  match o with OResolve | OReset | OSetMeta _ | OInfo => snd st' = snd st | _ => True end.
Proof.
  intros [c w] o st' b H. destruct o; try exact I; cbn [step] in H.
  - injection H as E _. subst st'. reflexivity.
  - injection H as E _. subst st'. reflexivity.
  - injection H as E _. subst st'. reflexivity.
  - destruct (c_info c). injection H as E _. subst st'. reflexivity.
Qed.

(* the pending samples the oracle expects after the operation, before writes are accounted for *)
Definition q_of (P : list doc) (o : op) (b : obs) : list doc :=
  match o, b with
  | OAdd d _, BAdd ROk => P ++ [d]
  | OReset, _ => []
  | _, _ => P
  end.

Lemma spec_op_recs : forall x o b, a_recs (spec_op x o b) = a_recs x.
Proof. intros x o b. unfold spec_op. destruct o; try reflexivity. destruct b as [r| | | | |]; try reflexivity. destruct r; reflexivity. Qed.

Lemma spec_op_pend : forall x o b, a_pend (spec_op x o b) = q_of (a_pend x) o b.
Proof. intros x o b. unfold spec_op, q_of. destruct o; try reflexivity. destruct b as [r| | | | |]; try reflexivity. destruct r; reflexivity. Qed.

Lemma spec_op_meta : forall x o b, a_meta (spec_op x o b) = match o with OSetMeta m => m | _ => a_meta x end.
Proof. intros x o b. unfold spec_op. destruct o; try reflexivity. destruct b as [r| | | | |]; try reflexivity. destruct r; reflexivity. Qed.

Lemma total1_ok : forall s a o b, orel a s -> (o = OAddBad -> obs_add_ok b = false) ->
  c17_total1 s (opk_of o) (op_okflag o b) (op_sample render o) =
  map smp (flat_map gr_durable (a_recs a) ++ q_of (a_pend a) o b).
Proof.
  intros s a o b (Ht & Hd & _) Hbad. unfold a_total in Ht. unfold c17_total1, q_of.
  destruct o as [d now| | | | |m|]; cbn [opk_of op_okflag op_sample]; try exact Ht.
  - unfold obs_add_ok. destruct b as [r| | | | |]; try exact Ht. destruct r; try exact Ht.
    rewrite Ht, app_assoc, (map_app smp (_ ++ _) [d]). reflexivity.
  - rewrite (Hbad eq_refl). exact Ht.
  - rewrite Ht, Hd, map_app, <- (map_length smp), up_firstn_app, app_nil_r. reflexivity.
Qed.

Lemma meta1_ok : forall s a x o b, orel a s -> a_meta x = a_meta a -> o <> OSetMeta None ->
  c17_meta1 s (opk_of o) (op_okflag o b) (op_sample render o) = option_map smp (a_meta (spec_op x o b)).
Proof.
  intros s a x o b (_ & _ & _ & Hm) Hx Hno. rewrite spec_op_meta. unfold c17_meta1.
  destruct o as [d now| | | | |m|]; cbn [opk_of op_okflag op_sample]; try (rewrite Hx; exact Hm).
  destruct m as [m|]; [reflexivity|contradiction].
Qed.

Lemma oracle_step : forall j n st a s o st' b, 1 <= n -> Inv j n st a -> orel a s ->
  step deflate st o = (st', b) -> o <> OSetMeta None ->
  exists s', c17_step j n s (opk_of o) (op_okflag o b) (op_sample render o)
               (map view_of_rec (w_log (snd st'))) (option_map view_of (c_resolve deflate (fst st')))
               (snd (c_info (fst st'))) = (s', []) /\
    orel (spec_step a o b (wev_of (snd st) (snd st'))) s'.
Proof.
  intros j n st a s o st' b Hn HI Hrel Hstep Hno.
  destruct (step_inv deflate j n st a o st' b Hn HI Hstep) as (HI' & _).
  set (e := wev_of (snd st) (snd st')) in *.
  assert (He0 : match o with OReset => e = WNone | _ => True end).
  { pose proof (step_quiet_writer st o st' b Hstep) as Hq. destruct o; try exact I. unfold e. rewrite Hq. apply wev_of_same. }
  destruct st' as [c' w']. destruct (Inv_obs deflate j n c' w' _ HI') as (Hres & Hinfo & Hlen & _).
  pose proof HI' as (_ & (Hlog & _) & Hbnd & _). cbn [fst snd] in *.
  rewrite Hres, Hinfo, Hlog. fold (views j (a_recs (spec_step a o b e))).
  unfold c17_step, spec_step in *.
  set (a1 := spec_flush a e) in *.
  assert (Eshape : spec_op a1 o b = mkAspec (a_recs a1) (a_pend (spec_op a1 o b)) (a_meta (spec_op a1 o b))).
  { rewrite <- (spec_op_recs a1 o b). symmetry. apply aspec_eta. }
  rewrite Eshape. rewrite Eshape in Hlen, Hbnd. cbn [a_pend a_recs] in Hlen, Hbnd.
  destruct a as [recs P M]. pose proof Hrel as (Ht & Hd & Hr & Hm). cbn [a_recs a_pend a_meta] in *.
  apply (core_ok j n s recs P M e (q_of P o b)).
  - exact Hd.
  - exact Hr.
  - exact Hm.
  - apply (total1_ok s (mkAspec recs P M) o b Hrel). intros E. subst o. apply (step_add_bad_obs st _ b Hstep).
  - apply (meta1_ok s (mkAspec recs P M) a1 o b Hrel); [apply spec_flush_meta|exact Hno].
  - rewrite spec_op_pend. subst a1. destruct e as [| |k]; cbn [spec_flush a_pend a_recs] in *.
    + reflexivity.
    + unfold recs_bounded in Hbnd. cbn [a_recs] in Hbnd. apply Forall_app in Hbnd. destruct Hbnd as (_ & Hb).
      inversion Hb as [|g l (Hne & Hle) _]; subst. cbn [gr_samples] in *.
      split; [|split; assumption].
      unfold q_of. destruct o as [d now| | | | |m|]; try (rewrite app_nil_r; reflexivity).
      * destruct b as [r| | | | |]; try (rewrite app_nil_r; reflexivity). destruct r; try (rewrite app_nil_r; reflexivity). reflexivity.
      * discriminate He0.
    + reflexivity.
  - exact Hlen.
Qed.

Lemma oracle_run_from : forall j n ops st a s, 1 <= n -> Inv j n st a -> orel a s ->
  Forall (fun o => o <> OSetMeta None) ops -> c17_run_from render deflate j n st s ops = true.
Proof.
  intros j n ops. induction ops as [|o r IH]; intros st a s Hn HI Hrel Hops; [reflexivity|].
  inversion Hops as [|o' r' Ho Hr]; subst. cbn [c17_run_from].
  destruct (step deflate st o) as [st' b] eqn:Es.
  destruct (oracle_step j n st a s o st' b Hn HI Hrel Es Ho) as (s' & Hc & Hrel').
  rewrite Hc. apply (IH st' (spec_step a o b (wev_of (snd st) (snd st'))) s' Hn); [|exact Hrel'|exact Hr].
  apply (step_inv deflate j n st a o st' b Hn HI Es).
Qed.

Theorem unc_oracle : forall k n fs ops, unc_kind k = true -> 1 <= n ->
  Forall (fun o => o <> OSetMeta None) ops -> c17_run render deflate k n fs ops = true.
Proof.
  intros k n fs ops Hk Hn Hops. unfold c17_run.
  apply (oracle_run_from (kind_json k) n ops _ aspec0 ost0 Hn).
  - apply (init_inv k n fs Hk). lia.
  - repeat split.
  - exact Hops.
Qed.

End Oracle.

(* ------------------------------------------------------------------ schema-aware kinds on a pure Add sequence *)
Section Groups.
Variable deflate : bytes -> bytes.

Lemma w_write_nofault : forall w p, w_faults w = [] ->
  w_write w p = (mkWriter (w_log w ++ [WFull p]) [] (w_closed w), true).
Proof. intros w p H. unfold w_write. rewrite H. reflexivity. Qed.

Lemma sig_eqb_true : forall a b, sig_eqb a b = true <-> a = b.
Proof.
  intros [a1 a2] [b1 b2]. unfold sig_eqb. cbn [fst snd]. split.
  - intros H. apply andb_true_iff in H. destruct H as [H1 H2]. apply up_bytes_eqb_true in H1. apply Z.eqb_eq in H2. subst. reflexivity.
  - intros H. injection H as E1 E2. subst. rewrite up_bytes_eqb_refl, Z.eqb_refl. reflexivity.
Qed.

Lemma run_app : forall ops1 ops2 st,
  run deflate st (ops1 ++ ops2) =
  let '(st1, o1) := run deflate st ops1 in let '(st2, o2) := run deflate st1 ops2 in (st2, o1 ++ o2).
Proof.
  induction ops1 as [|o r IH]; intros ops2 st.
  - cbn [app run]. destruct (run deflate st ops2). reflexivity.
  - cbn [app run]. destruct (step deflate st o) as [st' b]. rewrite IH.
    destruct (run deflate st' r) as [st1 o1]. destruct (run deflate st1 ops2) as [st2 o2]. reflexivity.
Qed.

Definition full_rec (j : bool) (g : list doc) : wrec := WFull (ODocs j g).

(* one Add on a schema-aware collector without metadata and with an acknowledging writer *)
Lemma sdyn_add_step : forall j n x u w d now, 1 <= n -> sd_holds j n x u -> w_faults w = [] -> uc_meta u = None ->
  d <> [] -> Forall (fun s : doc => s <> []) (uc_samples u) ->
  (forall s, In s (uc_samples u) -> schema_sig s = schema_sig d -> length s = length d) ->
  exists x' u' w' pre, sd_add deflate x w d now = (x', w', ROk) /\ sd_holds j n x' u' /\ w_faults w' = [] /\ uc_meta u' = None /\
    w_log w' = w_log w ++ map (full_rec j) pre /\
    (uc_samples u' = uc_samples u ++ [d] \/ uc_samples u' = [d]) /\
    forall r, groups_from n (uc_samples u) (d :: r) = pre ++ groups_from n (uc_samples u') r.
Proof.
  intros j n x u w d now Hn Hh Hw Hm Hd Hne Hcompat. pose proof Hh as (Hs & Hhash). pose proof Hs as (_ & Hu & _).
  destruct (uc_samples u) as [|c0 cs] eqn:Es.
  - (* nothing pending *)
    assert (Hgoal : exists x' u', sd_add deflate x w d now = (x', w, ROk) /\ sd_holds j n x' u' /\ uc_meta u' = uc_meta u /\ uc_samples u' = [d]).
    { destruct (sd_changed x d) eqn:Hch.
      - destruct (sd_add_fresh deflate j n x u w d now Hn Hh Hch Es) as (x' & u' & Ha & Hh' & Hmeta & Hsm). exists x', u'. split; [exact Ha|]. split; [exact Hh'|]. split; [exact Hmeta|exact Hsm].
      - destruct (sd_add_same deflate j n x u w d now Hn Hh Hch) as (s' & u' & w' & r & Ha & _ & Hadd & Hh').
        destruct (sc_add_room deflate j n (sd_s x) u w d now Hn Hs) as (s2 & u2 & Ha2 & (Hi2 & _) & Hmeta & Hsm & _).
        { rewrite Es. cbn [length]. lia. }
        rewrite (uc_add_res_empty j n u d Hn Hu Es) in *. rewrite Ha2 in Ha. injection Ha as E1 E2 E3. subst s' w' r.
        destruct Hh' as ((Hi' & _) & _). cbn [sd_s] in Hi'. rewrite Hi2 in Hi'. injection Hi' as E. subst u'.
        eexists _, u2. split; [exact Hadd|]. split; [|split; [exact Hmeta|rewrite Hsm, Es; reflexivity]].
        destruct (sd_add_same deflate j n x u w d now Hn Hh Hch) as (s3 & u3 & w3 & r3 & Ha3 & _ & _ & Hh3).
        rewrite Ha2 in Ha3. injection Ha3 as F1 F2 F3. subst s3 w3 r3.
        destruct Hh3 as ((Hi3 & Hx3) & Hy3). cbn [sd_s] in Hi3. rewrite Hi2 in Hi3. injection Hi3 as F. subst u3.
        split; [split; [exact Hi2|exact Hx3]|exact Hy3]. }
    destruct Hgoal as (x' & u' & Ha & Hh' & Hmeta & Hsm). exists x', u', w, []. rewrite Hsm.
    split; [exact Ha|]. split; [exact Hh'|]. split; [exact Hw|]. split; [rewrite Hmeta; exact Hm|].
    split; [rewrite app_nil_r; reflexivity|]. split; [right; reflexivity|]. intros r. reflexivity.
  - (* samples pending *)
    assert (Hnn : uc_samples u <> []) by (rewrite Es; discriminate).
    assert (Hall : forall s, In s (uc_samples u) -> schema_sig s = schema_sig c0).
    { intros s Hin. apply (sd_pending_one_schema j n (CSDyn x) u Hh eq_refl); [exact Hin|rewrite Es; left; reflexivity]. }
    assert (Hpay : payload j u = ODocs j (c0 :: cs)) by (unfold payload; rewrite Hm, Es; reflexivity).
    destruct (sig_eqb (schema_sig c0) (schema_sig d) && (Z.of_nat (length (c0 :: cs)) <? n)) eqn:Hc.
    + (* same signature, room *)
      pose proof Hc as Hc0.
      apply andb_true_iff in Hc. destruct Hc as [Hsig Hroom]. apply sig_eqb_true in Hsig. apply Z.ltb_lt in Hroom.
      assert (Hch : sd_changed x d = false).
      { apply (sd_changed_pending j n x u d Hh Hnn). intros s Hin. rewrite (Hall s Hin). exact Hsig. }
      destruct (sd_add_same deflate j n x u w d now Hn Hh Hch) as (s' & u' & w' & r & Ha & _ & Hadd & Hh').
      destruct (sc_add_room deflate j n (sd_s x) u w d now Hn Hs) as (s2 & u2 & Ha2 & (Hi2 & _) & Hmeta & Hsm & _).
      { rewrite Es. exact Hroom. }
      assert (Hres : uc_add_res u d = ROk).
      { destruct (uc_add_res_cases u d) as [(H0 & Hl & _)|(_ & [(Hb & _)|(_ & E)])]; [exfalso| exfalso|exact E].
        - destruct Hu as (_ & _ & _ & Hf & _). rewrite Forall_forall in Hf.
          assert (Hin : In c0 (uc_samples u)) by (rewrite Es; left; reflexivity).
          destruct (Hf c0 Hin) as [E0|E0].
          + rewrite Forall_forall in Hne. apply (Hne c0); [left; reflexivity|exact E0].
          + apply Hl. rewrite <- E0. f_equal. symmetry. apply Hcompat; [left; reflexivity|exact Hsig].
        - destruct Hu as (_ & Hbb & _). rewrite Hbb, Es in Hb. lia. }
      rewrite Hres in *. rewrite Ha2 in Ha. injection Ha as E1 E2 E3. subst s' w' r.
      destruct Hh' as ((Hi' & Hx') & Hy'). cbn [sd_s] in Hi'. rewrite Hi2 in Hi'. injection Hi' as E. subst u'.
      eexists _, u2, w, []. split; [exact Hadd|]. split; [split; [split; [exact Hi2|exact Hx']|exact Hy']|].
      split; [exact Hw|]. split; [rewrite Hmeta; exact Hm|]. split; [rewrite app_nil_r; reflexivity|].
      split; [left; rewrite Hsm, Es; reflexivity|].
      intros r. rewrite Hsm, Es. cbn [groups_from app]. rewrite Hc0. reflexivity.
    + (* another signature, or full: everything pending is written, d starts a new group *)
      pose proof Hc as Hc0.
      assert (Hgoal : exists x' u', sd_add deflate x w d now = (x', mkWriter (w_log w ++ [WFull (payload j u)]) [] (w_closed w), ROk) /\
                        sd_holds j n x' u' /\ uc_meta u' = uc_meta u /\ uc_samples u' = [d]).
      { destruct (sd_changed x d) eqn:Hch.
        - destruct (sd_add_change deflate j n x u w d now Hn Hh Hch Hnn) as (w' & ok & e & Hww & _ & _ & Hres).
          rewrite (w_write_nofault w _ Hw) in Hww. injection Hww as E1 E2. subst w' ok.
          destruct Hres as (x' & u' & Ha & Hh' & Hmeta & Hsm). exists x', u'. split; [exact Ha|]. split; [exact Hh'|]. split; [exact Hmeta|exact Hsm].
        - assert (Hsig : schema_sig c0 = schema_sig d).
          { apply (proj1 (sd_changed_pending j n x u d Hh Hnn) Hch). rewrite Es. left. reflexivity. }
          apply andb_false_iff in Hc. destruct Hc as [Hc|Hc].
          { apply sig_eqb_true in Hsig. rewrite Hsig in Hc. discriminate Hc. }
          apply Z.ltb_ge in Hc.
          destruct (sc_add_full deflate j n (sd_s x) u w d now Hn Hs) as (_ & w' & ok & e & Hww & _ & _ & Hres).
          { rewrite Es. exact Hc. }
          rewrite (w_write_nofault w _ Hw) in Hww. injection Hww as E1 E2. subst w' ok.
          destruct Hres as (s' & u' & Ha & Hh' & Hmeta & Hsm).
          destruct (sd_add_same deflate j n x u w d now Hn Hh Hch) as (s3 & u3 & w3 & r3 & Ha3 & _ & Hadd & Hh3).
          rewrite Ha in Ha3. injection Ha3 as F1 F2 F3. subst s3 w3 r3.
          destruct Hh3 as ((Hi3 & Hx3) & Hy3). destruct Hh' as (Hi' & _). cbn [sd_s] in Hi3. rewrite Hi' in Hi3. injection Hi3 as F. subst u3.
          eexists _, u'. split; [exact Hadd|]. split; [split; [split; [exact Hi'|exact Hx3]|exact Hy3]|]. split; assumption. }
      destruct Hgoal as (x' & u' & Ha & Hh' & Hmeta & Hsm). eexists x', u', _, [c0 :: cs]. rewrite Hsm.
      split; [exact Ha|]. split; [exact Hh'|]. split; [reflexivity|]. split; [rewrite Hmeta; exact Hm|].
      split; [cbn [w_log map]; rewrite Hpay; reflexivity|]. split; [right; reflexivity|].
      intros r. cbn [groups_from app]. rewrite Hc0. reflexivity.
Qed.



Lemma sdyn_adds : forall j n docs nows x u w, 1 <= n -> sd_holds j n x u -> w_faults w = [] -> uc_meta u = None ->
  length nows = length docs ->
  Forall (fun s : doc => s <> []) (uc_samples u ++ docs) ->
  (forall a b, In a (uc_samples u ++ docs) -> In b (uc_samples u ++ docs) -> schema_sig a = schema_sig b -> length a = length b) ->
  exists x' u' w' pre, run deflate (CSDyn x, w) (add_ops docs nows) = ((CSDyn x', w'), map (fun _ => BAdd ROk) docs) /\
    sd_holds j n x' u' /\ w_faults w' = [] /\ uc_meta u' = None /\
    w_log w' = w_log w ++ map (full_rec j) pre /\
    groups_from n (uc_samples u) docs = pre ++ groups_from n (uc_samples u') [].
Proof.
  intros j n docs. induction docs as [|d r IH]; intros nows x u w Hn Hh Hw Hm Hlen Hne Hcompat.
  - exists x, u, w, []. destruct nows; [|discriminate Hlen]. cbn [add_ops combine map run].
    split; [reflexivity|]. split; [exact Hh|]. split; [exact Hw|]. split; [exact Hm|]. split; [rewrite app_nil_r; reflexivity|reflexivity].
  - destruct nows as [|now nows]; [discriminate Hlen|]. injection Hlen as Hlen.
    pose proof Hne as Hne0. apply Forall_app in Hne. destruct Hne as (Hne1 & Hne2). inversion Hne2 as [|d' r' Hd Hr]; subst.
    destruct (sdyn_add_step j n x u w d now Hn Hh Hw Hm Hd Hne1) as (x1 & u1 & w1 & pre1 & Ha & Hh1 & Hw1 & Hm1 & Hlog1 & Hs1 & Hg1).
    { intros s Hin Hsig. apply Hcompat; [apply in_or_app; left; exact Hin|apply in_or_app; right; left; reflexivity|exact Hsig]. }
    assert (Hsub : forall s, In s (uc_samples u1) -> In s (uc_samples u ++ [d])).
    { intros s Hin. destruct Hs1 as [E|E]; rewrite E in Hin; [exact Hin|apply in_or_app; right; exact Hin]. }
    assert (Hsub' : forall s, In s (uc_samples u1 ++ r) -> In s (uc_samples u ++ d :: r)).
    { intros s Hin. apply in_app_or in Hin. destruct Hin as [Hin|Hin].
      - apply Hsub in Hin. apply in_app_or in Hin. destruct Hin as [Hin|[E|[]]]; apply in_or_app; [left; exact Hin|right; left; exact E].
      - apply in_or_app. right. right. exact Hin. }
    destruct (IH nows x1 u1 w1 Hn Hh1 Hw1 Hm1 Hlen) as (x2 & u2 & w2 & pre2 & Hrun & Hh2 & Hw2 & Hm2 & Hlog2 & Hg2).
    { rewrite Forall_forall in *. intros s Hin. apply Hne0. apply Hsub'. exact Hin. }
    { intros a b Hia Hib. apply Hcompat; apply Hsub'; assumption. }
    exists x2, u2, w2, (pre1 ++ pre2). cbn [add_ops combine map run step c_add fst snd]. rewrite Ha.
    fold (add_ops r nows). rewrite Hrun.
    split; [reflexivity|]. split; [exact Hh2|]. split; [exact Hw2|]. split; [exact Hm2|].
    split; [rewrite Hlog2, Hlog1, map_app, app_assoc; reflexivity|].
    rewrite Hg1, Hg2, app_assoc. reflexivity.
Qed.

(* C08 for these kinds: for a pure Add sequence and a final flush, every document
   is accepted and the outputs are exactly the greedy groups (new output at a
   signature change or at capacity), as long as documents of one metric
   signature have one top-level field count (otherwise: RCount, see C17_schema)
   and none is empty *)
Theorem unc_sdyn_groups : forall k n docs nows, unc_kind k = true -> sdyn_kind k = true -> 1 <= n ->
  length nows = length docs ->
  Forall (fun s : doc => s <> []) docs ->
  (forall a b, In a docs -> In b docs -> schema_sig a = schema_sig b -> length a = length b) ->
  let res := run deflate (init_state k n []) (add_ops docs nows ++ [OFlush]) in
  snd res = map (fun _ => BAdd ROk) docs ++ [BFlush true] /\
  w_log (snd (fst res)) = map (fun g => WFull (ODocs (kind_json k) g)) (groups_from n [] docs) /\
  concat (groups_from n [] docs) = docs.
Proof.
  intros k n docs nows Hk Hsd Hn Hlen Hne Hcompat. cbn zeta.
  assert (Hinit : exists x, new_coll k n = CSDyn x /\ sd_holds (kind_json k) n x (mkUcoll (kind_json k) n 0 None [])).
  { pose proof (st_new_holds k n Hk ltac:(lia)) as Hh. destruct k; try discriminate Hsd; cbn [new_coll] in *; eexists; split; try reflexivity; exact Hh. }
  destruct Hinit as (x & Ex & Hh). unfold init_state. rewrite Ex.
  destruct (sdyn_adds (kind_json k) n docs nows x _ (mkWriter [] [] false) Hn Hh eq_refl eq_refl Hlen)
    as (x' & u' & w' & pre & Hrun & Hh' & Hw' & Hm' & Hlog & Hg); [exact Hne|exact Hcompat|].
  cbn [uc_samples w_log app] in Hlog, Hg.
  rewrite run_app, Hrun. cbn [run step c_flush].
  assert (Hcat : forall cur ds, concat (groups_from n cur ds) = cur ++ ds).
  { clear. intros cur ds. revert cur. induction ds as [|d r IH]; intros cur.
    - cbn [groups_from]. destruct cur; cbn [concat]; rewrite ?app_nil_r; reflexivity.
    - cbn [groups_from]. destruct cur as [|c0 cs]; [rewrite IH; reflexivity|].
      destruct (_ && _); [rewrite IH, <- app_assoc; reflexivity|]. cbn [concat]. rewrite IH. reflexivity. }
  destruct (sd_flush_spec deflate (kind_json k) n x' u' w' Hh') as [[E Hf]|(Hnn & w2 & ok & e & Hww & _ & _ & Hf)]; rewrite Hf.
  - cbn [fst snd]. split; [reflexivity|]. split; [|apply (Hcat [] docs)].
    rewrite Hlog, Hg, E. cbn [groups_from]. rewrite app_nil_r. reflexivity.
  - rewrite (w_write_nofault w' _ Hw') in Hww. injection Hww as E1 E2. subst w2 ok. cbn [fst snd w_log].
    split; [reflexivity|]. split; [|apply (Hcat [] docs)].
    rewrite Hlog, Hg, map_app. unfold payload. rewrite Hm'. cbn [mh app groups_from].
    destruct (uc_samples u'); [contradiction|]. reflexivity.
Qed.

End Groups.
