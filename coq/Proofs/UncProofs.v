(* C17: the uncompressed collectors refine the (records, pending, metadata)
   specification machine of Model/UncOk.v; flavour, batch and schema invariants;
   the executable oracle c17_step accepts every observation of the model. *)
From Coq Require Import ZArith NArith List Bool Lia Arith.
From FV.Model Require Import Bytes Bson Metrics Codec Collector CollectorOk Instance UncOk.
Import ListNotations.
Open Scope Z_scope.

(* ------------------------------------------------------------------ list facts *)
Lemma up_skipn_app : forall (A : Type) (l r : list A), skipn (length l) (l ++ r) = r.
Proof. intros A l r. induction l as [|a l IH]; [reflexivity|exact IH]. Qed.

Lemma up_firstn_app : forall (A : Type) (l r : list A), firstn (length l) (l ++ r) = l.
Proof. intros A l r. induction l as [|a l IH]; [reflexivity|cbn [length app firstn]; rewrite IH; reflexivity]. Qed.

Lemma up_skipn_all : forall (A : Type) (l : list A), skipn (length l) l = [].
Proof. intros A l. induction l as [|a l IH]; [reflexivity|exact IH]. Qed.

Lemma up_flat_map_snoc : forall (A B : Type) (f : A -> list B) l x, flat_map f (l ++ [x]) = flat_map f l ++ f x.
Proof. intros A B f l x. rewrite flat_map_app. cbn [flat_map]. rewrite app_nil_r. reflexivity. Qed.

Lemma up_bytes_eqb_refl : forall a, bytes_eqb a a = true.
Proof. intros a. unfold bytes_eqb. destruct (list_eq_dec N.eq_dec a a) as [_|H]; [reflexivity|contradiction]. Qed.

Lemma up_bytes_eqb_true : forall a b, bytes_eqb a b = true -> a = b.
Proof. intros a b H. unfold bytes_eqb in H. destruct (list_eq_dec N.eq_dec a b) as [E|_]; [exact E|discriminate H]. Qed.

Lemma up_docs_eqb_refl : forall l, docs_eqb l l = true.
Proof.
  induction l as [|d l IH]; [reflexivity|]. cbn [docs_eqb]. unfold doc_eqb.
  rewrite up_bytes_eqb_refl, IH. reflexivity.
Qed.

Lemma up_lines_eqb_refl : forall l, lines_eqb l l = true.
Proof. induction l as [|d l IH]; [reflexivity|]. cbn [lines_eqb]. rewrite up_bytes_eqb_refl, IH. reflexivity. Qed.

Lemma up_length_zero : forall (A : Type) (l : list A), Z.of_nat (length l) = 0 -> l = [].
Proof. intros A l H. destruct l; [reflexivity|cbn [length] in H; lia]. Qed.

(* ------------------------------------------------------------------ the writer *)
(* the log changed according to event e with payload p *)
Definition log_ev (w w' : writer) (p : outp) (e : wev) : Prop :=
  match e with
  | WNone => w_log w' = w_log w
  | WDone => w_log w' = w_log w ++ [WFull p]
  | WShort n => w_log w' = w_log w ++ [WPart n p]
  end.

Lemma log_ev_wev : forall w w' p e, log_ev w w' p e -> wev_of w w' = e.
Proof.
  intros w w' p e H. unfold wev_of. destruct e as [| |k]; cbn [log_ev] in H; rewrite H.
  - rewrite up_skipn_all. reflexivity.
  - rewrite up_skipn_app. reflexivity.
  - rewrite up_skipn_app. reflexivity.
Qed.

Lemma w_write_ev : forall w p, exists w' ok e,
  w_write w p = (w', ok) /\ log_ev w w' p e /\ (ok = true <-> e = WDone).
Proof.
  intros w p. unfold w_write. destruct (w_faults w) as [|[| |k] r].
  - eexists _, true, WDone. split; [reflexivity|]. split; [reflexivity|]. split; reflexivity.
  - eexists _, true, WDone. split; [reflexivity|]. split; [reflexivity|]. split; reflexivity.
  - eexists _, false, WNone. split; [reflexivity|]. split; [reflexivity|]. split; discriminate.
  - eexists _, false, (WShort k). split; [reflexivity|]. split; [reflexivity|]. split; discriminate.
Qed.

(* a fault-free head of the schedule: the write is acknowledged *)
Definition next_write_ok (w : writer) : Prop := match w_faults w with [] | FNone :: _ => True | _ => False end.

Lemma w_write_ok : forall w p, next_write_ok w -> exists w', w_write w p = (w', true) /\ w_log w' = w_log w ++ [WFull p].
Proof.
  intros w p H. unfold w_write, next_write_ok in *. destruct (w_faults w) as [|[| |k] r]; try contradiction.
  - eexists. split; reflexivity.
  - eexists. split; reflexivity.
Qed.

(* ------------------------------------------------------------------ FlushCollector *)
Lemma flush_with_spec : forall (A : Type) (info : A -> Z * Z) (resolve : A -> option outp) (rst : A -> A)
    (c : A) (w : writer) (j : bool) (m : option doc) (p : list doc),
  snd (info c) = Z.of_nat (length p) ->
  resolve c = match p with [] => None | _ => Some (ODocs j (mh m ++ p)) end ->
  (p = [] /\ flush_with info resolve rst c w = (c, w, true)) \/
  (p <> [] /\ exists w' ok e, w_write w (ODocs j (mh m ++ p)) = (w', ok) /\
     log_ev w w' (ODocs j (mh m ++ p)) e /\ (ok = true <-> e = WDone) /\
     flush_with info resolve rst c w = ((if ok then rst c else c), w', ok)).
Proof.
  intros A info resolve rst c w j m p Hinfo Hres. unfold flush_with. rewrite Hinfo.
  destruct p as [|d p].
  - left. split; reflexivity.
  - right. split; [discriminate|].
    replace (Z.of_nat (length (d :: p)) =? 0) with false by (symmetry; apply Z.eqb_neq; cbn [length]; lia).
    rewrite Hres.
    destruct (w_write_ev w (ODocs j (mh m ++ d :: p))) as (w' & ok & e & Hw & Hlog & Hok).
    exists w', ok, e. rewrite Hw. repeat split; try assumption; try apply Hok.
    destruct ok; reflexivity.
Qed.

(* ------------------------------------------------------------------ uncompressedCollector *)
Definition uc_inv (j : bool) (n : Z) (u : ucoll) : Prop :=
  uc_json u = j /\ uc_batch u = n /\ Z.of_nat (length (uc_samples u)) <= n /\
  Forall (fun s : doc => s = [] \/ Z.of_nat (length s) = uc_mcount u) (uc_samples u) /\
  (uc_samples u = [] -> uc_mcount u = 0).

Lemma uc_resolve_spec : forall u,
  uc_resolve u = match uc_samples u with [] => None | _ => Some (ODocs (uc_json u) (mh (uc_meta u) ++ uc_samples u)) end.
Proof. intros u. unfold uc_resolve, mh. destruct (uc_samples u); reflexivity. Qed.

Lemma uc_new_inv : forall j n, 0 <= n -> uc_inv j n (mkUcoll j n 0 None []).
Proof. intros j n Hn. unfold uc_inv. cbn. repeat split; try lia. constructor. Qed.

Lemma uc_reset_inv : forall j n u, 0 <= n -> uc_inv j n u -> uc_inv j n (uc_reset u).
Proof.
  intros j n u Hn (Hj & Hb & _). unfold uc_inv, uc_reset. cbn [uc_json uc_batch uc_samples uc_mcount length].
  repeat split; try assumption; try lia. constructor.
Qed.

Lemma uc_set_meta_inv : forall j n u m, uc_inv j n u ->
  uc_inv j n (mkUcoll (uc_json u) (uc_batch u) (uc_mcount u) m (uc_samples u)).
Proof. intros j n u m H. exact H. Qed.

(* the exact outcome of Add *)
Definition uc_add_res (u : ucoll) (d : doc) : ares :=
  if negb (uc_mcount u =? 0) && negb (Z.of_nat (length d) =? uc_mcount u) then RCount
  else if uc_batch u <=? Z.of_nat (length (uc_samples u)) then RFull else ROk.

Lemma uc_add_spec : forall j n u d, 1 <= n -> uc_inv j n u ->
  exists u', uc_add u d = (u', uc_add_res u d) /\ uc_inv j n u' /\ uc_meta u' = uc_meta u /\
    uc_samples u' = uc_samples u ++ (match uc_add_res u d with ROk => [d] | _ => [] end).
Proof.
  intros j n u d Hn (Hj & Hb & Hlen & Hall & Hnil). unfold uc_add, uc_add_res.
  destruct (uc_mcount u =? 0) eqn:E0; cbn [negb andb].
  - apply Z.eqb_eq in E0. rewrite Z.eqb_refl. cbn [negb].
    assert (Hempty : Forall (fun s : doc => s = []) (uc_samples u)).
    { eapply Forall_impl; [|exact Hall]. intros s [Hs|Hs]; [exact Hs|]. rewrite E0 in Hs. apply up_length_zero. exact Hs. }
    destruct (uc_batch u <=? Z.of_nat (length (uc_samples u))) eqn:Eb.
    + eexists. split; [reflexivity|]. rewrite app_nil_r. split; [|split; reflexivity].
      unfold uc_inv. cbn [uc_json uc_batch uc_samples uc_mcount]. repeat split; try assumption.
      * eapply Forall_impl; [|exact Hempty]. intros s Hs. left. exact Hs.
      * intros Hs. apply Z.leb_le in Eb. rewrite Hs in Eb. cbn [length] in Eb. lia.
    + eexists. split; [reflexivity|]. split; [|split; reflexivity].
      apply Z.leb_gt in Eb.
      unfold uc_inv. cbn [uc_json uc_batch uc_samples uc_mcount]. repeat split; try assumption.
      * rewrite app_length. cbn [length]. lia.
      * apply Forall_app. split.
        -- eapply Forall_impl; [|exact Hempty]. intros s Hs. left. exact Hs.
        -- constructor; [right; reflexivity|constructor].
      * intros Hs. destruct (uc_samples u); discriminate Hs.
  - destruct (Z.of_nat (length d) =? uc_mcount u) eqn:El; cbn [negb].
    + apply Z.eqb_eq in El.
      destruct (uc_batch u <=? Z.of_nat (length (uc_samples u))) eqn:Eb.
      * eexists. split; [reflexivity|]. rewrite app_nil_r. split; [|split; reflexivity].
        unfold uc_inv. cbn [uc_json uc_batch uc_samples uc_mcount]. repeat split; assumption.
      * eexists. split; [reflexivity|]. split; [|split; reflexivity].
        apply Z.leb_gt in Eb.
        unfold uc_inv. cbn [uc_json uc_batch uc_samples uc_mcount]. repeat split; try assumption.
        -- rewrite app_length. cbn [length]. lia.
        -- apply Forall_app. split; [exact Hall|]. constructor; [right; exact El|constructor].
        -- intros Hs. destruct (uc_samples u); discriminate Hs.
    + eexists. split; [reflexivity|]. rewrite app_nil_r. split; [|split; reflexivity].
      unfold uc_inv. cbn [uc_json uc_batch uc_samples uc_mcount]. repeat split; assumption.
Qed.

(* ------------------------------------------------------------------ streamingCollector over an uncompressed collector *)
Section Kinds.
Variable deflate : bytes -> bytes.

(* s wraps the uncompressed collector u *)
Definition sc_holds (j : bool) (n : Z) (s : scoll) (u : ucoll) : Prop :=
  sc_inner s = IU u /\ uc_inv j n u /\ sc_max s = n /\ sc_count s = Z.of_nat (length (uc_samples u)).

Definition payload (j : bool) (u : ucoll) : outp := ODocs j (mh (uc_meta u) ++ uc_samples u).

Lemma sc_reset_holds : forall j n s u, 0 <= n -> sc_holds j n s u -> sc_holds j n (sc_reset s) (uc_reset u).
Proof.
  intros j n s u Hn (Hi & Hu & Hm & Hc). unfold sc_holds, sc_reset. cbn [sc_inner sc_max sc_count].
  rewrite Hi. cbn [in_reset]. split; [reflexivity|]. split; [apply uc_reset_inv; assumption|].
  split; [exact Hm|reflexivity].
Qed.

Lemma sc_flush_spec : forall j n s u w, sc_holds j n s u ->
  (uc_samples u = [] /\ sc_flush deflate s w = (s, w, true)) \/
  (uc_samples u <> [] /\ exists w' ok e, w_write w (payload j u) = (w', ok) /\
     log_ev w w' (payload j u) e /\ (ok = true <-> e = WDone) /\
     sc_flush deflate s w = ((if ok then sc_reset s else s), w', ok)).
Proof.
  intros j n s u w (Hi & Hu & Hm & Hc). unfold sc_flush, payload.
  apply flush_with_spec.
  - rewrite Hi. reflexivity.
  - rewrite Hi. cbn [in_resolve]. rewrite uc_resolve_spec. destruct Hu as (Hj & _). rewrite Hj. reflexivity.
Qed.

(* the three outcomes of an Add through a wrapper of type S holding u:
   no write; a completed write of everything pending followed by the acceptance
   of d; a failed write that leaves the collector as it was *)
Inductive gen_out (S : Type) (holds : S -> ucoll -> Prop) (j : bool) (u : ucoll) (w : writer) (d : doc)
  : S -> ucoll -> writer -> ares -> Prop :=
| so_quiet : forall s' u' r, r <> RFlush -> holds s' u' -> uc_meta u' = uc_meta u ->
    uc_samples u' = uc_samples u ++ (match r with ROk => [d] | _ => [] end) ->
    gen_out S holds j u w d s' u' w r
| so_wrote : forall s' u' w', uc_samples u <> [] -> w_log w' = w_log w ++ [WFull (payload j u)] ->
    holds s' u' -> uc_meta u' = uc_meta u -> uc_samples u' = [d] ->
    gen_out S holds j u w d s' u' w' ROk
| so_failed : forall s' w' e, holds s' u -> uc_samples u <> [] -> log_ev w w' (payload j u) e -> e <> WDone ->
    gen_out S holds j u w d s' u w' RFlush.
Arguments gen_out {S} holds j u w d _ _ _ _.
Definition sc_out (j : bool) (n : Z) := gen_out (sc_holds j n) j.

Lemma scoll_eta : forall s, mkScoll (sc_max s) (sc_count s) (sc_inner s) = s.
Proof. intros []. reflexivity. Qed.

(* below capacity: no write, the wrapped collector decides *)
Lemma sc_add_room : forall j n s u w d now, 1 <= n -> sc_holds j n s u ->
  Z.of_nat (length (uc_samples u)) < n ->
  exists s' u', sc_add deflate s w d now = (s', w, uc_add_res u d) /\ sc_holds j n s' u' /\
    uc_meta u' = uc_meta u /\
    uc_samples u' = uc_samples u ++ (match uc_add_res u d with ROk => [d] | _ => [] end) /\
    uc_add_res u d <> RFlush.
Proof.
  intros j n s u w d now Hn (Hi & Hu & Hm & Hc) Hlt. unfold sc_add.
  replace (sc_max s <=? sc_count s) with false by (symmetry; apply Z.leb_gt; lia).
  cbn [negb]. rewrite Hi. cbn [in_add].
  destruct (uc_add_spec j n u d Hn Hu) as (u' & Ha & Hu' & Hmeta & Hs). rewrite Ha.
  assert (Hnf : uc_add_res u d <> RFlush).
  { unfold uc_add_res. destruct (_ && _); [discriminate|]. destruct (_ <=? _); discriminate. }
  destruct (uc_add_res u d) eqn:Er; (eexists _, u'; split; [reflexivity|]; split; [|split; [exact Hmeta|split; [exact Hs|exact Hnf]]]);
    unfold sc_holds; cbn [sc_inner sc_max sc_count]; (split; [reflexivity|]); (split; [exact Hu'|]); (split; [exact Hm|]);
    rewrite Hs, ?app_nil_r, ?app_length; cbn [length]; lia.
Qed.

(* at capacity: flush first; the emptied collector accepts any document *)
Lemma sc_add_full : forall j n s u w d now, 1 <= n -> sc_holds j n s u ->
  n <= Z.of_nat (length (uc_samples u)) ->
  uc_samples u <> [] /\
  exists w' ok e, w_write w (payload j u) = (w', ok) /\ log_ev w w' (payload j u) e /\ (ok = true <-> e = WDone) /\
    if ok then exists s' u', sc_add deflate s w d now = (s', w', ROk) /\ sc_holds j n s' u' /\
                 uc_meta u' = uc_meta u /\ uc_samples u' = [d]
    else sc_add deflate s w d now = (s, w', RFlush).
Proof.
  intros j n s u w d now Hn Hh Hge. pose proof Hh as (Hi & Hu & Hm & Hc).
  assert (Hne : uc_samples u <> []) by (intros E; rewrite E in Hge; cbn [length] in Hge; lia).
  split; [exact Hne|]. unfold sc_add.
  replace (sc_max s <=? sc_count s) with true by (symmetry; apply Z.leb_le; lia).
  destruct (sc_flush_spec j n s u w Hh) as [[E _]|(_ & w' & ok & e & Hw & Hlog & Hok & Hf)]; [contradiction|].
  exists w', ok, e. split; [exact Hw|]. split; [exact Hlog|]. split; [exact Hok|].
  rewrite Hf. destruct ok; cbn [negb].
  - assert (Hr : sc_holds j n (sc_reset s) (uc_reset u)) by (apply sc_reset_holds; [lia|exact Hh]).
    destruct Hr as (Hi' & Hu' & Hm' & Hc'). rewrite Hi'. cbn [in_add].
    destruct (uc_add_spec j n (uc_reset u) d Hn Hu') as (u2 & Ha & Hu2 & Hmeta & Hs). rewrite Ha.
    assert (Er : uc_add_res (uc_reset u) d = ROk).
    { unfold uc_add_res, uc_reset. cbn [uc_mcount uc_batch uc_samples length]. cbn [Z.eqb negb andb].
      destruct Hu as (_ & Hb & _). rewrite Hb. replace (n <=? Z.of_nat 0) with false by (symmetry; apply Z.leb_gt; lia). reflexivity. }
    rewrite Er in *. eexists _, u2. split; [reflexivity|]. split; [|split; [exact Hmeta|exact Hs]].
    unfold sc_holds. cbn [sc_inner sc_max sc_count]. split; [reflexivity|]. split; [exact Hu2|]. split; [exact Hm'|].
    rewrite Hs. cbn [sc_reset sc_count uc_reset uc_samples app length]. lia.
  - reflexivity.
Qed.

Lemma sc_add_out : forall j n s u w d now, 1 <= n -> sc_holds j n s u ->
  exists s' u' w' r, sc_add deflate s w d now = (s', w', r) /\ sc_out j n u w d s' u' w' r.
Proof.
  intros j n s u w d now Hn Hh.
  destruct (Z_lt_le_dec (Z.of_nat (length (uc_samples u))) n) as [Hlt|Hge].
  - destruct (sc_add_room j n s u w d now Hn Hh Hlt) as (s' & u' & Ha & Hh' & Hm & Hs & Hnf).
    exists s', u', w, (uc_add_res u d). split; [exact Ha|]. apply so_quiet; assumption.
  - destruct (sc_add_full j n s u w d now Hn Hh Hge) as (Hne & w' & ok & e & Hw & Hlog & Hok & Hres).
    destruct ok.
    + destruct Hres as (s' & u' & Ha & Hh' & Hm & Hs).
      exists s', u', w', ROk. split; [exact Ha|]. apply so_wrote; try assumption.
      assert (e = WDone) by (apply Hok; reflexivity). subst e. exact Hlog.
    + exists s, u, w', RFlush. split; [exact Hres|]. apply so_failed with (e := e); try assumption.
      intros E. apply Hok in E. discriminate E.
Qed.

(* ------------------------------------------------------------------ streamingDynamicCollector over an uncompressed collector *)
Definition sd_changed (c : sdcoll) (d : doc) : bool :=
  match sd_hash c with
  | None => true
  | Some h => negb (sd_mcount c =? snd (schema_sig d)) || negb (bytes_eqb h (fst (schema_sig d)))
  end.

Definition sd_holds (j : bool) (n : Z) (c : sdcoll) (u : ucoll) : Prop :=
  sc_holds j n (sd_s c) u /\
  match sd_hash c with
  | None => uc_samples u = []
  | Some h => Forall (fun s => schema_sig s = (h, sd_mcount c)) (uc_samples u)
  end.

Lemma sdcoll_eta : forall c, mkSdcoll (sd_hash c) (sd_mcount c) (sd_s c) = c.
Proof. intros []. reflexivity. Qed.

Lemma sd_reset_holds : forall j n c u, 0 <= n -> sd_holds j n c u -> sd_holds j n (sd_reset c) (uc_reset u).
Proof.
  intros j n c u Hn (Hs & _). split.
  - cbn [sd_reset sd_s]. apply sc_reset_holds; assumption.
  - reflexivity.
Qed.

Lemma sd_flush_spec : forall j n c u w, sd_holds j n c u ->
  (uc_samples u = [] /\ sd_flush deflate c w = (c, w, true)) \/
  (uc_samples u <> [] /\ exists w' ok e, w_write w (payload j u) = (w', ok) /\
     log_ev w w' (payload j u) e /\ (ok = true <-> e = WDone) /\
     sd_flush deflate c w = ((if ok then sd_reset c else c), w', ok)).
Proof.
  intros j n c u w ((Hi & Hu & Hm & Hc) & _). unfold sd_flush, payload.
  apply flush_with_spec.
  - rewrite Hi. reflexivity.
  - rewrite Hi. cbn [in_resolve]. rewrite uc_resolve_spec. destruct Hu as (Hj & _). rewrite Hj. reflexivity.
Qed.

Lemma uc_add_res_empty : forall j n u d, 1 <= n -> uc_inv j n u -> uc_samples u = [] -> uc_add_res u d = ROk.
Proof.
  intros j n u d Hn (_ & Hb & _ & _ & Hnil) He. unfold uc_add_res. rewrite (Hnil He), He, Hb.
  cbn [Z.eqb negb andb length]. replace (n <=? Z.of_nat 0) with false by (symmetry; apply Z.leb_gt; lia). reflexivity.
Qed.

Lemma sd_add_eq : forall c w d now,
  sd_add deflate c w d now =
  let '(c1, w1, ok) :=
    if sd_changed c d then
      let '(c', w', ok') := if 0 <? sc_count (sd_s c) then sd_flush deflate c w else (c, w, true) in
      if ok' then (mkSdcoll (Some (fst (schema_sig d))) (snd (schema_sig d)) (sd_s c'), w', true) else (c', w', false)
    else (c, w, true) in
  if negb ok then (c1, w1, RFlush)
  else let '(s', w2, r) := sc_add deflate (sd_s c1) w1 d now in
       (mkSdcoll (sd_hash c1) (sd_mcount c1) s', w2, r).
Proof. intros c w d now. unfold sd_add, sd_changed. destruct (schema_sig d) as [sig num]. reflexivity. Qed.

(* a document whose signature is new on an empty collector: recorded, accepted *)
Lemma sd_add_fresh : forall j n c u w d now, 1 <= n -> sd_holds j n c u ->
  sd_changed c d = true -> uc_samples u = [] ->
  exists c' u', sd_add deflate c w d now = (c', w, ROk) /\ sd_holds j n c' u' /\
    uc_meta u' = uc_meta u /\ uc_samples u' = [d].
Proof.
  intros j n c u w d now Hn (Hs & _) Hch He. rewrite sd_add_eq, Hch.
  pose proof Hs as (_ & Hu & _ & Hc).
  replace (0 <? sc_count (sd_s c)) with false by (symmetry; apply Z.ltb_ge; rewrite Hc, He; cbn [length]; lia).
  cbn [negb sd_s].
  destruct (sc_add_room j n (sd_s c) u w d now Hn Hs) as (s' & u' & Ha & Hh' & Hm & Hsm & _).
  { rewrite He. cbn [length]. lia. }
  rewrite (uc_add_res_empty j n u d Hn Hu He) in *. rewrite Ha.
  eexists _, u'. split; [reflexivity|]. split; [|split; [exact Hm|rewrite Hsm, He; reflexivity]].
  split; [exact Hh'|]. cbn [sd_hash sd_mcount]. rewrite Hsm, He. cbn [app].
  constructor; [|constructor]. destruct (schema_sig d); reflexivity.
Qed.

(* a document whose signature differs from the pending samples': flush, then accept *)
Lemma sd_add_change : forall j n c u w d now, 1 <= n -> sd_holds j n c u ->
  sd_changed c d = true -> uc_samples u <> [] ->
  exists w' ok e, w_write w (payload j u) = (w', ok) /\ log_ev w w' (payload j u) e /\ (ok = true <-> e = WDone) /\
    if ok then exists c' u', sd_add deflate c w d now = (c', w', ROk) /\ sd_holds j n c' u' /\
                 uc_meta u' = uc_meta u /\ uc_samples u' = [d]
    else sd_add deflate c w d now = (c, w', RFlush).
Proof.
  intros j n c u w d now Hn Hh Hch Hne. pose proof Hh as (Hs & _). pose proof Hs as (_ & Hu & _ & Hc).
  rewrite sd_add_eq, Hch.
  replace (0 <? sc_count (sd_s c)) with true.
  2:{ symmetry. apply Z.ltb_lt. rewrite Hc. destruct (uc_samples u); [contradiction|cbn [length]; lia]. }
  destruct (sd_flush_spec j n c u w Hh) as [[E _]|(_ & w' & ok & e & Hw & Hlog & Hok & Hf)]; [contradiction|].
  exists w', ok, e. split; [exact Hw|]. split; [exact Hlog|]. split; [exact Hok|].
  rewrite Hf. destruct ok; cbn [negb sd_s sd_hash sd_mcount]; [|reflexivity].
  assert (Hr : sc_holds j n (sc_reset (sd_s c)) (uc_reset u)) by (apply sc_reset_holds; [lia|exact Hs]).
  destruct (sc_add_room j n (sc_reset (sd_s c)) (uc_reset u) w' d now Hn Hr) as (s' & u' & Ha & Hh' & Hm & Hsm & _).
  { cbn [uc_reset uc_samples length]. lia. }
  assert (Er : uc_add_res (uc_reset u) d = ROk).
  { apply (uc_add_res_empty j n); [exact Hn| |reflexivity]. destruct Hr as (_ & Hx & _). exact Hx. }
  rewrite Er in *. cbn [sd_reset sd_s]. rewrite Ha.
  eexists _, u'. split; [reflexivity|]. split; [|split; [exact Hm|exact Hsm]].
  split; [exact Hh'|]. cbn [sd_hash sd_mcount]. rewrite Hsm. cbn [uc_reset uc_samples app].
  constructor; [|constructor]. destruct (schema_sig d); reflexivity.
Qed.

(* same signature as the pending samples: the streaming wrapper decides *)
Lemma sd_add_same : forall j n c u w d now, 1 <= n -> sd_holds j n c u -> sd_changed c d = false ->
  exists s' u' w' r, sc_add deflate (sd_s c) w d now = (s', w', r) /\ sc_out j n u w d s' u' w' r /\
    sd_add deflate c w d now = (mkSdcoll (sd_hash c) (sd_mcount c) s', w', r) /\
    sd_holds j n (mkSdcoll (sd_hash c) (sd_mcount c) s') u'.
Proof.
  intros j n c u w d now Hn (Hs & Hhash) Hch.
  destruct (sc_add_out j n (sd_s c) u w d now Hn Hs) as (s' & u' & w' & r & Ha & Ho).
  exists s', u', w', r. split; [exact Ha|]. split; [exact Ho|].
  rewrite sd_add_eq, Hch. cbn [negb]. rewrite Ha. split; [reflexivity|].
  unfold sd_changed in Hch. destruct (sd_hash c) as [h|] eqn:Eh; [|discriminate Hch].
  apply orb_false_iff in Hch. destruct Hch as [H1 H2].
  apply negb_false_iff in H1, H2. apply Z.eqb_eq in H1. apply up_bytes_eqb_true in H2.
  assert (Hd : schema_sig d = (h, sd_mcount c)) by (destruct (schema_sig d); cbn [fst snd] in *; subst; reflexivity).
  unfold sc_out in Ho. inversion Ho as [s2 u2 r2 Hnf Hh2 Hm2 Hs2|s2 u2 w2 Hne Hlog Hh2 Hm2 Hs2|s2 w2 e Hh2 Hne Hlog He]; subst.
  - split; [exact Hh2|]. cbn [sd_hash sd_mcount]. rewrite Hs2. apply Forall_app. split; [exact Hhash|].
    destruct r; constructor; try constructor. exact Hd.
  - split; [exact Hh2|]. cbn [sd_hash sd_mcount]. rewrite Hs2. constructor; [exact Hd|constructor].
  - split; [exact Hh2|]. cbn [sd_hash sd_mcount]. exact Hhash.
Qed.

Definition sd_out (j : bool) (n : Z) := gen_out (sd_holds j n) j.

Lemma sd_add_out : forall j n c u w d now, 1 <= n -> sd_holds j n c u ->
  exists c' u' w' r, sd_add deflate c w d now = (c', w', r) /\ sd_out j n u w d c' u' w' r.
Proof.
  intros j n c u w d now Hn Hh. destruct (sd_changed c d) eqn:Hch.
  - destruct (uc_samples u) as [|x xs] eqn:Es.
    + destruct (sd_add_fresh j n c u w d now Hn Hh Hch Es) as (c' & u' & Ha & Hh' & Hm & Hs).
      exists c', u', w, ROk. split; [exact Ha|]. apply so_quiet; try assumption; [discriminate|].
      rewrite Es. exact Hs.
    + assert (Hne : uc_samples u <> []) by (rewrite Es; discriminate).
      destruct (sd_add_change j n c u w d now Hn Hh Hch Hne) as (w' & ok & e & Hw & Hlog & Hok & Hres).
      destruct ok.
      * destruct Hres as (c' & u' & Ha & Hh' & Hm & Hs).
        exists c', u', w', ROk. split; [exact Ha|]. apply so_wrote; try assumption.
        assert (e = WDone) by (apply Hok; reflexivity). subst e. exact Hlog.
      * exists c, u, w', RFlush. split; [exact Hres|]. apply so_failed with (e := e); try assumption.
        intros E. apply Hok in E. discriminate E.
  - destruct (sd_add_same j n c u w d now Hn Hh Hch) as (s' & u' & w' & r & _ & Ho & Ha & Hh').
    eexists _, u', w', r. split; [exact Ha|].
    unfold sc_out in Ho. inversion Ho as [s2 u2 r2 Hnf Hh2 Hm2 Hs2|s2 u2 w2 Hne Hlog Hh2 Hm2 Hs2|s2 w2 e Hh2 Hne Hlog He]; subst.
    + apply so_quiet; assumption.
    + apply so_wrote; assumption.
    + apply so_failed with (e := e); assumption.
Qed.
