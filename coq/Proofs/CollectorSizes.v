(* C08: the chunk boundaries of the schema-aware collectors.  A left-to-right
   chunker [csz] (new chunk at a signature change or at capacity) is shown equal to
   the executable statement [expected_sizes]; the collectors are shown to follow it. *)
From Coq Require Import ZArith NArith List Bool Lia Arith.
From FV.Model Require Import Bytes Bson Metrics Codec Collector Wf RoundTrip CollectorOk.
From FV.Proofs Require Import BytesProofs BsonProofs MetricsProofs CodecChunk CodecProofs CollectorBase
  CollectorKinds CollectorInv CollectorLog.
Import ListNotations.
Open Scope Z_scope.

Definition sigt := (bytes * Z)%type.

Definition sig_eqb (c s : sigt) : bool := bytes_eqb (fst c) (fst s) && (snd c =? snd s).

Lemma sig_eqb_true : forall c s, sig_eqb c s = true -> c = s.
Proof.
  intros [c1 c2] [s1 s2] H. unfold sig_eqb in H. cbn [fst snd] in H. apply andb_true_iff in H.
  destruct H as [H1 H2]. apply cb_bytes_eqb_true in H1. apply Z.eqb_eq in H2. congruence.
Qed.

Lemma sig_eqb_refl : forall c, sig_eqb c c = true.
Proof. intros [c1 c2]. unfold sig_eqb. cbn [fst snd]. rewrite cb_bytes_eqb_refl, Z.eqb_refl. reflexivity. Qed.

Lemma sig_eqb_false : forall c s, c <> s -> sig_eqb c s = false.
Proof. intros c s H. destruct (sig_eqb c s) eqn:E; [|reflexivity]. apply sig_eqb_true in E. congruence. Qed.

Fixpoint csz (cap : Z) (sigs : list sigt) (cur : option (sigt * Z)) : list Z :=
  match sigs with
  | [] => match cur with Some (_, m) => [m] | None => [] end
  | s :: r =>
      match cur with
      | None => csz cap r (Some (s, 1))
      | Some (c, m) => if sig_eqb c s && (m <? cap) then csz cap r (Some (c, m + 1))
                       else m :: csz cap r (Some (s, 1))
      end
  end.

Definition split_n (cap n : Z) : list Z := split_cap_fuel (Z.to_nat n) cap n.

Lemma split_fuel : forall cap m, 1 <= m <= cap -> forall q fuel, (q <= fuel)%nat ->
  split_cap_fuel fuel cap (Z.of_nat q * cap + m) = repeat cap q ++ [m].
Proof.
  intros cap m Hm. induction q as [|q IH]; intros fuel Hf.
  - cbn [Z.of_nat repeat app]. replace (0 * cap + m) with m by lia.
    destruct fuel; cbn [split_cap_fuel]; [reflexivity|].
    rewrite (proj2 (Z.leb_le _ _)) by lia. reflexivity.
  - destruct fuel as [|fuel]; [lia|]. cbn [split_cap_fuel repeat app].
    rewrite (proj2 (Z.leb_gt _ _)) by nia.
    replace (Z.of_nat (S q) * cap + m - cap) with (Z.of_nat q * cap + m) by lia.
    rewrite IH by lia. reflexivity.
Qed.

Lemma split_n_eq : forall cap m q, 1 <= m <= cap -> split_n cap (Z.of_nat q * cap + m) = repeat cap q ++ [m].
Proof. intros cap m q Hm. unfold split_n. apply split_fuel; [exact Hm|]. nia. Qed.

Lemma repeat_snoc : forall (A : Type) (a : A) q, repeat a (S q) = repeat a q ++ [a].
Proof. intros A a q. induction q as [|q IH]; [reflexivity|]. cbn [repeat app] in *. rewrite <- IH. reflexivity. Qed.

Lemma run_lengths_csz : forall cap sigs c q m, 1 <= m <= cap ->
  flat_map (split_n cap) (run_lengths sigs (Some c) (Z.of_nat q * cap + m)) = repeat cap q ++ csz cap sigs (Some (c, m)).
Proof.
  intros cap. induction sigs as [|s r IH]; intros c q m Hm.
  - cbn [run_lengths csz flat_map]. rewrite app_nil_r. apply split_n_eq. exact Hm.
  - cbn [run_lengths csz]. fold (sig_eqb c s).
    destruct (sig_eqb c s) eqn:Esig; cbn [andb].
    + destruct (m <? cap) eqn:Em.
      * apply Z.ltb_lt in Em. replace (Z.of_nat q * cap + m + 1) with (Z.of_nat q * cap + (m + 1)) by lia.
        apply IH. lia.
      * apply Z.ltb_ge in Em. assert (m = cap) by lia. subst m.
        replace (Z.of_nat q * cap + cap + 1) with (Z.of_nat (S q) * cap + 1) by lia.
        rewrite IH by lia. rewrite repeat_snoc, <- app_assoc. apply sig_eqb_true in Esig. subst s. reflexivity.
    + cbn [flat_map]. rewrite split_n_eq by exact Hm. rewrite <- app_assoc. cbn [app]. f_equal. f_equal.
      change 1 with (Z.of_nat 0 * cap + 1) at 1. rewrite IH by lia. reflexivity.
Qed.

Lemma expected_sizes_csz : forall cap docs, 1 <= cap -> expected_sizes cap docs = csz cap (map schema_sig docs) None.
Proof.
  intros cap docs Hcap. unfold expected_sizes. fold (split_n cap).
  destruct (map schema_sig docs) as [|s r]; [reflexivity|].
  cbn [run_lengths csz]. change 1 with (Z.of_nat 0 * cap + 1) at 1. rewrite run_lengths_csz by lia. reflexivity.
Qed.

(* ------------------------------------------------------------------ the chunker followed on groups *)
Definition curof (L : list (list doc)) : option (sigt * Z) :=
  match L with
  | [] => None
  | _ :: _ => Some (schema_sig (hd [] (last L [])), glen (last L []))
  end.

Lemma curof_snoc : forall L0 g, curof (L0 ++ [g]) = Some (schema_sig (hd [] g), glen g).
Proof.
  intros L0 g. destruct L0 as [|a L0]; [reflexivity|].
  change ((a :: L0) ++ [g]) with (a :: (L0 ++ [g])). unfold curof.
  change (a :: (L0 ++ [g])) with ((a :: L0) ++ [g]). rewrite last_last. reflexivity.
Qed.

Definition crel (n : Z) (L : list (list doc)) (s : list sigt) : Prop :=
  forall rest, csz n (s ++ rest) None = map glen (removelast L) ++ csz n rest (curof L).

Lemma crel_nil : forall n, crel n [] [].
Proof. intros n rest. reflexivity. Qed.

(* the document joined the last group / opened a new group, for the reason the chunker has *)
Definition trans_J (n : Z) (L : list (list doc)) (d : doc) (L' : list (list doc)) : Prop :=
  exists L0 g, L = L0 ++ [g] /\ L' = L0 ++ [g ++ [d]] /\ g <> [] /\ schema_sig (hd [] g) = schema_sig d /\ glen g < n.
Definition trans_N (n : Z) (L : list (list doc)) (d : doc) (L' : list (list doc)) : Prop :=
  L' = L ++ [[d]] /\
  (L = [] \/ exists L0 g, L = L0 ++ [g] /\ (n <= glen g \/ schema_sig (hd [] g) <> schema_sig d)).

Lemma crel_J : forall n L d L' s, crel n L s -> trans_J n L d L' -> crel n L' (s ++ [schema_sig d]).
Proof.
  intros n L d L' s H (L0 & g & -> & -> & Hne & Hsig & Hroom) rest.
  replace ((s ++ [schema_sig d]) ++ rest) with (s ++ schema_sig d :: rest) by (rewrite <- app_assoc; reflexivity).
  rewrite (H (schema_sig d :: rest)).
  rewrite !removelast_last, !curof_snoc. cbn [csz]. rewrite Hsig, sig_eqb_refl.
  rewrite (proj2 (Z.ltb_lt _ _) Hroom). cbn [andb]. rewrite glen_snoc.
  destruct g as [|y g']; [congruence|]. cbn [app hd] in *. rewrite Hsig. reflexivity.
Qed.

Lemma crel_N : forall n L d L' s, crel n L s -> trans_N n L d L' -> crel n L' (s ++ [schema_sig d]).
Proof.
  intros n L d L' s H [-> Hwhy] rest.
  replace ((s ++ [schema_sig d]) ++ rest) with (s ++ schema_sig d :: rest) by (rewrite <- app_assoc; reflexivity).
  rewrite (H (schema_sig d :: rest)).
  rewrite removelast_last, curof_snoc. cbn [hd]. change (glen [d]) with 1.
  destruct Hwhy as [->|(L0 & g & -> & Hwhy)].
  - reflexivity.
  - rewrite removelast_last, curof_snoc. cbn [csz].
    replace (sig_eqb (schema_sig (hd [] g)) (schema_sig d) && (glen g <? n)) with false.
    + rewrite map_app. cbn [map]. rewrite <- app_assoc. reflexivity.
    + symmetry. destruct Hwhy as [Hfull|Hdiff].
      * rewrite (proj2 (Z.ltb_ge _ _) Hfull). apply andb_false_r.
      * rewrite (sig_eqb_false _ _ Hdiff). reflexivity.
Qed.

Lemma crel_final : forall n L s, crel n L s -> csz n s None = map glen L.
Proof.
  intros n L s H. specialize (H []). rewrite app_nil_r in H. rewrite H.
  destruct L as [|a L']; [reflexivity|].
  destruct (@exists_last _ (a :: L') ltac:(discriminate)) as (L0 & g & E). rewrite E.
  rewrite removelast_last, curof_snoc, map_app. reflexivity.
Qed.

(* ------------------------------------------------------------------ the collectors follow the chunker *)
Lemma trans_J_lift : forall n gsw gsp d gsp', trans_J n gsp d gsp' -> trans_J n (gsw ++ gsp) d (gsw ++ gsp').
Proof.
  intros n gsw gsp d gsp' (L0 & g & -> & -> & H). exists (gsw ++ L0), g. rewrite !app_assoc.
  split; [reflexivity|]. split; [reflexivity|exact H].
Qed.

Lemma trans_N_lift : forall n gsw gsp d gsp', (gsp = [] -> gsw = []) -> trans_N n gsp d gsp' ->
  trans_N n (gsw ++ gsp) d (gsw ++ gsp').
Proof.
  intros n gsw gsp d gsp' Hpure [-> Hwhy]. split; [rewrite app_assoc; reflexivity|].
  destruct Hwhy as [->|(L0 & g & -> & H)].
  - left. rewrite (Hpure eq_refl). reflexivity.
  - right. exists (gsw ++ L0), g. split; [rewrite app_assoc; reflexivity|exact H].
Qed.

Lemma concat_last_batch : forall (bss0 : list (list (list doc))) gs0 g,
  concat (bss0 ++ [gs0 ++ [g]]) = (concat bss0 ++ gs0) ++ [g].
Proof. intros bss0 gs0 g. rewrite cp_concat_snoc, app_assoc. reflexivity. Qed.

Section C8.
Variable deflate : bytes -> bytes.
Variable docs : list doc.
Variable n : Z.
Hypothesis Hn : 1 <= n.

Let D := fun d : doc => In d docs.

Lemma c8_add_dyn : forall c w gsw gsp d now,
  env_ok D KDyn -> no_type_only_change KDyn docs ->
  INV deflate D KDyn n (c, w) gsw gsp -> (gsp = [] -> gsw = []) -> D d ->
  exists c' w' gsw' gsp', c_add deflate c w d now = (c', w', ROk) /\ INV deflate D KDyn n (c', w') gsw' gsp' /\
    gsp' <> [] /\ (trans_J n (gsw ++ gsp) d (gsw' ++ gsp') \/ trans_N n (gsw ++ gsp) d (gsw' ++ gsp')).
Proof.
  intros c w gsw gsp d now Henv Hnt (Hf & Hw & Hc) Hpure Hd. pose proof Henv as [Hwf Hdist]. cbn [fst snd] in *.
  destruct c as [b|b|x|s|s|u]; cbn [holds] in Hc; try contradiction; cbn [c_add].
  destruct Hc as (bss & Hx & E). subst gsp.
  assert (Hmk : forall x' bss', dyn_inv D n x' bss' -> INV deflate D KDyn n (CDyn x', w) gsw (concat bss')).
  { intros x' bss' Hx'. split; [exact Hf|]. split; [exact Hw|]. cbn [fst holds]. exists bss'. split; [exact Hx'|reflexivity]. }
  destruct (dy_hash x) as [h|] eqn:Eh.
  - pose proof Hx as [_ Hst]. rewrite Eh in Hst. destruct Hst as (Hbne & _ & Hnes & Hsigs).
    destruct (exists_last Hbne) as (bss0 & gs & Ebss). rewrite Ebss in *.
    assert (Hgsne : gs <> []).
    { apply Forall_app in Hnes. destruct Hnes as [_ Hl]. inversion Hl; assumption. }
    destruct (exists_last Hgsne) as (gs0 & g & Egs). rewrite Egs in *.
    rewrite last_last in Hsigs.
    destruct (dyn_inv_snoc D n x bss0 (gs0 ++ [g]) h Hx Eh) as (_ & bs0 & bl & _ & _ & Hbl & _).
    destruct (batch_inv_snoc D n bl gs0 g Hbl) as (_ & _ & _ & _ & _ & _ & _ & Hgne & _).
    assert (HDg : D (hd [] g)).
    { apply hd_in_D; [exact Hgne|]. pose proof (dyn_inv_D D n x _ Hx) as HD.
      rewrite concat_last_batch, cp_concat_snoc in HD. apply Forall_app in HD. apply HD. }
    assert (Hhd : fst (schema_sig (hd [] g)) = h).
    { apply Hsigs. rewrite cp_concat_snoc. apply in_or_app. right.
      destruct g as [|y g']; [congruence|]. left. reflexivity. }
    destruct (bytes_eqb h (fst (schema_sig d))) eqn:Esig.
    + apply cb_bytes_eqb_true in Esig.
      destruct (Z_le_gt_dec n (glen g)) as [Hfull|Hroom].
      * destruct (dy_add_same_full D _ Hwf Hdist n x bss0 gs0 g h d now Hn Hx Eh Esig Hfull Hd) as (x' & Hadd & Hx' & _).
        rewrite Hadd. exists (CDyn x'), w, gsw, (concat (bss0 ++ [(gs0 ++ [g]) ++ [[d]]])).
        split; [reflexivity|]. split; [apply Hmk; exact Hx'|].
        rewrite cp_concat_snoc, app_assoc, <- cp_concat_snoc.
        split; [apply snoc_nonempty|]. right. apply trans_N_lift; [exact Hpure|].
        split; [reflexivity|]. right. exists (concat bss0 ++ gs0), g. split; [apply concat_last_batch|left; exact Hfull].
      * destruct (dy_add_same_room D _ Hwf Hdist n x bss0 gs0 g h d now Hx Eh Esig ltac:(lia) Hd)
          as [(x' & Hadd & Hx' & _ & Hty)|(r & Hadd & Hr & Hty)]; rewrite Hadd.
        -- exists (CDyn x'), w, gsw, (concat (bss0 ++ [gs0 ++ [g ++ [d]]])).
           split; [reflexivity|]. split; [apply Hmk; exact Hx'|].
           rewrite concat_last_batch. split; [apply snoc_nonempty|]. left. apply trans_J_lift.
           exists (concat bss0 ++ gs0), g. split; [apply concat_last_batch|]. split; [reflexivity|].
           split; [exact Hgne|]. split; [|lia].
           apply schema_sig_fst_types; [congruence|symmetry; exact Hty].
        -- exfalso. apply Hty. unfold same_types. apply Hnt; [exact Hd|exact HDg|]. cbn [same_sig]. congruence.
    + apply cb_bytes_eqb_false in Esig.
      destruct (dy_add_change D _ Hwf Hdist n x _ h d now Hn Hx Eh Esig Hd) as (x' & Hadd & Hx').
      rewrite Hadd. exists (CDyn x'), w, gsw, (concat ((bss0 ++ [gs0 ++ [g]]) ++ [[[d]]])).
      split; [reflexivity|]. split; [apply Hmk; exact Hx'|].
      rewrite (cp_concat_snoc _ (bss0 ++ [gs0 ++ [g]])).
      split; [apply snoc_nonempty|]. right. apply trans_N_lift; [exact Hpure|].
      split; [reflexivity|]. right. exists (concat bss0 ++ gs0), g. split; [apply concat_last_batch|].
      right. intros Heq. apply Esig. rewrite <- Hhd, Heq. reflexivity.
  - destruct (dy_add_fresh D _ Hwf Hdist n x bss d now Hn Hx Eh Hd) as (Ebss & x' & Hadd & Hx'). subst bss.
    rewrite Hadd. exists (CDyn x'), w, gsw, (concat [[[d]]]).
    split; [reflexivity|]. split; [apply Hmk; exact Hx'|]. cbn [concat app].
    split; [discriminate|]. right. apply (trans_N_lift n gsw [] d [[d]] Hpure).
    split; [reflexivity|left; reflexivity].
Qed.

Lemma c8_add_sdyn : forall c w gsw gsp d now,
  env_ok D KSDyn -> no_type_only_change KSDyn docs ->
  INV deflate D KSDyn n (c, w) gsw gsp -> (gsp = [] -> gsw = []) -> D d ->
  exists c' w' gsw' gsp', c_add deflate c w d now = (c', w', ROk) /\ INV deflate D KSDyn n (c', w') gsw' gsp' /\
    gsp' <> [] /\ (trans_J n (gsw ++ gsp) d (gsw' ++ gsp') \/ trans_N n (gsw ++ gsp) d (gsw' ++ gsp')).
Proof.
  intros c w gsw gsp d now Henv Hnt (Hf & Hw & Hc) Hpure Hd. pose proof Henv as [Hwf Hdist]. cbn [fst snd] in *.
  destruct c as [b|b|x|s|s|u]; cbn [holds] in Hc; try contradiction; cbn [c_add].
  destruct Hc as (g & Hs & E). subst gsp.
  assert (Hmk : forall c' g', sdyn_inv D n c' g' -> forall w' gsw', w_faults w' = [] ->
            wstream deflate (cap_of KSDyn n - 1) (emitted w') gsw' -> INV deflate D KSDyn n (CSDyn c', w') gsw' (ne g')).
  { intros c' g' Hc' w' gsw' Hf' Hw'. split; [exact Hf'|]. split; [exact Hw'|]. cbn [fst holds].
    exists g'. split; [exact Hc'|reflexivity]. }
  assert (HDg : Forall D g) by (destruct Hs as [Hs _]; apply (stream_inv_D D n _ g Hs)).
  assert (Hflushed : forall out, g <> [] -> wstream deflate (n - 1) out [g] -> forall c',
            sdyn_inv D n c' [d] -> (n <= glen g \/ schema_sig (hd [] g) <> schema_sig d) ->
            INV deflate D KSDyn n (CSDyn c', w_push w out) (gsw ++ [g]) (ne [d]) /\ ne [d] <> [] /\
            (trans_J n (gsw ++ ne g) d ((gsw ++ [g]) ++ ne [d]) \/ trans_N n (gsw ++ ne g) d ((gsw ++ [g]) ++ ne [d]))).
  { intros out Hne Hout c' Hc' Hwhy. destruct (inv_push deflate KSDyn n w gsw out g Hf Hw Hout) as [Hf' Hw'].
    split; [apply Hmk; assumption|]. split; [discriminate|]. right. rewrite (ne_cons g Hne). cbn [ne].
    split; [reflexivity|]. right. exists gsw, g. split; [reflexivity|exact Hwhy]. }
  destruct (sd_changed s d) eqn:Ech.
  - destruct (sd_add_changed deflate D _ Hwf Hdist n s g w d now Hn Hs Ech Hf Hd) as (c' & w' & Hadd & Hc' & Hcase).
    rewrite Hadd. destruct Hcase as [[Eg Ew]|(Hne & out & Ew & Hout)]; subst w'.
    + subst g. exists (CSDyn c'), w, gsw, (ne [d]). split; [reflexivity|]. split; [apply Hmk; assumption|].
      split; [discriminate|]. right. apply (trans_N_lift n gsw [] d [[d]] Hpure). split; [reflexivity|left; reflexivity].
    + exists (CSDyn c'), (w_push w out), (gsw ++ [g]), (ne [d]). split; [reflexivity|].
      apply (Hflushed out Hne Hout c' Hc'). right.
      apply (sd_changed_sig D n s g d Hs Ech). destruct g as [|y g']; [congruence|]. left. reflexivity.
  - destruct (Z_le_gt_dec n (glen g)) as [Hfull|Hroom].
    + destruct (sd_add_same_full deflate D _ Hwf Hdist n s g w d now Hn Hs Ech Hfull Hf Hd) as (out & c' & Hadd & Hout & Hc').
      rewrite Hadd. assert (Hne : g <> []) by (intros ->; change (glen []) with 0 in Hfull; lia).
      exists (CSDyn c'), (w_push w out), (gsw ++ [g]), (ne [d]). split; [reflexivity|].
      apply (Hflushed out Hne Hout c' Hc'). left. exact Hfull.
    + destruct (sd_add_same_room deflate D _ Hwf Hdist n s g w d now Hn Hs Ech ltac:(lia) Hd)
        as [(c' & Hadd & Hc' & Hty)|(r & Hadd & Hr & Hne & Hty)]; rewrite Hadd.
      * exists (CSDyn c'), w, gsw, (ne (g ++ [d])). split; [reflexivity|]. split; [apply Hmk; assumption|].
        destruct g as [|y g'].
        -- split; [discriminate|]. right. apply (trans_N_lift n gsw [] d [[d]] Hpure). split; [reflexivity|left; reflexivity].
        -- split; [discriminate|]. left. apply trans_J_lift. exists [], (y :: g').
           split; [reflexivity|]. split; [reflexivity|]. split; [discriminate|]. split; [|lia].
           cbn [hd]. apply (sd_unchanged_sig D n s _ d Hs Ech). left. reflexivity.
      * exfalso. apply Hty. unfold same_types. apply Hnt; [exact Hd|apply hd_in_D; assumption|].
        cbn [same_sig]. symmetry. apply (sd_unchanged_sig D n s g d Hs Ech).
        destruct g as [|y g']; [congruence|]. left. reflexivity.
Qed.

End C8.

Lemma trans_concat : forall n L d L', trans_J n L d L' \/ trans_N n L d L' -> concat L' = concat L ++ [d].
Proof.
  intros n L d L' [(L0 & g & -> & -> & _)|[-> _]].
  - rewrite !cp_concat_snoc, app_assoc. reflexivity.
  - apply cp_concat_snoc.
Qed.

Lemma crel_trans : forall n L d L' s, crel n L s -> trans_J n L d L' \/ trans_N n L d L' ->
  crel n L' (s ++ [schema_sig d]).
Proof. intros n L d L' s H [HJ|HN]; [apply (crel_J n L d L' s H HJ)|apply (crel_N n L d L' s H HN)]. Qed.

Section C8Run.
Variable deflate : bytes -> bytes.
Variable inflate : bytes -> option bytes.
Hypothesis inflate_deflate : forall p, inflate (deflate p) = Some p.

Lemma c8_add : forall k docs n c w gsw gsp d now, k = KDyn \/ k = KSDyn -> 1 <= n ->
  env_ok (fun d => In d docs) k -> no_type_only_change k docs ->
  INV deflate (fun d => In d docs) k n (c, w) gsw gsp -> (gsp = [] -> gsw = []) -> In d docs ->
  exists c' w' gsw' gsp', c_add deflate c w d now = (c', w', ROk) /\
    INV deflate (fun d => In d docs) k n (c', w') gsw' gsp' /\
    gsp' <> [] /\ (trans_J n (gsw ++ gsp) d (gsw' ++ gsp') \/ trans_N n (gsw ++ gsp) d (gsw' ++ gsp')).
Proof.
  intros k docs n c w gsw gsp d now [->| ->] Hn Henv Hnt Hinv Hpure Hd.
  - apply (c8_add_dyn deflate docs n Hn); assumption.
  - apply (c8_add_sdyn deflate docs n Hn); assumption.
Qed.

Lemma c8_adds : forall k docs n, k = KDyn \/ k = KSDyn -> 1 <= n ->
  env_ok (fun d => In d docs) k -> no_type_only_change k docs ->
  forall rest nows st gsw gsp s, length nows = length rest -> (forall d, In d rest -> In d docs) ->
  INV deflate (fun d => In d docs) k n st gsw gsp -> (gsp = [] -> gsw = []) -> crel n (gsw ++ gsp) s ->
  exists st' gsw' gsp', run deflate st (add_ops rest nows) = (st', map (fun _ => BAdd ROk) rest) /\
    INV deflate (fun d => In d docs) k n st' gsw' gsp' /\ crel n (gsw' ++ gsp') (s ++ map schema_sig rest) /\
    concat (gsw' ++ gsp') = concat (gsw ++ gsp) ++ rest.
Proof.
  intros k docs n Hk Hn Henv Hnt. induction rest as [|d rest IH]; intros nows st gsw gsp s Hlen Hin Hinv Hpure Hcrel.
  - destruct nows; [|discriminate Hlen]. exists st, gsw, gsp. rewrite !app_nil_r.
    split; [reflexivity|]. split; [exact Hinv|]. split; [exact Hcrel|reflexivity].
  - destruct nows as [|now nows]; [discriminate Hlen|]. cbn [length] in Hlen. injection Hlen as Hlen.
    destruct st as [c w].
    destruct (c8_add k docs n c w gsw gsp d now Hk Hn Henv Hnt Hinv Hpure (Hin d (or_introl eq_refl)))
      as (c1 & w1 & gsw1 & gsp1 & Hadd & Hinv1 & Hne1 & Htr).
    destruct (IH nows (c1, w1) gsw1 gsp1 (s ++ [schema_sig d]) Hlen) as (st' & gsw' & gsp' & Hrun & Hinv' & Hcrel' & Hcat').
    + intros x Hx. apply Hin. right. exact Hx.
    + exact Hinv1.
    + intros E. congruence.
    + apply (crel_trans n _ d _ s Hcrel Htr).
    + exists st', gsw', gsp'. unfold add_ops. cbn [combine map fst snd]. fold (add_ops rest nows).
      rewrite (run_cons_add deflate _ _ _ _ _ _ _ _ Hadd), Hrun.
      split; [reflexivity|]. split; [exact Hinv'|]. rewrite <- app_assoc in Hcrel'. split; [exact Hcrel'|].
      rewrite Hcat', (trans_concat n _ d _ Htr), <- app_assoc. reflexivity.
Qed.

Theorem c08_dynamic : forall k n docs nows, k = KDyn \/ k = KSDyn -> 1 <= n < 2 ^ 31 ->
  length nows = length docs -> docs_ok k docs ->
  let res := emit deflate k n docs nows in
  snd res = map (fun _ => BAdd ROk) docs ++ [BFlush true] /\
  exists d, decode_ftdc inflate None (emitted (snd (fst res))) = Some d /\ c08_ok n docs true d = true.
Proof.
  intros k n docs nows Hk Hn Hlen (Hwf & Hdist & Hnt) res. subst res.
  assert (Hkc : compressing k = true) by (destruct Hk as [->| ->]; reflexivity).
  assert (Henv : env_ok (fun d => In d docs) k).
  { split; [|exact Hdist]. intros d Hd. rewrite Forall_forall in Hwf. apply Hwf. exact Hd. }
  destruct (c8_adds k docs n Hk ltac:(lia) Henv Hnt docs nows _ [] [] [] Hlen (fun d H => H)
              (inv_init deflate _ k n Hkc ltac:(lia)) (fun _ => eq_refl) (crel_nil n))
    as ([c1 w1] & gsw & gsp & Hrun & Hinv & Hcrel & Hcat).
  cbn [app concat] in Hcrel, Hcat.
  destruct (inv_flush deflate _ k n c1 w1 gsw gsp Henv ltac:(lia) Hinv) as (c2 & w2 & Hfl & Hinv2 & _).
  unfold emit. rewrite run_app, Hrun. cbn [run step]. rewrite Hfl. cbn [fst snd].
  split; [reflexivity|].
  destruct (inv_check deflate inflate inflate_deflate _ k n (c2, w2) _ _ Hkc Henv Hn Hinv2)
    as (wd & rd & Hdw & _ & Hwdocs & _ & Hwsz & _).
  cbn [snd] in Hdw. exists wd. split; [exact Hdw|].
  unfold c08_ok. rewrite Hwdocs, Hcat, cb_docs_eqb_refl, Hwsz.
  rewrite <- (crel_final n _ _ Hcrel), <- (expected_sizes_csz n docs ltac:(lia)).
  destruct (list_eq_dec Z.eq_dec (expected_sizes n docs) (expected_sizes n docs)); [reflexivity|congruence].
Qed.

End C8Run.

(* the statement with the full signature in place of the key string is false of the
   dynamic collector: a timestamp and an int64 under one key have one key string
   and different metric counts *)
Theorem c08_dyn_count_refuted :
  let deflate := (fun p : bytes => 1%N :: p) in
  let docs := [[([97]%N, VInt64 1)]; [([97]%N, VTimestamp 0 5)]] in
  Forall doc_wf docs /\ distinguishable KDyn (fun d => In d docs) /\
  (forall a b, In a docs -> In b docs -> schema_sig a = schema_sig b ->
               map fst (flatten_doc a) = map fst (flatten_doc b)) /\
  snd (emit deflate KDyn 5 docs [0; 0]) = [BAdd ROk; BAdd RCount; BFlush true].
Proof.
  cbv zeta. split; [|split; [|split]].
  - repeat constructor; try (unfold small; vm_compute; reflexivity).
  - intros a b [<-|[<-|[]]] [<-|[<-|[]]] Ht _; try reflexivity; vm_compute in Ht; discriminate Ht.
  - intros a b [<-|[<-|[]]] [<-|[<-|[]]] Hs; try reflexivity; vm_compute in Hs; discriminate Hs.
  - vm_compute. reflexivity.
Qed.
