(* C08, no mixing: no collector ever stores a document in a chunk whose metric
   count or value types differ from the document's own.  Holds for every history
   of every kind, with no assumption on the documents. *)
From Coq Require Import ZArith NArith List Bool Lia Arith.
From FV.Model Require Import Bytes Bson Metrics Codec Collector Wf RoundTrip CollectorOk.
From FV.Proofs Require Import CodecChunk CodecProofs CollectorBase CollectorKinds CollectorInv.
Import ListNotations.
Open Scope Z_scope.

Lemma delta_row_length : forall cur prev : list (mtype * Z), length cur = length prev ->
  length (delta_row cur prev) = length cur.
Proof.
  induction cur as [|[t1 c] cur IH]; intros [|[t2 p] prev] H; cbn [length] in H; try discriminate H; [reflexivity|].
  cbn [delta_row length]. rewrite IH; [reflexivity|]. injection H as H. exact H.
Qed.

Lemma bc_new_unmixed : forall n, bc_unmixed (bc_new n).
Proof. intros n. exact I. Qed.

Lemma bc_reset_unmixed : forall b, bc_unmixed (bc_reset b).
Proof. intros b. exact I. Qed.

Lemma bc_set_meta_unmixed : forall b m, bc_unmixed b -> bc_unmixed (bc_set_meta b m).
Proof. intros b m H. exact H. Qed.

(* the three facts about one Add *)
Lemma bc_add_accept_types : forall st d now st' r, bc_add st d now = (st', AddOk) -> bc_ref st = Some r ->
  bc_unmixed st -> map fst (flatten_doc d) = map fst (flatten_doc r).
Proof.
  intros st d now st' r Hadd Href Hun. unfold bc_unmixed in Hun. unfold bc_add in Hadd. rewrite Href in *.
  destruct Hun as [Hlast _].
  destruct (bc_max st <=? Z.of_nat (length (bc_rows st))); [discriminate Hadd|].
  destruct (Nat.eqb (length (flatten_doc d)) (length (bc_last st))); cbn [negb] in Hadd; [|discriminate Hadd].
  destruct (types_agree (flatten_doc d) (bc_last st)) eqn:Ety; cbn [negb] in Hadd; [|discriminate Hadd].
  apply cb_types_agree_true in Ety. rewrite Ety. exact Hlast.
Qed.

Lemma bc_add_refuse : forall st d now r, bc_ref st = Some r -> bc_unmixed st ->
  map fst (flatten_doc d) <> map fst (flatten_doc r) ->
  exists e, bc_add st d now = (st, e) /\ e <> AddOk.
Proof.
  intros st d now r Href Hun Hdiff. unfold bc_unmixed in Hun. unfold bc_add. rewrite Href in *.
  destruct Hun as [Hlast _].
  destruct (bc_max st <=? Z.of_nat (length (bc_rows st))); [exists AddFull; split; [reflexivity|discriminate]|].
  destruct (Nat.eqb (length (flatten_doc d)) (length (bc_last st))) eqn:Elen; cbn [negb];
    [|exists AddCount; split; [reflexivity|discriminate]].
  destruct (types_agree (flatten_doc d) (bc_last st)) eqn:Ety; cbn [negb];
    [|exists AddTypes; split; [reflexivity|discriminate]].
  exfalso. apply Hdiff. apply cb_types_agree_true in Ety. rewrite Ety. exact Hlast.
Qed.

Lemma bc_add_unmixed : forall b d now, bc_unmixed b -> bc_unmixed (fst (bc_add b d now)).
Proof.
  intros b d now Hun. unfold bc_add. destruct (bc_ref b) as [r|] eqn:Href.
  - destruct (bc_max b <=? Z.of_nat (length (bc_rows b))); [exact Hun|].
    destruct (Nat.eqb (length (flatten_doc d)) (length (bc_last b))) eqn:Elen; cbn [negb]; [|exact Hun].
    destruct (types_agree (flatten_doc d) (bc_last b)) eqn:Ety; cbn [negb]; [|exact Hun].
    cbn [fst]. unfold bc_unmixed in *. cbn [bc_ref bc_last bc_rows]. rewrite Href in *.
    destruct Hun as [Hlast Hrows]. apply cb_types_agree_true in Ety. apply Nat.eqb_eq in Elen.
    assert (Hlen : length (flatten_doc d) = length (flatten_doc r)).
    { rewrite <- (map_length fst (flatten_doc d)), Ety, Hlast, map_length. reflexivity. }
    split; [rewrite Ety; exact Hlast|]. apply Forall_app. split; [exact Hrows|].
    constructor; [|constructor]. rewrite delta_row_length; [exact Hlen|exact Elen].
  - cbn [fst]. unfold bc_unmixed. cbn [bc_ref bc_last bc_rows]. split; [reflexivity|constructor].
Qed.

(* ------------------------------------------------------------------ containers *)
Definition batch_unmixed (b : batch) : Prop := Forall bc_unmixed (ba_chunks b).
Definition inner_unmixed (i : inner) : Prop := match i with IB b => bc_unmixed b | IU _ => True end.

Lemma Forall_removelast : forall (A : Type) (P : A -> Prop) l, Forall P l -> Forall P (removelast l).
Proof.
  intros A P l H. induction H as [|a l Ha H IH]; [constructor|].
  destruct l as [|b l]; [constructor|]. change (removelast (a :: b :: l)) with (a :: removelast (b :: l)).
  constructor; assumption.
Qed.

Lemma Forall_last : forall (A : Type) (P : A -> Prop) l d, Forall P l -> P d -> P (last l d).
Proof.
  intros A P l d H Hd. induction H as [|a l Ha H IH]; [exact Hd|].
  destruct l as [|b l]; [exact Ha|]. exact IH.
Qed.

Lemma ba_new_unmixed : forall n, batch_unmixed (ba_new n).
Proof. intros n. constructor; [exact I|constructor]. Qed.

Lemma ba_add_unmixed : forall b d now, batch_unmixed b -> batch_unmixed (fst (ba_add b d now)).
Proof.
  intros b d now H. unfold ba_add, batch_unmixed in *.
  destruct (ba_max b <=? snd (bc_info (last (ba_chunks b) (bc_new (ba_max b))))).
  - pose proof (bc_add_unmixed (bc_new (ba_max b)) d now (bc_new_unmixed _)) as Hc.
    destruct (bc_add (bc_new (ba_max b)) d now) as [c' r]. cbn [fst ba_chunks] in *.
    apply Forall_app. split; [exact H|constructor; [exact Hc|constructor]].
  - pose proof (bc_add_unmixed (last (ba_chunks b) (bc_new (ba_max b))) d now
                  (Forall_last _ _ _ _ H (bc_new_unmixed _))) as Hc.
    destruct (bc_add (last (ba_chunks b) (bc_new (ba_max b))) d now) as [c' r]. cbn [fst ba_chunks] in *.
    apply Forall_app. split; [apply Forall_removelast; exact H|constructor; [exact Hc|constructor]].
Qed.

Lemma ba_set_meta_unmixed : forall b m, batch_unmixed b -> batch_unmixed (ba_set_meta b m).
Proof.
  intros b m H. unfold ba_set_meta, batch_unmixed in *. destruct (ba_chunks b) as [|c r] eqn:E; [rewrite E; exact H|].
  cbn [ba_chunks]. inversion H as [|x y Hc Hr]; subst. constructor; [exact Hc|exact Hr].
Qed.

Lemma dyn_unmixed_iff : forall x, unmixed (CDyn x) <-> Forall batch_unmixed (dy_chunks x).
Proof.
  intros x. unfold unmixed. cbn [bcolls_of]. induction (dy_chunks x) as [|b bs IH]; cbn [flat_map].
  - split; constructor.
  - split.
    + intros H. apply Forall_app in H. destruct H as [H1 H2]. constructor; [exact H1|apply IH; exact H2].
    + intros H. inversion H as [|u v H1 H2]; subst. apply Forall_app. split; [exact H1|apply IH; exact H2].
Qed.

Lemma dy_add_unmixed : forall x d now, Forall batch_unmixed (dy_chunks x) ->
  Forall batch_unmixed (dy_chunks (fst (dy_add x d now))).
Proof.
  intros x d now H. unfold dy_add. destruct (dy_hash x) as [h|].
  - destruct (bytes_eqb h (fst (schema_sig d))).
    + pose proof (ba_add_unmixed (last (dy_chunks x) (ba_new (dy_max x))) d now
                    (Forall_last _ _ _ _ H (ba_new_unmixed _))) as Hb.
      destruct (ba_add (last (dy_chunks x) (ba_new (dy_max x))) d now) as [b' r]. cbn [fst dy_chunks] in *.
      apply Forall_app. split; [apply Forall_removelast; exact H|constructor; [exact Hb|constructor]].
    + pose proof (ba_add_unmixed (ba_new (dy_max x)) d now (ba_new_unmixed _)) as Hb.
      destruct (ba_add (ba_new (dy_max x)) d now) as [b' r]. cbn [fst dy_chunks] in *.
      apply Forall_app. split; [exact H|constructor; [exact Hb|constructor]].
  - destruct (dy_chunks x) as [|b0 r] eqn:E; [cbn [fst]; rewrite E; exact H|].
    inversion H as [|u v H0 Hr]; subst.
    pose proof (ba_add_unmixed b0 d now H0) as Hb. destruct (ba_add b0 d now) as [b' res]. cbn [fst dy_chunks] in *.
    constructor; [exact Hb|exact Hr].
Qed.

Lemma dy_set_meta_unmixed : forall x m, Forall batch_unmixed (dy_chunks x) ->
  Forall batch_unmixed (dy_chunks (dy_set_meta x m)).
Proof.
  intros x m H. unfold dy_set_meta. destruct (dy_chunks x) as [|b r] eqn:E; [rewrite E; exact H|].
  cbn [dy_chunks]. inversion H as [|u v Hb Hr]; subst. constructor; [apply ba_set_meta_unmixed; exact Hb|exact Hr].
Qed.

Section Mix.
Variable deflate : bytes -> bytes.

Lemma in_add_unmixed : forall i d now, inner_unmixed i -> inner_unmixed (fst (in_add i d now)).
Proof.
  intros [b|u] d now H; cbn [in_add].
  - pose proof (bc_add_unmixed b d now H) as Hb. destruct (bc_add b d now) as [b' r]. exact Hb.
  - destruct (uc_add u d) as [u' r]. exact I.
Qed.

Lemma in_reset_unmixed : forall i, inner_unmixed (in_reset i).
Proof. intros [b|u]; exact I. Qed.

Lemma in_set_meta_unmixed : forall i m, inner_unmixed i -> inner_unmixed (in_set_meta i m).
Proof. intros [b|u] m H; [exact H|exact I]. Qed.

Lemma sc_flush_unmixed : forall s w, inner_unmixed (sc_inner s) ->
  inner_unmixed (sc_inner (fst (fst (sc_flush deflate s w)))).
Proof.
  intros s w H. unfold sc_flush, flush_with. destruct (snd (in_info (sc_inner s)) =? 0); [exact H|].
  destruct (in_resolve deflate (sc_inner s)) as [p|]; [|exact H].
  destruct (w_write w p) as [w' ok]. destruct ok; [|exact H]. cbn [fst sc_reset sc_inner]. apply in_reset_unmixed.
Qed.

Lemma sc_add_unmixed : forall s w d now, inner_unmixed (sc_inner s) ->
  inner_unmixed (sc_inner (fst (fst (sc_add deflate s w d now)))).
Proof.
  intros s w d now H. rewrite sc_add_eq.
  assert (H1 : inner_unmixed (sc_inner (fst (fst (if sc_max s <=? sc_count s then sc_flush deflate s w else (s, w, true)))))).
  { destruct (sc_max s <=? sc_count s); [apply sc_flush_unmixed; exact H|exact H]. }
  destruct (if sc_max s <=? sc_count s then sc_flush deflate s w else (s, w, true)) as [[s1 w1] ok]. cbn [fst] in H1.
  destruct ok; cbn [negb]; [|exact H1]. unfold sc_add_tail.
  pose proof (in_add_unmixed (sc_inner s1) d now H1) as Hi. destruct (in_add (sc_inner s1) d now) as [i' r].
  cbn [fst] in Hi. destruct r; exact Hi.
Qed.

Lemma sd_flush_unmixed : forall c w, inner_unmixed (sc_inner (sd_s c)) ->
  inner_unmixed (sc_inner (sd_s (fst (fst (sd_flush deflate c w))))).
Proof.
  intros c w H. unfold sd_flush, flush_with. destruct (snd (in_info (sc_inner (sd_s c))) =? 0); [exact H|].
  destruct (in_resolve deflate (sc_inner (sd_s c))) as [p|]; [|exact H].
  destruct (w_write w p) as [w' ok]. destruct ok; [|exact H]. cbn [fst sd_reset sd_s sc_reset sc_inner]. apply in_reset_unmixed.
Qed.

Lemma sd_add_unmixed : forall c w d now, inner_unmixed (sc_inner (sd_s c)) ->
  inner_unmixed (sc_inner (sd_s (fst (fst (sd_add deflate c w d now))))).
Proof.
  intros c w d now H. rewrite sd_add_eq.
  assert (Htail : forall c1 w1, inner_unmixed (sc_inner (sd_s c1)) ->
            inner_unmixed (sc_inner (sd_s (fst (fst (let '(s', w2, r) := sc_add deflate (sd_s c1) w1 d now in
                                                       (mkSdcoll (sd_hash c1) (sd_mcount c1) s', w2, r))))))).
  { intros c1 w1 H1. pose proof (sc_add_unmixed (sd_s c1) w1 d now H1) as Hs.
    destruct (sc_add deflate (sd_s c1) w1 d now) as [[s' w2] r]. exact Hs. }
  destruct (sd_changed c d).
  - destruct (0 <? sc_count (sd_s c)).
    + pose proof (sd_flush_unmixed c w H) as Hf. destruct (sd_flush deflate c w) as [[c' w'] ok']. cbn [fst] in Hf.
      destruct ok'; cbn [negb]; [|exact Hf]. apply Htail. exact Hf.
    + cbn [negb]. apply Htail. exact H.
  - cbn [negb]. apply Htail. exact H.
Qed.

Lemma stream_unmixed_iff : forall s, unmixed (CStream s) <-> inner_unmixed (sc_inner s).
Proof.
  intros s. unfold unmixed. cbn [bcolls_of]. destruct (sc_inner s) as [b|u]; cbn [inner_unmixed].
  - split; [intros H; inversion H; assumption|intros H; constructor; [exact H|constructor]].
  - split; [intros _; exact I|intros _; constructor].
Qed.

Lemma sdyn_unmixed_iff : forall c, unmixed (CSDyn c) <-> inner_unmixed (sc_inner (sd_s c)).
Proof. intros c. apply (stream_unmixed_iff (sd_s c)). Qed.

Lemma base_unmixed_iff : forall b, unmixed (CBase b) <-> bc_unmixed b.
Proof.
  intros b. unfold unmixed. cbn [bcolls_of].
  split; [intros H; inversion H; assumption|intros H; constructor; [exact H|constructor]].
Qed.

Lemma c_reset_unmixed : forall c, unmixed (c_reset c).
Proof.
  intros [b|b|x|s|s|u]; cbn [c_reset].
  - apply base_unmixed_iff. exact I.
  - apply ba_new_unmixed.
  - apply dyn_unmixed_iff. constructor; [apply ba_new_unmixed|constructor].
  - apply stream_unmixed_iff. apply in_reset_unmixed.
  - apply sdyn_unmixed_iff. apply in_reset_unmixed.
  - constructor.
Qed.

Lemma c_add_unmixed : forall c w d now, unmixed c -> unmixed (fst (fst (c_add deflate c w d now))).
Proof.
  intros [b|b|x|s|s|u] w d now H; cbn [c_add].
  - apply base_unmixed_iff in H. pose proof (bc_add_unmixed b d now H) as Hb.
    destruct (bc_add b d now) as [b' r]. apply base_unmixed_iff. exact Hb.
  - pose proof (ba_add_unmixed b d now H) as Hb. destruct (ba_add b d now) as [b' r]. exact Hb.
  - apply dyn_unmixed_iff in H. pose proof (dy_add_unmixed x d now H) as Hx.
    destruct (dy_add x d now) as [x' r]. apply dyn_unmixed_iff. exact Hx.
  - apply stream_unmixed_iff in H. pose proof (sc_add_unmixed s w d now H) as Hs.
    destruct (sc_add deflate s w d now) as [[s' w'] r]. apply stream_unmixed_iff. exact Hs.
  - apply sdyn_unmixed_iff in H. pose proof (sd_add_unmixed s w d now H) as Hs.
    destruct (sd_add deflate s w d now) as [[s' w'] r]. apply sdyn_unmixed_iff. exact Hs.
  - destruct (uc_add u d) as [u' r]. constructor.
Qed.

Lemma c_flush_unmixed : forall c w, unmixed c -> unmixed (fst (fst (c_flush deflate c w))).
Proof.
  intros c w H. rewrite c_flush_eq. unfold flush_with. destruct (snd (c_info c) =? 0); [exact H|].
  destruct (c_resolve deflate c) as [p|]; [|exact H]. destruct (w_write w p) as [w' ok].
  destruct ok; [apply c_reset_unmixed|exact H].
Qed.

Lemma c_set_meta_unmixed : forall c m, unmixed c -> unmixed (c_set_meta c m).
Proof.
  intros [b|b|x|s|s|u] m H; cbn [c_set_meta].
  - apply base_unmixed_iff. apply base_unmixed_iff in H. exact H.
  - apply ba_set_meta_unmixed. exact H.
  - apply dyn_unmixed_iff. apply dy_set_meta_unmixed. apply dyn_unmixed_iff. exact H.
  - apply stream_unmixed_iff. cbn [sc_inner]. apply in_set_meta_unmixed. apply stream_unmixed_iff. exact H.
  - apply sdyn_unmixed_iff. cbn [sd_s sc_inner]. apply in_set_meta_unmixed. apply sdyn_unmixed_iff. exact H.
  - constructor.
Qed.

Lemma c_add_bad_unmixed : forall c w, unmixed c -> unmixed (fst (fst (c_add_bad deflate c w))).
Proof.
  intros [b|b|x|s|s|u] w H; cbn [c_add_bad]; try exact H.
  apply stream_unmixed_iff in H.
  assert (H1 : inner_unmixed (sc_inner (fst (fst (if sc_max s <=? sc_count s then sc_flush deflate s w else (s, w, true)))))).
  { destruct (sc_max s <=? sc_count s); [apply sc_flush_unmixed; exact H|exact H]. }
  destruct (if sc_max s <=? sc_count s then sc_flush deflate s w else (s, w, true)) as [[s1 w1] ok].
  apply stream_unmixed_iff. exact H1.
Qed.

Lemma step_unmixed : forall st o, unmixed (fst st) -> unmixed (fst (fst (step deflate st o))).
Proof.
  intros [c w] o H. cbn [fst] in H. destruct o as [d now| | | | |m|]; cbn [step].
  - pose proof (c_add_unmixed c w d now H) as H'. destruct (c_add deflate c w d now) as [[c' w'] r]. exact H'.
  - pose proof (c_add_bad_unmixed c w H) as H'. destruct (c_add_bad deflate c w) as [[c' w'] r]. exact H'.
  - exact H.
  - apply c_reset_unmixed.
  - pose proof (c_flush_unmixed c w H) as H'. destruct (c_flush deflate c w) as [[c' w'] ok]. exact H'.
  - apply c_set_meta_unmixed. exact H.
  - destruct (c_info c) as [mi si]. exact H.
Qed.

Lemma run_unmixed : forall ops st, unmixed (fst st) -> unmixed (fst (fst (run deflate st ops))).
Proof.
  induction ops as [|o ops IH]; intros st H; [exact H|].
  cbn [run]. pose proof (step_unmixed st o H) as H1. destruct (step deflate st o) as [st' ob]. cbn [fst] in H1.
  pose proof (IH st' H1) as H2. destruct (run deflate st' ops) as [st'' bs]. exact H2.
Qed.

Lemma new_coll_unmixed : forall k n, unmixed (new_coll k n).
Proof. intros k n. destruct k; cbn [new_coll]; repeat constructor. Qed.

(* every chunk under construction in every reachable state of every kind *)
Theorem c08_no_mixing : forall k n ops, unmixed (fst (c07_reach deflate k n ops)).
Proof. intros k n ops. unfold c07_reach. apply run_unmixed. apply new_coll_unmixed. Qed.

End Mix.
