(* Oracle soundness for C18: the executable oracles c18_ok_write / c18_ok_dump of
   Model/CsvOk.v accept the model's own observations (model_obs_write,
   model_obs_dump) for every chunk stream outside the class key-crlf. *)
From Coq Require Import ZArith NArith List Bool Lia Arith.
From FV.Model Require Import Bytes Bson Metrics Codec Collector Wf RoundTrip CollectorOk Views Frame Instance Csv CsvOk.
From FV.Proofs Require Import CollectorBase CsvProofs.
Import ListNotations.

(* ------------------------------------------------------------------ reading text with invisible records *)
Definition visible (r : list bytes) : bool := negb (invisible r).

Lemma render_invisible : forall r, invisible r = true -> render_record r = [10%N].
Proof.
  intros [|f [|g r]] H; try reflexivity.
  - destruct f; [reflexivity|discriminate].
  - destruct f; discriminate.
Qed.

Lemma read_all_fuel_vis : forall rs fuel,
  (length (render_records rs) < fuel)%nat ->
  read_all_fuel fuel (render_records rs) = (filter visible rs, None).
Proof.
  induction rs as [|r rs IH]; intros fuel Hfuel.
  - destruct fuel as [|f]; [inversion Hfuel|]. reflexivity.
  - rewrite render_records_cons in Hfuel |- *. rewrite app_length in Hfuel.
    pose proof (render_record_length r) as Hlen.
    cbn [filter]. unfold visible at 1. destruct (invisible r) eqn:E; cbn [negb].
    + rewrite (render_invisible r E). destruct fuel as [|f]; [inversion Hfuel|].
      transitivity (read_all_fuel (S f) (render_records rs)); [reflexivity|].
      apply IH. lia.
    + destruct fuel as [|f]; [inversion Hfuel|]. cbn [read_all_fuel].
      rewrite read_record_render by exact E. rewrite IH by lia. reflexivity.
Qed.

Lemma read_all_vis : forall rs, Forall fields_ok rs ->
  read_all (render_records rs) = (filter visible rs, None).
Proof.
  intros rs H. unfold read_all.
  assert (norm_input (render_records rs) = render_records rs) as Hn.
  { pose proof (norm_records rs [] H) as Hn. cbn [norm_input] in Hn. rewrite !app_nil_r in Hn. exact Hn. }
  rewrite Hn. apply read_all_fuel_vis. lia.
Qed.

(* ------------------------------------------------------------------ cells *)
Lemma dec_digits_no13 : forall n, Forall (fun b => b <> 13%N) (dec_digits n).
Proof.
  intro n. pose proof (dd_digits 40 n [] eq_refl) as H. fold (dec_digits n) in H.
  rewrite forallb_forall in H. apply Forall_forall. intros b Hin Hb. subst b.
  specialize (H _ Hin). discriminate.
Qed.

Lemma pad_no13 : forall w n, Forall (fun b => b <> 13%N) (pad w n).
Proof.
  intros w n. unfold pad. apply Forall_app. split; [|apply dec_digits_no13].
  apply Forall_forall. intros b Hb. apply repeat_spec in Hb. subst b. discriminate.
Qed.

Lemma render_date_no13 : forall v, Forall (fun b => b <> 13%N) (render_date v).
Proof.
  intro v. unfold render_date. destruct (civil (Z.quot v 1000 / 86400)) as [[y m] d].
  assert (Hy : Forall (fun b => b <> 13%N) (render_year y)).
  { unfold render_year. destruct (y <? 0)%Z; [constructor; [discriminate|]|]; apply pad_no13. }
  repeat first [apply pad_no13 | exact Hy | apply Forall_app; split
               | apply Forall_nil | (apply Forall_cons; [discriminate|])].
Qed.

Lemma render_date_nonempty : forall v, render_date v <> [].
Proof.
  intro v. unfold render_date. destruct (civil (Z.quot v 1000 / 86400)) as [[y m] d].
  intro E. apply (f_equal (@length N)) in E. rewrite !app_length in E. cbn [length] in E. lia.
Qed.

Lemma cell_no_crlf : forall t v, has_crlf (cell t v) = false.
Proof.
  intros t v. apply no13_no_crlf. destruct t; cbn [cell]; try apply render_int_no13. apply render_date_no13.
Qed.

Lemma cell_nonempty : forall t v, cell t v <> [].
Proof. intros t v. destruct t; cbn [cell]; try apply render_int_nonempty. apply render_date_nonempty. Qed.

Lemma record_of_fields_ok : forall c i, fields_ok (record_of c i).
Proof.
  intros c i. unfold fields_ok, record_of. apply Forall_forall. intros f Hf.
  apply in_map_iff in Hf. destruct Hf as [mv [<- _]]. apply cell_no_crlf.
Qed.

Lemma record_of_empty : forall c i, nmetrics c = O -> record_of c i = [].
Proof.
  intros c i H. unfold record_of, nmetrics in *. destruct (ck_metrics c); [reflexivity|discriminate].
Qed.

Lemma record_of_visible : forall c i, nmetrics c <> O -> invisible (record_of c i) = false.
Proof.
  intros c i H. unfold record_of, nmetrics in *. destruct (ck_metrics c) as [|mv r]; [exfalso; apply H; reflexivity|].
  cbn [map]. destruct (cell (m_type (fst mv)) (nth i (snd mv) 0%Z)) eqn:Ec.
  - exfalso. exact (cell_nonempty _ _ Ec).
  - destruct r; reflexivity.
Qed.

Lemma field_names_empty : forall c, nmetrics c = O -> field_names c = [].
Proof. intros c H. unfold field_names, nmetrics in *. destruct (ck_metrics c); [reflexivity|discriminate]. Qed.

(* ------------------------------------------------------------------ the rows of a run of chunks *)
Lemma rows_fields_ok : forall g, Forall fields_ok (flat_map chunk_records g).
Proof.
  intro g. apply Forall_forall. intros r Hr. apply in_flat_map in Hr. destruct Hr as [c [_ Hr]].
  unfold chunk_records in Hr. apply in_map_iff in Hr. destruct Hr as [i [<- _]]. apply record_of_fields_ok.
Qed.

Lemma rows_all_empty : forall g, Forall (fun c => nmetrics c = O) g ->
  filter visible (flat_map chunk_records g) = [].
Proof.
  intros g H. induction H as [|c g Hc _ IH]; [reflexivity|].
  cbn [flat_map]. rewrite filter_app, IH, app_nil_r. unfold chunk_records.
  induction (seq 0 (Z.to_nat (ck_npoints c))) as [|i l IHl]; [reflexivity|].
  cbn [map filter]. rewrite (record_of_empty c i Hc). exact IHl.
Qed.

Lemma rows_all_visible : forall g, Forall (fun c => nmetrics c <> O) g ->
  filter visible (flat_map chunk_records g) = flat_map chunk_records g.
Proof.
  intros g H. induction H as [|c g Hc _ IH]; [reflexivity|].
  cbn [flat_map]. rewrite filter_app, IH. f_equal. unfold chunk_records.
  induction (seq 0 (Z.to_nat (ck_npoints c))) as [|i l IHl]; [reflexivity|].
  cbn [map filter]. unfold visible at 1. rewrite (record_of_visible c i Hc). cbn [negb]. rewrite IHl. reflexivity.
Qed.

Lemma cell_ok_cell : forall t v, cell_ok t v (cell t v) = true.
Proof.
  intros t v. destruct t; cbn [cell_ok cell]; try apply cb_bytes_eqb_refl.
  rewrite date_not_int. reflexivity.
Qed.

Lemma row_ok_cells : forall ts vs, length ts = length vs ->
  row_ok ts vs (map (fun tv => cell (fst tv) (snd tv)) (combine ts vs)) = true.
Proof.
  induction ts as [|t ts IH]; intros [|v vs] H; try discriminate; [reflexivity|].
  cbn [combine map row_ok fst snd]. rewrite cell_ok_cell, IH; [reflexivity|]. cbn [length] in H. lia.
Qed.

Lemma rows_ok_app : forall e1 r1 e2 r2, rows_ok e1 r1 = true -> rows_ok e2 r2 = true ->
  rows_ok (e1 ++ e2) (r1 ++ r2) = true.
Proof.
  induction e1 as [|[ts vs] e1 IH]; intros [|r r1] e2 r2 H1 H2; try discriminate; [exact H2|].
  cbn [app rows_ok] in *. apply andb_true_iff in H1. destruct H1 as [Ha Hb].
  rewrite Ha, (IH r1 e2 r2 Hb H2). reflexivity.
Qed.

Lemma rows_ok_model : forall g, rows_ok (expected_rows g) (flat_map chunk_records g) = true.
Proof.
  induction g as [|c g IH]; [reflexivity|].
  unfold expected_rows in *. cbn [flat_map]. apply rows_ok_app; [|exact IH].
  unfold chunk_int_rows, chunk_records. rewrite map_map.
  induction (seq 0 (Z.to_nat (ck_npoints c))) as [|i l IHl]; [reflexivity|].
  cbn [map rows_ok]. rewrite IHl, andb_true_r. rewrite record_of_cells. apply row_ok_cells.
  unfold chunk_types. rewrite map_length, sample_row_length. reflexivity.
Qed.

Lemma keys_eqb_refl : forall l, keys_eqb l l = true.
Proof. induction l as [|k l IH]; [reflexivity|]. cbn. rewrite cb_bytes_eqb_refl, IH. reflexivity. Qed.

(* ------------------------------------------------------------------ the shape of a stream *)
Lemma stream_shape : forall c0 r,
  exists g rest,
    leading (c0 :: r) = c0 :: g /\ c0 :: r = (c0 :: g) ++ rest /\
    const_count (nmetrics c0) (c0 :: g) /\
    ((rest = [] /\ count_changes (c0 :: r) = false) \/
     (exists c post, rest = c :: post /\ nmetrics c <> nmetrics c0 /\ count_changes (c0 :: r) = true)).
Proof.
  intros c0 r. destruct (gbc_cons c0 r) as [g [gs Eg]].
  destruct (gbc_spec (c0 :: r)) as (Hcat & Hall & Hadj). rewrite Eg in Hcat, Hall, Hadj.
  exists g, (concat gs). unfold leading, count_changes. rewrite Eg. cbn [hd].
  split; [reflexivity|]. split; [symmetry; exact Hcat|].
  inversion Hall as [|? ? [_ Hc] Hgs]; subst. cbn [hd] in Hc. split; [exact Hc|].
  destruct gs as [|g2 gs'].
  - left. split; reflexivity.
  - right. inversion Hgs as [|? ? [Hne Hc2] _]; subst. destruct g2 as [|c g2']; [congruence|].
    exists c, (g2' ++ concat gs'). cbn [adjacent_differ hd] in Hadj. destruct Hadj as [Hd _].
    split; [reflexivity|]. split; [congruence|reflexivity].
Qed.

Lemma write_model : forall c0 r,
  write_csv (c0 :: r) =
  (render_records (field_names c0 :: flat_map chunk_records (leading (c0 :: r))), count_changes (c0 :: r)).
Proof.
  intros c0 r. destruct (stream_shape c0 r) as (g & rest & Hl & Hcs & Hc & [[Hr Hcc]|(c & post & Hr & Hd & Hcc)]).
  - rewrite Hl, Hcc. rewrite Hcs, Hr, app_nil_r. apply (write_const c0 g _ Hc).
  - rewrite Hl, Hcc. rewrite Hcs, Hr. rewrite (write_error c0 g c post _ Hc Hd).
    rewrite (write_const c0 g _ Hc). reflexivity.
Qed.

(* ------------------------------------------------------------------ WriteCSV *)
Lemma c18_write_sound : forall cs,
  match cs with c0 :: _ => fields_ok (field_names c0) | [] => True end ->
  c18_ok_write cs (fst (model_obs_write cs)) (snd (model_obs_write cs)) = true.
Proof.
  intros [|c0 r] Hh; [reflexivity|].
  unfold model_obs_write. rewrite write_model. cbn [fst snd]. unfold c18_ok_write.
  rewrite eqb_reflx. cbn [andb].
  destruct (stream_shape c0 r) as (g & rest & Hl & _ & Hc & _). rewrite Hl.
  rewrite read_all_vis by (constructor; [exact Hh|apply rows_fields_ok]).
  cbn [filter]. destruct (Nat.eqb (nmetrics c0) 0) eqn:E0.
  - apply Nat.eqb_eq in E0. rewrite (field_names_empty c0 E0). change (visible []) with false. cbv iota.
    rewrite rows_all_empty; [reflexivity|]. revert Hc. apply Forall_impl. intros c Hcn. congruence.
  - apply Nat.eqb_neq in E0. rewrite rows_all_visible.
    2:{ revert Hc. apply Forall_impl. intros c Hcn. congruence. }
    assert (Hv : visible (field_names c0) = negb (invisible (field_names c0))) by reflexivity.
    rewrite Hv. destruct (invisible (field_names c0)); cbn [negb].
    + apply rows_ok_model.
    + rewrite keys_eqb_refl. apply rows_ok_model.
Qed.

(* ------------------------------------------------------------------ DumpCSV *)
Lemma const_no_change : forall c g n, const_count n (c :: g) -> count_changes (c :: g) = false.
Proof.
  intros c g n Hc. destruct (stream_shape c g) as (g' & rest & _ & Hcs & _ & [[_ H]|(c' & post & Hr & Hd & _)]); [exact H|].
  exfalso. rewrite Hcs, Hr in Hc. unfold const_count in Hc. rewrite Forall_forall in Hc.
  assert (nmetrics c = n) by (apply Hc; left; reflexivity).
  assert (nmetrics c' = n) by (apply Hc; apply in_or_app; right; left; reflexivity). congruence.
Qed.

Lemma files_ok_model : forall gs,
  Forall (fun g => g <> [] /\ const_count (nmetrics (hd (mkChunk [] 0%Z None None []) g)) g /\
                   fields_ok (field_names (hd (mkChunk [] 0%Z None None []) g))) gs ->
  files_ok gs (map file_of gs) = true.
Proof.
  intros gs H. induction H as [|g gs (Hne & Hc & Hf) _ IH]; [reflexivity|].
  cbn [map files_ok]. rewrite IH, andb_true_r.
  destruct g as [|c g']; [congruence|]. cbn [hd] in Hc, Hf.
  pose proof (c18_write_sound (c :: g') Hf) as Hw. unfold model_obs_write in Hw.
  rewrite (write_const c g' _ Hc) in Hw. cbn [fst snd] in Hw. exact Hw.
Qed.

Lemma crlf_class_fields : forall cs, class_key_crlf cs = false -> Forall (fun c => fields_ok (field_names c)) cs.
Proof.
  intros cs H. apply Forall_forall. intros c Hc. unfold fields_ok. apply Forall_forall. intros f Hf.
  destruct (has_crlf f) eqn:E; [|reflexivity]. exfalso.
  assert (class_key_crlf cs = true); [|congruence].
  unfold class_key_crlf. apply existsb_exists. exists c. split; [exact Hc|].
  apply existsb_exists. exists f. split; assumption.
Qed.

Lemma c18_oracle_write_sound : forall cs, class_key_crlf cs = false ->
  c18_ok_write cs (fst (model_obs_write cs)) (snd (model_obs_write cs)) = true.
Proof.
  intros cs H. apply c18_write_sound. destruct cs as [|c0 r]; [exact I|].
  pose proof (crlf_class_fields _ H) as HF. inversion HF; assumption.
Qed.

Lemma c18_oracle_dump_sound : forall cs, class_key_crlf cs = false ->
  c18_ok_dump cs (model_obs_dump cs) false = true.
Proof.
  intros cs H. unfold c18_ok_dump, model_obs_dump. cbn [negb andb]. rewrite dump_files.
  apply files_ok_model. destruct (gbc_spec cs) as (Hcat & Hall & _).
  pose proof (crlf_class_fields _ H) as HF. rewrite <- Hcat in HF.
  apply Forall_forall. intros g Hg. rewrite Forall_forall in Hall. destruct (Hall g Hg) as [Hne Hc].
  split; [exact Hne|]. split; [exact Hc|].
  destruct g as [|c g']; [congruence|]. cbn [hd]. rewrite Forall_forall in HF. apply HF.
  apply in_concat. exists (c :: g'). split; [exact Hg|left; reflexivity].
Qed.
