(* Oracle soundness for the READ side of C11: the executable oracles [c11_chunks_ok],
   [c11_chunks_pos_ok], [c11_samples_ok] and [c11_perchunk_ok] (Model/MetaOk.v), which the
   run-time check applies to what the Go reader and its four iterator views reported, accept
   what the model's reader reports for the same stream - for every sequence of outer documents.

   Observations, as ocaml/c11_run.ml builds them: GetMetadata() of every delivered chunk
   ([map ck_meta cs]); Size() of every delivered chunk ([map ck_npoints cs]); Metadata() after
   every Next() of an iterator ([map fst] of the model's items); the number of delivered chunks. *)
From Coq Require Import ZArith NArith List Bool Lia.
From FV.Model Require Import Bytes Bson Metrics Codec Collector Wf RoundTrip CollectorOk Views Instance MetaOk.
From FV.Proofs Require Import CollectorBase MetaProofs.
Import ListNotations.
Open Scope Z_scope.

Lemma odoc_eqb_refl : forall m, odoc_eqb m m = true.
Proof. intros [d|]; [|reflexivity]. unfold odoc_eqb, doc_eqb. apply cb_bytes_eqb_refl. Qed.

Lemma odocs_eqb_refl : forall l, odocs_eqb l l = true.
Proof. induction l as [|m l IH]; [reflexivity|]. cbn [odocs_eqb]. rewrite odoc_eqb_refl, IH. reflexivity. Qed.

Lemma firstn_length_le_eq : forall {A} (l : list A) n, (n <= length l)%nat -> length (firstn n l) = n.
Proof. intros A l n H. rewrite firstn_length. lia. Qed.

(* ---------------------------------------------------------------- positions *)
Lemma prefix_before_spec : forall ds i pre, prefix_before i ds = Some pre ->
  exists d post, ds = pre ++ d :: post /\ is_chunkd d = true /\ chunk_count pre = i.
Proof.
  induction ds as [|d r IH]; intros i pre H; [discriminate H|]. cbn [prefix_before] in H.
  destruct (is_chunkd d) eqn:Ed.
  - destruct i as [|j].
    + inversion H; subst. exists d, r. repeat split; auto.
    + destruct (prefix_before j r) as [p|] eqn:Ep; [|discriminate H]. inversion H; subst.
      destruct (IH j p Ep) as (d' & post & -> & Hd' & Hc). exists d', post. split; [reflexivity|].
      split; [exact Hd'|]. unfold chunk_count, chunk_docs in *. cbn [filter]. rewrite Ed. cbn [length]. lia.
  - destruct (prefix_before i r) as [p|] eqn:Ep; [|discriminate H]. inversion H; subst.
    destruct (IH i p Ep) as (d' & post & -> & Hd' & Hc). exists d', post. split; [reflexivity|].
    split; [exact Hd'|]. unfold chunk_count, chunk_docs in *. cbn [filter]. rewrite Ed. exact Hc.
Qed.

Lemma prefix_before_some : forall ds i, (i < chunk_count ds)%nat -> prefix_before i ds <> None.
Proof.
  induction ds as [|d r IH]; intros i H; [cbn in H; lia|]. cbn [prefix_before].
  unfold chunk_count, chunk_docs in *. cbn [filter] in H.
  destruct (is_chunkd d) eqn:Ed.
  - destruct i as [|j]; [discriminate|]. cbn [length] in H.
    destruct (prefix_before j r) eqn:Ep; [discriminate|]. exfalso. apply (IH j); [lia | exact Ep].
  - destruct (prefix_before i r) eqn:Ep; [discriminate|]. exfalso. apply (IH i); [exact H | exact Ep].
Qed.

Lemma existsb_is_meta_false : forall pre, Forall (fun x => is_meta x = false) pre -> existsb is_meta pre = false.
Proof.
  induction pre as [|x pre IH]; intros H; [reflexivity|]. inversion H; subst. cbn [existsb].
  rewrite H2, IH; auto.
Qed.

Lemma forallb_combine_seq : forall {A} (f : nat * A -> bool) (l : list A) s,
  (forall i x, nth_error l i = Some x -> f ((s + i)%nat, x) = true) ->
  forallb f (combine (seq s (length l)) l) = true.
Proof.
  intros A f. induction l as [|x l IH]; intros s H; [reflexivity|]. cbn [length seq combine forallb].
  rewrite <- (Nat.add_0_r s) at 1. rewrite (H O x eq_refl). cbn [andb]. apply IH.
  intros i y Hy. replace (S s + i)%nat with (s + S i)%nat by lia. apply H. exact Hy.
Qed.

(* ---------------------------------------------------------------- the oracles on the model's reader *)
Section Read.
Variable inflate : bytes -> option bytes.

Lemma c11_chunks_oracle_sound : forall ds,
  let cs := fst (read_chunks inflate None ds) in
  c11_chunks_ok ds (map ck_meta cs) = true /\ c11_chunks_pos_ok ds (map ck_meta cs) = true.
Proof.
  intros ds cs. destruct (meta_read inflate ds) as (Hm & _ & Hle & _). fold cs in Hm, Hle.
  pose proof (spec_metas_length ds None) as Hsl.
  split.
  - unfold c11_chunks_ok. rewrite map_length, Hsl.
    replace (length cs <=? chunk_count ds)%nat with true by (symmetry; apply Nat.leb_le; exact Hle).
    cbn [andb]. rewrite <- Hm. apply odocs_eqb_refl.
  - unfold c11_chunks_pos_ok. apply forallb_combine_seq. intros i m Hi. cbn [fst snd plus].
    assert (Hlt : (i < length cs)%nat).
    { rewrite <- (map_length ck_meta). apply nth_error_Some. rewrite Hi. discriminate. }
    destruct (prefix_before i ds) as [pre|] eqn:Ep; [|exfalso; apply (prefix_before_some ds i); [lia | exact Ep]].
    destruct (prefix_before_spec ds i pre Ep) as (d & post & Eds & Hd & Hc).
    destruct (meta_read_at inflate pre d post Hd) as (_ & Hnone & _ & Hat).
    destruct (nth_error cs i) as [c|] eqn:Ec; [|apply nth_error_None in Ec; lia].
    assert (Em : m = ck_meta c).
    { rewrite (map_nth_error ck_meta _ _ Ec) in Hi. inversion Hi. reflexivity. }
    unfold cs in Ec. rewrite Eds, <- Hc in Ec. destruct (Hat c Ec) as [Hck _].
    rewrite Em, Hck, odoc_eqb_refl. cbn [andb].
    destruct (last_meta pre) as [x|] eqn:El; cbn [is_none].
    + destruct (existsb is_meta pre) eqn:Ex; [reflexivity|]. exfalso.
      assert (F : Forall (fun y => is_meta y = false) pre).
      { apply Forall_forall. intros y Hy. destruct (is_meta y) eqn:Ey; [|reflexivity].
        assert (existsb is_meta pre = true) by (apply existsb_exists; exists y; auto). congruence. }
      apply Hnone in F. discriminate F.
    + rewrite (existsb_is_meta_false pre (proj1 Hnone eq_refl)). reflexivity.
Qed.

(* the two per-sample views (ReadStructuredMetrics, ReadMetrics) *)
Lemma c11_samples_oracle_sound : forall ds,
  let cs := fst (read_chunks inflate None ds) in
  c11_samples_ok ds (map ck_npoints cs) (map fst (structured_items cs)) = true /\
  c11_samples_ok ds (map ck_npoints cs) (map fst (flat_items cs)) = true.
Proof.
  intros ds cs. destruct (meta_items inflate ds) as (Hs & _ & Hf & _). fold cs in Hs, Hf.
  unfold c11_samples_ok. rewrite !map_length, map_map. fold npoints_nat.
  change (map (fun x => Z.to_nat (ck_npoints x)) cs) with (map npoints_nat cs).
  rewrite Hs, Hf, odocs_eqb_refl. split; reflexivity.
Qed.

(* the two per-chunk views (ReadSeries, ReadMatrix) *)
Lemma c11_perchunk_oracle_sound : forall ds,
  let cs := fst (read_chunks inflate None ds) in
  c11_perchunk_ok ds (length cs) (map fst (series_items cs)) = true /\
  c11_perchunk_ok ds (length cs) (map fst (matrix_items cs)) = true.
Proof.
  intros ds cs. destruct (meta_items inflate ds) as (_ & _ & _ & _ & He & _ & Hx & _). fold cs in He, Hx.
  destruct (meta_read inflate ds) as (_ & _ & Hle & _). fold cs in Hle.
  pose proof (spec_metas_length ds None) as Hsl.
  assert (Hms : length (firstn (length cs) (spec_metas None ds)) = length cs)
    by (apply firstn_length_le_eq; rewrite Hsl; exact Hle).
  unfold c11_perchunk_ok. split.
  - rewrite He, Hms, Nat.leb_refl. cbn [andb]. apply odocs_eqb_refl.
  - pose proof (matrix_items_le cs) as Hml.
    rewrite Hx. rewrite firstn_firstn_le by exact Hml.
    rewrite firstn_length_le_eq by (rewrite Hsl; lia).
    replace (length (matrix_items cs) <=? length cs)%nat with true by (symmetry; apply Nat.leb_le; exact Hml).
    cbn [andb]. apply odocs_eqb_refl.
Qed.

End Read.
