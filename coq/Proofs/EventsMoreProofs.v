(* Proofs about Model/EventsMore.v: the interval collector and the random-sampling
   collector of events/collector.go related to the cumulative and the n-sampling
   collector of Model/Events.v.  The theorems of Props/C14.v section 11 are closed
   by [exact] of lemmas proved here.

   The common core: every one of these collectors keeps the SAME running total as
   the cumulative collector (same store, same c.current), and its trace is the
   cumulative collector's trace THINNED by a mask of decisions (EventsMore.thin):
     interval collector     mask = interval_mask2 dur true 0 clock
     random sampling        mask = rand_mask percent coins
     n-sampling collector   mask = samp_mask n 0 *)
From Coq Require Import ZArith NArith List Bool Lia Arith Sorted.
From FV.Model Require Import Bytes Bson Events EventsOk EventsMore.
From FV.Proofs Require Import EventsProofs.
Import ListNotations.
Open Scope Z_scope.

(* ------------------------------------------------------------------ thinned traces *)

Lemma select_nil_r : forall (A : Type) (m : list bool), @select A m [] = [].
Proof. intros A m. destruct m; reflexivity. Qed.

Lemma written_of_thin : forall tr m, written_of (thin m tr) = select m (written_of tr).
Proof.
  induction tr as [|a r IH]; intros m; cbn [thin written_of].
  - symmetry. apply select_nil_r.
  - destruct (o_res a) eqn:E.
    + destruct m as [|[|] m]; cbn [written_of select o_res]; [reflexivity | rewrite E, IH; reflexivity | apply IH].
    + cbn [written_of]. rewrite E. apply IH.
    + cbn [written_of]. rewrite E. apply IH.
    + cbn [written_of]. rewrite E. apply IH.
    + cbn [written_of]. rewrite E. apply IH.
Qed.

Lemma added_of_thin : forall tr m, (length (written_of tr) <= length m)%nat ->
  added_of (thin m tr) = added_of tr.
Proof.
  induction tr as [|a r IH]; intros m Hm; cbn [thin added_of]; [reflexivity|].
  cbn [written_of] in Hm.
  destruct (o_res a) eqn:E.
  - destruct m as [|[|] m]; cbn [length] in Hm; [lia | |];
      cbn [added_of o_added]; rewrite IH by lia; reflexivity.
  - cbn [added_of]. rewrite IH by exact Hm. reflexivity.
  - cbn [added_of]. rewrite IH by exact Hm. reflexivity.
  - cbn [added_of]. rewrite IH by exact Hm. reflexivity.
  - cbn [added_of]. rewrite IH by exact Hm. reflexivity.
Qed.

Lemma thin_all_true : forall tr k, (length (written_of tr) <= k)%nat -> thin (repeat true k) tr = tr.
Proof.
  induction tr as [|a r IH]; intros k Hk; cbn [thin]; [reflexivity|].
  cbn [written_of] in Hk.
  destruct (o_res a) eqn:E.
  - destruct k as [|k]; cbn [length] in Hk; [lia|]. cbn [repeat]. rewrite IH by lia. reflexivity.
  - rewrite IH by exact Hk. reflexivity.
  - rewrite IH by exact Hk. reflexivity.
  - rewrite IH by exact Hk. reflexivity.
  - rewrite IH by exact Hk. reflexivity.
Qed.

(* only the first (number of written samples) mask bits matter *)
Lemma thin_firstn : forall tr m n, (length (written_of tr) <= n)%nat -> thin (firstn n m) tr = thin m tr.
Proof.
  induction tr as [|a r IH]; intros m n Hn; cbn [thin]; [reflexivity|].
  cbn [written_of] in Hn.
  destruct (o_res a) eqn:E.
  - destruct n as [|n]; cbn [length] in Hn; [lia|].
    destruct m as [|[|] m]; cbn [firstn]; [reflexivity | |]; rewrite IH by lia; reflexivity.
  - rewrite IH by exact Hn. reflexivity.
  - rewrite IH by exact Hn. reflexivity.
  - rewrite IH by exact Hn. reflexivity.
  - rewrite IH by exact Hn. reflexivity.
Qed.

Lemma written_le : forall tr, (length (written_of tr) <= length tr)%nat.
Proof.
  induction tr as [|a r IH]; cbn [written_of length]; [lia|].
  destruct (o_res a); cbn [length]; lia.
Qed.

Lemma run_length : forall k ops s, length (snd (run k s ops)) = length ops.
Proof.
  intros k. induction ops as [|o r IH]; intros s; [reflexivity|].
  rewrite run_cons. cbn [snd length]. rewrite IH. reflexivity.
Qed.

Lemma cum_written_le : forall k s ops, (length (written_of (snd (run k s ops))) <= length ops)%nat.
Proof. intros k s ops. rewrite <- (run_length k ops s). apply written_le. Qed.

Lemma select_all_false : forall (A : Type) k (l : list A), select (repeat false k) l = [].
Proof.
  intros A. induction k as [|k IH]; intros l; [reflexivity|].
  destruct l as [|x l]; cbn [repeat select]; [reflexivity | apply IH].
Qed.

Lemma select_all_true : forall (A : Type) (l : list A) k, (length l <= k)%nat -> select (repeat true k) l = l.
Proof.
  intros A. induction l as [|x l IH]; intros k Hk; [apply select_nil_r|].
  destruct k as [|k]; cbn [length] in Hk; [lia|]. cbn [repeat select]. rewrite IH by lia. reflexivity.
Qed.

Lemma firstn_repeat_le : forall (A : Type) (x : A) n m, (n <= m)%nat -> firstn n (repeat x m) = repeat x n.
Proof.
  intros A x. induction n as [|n IH]; intros m Hm; [reflexivity|].
  destruct m as [|m]; [lia|]. cbn [repeat firstn]. rewrite IH by lia. reflexivity.
Qed.

(* ------------------------------------------------------------------ one operation *)

Lemma cum_step : forall s o,
  step KCumulative s o =
  match prepare s o with
  | Some (s0, idx, v) =>
      (fold_current s0 idx, mkObs (Some v) (RWritten (current_value (fold_current s0 idx))))
  | None => (s, mkObs None (match o with EvNil => RRefused | _ => RNoObject end))
  end.
Proof. intros s o. rewrite step_prepare. destruct (prepare s o) as [[[s0 idx] v]|]; reflexivity. Qed.

(* "c.current == nil" *)
Definition is_first (s : state) : bool :=
  match s_current s with None => true | Some _ => false end.

Lemma prepare_keeps : forall s o s0 idx v, prepare s o = Some (s0, idx, v) ->
  s_current s0 = s_current s /\ s_count s0 = s_count s.
Proof.
  intros s o s0 idx v H. destruct o as [p|i|]; cbn [prepare] in H.
  - inversion H; subst. split; reflexivity.
  - destruct (Nat.ltb i (length (s_store s))); [| discriminate]. inversion H; subst. split; reflexivity.
  - discriminate.
Qed.

Lemma fold_current_not_first : forall s idx, is_first (fold_current s idx) = false.
Proof. intros s idx. unfold is_first, fold_current. destruct (s_current s); reflexivity. Qed.

Lemma fold_current_count : forall s idx, s_count (fold_current s idx) = s_count s.
Proof. intros s idx. unfold fold_current. destruct (s_current s); reflexivity. Qed.

(* ------------------------------------------------------------------ interval collector *)

Lemma step_interval2_prepare : forall dur clock b l o,
  step_interval2 dur clock (mkIState b l) o =
  match prepare b o with
  | Some (s0, idx, v) =>
      match clock with
      | [] => None
      | (t, t') :: c =>
          Some (fst (add_event_interval2 dur t t' (mkIState s0 l) idx), c,
                mkObs (Some v) (snd (add_event_interval2 dur t t' (mkIState s0 l) idx)))
      end
  | None => Some (mkIState b l, clock, mkObs None (match o with EvNil => RRefused | _ => RNoObject end))
  end.
Proof.
  intros dur clock b l o. destruct o as [p|i|]; cbn [step_interval2 prepare i_base s_last].
  - destruct clock as [|[t t'] c]; [reflexivity|]. cbv zeta.
    destruct (add_event_interval2 _ _ _ _ _); reflexivity.
  - destruct (Nat.ltb i (length (s_store b))); [| reflexivity].
    destruct clock as [|[t t'] c]; [reflexivity|].
    destruct (add_event_interval2 _ _ _ _ _); reflexivity.
  - reflexivity.
Qed.

Lemma add_interval2_spec : forall dur t t' b l idx,
  add_event_interval2 dur t t' (mkIState b l) idx =
  (mkIState (fold_current b idx) (if is_first b then t else if dur <=? t - l then t' else l),
   if is_first b || (dur <=? t - l) then RWritten (current_value (fold_current b idx)) else RSkipped).
Proof.
  intros dur t t' b l idx. unfold add_event_interval2, is_first. cbn [i_base s_last].
  destruct (s_current b); cbn [orb]; [| reflexivity].
  destruct (dur <=? t - l); reflexivity.
Qed.

Lemma mask_cons : forall dur first last t t' c,
  interval_mask2 dur first last ((t, t') :: c) =
  (first || (dur <=? t - last)) ::
  interval_mask2 dur false (if first then t else if dur <=? t - last then t' else last) c.
Proof.
  intros dur first last t t' c. cbn [interval_mask2].
  destruct first; cbn [orb]; [reflexivity|]. destruct (dur <=? t - last); reflexivity.
Qed.

Lemma mask_length : forall dur clock first last, length (interval_mask2 dur first last clock) = length clock.
Proof.
  intros dur. induction clock as [|[t t'] c IH]; intros first last; [reflexivity|].
  rewrite mask_cons. cbn [length]. rewrite IH. reflexivity.
Qed.

Lemma run_interval2_cons : forall dur clock s o r,
  run_interval2 dur clock s (o :: r) =
  match step_interval2 dur clock s o with
  | None => (s, [])
  | Some (s1, c1, ob) => (fst (run_interval2 dur c1 s1 r), ob :: snd (run_interval2 dur c1 s1 r))
  end.
Proof.
  intros dur clock s o r. cbn [run_interval2].
  destruct (step_interval2 dur clock s o) as [[[s1 c1] ob]|]; [| reflexivity].
  destruct (run_interval2 dur c1 s1 r); reflexivity.
Qed.

(* the trace of the interval collector = the cumulative collector's trace thinned by
   the mask computed from the clock; no hypothesis on the clock, not even its length *)
Lemma interval_thin : forall dur ops clock b l,
  snd (run_interval2 dur clock (mkIState b l) ops) =
  thin (interval_mask2 dur (is_first b) l clock) (snd (run KCumulative b ops)).
Proof.
  intros dur. induction ops as [|o r IH]; intros clock b l; [reflexivity|].
  rewrite run_interval2_cons, run_cons, step_interval2_prepare, cum_step. cbn [fst snd].
  destruct (prepare b o) as [[[s0 idx] v]|] eqn:Hp.
  - destruct (prepare_keeps _ _ _ _ _ Hp) as [Hc _].
    assert (Hf : is_first s0 = is_first b) by (unfold is_first; rewrite Hc; reflexivity).
    cbn [fst snd thin o_res o_added].
    destruct clock as [|[t t'] c]; [reflexivity|].
    rewrite add_interval2_spec, mask_cons, Hf. cbn [fst snd].
    destruct (is_first b || (dur <=? t - l)); cbn [snd fst]; rewrite IH, fold_current_not_first; reflexivity.
  - cbn [fst snd]. destruct o; cbn [thin o_res]; rewrite IH; reflexivity.
Qed.

(* with enough readings the running total is the cumulative collector's, whatever the clock *)
Lemma interval_state : forall dur ops clock b l, (length ops <= length clock)%nat ->
  i_base (fst (run_interval2 dur clock (mkIState b l) ops)) = fst (run KCumulative b ops).
Proof.
  intros dur. induction ops as [|o r IH]; intros clock b l Hlen; [reflexivity|].
  cbn [length] in Hlen.
  rewrite run_interval2_cons, run_cons, step_interval2_prepare, cum_step. cbn [fst snd].
  destruct (prepare b o) as [[[s0 idx] v]|] eqn:Hp.
  - destruct clock as [|[t t'] c]; cbn [length] in Hlen; [lia|].
    rewrite add_interval2_spec. cbn [fst snd]. apply IH. lia.
  - cbn [fst]. apply IH. lia.
Qed.

(* --- the mask when the interval is zero (or negative) and the clock does not go back --- *)
Lemma mask_zero : forall dur, dur <= 0 -> forall clock first last,
  StronglySorted Z.le (flat_clock clock) ->
  (first = false -> Forall (Z.le last) (flat_clock clock)) ->
  interval_mask2 dur first last clock = repeat true (length clock).
Proof.
  intros dur Hdur. induction clock as [|[t t'] c IH]; intros first last HS HF; [reflexivity|].
  cbn [flat_clock] in HS, HF.
  inversion HS as [|? ? HS1 HF1]; subst. inversion HS1 as [|? ? HS2 HF2]; subst.
  inversion HF1 as [|? ? Htt HF1']; subst.
  rewrite mask_cons. cbn [length repeat].
  destruct first; cbn [orb].
  - f_equal. apply IH; [exact HS2 | intros _; exact HF1'].
  - specialize (HF eq_refl). inversion HF as [|? ? Hlt _]; subst.
    assert (E : dur <=? t - last = true) by (apply Z.leb_le; lia).
    rewrite E. f_equal. apply IH; [exact HS2 | intros _; exact HF2].
Qed.

(* --- the mask when the interval never elapses --- *)
Lemma mask_never : forall dur clock last, Forall (fun ab => fst ab < last + dur) clock ->
  interval_mask2 dur false last clock = repeat false (length clock).
Proof.
  intros dur. induction clock as [|[t t'] c IH]; intros last HF; [reflexivity|].
  inversion HF as [|? ? Ht HF']; subst. cbn [fst] in Ht.
  rewrite mask_cons. cbn [orb length repeat].
  assert (E : dur <=? t - last = false) by (apply Z.leb_gt; lia).
  rewrite E. f_equal. apply IH. exact HF'.
Qed.

Lemma mask_first_only : forall dur t0 t0' c last, never_elapses2 dur ((t0, t0') :: c) ->
  interval_mask2 dur true last ((t0, t0') :: c) = true :: repeat false (length c).
Proof.
  intros dur t0 t0' c last H. cbn [never_elapses2] in H.
  rewrite mask_cons. cbn [orb]. f_equal. apply mask_never. exact H.
Qed.

(* one reading per call *)
Lemma Forall_flat_dup : forall (P : Z -> Prop) l, Forall P l -> Forall P (flat_clock (map dup l)).
Proof.
  intros P. induction l as [|t r IH]; intros H; [constructor|].
  inversion H; subst. cbn [map dup flat_clock]. unfold dup at 1. cbn [flat_clock].
  constructor; [assumption|]. constructor; [assumption|]. apply IH. assumption.
Qed.

Lemma sorted_flat_dup : forall l, Sorted Z.le l -> StronglySorted Z.le (flat_clock (map dup l)).
Proof.
  intros l HS. apply Sorted_StronglySorted in HS; [| exact Z.le_trans].
  induction HS as [|t r HS IH HF]; [constructor|].
  cbn [map]. unfold dup at 1. cbn [flat_clock].
  constructor.
  - constructor; [exact IH|]. apply Forall_flat_dup. exact HF.
  - constructor; [lia|]. apply Forall_flat_dup. exact HF.
Qed.

Lemma never_elapses_dup : forall dur l, never_elapses dur l -> never_elapses2 dur (map dup l).
Proof.
  intros dur [|t0 r] H; [exact I|]. cbn [map never_elapses2 never_elapses] in *. unfold dup at 1.
  rewrite Forall_map. cbn [dup fst]. exact H.
Qed.

(* ------------------------------------------------------------------ random-sampling collector *)

Lemma step_rand_prepare : forall percent coins s o,
  step_rand percent coins s o =
  match prepare s o with
  | Some (s0, idx, v) =>
      match draw percent coins with
      | None => None
      | Some (coin, cs) =>
          Some (fst (add_event_rand percent coin s0 idx), cs,
                mkObs (Some v) (snd (add_event_rand percent coin s0 idx)))
      end
  | None => Some (s, coins, mkObs None (match o with EvNil => RRefused | _ => RNoObject end))
  end.
Proof.
  intros percent coins s o. destruct o as [p|i|]; cbn [step_rand prepare].
  - destruct (draw percent coins) as [[coin cs]|]; [| reflexivity]. cbv zeta.
    destruct (add_event_rand _ _ _ _); reflexivity.
  - destruct (Nat.ltb i (length (s_store s))); [| reflexivity].
    destruct (draw percent coins) as [[coin cs]|]; [| reflexivity].
    destruct (add_event_rand _ _ _ _); reflexivity.
  - reflexivity.
Qed.

Lemma add_rand_spec : forall percent coin s idx,
  add_event_rand percent coin s idx =
  (fold_current s idx,
   if should_collect percent coin then RWritten (current_value (fold_current s idx)) else RSkipped).
Proof. intros. unfold add_event_rand. destruct (should_collect percent coin); reflexivity. Qed.

Lemma run_rand_cons : forall percent coins s o r,
  run_rand_from percent coins s (o :: r) =
  match step_rand percent coins s o with
  | None => (s, [])
  | Some (s1, c1, ob) => (fst (run_rand_from percent c1 s1 r), ob :: snd (run_rand_from percent c1 s1 r))
  end.
Proof.
  intros percent coins s o r. cbn [run_rand_from].
  destruct (step_rand percent coins s o) as [[[s1 c1] ob]|]; [| reflexivity].
  destruct (run_rand_from percent c1 s1 r); reflexivity.
Qed.

Lemma needs_coin_iff : forall percent, needs_coin percent = true <-> 0 < percent <= 100.
Proof.
  intros percent. unfold needs_coin. rewrite andb_true_iff, !negb_true_iff, Z.gtb_ltb, Z.ltb_ge, Z.leb_gt. lia.
Qed.

Lemma rand_mask_draw : forall percent coins coin cs k, draw percent coins = Some (coin, cs) ->
  rand_mask percent coins (S k) = should_collect percent coin :: rand_mask percent cs k.
Proof.
  intros percent coins coin cs k. unfold draw, needs_coin, rand_mask, should_collect.
  destruct (percent >? 100); cbn [negb andb].
  - intros H. inversion H; subst. reflexivity.
  - destruct (percent <=? 0); cbn [negb].
    + intros H. inversion H; subst. reflexivity.
    + destruct coins as [|c r]; intros H; [discriminate|]. inversion H; subst. reflexivity.
Qed.

Lemma rand_mask_nodraw : forall percent coins k, draw percent coins = None -> rand_mask percent coins k = [].
Proof.
  intros percent coins k. unfold draw, needs_coin, rand_mask.
  destruct (percent >? 100); cbn [negb andb]; [discriminate|].
  destruct (percent <=? 0); cbn [negb]; [discriminate|].
  destruct coins; [reflexivity | discriminate].
Qed.

(* the trace = the cumulative collector's thinned by the coins; no hypothesis on the coins *)
Lemma rand_thin : forall percent ops coins s k, (length ops <= k)%nat ->
  snd (run_rand_from percent coins s ops) =
  thin (rand_mask percent coins k) (snd (run KCumulative s ops)).
Proof.
  intros percent. induction ops as [|o r IH]; intros coins s k Hk; [reflexivity|].
  cbn [length] in Hk.
  rewrite run_rand_cons, run_cons, step_rand_prepare, cum_step. cbn [fst snd].
  destruct (prepare s o) as [[[s0 idx] v]|] eqn:Hp.
  - cbn [fst snd thin o_res o_added].
    destruct k as [|k]; [lia|].
    destruct (draw percent coins) as [[coin cs]|] eqn:Hd.
    + rewrite (rand_mask_draw _ _ _ _ k Hd), add_rand_spec. cbn [fst snd].
      destruct (should_collect percent coin); cbn [snd fst]; rewrite (IH cs _ k) by lia; reflexivity.
    + rewrite (rand_mask_nodraw _ _ _ Hd). reflexivity.
  - cbn [fst snd]. destruct o; cbn [thin o_res]; rewrite (IH coins s k) by lia; reflexivity.
Qed.

Lemma rand_state : forall percent ops coins s,
  (needs_coin percent = true -> (length ops <= length coins)%nat) ->
  fst (run_rand_from percent coins s ops) = fst (run KCumulative s ops).
Proof.
  intros percent. induction ops as [|o r IH]; intros coins s Hlen; [reflexivity|].
  cbn [length] in Hlen.
  rewrite run_rand_cons, run_cons, step_rand_prepare, cum_step. cbn [fst snd].
  destruct (prepare s o) as [[[s0 idx] v]|] eqn:Hp.
  - unfold draw. destruct (needs_coin percent) eqn:En.
    + specialize (Hlen eq_refl). destruct coins as [|c cs]; cbn [length] in Hlen; [lia|].
      rewrite add_rand_spec. cbn [fst snd]. apply IH. intros _. lia.
    + rewrite add_rand_spec. cbn [fst snd]. apply IH. intros H. discriminate H.
  - cbn [fst]. apply IH. intros H. specialize (Hlen H). lia.
Qed.

(* ------------------------------------------------------------------ n-sampling collector *)

(* the same heap with another count *)
Definition wc (s : state) (c : Z) : state := mkState (s_store s) (s_current s) c.

Lemma prepare_wc : forall s c o,
  prepare (wc s c) o =
  match prepare s o with Some (s0, idx, v) => Some (wc s0 c, idx, v) | None => None end.
Proof.
  intros s c o. destruct o as [p|i|]; cbn [prepare wc s_store s_current s_count]; [reflexivity | | reflexivity].
  destruct (Nat.ltb i (length (s_store s))); reflexivity.
Qed.

Lemma fold_current_wc : forall s c idx, fold_current (wc s c) idx = wc (fold_current s idx) c.
Proof.
  intros s c idx. unfold fold_current, wc. cbn [s_store s_current s_count].
  destruct (s_current s); reflexivity.
Qed.

Lemma current_value_wc : forall s c, current_value (wc s c) = current_value s.
Proof. reflexivity. Qed.

(* the cumulative collector does not look at the count *)
Lemma cum_run_wc : forall ops s c,
  run KCumulative (wc s c) ops = (wc (fst (run KCumulative s ops)) c, snd (run KCumulative s ops)).
Proof.
  induction ops as [|o r IH]; intros s c; [reflexivity|].
  rewrite !run_cons, !cum_step, prepare_wc.
  destruct (prepare s o) as [[[s0 idx] v]|]; cbn [fst snd].
  - rewrite fold_current_wc, current_value_wc, IH. reflexivity.
  - rewrite IH. reflexivity.
Qed.

Lemma samp_step : forall n, n <> 0 -> forall s o,
  step (KSampling n) s o =
  match prepare s o with
  | Some (s0, idx, v) =>
      (wc (fold_current s0 idx) (wrap64 (s_count s0 + 1)),
       mkObs (Some v) (if Z.rem (s_count s0) n =? 0
                       then RWritten (current_value (fold_current s0 idx)) else RSkipped))
  | None => (s, mkObs None (match o with EvNil => RRefused | _ => RNoObject end))
  end.
Proof.
  intros n Hn s o. rewrite step_prepare.
  destruct (prepare s o) as [[[s0 idx] v]|]; [| reflexivity].
  cbn [add_event]. assert (E : n =? 0 = false) by (apply Z.eqb_neq; exact Hn). rewrite E.
  rewrite fold_current_count.
  destruct (Z.rem (s_count s0) n =? 0); reflexivity.
Qed.

(* the n-sampling collector: the cumulative trace thinned by samp_mask, same heap *)
Lemma samp_thin : forall n, n <> 0 -> forall ops s k, (length ops <= k)%nat ->
  snd (run (KSampling n) s ops) = thin (samp_mask n (s_count s) k) (snd (run KCumulative s ops)) /\
  exists c, fst (run (KSampling n) s ops) = wc (fst (run KCumulative s ops)) c.
Proof.
  intros n Hn. induction ops as [|o r IH]; intros s k Hk.
  - split; [reflexivity|]. exists (s_count s). destruct s; reflexivity.
  - cbn [length] in Hk.
    rewrite !run_cons, (samp_step n Hn), cum_step.
    destruct (prepare s o) as [[[s0 idx] v]|] eqn:Hp.
    + destruct (prepare_keeps _ _ _ _ _ Hp) as [_ Hc].
      destruct k as [|k]; [lia|].
      cbn [fst snd thin o_res o_added samp_mask]. rewrite <- Hc.
      set (c' := wrap64 (s_count s0 + 1)).
      destruct (IH (wc (fold_current s0 idx) c') k ltac:(lia)) as (IHt & cf & IHs).
      rewrite cum_run_wc in IHt, IHs. cbn [fst snd] in IHt, IHs.
      cbn [wc s_count] in IHt.
      split; [| exists cf; rewrite IHs; reflexivity].
      destruct (Z.rem (s_count s0) n =? 0); rewrite IHt; reflexivity.
    + cbn [fst snd].
      destruct (IH s k ltac:(lia)) as (IHt & cf & IHs).
      split; [| exists cf; exact IHs].
      destruct o; cbn [thin o_res]; rewrite IHt; reflexivity.
Qed.

(* a rate beyond the number of events: only count 0 is sampled *)
Lemma samp_mask_skip : forall n k c, 1 <= c -> c + Z.of_nat k <= n -> c + Z.of_nat k < 2 ^ 63 ->
  samp_mask n c k = repeat false k.
Proof.
  intros n. induction k as [|k IH]; intros c Hc Hn H63; [reflexivity|].
  cbn [samp_mask repeat].
  rewrite Nat2Z.inj_succ in Hn, H63.
  assert (E : Z.rem c n =? 0 = false).
  { apply Z.eqb_neq. rewrite Z.rem_small by lia. lia. }
  rewrite E. f_equal.
  rewrite wrap64_small by lia. apply IH; lia.
Qed.

Lemma samp_mask_huge : forall n k, Z.of_nat (S k) <= n -> Z.of_nat (S k) < 2 ^ 63 ->
  samp_mask n 0 (S k) = true :: repeat false k.
Proof.
  intros n k Hn H63. cbn [samp_mask]. rewrite Nat2Z.inj_succ in Hn, H63.
  rewrite Z.rem_0_l by lia. cbn [Z.eqb]. f_equal.
  change (wrap64 (0 + 1)) with 1. apply samp_mask_skip; lia.
Qed.

(* ------------------------------------------------------------------ the first sample *)

Lemma cum_first : forall ops,
  firstn 1 (written_of (snd (run KCumulative init ops))) = firstn 1 (added_of (snd (run KCumulative init ops))).
Proof.
  induction ops as [|o r IH]; [reflexivity|].
  rewrite run_cons, cum_step.
  destruct o as [p|i|]; cbn [prepare init s_store s_current s_count length Nat.ltb Nat.leb app].
  - cbn [fst snd written_of added_of o_res o_added firstn]. reflexivity.
  - cbn [fst snd written_of added_of o_res o_added]. exact IH.
  - cbn [fst snd written_of added_of o_res o_added]. exact IH.
Qed.

Lemma select_first_only : forall (A : Type) j (l : list A), select (true :: repeat false j) l = firstn 1 l.
Proof.
  intros A j [|x l]; [reflexivity|]. cbn [select firstn]. rewrite select_all_false. reflexivity.
Qed.

(* ================================================================== the statements of Props/C14.v *)

(* --- interval collector, any interval, any clock --- *)
Lemma interval2_general : forall dur clock ops, (length ops <= length clock)%nat ->
  let r := run_interval2 dur clock iinit ops in
  let rc := run KCumulative init ops in
  let mask := interval_mask2 dur true 0 clock in
  i_base (fst r) = fst rc /\
  snd r = thin mask (snd rc) /\
  added_of (snd r) = added_of (snd rc) /\
  written_of (snd r) = select mask (written_of (snd rc)).
Proof.
  intros dur clock ops Hlen. cbv zeta. unfold iinit.
  pose proof (interval_thin dur ops clock init 0) as Ht. change (is_first init) with true in Ht.
  split; [apply interval_state; exact Hlen|]. split; [exact Ht|].
  rewrite Ht. split; [| apply written_of_thin].
  apply added_of_thin. rewrite mask_length.
  pose proof (cum_written_le KCumulative init ops). lia.
Qed.

Lemma map_dup_length : forall l, length (map dup l) = length l.
Proof. intros l. apply map_length. Qed.

Lemma interval_general : forall dur clock ops, (length ops <= length clock)%nat ->
  let r := run_interval dur clock ops in
  let rc := run KCumulative init ops in
  let mask := interval_mask dur clock in
  i_base (fst r) = fst rc /\
  snd r = thin mask (snd rc) /\
  added_of (snd r) = added_of (snd rc) /\
  written_of (snd r) = select mask (written_of (snd rc)).
Proof.
  intros dur clock ops Hlen. unfold run_interval, interval_mask.
  apply interval2_general. rewrite map_dup_length. exact Hlen.
Qed.

(* under int64_history the written samples are running totals of the specification *)
Lemma interval_written_totals : forall dur clock ops, (length ops <= length clock)%nat -> wf_history ops ->
  let tr := snd (run_interval dur clock ops) in
  written_of tr = select (interval_mask dur clock) (expected_cumulative (added_of tr)).
Proof.
  intros dur clock ops Hlen Hwf. cbv zeta.
  destruct (interval_general dur clock ops Hlen) as (_ & _ & Ha & Hw). cbv zeta in Ha, Hw.
  rewrite Hw, Ha. destruct (cumulative_general ops Hwf) as [_ Hc]. cbv zeta in Hc. rewrite Hc. reflexivity.
Qed.

(* --- (a) interval zero --- *)
Lemma interval2_zero : forall dur clock ops, dur <= 0 -> Sorted Z.le (flat_clock clock) ->
  (length ops <= length clock)%nat ->
  let r := run_interval2 dur clock iinit ops in
  let rc := run KCumulative init ops in
  snd r = snd rc /\ i_base (fst r) = fst rc.
Proof.
  intros dur clock ops Hdur HS Hlen. cbv zeta.
  destruct (interval2_general dur clock ops Hlen) as (Hst & Htr & _). cbv zeta in Hst, Htr.
  split; [| exact Hst].
  rewrite Htr, (mask_zero dur Hdur clock true 0).
  - apply thin_all_true. pose proof (cum_written_le KCumulative init ops). lia.
  - apply Sorted_StronglySorted; [exact Z.le_trans | exact HS].
  - intros H. discriminate H.
Qed.

Lemma interval_zero : forall dur clock ops, dur <= 0 -> Sorted Z.le clock ->
  (length ops <= length clock)%nat ->
  let r := run_interval dur clock ops in
  let rc := run KCumulative init ops in
  snd r = snd rc /\ i_base (fst r) = fst rc.
Proof.
  intros dur clock ops Hdur HS Hlen. cbv zeta.
  destruct (interval_general dur clock ops Hlen) as (Hst & Htr & _). cbv zeta in Hst, Htr.
  split; [| exact Hst].
  rewrite Htr. unfold interval_mask. rewrite (mask_zero dur Hdur (map dup clock) true 0).
  - apply thin_all_true. rewrite map_dup_length. pose proof (cum_written_le KCumulative init ops). lia.
  - apply sorted_flat_dup. exact HS.
  - intros H. discriminate H.
Qed.

(* --- (b) the interval never elapses --- *)
Lemma first_only_common : forall ops huge j, (length ops <= S j)%nat ->
  Z.of_nat (length ops) < huge -> Z.of_nat (length ops) < 2 ^ 63 ->
  let rc := run KCumulative init ops in
  let rs := run (KSampling huge) init ops in
  thin (true :: repeat false j) (snd rc) = snd rs /\
  s_store (fst rs) = s_store (fst rc) /\ s_current (fst rs) = s_current (fst rc).
Proof.
  intros ops huge j Hj Hh H63. cbv zeta.
  assert (Hn : huge <> 0) by lia.
  destruct (samp_thin huge Hn ops init (length ops) (le_n _)) as (Ht & c & Hs).
  split; [| rewrite Hs; split; reflexivity].
  rewrite Ht. change (s_count init) with 0.
  destruct ops as [|o r]; [reflexivity|].
  remember (o :: r) as ops eqn:Eops.
  assert (Hl : length ops = S (length r)) by (subst ops; reflexivity).
  pose proof (cum_written_le KCumulative init ops) as Hw.
  rewrite Hl in *.
  rewrite samp_mask_huge by lia.
  rewrite <- (thin_firstn _ (true :: repeat false j) (S (length r))) by exact Hw.
  cbn [firstn]. rewrite firstn_repeat_le by lia. reflexivity.
Qed.

Lemma interval2_long : forall dur clock ops huge, never_elapses2 dur clock ->
  (length ops <= length clock)%nat ->
  Z.of_nat (length ops) < huge -> Z.of_nat (length ops) < 2 ^ 63 ->
  let r := run_interval2 dur clock iinit ops in
  let rc := run KCumulative init ops in
  let rs := run (KSampling huge) init ops in
  snd r = snd rs /\
  written_of (snd r) = firstn 1 (added_of (snd r)) /\
  added_of (snd r) = added_of (snd rc) /\
  i_base (fst r) = fst rc /\
  s_store (fst rs) = s_store (fst rc) /\ s_current (fst rs) = s_current (fst rc).
Proof.
  intros dur clock ops huge Hne Hlen Hh H63. cbv zeta.
  destruct (interval2_general dur clock ops Hlen) as (Hst & Htr & Had & Hwr). cbv zeta in Hst, Htr, Had, Hwr.
  destruct clock as [|[t0 t0'] c].
  - destruct ops; [| cbn [length] in Hlen; lia]. cbn. repeat split.
  - rewrite (mask_first_only dur t0 t0' c 0 Hne) in Htr, Hwr. cbn [length] in Hlen.
    destruct (first_only_common ops huge (length c) Hlen Hh H63) as (Hs & Hs1 & Hs2). cbv zeta in Hs, Hs1, Hs2.
    split; [rewrite Htr; exact Hs|].
    split; [rewrite Hwr, Had, select_first_only; apply cum_first|].
    split; [exact Had|]. split; [exact Hst|]. split; [exact Hs1 | exact Hs2].
Qed.

Lemma interval_long : forall dur clock ops huge, never_elapses dur clock ->
  (length ops <= length clock)%nat ->
  Z.of_nat (length ops) < huge -> Z.of_nat (length ops) < 2 ^ 63 ->
  let r := run_interval dur clock ops in
  let rc := run KCumulative init ops in
  let rs := run (KSampling huge) init ops in
  snd r = snd rs /\
  written_of (snd r) = firstn 1 (added_of (snd r)) /\
  added_of (snd r) = added_of (snd rc) /\
  i_base (fst r) = fst rc /\
  s_store (fst rs) = s_store (fst rc) /\ s_current (fst rs) = s_current (fst rc).
Proof.
  intros dur clock ops huge Hne Hlen Hh H63. unfold run_interval.
  apply interval2_long; [apply never_elapses_dup; exact Hne | rewrite map_dup_length; exact Hlen | exact Hh | exact H63].
Qed.

(* --- n-sampling collector as a thinned cumulative collector --- *)
Lemma sampling_thinned : forall n ops, n <> 0 ->
  let rs := run (KSampling n) init ops in
  let rc := run KCumulative init ops in
  let mask := samp_mask n 0 (length ops) in
  snd rs = thin mask (snd rc) /\
  s_store (fst rs) = s_store (fst rc) /\ s_current (fst rs) = s_current (fst rc) /\
  added_of (snd rs) = added_of (snd rc) /\
  written_of (snd rs) = select mask (written_of (snd rc)).
Proof.
  intros n ops Hn. cbv zeta.
  destruct (samp_thin n Hn ops init (length ops) (le_n _)) as (Ht & c & Hs).
  change (s_count init) with 0 in Ht.
  split; [exact Ht|]. rewrite Hs. split; [reflexivity|]. split; [reflexivity|].
  rewrite Ht. split; [| apply written_of_thin].
  apply added_of_thin.
  assert (Hl : forall k c0, length (samp_mask n c0 k) = k).
  { induction k as [|k IHk]; intros c0; [reflexivity|]. cbn [samp_mask length]. rewrite IHk. reflexivity. }
  rewrite Hl. apply cum_written_le.
Qed.

(* --- (e) random sampling, any percent, any coins --- *)
Lemma rand_mask_length : forall percent coins k,
  (needs_coin percent = true -> (k <= length coins)%nat) ->
  (k <= length (rand_mask percent coins k))%nat.
Proof.
  intros percent coins k H. unfold rand_mask, needs_coin in *.
  destruct (percent >? 100); [rewrite repeat_length; lia|].
  destruct (percent <=? 0); [rewrite repeat_length; lia|].
  rewrite map_length. apply H. reflexivity.
Qed.

Lemma rand_general : forall percent coins ops,
  (0 < percent <= 100 -> (length ops <= length coins)%nat) ->
  let r := run_rand percent coins ops in
  let rc := run KCumulative init ops in
  let mask := rand_mask percent coins (length ops) in
  fst r = fst rc /\
  snd r = thin mask (snd rc) /\
  added_of (snd r) = added_of (snd rc) /\
  written_of (snd r) = select mask (written_of (snd rc)).
Proof.
  intros percent coins ops Hlen. cbv zeta. unfold run_rand.
  assert (Hlen' : needs_coin percent = true -> (length ops <= length coins)%nat).
  { intros H. apply Hlen. apply needs_coin_iff. exact H. }
  pose proof (rand_thin percent ops coins init (length ops) (le_n _)) as Ht.
  split; [apply rand_state; exact Hlen'|]. split; [exact Ht|].
  rewrite Ht. split; [| apply written_of_thin].
  apply added_of_thin.
  pose proof (rand_mask_length percent coins (length ops) Hlen').
  pose proof (cum_written_le KCumulative init ops). lia.
Qed.

Lemma rand_written_totals : forall percent coins ops,
  (0 < percent <= 100 -> (length ops <= length coins)%nat) -> wf_history ops ->
  let tr := snd (run_rand percent coins ops) in
  written_of tr = select (rand_mask percent coins (length ops)) (expected_cumulative (added_of tr)).
Proof.
  intros percent coins ops Hlen Hwf. cbv zeta.
  destruct (rand_general percent coins ops Hlen) as (_ & _ & Ha & Hw). cbv zeta in Ha, Hw.
  rewrite Hw, Ha. destruct (cumulative_general ops Hwf) as [_ Hc]. cbv zeta in Hc. rewrite Hc. reflexivity.
Qed.

(* --- (c) more than 100 percent --- *)
Lemma rand_over_100 : forall percent coins ops, 100 < percent ->
  run_rand percent coins ops = run KCumulative init ops.
Proof.
  intros percent coins ops Hp.
  assert (Hlen : 0 < percent <= 100 -> (length ops <= length coins)%nat) by lia.
  destruct (rand_general percent coins ops Hlen) as (Hs & Ht & _). cbv zeta in Hs, Ht.
  rewrite (surjective_pairing (run_rand percent coins ops)), (surjective_pairing (run KCumulative init ops)).
  rewrite Hs, Ht. f_equal.
  unfold rand_mask. assert (E : percent >? 100 = true) by (apply Z.gtb_lt; lia). rewrite E.
  apply thin_all_true. apply cum_written_le.
Qed.

(* --- (d) zero percent or less --- *)
Lemma rand_nonpositive : forall percent coins ops, percent <= 0 ->
  let r := run_rand percent coins ops in
  let rc := run KCumulative init ops in
  written_of (snd r) = [] /\ fst r = fst rc /\ added_of (snd r) = added_of (snd rc).
Proof.
  intros percent coins ops Hp. cbv zeta.
  assert (Hlen : 0 < percent <= 100 -> (length ops <= length coins)%nat) by lia.
  destruct (rand_general percent coins ops Hlen) as (Hs & _ & Ha & Hw). cbv zeta in Hs, Ha, Hw.
  split; [| split; [exact Hs | exact Ha]].
  rewrite Hw. unfold rand_mask.
  assert (E1 : percent >? 100 = false) by (rewrite Z.gtb_ltb; apply Z.ltb_ge; lia).
  assert (E2 : percent <=? 0 = true) by (apply Z.leb_le; lia).
  rewrite E1, E2. apply select_all_false.
Qed.
