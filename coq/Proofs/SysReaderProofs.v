(* Proofs about the reader LTS of Model/SysReader.v (C05 and C06). *)
From Coq Require Import List Arith Bool Lia.
From FV.Model Require Import SysReader.
Import ListNotations.

Ltac break_step H :=
  repeat match type of H with
         | context [match ?x with _ => _ end] => destruct x eqn:?; try discriminate H
         end.
Ltac inv_some H := injection H as H; subst.

(* ------------------------------------------------------------------ generalities *)
Lemma run_app : forall c a b s, run c s (a ++ b) = match run c s a with Some s' => run c s' b | None => None end.
Proof. induction a as [|t a IH]; intros b s; simpl; [reflexivity|]. destruct (step c s t); auto. Qed.

Lemma wold_abc : forall c, c_abc c = true -> wold c = false.
Proof. intros c H. unfold wold. rewrite H. simpl. apply andb_false_r. Qed.

(* cancel flags only go up *)
Definition flags_le (s s' : state) : Prop :=
  (fP s = true -> fP s' = true) /\ (fI s = true -> fI s' = true) /\ (fC s = true -> fC s' = true).

Lemma step_flags : forall c s t s', step c s t = Some s' -> flags_le s s'.
Proof.
  intros c s t s' H. unfold flags_le, step in *.
  destruct t; break_step H; inv_some H; simpl; intuition.
Qed.

Lemma nocancel_back : forall c s t s', step c s t = Some s' -> nocancel s' -> nocancel s.
Proof.
  intros c s t s' H N. apply step_flags in H. unfold flags_le, nocancel in *.
  destruct H as (A & B & C). destruct N as (NP & NI & NC).
  repeat split.
  - destruct (fP s); auto. rewrite A in NP; auto.
  - destruct (fI s); auto. rewrite B in NI; auto.
  - destruct (fC s); auto. rewrite C in NC; auto.
Qed.

(* ------------------------------------------------------------------ C05 *)
Definition rc_loopb (p : rcpc) : bool := match p with RC_recv | RC_send _ => true | _ => false end.
Definition rd_readingb (p : rdpc) : bool := match p with RD_read | RD_send _ => true | _ => false end.
Definition w_beforeb (p : wpc) : bool :=
  match p with W_next | W_snext | W_dsend | W_sadd | W_msend => true | _ => false end.

(* ghost accounting: the error is already registered, or it is still on its way *)
Definition acctC (s : state) : Prop :=
  length (catC s) >= 1 \/ rc s = RC_add true \/
  (rc_loopb (rc s) = true /\
   ((rd_readingb (rd s) = true /\ In BadChunk (docs s)) \/ rd s = RD_send BadChunk \/
    (fin s = ReadError /\ rd_readingb (rd s) = true) \/ rd s = RD_add true)).
Definition acctW (s : state) : Prop :=
  length (catW s) >= 1 \/ w_beforeb (w s) = true \/ (w s = W_addc /\ length (catC s) >= 1).

Definition Inv5 (c : cfg) (s : state) : Prop :=
  (ipc_cl s = true -> rd s = RD_done) /\
  (pipe_cl s = true -> rc s = RC_done) /\
  (dq_cl s = true -> w s = W_done) /\
  (cn s = CN_end -> if layered c then dq_cl s = true else pipe_cl s = true) /\
  acctC s /\ (layered c = true -> acctW s).

Lemma Inv5_init : forall c i, has_failure i -> Inv5 c (init c i).
Proof.
  intros c i F. unfold Inv5, init, acctC, acctW; simpl.
  repeat split; try discriminate.
  - right; right. split; [reflexivity|]. destruct F as [F|F]; [left|right; right; left]; auto.
  - intros L. rewrite L. right; left; reflexivity.
Qed.

Lemma Inv5_step : forall c s t s',
  c_abc c = true -> Inv5 c s -> step c s t = Some s' -> nocancel s' -> Inv5 c s'.
Proof.
  intros c s t s' ABC I H N.
  pose proof (wold_abc c ABC) as WO.
  unfold Inv5, acctC, acctW in I. destruct I as (I1 & I2 & I3 & I4 & I5 & I6).
  unfold step, rd_fin, rc_fin, w_fin in H. rewrite ?ABC, ?WO in H.
  unfold nocancel in N. destruct N as (NP & NI & NC).
  destruct (layered c) eqn:L;
  destruct t; break_step H; inv_some H; unfold Inv5, acctC, acctW, done_C, done_I, some_if in *; simpl in *;
    rewrite ?NP, ?NI, ?NC, ?L in *; simpl in *; try discriminate;
    repeat match goal with
           | E : rd _ = _ |- _ => rewrite E in *
           | E : rc _ = _ |- _ => rewrite E in *
           | E : w _ = _ |- _ => rewrite E in *
           | E : docs _ = _ |- _ => rewrite E in *
           | E : fin _ = _ |- _ => rewrite E in *
           | E : catC _ = _ |- _ => rewrite E in *
           | e : bool |- _ => destruct e
           end; simpl in *;
    try solve [ intuition (subst; simpl in *; try congruence; try lia) ].
  all: match goal with I : true = true -> rc ?s = RC_done |- _ => rewrite (I eq_refl) in * end;
    simpl in *; intuition (try congruence; try lia).
Qed.

Lemma run_nocancel_back : forall c sched s s', run c s sched = Some s' -> nocancel s' -> nocancel s.
Proof.
  induction sched as [|t sched IH]; intros s s' R N; simpl in R.
  - inv_some R. exact N.
  - destruct (step c s t) as [s1|] eqn:E; [|discriminate].
    eapply nocancel_back; [exact E|]. eapply IH; eauto.
Qed.

Lemma Inv5_run : forall c sched s s',
  c_abc c = true -> Inv5 c s -> run c s sched = Some s' -> nocancel s' -> Inv5 c s'.
Proof.
  induction sched as [|t sched IH]; intros s s' ABC I R N; simpl in R.
  - inv_some R. exact I.
  - destruct (step c s t) as [s1|] eqn:E; [|discriminate].
    pose proof (run_nocancel_back _ _ _ _ R N) as N1.
    eapply IH; eauto. eapply Inv5_step; eauto.
Qed.

Lemma C05_error_visible_lemma : forall c i sched s,
  c_abc c = true ->
  run c (init c i) sched = Some s -> nocancel s -> consumer_saw_end s -> has_failure i ->
  errors_registered c s >= 1.
Proof.
  intros c i sched s ABC R N E F.
  pose proof (Inv5_run c sched _ _ ABC (Inv5_init c i F) R N) as (I1 & I2 & I3 & I4 & I5 & I6).
  unfold consumer_saw_end in E. specialize (I4 E). unfold errors_registered.
  destruct (layered c) eqn:L.
  - specialize (I3 I4). specialize (I6 eq_refl). unfold acctW in I6. rewrite I3 in I6. simpl in I6.
    intuition congruence.
  - specialize (I2 I4). unfold acctC in I5. rewrite I2 in I5. simpl in I5. intuition congruence.
Qed.

(* the catchers only grow, and every non-nil Add is retained (Add is an atomic step) *)
Lemma step_catcher_mono : forall c s t s', step c s t = Some s' ->
  length (catC s) <= length (catC s') /\ length (catW s) <= length (catW s').
Proof.
  intros c s t s' H. unfold step in H.
  destruct t; break_step H; inv_some H; unfold some_if; simpl; repeat match goal with e : bool |- _ => destruct e end;
    simpl; try rewrite Heql; simpl; lia.
Qed.

Lemma run_catcher_mono : forall c sched s s', run c s sched = Some s' ->
  length (catC s) <= length (catC s') /\ length (catW s) <= length (catW s').
Proof.
  induction sched as [|t sched IH]; intros s s' R; simpl in R.
  - inv_some R. lia.
  - destruct (step c s t) as [s1|] eqn:E; [|discriminate].
    apply step_catcher_mono in E. apply IH in R. lia.
Qed.

Lemma C05_err_stays_lemma : forall c s sched s',
  run c s sched = Some s' -> errors_registered c s <= errors_registered c s'.
Proof.
  intros c s sched s' R. apply run_catcher_mono in R. unfold errors_registered. destruct (layered c); lia.
Qed.

Lemma step_adds : forall c s t s', step c s t = Some s' ->
  length (catC s) = addsC s /\ length (catW s) = addsW s ->
  length (catC s') = addsC s' /\ length (catW s') = addsW s'.
Proof.
  intros c s t s' H [A B]. unfold step in H.
  destruct t; break_step H; inv_some H; unfold some_if; simpl; repeat match goal with e : bool |- _ => destruct e end;
    simpl; lia.
Qed.

Lemma C05_all_errors_kept_lemma : forall c i sched s,
  run c (init c i) sched = Some s ->
  length (catC s) = addsC s /\ length (catW s) = addsW s.
Proof.
  intros c i sched. generalize (init c i) (conj (eq_refl 0) (eq_refl 0) : length (catC (init c i)) = addsC (init c i) /\ length (catW (init c i)) = addsW (init c i)).
  induction sched as [|t sched IH]; intros s0 I0 s R; simpl in R.
  - inv_some R. exact I0.
  - destruct (step c s0 t) as [s1|] eqn:E; [|discriminate]. eapply IH; [|exact R]. eapply step_adds; eauto.
Qed.
