(* Proofs about the reader LTS of Model/SysReader.v (C05 and C06). *)
From Coq Require Import List Arith Bool Lia.
From FV.Model Require Import SysReader.
Import ListNotations.

Ltac break_step H :=
  repeat match type of H with
         | context [match ?x with _ => _ end] => destruct x eqn:?; try discriminate H
         end.
Ltac inv_some H := injection H as H; subst.

(* ------------------------------------------------------------------ generalities *)
Lemma run_app : forall c a b s, run c s (a ++ b) = match run c s a with Some s' => run c s' b | None => None end.
Proof. induction a as [|t a IH]; intros b s; simpl; [reflexivity|]. destruct (step c s t); auto. Qed.

Lemma wold_abc : forall c, c_abc c = true -> wold c = false.
Proof. intros c H. unfold wold. rewrite H. simpl. apply andb_false_r. Qed.

(* cancel flags only go up *)
Definition flags_le (s s' : state) : Prop :=
  (fP s = true -> fP s' = true) /\ (fI s = true -> fI s' = true) /\ (fC s = true -> fC s' = true).

Lemma step_flags : forall c s t s', step c s t = Some s' -> flags_le s s'.
Proof.
  intros c s t s' H. unfold flags_le, step in *.
  destruct t; break_step H; inv_some H; simpl; intuition.
Qed.

Lemma nocancel_back : forall c s t s', step c s t = Some s' -> nocancel s' -> nocancel s.
Proof.
  intros c s t s' H N. apply step_flags in H. unfold flags_le, nocancel in *.
  destruct H as (A & B & C). destruct N as (NP & NI & NC).
  repeat split.
  - destruct (fP s); auto. rewrite A in NP; auto.
  - destruct (fI s); auto. rewrite B in NI; auto.
  - destruct (fC s); auto. rewrite C in NC; auto.
Qed.

(* ------------------------------------------------------------------ C05 *)
Definition rc_loopb (p : rcpc) : bool := match p with RC_recv | RC_send _ => true | _ => false end.
Definition rd_readingb (p : rdpc) : bool := match p with RD_read | RD_send _ => true | _ => false end.
Definition w_beforeb (p : wpc) : bool :=
  match p with W_next | W_snext | W_dsend | W_sadd | W_msend => true | _ => false end.

(* ghost accounting: the error is already registered, or it is still on its way *)
Definition acctC (s : state) : Prop :=
  length (catC s) >= 1 \/ rc s = RC_add true \/
  (rc_loopb (rc s) = true /\
   ((rd_readingb (rd s) = true /\ In BadChunk (docs s)) \/ rd s = RD_send BadChunk \/
    (fin s = ReadError /\ rd_readingb (rd s) = true) \/ rd s = RD_add true)).
Definition acctW (s : state) : Prop :=
  length (catW s) >= 1 \/ w_beforeb (w s) = true \/ (w s = W_addc /\ length (catC s) >= 1).

Definition Inv5 (c : cfg) (s : state) : Prop :=
  (ipc_cl s = true -> rd s = RD_done) /\
  (pipe_cl s = true -> rc s = RC_done) /\
  (dq_cl s = true -> w s = W_done) /\
  (cn s = CN_end -> if layered c then dq_cl s = true else pipe_cl s = true) /\
  acctC s /\ (layered c = true -> acctW s).

Lemma Inv5_init : forall c i, has_failure i -> Inv5 c (init c i).
Proof.
  intros c i F. unfold Inv5, init, acctC, acctW; simpl.
  repeat split; try discriminate.
  - right; right. split; [reflexivity|]. destruct F as [F|F]; [left|right; right; left]; auto.
  - intros L. rewrite L. right; left; reflexivity.
Qed.

Lemma Inv5_step : forall c s t s',
  c_abc c = true -> Inv5 c s -> step c s t = Some s' -> nocancel s' -> Inv5 c s'.
Proof.
  intros c s t s' ABC I H N.
  pose proof (wold_abc c ABC) as WO.
  unfold Inv5, acctC, acctW in I. destruct I as (I1 & I2 & I3 & I4 & I5 & I6).
  unfold step, rd_fin, rc_fin, w_fin in H. rewrite ?ABC, ?WO in H.
  unfold nocancel in N. destruct N as (NP & NI & NC).
  destruct (layered c) eqn:L;
  destruct t; break_step H; inv_some H; unfold Inv5, acctC, acctW, done_C, done_I, some_if in *; simpl in *;
    rewrite ?NP, ?NI, ?NC, ?L in *; simpl in *; try discriminate;
    repeat match goal with
           | E : rd _ = _ |- _ => rewrite E in *
           | E : rc _ = _ |- _ => rewrite E in *
           | E : w _ = _ |- _ => rewrite E in *
           | E : docs _ = _ |- _ => rewrite E in *
           | E : fin _ = _ |- _ => rewrite E in *
           | E : catC _ = _ |- _ => rewrite E in *
           | e : bool |- _ => destruct e
           end; simpl in *;
    try solve [ intuition (subst; simpl in *; try congruence; try lia) ].
  all: match goal with I : true = true -> rc ?s = RC_done |- _ => rewrite (I eq_refl) in * end;
    simpl in *; intuition (try congruence; try lia).
Qed.

Lemma run_nocancel_back : forall c sched s s', run c s sched = Some s' -> nocancel s' -> nocancel s.
Proof.
  induction sched as [|t sched IH]; intros s s' R N; simpl in R.
  - inv_some R. exact N.
  - destruct (step c s t) as [s1|] eqn:E; [|discriminate].
    eapply nocancel_back; [exact E|]. eapply IH; eauto.
Qed.

Lemma Inv5_run : forall c sched s s',
  c_abc c = true -> Inv5 c s -> run c s sched = Some s' -> nocancel s' -> Inv5 c s'.
Proof.
  induction sched as [|t sched IH]; intros s s' ABC I R N; simpl in R.
  - inv_some R. exact I.
  - destruct (step c s t) as [s1|] eqn:E; [|discriminate].
    pose proof (run_nocancel_back _ _ _ _ R N) as N1.
    apply (IH s1 s' ABC); auto. apply (Inv5_step c s t s1); auto.
Qed.

Lemma C05_error_visible_lemma : forall c i sched s,
  c_abc c = true ->
  run c (init c i) sched = Some s -> nocancel s -> consumer_saw_end s -> has_failure i ->
  errors_registered c s >= 1.
Proof.
  intros c i sched s ABC R N E F.
  pose proof (Inv5_run c sched _ _ ABC (Inv5_init c i F) R N) as (I1 & I2 & I3 & I4 & I5 & I6).
  unfold consumer_saw_end in E. specialize (I4 E). unfold errors_registered.
  destruct (layered c) eqn:L.
  - specialize (I3 I4). specialize (I6 eq_refl). unfold acctW in I6. rewrite I3 in I6. simpl in I6.
    intuition congruence.
  - specialize (I2 I4). unfold acctC in I5. rewrite I2 in I5. simpl in I5. intuition congruence.
Qed.

(* the catchers only grow, and every non-nil Add is retained (Add is an atomic step) *)
Lemma step_catcher_mono : forall c s t s', step c s t = Some s' ->
  length (catC s) <= length (catC s') /\ length (catW s) <= length (catW s').
Proof.
  intros c s t s' H. unfold step in H.
  destruct t; break_step H; inv_some H; unfold some_if; simpl; repeat match goal with e : bool |- _ => destruct e end;
    simpl; repeat match goal with E : catC _ = _ |- _ => rewrite E in * end; simpl in *; lia.
Qed.

Lemma run_catcher_mono : forall c sched s s', run c s sched = Some s' ->
  length (catC s) <= length (catC s') /\ length (catW s) <= length (catW s').
Proof.
  induction sched as [|t sched IH]; intros s s' R; simpl in R.
  - inv_some R. lia.
  - destruct (step c s t) as [s1|] eqn:E; [|discriminate].
    apply step_catcher_mono in E. apply IH in R. lia.
Qed.

Lemma C05_err_stays_lemma : forall c s sched s',
  run c s sched = Some s' -> errors_registered c s <= errors_registered c s'.
Proof.
  intros c s sched s' R. apply run_catcher_mono in R. unfold errors_registered. destruct (layered c); lia.
Qed.

Lemma step_adds : forall c s t s', step c s t = Some s' ->
  length (catC s) = addsC s /\ length (catW s) = addsW s ->
  length (catC s') = addsC s' /\ length (catW s') = addsW s'.
Proof.
  intros c s t s' H [A B]. unfold step in H.
  destruct t; break_step H; inv_some H; unfold some_if; simpl; repeat match goal with e : bool |- _ => destruct e end;
    simpl; repeat match goal with E : catC _ = _ |- _ => rewrite E in * end; simpl in *; lia.
Qed.

Lemma C05_all_errors_kept_lemma : forall c i sched s,
  run c (init c i) sched = Some s ->
  length (catC s) = addsC s /\ length (catW s) = addsW s.
Proof.
  intros c i sched. generalize (init c i) (conj (eq_refl 0) (eq_refl 0) : length (catC (init c i)) = addsC (init c i) /\ length (catW (init c i)) = addsW (init c i)).
  induction sched as [|t sched IH]; intros s0 I0 s R; simpl in R.
  - inv_some R. exact I0.
  - destruct (step c s0 t) as [s1|] eqn:E; [|discriminate]. eapply IH; [|exact R]. eapply step_adds; eauto.
Qed.

(* ------------------------------------------------------------------ C06 *)
Definition Inv6 (c : cfg) (s : state) : Prop :=
  (rd s = RD_done -> ipc_cl s = true) /\
  (rc s = RC_done -> pipe_cl s = true) /\
  (w s = W_done -> layered c = true -> dq_cl s = true) /\
  (out_cl s = false -> sp s <> S_none) /\
  (layered c = false -> w s = W_done /\ sp s = S_none) /\
  length (pipe s) <= c_pcap c /\ dq s <= c_dcap c.

Lemma Inv6_init : forall c i, Inv6 c (init c i).
Proof.
  intros c i. unfold Inv6, init; simpl. destruct (layered c); repeat split; try discriminate; auto; lia.
Qed.

Lemma Inv6_step : forall c s t s', c_abc c = true -> Inv6 c s -> step c s t = Some s' -> Inv6 c s'.
Proof.
  intros c s t s' ABC I H.
  pose proof (wold_abc c ABC) as WO.
  destruct I as (I1 & I2 & I3 & I4 & I5 & I6 & I7).
  unfold step, rd_fin, rc_fin, w_fin in H. rewrite ?ABC, ?WO in H.
  destruct (layered c) eqn:L;
  destruct t; break_step H; inv_some H; unfold Inv6; simpl in *; rewrite ?L in *;
    repeat match goal with
           | E : rd _ = _ |- _ => rewrite E in *
           | E : rc _ = _ |- _ => rewrite E in *
           | E : w _ = _ |- _ => rewrite E in *
           | E : sp _ = _ |- _ => rewrite E in *
           | E : pipe _ = _ |- _ => rewrite E in *
           | E : dq _ = _ |- _ => rewrite E in *
           | E : (_ <? _) = true |- _ => apply Nat.ltb_lt in E
           end; simpl in *; rewrite ?app_length; simpl;
    try solve [ intuition (try congruence; try lia) ].
Qed.

Lemma Inv6_run : forall c sched s s', c_abc c = true -> Inv6 c s -> run c s sched = Some s' -> Inv6 c s'.
Proof.
  induction sched as [|t sched IH]; intros s s' ABC I R; simpl in R.
  - inv_some R. exact I.
  - destruct (step c s t) as [s1|] eqn:E; [|discriminate].
    apply (IH s1 s' ABC); auto. apply (Inv6_step c s t s1); auto.
Qed.

Lemma Inv6_reachable : forall c s, c_abc c = true -> reachable c s -> Inv6 c s.
Proof. intros c s ABC (i & sched & R). eapply Inv6_run; eauto. apply Inv6_init. Qed.

Definition enabled (c : cfg) (s : state) (t : tid) : Prop := step c s t <> None.

Lemma no_deadlock_inv : forall c s,
  c_abc c = true -> Inv6 c s -> cancelled c s -> ~ all_done s ->
  exists g, goroutine g = true /\ step c s g <> None.
Proof.
  intros c s ABC I (DC & DI) ND.
  pose proof (wold_abc c ABC) as WO.
  destruct I as (I1 & I2 & I3 & I4 & I5 & I6 & I7).
  unfold all_done, all_doneb in ND.
  assert (DS : layered c = true -> done_S s = true).
  { intros L. specialize (DI L). unfold done_S, done_I in *. destruct (fS s), (fI s), (fP s); simpl in *; auto. }
  (* RC first: everything downstream waits for it *)
  destruct (rc s) eqn:RC.
  - (* RC_recv *)
    destruct (rd s) eqn:RD.
    + exists T_RD. split; [reflexivity|]. unfold step. rewrite RD. destruct (docs s); discriminate.
    + exists T_RC. split; [reflexivity|]. unfold step. rewrite RC, RD. discriminate.
    + exists T_RD. split; [reflexivity|]. unfold step. rewrite RD. discriminate.
    + exists T_RD. split; [reflexivity|]. unfold step. rewrite RD. discriminate.
    + exists T_RC. split; [reflexivity|]. unfold step. rewrite RC, RD, (I1 eq_refl). discriminate.
  - exists T_RCc. split; [reflexivity|]. unfold step. rewrite RC, DC. discriminate.
  - exists T_RC. split; [reflexivity|]. unfold step. rewrite RC. discriminate.
  - exists T_RC. split; [reflexivity|]. unfold step. rewrite RC. discriminate.
  - (* RC_done *)
    specialize (I2 eq_refl).
    destruct (rd s) eqn:RD.
    + exists T_RD. split; [reflexivity|]. unfold step. rewrite RD. destruct (docs s); discriminate.
    + exists T_RDc. split; [reflexivity|]. unfold step. rewrite RD, DC. discriminate.
    + exists T_RD. split; [reflexivity|]. unfold step. rewrite RD. discriminate.
    + exists T_RD. split; [reflexivity|]. unfold step. rewrite RD. discriminate.
    + (* RD_done: the worker side *)
      destruct (layered c) eqn:L.
      2:{ destruct (I5 eq_refl) as [WD SN]. rewrite WD, SN in ND. exfalso; apply ND; reflexivity. }
      specialize (DI eq_refl). specialize (DS eq_refl).
      destruct (w s) eqn:W.
      * exists T_W. split; [reflexivity|]. unfold step. rewrite W, I2.
        destruct (pipe s); [discriminate|]. destruct (is_matrix c); discriminate.
      * (* W_snext *)
        destruct (oq s) eqn:OQ.
        -- destruct (out_cl s) eqn:OC.
           ++ exists T_W. split; [reflexivity|]. unfold step. rewrite W, OQ, OC. discriminate.
           ++ specialize (I4 eq_refl). destruct (sp s) as [|k] eqn:SP; [congruence|].
              destruct k.
              ** exists T_S. split; [reflexivity|]. unfold step. rewrite SP. discriminate.
              ** exists T_Sc. split; [reflexivity|]. unfold step. rewrite SP, DS. discriminate.
        -- exists T_W. split; [reflexivity|]. unfold step. rewrite W, OQ. discriminate.
      * exists T_Wc. split; [reflexivity|]. unfold step. rewrite W, DI. discriminate.
      * exists T_W. split; [reflexivity|]. unfold step. rewrite W. discriminate.
      * exists T_Wc. split; [reflexivity|]. unfold step. rewrite W, DI. discriminate.
      * exists T_W. split; [reflexivity|]. unfold step. rewrite W. discriminate.
      * exists T_W. split; [reflexivity|]. unfold step. rewrite W. discriminate.
      * exists T_W. split; [reflexivity|]. unfold step. rewrite W. discriminate.
      * (* W_done: only the streamer can be left *)
        destruct (sp s) as [|k] eqn:SP; [exfalso; apply ND; reflexivity|].
        destruct k.
        -- exists T_S. split; [reflexivity|]. unfold step. rewrite SP. discriminate.
        -- exists T_Sc. split; [reflexivity|]. unfold step. rewrite SP, DS. discriminate.
Qed.

(* ---- bounded work *)
Lemma sumw_app : forall A (f : A -> nat) a b, sumw f (a ++ b) = sumw f a + sumw f b.
Proof. induction a; simpl; intros; auto. rewrite IHa. lia. Qed.

Definition cost (t : tid) : nat := if goroutine t then 1 else 0.

Lemma step_measure : forall c s t s', step c s t = Some s' -> cost t + measure c s' <= measure c s.
Proof.
  intros c s t s' H. unfold step, rd_fin, rc_fin, w_fin, wold in H.
  destruct (c_abc c) eqn:ABC; destruct (is_matrix c) eqn:M;
  destruct t; break_step H; inv_some H; unfold measure, cost, rank_rd, rank_rc, rank_w, rank_s, wold, dw, hw, pw;
    simpl; rewrite ?ABC, ?M; simpl;
    repeat match goal with
           | E : rd _ = _ |- _ => rewrite E
           | E : rc _ = _ |- _ => rewrite E
           | E : w _ = _ |- _ => rewrite E
           | E : sp _ = _ |- _ => rewrite E
           | E : pipe _ = _ |- _ => rewrite E
           | E : docs _ = _ |- _ => rewrite E
           | E : oq _ = _ |- _ => rewrite E
           end; simpl; rewrite ?sumw_app; unfold hw, pw; simpl; try lia.
Qed.

Lemma run_measure : forall c sched s s', run c s sched = Some s' ->
  length (filter goroutine sched) + measure c s' <= measure c s.
Proof.
  induction sched as [|t sched IH]; intros s s' R; simpl in R.
  - inv_some R. simpl. lia.
  - destruct (step c s t) as [s1|] eqn:E; [|discriminate].
    apply step_measure in E. apply IH in R. unfold cost in E. simpl. destruct (goroutine t); simpl; lia.
Qed.

Lemma run_flags : forall c sched s s', run c s sched = Some s' -> flags_le s s'.
Proof.
  induction sched as [|t sched IH]; intros s s' R; simpl in R.
  - inv_some R. unfold flags_le; auto.
  - destruct (step c s t) as [s1|] eqn:E; [|discriminate].
    apply step_flags in E. apply IH in R. unfold flags_le in *. intuition.
Qed.

Lemma cancelled_run : forall c sched s s', run c s sched = Some s' -> cancelled c s -> cancelled c s'.
Proof.
  intros c sched s s' R (DC & DI). apply run_flags in R. destruct R as (A & B & C).
  unfold cancelled, done_C, done_I in *.
  split.
  - destruct (fC s); [rewrite C; auto|]. destruct (fI s); [rewrite B; auto; destruct (fC s'); auto|].
    simpl in DC. rewrite A; auto. destruct (fC s'), (fI s'); auto.
  - intros L. specialize (DI L). destruct (fI s); [rewrite B; auto|]. simpl in DI. rewrite A; auto.
    destruct (fI s'); auto.
Qed.

Lemma quiescent_is_done : forall c s sched s',
  c_abc c = true -> reachable c s -> cancelled c s -> run c s sched = Some s' ->
  (forall g, goroutine g = true -> step c s' g = None) -> all_done s'.
Proof.
  intros c s sched s' ABC RE CA R Q.
  assert (I : Inv6 c s') by (eapply Inv6_run; eauto; apply Inv6_reachable; auto).
  pose proof (cancelled_run _ _ _ _ R CA) as CA'.
  destruct (all_doneb s') eqn:D; [exact D|].
  destruct (no_deadlock_inv c s' ABC I CA') as (g & G & E).
  - unfold all_done. rewrite D. discriminate.
  - rewrite (Q g G) in E. congruence.
Qed.

(* ---- Next after the goroutines are gone *)
Lemma all_done_step : forall c s t s', all_done s -> step c s t = Some s' ->
  all_done s' /\ got s' + buffered c s' = got s + buffered c s.
Proof.
  intros c s t s' D H. unfold all_done, all_doneb in D.
  destruct (rd s) eqn:RD; try discriminate. destruct (rc s) eqn:RC; try discriminate.
  destruct (w s) eqn:W; try discriminate. destruct (sp s) eqn:SP; try discriminate.
  unfold step in H. rewrite ?RD, ?RC, ?W, ?SP in H.
  destruct t; try discriminate; break_step H; inv_some H; unfold all_done, all_doneb, buffered; simpl;
    rewrite ?RD, ?RC, ?W, ?SP; simpl;
    repeat match goal with
           | E : pipe _ = _ |- _ => rewrite E
           | E : dq _ = _ |- _ => rewrite E
           | E : layered _ = _ |- _ => rewrite E
           end; simpl; try (split; [reflexivity|lia]);
    destruct (layered c); simpl; split; auto; lia.
Qed.

Lemma next_after_done : forall c sched s s', all_done s -> run c s sched = Some s' ->
  all_done s' /\ got s' + buffered c s' = got s + buffered c s.
Proof.
  induction sched as [|t sched IH]; intros s s' D R; simpl in R.
  - inv_some R. auto.
  - destruct (step c s t) as [s1|] eqn:E; [|discriminate].
    destruct (all_done_step _ _ _ _ D E) as [D1 Q1]. destruct (IH _ _ D1 R) as [D2 Q2]. split; auto; lia.
Qed.

Lemma buffered_le_cap : forall c s, Inv6 c s -> buffered c s <= cap c.
Proof. intros c s (_ & _ & _ & _ & _ & P & Q). unfold buffered, cap. destruct (layered c); lia. Qed.

Lemma next_never_blocks : forall c s, Inv6 c s -> all_done s -> cn s = CN_run -> step c s T_CN <> None.
Proof.
  intros c s (I1 & I2 & I3 & _) D N. unfold all_done, all_doneb in D.
  destruct (rd s) eqn:RD; try discriminate. destruct (rc s) eqn:RC; try discriminate.
  destruct (w s) eqn:W; try discriminate.
  unfold step. rewrite N. destruct (layered c) eqn:L.
  - destruct (dq s); [|discriminate]. rewrite (I3 eq_refl eq_refl). discriminate.
  - destruct (pipe s); [|discriminate]. rewrite (I2 eq_refl). discriminate.
Qed.

Lemma close_idem : forall c s s1 t, (t = T_Close \/ t = T_Cancel) -> step c s t = Some s1 -> step c s1 t = Some s1.
Proof.
  intros c s s1 t [T|T] H; subst t; unfold step in *.
  - destruct (c_kind c); inv_some H; unfold set_flags; simpl; try reflexivity.
    destruct (c_mclose c); reflexivity.
  - inv_some H. reflexivity.
Qed.

(* ------------------------------------------------------------------ what the two repairs fixed (witnesses) *)
Definition cfg_old_order (k : kind) : cfg :=
  {| c_kind := k; c_pcap := 2; c_dcap := match k with KMatrix => 25 | _ => 100 end; c_scap := 100;
     c_abc := false; c_mclose := true |}.
Definition in_readerr : input := {| i_docs := []; i_fin := ReadError |}.
Definition sched_lost_chunk : list tid := [T_RD; T_RD; T_RC; T_RC; T_CN].
Definition sched_lost_matrix : list tid := [T_RD; T_RD; T_RC; T_RC; T_W; T_W; T_CN].

Lemma order_matters_chunk :
  exists s, run (cfg_old_order KChunk) (init (cfg_old_order KChunk) in_readerr) sched_lost_chunk = Some s /\
            nocancel s /\ consumer_saw_end s /\ has_failure in_readerr /\
            errors_registered (cfg_old_order KChunk) s = 0.
Proof. eexists. split; [vm_compute; reflexivity|]. unfold nocancel, consumer_saw_end, has_failure; simpl. auto 10. Qed.

Lemma order_matters_matrix :
  exists s, run (cfg_old_order KMatrix) (init (cfg_old_order KMatrix) in_readerr) sched_lost_matrix = Some s /\
            nocancel s /\ consumer_saw_end s /\ has_failure in_readerr /\
            errors_registered (cfg_old_order KMatrix) s = 0.
Proof. eexists. split; [vm_compute; reflexivity|]. unfold nocancel, consumer_saw_end, has_failure; simpl. auto 10. Qed.

Definition cfg_old_matrix_close : cfg :=
  {| c_kind := KMatrix; c_pcap := 2; c_dcap := 25; c_scap := 100; c_abc := true; c_mclose := false |}.
Definition in_26_chunks : input := {| i_docs := repeat (GoodChunk 0) 26; i_fin := CleanEOF |}.
Definition sched_matrix_stuck : list tid :=
  concat (repeat [T_RD; T_RC; T_RC; T_W; T_W] 25) ++ [T_RD; T_RC; T_RC; T_W] ++ [T_Close] ++
  [T_RD; T_RD; T_RD; T_RC; T_RC; T_RC].

Lemma matrix_old_stuck :
  exists s, run cfg_old_matrix_close (init cfg_old_matrix_close in_26_chunks) sched_matrix_stuck = Some s /\
            closed s = true /\ done_C s = true /\ w s = W_msend /\ dq s = c_dcap cfg_old_matrix_close /\
            ~ all_done s /\
            forall g, goroutine g = true -> step cfg_old_matrix_close s g = None.
Proof.
  eexists. split; [vm_compute; reflexivity|].
  repeat split; try (intro; discriminate).
  intros g G. destruct g; try discriminate G; vm_compute; reflexivity.
Qed.

Lemma close_cancels_lemma : forall (c : cfg) (s s1 : state) (sched : list tid) (s' : state),
  c_mclose c = true ->
  (step c s T_Close = Some s1 \/ step c s T_Cancel = Some s1) ->
  run c s1 sched = Some s' -> cancelled c s'.
Proof.
  intros c s s1 sched s' MC H R. eapply cancelled_run; [exact R|].
  unfold cancelled, done_C, done_I, layered. unfold step in H. rewrite MC in H.
  destruct H as [H|H].
  - destruct (c_kind c); inv_some H; simpl; split; auto; discriminate.
  - inv_some H. simpl. split; intros; destruct (fC s), (fI s); auto.
Qed.

(* ------------------------------------------------------------------ the goroutine automata are abstractions of step *)
Fixpoint afinal (r : role) (q : nat) (tr : list label) : option nat :=
  match tr with [] => Some q | l :: rest => match delta r q l with Some q' => afinal r q' rest | None => None end end.

Lemma accepts_afinal : forall r tr q, accepts_from r q tr = match afinal r q tr with Some _ => true | None => false end.
Proof. induction tr; intros q; simpl; auto. destruct (delta r q a); auto. Qed.

(* which automaton states a program counter corresponds to *)
Definition okq (c : cfg) (r : role) (s : state) (q : nat) : Prop :=
  match r with
  | R_RD => match rd s with
            | RD_read => q = 0 \/ q = 1 | RD_send _ => q = 1 | RD_add _ => q = 2 | _ => q = 4 end
  | R_RC => match rc s with
            | RC_recv => q = 0 \/ q = 1 \/ q = 2 | RC_send _ => q = 2
            | RC_add _ => q = 0 \/ q = 1 \/ q = 2 \/ q = 3 | _ => q = 5 end
  | R_CW => is_matrix c = false /\
            match w s with
            | W_next => q = 0 | W_snext | W_sadd => q = 1 \/ q = 2 | W_dsend => q = 2 | W_abort => q = 3
            | W_addc => q = 4 | W_msend => False | _ => q = 5 end
  | R_MW => is_matrix c = true /\
            match w s with
            | W_next => q = 0 \/ q = 2 | W_msend => q = 2 | W_abort => q = 3
            | W_addc => q = 0 \/ q = 2 \/ q = 4 | W_close | W_done => q = 5 | _ => False end
  | R_SS => True
  end.

Lemma local_step : forall c r s t s' q,
  c_abc c = true -> r <> R_SS -> okq c r s q -> step c s t = Some s' ->
  exists q', afinal r q (match owner c t with Some r' => if role_eqb r r' then emits c s t else [] | None => [] end) = Some q'
             /\ okq c r s' q'.
Proof.
  intros c r s t s' q ABC NS OK H.
  pose proof (wold_abc c ABC) as WO.
  unfold step, rd_fin, rc_fin, w_fin in H. rewrite ?ABC, ?WO in H.
  destruct r; try congruence; unfold okq in *;
  destruct (is_matrix c) eqn:M;
  destruct t; break_step H; inv_some H; simpl in *; rewrite ?M in *; simpl in *;
    repeat match goal with
           | E : rd _ = _ |- _ => rewrite E in *
           | E : rc _ = _ |- _ => rewrite E in *
           | E : w _ = _ |- _ => rewrite E in *
           | E : docs _ = _ |- _ => rewrite E in *
           | E : pipe _ = _ |- _ => rewrite E in *
           | E : oq _ = _ |- _ => rewrite E in *
           end; simpl in *;
    try solve [ eexists; split; [reflexivity|]; intuition ];
    try solve [ intuition; subst; simpl; eexists; split; try reflexivity; intuition ].
  all: try solve [ exfalso; destruct OK as [OKm _]; discriminate OKm ].
Qed.

Lemma afinal_app : forall r a b q, afinal r q (a ++ b) = match afinal r q a with Some q' => afinal r q' b | None => None end.
Proof. induction a; intros b q; simpl; auto. destruct (delta r q a); auto. Qed.

Lemma local_run : forall c r sched s s' q,
  c_abc c = true -> r <> R_SS -> okq c r s q -> run c s sched = Some s' ->
  exists q', afinal r q (ltrace c r s sched) = Some q' /\ okq c r s' q'.
Proof.
  induction sched as [|t sched IH]; intros s s' q ABC NS OK R; simpl in *.
  - inv_some R. eauto.
  - destruct (step c s t) as [s1|] eqn:E; [|discriminate].
    destruct (local_step c r s t s1 q ABC NS OK E) as (q1 & A1 & OK1).
    destruct (IH s1 s' q1 ABC NS OK1 R) as (q2 & A2 & OK2).
    exists q2. split; auto. rewrite afinal_app, A1. exact A2.
Qed.

Lemma okq_init : forall c r i, r <> R_SS ->
  (r = R_CW -> is_matrix c = false /\ layered c = true) -> (r = R_MW -> is_matrix c = true) ->
  okq c r (init c i) 0.
Proof.
  intros c r i NS HC HM. destruct r; try congruence; unfold okq, init; simpl; auto.
  - destruct (HC eq_refl) as [A B]. rewrite B. auto.
  - pose proof (HM eq_refl) as A. unfold layered, is_matrix in *. destruct (c_kind c); try discriminate. auto.
Qed.

Lemma local_traces_accepted : forall c r i sched s',
  c_abc c = true ->
  (r = R_RD \/ r = R_RC \/ (r = R_CW /\ c_kind c = KDoc) \/ (r = R_MW /\ c_kind c = KMatrix)) ->
  run c (init c i) sched = Some s' ->
  accepts_local r (ltrace c r (init c i) sched) = true.
Proof.
  intros c r i sched s' ABC HR R.
  assert (NS : r <> R_SS) by (intuition; subst; discriminate).
  assert (OK : okq c r (init c i) 0).
  { apply okq_init; auto; intros E; subst r; unfold is_matrix, layered;
      destruct HR as [H|[H|[[H K]|[H K]]]]; try discriminate; rewrite K; auto. }
  destruct (local_run c r sched _ _ 0 ABC NS OK R) as (q' & A & _).
  unfold accepts_local. rewrite accepts_afinal, A. reflexivity.
Qed.
