(* Proofs about quantiles, merges, windows and snapshots of the HDR histogram
   model (Model/Hdr.v), used by Props/C13.v.  Builds on Proofs/HdrProofs.v. *)
From Coq Require Import ZArith List Bool Lia ZifyBool FinFun.
From Coq Require Import Sorting.Permutation Sorting.Sorted Sorting.Mergesort Orders.
From FV.Model Require Import Hdr.
From FV.Proofs Require Import HdrProofs.
Import ListNotations.
Open Scope Z_scope.

(* ------------------------------------------------------------------ *)
(* sums                                                                *)
(* ------------------------------------------------------------------ *)

Lemma zsum_nil : zsum [] = 0.
Proof. reflexivity. Qed.

Lemma zsum_map_ext_in {A} (f g : A -> Z) l :
  (forall x, In x l -> f x = g x) -> zsum (map f l) = zsum (map g l).
Proof.
  induction l as [|a l IH]; intros H; cbn [map].
  - reflexivity.
  - rewrite !zsum_cons, IH.
    + rewrite (H a (or_introl eq_refl)). reflexivity.
    + intros x Hx. apply H. right. exact Hx.
Qed.

Lemma zsum_map_add {A} (f g : A -> Z) l :
  zsum (map (fun x => f x + g x) l) = zsum (map f l) + zsum (map g l).
Proof.
  induction l as [|a l IH]; cbn [map].
  - reflexivity.
  - rewrite !zsum_cons, IH. lia.
Qed.

Lemma zsum_map_le {A} (f g : A -> Z) l :
  (forall x, In x l -> f x <= g x) -> zsum (map f l) <= zsum (map g l).
Proof.
  induction l as [|a l IH]; intros H; cbn [map].
  - reflexivity.
  - rewrite !zsum_cons.
    pose proof (H a (or_introl eq_refl)).
    assert (zsum (map f l) <= zsum (map g l)).
    { apply IH. intros x Hx. apply H. right. exact Hx. }
    lia.
Qed.

Lemma zsum_map_nonneg_in {A} (f : A -> Z) l :
  (forall x, In x l -> 0 <= f x) -> 0 <= zsum (map f l).
Proof.
  induction l as [|a l IH]; intros H; cbn [map].
  - rewrite zsum_nil. lia.
  - rewrite zsum_cons.
    pose proof (H a (or_introl eq_refl)).
    assert (0 <= zsum (map f l)).
    { apply IH. intros x Hx. apply H. right. exact Hx. }
    lia.
Qed.

Lemma zsum_map_all_zero {A} (f : A -> Z) l :
  (forall x, In x l -> 0 <= f x) -> zsum (map f l) <= 0 ->
  forall x, In x l -> f x = 0.
Proof.
  induction l as [|a l IH]; intros Hnn Hs x Hx.
  - destruct Hx.
  - cbn [map] in Hs. rewrite zsum_cons in Hs.
    pose proof (Hnn a (or_introl eq_refl)) as Ha.
    assert (Hl : 0 <= zsum (map f l)).
    { apply zsum_map_nonneg_in. intros y Hy. apply Hnn. right. exact Hy. }
    destruct Hx as [<-|Hx]; [lia|].
    apply IH; [|lia|exact Hx].
    intros y Hy. apply Hnn. right. exact Hy.
Qed.

Lemma zsum_map_zero_in {A} (f : A -> Z) l :
  (forall x, In x l -> f x = 0) -> zsum (map f l) = 0.
Proof.
  intros H. rewrite (zsum_map_ext_in f (fun _ => 0) l H).
  apply zsum_map_zero. reflexivity.
Qed.

Lemma zsum_perm l l' : Permutation l l' -> zsum l = zsum l'.
Proof.
  induction 1 as [|x l l' _ IH|x y l|l l' l'' _ IH1 _ IH2].
  - reflexivity.
  - rewrite !zsum_cons, IH. reflexivity.
  - rewrite !zsum_cons. lia.
  - congruence.
Qed.

Lemma zsum_rev l : zsum (rev l) = zsum l.
Proof. symmetry. apply zsum_perm. apply Permutation_rev. Qed.

(* picking the unique element with a given key *)
Lemma zsum_pick_notin {A} (f g : A -> Z) l i :
  ~ In i (map f l) -> zsum (map (fun y => if f y =? i then g y else 0) l) = 0.
Proof.
  intros H. apply zsum_map_zero_in. intros x Hx.
  destruct (f x =? i) eqn:E; [|reflexivity].
  exfalso. apply H. apply Z.eqb_eq in E. rewrite <- E. apply in_map. exact Hx.
Qed.

Lemma zsum_pick_in {A} (f g : A -> Z) l x :
  NoDup (map f l) -> In x l ->
  zsum (map (fun y => if f y =? f x then g y else 0) l) = g x.
Proof.
  induction l as [|a l IH]; intros ND Hx.
  - destruct Hx.
  - cbn [map] in ND. inversion ND as [|a' l' Hnotin ND']; subst.
    cbn [map]. rewrite zsum_cons. destruct Hx as [->|Hx].
    + rewrite Z.eqb_refl. rewrite zsum_pick_notin by exact Hnotin. lia.
    + rewrite IH by assumption.
      destruct (f a =? f x) eqn:E; [|lia].
      exfalso. apply Hnotin. apply Z.eqb_eq in E. rewrite E. apply in_map. exact Hx.
Qed.

Lemma NoDup_map_key_inj {A} (f : A -> Z) l x y :
  NoDup (map f l) -> In x l -> In y l -> f x = f y -> x = y.
Proof.
  induction l as [|a l IH]; intros ND Hx Hy E.
  - destruct Hx.
  - cbn [map] in ND. inversion ND as [|a' l' Hnotin ND']; subst.
    destruct Hx as [->|Hx], Hy as [->|Hy].
    + reflexivity.
    + exfalso. apply Hnotin. rewrite E. apply in_map. exact Hy.
    + exfalso. apply Hnotin. rewrite <- E. apply in_map. exact Hx.
    + apply IH; assumption.
Qed.

(* ------------------------------------------------------------------ *)
(* occurrence counts of a list of values, per counts index             *)
(* ------------------------------------------------------------------ *)

Definition ind (c : cfg) (i v : Z) : Z := if counts_index_for c v =? i then 1 else 0.
Definition occ (c : cfg) (vs : list Z) (i : Z) : Z := zsum (map (ind c i) vs).

Lemma occ_nil c i : occ c [] i = 0.
Proof. reflexivity. Qed.

Lemma occ_cons c v vs i : occ c (v :: vs) i = ind c i v + occ c vs i.
Proof. reflexivity. Qed.

Lemma occ_app c l1 l2 i : occ c (l1 ++ l2) i = occ c l1 i + occ c l2 i.
Proof. unfold occ. rewrite map_app, zsum_app. reflexivity. Qed.

Lemma occ_nonneg c vs i : 0 <= occ c vs i.
Proof. unfold occ. apply zsum_map_nonneg. intros x. unfold ind. destruct (_ =? _); lia. Qed.

Lemma occ_perm c l l' i : Permutation l l' -> occ c l i = occ c l' i.
Proof. intros P. unfold occ. apply zsum_perm. apply Permutation_map. exact P. Qed.

Lemma occ_concat c ls i : occ c (concat ls) i = zsum (map (fun l => occ c l i) ls).
Proof.
  induction ls as [|l ls IH]; cbn [concat map].
  - reflexivity.
  - rewrite occ_app, zsum_cons, IH. reflexivity.
Qed.

(* [rep c h vs]: h is a well-formed histogram of geometry c holding exactly vs *)
Definition rep (c : cfg) (h : hist) (vs : list Z) : Prop :=
  hinv c h /\ h_total h = Z.of_nat (length vs) /\ forall i, h_counts h i = occ c vs i.

Lemma rep_record c hi h vs v : geom c hi -> rep c h vs -> 0 <= v <= hi ->
  exists h', record_value h v = Some h' /\ rep c h' (vs ++ [v]).
Proof.
  intros G [Hinv [Ht Hc]] Hv.
  pose proof (accepts_gen c hi v G Hv) as Hacc.
  assert (Hcfg : h_cfg h = c) by (destruct Hinv as [X _]; exact X).
  destruct (record_value_inv c h v Hinv) as [[_ Hno]|[h' [Es [Hinv' [Ht' _]]]]]; [contradiction|].
  exists h'. split; [exact Es|].
  split; [exact Hinv'|]. split.
  - rewrite Ht', Ht, app_length. cbn [length]. lia.
  - intros i. unfold record_value, record_values in Es. cbv zeta in Es. rewrite Hcfg in Es.
    destruct ((counts_index_for c v <? 0) || (c_len c <=? counts_index_for c v)); [discriminate|].
    injection Es as Es. rewrite <- Es. cbn [h_counts].
    rewrite occ_app, occ_cons, occ_nil. unfold upd, ind. rewrite Hc.
    rewrite (Z.eqb_sym i). destruct (counts_index_for c v =? i); lia.
Qed.

Lemma rep_record_all c hi : geom c hi -> forall ws h vs,
  rep c h vs -> Forall (fun v => 0 <= v <= hi) ws ->
  rep c (fst (record_all h ws)) (vs ++ ws).
Proof.
  intros G. induction ws as [|v r IH]; intros h vs Hr HF.
  - cbn [record_all fst]. rewrite app_nil_r. exact Hr.
  - cbn [record_all].
    destruct (rep_record c hi h vs v G Hr (Forall_inv HF)) as [h' [Es Hr']].
    rewrite Es. specialize (IH h' (vs ++ [v]) Hr' (Forall_inv_tail HF)).
    destruct (record_all h' r) as [h'' k]. cbn [fst] in *.
    rewrite <- app_assoc in IH. exact IH.
Qed.

Lemma rep_new lo hi s : rep (config_of lo hi s) (new lo hi s) [].
Proof.
  split; [apply hinv_new|]. split; reflexivity.
Qed.

Lemma rep_hist_of lo hi s vs :
  (0 <= lo /\ 1 <= hi < 2 ^ 62 /\ 1 <= s <= 5) ->
  Forall (fun v => 0 <= v <= hi) vs ->
  rep (config_of lo hi s) (fst (record_all (new lo hi s) vs)) vs.
Proof.
  intros Hc HF. destruct (config_geom lo hi s Hc) as [G _].
  exact (rep_record_all _ hi G vs _ [] (rep_new lo hi s) HF).
Qed.

Lemma rep_reset c h vs : rep c h vs -> rep c (reset h) [].
Proof.
  intros [[Hc _] _]. unfold reset. split; [|split; reflexivity].
  split; [exact Hc|]. cbn [h_counts h_total]. split.
  - intros i. lia.
  - rewrite zsum_map_zero; reflexivity.
Qed.

(* ------------------------------------------------------------------ *)
(* export / import                                                     *)
(* ------------------------------------------------------------------ *)

Lemma nth_zrange_map (f : Z -> Z) n i d : 0 <= i < n ->
  nth (Z.to_nat i) (map f (zrange 0 n)) d = f i.
Proof.
  intros H. unfold zrange. rewrite map_map.
  rewrite (nth_indep _ d (f (0 + Z.of_nat 0))).
  2:{ rewrite map_length, seq_length. lia. }
  rewrite (map_nth (fun k => f (0 + Z.of_nat k))).
  rewrite seq_nth by lia. f_equal. lia.
Qed.

Lemma import_total_fold (f g : Z -> Z) l : (forall i, In i l -> f i = g i /\ 0 <= g i) ->
  forall acc,
  fold_left (fun acc i => let x := f i in if 0 <? x then acc + x else acc) l acc
  = acc + zsum (map g l).
Proof.
  induction l as [|a l IH]; intros H acc; cbn [fold_left map].
  - rewrite zsum_nil. lia.
  - rewrite zsum_cons. rewrite IH.
    2:{ intros i Hi. apply H. right. exact Hi. }
    cbv zeta. destruct (H a (or_introl eq_refl)) as [E Hn]. rewrite E.
    destruct (0 <? g a) eqn:E0; lia.
Qed.

Lemma import_export_gen lo hi s h : hinv (config_of lo hi s) h ->
  h_cfg (import (export h)) = config_of lo hi s /\
  h_total (import (export h)) = h_total h /\
  forall i, 0 <= i < c_len (config_of lo hi s) ->
            h_counts (import (export h)) i = h_counts h i.
Proof.
  intros [Hc [Hnn Ht]].
  unfold import, export. cbv zeta. cbn [s_lo s_hi s_sf s_counts h_cfg h_total h_counts].
  rewrite Hc.
  change (c_lo (config_of lo hi s)) with lo.
  change (c_hi (config_of lo hi s)) with hi.
  change (c_sf (config_of lo hi s)) with s.
  set (c := config_of lo hi s) in *.
  split; [reflexivity|]. split.
  - rewrite (import_total_fold _ (h_counts h)).
    + rewrite Ht. lia.
    + intros i Hi. apply In_zrange in Hi. split; [|apply Hnn].
      replace ((0 <=? i) && (i <? c_len c)) with true by lia.
      apply nth_zrange_map. lia.
  - intros i Hi.
    replace ((0 <=? i) && (i <? c_len c)) with true by lia.
    apply nth_zrange_map. lia.
Qed.

Lemma hist_equal_of_equiv a b :
  h_cfg a = h_cfg b -> h_total a = h_total b ->
  (forall i, 0 <= i < c_len (h_cfg a) -> h_counts a i = h_counts b i) ->
  hist_equal a b = true.
Proof.
  intros E Et Hc. unfold hist_equal. cbv zeta. rewrite <- E, Et, !Z.eqb_refl.
  cbn [andb]. apply forallb_forall. intros i Hi. apply In_zrange in Hi.
  apply Z.eqb_eq. apply Hc. lia.
Qed.

Lemma hdrq_export_import : forall lo hi s vs,
  (0 <= lo /\ 1 <= hi < 2 ^ 62 /\ 1 <= s <= 5) ->
  Forall (fun v => 0 <= v <= hi) vs ->
  let h := fst (record_all (new lo hi s) vs) in
  (h_cfg (import (export h)) = h_cfg h /\ h_total (import (export h)) = h_total h /\
   forall i, 0 <= i < c_len (h_cfg (import (export h))) ->
             h_counts (import (export h)) i = h_counts h i) /\
  hist_equal (import (export h)) h = true.
Proof.
  intros lo hi s vs Hcfg HF h.
  destruct (rep_hist_of lo hi s vs Hcfg HF) as [Hinv _]. fold h in Hinv.
  destruct (import_export_gen lo hi s h Hinv) as [A [B C]].
  assert (Hc : h_cfg h = config_of lo hi s) by (destruct Hinv as [X _]; exact X).
  assert (E : h_cfg (import (export h)) = h_cfg h) by congruence.
  split.
  - split; [exact E|]. split; [exact B|]. intros i Hi. apply C. rewrite <- A. exact Hi.
  - apply hist_equal_of_equiv; [exact E|exact B|].
    intros i Hi. apply C. rewrite <- A. exact Hi.
Qed.
Print Assumptions hdrq_export_import.

(* ------------------------------------------------------------------ *)
(* merge                                                               *)
(* ------------------------------------------------------------------ *)

Definition merge_step : hist * Z -> step -> hist * Z :=
  fun '(acc, dropped) st =>
    if st_count_at st =? 0 then (acc, dropped)
    else match record_values acc (st_value_from st) (st_count_at st) with
         | Some acc' => (acc', dropped)
         | None => (acc, dropped + st_count_at st)
         end.

Lemma merge_step_eq acc dropped st : merge_step (acc, dropped) st =
  if st_count_at st =? 0 then (acc, dropped)
  else match record_values acc (st_value_from st) (st_count_at st) with
       | Some acc' => (acc', dropped)
       | None => (acc, dropped + st_count_at st)
       end.
Proof. reflexivity. Qed.

Lemma merge_unfold h from : merge h from = fold_left merge_step (steps from) (h, 0).
Proof. reflexivity. Qed.

Lemma iterate_count_nonneg h : (forall i, 0 <= h_counts h i) ->
  forall cs ct st, In st (iterate h cs ct) -> 0 <= st_count_at st.
Proof.
  intros Hnn. induction cs as [|[b s] r IH]; intros ct st Hin; cbn [iterate] in Hin.
  - destruct Hin.
  - destruct (h_total h <=? ct); [destruct Hin|].
    destruct Hin as [<-|Hin].
    + cbn [st_count_at]. apply Hnn.
    + exact (IH _ _ Hin).
Qed.

Lemma steps_sum c hi h : geom c hi -> hinv c h ->
  zsum (map st_count_at (steps h)) = h_total h.
Proof.
  intros G [Hc [Hnn Ht]]. unfold steps.
  pose proof (iterate_sum h Hnn (cells (h_cfg h)) 0) as X.
  rewrite Hc in X at 1. rewrite (cell_count_map c hi h G Hc) in X.
  rewrite X; lia.
Qed.

Lemma merge_fold_dropped : forall l acc d,
  (forall st, In st l -> 0 <= st_count_at st) ->
  h_cfg (fst (fold_left merge_step l (acc, d))) = h_cfg acc /\
  d <= snd (fold_left merge_step l (acc, d)) /\
  h_total (fst (fold_left merge_step l (acc, d))) + snd (fold_left merge_step l (acc, d))
  = h_total acc + d + zsum (map st_count_at l).
Proof.
  induction l as [|st l IH]; intros acc d Hnn.
  - cbn [fold_left fst snd map]. rewrite zsum_nil. split; [reflexivity|lia].
  - cbn [fold_left map]. rewrite zsum_cons.
    pose proof (Hnn st (or_introl eq_refl)) as H0.
    assert (Hnn' : forall st', In st' l -> 0 <= st_count_at st').
    { intros st' Hin. apply Hnn. right. exact Hin. }
    rewrite merge_step_eq.
    destruct (st_count_at st =? 0) eqn:E0.
    + destruct (IH acc d Hnn') as [A [B C]]. split; [exact A|]. split; [exact B|]. lia.
    + unfold record_values. cbv zeta.
      destruct ((counts_index_for (h_cfg acc) (st_value_from st) <? 0)
                || (c_len (h_cfg acc) <=? counts_index_for (h_cfg acc) (st_value_from st))).
      * destruct (IH acc (d + st_count_at st) Hnn') as [A [B C]].
        split; [exact A|]. split; lia.
      * match goal with |- context [fold_left merge_step l (?a, d)] =>
          destruct (IH a d Hnn') as [A [B C]] end.
        cbn [h_cfg h_total] in A, C.
        split; [exact A|]. split; [exact B|]. lia.
Qed.

Lemma hdrq_merge_dropped : forall lo hi s lo' hi' s' va vb,
  (0 <= lo /\ 1 <= hi < 2 ^ 62 /\ 1 <= s <= 5) ->
  (0 <= lo' /\ 1 <= hi' < 2 ^ 62 /\ 1 <= s' <= 5) ->
  Forall (fun v => 0 <= v <= hi) va -> Forall (fun v => 0 <= v <= hi') vb ->
  let a := fst (record_all (new lo hi s) va) in
  let b := fst (record_all (new lo' hi' s') vb) in
  0 <= snd (merge a b) /\
  h_total (fst (merge a b)) + snd (merge a b) = h_total a + h_total b /\
  h_cfg (fst (merge a b)) = h_cfg a.
Proof.
  intros lo hi s lo' hi' s' va vb Hc Hc' Ha Hb a b.
  destruct (config_geom lo' hi' s' Hc') as [G' _].
  destruct (rep_hist_of lo' hi' s' vb Hc' Hb) as [Hinv _]. fold b in Hinv.
  rewrite merge_unfold.
  destruct (merge_fold_dropped (steps b) a 0) as [A [B C]].
  { intros st Hin. destruct Hinv as [_ [Hnn _]].
    exact (iterate_count_nonneg b Hnn _ _ st Hin). }
  rewrite (steps_sum _ hi' b G' Hinv) in C.
  split; [exact B|]. split; [lia|exact A].
Qed.
Print Assumptions hdrq_merge_dropped.

Lemma record_values_some c h v n : hinv c h -> 0 <= n ->
  0 <= counts_index_for c v < c_len c ->
  exists h', record_values h v n = Some h' /\ hinv c h' /\ h_total h' = h_total h + n /\
             forall i, h_counts h' i = h_counts h i + (if counts_index_for c v =? i then n else 0).
Proof.
  intros [Hc [Hnn Ht]] Hn Hi. unfold record_values. cbv zeta. rewrite Hc.
  replace ((counts_index_for c v <? 0) || (c_len c <=? counts_index_for c v)) with false by lia.
  eexists. split; [reflexivity|]. cbn [h_total h_counts].
  split; [|split; [reflexivity|]].
  - unfold hinv. cbn [h_cfg h_counts h_total]. split; [reflexivity|split].
    + intros i. unfold upd. specialize (Hnn i). destruct (i =? counts_index_for c v); lia.
    + rewrite zsum_upd_in; [lia|apply NoDup_zrange|apply In_zrange; lia].
  - intros i. unfold upd. rewrite (Z.eqb_sym i). destruct (counts_index_for c v =? i); lia.
Qed.

Definition cell_idx (c : cfg) (bs : Z * Z) : Z := counts_index c (fst bs) (snd bs).

Lemma cells_idx_map c hi : geom c hi -> map (cell_idx c) (cells c) = zrange 0 (c_len c).
Proof. exact (cells_index_map c hi). Qed.

Lemma cell_idx_range c hi bs : geom c hi -> In bs (cells c) -> 0 <= cell_idx c bs < c_len c.
Proof.
  intros G Hin. apply (in_map (cell_idx c)) in Hin.
  rewrite (cells_idx_map c hi G) in Hin. apply In_zrange in Hin. lia.
Qed.

Lemma merge_fold_same c hi b : geom c hi -> hinv c b -> forall cs ct acc,
  hinv c acc -> (forall bs, In bs cs -> In bs (cells c)) ->
  ct + zsum (map (cell_count b) cs) = h_total b ->
  exists m, fold_left merge_step (iterate b cs ct) (acc, 0) = (m, 0) /\ hinv c m /\
    h_total m = h_total acc + (h_total b - ct) /\
    forall i, h_counts m i = h_counts acc i +
       zsum (map (fun bs => if cell_idx c bs =? i then cell_count b bs else 0) cs).
Proof.
  intros G Hb. pose proof Hb as [Hcb [Hnnb Htb]].
  induction cs as [|[b0 s0] r IH]; intros ct acc Hacc Hsub Hsum.
  - cbn [map] in Hsum. rewrite zsum_nil in Hsum. cbn [iterate fold_left map].
    exists acc. split; [reflexivity|]. split; [exact Hacc|]. split; [lia|].
    intros i. rewrite zsum_nil. lia.
  - cbn [map] in Hsum. rewrite zsum_cons in Hsum.
    assert (Hr0 : 0 <= zsum (map (cell_count b) r)).
    { apply zsum_map_nonneg. intros x. apply Hnnb. }
    assert (Hc0 : 0 <= cell_count b (b0, s0)) by apply Hnnb.
    assert (Hsub' : forall bs, In bs r -> In bs (cells c)).
    { intros bs Hin. apply Hsub. right. exact Hin. }
    cbn [iterate]. destruct (h_total b <=? ct) eqn:E.
    + cbn [fold_left]. exists acc. split; [reflexivity|]. split; [exact Hacc|]. split; [lia|].
      intros i. rewrite zsum_map_zero_in; [lia|].
      intros x Hx. destruct (cell_idx c x =? i); [|reflexivity].
      apply (zsum_map_all_zero (cell_count b) ((b0, s0) :: r)).
      * intros y _. apply Hnnb.
      * cbn [map]. rewrite zsum_cons. lia.
      * exact Hx.
    + cbn [fold_left]. rewrite merge_step_eq. cbn [st_count_at st_value_from].
      change (h_counts b (counts_index (h_cfg b) b0 s0)) with (cell_count b (b0, s0)).
      rewrite Hcb.
      destruct (cell_count b (b0, s0) =? 0) eqn:E0.
      * destruct (IH (ct + cell_count b (b0, s0)) acc Hacc Hsub' ltac:(lia)) as [m [Em [Hm [Htm Hcm]]]].
        exists m. split; [exact Em|]. split; [exact Hm|]. split; [lia|].
        intros i. cbn [map]. rewrite zsum_cons, Hcm.
        destruct (cell_idx c (b0, s0) =? i); lia.
      * assert (Hin0 : In (b0, s0) (cells c)) by (apply Hsub; left; reflexivity).
        pose proof (cells_value_index c hi b0 s0 G Hin0) as Evi.
        pose proof (cell_idx_range c hi (b0, s0) G Hin0) as Hrange.
        unfold cell_idx in Hrange. cbn [fst snd] in Hrange.
        destruct (record_values_some c acc (value_from_index c b0 s0) (cell_count b (b0, s0)) Hacc Hc0)
          as [acc' [Es [Hacc' [Htacc' Hcacc']]]].
        { rewrite Evi. exact Hrange. }
        rewrite Es.
        destruct (IH (ct + cell_count b (b0, s0)) acc' Hacc' Hsub' ltac:(lia)) as [m [Em [Hm [Htm Hcm]]]].
        exists m. split; [exact Em|]. split; [exact Hm|]. split; [lia|].
        intros i. cbn [map]. rewrite zsum_cons, Hcm, Hcacc', Evi.
        unfold cell_idx. cbn [fst snd].
        destruct (counts_index c b0 s0 =? i); lia.
Qed.

Lemma merge_same_gen c hi a b : geom c hi -> hinv c a -> hinv c b ->
  exists m, merge a b = (m, 0) /\ hinv c m /\ h_total m = h_total a + h_total b /\
    forall i, 0 <= i < c_len c -> h_counts m i = h_counts a i + h_counts b i.
Proof.
  intros G Ha Hb. pose proof Hb as [Hcb [Hnnb Htb]].
  rewrite merge_unfold. unfold steps. rewrite Hcb.
  destruct (merge_fold_same c hi b G Hb (cells c) 0 a Ha (fun bs H => H)) as [m [Em [Hm [Htm Hcm]]]].
  { rewrite (cell_count_map c hi b G Hcb). lia. }
  exists m. split; [exact Em|]. split; [exact Hm|]. split; [lia|].
  intros i Hi. rewrite Hcm. f_equal.
  assert (Hin : In i (map (cell_idx c) (cells c))).
  { rewrite (cells_idx_map c hi G). apply In_zrange. lia. }
  apply in_map_iff in Hin. destruct Hin as [x [Ex Hx]].
  rewrite <- Ex. rewrite (zsum_pick_in (cell_idx c) (cell_count b) (cells c) x).
  - unfold cell_count, cell_idx. rewrite Hcb. reflexivity.
  - rewrite (cells_idx_map c hi G). apply NoDup_zrange.
  - exact Hx.
Qed.

Lemma hdrq_merge_same : forall lo hi s va vb,
  (0 <= lo /\ 1 <= hi < 2 ^ 62 /\ 1 <= s <= 5) ->
  Forall (fun v => 0 <= v <= hi) va -> Forall (fun v => 0 <= v <= hi) vb ->
  let a := fst (record_all (new lo hi s) va) in
  let b := fst (record_all (new lo hi s) vb) in
  snd (merge a b) = 0 /\
  (h_cfg (fst (merge a b)) = h_cfg (fst (record_all (new lo hi s) (va ++ vb))) /\
   h_total (fst (merge a b)) = h_total (fst (record_all (new lo hi s) (va ++ vb))) /\
   forall i, 0 <= i < c_len (h_cfg (fst (merge a b))) ->
     h_counts (fst (merge a b)) i = h_counts (fst (record_all (new lo hi s) (va ++ vb))) i) /\
  (h_cfg (fst (merge a b)) = h_cfg (fst (merge b a)) /\
   h_total (fst (merge a b)) = h_total (fst (merge b a)) /\
   forall i, 0 <= i < c_len (h_cfg (fst (merge a b))) ->
     h_counts (fst (merge a b)) i = h_counts (fst (merge b a)) i).
Proof.
  intros lo hi s va vb Hc HFa HFb a b.
  destruct (config_geom lo hi s Hc) as [G _].
  destruct (rep_hist_of lo hi s va Hc HFa) as [Ha [Hta Hca]]. fold a in Ha, Hta, Hca.
  destruct (rep_hist_of lo hi s vb Hc HFb) as [Hb [Htb Hcb]]. fold b in Hb, Htb, Hcb.
  destruct (rep_hist_of lo hi s (va ++ vb) Hc) as [[Hab _] [Htab Hcab]].
  { apply Forall_app. split; assumption. }
  destruct (merge_same_gen _ hi a b G Ha Hb) as [m [Em [[Hm _] [Htm Hcm]]]].
  destruct (merge_same_gen _ hi b a G Hb Ha) as [m' [Em' [[Hm' _] [Htm' Hcm']]]].
  rewrite Em, Em'. cbn [fst snd]. rewrite Hab, Htab, Hm, Hm', Htm, Htm', Hta, Htb.
  rewrite app_length.
  split; [reflexivity|]. split; (split; [reflexivity|]; split; [lia|]).
  - intros i Hi. rewrite Hcm, Hcab, Hca, Hcb, occ_app by exact Hi. reflexivity.
  - intros i Hi. rewrite Hcm, Hcm' by exact Hi. lia.
Qed.
Print Assumptions hdrq_merge_same.

(* ------------------------------------------------------------------ *)
(* the counts index is monotone; classes                               *)
(* ------------------------------------------------------------------ *)

Lemma idx_mono c hi v w : geom c hi -> 0 <= v <= w ->
  counts_index_for c v <= counts_index_for c w.
Proof.
  intros G Hvw.
  destruct (value_cell c hi v G ltac:(lia)) as [[Hbv [Hsv Hsv1]] [Hv1 Hv2]].
  destruct (value_cell c hi w G ltac:(lia)) as [[Hbw [Hsw Hsw1]] [Hw1 Hw2]].
  unfold counts_index_for, counts_index. cbv zeta.
  set (bv := bucket_index c v) in *. set (sv := sub_bucket_index c v bv) in *.
  set (bw := bucket_index c w) in *. set (sw := sub_bucket_index c w bw) in *.
  clearbody sv sw. clearbody bv bw.
  destruct G as [Gu Ghm Gsbc Ghc Gmask Gbc Ghi Glen].
  pose proof (pow2_pos (c_hm c) ltac:(lia)) as Pa.
  rewrite Gsbc in *. rewrite Ghc in *.
  set (H := 2 ^ c_hm c) in *. clearbody H.
  destruct (Z.lt_trichotomy bv bw) as [Hlt|[Heq|Hgt]].
  - specialize (Hsw1 ltac:(lia)).
    assert ((bv + 2) * H <= (bw + 1) * H) by nia. lia.
  - subst bw. pose proof (pow2_pos (bv + c_unit c) ltac:(lia)) as Pp.
    assert (sv <= sw) by nia. lia.
  - exfalso. specialize (Hsv1 ltac:(lia)).
    assert (HQ : 2 * 2 ^ (bw + c_unit c) <= 2 ^ (bv + c_unit c)).
    { rewrite <- pow2_S by lia. apply Z.pow_le_mono_r; lia. }
    pose proof (pow2_pos (bw + c_unit c) ltac:(lia)) as Pp.
    set (P := 2 ^ (bw + c_unit c)) in *. set (Q := 2 ^ (bv + c_unit c)) in *.
    clearbody P Q.
    assert (H * (2 * P) <= H * Q) by nia.
    assert (H * Q <= sv * Q) by nia.
    assert ((sw + 1) * P <= 2 * H * P) by nia.
    lia.
Qed.

Lemma value_in_cells c hi v : geom c hi -> 0 <= v <= hi ->
  In (bucket_index c v, sub_bucket_index c v (bucket_index c v)) (cells c).
Proof.
  intros G Hv. destruct (value_cell c hi v G ltac:(lia)) as [Hok _].
  pose proof (value_bucket_bound c hi v G Hv) as Hbc.
  apply (In_cells c hi _ _ G). split; [destruct Hok as [Hb _]; lia|exact Hok].
Qed.

Lemma cells_NoDup c hi : geom c hi -> NoDup (map (cell_idx c) (cells c)).
Proof. intros G. rewrite (cells_idx_map c hi G). apply NoDup_zrange. Qed.

Lemma cell_of_value c hi v bs : geom c hi -> 0 <= v <= hi ->
  In bs (cells c) -> cell_idx c bs = counts_index_for c v ->
  bs = (bucket_index c v, sub_bucket_index c v (bucket_index c v)).
Proof.
  intros G Hv Hin E.
  apply (NoDup_map_key_inj (cell_idx c) (cells c)).
  - exact (cells_NoDup c hi G).
  - exact Hin.
  - exact (value_in_cells c hi v G Hv).
  - rewrite E. reflexivity.
Qed.

Lemma same_idx_cell c hi v w : geom c hi -> 0 <= v <= hi -> 0 <= w <= hi ->
  counts_index_for c v = counts_index_for c w ->
  bucket_index c v = bucket_index c w /\
  sub_bucket_index c v (bucket_index c v) = sub_bucket_index c w (bucket_index c w).
Proof.
  intros G Hv Hw E.
  pose proof (cell_of_value c hi w _ G Hw (value_in_cells c hi v G Hv) E) as X.
  injection X as Eb Es. split; assumption.
Qed.

Lemma same_idx_equiv c hi v w : geom c hi -> 0 <= v <= hi -> 0 <= w <= hi ->
  counts_index_for c v = counts_index_for c w ->
  lowest_equiv c v = lowest_equiv c w /\ highest_equiv c v = highest_equiv c w /\
  median_equiv c v = median_equiv c w.
Proof.
  intros G Hv Hw E. destruct (same_idx_cell c hi v w G Hv Hw E) as [Eb Es].
  assert (E1 : lowest_equiv c v = lowest_equiv c w).
  { unfold lowest_equiv. cbv zeta. rewrite Es, Eb. reflexivity. }
  assert (E2 : size_of_range c v = size_of_range c w).
  { unfold size_of_range. cbv zeta. rewrite Es, Eb. reflexivity. }
  unfold highest_equiv, next_non_equiv, median_equiv. rewrite E1, E2.
  repeat split; reflexivity.
Qed.

Lemma lowest_range c hi v : geom c hi -> 0 <= v <= hi ->
  0 <= lowest_equiv c v <= hi /\ counts_index_for c (lowest_equiv c v) = counts_index_for c v.
Proof.
  intros G Hv. pose proof (in_range_gen c hi v G ltac:(lia)) as Hr.
  destruct (value_cell c hi v G ltac:(lia)) as [Hok Hin].
  pose proof (class_gen c hi v (lowest_equiv c v) G ltac:(lia) ltac:(lia)) as HL.
  destruct (cell_index c hi _ _ _ G Hok HL) as [H0 _].
  destruct (cell_facts c hi _ _ _ G Hok HL) as [EL _].
  destruct (cell_facts c hi _ _ _ G Hok Hin) as [EV _].
  split; [lia|congruence].
Qed.

Lemma highest_mono c hi v w : geom c hi -> 0 <= v <= w -> w <= hi ->
  highest_equiv c v <= highest_equiv c w.
Proof.
  intros G Hvw Hw.
  pose proof (idx_mono c hi v w G Hvw) as Hm.
  destruct (Z.eq_dec (counts_index_for c v) (counts_index_for c w)) as [E|N].
  - destruct (same_idx_equiv c hi v w G ltac:(lia) ltac:(lia) E) as [_ [E2 _]]. lia.
  - pose proof (in_range_gen c hi v G ltac:(lia)) as Hrv.
    pose proof (in_range_gen c hi w G ltac:(lia)) as Hrw.
    destruct (Z_le_gt_dec w (highest_equiv c v)) as [Hle|Hgt]; [|lia].
    exfalso. apply N.
    destruct (value_cell c hi v G ltac:(lia)) as [Hok Hin].
    pose proof (class_gen c hi v w G ltac:(lia) ltac:(lia)) as HW.
    destruct (cell_facts c hi _ _ _ G Hok HW) as [EW _].
    destruct (cell_facts c hi _ _ _ G Hok Hin) as [EV _].
    congruence.
Qed.

(* ------------------------------------------------------------------ *)
(* cumulative counts                                                   *)
(* ------------------------------------------------------------------ *)

Definition cumle (c : cfg) (vs : list Z) (i : Z) : Z :=
  zsum (map (fun v => if counts_index_for c v <=? i then 1 else 0) vs).
Definition cumlt (c : cfg) (vs : list Z) (i : Z) : Z :=
  zsum (map (fun v => if counts_index_for c v <? i then 1 else 0) vs).

Lemma cumlt_succ c vs i : cumlt c vs (i + 1) = cumle c vs i.
Proof.
  unfold cumlt, cumle. apply zsum_map_ext_in. intros v _.
  destruct (counts_index_for c v <? i + 1) eqn:E1, (counts_index_for c v <=? i) eqn:E2; lia.
Qed.

Lemma cumle_split c vs i : cumle c vs i = cumlt c vs i + occ c vs i.
Proof.
  unfold cumle, cumlt, occ. rewrite <- zsum_map_add. apply zsum_map_ext_in. intros v _.
  unfold ind.
  destruct (counts_index_for c v <=? i) eqn:E1, (counts_index_for c v <? i) eqn:E2,
           (counts_index_for c v =? i) eqn:E3; lia.
Qed.

Lemma cumle_lt c vs i j : i < j -> cumle c vs i <= cumlt c vs j.
Proof.
  intros H. unfold cumle, cumlt. apply zsum_map_le. intros v _.
  destruct (counts_index_for c v <=? i) eqn:E1, (counts_index_for c v <? j) eqn:E2; lia.
Qed.

Lemma zsum_ones {A} (l : list A) : zsum (map (fun _ => 1) l) = Z.of_nat (length l).
Proof.
  induction l as [|a l IH]; cbn [map length].
  - reflexivity.
  - rewrite zsum_cons, IH. lia.
Qed.

Lemma cumlt_le_length c vs i : cumlt c vs i <= Z.of_nat (length vs).
Proof.
  rewrite <- zsum_ones. unfold cumlt. apply zsum_map_le. intros v _.
  destruct (_ <? _); lia.
Qed.

Lemma cumlt_zero c vs i : (forall v, In v vs -> i <= counts_index_for c v) -> cumlt c vs i = 0.
Proof.
  intros H. unfold cumlt. apply zsum_map_zero_in. intros v Hv. specialize (H v Hv).
  destruct (_ <? _) eqn:E; lia.
Qed.

Lemma cumle_full c vs i : (forall v, In v vs -> counts_index_for c v <= i) ->
  cumle c vs i = Z.of_nat (length vs).
Proof.
  intros H. rewrite <- zsum_ones. unfold cumle. apply zsum_map_ext_in. intros v Hv.
  specialize (H v Hv). destruct (_ <=? _) eqn:E; lia.
Qed.

Lemma cumle_nonneg c vs i : 0 <= cumle c vs i.
Proof. unfold cumle. apply zsum_map_nonneg. intros v. destruct (_ <=? _); lia. Qed.

Lemma cumlt_perm c l l' i : Permutation l l' -> cumlt c l i = cumlt c l' i.
Proof. intros P. unfold cumlt. apply zsum_perm, Permutation_map, P. Qed.

Lemma cumle_perm c l l' i : Permutation l l' -> cumle c l i = cumle c l' i.
Proof. intros P. unfold cumle. apply zsum_perm, Permutation_map, P. Qed.

Lemma cumlt_app c l1 l2 i : cumlt c (l1 ++ l2) i = cumlt c l1 i + cumlt c l2 i.
Proof. unfold cumlt. rewrite map_app, zsum_app. reflexivity. Qed.

Lemma cumle_app c l1 l2 i : cumle c (l1 ++ l2) i = cumle c l1 i + cumle c l2 i.
Proof. unfold cumle. rewrite map_app, zsum_app. reflexivity. Qed.

(* ------------------------------------------------------------------ *)
(* the rank scan                                                       *)
(* ------------------------------------------------------------------ *)

Lemma zrange_length a n : length (zrange a n) = Z.to_nat n.
Proof. unfold zrange. rewrite map_length, seq_length. reflexivity. Qed.

Lemma scan_find c hi h vs x k : geom c hi -> h_cfg h = c ->
  (forall i, h_counts h i = occ c vs i) -> 0 <= x <= hi ->
  cumlt c vs (counts_index_for c x) < k <= cumle c vs (counts_index_for c x) ->
  k <= h_total h ->
  forall cs a ct, map (cell_idx c) cs = zrange a (c_len c - a) ->
    (forall bs, In bs cs -> In bs (cells c)) ->
    ct = cumlt c vs a -> ct < k ->
    scan_rank c (iterate h cs ct) k = highest_equiv c x.
Proof.
  intros G Hc Hcnt Hx Hk Hkt.
  pose proof (accepts_gen c hi x G Hx) as Hacc.
  induction cs as [|[b0 s0] r IH]; intros a ct Hmap Hsub Hct Hlt.
  - exfalso. cbn [map] in Hmap.
    assert (Hlen : length (zrange a (c_len c - a)) = 0%nat) by (rewrite <- Hmap; reflexivity).
    rewrite zrange_length in Hlen.
    pose proof (cumle_lt c vs (counts_index_for c x) a ltac:(lia)). lia.
  - assert (Hpos : 0 < c_len c - a).
    { destruct (Z_lt_le_dec 0 (c_len c - a)) as [H|H]; [exact H|].
      rewrite zrange_nil in Hmap by exact H. discriminate. }
    replace (c_len c - a) with ((c_len c - a - 1) + 1) in Hmap by lia.
    rewrite zrange_cons in Hmap by lia. cbn [map] in Hmap.
    injection Hmap as Ea Hmap'.
    unfold cell_idx in Ea. cbn [fst snd] in Ea.
    cbn [iterate]. destruct (h_total h <=? ct) eqn:E; [lia|].
    rewrite Hc, Ea, Hcnt. cbn [scan_rank st_count_to st_value_from].
    assert (Hcum : ct + occ c vs a = cumle c vs a) by (rewrite cumle_split; lia).
    rewrite Hcum.
    destruct (k <=? cumle c vs a) eqn:Ek.
    + assert (Eidx : counts_index_for c x = a).
      { destruct (Z.lt_trichotomy (counts_index_for c x) a) as [H|[H|H]]; [|exact H|].
        - pose proof (cumle_lt c vs _ _ H). lia.
        - pose proof (cumle_lt c vs _ _ H). lia. }
      assert (Hin0 : In (b0, s0) (cells c)) by (apply Hsub; left; reflexivity).
      assert (Ecell : cell_idx c (b0, s0) = counts_index_for c x).
      { unfold cell_idx. cbn [fst snd]. lia. }
      pose proof (cell_of_value c hi x _ G Hx Hin0 Ecell) as X.
      injection X as Eb Es. rewrite Es, Eb.
      change (value_from_index c (bucket_index c x) (sub_bucket_index c x (bucket_index c x)))
        with (lowest_equiv c x).
      destruct (equiv_idem c hi x G ltac:(lia)) as [_ [I2 _]]. exact I2.
    + apply (IH (a + 1)).
      * rewrite Hmap'. f_equal. lia.
      * intros bs Hin. apply Hsub. right. exact Hin.
      * rewrite cumlt_succ. lia.
      * lia.
Qed.

Lemma idx_nonneg_all c hi vs : geom c hi -> Forall (fun v => 0 <= v <= hi) vs ->
  forall v, In v vs -> 0 <= counts_index_for c v < c_len c.
Proof.
  intros G HF v Hv. rewrite Forall_forall in HF. exact (accepts_gen c hi v G (HF v Hv)).
Qed.

Lemma value_at_rank_spec c hi h vs x k : geom c hi -> rep c h vs ->
  Forall (fun v => 0 <= v <= hi) vs -> 0 <= x <= hi ->
  cumlt c vs (counts_index_for c x) < k <= cumle c vs (counts_index_for c x) ->
  k <= h_total h ->
  value_at_rank h k = highest_equiv c x.
Proof.
  intros G [[Hc _] [Ht Hcnt]] HF Hx Hk Hkt.
  unfold value_at_rank, steps. rewrite Hc.
  assert (H0 : cumlt c vs 0 = 0).
  { apply cumlt_zero. intros v Hv. apply (idx_nonneg_all c hi vs G HF v Hv). }
  apply (scan_find c hi h vs x k G Hc Hcnt Hx Hk Hkt (cells c) 0 0).
  - rewrite (cells_idx_map c hi G). f_equal. lia.
  - intros bs H. exact H.
  - symmetry. exact H0.
  - pose proof (cumle_lt c vs (-1) 0 ltac:(lia)). 
    assert (0 <= cumlt c vs (counts_index_for c x)).
    { unfold cumlt. apply zsum_map_nonneg. intros v. destruct (_ <? _); lia. }
    lia.
Qed.

(* order statistics of a sorted permutation *)
Lemma StronglySorted_middle (l1 : list Z) x l2 :
  StronglySorted Z.le (l1 ++ x :: l2) ->
  Forall (fun y => y <= x) l1 /\ Forall (fun y => x <= y) l2.
Proof.
  induction l1 as [|a l1 IH]; intros H.
  - cbn [app] in H. apply StronglySorted_inv in H. destruct H as [_ H]. split; [constructor|exact H].
  - rewrite <- app_comm_cons in H. apply StronglySorted_inv in H. destruct H as [H1 H2].
    destruct (IH H1) as [A B]. split; [|exact B].
    constructor; [|exact A].
    rewrite Forall_forall in H2. apply H2. apply in_or_app. right. left. reflexivity.
Qed.

Lemma Zle_transitive : Relations_1.Transitive Z.le.
Proof. intros x y z. apply Z.le_trans. Qed.

Lemma order_stat c hi vs sorted k : geom c hi ->
  Forall (fun v => 0 <= v <= hi) vs ->
  Permutation sorted vs -> Sorted Z.le sorted ->
  1 <= k <= Z.of_nat (length vs) ->
  let x := nth (Z.to_nat (k - 1)) sorted 0 in
  0 <= x <= hi /\
  cumlt c vs (counts_index_for c x) < k <= cumle c vs (counts_index_for c x) /\
  exists l1 l2, sorted = l1 ++ x :: l2 /\ length l1 = Z.to_nat (k - 1).
Proof.
  intros G HF P S Hk x.
  pose proof (Permutation_length P) as Hlen.
  assert (HFs : Forall (fun v => 0 <= v <= hi) sorted).
  { rewrite Forall_forall in *. intros v Hv. apply HF. exact (Permutation_in v P Hv). }
  destruct (nth_split sorted 0 (n := Z.to_nat (k - 1)) ltac:(lia)) as [l1 [l2 [Es Hl1]]].
  fold x in Es.
  assert (Hx : 0 <= x <= hi).
  { rewrite Forall_forall in HFs. apply HFs. rewrite Es. apply in_or_app. right. left. reflexivity. }
  apply (Sorted_StronglySorted Zle_transitive) in S. rewrite Es in S.
  destruct (StronglySorted_middle l1 x l2 S) as [A B].
  rewrite Es in HFs. apply Forall_app in HFs. destruct HFs as [F1 F2].
  apply Forall_cons_iff in F2. destruct F2 as [_ F2].
  split; [exact Hx|]. split; [|exists l1, l2; split; [exact Es|exact Hl1]].
  rewrite <- (cumlt_perm c _ _ _ P), <- (cumle_perm c _ _ _ P), Es.
  rewrite cumlt_app, cumle_app.
  change (x :: l2) with ([x] ++ l2). rewrite cumlt_app, cumle_app.
  assert (C1 : cumlt c l1 (counts_index_for c x) <= Z.of_nat (length l1)) by apply cumlt_le_length.
  assert (C2 : cumlt c [x] (counts_index_for c x) = 0).
  { apply cumlt_zero. intros v [<-|[]]. lia. }
  assert (C3 : cumlt c l2 (counts_index_for c x) = 0).
  { apply cumlt_zero. intros v Hv. rewrite Forall_forall in B, F2.
    apply (idx_mono c hi x v G). specialize (B v Hv). lia. }
  assert (C4 : cumle c l1 (counts_index_for c x) = Z.of_nat (length l1)).
  { apply cumle_full. intros v Hv. rewrite Forall_forall in A, F1.
    apply (idx_mono c hi v x G). specialize (A v Hv). specialize (F1 v Hv). lia. }
  assert (C5 : cumle c [x] (counts_index_for c x) = 1).
  { rewrite cumle_full; [reflexivity|]. intros v [<-|[]]. lia. }
  pose proof (cumle_nonneg c l2 (counts_index_for c x)) as C6.
  lia.
Qed.

Lemma hdrq_rank : forall lo hi s vs sorted k,
  (0 <= lo /\ 1 <= hi < 2 ^ 62 /\ 1 <= s <= 5) ->
  Forall (fun v => 0 <= v <= hi) vs ->
  Permutation sorted vs -> Sorted Z.le sorted ->
  1 <= k <= Z.of_nat (length vs) ->
  value_at_rank (fst (record_all (new lo hi s) vs)) k =
  highest_equiv (config_of lo hi s) (nth (Z.to_nat (k - 1)) sorted 0).
Proof.
  intros lo hi s vs sorted k Hc HF P S Hk.
  destruct (config_geom lo hi s Hc) as [G _].
  pose proof (rep_hist_of lo hi s vs Hc HF) as Hr.
  destruct (order_stat _ hi vs sorted k G HF P S Hk) as [Hx [Hcum _]].
  apply (value_at_rank_spec _ hi _ vs _ k G Hr HF Hx Hcum).
  destruct Hr as [_ [Ht _]]. lia.
Qed.
Print Assumptions hdrq_rank.

(* ------------------------------------------------------------------ *)
(* monotonicity in the rank                                            *)
(* ------------------------------------------------------------------ *)

Module ZLeB <: TotalLeBool.
  Definition t := Z.
  Definition leb := Z.leb.
  Lemma leb_total : forall x y, leb x y = true \/ leb y x = true.
  Proof. intros x y. unfold leb. lia. Qed.
End ZLeB.
Module ZSort := Sort ZLeB.

Lemma Sorted_weaken {A} (R R' : A -> A -> Prop) l :
  (forall x y, R x y -> R' x y) -> Sorted R l -> Sorted R' l.
Proof.
  intros H S. induction S as [|a l S IH Hd]; constructor; [exact IH|].
  destruct Hd; constructor. apply H. assumption.
Qed.

Lemma sort_exists (vs : list Z) : exists sorted, Permutation sorted vs /\ Sorted Z.le sorted.
Proof.
  exists (ZSort.sort vs). split.
  - symmetry. apply ZSort.Permuted_sort.
  - apply (Sorted_weaken (fun x y => is_true (ZLeB.leb x y))).
    + intros x y H. unfold ZLeB.leb, is_true in H. lia.
    + apply ZSort.Sorted_sort.
Qed.

Lemma StronglySorted_nth_le (l : list Z) : StronglySorted Z.le l ->
  forall i j, (i <= j < length l)%nat -> nth i l 0 <= nth j l 0.
Proof.
  induction 1 as [|a l S IH F]; intros i j Hij.
  - cbn [length] in Hij. lia.
  - destruct i as [|i], j as [|j]; cbn [nth length] in *.
    + lia.
    + rewrite Forall_forall in F. apply F. apply nth_In. lia.
    + lia.
    + apply IH. lia.
Qed.

Lemma hdrq_monotone : forall lo hi s vs k1 k2,
  (0 <= lo /\ 1 <= hi < 2 ^ 62 /\ 1 <= s <= 5) ->
  Forall (fun v => 0 <= v <= hi) vs ->
  1 <= k1 <= k2 -> k2 <= Z.of_nat (length vs) ->
  value_at_rank (fst (record_all (new lo hi s) vs)) k1 <=
  value_at_rank (fst (record_all (new lo hi s) vs)) k2.
Proof.
  intros lo hi s vs k1 k2 Hc HF Hk1 Hk2.
  destruct (config_geom lo hi s Hc) as [G _].
  destruct (sort_exists vs) as [sorted [P S]].
  rewrite (hdrq_rank lo hi s vs sorted k1 Hc HF P S ltac:(lia)).
  rewrite (hdrq_rank lo hi s vs sorted k2 Hc HF P S ltac:(lia)).
  destruct (order_stat _ hi vs sorted k1 G HF P S ltac:(lia)) as [Hx1 _].
  destruct (order_stat _ hi vs sorted k2 G HF P S ltac:(lia)) as [Hx2 _].
  cbv zeta in Hx1, Hx2.
  pose proof (Permutation_length P) as Hlen.
  apply (highest_mono _ hi _ _ G); [|lia].
  split; [lia|].
  apply StronglySorted_nth_le; [|lia].
  apply (Sorted_StronglySorted Zle_transitive). exact S.
Qed.
Print Assumptions hdrq_monotone.

(* ------------------------------------------------------------------ *)
(* min, max, mean                                                      *)
(* ------------------------------------------------------------------ *)

Lemma first_nonzero_scan h : (forall i, 0 <= h_counts h i) -> forall cs ct, ct = 0 ->
  first_nonzero (iterate h cs ct) = scan_rank (h_cfg h) (iterate h cs ct) 1.
Proof.
  intros Hnn. induction cs as [|[b0 s0] r IH]; intros ct Hct.
  - reflexivity.
  - cbn [iterate]. destruct (h_total h <=? ct); [reflexivity|].
    cbn [first_nonzero scan_rank st_count_at st_count_to st_highest st_value_from].
    pose proof (Hnn (counts_index (h_cfg h) b0 s0)) as H0.
    destruct (h_counts h (counts_index (h_cfg h) b0 s0) =? 0) eqn:E.
    + replace (1 <=? ct + h_counts h (counts_index (h_cfg h) b0 s0)) with false by lia.
      apply IH. lia.
    + replace (1 <=? ct + h_counts h (counts_index (h_cfg h) b0 s0)) with true by lia.
      reflexivity.
Qed.

Lemma fold_max_scan h : (forall i, 0 <= h_counts h i) -> forall cs ct acc,
  ct < h_total h -> h_total h <= ct + zsum (map (cell_count h) cs) ->
  fold_left (fun acc st => if st_count_at st =? 0 then acc else st_highest st) (iterate h cs ct) acc
  = scan_rank (h_cfg h) (iterate h cs ct) (h_total h).
Proof.
  intros Hnn. induction cs as [|[b0 s0] r IH]; intros ct acc Hlt Hsum.
  - cbn [map] in Hsum. rewrite zsum_nil in Hsum. lia.
  - cbn [map] in Hsum. rewrite zsum_cons in Hsum.
    unfold cell_count at 1 in Hsum. cbn [fst snd] in Hsum.
    cbn [iterate]. destruct (h_total h <=? ct) eqn:E; [lia|].
    cbn [fold_left scan_rank st_count_at st_count_to st_highest st_value_from].
    pose proof (Hnn (counts_index (h_cfg h) b0 s0)) as H0.
    destruct (h_total h <=? ct + h_counts h (counts_index (h_cfg h) b0 s0)) eqn:E1.
    + rewrite iterate_stop by lia. cbn [fold_left].
      replace (h_counts h (counts_index (h_cfg h) b0 s0) =? 0) with false by lia.
      reflexivity.
    + apply IH; lia.
Qed.

Lemma mean_fold c l : forall acc,
  fold_left (fun acc st => if st_count_at st =? 0 then acc
                           else acc + st_count_at st * median_equiv c (st_value_from st)) l acc
  = acc + zsum (map (fun st => st_count_at st * median_equiv c (st_value_from st)) l).
Proof.
  induction l as [|st l IH]; intros acc; cbn [fold_left map].
  - rewrite zsum_nil. lia.
  - rewrite zsum_cons, IH. destruct (st_count_at st =? 0) eqn:E; [|lia].
    apply Z.eqb_eq in E. rewrite E. lia.
Qed.

Definition cell_med (c : cfg) (bs : Z * Z) : Z :=
  median_equiv c (value_from_index c (fst bs) (snd bs)).

Lemma iterate_weighted h : (forall i, 0 <= h_counts h i) -> forall cs ct,
  ct + zsum (map (cell_count h) cs) = h_total h ->
  zsum (map (fun st => st_count_at st * median_equiv (h_cfg h) (st_value_from st)) (iterate h cs ct))
  = zsum (map (fun bs => cell_count h bs * cell_med (h_cfg h) bs) cs).
Proof.
  intros Hnn. induction cs as [|[b0 s0] r IH]; intros ct Hsum.
  - reflexivity.
  - cbn [map] in Hsum. rewrite zsum_cons in Hsum.
    assert (Hr0 : 0 <= zsum (map (cell_count h) r)).
    { apply zsum_map_nonneg. intros x. apply Hnn. }
    assert (Hc0 : 0 <= cell_count h (b0, s0)) by apply Hnn.
    cbn [iterate]. destruct (h_total h <=? ct) eqn:E.
    + transitivity 0; [reflexivity|]. symmetry. apply zsum_map_zero_in.
      intros x Hx.
      rewrite (zsum_map_all_zero (cell_count h) ((b0, s0) :: r)); [reflexivity| | |exact Hx].
      * intros y _. apply Hnn.
      * cbn [map]. rewrite zsum_cons. lia.
    + cbn [map st_count_at st_value_from]. rewrite !zsum_cons.
      change (h_counts h (counts_index (h_cfg h) b0 s0)) with (cell_count h (b0, s0)).
      rewrite IH by lia. reflexivity.
Qed.

Lemma median_lowest c hi v : geom c hi -> 0 <= v <= hi ->
  median_equiv c (lowest_equiv c v) = median_equiv c v.
Proof.
  intros G Hv. destruct (lowest_range c hi v G Hv) as [Hr E].
  destruct (same_idx_equiv c hi _ _ G Hr Hv E) as [_ [_ M]]. exact M.
Qed.

Lemma cells_weighted c hi vs : geom c hi -> Forall (fun v => 0 <= v <= hi) vs ->
  zsum (map (fun bs => occ c vs (cell_idx c bs) * cell_med c bs) (cells c))
  = zsum (map (median_equiv c) vs).
Proof.
  intros G. induction vs as [|v r IH]; intros HF.
  - cbn [map]. rewrite zsum_nil. apply zsum_map_zero_in. intros x _. reflexivity.
  - cbn [map]. rewrite zsum_cons. rewrite <- (IH (Forall_inv_tail HF)).
    pose proof (Forall_inv HF) as Hv. cbv beta in Hv.
    rewrite (zsum_map_ext_in _ (fun bs => ind c (cell_idx c bs) v * cell_med c bs
                                          + occ c r (cell_idx c bs) * cell_med c bs)).
    2:{ intros bs _. rewrite occ_cons. lia. }
    rewrite zsum_map_add. f_equal.
    set (x := (bucket_index c v, sub_bucket_index c v (bucket_index c v))).
    assert (Ex : cell_idx c x = counts_index_for c v) by reflexivity.
    rewrite (zsum_map_ext_in _ (fun y => if cell_idx c y =? cell_idx c x then cell_med c y else 0)).
    2:{ intros y _. unfold ind. rewrite Ex, (Z.eqb_sym (cell_idx c y)).
        destruct (counts_index_for c v =? cell_idx c y); lia. }
    rewrite (zsum_pick_in (cell_idx c) (cell_med c) (cells c) x).
    + unfold cell_med, x. cbn [fst snd].
      change (value_from_index c (bucket_index c v) (sub_bucket_index c v (bucket_index c v)))
        with (lowest_equiv c v).
      apply (median_lowest c hi v G Hv).
    + exact (cells_NoDup c hi G).
    + exact (value_in_cells c hi v G Hv).
Qed.

Lemma mean_num_spec c hi h vs : geom c hi -> rep c h vs ->
  Forall (fun v => 0 <= v <= hi) vs ->
  mean_num h = zsum (map (median_equiv c) vs).
Proof.
  intros G [[Hc [Hnn Hsum]] [Ht Hcnt]] HF.
  unfold mean_num. rewrite mean_fold. unfold steps.
  rewrite (iterate_weighted h Hnn).
  2:{ rewrite Hc. rewrite (cell_count_map c hi h G Hc). lia. }
  rewrite Hc. rewrite <- (cells_weighted c hi vs G HF).
  rewrite Z.add_0_l. apply zsum_map_ext_in. intros bs _.
  unfold cell_count. rewrite Hc, Hcnt. reflexivity.
Qed.

Lemma nth_last_Z (l : list Z) : nth (length l - 1) l 0 = last l 0.
Proof.
  induction l as [|a l IH].
  - reflexivity.
  - destruct l as [|b l].
    + reflexivity.
    + cbn [length] in *. replace (S (S (length l)) - 1)%nat with (S (length l)) by lia.
      replace (S (length l) - 1)%nat with (length l) in IH by lia.
      cbn [nth]. cbn [nth] in IH. rewrite IH. reflexivity.
Qed.

Lemma median_bounds c hi v : geom c hi -> 0 <= v ->
  lowest_equiv c v <= median_equiv c v <= highest_equiv c v + 1.
Proof.
  intros G Hv. destruct (value_cell c hi v G Hv) as [Hok Hin].
  destruct (cell_facts c hi _ _ v G Hok Hin) as [_ [E1 [E2 E3]]].
  unfold median_equiv. rewrite E1, E2, E3.
  destruct Hok as [Hb _]. destruct G as [Gu _ _ _ _ _ _ _].
  pose proof (pow2_pos (bucket_index c v + c_unit c) ltac:(lia)) as Pp.
  set (P := 2 ^ (bucket_index c v + c_unit c)) in *. clearbody P.
  assert (0 <= P / 2) by (apply Z.div_pos; lia).
  assert (P / 2 <= P) by (apply Z.div_le_upper_bound; lia).
  lia.
Qed.

Lemma hdrq_min_max_mean : forall lo hi s vs sorted,
  (0 <= lo /\ 1 <= hi < 2 ^ 62 /\ 1 <= s <= 5) ->
  Forall (fun v => 0 <= v <= hi) vs -> vs <> [] ->
  Permutation sorted vs -> Sorted Z.le sorted ->
  let c := config_of lo hi s in
  let h := fst (record_all (new lo hi s) vs) in
  hmin h = lowest_equiv c (hd 0 sorted) /\
  hmax h = highest_equiv c (last sorted 0) /\
  mean_num h = fold_right Z.add 0 (map (median_equiv c) vs) /\
  (forall v, In v vs -> lowest_equiv c v <= median_equiv c v <= highest_equiv c v + 1).
Proof.
  intros lo hi s vs sorted Hcfg HF Hne P S c h.
  destruct (config_geom lo hi s Hcfg) as [G _]. fold c in G.
  pose proof (rep_hist_of lo hi s vs Hcfg HF) as Hr. fold c h in Hr.
  pose proof Hr as [[Hc [Hnn Hsum]] [Ht Hcnt]].
  pose proof (Permutation_length P) as Hlen.
  assert (Hn : (1 <= length vs)%nat).
  { destruct vs; [congruence|cbn [length]; lia]. }
  split; [|split; [|split]].
  - unfold hmin, steps. rewrite (first_nonzero_scan h Hnn _ 0 eq_refl).
    change (scan_rank (h_cfg h) (iterate h (cells (h_cfg h)) 0) 1) with (value_at_rank h 1).
    rewrite Hc. unfold h.
    rewrite (hdrq_rank lo hi s vs sorted 1 Hcfg HF P S ltac:(lia)). fold c.
    change (Z.to_nat (1 - 1)) with 0%nat.
    destruct (order_stat c hi vs sorted 1 G HF P S ltac:(lia)) as [Hx _].
    change (Z.to_nat (1 - 1)) with 0%nat in Hx. cbv zeta in Hx.
    replace (hd 0 sorted) with (nth 0 sorted 0) by (destruct sorted; reflexivity).
    destruct (equiv_idem c hi (nth 0 sorted 0) G ltac:(lia)) as [_ [_ [I3 _]]]. exact I3.
  - unfold hmax. cbv zeta. unfold steps.
    rewrite (fold_max_scan h Hnn).
    2:{ lia. }
    2:{ rewrite Hc. rewrite (cell_count_map c hi h G Hc). lia. }
    change (scan_rank (h_cfg h) (iterate h (cells (h_cfg h)) 0) (h_total h))
      with (value_at_rank h (h_total h)).
    rewrite Hc, Ht. unfold h.
    rewrite (hdrq_rank lo hi s vs sorted (Z.of_nat (length vs)) Hcfg HF P S ltac:(lia)). fold c.
    destruct (order_stat c hi vs sorted (Z.of_nat (length vs)) G HF P S ltac:(lia)) as [Hx _].
    cbv zeta in Hx.
    replace (Z.to_nat (Z.of_nat (length vs) - 1)) with (length sorted - 1)%nat in * by lia.
    rewrite nth_last_Z in *.
    destruct (equiv_idem c hi (last sorted 0) G ltac:(lia)) as [_ [_ [_ I4]]]. exact I4.
  - exact (mean_num_spec c hi h vs G Hr HF).
  - intros v Hv. rewrite Forall_forall in HF. specialize (HF v Hv).
    apply (median_bounds c hi v G). lia.
Qed.
Print Assumptions hdrq_min_max_mean.

(* ------------------------------------------------------------------ *)
(* windowed histogram                                                  *)
(* ------------------------------------------------------------------ *)

Lemma set_nth_length {A} (l : list A) : forall k x, length (set_nth l k x) = length l.
Proof.
  induction l as [|a l IH]; intros k x.
  - reflexivity.
  - destruct k; cbn [set_nth length]; [reflexivity|]. rewrite IH. reflexivity.
Qed.

Lemma nth_error_set_nth_same {A} (l : list A) : forall k x, (k < length l)%nat ->
  nth_error (set_nth l k x) k = Some x.
Proof.
  induction l as [|a l IH]; intros k x Hk; cbn [length] in Hk.
  - lia.
  - destruct k; cbn [set_nth nth_error]; [reflexivity|]. apply IH. lia.
Qed.

Lemma nth_error_set_nth_other {A} (l : list A) : forall k k' x, k <> k' ->
  nth_error (set_nth l k x) k' = nth_error l k'.
Proof.
  induction l as [|a l IH]; intros k k' x Hk.
  - reflexivity.
  - destruct k, k'; cbn [set_nth nth_error]; try reflexivity; [lia|]. apply IH. lia.
Qed.

Lemma nth_error_repeat_lt {A} (x : A) : forall n k, (k < n)%nat -> nth_error (repeat x n) k = Some x.
Proof.
  induction n as [|n IH]; intros k Hk; [lia|].
  destruct k; cbn [repeat nth_error]; [reflexivity|]. apply IH. lia.
Qed.

Lemma nth_firstn_lt {A} (d : A) : forall k l j, (j < k)%nat -> nth j (firstn k l) d = nth j l d.
Proof.
  induction k as [|k IH]; intros l j Hj; [lia|].
  destruct l as [|a l]; [reflexivity|].
  destruct j; cbn [firstn nth]; [reflexivity|]. apply IH. lia.
Qed.

Lemma Forall_firstn_of {A} (P : A -> Prop) k l : Forall P l -> Forall P (firstn k l).
Proof.
  intros H. rewrite <- (firstn_skipn k l) in H. apply Forall_app in H. destruct H as [H _]. exact H.
Qed.

Lemma map_nth_seq {A} (d : A) (l : list A) : map (fun p => nth p l d) (seq 0 (length l)) = l.
Proof.
  induction l as [|a l IH].
  - reflexivity.
  - cbn [length seq map nth]. f_equal.
    rewrite <- seq_shift, map_map. exact IH.
Qed.

Lemma mod_inj N a b : 0 < N -> a mod N = b mod N -> - N < a - b < N -> a = b.
Proof.
  intros HN E Hd.
  pose proof (Z.div_mod a N ltac:(lia)) as Ha.
  pose proof (Z.div_mod b N ltac:(lia)) as Hb.
  assert (Hq : a - b = N * (a / N - b / N)) by lia.
  assert (a / N - b / N = 0) by nia. lia.
Qed.

Definition slot (n : nat) (idx : Z) (j : nat) : nat :=
  Z.to_nat ((idx - Z.of_nat j) mod Z.of_nat n).

Lemma slot_lt n idx j : (1 <= n)%nat -> (slot n idx j < n)%nat.
Proof.
  intros Hn. unfold slot.
  pose proof (Z.mod_pos_bound (idx - Z.of_nat j) (Z.of_nat n) ltac:(lia)). lia.
Qed.

Lemma slot_inj n idx j j' : (j < n)%nat -> (j' < n)%nat -> slot n idx j = slot n idx j' -> j = j'.
Proof.
  intros Hj Hj' E. unfold slot in E.
  pose proof (Z.mod_pos_bound (idx - Z.of_nat j) (Z.of_nat n) ltac:(lia)).
  pose proof (Z.mod_pos_bound (idx - Z.of_nat j') (Z.of_nat n) ltac:(lia)).
  assert (E' : (idx - Z.of_nat j) mod Z.of_nat n = (idx - Z.of_nat j') mod Z.of_nat n) by lia.
  apply mod_inj in E'; lia.
Qed.

Lemma slot_shift n idx j : slot n (idx + 1) (S j) = slot n idx j.
Proof. unfold slot. f_equal. f_equal. lia. Qed.

Lemma slot_zero n idx : slot n idx 0 = Z.to_nat (idx mod Z.of_nat n).
Proof. unfold slot. f_equal. f_equal. cbn [Z.of_nat]. lia. Qed.

Lemma slot_perm n idx : (1 <= n)%nat -> Permutation (map (slot n idx) (seq 0 n)) (seq 0 n).
Proof.
  intros Hn. apply NoDup_Permutation_bis.
  - assert (H : forall l, NoDup l -> (forall j, In j l -> (j < n)%nat) -> NoDup (map (slot n idx) l)).
    { induction l as [|a l IH]; intros ND Hl; cbn [map]; [constructor|].
      inversion ND as [|a' l' Hnotin ND']; subst. constructor.
      - intros Hin. apply in_map_iff in Hin. destruct Hin as [j [Ej Hj]].
        apply slot_inj in Ej; [subst; contradiction| |]; apply Hl; [right|left]; auto.
      - apply IH; [exact ND'|]. intros j Hj. apply Hl. right. exact Hj. }
    apply H; [apply seq_NoDup|]. intros j Hj. apply in_seq in Hj. lia.
  - rewrite map_length. lia.
  - intros p Hp. apply in_map_iff in Hp. destruct Hp as [j [Ej _]]. subst p.
    apply in_seq. pose proof (slot_lt n idx j Hn). lia.
Qed.

Definition wcore (c : cfg) (hi : Z) (n : nat) (w : window) (ws : list (list Z)) : Prop :=
  length (w_hs w) = n /\ (length ws <= n)%nat /\
  Forall (Forall (fun v => 0 <= v <= hi)) ws /\
  h_cfg (w_m w) = c /\
  forall j, (j < n)%nat ->
    exists h, nth_error (w_hs w) (slot n (w_idx w) j) = Some h /\ rep c h (nth j ws []).

Lemma rotate_core c hi n w ws : (1 <= n)%nat -> wcore c hi n w ws ->
  wcore c hi n (rotate w) (firstn n ([] :: ws)).
Proof.
  intros Hn [Hlen [Hws [HF [Hm Hslots]]]].
  unfold rotate. cbv zeta. rewrite Hlen. rewrite <- slot_zero.
  pose proof (slot_lt n (w_idx w + 1) 0 Hn) as Hp.
  destruct (nth_error (w_hs w) (slot n (w_idx w + 1) 0)) as [h0|] eqn:E0.
  2:{ apply nth_error_None in E0. lia. }
  assert (Hrep0 : exists vs, rep c h0 vs).
  { assert (Hin : In (slot n (w_idx w + 1) 0) (map (slot n (w_idx w)) (seq 0 n))).
    { apply (Permutation_in _ (Permutation_sym (slot_perm n (w_idx w) Hn))). apply in_seq. lia. }
    apply in_map_iff in Hin. destruct Hin as [j [Ej Hj]]. apply in_seq in Hj.
    destruct (Hslots j ltac:(lia)) as [h [Eh Hr]]. rewrite Ej, E0 in Eh.
    injection Eh as <-. eexists. exact Hr. }
  destruct Hrep0 as [vs0 Hrep0].
  unfold wcore. cbn [w_hs w_idx w_m]. rewrite set_nth_length.
  split; [exact Hlen|]. split.
  { pose proof (firstn_le_length n ([] :: ws)). lia. }
  split.
  { apply Forall_firstn_of. constructor; [constructor|exact HF]. }
  split; [exact Hm|].
  intros j Hj. destruct j as [|j].
  - exists (reset h0). split.
    + apply nth_error_set_nth_same. lia.
    + rewrite nth_firstn_lt by lia. cbn [nth]. exact (rep_reset c h0 vs0 Hrep0).
  - rewrite nth_error_set_nth_other.
    2:{ intros E. apply slot_inj in E; lia. }
    rewrite slot_shift. rewrite nth_firstn_lt by lia. cbn [nth].
    apply Hslots. lia.
Qed.

Lemma record_core c hi n w cur r v : geom c hi -> (1 <= n)%nat -> 0 <= v <= hi ->
  wcore c hi n w (cur :: r) ->
  wcore c hi n (fst (w_record w v)) ((cur ++ [v]) :: r).
Proof.
  intros G Hn Hv [Hlen [Hws [HF [Hm Hslots]]]].
  destruct (Hslots 0%nat ltac:(lia)) as [h [Eh Hr]]. cbn [nth] in Hr.
  destruct (rep_record c hi h cur v G Hr Hv) as [h' [Es Hr']].
  unfold w_record, w_cur_pos. rewrite Hlen, <- slot_zero, Eh, Es. cbn [fst].
  unfold wcore. cbn [w_hs w_idx w_m]. rewrite set_nth_length.
  split; [exact Hlen|]. split; [exact Hws|].
  split.
  { inversion HF as [|x l Hcur Hrest]; subst. constructor; [|exact Hrest].
    apply Forall_app. split; [exact Hcur|]. constructor; [exact Hv|constructor]. }
  split; [exact Hm|].
  intros j Hj. destruct j as [|j].
  - exists h'. split; [|exact Hr'].
    apply nth_error_set_nth_same. rewrite Hlen. apply slot_lt. exact Hn.
  - rewrite nth_error_set_nth_other.
    2:{ intros E. apply slot_inj in E; lia. }
    cbn [nth]. destruct (Hslots (S j) Hj) as [h1 [E1 R1]]. cbn [nth] in R1.
    exists h1. split; assumption.
Qed.

Lemma init_core lo hi s n : (1 <= n)%nat ->
  wcore (config_of lo hi s) hi n (new_windowed n lo hi s) [[]].
Proof.
  intros Hn. unfold new_windowed.
  assert (H0 : wcore (config_of lo hi s) hi n (mkWin (-1) (repeat (new lo hi s) n) (new lo hi s)) []).
  { unfold wcore. cbn [w_hs w_idx w_m]. rewrite repeat_length.
    split; [reflexivity|]. split; [cbn [length]; lia|]. split; [constructor|].
    split; [reflexivity|]. intros j Hj. exists (new lo hi s). split.
    - apply nth_error_repeat_lt. apply slot_lt. exact Hn.
    - replace (nth j [] []) with (@nil Z) by (destruct j; reflexivity). apply rep_new. }
  pose proof (rotate_core _ hi n _ [] Hn H0) as H1.
  replace (firstn n [[]]) with [@nil Z] in H1; [exact H1|].
  destruct n as [|n]; [lia|]. cbn [firstn]. rewrite firstn_nil. reflexivity.
Qed.

(* merging all the ring slots *)
Lemma merge_fold_all c hi : geom c hi -> forall hs acc,
  hinv c acc -> Forall (hinv c) hs ->
  hinv c (fold_left (fun a h => fst (merge a h)) hs acc) /\
  h_total (fold_left (fun a h => fst (merge a h)) hs acc) = h_total acc + zsum (map h_total hs) /\
  forall i, 0 <= i < c_len c ->
    h_counts (fold_left (fun a h => fst (merge a h)) hs acc) i
    = h_counts acc i + zsum (map (fun h => h_counts h i) hs).
Proof.
  intros G. induction hs as [|h hs IH]; intros acc Hacc HF.
  - cbn [fold_left map]. rewrite zsum_nil. split; [exact Hacc|]. split; [lia|].
    intros i _. lia.
  - cbn [fold_left map]. rewrite zsum_cons.
    destruct (merge_same_gen c hi acc h G Hacc (Forall_inv HF)) as [m [Em [Hm [Htm Hcm]]]].
    rewrite Em. cbn [fst].
    destruct (IH m Hm (Forall_inv_tail HF)) as [A [B C]].
    split; [exact A|]. split; [lia|].
    intros i Hi. rewrite (C i Hi), (Hcm i Hi), zsum_cons. lia.
Qed.

Lemma sum_nth_pad {A} (F : list A -> Z) (ws : list (list A)) n :
  (length ws <= n)%nat -> F [] = 0 ->
  zsum (map (fun j => F (nth j ws [])) (seq 0 n)) = zsum (map F ws).
Proof.
  intros Hlen H0.
  replace n with (length ws + (n - length ws))%nat by lia.
  rewrite seq_app, map_app, zsum_app.
  rewrite <- (map_map (fun j => nth j ws []) F), map_nth_seq.
  rewrite (zsum_map_zero_in (fun j => F (nth j ws []))); [lia|].
  intros j Hj. apply in_seq in Hj. rewrite nth_overflow by lia. exact H0.
Qed.

Lemma length_concat_Z (ls : list (list Z)) :
  Z.of_nat (length (concat ls)) = zsum (map (fun l => Z.of_nat (length l)) ls).
Proof.
  induction ls as [|l ls IH]; cbn [concat map].
  - reflexivity.
  - rewrite app_length, zsum_cons. lia.
Qed.

Lemma Forall_concat_of {A} (P : A -> Prop) ls : Forall (Forall P) ls -> Forall P (concat ls).
Proof.
  induction 1 as [|l ls Hl _ IH]; cbn [concat]; [constructor|].
  apply Forall_app. split; assumption.
Qed.

Lemma window_merge lo hi s n w ws :
  (0 <= lo /\ 1 <= hi < 2 ^ 62 /\ 1 <= s <= 5) -> (1 <= n)%nat ->
  wcore (config_of lo hi s) hi n w ws ->
  h_cfg (w_merge w) = h_cfg (fst (record_all (new lo hi s) (concat (rev ws)))) /\
  h_total (w_merge w) = h_total (fst (record_all (new lo hi s) (concat (rev ws)))) /\
  forall i, 0 <= i < c_len (h_cfg (w_merge w)) ->
    h_counts (w_merge w) i = h_counts (fst (record_all (new lo hi s) (concat (rev ws)))) i.
Proof.
  intros Hcfg Hn [Hlen [Hws [HF [Hm Hslots]]]].
  destruct (config_geom lo hi s Hcfg) as [G _].
  set (c := config_of lo hi s) in *.
  assert (HFc : Forall (fun v => 0 <= v <= hi) (concat (rev ws))).
  { apply Forall_concat_of. apply Forall_forall. intros l Hl. apply in_rev in Hl.
    rewrite Forall_forall in HF. exact (HF l Hl). }
  destruct (rep_hist_of lo hi s _ Hcfg HFc) as [[Hc2 _] [Ht2 Hcnt2]]. fold c in Hc2, Hcnt2.
  (* every slot is a good histogram *)
  assert (Hslot_nth : forall j, (j < n)%nat ->
            rep c (nth (slot n (w_idx w) j) (w_hs w) (new lo hi s)) (nth j ws [])).
  { intros j Hj. destruct (Hslots j Hj) as [h [Eh Hr]].
    rewrite (nth_error_nth _ _ _ Eh). exact Hr. }
  assert (Hall : Forall (hinv c) (w_hs w)).
  { apply Forall_forall. intros h Hh.
    destruct (In_nth _ _ (new lo hi s) Hh) as [p [Hp Ep]].
    assert (Hin : In p (map (slot n (w_idx w)) (seq 0 n))).
    { apply (Permutation_in _ (Permutation_sym (slot_perm n (w_idx w) Hn))). apply in_seq. lia. }
    apply in_map_iff in Hin. destruct Hin as [j [Ej Hj]]. apply in_seq in Hj.
    destruct (Hslot_nth j ltac:(lia)) as [X _]. rewrite Ej, Ep in X. exact X. }
  assert (Hreset : hinv c (reset (w_m w))).
  { unfold reset. split; [exact Hm|]. cbn [h_counts h_total]. split.
    - intros i. lia.
    - rewrite zsum_map_zero; reflexivity. }
  unfold w_merge.
  destruct (merge_fold_all c hi G (w_hs w) (reset (w_m w)) Hreset Hall) as [[A _] [B C]].
  (* sums over the ring = sums over the window list *)
  assert (Hsum : forall (g : hist -> Z) (F : list Z -> Z), F [] = 0 ->
            (forall h vs, rep c h vs -> g h = F vs) ->
            zsum (map g (w_hs w)) = zsum (map F ws)).
  { intros g F HF0 HgF.
    rewrite <- (map_nth_seq (new lo hi s) (w_hs w)) at 1. rewrite Hlen, map_map.
    rewrite <- (map_map (fun p => p) (fun p => g (nth p (w_hs w) (new lo hi s)))), map_id.
    rewrite <- (zsum_perm _ _ (Permutation_map (fun p => g (nth p (w_hs w) (new lo hi s)))
                                 (slot_perm n (w_idx w) Hn))).
    rewrite map_map. rewrite <- (sum_nth_pad F ws n Hws HF0).
    apply zsum_map_ext_in. intros j Hj. apply in_seq in Hj.
    apply HgF. apply Hslot_nth. lia. }
  rewrite A, Hc2. split; [reflexivity|]. split.
  - rewrite B, Ht2. cbn [reset h_total]. rewrite length_concat_Z, map_rev, zsum_rev.
    rewrite (Hsum h_total (fun l => Z.of_nat (length l))); [lia|reflexivity|].
    intros h vs [_ [Ht _]]. exact Ht.
  - intros i Hi. rewrite (C i Hi), Hcnt2. cbn [reset h_counts].
    rewrite occ_concat, map_rev, zsum_rev.
    rewrite (Hsum (fun h => h_counts h i) (fun l => occ c l i)); [lia|reflexivity|].
    intros h vs [_ [_ Hcnt]]. apply Hcnt.
Qed.

Lemma hdrq_window_gen : forall (op : Type) (cls : op -> option Z)
    (wstep : window -> op -> window) (sstep : list (list Z) -> op -> list (list Z))
    (n : nat) lo hi s (ops : list op),
  (forall w o, wstep w o = match cls o with Some v => fst (w_record w v) | None => rotate w end) ->
  (forall ws o, sstep ws o = match cls o, ws with
                             | Some v, cur :: r => (cur ++ [v]) :: r
                             | Some v, [] => []
                             | None, _ => firstn n ([] :: ws)
                             end) ->
  (1 <= n)%nat -> (0 <= lo /\ 1 <= hi < 2 ^ 62 /\ 1 <= s <= 5) ->
  Forall (fun o => match cls o with Some v => 0 <= v <= hi | None => True end) ops ->
  let w := fold_left wstep ops (new_windowed n lo hi s) in
  let ws := fold_left sstep ops [[]] in
  h_cfg (w_merge w) = h_cfg (fst (record_all (new lo hi s) (concat (rev ws)))) /\
  h_total (w_merge w) = h_total (fst (record_all (new lo hi s) (concat (rev ws)))) /\
  forall i, 0 <= i < c_len (h_cfg (w_merge w)) ->
    h_counts (w_merge w) i = h_counts (fst (record_all (new lo hi s) (concat (rev ws)))) i.
Proof.
  intros op cls wstep sstep n lo hi s ops Hwstep Hsstep Hn Hcfg Hops w ws.
  destruct (config_geom lo hi s Hcfg) as [G _].
  apply (window_merge lo hi s n w ws Hcfg Hn).
  assert (Hinv : forall ops w0 ws0,
            Forall (fun o => match cls o with Some v => 0 <= v <= hi | None => True end) ops ->
            wcore (config_of lo hi s) hi n w0 ws0 -> ws0 <> [] ->
            wcore (config_of lo hi s) hi n (fold_left wstep ops w0) (fold_left sstep ops ws0)).
  { clear ops Hops w ws. induction ops as [|o ops IH]; intros w0 ws0 HF Hcore Hne.
    - exact Hcore.
    - cbn [fold_left]. pose proof (Forall_inv HF) as Ho. cbv beta in Ho.
      rewrite Hwstep, Hsstep. destruct (cls o) as [v|].
      + destruct ws0 as [|cur r]; [congruence|].
        apply IH; [exact (Forall_inv_tail HF)| |discriminate].
        exact (record_core _ hi n w0 cur r v G Hn Ho Hcore).
      + apply IH; [exact (Forall_inv_tail HF)| |].
        * exact (rotate_core _ hi n w0 ws0 Hn Hcore).
        * destruct n as [|n']; [lia|]. cbn [firstn]. discriminate. }
  apply Hinv; [exact Hops| |discriminate].
  exact (init_core lo hi s n Hn).
Qed.
Print Assumptions hdrq_window_gen.
