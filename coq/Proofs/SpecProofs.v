(* C03: the format specification (Spec/FtdcSpec.v) is self-consistent, the model of
   the library's encoder produces the specification's canonical encoding, and the
   model of the library's reader accepts whatever the specification's decoder
   accepts. *)
From Coq Require Import ZArith NArith List Bool Lia Arith.
From Coq Require Import ZifyN ZifyNat ZifyBool.
From FV.Model Require Import Bytes Bson.
From FV.Spec Require Import FtdcSpec.
From FV.Proofs Require Import BytesProofs BsonProofs.
Import ListNotations.
Open Scope Z_scope.

(* ================================================================== part A: the specification alone *)

(* ------------------------------------------------------------------ lists *)
Lemma sp_skipn_skipn : forall (A : Type) (a b : nat) (l : list A), skipn a (skipn b l) = skipn (b + a) l.
Proof.
  intros A a b. induction b as [|b IH]; intros l; [reflexivity|].
  destruct l as [|x l]; [destruct a; reflexivity|]. cbn [skipn Nat.add]. apply IH.
Qed.

Lemma sp_map_nth_seq : forall (A : Type) (l : list A) d, map (fun i => nth i l d) (seq 0 (length l)) = l.
Proof.
  intros A l d. induction l as [|a r IH]; [reflexivity|].
  cbn [length seq map nth]. f_equal. rewrite <- seq_shift, map_map. exact IH.
Qed.

Lemma sp_combine_seq : forall (A B : Type) (l : list A) (h : nat -> B) d,
  combine l (map h (seq 0 (length l))) = map (fun i => (nth i l d, h i)) (seq 0 (length l)).
Proof.
  intros A B l. induction l as [|a r IH]; intros h d; [reflexivity|].
  cbn [length seq map combine nth]. f_equal.
  rewrite <- seq_shift, !map_map. apply (IH (fun i => h (S i)) d).
Qed.

Lemma sp_length_pos : forall (l : bytes), l <> [] -> (1 <= length l)%nat.
Proof. intros [|a l] H; [congruence|cbn [length]; lia]. Qed.

(* ------------------------------------------------------------------ stretches of zeros *)
Lemma count_zeros_le : forall ds, (count_zeros ds <= length ds)%nat.
Proof.
  induction ds as [|d r IH]; [apply Nat.le_refl|].
  cbn [count_zeros length]. destruct (d =? 0)%N; lia.
Qed.

Lemma count_zeros_split : forall ds p, (p <= count_zeros ds)%nat -> ds = repeat 0%N p ++ skipn p ds.
Proof.
  induction ds as [|d r IH]; intros p Hp.
  - cbn [count_zeros] in Hp. assert (p = 0%nat) by lia. subst p. reflexivity.
  - destruct p as [|p]; [reflexivity|].
    cbn [count_zeros] in Hp. destruct (d =? 0)%N eqn:Hd; [|lia].
    assert (d = 0%N) by dlia. subst d.
    cbn [repeat app skipn]. f_equal. apply IH. lia.
Qed.

Lemma count_zeros_repeat : forall n l, (match l with [] => True | x :: _ => x <> 0%N end) ->
  count_zeros (repeat 0%N n ++ l) = n.
Proof.
  induction n as [|n IH]; intros l Hl.
  - cbn [repeat app]. destruct l as [|x l]; [reflexivity|].
    cbn [count_zeros]. replace (x =? 0)%N with false by dlia. reflexivity.
  - cbn [repeat app count_zeros]. change (0 =? 0)%N with true. cbn iota. rewrite IH by exact Hl. reflexivity.
Qed.

Lemma skipn_count_zeros_head : forall ds,
  match skipn (count_zeros ds) ds with [] => True | x :: _ => x <> 0%N end.
Proof.
  induction ds as [|d r IH]; [exact I|].
  cbn [count_zeros]. destruct (d =? 0)%N eqn:Hd.
  - cbn [skipn]. exact IH.
  - cbn [skipn]. dlia.
Qed.

(* the size of a zero pair chosen by the encoder lies between 1 and the stretch *)
Definition piece_of (choice : list N) (L : nat) : nat :=
  match choice with [] => L | c :: _ => S (N.to_nat (c mod N.of_nat L)) end.

Lemma piece_of_range : forall choice L, (1 <= L)%nat -> (1 <= piece_of choice L <= L)%nat.
Proof.
  intros [|c choice] L HL; unfold piece_of; [lia|].
  assert (c mod N.of_nat L < N.of_nat L)%N by (apply N.mod_lt; lia). lia.
Qed.

Lemma spec_tokens_nil : forall f choice, spec_tokens f choice [] = [].
Proof. intros [|f] choice; reflexivity. Qed.

Lemma spec_tokens_zero : forall f choice r,
  spec_tokens (S f) choice (0%N :: r) =
  TRun (N.of_nat (piece_of choice (count_zeros (0%N :: r)) - 1))
  :: spec_tokens f (tl choice) (skipn (piece_of choice (count_zeros (0%N :: r))) (0%N :: r)).
Proof. intros f choice r. reflexivity. Qed.

Lemma spec_tokens_val : forall f choice d r, d <> 0%N ->
  spec_tokens (S f) choice (d :: r) = TVal d :: spec_tokens f choice r.
Proof.
  intros f choice d r Hd. cbn [spec_tokens]. replace (d =? 0)%N with false by dlia. reflexivity.
Qed.

(* ------------------------------------------------------------------ the delta section round trip *)
Lemma spec_expand_S : forall f remaining bs,
  spec_expand (S f) remaining bs =
  if (remaining =? 0)%N then (match bs with [] => Some [] | _ => None end)
  else
    match uvarint_dec bs with
    | VOk d r =>
        if (d =? 0)%N then
          match uvarint_dec r with
          | VOk n r' =>
              if (n + 1 <=? remaining)%N then
                match spec_expand f (remaining - (n + 1))%N r' with
                | Some ds => Some (repeat 0%N (N.to_nat (n + 1)) ++ ds)
                | None => None
                end
              else None
          | _ => None
          end
        else
          match spec_expand f (remaining - 1)%N r with
          | Some ds => Some (d :: ds)
          | None => None
          end
    | _ => None
    end.
Proof. reflexivity. Qed.

Definition enc_toks (ts : list tok) : bytes := concat (map enc_tok ts).

Lemma enc_toks_cons : forall t ts, enc_toks (t :: ts) = enc_tok t ++ enc_toks ts.
Proof. reflexivity. Qed.

Lemma uvarint_enc_length : forall x, (1 <= length (uvarint_enc x))%nat.
Proof. intros x. apply sp_length_pos. apply uvarint_enc_nonempty. Qed.

(* any cutting of the zeros decodes to the same deltas *)
Lemma expand_tokens : forall f choice ds fuel,
  Forall (fun d => (d < 2 ^ 64)%N) ds -> (N.of_nat (length ds) < 2 ^ 64)%N -> (length ds <= f)%nat ->
  (length (enc_toks (spec_tokens f choice ds)) < fuel)%nat ->
  spec_expand fuel (N.of_nat (length ds)) (enc_toks (spec_tokens f choice ds)) = Some ds.
Proof.
  induction f as [|f IH]; intros choice ds fuel Hall Hlen Hf Hfuel.
  - destruct ds as [|d r]; [|cbn [length] in Hf; lia].
    destruct fuel as [|fuel]; [lia|]. reflexivity.
  - destruct ds as [|d r].
    + rewrite spec_tokens_nil in *. destruct fuel as [|fuel]; [lia|]. reflexivity.
    + inversion Hall as [|d' r' Hd Hr]; subst.
      destruct fuel as [|fuel]; [lia|].
      destruct (N.eq_dec d 0) as [Hz|Hnz].
      * subst d. rewrite spec_tokens_zero in *.
        set (L := count_zeros (0%N :: r)) in *.
        assert (HL : (1 <= L <= length (0%N :: r))%nat).
        { split; [unfold L; cbn [count_zeros]; change (0 =? 0)%N with true; cbn iota; lia|apply count_zeros_le]. }
        pose proof (piece_of_range choice L ltac:(lia)) as Hp.
        set (p := piece_of choice L) in *.
        pose proof (count_zeros_split (0%N :: r) p ltac:(fold L; lia)) as Hsplit.
        set (rest := skipn p (0%N :: r)) in *.
        assert (Hrl : length rest = (length (0%N :: r) - p)%nat) by apply skipn_length.
        rewrite enc_toks_cons in *. cbn [enc_tok] in *.
        rewrite spec_expand_S.
        replace (N.of_nat (length (0%N :: r)) =? 0)%N with false by (cbn [length]; dlia).
        rewrite <- !app_assoc.
        rewrite uvarint_dec_enc by dlia.
        change (0 =? 0)%N with true. cbn iota.
        rewrite uvarint_dec_enc by dlia.
        replace (N.of_nat (p - 1) + 1 <=? N.of_nat (length (0%N :: r)))%N with true by dlia.
        replace (N.of_nat (length (0%N :: r)) - (N.of_nat (p - 1) + 1))%N with (N.of_nat (length rest)) by dlia.
        rewrite !app_length in Hfuel.
        pose proof (uvarint_enc_length 0) as H0. pose proof (uvarint_enc_length (N.of_nat (p - 1))) as H1.
        rewrite IH.
        -- replace (N.to_nat (N.of_nat (p - 1) + 1)) with p by dlia. rewrite <- Hsplit. reflexivity.
        -- rewrite Hsplit in Hall. apply Forall_app in Hall. apply Hall.
        -- dlia.
        -- cbn [length] in *. lia.
        -- lia.
      * rewrite spec_tokens_val in * by exact Hnz.
        rewrite enc_toks_cons in *. cbn [enc_tok] in *.
        rewrite spec_expand_S.
        replace (N.of_nat (length (d :: r)) =? 0)%N with false by (cbn [length]; dlia).
        rewrite uvarint_dec_enc by exact Hd.
        replace (d =? 0)%N with false by dlia.
        replace (N.of_nat (length (d :: r)) - 1)%N with (N.of_nat (length r)) by (cbn [length]; dlia).
        rewrite app_length in Hfuel. pose proof (uvarint_enc_length d) as H0.
        rewrite IH; [reflexivity|exact Hr|cbn [length] in Hlen; dlia|cbn [length] in Hf; lia|lia].
Qed.

Lemma spec_expand_encode_deltas : forall choice ds,
  Forall (fun d => (d < 2 ^ 64)%N) ds -> (N.of_nat (length ds) < 2 ^ 64)%N ->
  spec_expand (S (length (spec_encode_deltas choice ds))) (N.of_nat (length ds)) (spec_encode_deltas choice ds) = Some ds.
Proof.
  intros choice ds Hall Hlen. unfold spec_encode_deltas. fold (enc_toks (spec_tokens (length ds) choice ds)).
  apply expand_tokens; try assumption; lia.
Qed.

(* the canonical cutting: one pair per stretch *)
Lemma canonical_maximal : forall f ds, maximal_runs (spec_tokens f [] ds) = true.
Proof.
  induction f as [|f IH]; intros ds; [reflexivity|].
  destruct ds as [|d r]; [reflexivity|].
  destruct (N.eq_dec d 0) as [Hz|Hnz].
  - subst d. rewrite spec_tokens_zero. unfold piece_of. cbn [tl].
    pose proof (skipn_count_zeros_head (0%N :: r)) as Hh.
    specialize (IH (skipn (count_zeros (0%N :: r)) (0%N :: r))).
    destruct (skipn (count_zeros (0%N :: r)) (0%N :: r)) as [|x l] eqn:E.
    + rewrite spec_tokens_nil. reflexivity.
    + destruct f as [|f]; [reflexivity|].
      rewrite spec_tokens_val in * by exact Hh. cbn [maximal_runs] in *. exact IH.
  - rewrite spec_tokens_val by exact Hnz.
    specialize (IH r). cbn [maximal_runs]. exact IH.
Qed.

(* ------------------------------------------------------------------ columns, slices, sums *)
Lemma spec_column_length : forall i samples, length (spec_column i samples) = length samples.
Proof. intros i samples. apply map_length. Qed.

Lemma spec_diffs_length : forall vals v, length (spec_diffs v vals) = length vals.
Proof. induction vals as [|x r IH]; intros v; [reflexivity|]. cbn [spec_diffs length]. rewrite IH. reflexivity. Qed.

Lemma spec_diffs_lt : forall vals v, Forall (fun d => (d < 2 ^ 64)%N) (spec_diffs v vals).
Proof. induction vals as [|x r IH]; intros v; cbn [spec_diffs]; constructor; [apply u64_lt|apply IH]. Qed.

Definition col_diffs (s0 : list Z) (rest : list (list Z)) (i : nat) : list N :=
  spec_diffs (nth i s0 0) (spec_column i rest).

Lemma spec_deltas_cols : forall nm s0 rest,
  spec_deltas nm (s0 :: rest) = flat_map (col_diffs s0 rest) (seq 0 nm).
Proof. intros nm s0 rest. reflexivity. Qed.

Lemma flat_map_cols_length : forall s0 rest n a,
  length (flat_map (col_diffs s0 rest) (seq a n)) = (n * length rest)%nat.
Proof.
  intros s0 rest. induction n as [|n IH]; intros a; [reflexivity|].
  cbn [seq flat_map]. rewrite app_length, IH. unfold col_diffs at 1.
  rewrite spec_diffs_length, spec_column_length. reflexivity.
Qed.

Lemma spec_deltas_length : forall nm s0 rest, length (spec_deltas nm (s0 :: rest)) = (nm * length rest)%nat.
Proof. intros. rewrite spec_deltas_cols. apply flat_map_cols_length. Qed.

Lemma spec_deltas_lt : forall nm s0 rest, Forall (fun d => (d < 2 ^ 64)%N) (spec_deltas nm (s0 :: rest)).
Proof.
  intros nm s0 rest. rewrite spec_deltas_cols. apply Forall_forall. intros x Hx.
  apply in_flat_map in Hx. destruct Hx as [i [_ Hx]].
  pose proof (spec_diffs_lt (spec_column i rest) (nth i s0 0)) as HF. rewrite Forall_forall in HF. apply HF. exact Hx.
Qed.

Lemma spec_slices_cols : forall s0 rest n a,
  spec_slices (length rest) n (flat_map (col_diffs s0 rest) (seq a n)) = map (col_diffs s0 rest) (seq a n).
Proof.
  intros s0 rest. induction n as [|n IH]; intros a; [reflexivity|].
  cbn [seq flat_map spec_slices map].
  assert (Hl : length (col_diffs s0 rest a) = length rest)
    by (unfold col_diffs; rewrite spec_diffs_length, spec_column_length; reflexivity).
  rewrite firstn_app_exact by exact Hl. rewrite skipn_app_exact by exact Hl. rewrite IH. reflexivity.
Qed.

Lemma wrap64_add_u64_sub : forall v x, in_i64 x = true -> wrap64 (v + Z.of_N (u64 (x - v))) = x.
Proof. intros v x Hx. apply in_i64_iff in Hx. unfold wrap64, u64. dlia. Qed.

Lemma spec_sums_diffs : forall vals v, Forall (fun x => in_i64 x = true) vals ->
  spec_sums v (spec_diffs v vals) = v :: vals.
Proof.
  induction vals as [|x r IH]; intros v Hall; [reflexivity|].
  inversion Hall as [|x' r' Hx Hr]; subst.
  cbn [spec_diffs spec_sums]. rewrite wrap64_add_u64_sub by exact Hx. rewrite IH by exact Hr. reflexivity.
Qed.

(* from the columns back to the samples *)
Lemma spec_rows_columns : forall nm samples, Forall (fun s => length s = nm) samples ->
  spec_rows (length samples) (map (fun i => spec_column i samples) (seq 0 nm)) = samples.
Proof.
  intros nm samples Hall. unfold spec_rows.
  rewrite <- (sp_map_nth_seq _ samples []) at 2.
  apply map_ext_in. intros j Hj. apply in_seq in Hj.
  rewrite map_map.
  assert (Hlen : length (nth j samples []) = nm).
  { rewrite Forall_forall in Hall. apply Hall. apply nth_In. lia. }
  rewrite <- (sp_map_nth_seq _ (nth j samples []) 0) at 1. rewrite Hlen.
  apply map_ext. intros i. unfold spec_column.
  rewrite <- (map_nth (fun s : list Z => nth i s 0) samples [] j). destruct i; reflexivity.
Qed.

(* ------------------------------------------------------------------ one chunk *)
Lemma lookup_id_spec_chunk : forall id ty b, lookup f_id [(f_id, VDateTime id); (f_type, ty); (f_data, b)] = Some (VDateTime id).
Proof. reflexivity. Qed.
Lemma lookup_type_spec : forall id ty k b, lookup f_type [(f_id, VDateTime id); (f_type, ty); (k, b)] = Some ty.
Proof. reflexivity. Qed.
Lemma lookup_data_spec_chunk : forall id ty b, lookup f_data [(f_id, VDateTime id); (f_type, ty); (f_data, b)] = Some b.
Proof. reflexivity. Qed.

Lemma spec_payload_decodes : forall choice ref rest, chunk_wf choice ref rest ->
  spec_decode_payload (spec_payload choice ref rest) = Some (spec_metrics_doc ref :: rest, ref).
Proof.
  intros choice ref rest (Hok & Hsmall & Hrows & Hnm & Hnd & _).
  unfold spec_decode_payload, spec_payload.
  set (start := spec_metrics_doc ref) in *.
  rewrite (dec_enc_doc ref _ Hok Hsmall).
  rewrite bs_read_le4 by exact Hnm. rewrite bs_read_le4 by exact Hnd.
  rewrite N.eqb_refl. cbn [negb].
  set (ds := spec_deltas (length start) (start :: rest)).
  assert (Hdl : length ds = (length start * length rest)%nat) by apply spec_deltas_length.
  replace (N.of_nat (length start) * N.of_nat (length rest))%N with (N.of_nat (length ds)) by (rewrite Hdl; lia).
  rewrite spec_expand_encode_deltas.
  - rewrite Nat2N.id. unfold ds. rewrite spec_deltas_cols, spec_slices_cols.
    fold start.
    rewrite (sp_combine_seq _ _ start (col_diffs start rest) 0), map_map. cbn [fst snd].
    f_equal. f_equal.
    replace (S (length rest)) with (length (start :: rest)) by reflexivity.
    rewrite <- (spec_rows_columns (length start) (start :: rest)) at 2.
    + f_equal. apply map_ext_in. intros i Hi. unfold col_diffs.
      rewrite spec_sums_diffs; [reflexivity|].
      apply Forall_forall. intros x Hx. unfold spec_column in Hx. apply in_map_iff in Hx.
      destruct Hx as [s [Hx Hs]]. subst x. rewrite Forall_forall in Hrows. destruct (Hrows s Hs) as [Hsl Hsv].
      destruct (nth_in_or_default i s 0) as [Hin|Hd]; [|rewrite Hd; reflexivity].
      rewrite Forall_forall in Hsv. apply Hsv. exact Hin.
    + constructor; [reflexivity|]. revert Hrows. apply Forall_impl. intros s [Hs _]. exact Hs.
  - apply spec_deltas_lt.
  - rewrite Hdl. assert (2 ^ 32 * 2 ^ 32 = 2 ^ 64)%N by reflexivity. nia.
Qed.

Section Zlib.
Variable deflate : bytes -> bytes.
Variable inflate : bytes -> option bytes.
Hypothesis inflate_deflate : forall p, inflate (deflate p) = Some p.

Lemma spec_chunk_roundtrip : forall id ty choice ref rest, chunk_wf choice ref rest ->
  spec_decode_chunk inflate (spec_chunk_doc deflate id ty choice ref rest) = Some (spec_metrics_doc ref :: rest, ref).
Proof.
  intros id ty choice ref rest Hwf.
  unfold spec_decode_chunk, spec_chunk_doc.
  rewrite lookup_id_spec_chunk, lookup_data_spec_chunk.
  change (0 =? 0)%N with true. cbn [negb]. unfold spec_data.
  rewrite bs_read_le4 by apply Hwf.
  rewrite inflate_deflate, N.eqb_refl.
  apply spec_payload_decodes. exact Hwf.
Qed.

Lemma spec_class_chunk : forall id ty choice ref rest,
  spec_num_is 0 ty = false -> spec_num_is 1 ty = true ->
  spec_class (spec_chunk_doc deflate id ty choice ref rest) = SChunk.
Proof.
  intros id ty choice ref rest H0 H1. unfold spec_class, spec_chunk_doc.
  rewrite lookup_type_spec, H0, H1. reflexivity.
Qed.

Lemma spec_class_meta : forall id ty m, spec_num_is 0 ty = true -> spec_class (spec_meta_doc id ty m) = SMeta.
Proof. intros id ty m H0. unfold spec_class, spec_meta_doc. rewrite lookup_type_spec, H0. reflexivity. Qed.

(* every stream of the specification's encoder, whatever the cutting of the zero
   stretches, the encoding of the type field and the documents in between, decodes
   to the chunks it was built from *)
Theorem spec_stream_roundtrip : forall items, Forall item_wf items ->
  spec_decode_stream inflate (spec_encode deflate items) = Some (item_tables items).
Proof.
  induction items as [|it items IH]; intros Hwf; [reflexivity|].
  inversion Hwf as [|x y Hit Hrest]; subst. specialize (IH Hrest).
  destruct it as [id ty m|id ty choice ref rest|d]; cbn [spec_encode map spec_encode_item item_tables spec_decode_stream item_wf] in *.
  - rewrite spec_class_meta by exact Hit. exact IH.
  - destruct Hit as (H0 & H1 & Hc). rewrite spec_class_chunk by assumption.
    rewrite spec_chunk_roundtrip by exact Hc. fold (spec_encode deflate items). rewrite IH. reflexivity.
  - rewrite Hit. exact IH.
Qed.

End Zlib.


(* ================================================================== part B: the model of the library against the specification *)
From FV.Model Require Import Metrics Codec Collector Wf RoundTrip.
From FV.Proofs Require Import MetricsProofs CodecChunk CodecProofs.

(* ------------------------------------------------------------------ metric extraction *)
(* every date leaf lies in the range Go expresses in nanoseconds (the library goes
   through time.Time; outside this range its millisecond value differs from the
   document's) *)
Fixpoint dates_ok (v : value) : bool :=
  match v with
  | VDateTime ms => date_ok ms
  | VDoc d => (fix go (l : list (bytes * value)) : bool :=
                 match l with [] => true | (_, x) :: r => dates_ok x && go r end) d
  | VArr a => (fix go (l : list value) : bool :=
                 match l with [] => true | x :: r => dates_ok x && go r end) a
  | _ => true
  end.
Fixpoint doc_dates_ok (d : doc) : bool :=
  match d with [] => true | (_, x) :: r => dates_ok x && doc_dates_ok r end.
Fixpoint arr_dates_ok (a : list value) : bool :=
  match a with [] => true | x :: r => dates_ok x && arr_dates_ok r end.
Fixpoint spec_metrics_arr (a : list value) : list Z :=
  match a with [] => [] | x :: r => spec_metrics x ++ spec_metrics_arr r end.

Lemma dates_ok_VDoc : forall d, dates_ok (VDoc d) = doc_dates_ok d.
Proof. reflexivity. Qed.
Lemma dates_ok_VArr : forall a, dates_ok (VArr a) = arr_dates_ok a.
Proof. reflexivity. Qed.
Lemma spec_metrics_VDoc : forall d, spec_metrics (VDoc d) = spec_metrics_doc d.
Proof. reflexivity. Qed.
Lemma spec_metrics_VArr : forall a, spec_metrics (VArr a) = spec_metrics_arr a.
Proof. reflexivity. Qed.

Definition sflat_P (v : value) : Prop := dates_ok v = true -> map snd (flatten v) = spec_metrics v.

Lemma sflat_doc_F : forall d, Forall (fun kv => sflat_P (snd kv)) d ->
  doc_dates_ok d = true -> map snd (flatten_doc d) = spec_metrics_doc d.
Proof.
  intros d HF. induction HF as [|[k x] r Hx HF IH]; intros Hok; [reflexivity|].
  cbn [snd] in Hx. cbn [doc_dates_ok] in Hok. apply andb_true_iff in Hok. destruct Hok as [H1 H2].
  cbn [flatten_doc spec_metrics_doc]. rewrite map_app, (Hx H1), (IH H2). reflexivity.
Qed.

Lemma sflat_arr_F : forall a, Forall sflat_P a ->
  arr_dates_ok a = true -> map snd (flatten_arr a) = spec_metrics_arr a.
Proof.
  intros a HF. induction HF as [|x r Hx HF IH]; intros Hok; [reflexivity|].
  cbn [arr_dates_ok] in Hok. apply andb_true_iff in Hok. destruct Hok as [H1 H2].
  cbn [flatten_arr spec_metrics_arr]. rewrite map_app, (Hx H1), (IH H2). reflexivity.
Qed.

Lemma sflat_value : forall v, sflat_P v.
Proof.
  induction v using MetricsProofs.value_ind'; unfold sflat_P; intros Hok; try reflexivity.
  - rewrite flatten_VDoc, spec_metrics_VDoc. apply sflat_doc_F; [assumption|]. rewrite dates_ok_VDoc in Hok. exact Hok.
  - rewrite flatten_VArr, spec_metrics_VArr. apply sflat_arr_F; [assumption|]. rewrite dates_ok_VArr in Hok. exact Hok.
Qed.

(* the model's extraction yields the specification's metric vector *)
Lemma vrow_spec : forall d, doc_dates_ok d = true -> vrow d = spec_metrics_doc d.
Proof.
  intros d Hok. unfold vrow. apply sflat_doc_F; [|exact Hok].
  apply Forall_forall. intros kv _. apply sflat_value.
Qed.

Definition ldates_P (v : value) : Prop := leaves_ok v = true -> dates_ok v = true.

Lemma ldates_doc_F : forall d, Forall (fun kv => ldates_P (snd kv)) d -> doc_leaves_ok d = true -> doc_dates_ok d = true.
Proof.
  intros d HF. induction HF as [|[k x] r Hx HF IH]; intros Hok; [reflexivity|].
  cbn [snd] in Hx. cbn [doc_leaves_ok] in Hok. apply andb_true_iff in Hok. destruct Hok as [H1 H2].
  cbn [doc_dates_ok]. rewrite (Hx H1), (IH H2). reflexivity.
Qed.

Lemma ldates_arr_F : forall a, Forall ldates_P a -> arr_leaves_ok a = true -> arr_dates_ok a = true.
Proof.
  intros a HF. induction HF as [|x r Hx HF IH]; intros Hok; [reflexivity|].
  cbn [arr_leaves_ok] in Hok. apply andb_true_iff in Hok. destruct Hok as [H1 H2].
  cbn [arr_dates_ok]. rewrite (Hx H1), (IH H2). reflexivity.
Qed.

Lemma ldates_value : forall v, ldates_P v.
Proof.
  induction v using MetricsProofs.value_ind'; unfold ldates_P; intros Hok; try reflexivity.
  - rewrite dates_ok_VDoc. apply ldates_doc_F; [assumption|]. rewrite leaves_ok_VDoc in Hok. exact Hok.
  - rewrite dates_ok_VArr. apply ldates_arr_F; [assumption|]. rewrite leaves_ok_VArr in Hok. exact Hok.
  - exact Hok.
Qed.

Lemma leaves_dates_ok : forall d, doc_leaves_ok d = true -> doc_dates_ok d = true.
Proof.
  intros d Hok. apply ldates_doc_F; [|exact Hok]. apply Forall_forall. intros kv _. apply ldates_value.
Qed.

Lemma metrics_start_spec : forall ref, doc_dates_ok ref = true -> doc_has_ts_seconds ref = false ->
  map m_start (metrics_of_doc [] ref) = spec_metrics_doc ref.
Proof. intros ref Hd Hts. rewrite (metrics_of_doc_start [] ref Hts). apply (vrow_spec ref Hd). Qed.

(* ------------------------------------------------------------------ the model's zero-run coder is the canonical cutting *)
Lemma u64_zero : u64 0 = 0%N.
Proof. reflexivity. Qed.

Lemma rle_spec : forall ds z f, Forall (fun d => in_i64 d = true) ds -> (z + length ds <= f)%nat ->
  rle (N.of_nat z) ds = enc_toks (spec_tokens f [] (repeat 0%N z ++ map u64 ds)).
Proof.
  induction ds as [|d r IH]; intros z f Hall Hf.
  - cbn [rle map]. rewrite app_nil_r. unfold flush_zeros.
    destruct z as [|z].
    + cbn [repeat]. rewrite spec_tokens_nil. reflexivity.
    + replace (N.of_nat (S z) =? 0)%N with false by dlia.
      destruct f as [|f]; [cbn [length] in Hf; lia|].
      cbn [repeat]. rewrite spec_tokens_zero. unfold piece_of. cbn [tl].
      change (0%N :: repeat 0%N z) with (repeat 0%N (S z)).
      rewrite <- (app_nil_r (repeat 0%N (S z))), (count_zeros_repeat (S z) [] I), app_nil_r.
      rewrite skipn_all2 by (rewrite repeat_length; lia).
      rewrite spec_tokens_nil, enc_toks_cons. cbn [enc_tok]. unfold enc_toks. cbn [map concat].
      rewrite app_nil_r. replace (N.of_nat (S z - 1)) with (N.of_nat (S z) - 1)%N by dlia. reflexivity.
  - inversion Hall as [|d' r' Hd Hr]; subst. cbn [rle map length] in *.
    destruct (d =? 0) eqn:Hd0.
    + assert (d = 0) by dlia. subst d. rewrite u64_zero.
      replace (N.of_nat z + 1)%N with (N.of_nat (S z)) by dlia.
      rewrite (IH (S z) f Hr) by lia. rewrite repeat_snoc_app. reflexivity.
    + assert (Hu : u64 d <> 0%N) by (rewrite u64_zero_iff by exact Hd; dlia).
      destruct z as [|z].
      * cbn [repeat app]. change (N.of_nat 0) with 0%N. unfold flush_zeros. change (0 =? 0)%N with true. cbn iota.
        destruct f as [|f]; [lia|].
        rewrite spec_tokens_val by exact Hu. rewrite enc_toks_cons. cbn [enc_tok app].
        pose proof (IH 0%nat f Hr ltac:(lia)) as IH0. cbn [repeat app] in IH0. change (N.of_nat 0) with 0%N in IH0.
        rewrite IH0. reflexivity.
      * unfold flush_zeros. replace (N.of_nat (S z) =? 0)%N with false by dlia.
        destruct f as [|f]; [lia|]. destruct f as [|f]; [lia|].
        cbn [repeat app]. rewrite spec_tokens_zero. unfold piece_of. cbn [tl].
        change (0%N :: repeat 0%N z ++ u64 d :: map u64 r) with (repeat 0%N (S z) ++ u64 d :: map u64 r).
        rewrite (count_zeros_repeat (S z) (u64 d :: map u64 r) Hu).
        rewrite skipn_app_exact by apply repeat_length.
        rewrite spec_tokens_val by exact Hu. rewrite !enc_toks_cons. cbn [enc_tok].
        pose proof (IH 0%nat f Hr ltac:(lia)) as IH0. cbn [repeat app] in IH0. change (N.of_nat 0) with 0%N in IH0.
        rewrite IH0.
        replace (N.of_nat (S z - 1)) with (N.of_nat (S z) - 1)%N by dlia.
        rewrite <- !app_assoc. reflexivity.
Qed.

Lemma rle_canonical : forall ds, Forall (fun d => in_i64 d = true) ds ->
  rle 0%N ds = spec_encode_deltas [] (map u64 ds).
Proof.
  intros ds Hall. unfold spec_encode_deltas. fold (enc_toks (spec_tokens (length (map u64 ds)) [] (map u64 ds))).
  rewrite map_length. apply (rle_spec ds 0%nat (length ds) Hall). lia.
Qed.

(* ------------------------------------------------------------------ metric-major deltas *)
Lemma u64_wrap64 : forall z, u64 (wrap64 z) = u64 z.
Proof. intros z. unfold u64, wrap64. dlia. Qed.

Lemma map_u64_deltas_of : forall vals s, map u64 (deltas_of s vals) = spec_diffs s vals.
Proof.
  induction vals as [|v r IH]; intros s; [reflexivity|].
  cbn [deltas_of map spec_diffs]. rewrite u64_wrap64, IH. reflexivity.
Qed.

Lemma metric_major_spec : forall m d0 ds,
  Forall (fun d => length (flatten_doc d) = length (flatten_doc d0)) ds ->
  map u64 (metric_major m (delta_rows d0 ds)) = spec_deltas m (vrow d0 :: map vrow ds).
Proof.
  intros m d0 ds Hlens. unfold metric_major. rewrite spec_deltas_cols.
  rewrite !flat_map_concat_map, concat_map, map_map. f_equal. apply map_ext. intros i.
  rewrite (column_delta_rows i ds d0 Hlens), map_u64_deltas_of.
  unfold col_diffs, spec_column. rewrite map_map. reflexivity.
Qed.

(* ------------------------------------------------------------------ little-endian words keep the low bytes only *)
Lemma le_enc_mod : forall n x, le_enc n (x mod 256 ^ N.of_nat n)%N = le_enc n x.
Proof.
  induction n as [|n IH]; intros x; [reflexivity|].
  cbn [le_enc]. rewrite Nat2N.inj_succ, N.pow_succ_r'.
  assert (Hp : (256 ^ N.of_nat n <> 0)%N) by (apply N.pow_nonzero; discriminate).
  rewrite (N.mod_mul_r x 256 (256 ^ N.of_nat n)) by (try exact Hp; discriminate).
  set (q := ((x / 256) mod 256 ^ N.of_nat n)%N).
  replace ((x mod 256 + 256 * q) mod 256)%N with (x mod 256)%N by dlia.
  replace ((x mod 256 + 256 * q) / 256)%N with q by dlia.
  unfold q. rewrite IH. reflexivity.
Qed.

Lemma le_enc4_mod : forall x, le_enc 4 (x mod 2 ^ 32)%N = le_enc 4 x.
Proof. intros x. apply (le_enc_mod 4 x). Qed.

(* ------------------------------------------------------------------ payload (model) = canonical payload (specification) *)
Definition group_ok (d0 : doc) (d : doc) : Prop :=
  length (flatten_doc d) = length (flatten_doc d0) /\ doc_dates_ok d = true.

Lemma payload_canonical : forall d0 ds, Forall (group_ok d0) (d0 :: ds) ->
  payload d0 (length (flatten_doc d0)) (delta_rows d0 ds) = canonical_payload d0 (map spec_metrics_doc ds).
Proof.
  intros d0 ds Hall. inversion Hall as [|x y [_ Hd0] Hds]; subst.
  unfold payload, canonical_payload, spec_payload.
  rewrite <- (vrow_spec d0 Hd0).
  assert (Hvl : length (vrow d0) = length (flatten_doc d0)) by (unfold vrow; apply map_length).
  rewrite Hvl, !le_enc4_mod, delta_rows_length, map_length.
  do 3 f_equal.
  rewrite rle_canonical by (unfold metric_major; apply flat_map_column_in_i64; apply delta_rows_in_i64).
  f_equal. rewrite metric_major_spec.
  - f_equal. f_equal. apply map_ext_in. intros d Hd. rewrite Forall_forall in Hds. apply vrow_spec. apply (Hds d Hd).
  - revert Hds. apply Forall_impl. intros d [Hl _]. exact Hl.
Qed.

Section Canon.
Variable deflate : bytes -> bytes.
Variable inflate : bytes -> option bytes.
Hypothesis inflate_deflate : forall p, inflate (deflate p) = Some p.

(* the outer document of a group is the canonical chunk of the group *)
Lemma group_chunk_canonical : forall s d0 ds, Forall (group_ok d0) (d0 :: ds) ->
  group_chunk deflate s d0 ds = canonical_chunk deflate s d0 (map spec_metrics_doc ds).
Proof.
  intros s d0 ds Hall.
  unfold group_chunk, chunk_doc, canonical_chunk, spec_chunk_doc, compress, spec_data.
  rewrite (payload_canonical d0 ds Hall), le_enc4_mod. reflexivity.
Qed.

(* what the encode direction needs of an input document *)
Definition doc_fine (sk : doc) (d : doc) : Prop :=
  skeleton_doc d = sk /\ doc_ok d = true /\ doc_leaves_ok d = true /\ Wf.small (enc_doc d) /\
  (N.of_nat (length (flatten_doc d)) < 2 ^ 32)%N.

Definition canon_of (cd : doc) (g : list doc) : Prop :=
  exists id, in_i64 id = true /\ g <> [] /\ cd = canonical_chunk deflate id (hd [] g) (map spec_metrics_doc (tl g)).

Definition group_table (g : list doc) : table := (map spec_metrics_doc g, hd [] g).

Definition group_small (g : list doc) : Prop :=
  (N.of_nat (length (canonical_payload (hd [] g) (map spec_metrics_doc (tl g)))) < 2 ^ 32)%N.

Lemma fine_group_ok : forall sk d0 ds, Forall (doc_fine sk) (d0 :: ds) -> Forall (group_ok d0) (d0 :: ds).
Proof.
  intros sk d0 ds Hall. inversion Hall as [|x y Hd0 _]; subst.
  revert Hall. apply Forall_impl. intros d (Hsk & _ & Hlv & _). split.
  - apply same_skeleton_length. destruct Hd0 as [Hsk0 _]. congruence.
  - apply leaves_dates_ok. exact Hlv.
Qed.

Lemma canon_groups : forall n sk cds groups, n < 2 ^ 31 ->
  Forall2 (is_chunk deflate n) cds groups -> Forall (doc_fine sk) (concat groups) ->
  Forall2 canon_of cds groups /\
  (Forall group_small groups -> spec_decode_stream inflate cds = Some (map group_table groups)).
Proof.
  intros n sk cds groups Hn HF. induction HF as [|cd g cds groups Hcd HF IH]; intros Hfine.
  - split; [constructor|reflexivity].
  - cbn [concat] in Hfine. apply Forall_app in Hfine. destruct Hfine as [Hg Hrest].
    destruct (IH Hrest) as [IH1 IH2].
    destruct Hcd as [s [d0 [ds [Eg [Hs [Hlen Ecd]]]]]]. subst g.
    pose proof (fine_group_ok sk d0 ds Hg) as Hgok.
    rewrite (group_chunk_canonical s d0 ds Hgok) in Ecd.
    split.
    + constructor; [|exact IH1]. exists s. split; [exact Hs|]. split; [discriminate|exact Ecd].
    + intros Hsmall. inversion Hsmall as [|x y Hsm Hsmr]; subst x y.
      cbn [spec_decode_stream]. rewrite Ecd. unfold canonical_chunk.
      rewrite spec_class_chunk by reflexivity.
      rewrite (spec_chunk_roundtrip deflate inflate inflate_deflate).
      * rewrite (IH2 Hsmr). reflexivity.
      * inversion Hg as [|x y Hd0 Hds]; subst x y.
        destruct Hd0 as (Hsk0 & Hok0 & Hlv0 & Hsm0 & Hm0).
        inversion Hgok as [|x y [_ Hdt0] Hgds]; subst x y.
        assert (Hl0 : length (spec_metrics_doc d0) = length (flatten_doc d0))
          by (rewrite <- (vrow_spec d0 Hdt0); unfold vrow; apply map_length).
        split; [exact Hok0|]. split; [exact Hsm0|]. split.
        { apply Forall_forall. intros row Hrow. apply in_map_iff in Hrow. destruct Hrow as [d [Hrow Hd]]. subst row.
          rewrite Forall_forall in Hgds, Hds. destruct (Hgds d Hd) as [Hl Hdt]. destruct (Hds d Hd) as (_ & _ & Hlv & _).
          rewrite <- (vrow_spec d Hdt). split.
          - unfold vrow. rewrite map_length, Hl0. exact Hl.
          - unfold vrow. apply Forall_forall. intros x Hx. apply in_map_iff in Hx. destruct Hx as [mx [Hx Hin]]. subst x.
            pose proof (flatten_in_i64 d Hlv) as HFi. rewrite Forall_forall in HFi. apply HFi. exact Hin. }
        split; [rewrite Hl0; exact Hm0|]. split; [rewrite map_length; lia|].
        exact Hsm.
Qed.

(* C03, encode direction *)
Theorem spec_encode_canonical : forall k n docs nows,
  compressing k = true -> 1 <= n < 2 ^ 31 ->
  (docs <> [] /\ length nows = length docs /\ Forall (fun t => in_i64 t = true) nows /\
   same_schema docs /\
   Forall (fun d => doc_ok d = true /\ doc_leaves_ok d = true /\ Wf.small (enc_doc d)) docs /\
   (N.of_nat (length (flatten_doc (hd [] docs))) < 2 ^ 32)%N) ->
  fits k n docs ->
  let res := emit deflate k n docs nows in
  snd res = map (fun _ => BAdd ROk) docs ++ [BFlush true] /\
  exists groups,
    concat groups = docs /\
    Forall2 canon_of (emitted (snd (fst res))) groups /\
    (Forall group_small groups ->
     spec_decode_stream inflate (emitted (snd (fst res))) = Some (map group_table groups)).
Proof.
  intros k n docs nows Hk Hn (Hne & Hlen & Hnows & Hss & Hall & Hm) Hfits res. subst res.
  set (sk := skeleton_doc (hd [] docs)).
  assert (Hsk : forall d, In d docs -> skeleton_doc d = sk).
  { intros d Hd. apply Hss; [exact Hd|apply hd_in; exact Hne]. }
  assert (Hcol : Forall (dcol sk) docs).
  { apply Forall_forall. intros d Hd. rewrite Forall_forall in Hall. split; [apply Hsk; exact Hd|apply (Hall d Hd)]. }
  destruct (emit_groups deflate k n sk docs nows Hk ltac:(lia) Hne Hlen Hnows Hcol Hfits)
    as (c & w & groups & Hemit & [_ Hem] & Hcat).
  rewrite Hemit. cbn [fst snd]. split; [reflexivity|].
  exists groups. split; [exact Hcat|].
  apply (canon_groups n sk); [lia|exact Hem|].
  rewrite Hcat. apply Forall_forall. intros d Hd.
  rewrite Forall_forall in Hall. destruct (Hall d Hd) as (Hok & Hlv & Hsm).
  split; [apply Hsk; exact Hd|]. split; [exact Hok|]. split; [exact Hlv|]. split; [exact Hsm|].
  rewrite (same_skeleton_length d (hd [] docs)); [exact Hm|apply Hsk; exact Hd].
Qed.

End Canon.

(* ------------------------------------------------------------------ decode direction: the reader accepts what the specification accepts *)
Lemma is_num_spec : forall n v, is_num n (Some v) = spec_num_is n v.
Proof. intros n v. destruct v; reflexivity. Qed.

Lemma read_le4_inv : forall l x r, read_le 4 l = Some (x, r) ->
  (4 <= length l)%nat /\ x = le_dec (firstn 4 l) /\ r = skipn 4 l.
Proof.
  intros l x r H. unfold read_le, take_exact in H.
  destruct (Nat.leb 4 (length l)) eqn:E; [|discriminate H].
  apply Nat.leb_le in E. injection H as H1 H2. repeat split; [exact E|symmetry; exact H1|symmetry; exact H2].
Qed.

Lemma sp_map_repeat : forall (A B : Type) (f : A -> B) x n, map f (repeat x n) = repeat (f x) n.
Proof. intros A B f x n. induction n as [|n IH]; [reflexivity|]. cbn [repeat map]. rewrite IH. reflexivity. Qed.

(* the loop invariant of the reader's zero-run carry against the specification's
   expansion, for an arbitrary cutting of the zeros *)
Lemma expand_read_deltas : forall fuel remaining bs ds,
  spec_expand fuel remaining bs = Some ds ->
  read_deltas (N.to_nat remaining) 0%N bs = Some (map s64 ds, []).
Proof.
  induction fuel as [|f IH]; intros remaining bs ds H; [discriminate H|].
  rewrite spec_expand_S in H.
  destruct (remaining =? 0)%N eqn:Hrem.
  - assert (remaining = 0%N) by dlia. subst remaining.
    destruct bs as [|b bs]; [|discriminate H]. injection H as H. subst ds. reflexivity.
  - destruct (uvarint_dec bs) as [d r| | |] eqn:Hd; try discriminate H.
    destruct (d =? 0)%N eqn:Hd0.
    + assert (d = 0%N) by dlia. subst d.
      destruct (uvarint_dec r) as [n r'| | |] eqn:Hn; try discriminate H.
      destruct (n + 1 <=? remaining)%N eqn:Hle; [|discriminate H].
      destruct (spec_expand f (remaining - (n + 1))%N r') as [ds'|] eqn:E; [|discriminate H].
      injection H as H. subst ds.
      specialize (IH _ _ _ E).
      replace (N.to_nat remaining) with (S (N.to_nat n + N.to_nat (remaining - (n + 1)))) by dlia.
      rewrite read_deltas_S. change (0 =? 0)%N with true. cbn iota.
      rewrite Hd. change (0 =? 0)%N with true. cbn iota. rewrite Hn.
      rewrite (read_deltas_pending (N.to_nat n) n _ r') by apply N2Nat.id.
      rewrite IH. unfold prefix_zeros.
      replace (N.to_nat (n + 1)) with (S (N.to_nat n)) by dlia.
      rewrite map_app, sp_map_repeat. reflexivity.
    + destruct (spec_expand f (remaining - 1)%N r) as [ds'|] eqn:E; [|discriminate H].
      injection H as H. subst ds.
      specialize (IH _ _ _ E).
      replace (N.to_nat remaining) with (S (N.to_nat (remaining - 1))) by dlia.
      rewrite read_deltas_S. change (0 =? 0)%N with true. cbn iota.
      rewrite Hd, Hd0, IH. reflexivity.
Qed.

Lemma split_every_map : forall n k (l : list N),
  split_every n k (map s64 l) = map (map s64) (spec_slices n k l).
Proof.
  intros n k. induction k as [|k IH]; intros l; [reflexivity|].
  cbn [split_every spec_slices map]. rewrite firstn_map, skipn_map, IH. reflexivity.
Qed.

Lemma wrap64_add_s64 : forall s d, wrap64 (s + s64 d) = wrap64 (s + Z.of_N d).
Proof. intros s d. unfold s64, wrap64. dlia. Qed.

Lemma undelta_spec_sums : forall ds s, undelta s (map s64 ds) = spec_sums s ds.
Proof.
  induction ds as [|d r IH]; intros s; [reflexivity|].
  cbn [map undelta spec_sums]. rewrite wrap64_add_s64, IH. reflexivity.
Qed.

Lemma rows_agree : forall j ms (colsN : list (list N)),
  map (fun mc : metric * list Z => nth j (undelta (m_start (fst mc)) (snd mc)) 0) (combine ms (map (map s64) colsN))
  = map (fun sc : Z * list N => nth j (spec_sums (fst sc) (snd sc)) 0) (combine (map m_start ms) colsN).
Proof.
  intros j. induction ms as [|m ms IH]; intros colsN; [reflexivity|].
  destruct colsN as [|c colsN]; [reflexivity|].
  cbn [map combine fst snd]. rewrite undelta_spec_sums, IH. reflexivity.
Qed.

Definition chunk_samples (c : chunk) : list (list Z) :=
  map (sample_row c) (seq 0 (Z.to_nat (ck_npoints c))).

(* the documents in scope: date leaves in Go's range, no timestamp with non-zero
   seconds (the class of the known finding D1) *)
Definition ref_in_scope (ref : doc) : Prop := doc_dates_ok ref = true /\ doc_has_ts_seconds ref = false.

(* the library refuses chunks beyond a fixed number of values; [None] = no bound *)
Definition cap_allows (cap : option N) (t : table) : Prop :=
  match cap with
  | Some c => (N.of_nat (length (spec_metrics_doc (snd t))) * N.of_nat (length (fst t) - 1) <= c)%N
  | None => True
  end.

Lemma spec_rows_length : forall n cols, length (spec_rows n cols) = n.
Proof. intros n cols. unfold spec_rows. rewrite map_length, seq_length. reflexivity. Qed.

Section Reader.
Variable inflate : bytes -> option bytes.

Lemma spec_chunk_read : forall cap meta d t,
  spec_decode_chunk inflate d = Some t -> ref_in_scope (snd t) -> cap_allows cap t ->
  exists c, read_chunk_gen inflate cap meta d = inl c /\
            chunk_samples c = fst t /\ ck_ref c = snd t /\ ck_meta c = meta.
Proof.
  intros cap meta d t H Hscope Hcap.
  unfold spec_decode_chunk in H.
  destruct (lookup f_id d) as [vid|]; [|discriminate H].
  destruct vid; try discriminate H.
  destruct (lookup f_data d) as [vd|] eqn:Ed; [|discriminate H].
  destruct vd as [| | | |st b| | | | | | | | | | | | | | | |]; try discriminate H.
  destruct (negb (st =? 0)%N); [discriminate H|].
  destruct (read_le 4 b) as [[len z]|] eqn:Eb; [|discriminate H].
  destruct (inflate z) as [p|] eqn:Ez; [|discriminate H].
  destruct (len =? N.of_nat (length p))%N; [|discriminate H].
  unfold spec_decode_payload in H.
  destruct (dec_doc p) as [[ref r1]|] eqn:Edoc; [|discriminate H].
  destruct (read_le 4 r1) as [[nm r2]|] eqn:E1; [|discriminate H].
  destruct (read_le 4 r2) as [[nd r3]|] eqn:E2; [|discriminate H].
  cbv zeta in H.
  destruct (negb (nm =? N.of_nat (length (spec_metrics_doc ref)))%N) eqn:Enm; [discriminate H|].
  destruct (spec_expand (S (length r3)) (nm * nd)%N r3) as [dsN|] eqn:Eexp; [|discriminate H].
  injection H as H. subst t. cbn [fst snd] in *.
  destruct Hscope as [Hdates Hts].
  apply read_le4_inv in Eb. destruct Eb as (Hbl & _ & Ez').
  apply read_le4_inv in E1. destruct E1 as (Hl1 & Enm1 & Er2).
  apply read_le4_inv in E2. destruct E2 as (Hl2 & End & Er3).
  assert (Hnm : nm = N.of_nat (length (spec_metrics_doc ref))) by dlia.
  assert (Hlm : length (metrics_of_doc [] ref) = length (spec_metrics_doc ref)).
  { rewrite metrics_of_doc_length, <- (vrow_spec ref Hdates). unfold vrow. rewrite map_length. reflexivity. }
  unfold read_chunk_gen.
  change (lookup k_data d) with (lookup f_data d). rewrite Ed.
  replace (Nat.ltb (length b) 4) with false by (symmetry; apply Nat.ltb_ge; exact Hbl).
  rewrite <- Ez', Ez, Edoc.
  assert (Hl8 : (8 <= length r1)%nat) by (rewrite Er2, skipn_length in Hl2; lia).
  unfold take_exact. replace (Nat.leb 8 (length r1)) with true by (symmetry; apply Nat.leb_le; exact Hl8).
  cbv zeta.
  rewrite firstn_firstn. change (Init.Nat.min 4 8) with 4%nat.
  replace (skipn 4 (firstn 8 r1)) with (firstn 4 (skipn 4 r1)) by (rewrite firstn_skipn_comm; reflexivity).
  rewrite <- Er2, <- Enm1, <- End.
  replace (skipn 8 r1) with r3 by (rewrite Er3, Er2, sp_skipn_skipn; reflexivity).
  rewrite Hlm, <- Hnm, N.eqb_refl. cbn [negb].
  assert (Hlen_rows : length (spec_rows (S (N.to_nat nd))
      (map (fun sc : Z * list N => spec_sums (fst sc) (snd sc))
         (combine (spec_metrics_doc ref) (spec_slices (N.to_nat nd) (length (spec_metrics_doc ref)) dsN)))) = S (N.to_nat nd))
    by apply spec_rows_length.
  replace (match cap with Some c => (c <? nm * nd)%N | None => false end) with false.
  2:{ destruct cap as [c|]; [|reflexivity]. cbn [cap_allows fst snd] in Hcap. rewrite Hlen_rows in Hcap. symmetry. dlia. }
  rewrite (expand_read_deltas _ _ _ _ Eexp).
  eexists. split; [reflexivity|]. split; [|split; reflexivity].
  unfold chunk_samples. cbn [ck_npoints ck_metrics].
  replace (Z.to_nat (Z.of_N nd + 1)) with (S (N.to_nat nd)) by dlia.
  unfold spec_rows. apply map_ext. intros j.
  unfold sample_row. cbn [ck_metrics]. rewrite !map_map. cbn [snd fst].
  rewrite split_every_map, rows_agree, (metrics_start_spec ref Hdates Hts). reflexivity.
Qed.

(* C03, decode direction *)
Theorem spec_decode_complete : forall cap ds ts,
  spec_decode_stream inflate ds = Some ts ->
  Forall (fun t => ref_in_scope (snd t) /\ cap_allows cap t) ts ->
  forall meta, exists cs,
    read_chunks_gen inflate cap meta ds = (cs, None) /\
    map (fun c => (chunk_samples c, ck_ref c)) cs = ts.
Proof.
  intros cap ds. induction ds as [|d r IH]; intros ts H Hall meta.
  - injection H as H. subst ts. exists []. split; reflexivity.
  - cbn [spec_decode_stream] in H. cbn [read_chunks_gen].
    unfold spec_class in H. change (lookup k_type d) with (lookup f_type d).
    destruct (lookup f_type d) as [v|].
    + rewrite !is_num_spec.
      destruct (spec_num_is 0 v).
      * apply (IH ts H Hall).
      * destruct (spec_num_is 1 v); cbn [negb].
        -- destruct (spec_decode_chunk inflate d) as [t|] eqn:Ec; [|discriminate H].
           destruct (spec_decode_stream inflate r) as [ts'|] eqn:Er; [|discriminate H].
           injection H as H. subst ts. inversion Hall as [|x y [Hsc Hcp] Hrest]; subst x y.
           destruct (spec_chunk_read cap meta d t Ec Hsc Hcp) as [c (Hc & Hs & Hr & _)].
           destruct (IH ts' eq_refl Hrest meta) as [cs [Hcs Hmap]].
           exists (c :: cs). rewrite Hc, Hcs. split; [reflexivity|].
           cbn [map]. rewrite Hs, Hr, Hmap. destruct t; reflexivity.
        -- apply (IH ts H Hall).
    + cbn [is_num negb]. apply (IH ts H Hall).
Qed.

(* without a bound on the chunk size *)
Theorem spec_decode_complete_unbounded : forall ds ts,
  spec_decode_stream inflate ds = Some ts -> Forall (fun t => ref_in_scope (snd t)) ts ->
  exists cs, read_chunks inflate None ds = (cs, None) /\ map (fun c => (chunk_samples c, ck_ref c)) cs = ts.
Proof.
  intros ds ts H Hall. apply (spec_decode_complete None ds ts H).
  revert Hall. apply Forall_impl. intros t Ht. split; [exact Ht|exact I].
Qed.

End Reader.

(* ------------------------------------------------------------------ a stream the library's encoder never emits *)
Definition ex_ref : doc := [([97]%N, VInt64 10); ([98]%N, VString [120]%N); ([99]%N, VInt32 3)].
Definition ex_rest : list (list Z) := [[15; 3]; [15; 3]; [15; 3]; [15; 10]].
Definition ex_items : list item :=
  [IMeta 7 (VInt64 0) [([109]%N, VString [104]%N)];
   IOther [(f_id, VDateTime 8); (f_type, VInt32 2)];
   IChunk 9 (VDouble 4607182418800017408) [0%N] ex_ref ex_rest].

Theorem spec_example :
  Forall item_wf ex_items /\
  spec_encode_deltas [0%N] (spec_deltas 2 (spec_metrics_doc ex_ref :: ex_rest)) = [5; 0; 0; 0; 4; 7]%N /\
  canonical_payload ex_ref ex_rest <> spec_payload [0%N] ex_ref ex_rest /\
  spec_stream triv_inflate (spec_encode triv_deflate ex_items)
              [([[10; 3]; [15; 3]; [15; 3]; [15; 3]; [15; 10]], ex_ref)] /\
  (let '(cs, e) := read_chunks triv_inflate None (spec_encode triv_deflate ex_items) in
   (map (fun c => (chunk_samples c, ck_ref c)) cs, e))
  = ([([[10; 3]; [15; 3]; [15; 3]; [15; 3]; [15; 10]], ex_ref)], None).
Proof.
  split.
  { constructor; [reflexivity|]. constructor; [reflexivity|]. constructor; [|constructor].
    split; [reflexivity|]. split; [reflexivity|].
    split; [reflexivity|]. split; [vm_compute; reflexivity|].
    split; [repeat constructor|].
    split; [vm_compute; reflexivity|]. split; vm_compute; reflexivity. }
  split; [vm_compute; reflexivity|].
  split; [vm_compute; intro H; discriminate H|].
  split; [unfold spec_stream; vm_compute; reflexivity|].
  vm_compute. reflexivity.
Qed.

Print Assumptions spec_stream_roundtrip.
Print Assumptions canonical_maximal.
Print Assumptions spec_encode_canonical.
Print Assumptions spec_decode_complete.
Print Assumptions spec_decode_complete_unbounded.
Print Assumptions spec_example.
