(* C03: the format specification (Spec/FtdcSpec.v) is self-consistent, the model of
   the library's encoder produces the specification's canonical encoding, and the
   model of the library's reader accepts whatever the specification's decoder
   accepts. *)
From Coq Require Import ZArith NArith List Bool Lia Arith.
From Coq Require Import ZifyN ZifyNat ZifyBool.
From FV.Model Require Import Bytes Bson.
From FV.Spec Require Import FtdcSpec.
From FV.Proofs Require Import BytesProofs BsonProofs.
Import ListNotations.
Open Scope Z_scope.

(* ================================================================== part A: the specification alone *)

(* ------------------------------------------------------------------ lists *)
Lemma sp_skipn_skipn : forall (A : Type) (a b : nat) (l : list A), skipn a (skipn b l) = skipn (b + a) l.
Proof.
  intros A a b. induction b as [|b IH]; intros l; [reflexivity|].
  destruct l as [|x l]; [destruct a; reflexivity|]. cbn [skipn Nat.add]. apply IH.
Qed.

Lemma sp_map_nth_seq : forall (A : Type) (l : list A) d, map (fun i => nth i l d) (seq 0 (length l)) = l.
Proof.
  intros A l d. induction l as [|a r IH]; [reflexivity|].
  cbn [length seq map nth]. f_equal. rewrite <- seq_shift, map_map. exact IH.
Qed.

Lemma sp_combine_seq : forall (A B : Type) (l : list A) (h : nat -> B) d,
  combine l (map h (seq 0 (length l))) = map (fun i => (nth i l d, h i)) (seq 0 (length l)).
Proof.
  intros A B l. induction l as [|a r IH]; intros h d; [reflexivity|].
  cbn [length seq map combine nth]. f_equal.
  rewrite <- seq_shift, !map_map. apply (IH (fun i => h (S i)) d).
Qed.

Lemma sp_length_pos : forall (l : bytes), l <> [] -> (1 <= length l)%nat.
Proof. intros [|a l] H; [congruence|cbn [length]; lia]. Qed.

(* ------------------------------------------------------------------ stretches of zeros *)
Lemma count_zeros_le : forall ds, (count_zeros ds <= length ds)%nat.
Proof.
  induction ds as [|d r IH]; [apply Nat.le_refl|].
  cbn [count_zeros length]. destruct (d =? 0)%N; lia.
Qed.

Lemma count_zeros_split : forall ds p, (p <= count_zeros ds)%nat -> ds = repeat 0%N p ++ skipn p ds.
Proof.
  induction ds as [|d r IH]; intros p Hp.
  - cbn [count_zeros] in Hp. assert (p = 0%nat) by lia. subst p. reflexivity.
  - destruct p as [|p]; [reflexivity|].
    cbn [count_zeros] in Hp. destruct (d =? 0)%N eqn:Hd; [|lia].
    assert (d = 0%N) by dlia. subst d.
    cbn [repeat app skipn]. f_equal. apply IH. lia.
Qed.

Lemma count_zeros_repeat : forall n l, (match l with [] => True | x :: _ => x <> 0%N end) ->
  count_zeros (repeat 0%N n ++ l) = n.
Proof.
  induction n as [|n IH]; intros l Hl.
  - cbn [repeat app]. destruct l as [|x l]; [reflexivity|].
    cbn [count_zeros]. replace (x =? 0)%N with false by dlia. reflexivity.
  - cbn [repeat app count_zeros]. change (0 =? 0)%N with true. cbn iota. rewrite IH by exact Hl. reflexivity.
Qed.

Lemma skipn_count_zeros_head : forall ds,
  match skipn (count_zeros ds) ds with [] => True | x :: _ => x <> 0%N end.
Proof.
  induction ds as [|d r IH]; [exact I|].
  cbn [count_zeros]. destruct (d =? 0)%N eqn:Hd.
  - cbn [skipn]. exact IH.
  - cbn [skipn]. dlia.
Qed.

(* the size of a zero pair chosen by the encoder lies between 1 and the stretch *)
Definition piece_of (choice : list N) (L : nat) : nat :=
  match choice with [] => L | c :: _ => S (N.to_nat (c mod N.of_nat L)) end.

Lemma piece_of_range : forall choice L, (1 <= L)%nat -> (1 <= piece_of choice L <= L)%nat.
Proof.
  intros [|c choice] L HL; unfold piece_of; [lia|].
  assert (c mod N.of_nat L < N.of_nat L)%N by (apply N.mod_lt; lia). lia.
Qed.

Lemma spec_tokens_nil : forall f choice, spec_tokens f choice [] = [].
Proof. intros [|f] choice; reflexivity. Qed.

Lemma spec_tokens_zero : forall f choice r,
  spec_tokens (S f) choice (0%N :: r) =
  TRun (N.of_nat (piece_of choice (count_zeros (0%N :: r)) - 1))
  :: spec_tokens f (tl choice) (skipn (piece_of choice (count_zeros (0%N :: r))) (0%N :: r)).
Proof. intros f choice r. reflexivity. Qed.

Lemma spec_tokens_val : forall f choice d r, d <> 0%N ->
  spec_tokens (S f) choice (d :: r) = TVal d :: spec_tokens f choice r.
Proof.
  intros f choice d r Hd. cbn [spec_tokens]. replace (d =? 0)%N with false by dlia. reflexivity.
Qed.

(* ------------------------------------------------------------------ the delta section round trip *)
Lemma spec_expand_S : forall f remaining bs,
  spec_expand (S f) remaining bs =
  if (remaining =? 0)%N then (match bs with [] => Some [] | _ => None end)
  else
    match uvarint_dec bs with
    | VOk d r =>
        if (d =? 0)%N then
          match uvarint_dec r with
          | VOk n r' =>
              if (n + 1 <=? remaining)%N then
                match spec_expand f (remaining - (n + 1))%N r' with
                | Some ds => Some (repeat 0%N (N.to_nat (n + 1)) ++ ds)
                | None => None
                end
              else None
          | _ => None
          end
        else
          match spec_expand f (remaining - 1)%N r with
          | Some ds => Some (d :: ds)
          | None => None
          end
    | _ => None
    end.
Proof. reflexivity. Qed.

Definition enc_toks (ts : list tok) : bytes := concat (map enc_tok ts).

Lemma enc_toks_cons : forall t ts, enc_toks (t :: ts) = enc_tok t ++ enc_toks ts.
Proof. reflexivity. Qed.

Lemma uvarint_enc_length : forall x, (1 <= length (uvarint_enc x))%nat.
Proof. intros x. apply sp_length_pos. apply uvarint_enc_nonempty. Qed.

(* any cutting of the zeros decodes to the same deltas *)
Lemma expand_tokens : forall f choice ds fuel,
  Forall (fun d => (d < 2 ^ 64)%N) ds -> (N.of_nat (length ds) < 2 ^ 64)%N -> (length ds <= f)%nat ->
  (length (enc_toks (spec_tokens f choice ds)) < fuel)%nat ->
  spec_expand fuel (N.of_nat (length ds)) (enc_toks (spec_tokens f choice ds)) = Some ds.
Proof.
  induction f as [|f IH]; intros choice ds fuel Hall Hlen Hf Hfuel.
  - destruct ds as [|d r]; [|cbn [length] in Hf; lia].
    destruct fuel as [|fuel]; [lia|]. reflexivity.
  - destruct ds as [|d r].
    + rewrite spec_tokens_nil in *. destruct fuel as [|fuel]; [lia|]. reflexivity.
    + inversion Hall as [|d' r' Hd Hr]; subst.
      destruct fuel as [|fuel]; [lia|].
      destruct (N.eq_dec d 0) as [Hz|Hnz].
      * subst d. rewrite spec_tokens_zero in *.
        set (L := count_zeros (0%N :: r)) in *.
        assert (HL : (1 <= L <= length (0%N :: r))%nat).
        { split; [unfold L; cbn [count_zeros]; change (0 =? 0)%N with true; cbn iota; lia|apply count_zeros_le]. }
        pose proof (piece_of_range choice L ltac:(lia)) as Hp.
        set (p := piece_of choice L) in *.
        pose proof (count_zeros_split (0%N :: r) p ltac:(fold L; lia)) as Hsplit.
        set (rest := skipn p (0%N :: r)) in *.
        assert (Hrl : length rest = (length (0%N :: r) - p)%nat) by apply skipn_length.
        rewrite enc_toks_cons in *. cbn [enc_tok] in *.
        rewrite spec_expand_S.
        replace (N.of_nat (length (0%N :: r)) =? 0)%N with false by (cbn [length]; dlia).
        rewrite <- !app_assoc.
        rewrite uvarint_dec_enc by dlia.
        change (0 =? 0)%N with true. cbn iota.
        rewrite uvarint_dec_enc by dlia.
        replace (N.of_nat (p - 1) + 1 <=? N.of_nat (length (0%N :: r)))%N with true by dlia.
        replace (N.of_nat (length (0%N :: r)) - (N.of_nat (p - 1) + 1))%N with (N.of_nat (length rest)) by dlia.
        rewrite !app_length in Hfuel.
        pose proof (uvarint_enc_length 0) as H0. pose proof (uvarint_enc_length (N.of_nat (p - 1))) as H1.
        rewrite IH.
        -- replace (N.to_nat (N.of_nat (p - 1) + 1)) with p by dlia. rewrite <- Hsplit. reflexivity.
        -- rewrite Hsplit in Hall. apply Forall_app in Hall. apply Hall.
        -- dlia.
        -- cbn [length] in *. lia.
        -- lia.
      * rewrite spec_tokens_val in * by exact Hnz.
        rewrite enc_toks_cons in *. cbn [enc_tok] in *.
        rewrite spec_expand_S.
        replace (N.of_nat (length (d :: r)) =? 0)%N with false by (cbn [length]; dlia).
        rewrite uvarint_dec_enc by exact Hd.
        replace (d =? 0)%N with false by dlia.
        replace (N.of_nat (length (d :: r)) - 1)%N with (N.of_nat (length r)) by (cbn [length]; dlia).
        rewrite app_length in Hfuel. pose proof (uvarint_enc_length d) as H0.
        rewrite IH; [reflexivity|exact Hr|cbn [length] in Hlen; dlia|cbn [length] in Hf; lia|lia].
Qed.

Lemma spec_expand_encode_deltas : forall choice ds,
  Forall (fun d => (d < 2 ^ 64)%N) ds -> (N.of_nat (length ds) < 2 ^ 64)%N ->
  spec_expand (S (length (spec_encode_deltas choice ds))) (N.of_nat (length ds)) (spec_encode_deltas choice ds) = Some ds.
Proof.
  intros choice ds Hall Hlen. unfold spec_encode_deltas. fold (enc_toks (spec_tokens (length ds) choice ds)).
  apply expand_tokens; try assumption; lia.
Qed.

(* the canonical cutting: one pair per stretch *)
Lemma canonical_maximal : forall f ds, maximal_runs (spec_tokens f [] ds) = true.
Proof.
  induction f as [|f IH]; intros ds; [reflexivity|].
  destruct ds as [|d r]; [reflexivity|].
  destruct (N.eq_dec d 0) as [Hz|Hnz].
  - subst d. rewrite spec_tokens_zero. unfold piece_of. cbn [tl].
    pose proof (skipn_count_zeros_head (0%N :: r)) as Hh.
    specialize (IH (skipn (count_zeros (0%N :: r)) (0%N :: r))).
    destruct (skipn (count_zeros (0%N :: r)) (0%N :: r)) as [|x l] eqn:E.
    + rewrite spec_tokens_nil. reflexivity.
    + destruct f as [|f]; [reflexivity|].
      rewrite spec_tokens_val in * by exact Hh. cbn [maximal_runs] in *. exact IH.
  - rewrite spec_tokens_val by exact Hnz.
    specialize (IH r). cbn [maximal_runs]. exact IH.
Qed.

(* ------------------------------------------------------------------ columns, slices, sums *)
Lemma spec_column_length : forall i samples, length (spec_column i samples) = length samples.
Proof. intros i samples. apply map_length. Qed.

Lemma spec_diffs_length : forall vals v, length (spec_diffs v vals) = length vals.
Proof. induction vals as [|x r IH]; intros v; [reflexivity|]. cbn [spec_diffs length]. rewrite IH. reflexivity. Qed.

Lemma spec_diffs_lt : forall vals v, Forall (fun d => (d < 2 ^ 64)%N) (spec_diffs v vals).
Proof. induction vals as [|x r IH]; intros v; cbn [spec_diffs]; constructor; [apply u64_lt|apply IH]. Qed.

Definition col_diffs (s0 : list Z) (rest : list (list Z)) (i : nat) : list N :=
  spec_diffs (nth i s0 0) (spec_column i rest).

Lemma spec_deltas_cols : forall nm s0 rest,
  spec_deltas nm (s0 :: rest) = flat_map (col_diffs s0 rest) (seq 0 nm).
Proof. intros nm s0 rest. reflexivity. Qed.

Lemma flat_map_cols_length : forall s0 rest n a,
  length (flat_map (col_diffs s0 rest) (seq a n)) = (n * length rest)%nat.
Proof.
  intros s0 rest. induction n as [|n IH]; intros a; [reflexivity|].
  cbn [seq flat_map]. rewrite app_length, IH. unfold col_diffs at 1.
  rewrite spec_diffs_length, spec_column_length. reflexivity.
Qed.

Lemma spec_deltas_length : forall nm s0 rest, length (spec_deltas nm (s0 :: rest)) = (nm * length rest)%nat.
Proof. intros. rewrite spec_deltas_cols. apply flat_map_cols_length. Qed.

Lemma spec_deltas_lt : forall nm s0 rest, Forall (fun d => (d < 2 ^ 64)%N) (spec_deltas nm (s0 :: rest)).
Proof.
  intros nm s0 rest. rewrite spec_deltas_cols. apply Forall_forall. intros x Hx.
  apply in_flat_map in Hx. destruct Hx as [i [_ Hx]].
  pose proof (spec_diffs_lt (spec_column i rest) (nth i s0 0)) as HF. rewrite Forall_forall in HF. apply HF. exact Hx.
Qed.

Lemma spec_slices_cols : forall s0 rest n a,
  spec_slices (length rest) n (flat_map (col_diffs s0 rest) (seq a n)) = map (col_diffs s0 rest) (seq a n).
Proof.
  intros s0 rest. induction n as [|n IH]; intros a; [reflexivity|].
  cbn [seq flat_map spec_slices map].
  assert (Hl : length (col_diffs s0 rest a) = length rest)
    by (unfold col_diffs; rewrite spec_diffs_length, spec_column_length; reflexivity).
  rewrite firstn_app_exact by exact Hl. rewrite skipn_app_exact by exact Hl. rewrite IH. reflexivity.
Qed.

Lemma wrap64_add_u64_sub : forall v x, in_i64 x = true -> wrap64 (v + Z.of_N (u64 (x - v))) = x.
Proof. intros v x Hx. apply in_i64_iff in Hx. unfold wrap64, u64. dlia. Qed.

Lemma spec_sums_diffs : forall vals v, Forall (fun x => in_i64 x = true) vals ->
  spec_sums v (spec_diffs v vals) = v :: vals.
Proof.
  induction vals as [|x r IH]; intros v Hall; [reflexivity|].
  inversion Hall as [|x' r' Hx Hr]; subst.
  cbn [spec_diffs spec_sums]. rewrite wrap64_add_u64_sub by exact Hx. rewrite IH by exact Hr. reflexivity.
Qed.

(* from the columns back to the samples *)
Lemma spec_rows_columns : forall nm samples, Forall (fun s => length s = nm) samples ->
  spec_rows (length samples) (map (fun i => spec_column i samples) (seq 0 nm)) = samples.
Proof.
  intros nm samples Hall. unfold spec_rows.
  rewrite <- (sp_map_nth_seq _ samples []) at 2.
  apply map_ext_in. intros j Hj. apply in_seq in Hj.
  rewrite map_map.
  assert (Hlen : length (nth j samples []) = nm).
  { rewrite Forall_forall in Hall. apply Hall. apply nth_In. lia. }
  rewrite <- (sp_map_nth_seq _ (nth j samples []) 0) at 1. rewrite Hlen.
  apply map_ext. intros i. unfold spec_column.
  rewrite <- (map_nth (fun s : list Z => nth i s 0) samples [] j). destruct i; reflexivity.
Qed.

(* ------------------------------------------------------------------ one chunk *)
Lemma lookup_id_spec_chunk : forall id ty b, lookup f_id [(f_id, VDateTime id); (f_type, ty); (f_data, b)] = Some (VDateTime id).
Proof. reflexivity. Qed.
Lemma lookup_type_spec : forall id ty k b, lookup f_type [(f_id, VDateTime id); (f_type, ty); (k, b)] = Some ty.
Proof. reflexivity. Qed.
Lemma lookup_data_spec_chunk : forall id ty b, lookup f_data [(f_id, VDateTime id); (f_type, ty); (f_data, b)] = Some b.
Proof. reflexivity. Qed.

Lemma spec_payload_decodes : forall choice ref rest, chunk_wf choice ref rest ->
  spec_decode_payload (spec_payload choice ref rest) = Some (spec_metrics_doc ref :: rest, ref).
Proof.
  intros choice ref rest (Hok & Hsmall & Hrows & Hnm & Hnd & _).
  unfold spec_decode_payload, spec_payload.
  set (start := spec_metrics_doc ref) in *.
  rewrite (dec_enc_doc ref _ Hok Hsmall).
  rewrite bs_read_le4 by exact Hnm. rewrite bs_read_le4 by exact Hnd.
  rewrite N.eqb_refl. cbn [negb].
  set (ds := spec_deltas (length start) (start :: rest)).
  assert (Hdl : length ds = (length start * length rest)%nat) by apply spec_deltas_length.
  replace (N.of_nat (length start) * N.of_nat (length rest))%N with (N.of_nat (length ds)) by (rewrite Hdl; lia).
  rewrite spec_expand_encode_deltas.
  - rewrite Nat2N.id. unfold ds. rewrite spec_deltas_cols, spec_slices_cols.
    rewrite (sp_combine_seq _ _ start (col_diffs start rest) 0), map_map. cbn [fst snd].
    f_equal. f_equal.
    replace (S (length rest)) with (length (start :: rest)) by reflexivity.
    rewrite <- (spec_rows_columns (length start) (start :: rest)) at 2.
    + f_equal. apply map_ext_in. intros i Hi. unfold col_diffs.
      rewrite spec_sums_diffs; [reflexivity|].
      apply Forall_forall. intros x Hx. unfold spec_column in Hx. apply in_map_iff in Hx.
      destruct Hx as [s [Hx Hs]]. subst x. rewrite Forall_forall in Hrows. destruct (Hrows s Hs) as [Hsl Hsv].
      destruct (nth_in_or_default i s 0) as [Hin|Hd]; [|rewrite Hd; reflexivity].
      rewrite Forall_forall in Hsv. apply Hsv. exact Hin.
    + constructor; [reflexivity|]. revert Hrows. apply Forall_impl. intros s [Hs _]. exact Hs.
  - apply spec_deltas_lt.
  - rewrite Hdl. assert (2 ^ 32 * 2 ^ 32 = 2 ^ 64)%N by reflexivity. nia.
Qed.

Section Zlib.
Variable deflate : bytes -> bytes.
Variable inflate : bytes -> option bytes.
Hypothesis inflate_deflate : forall p, inflate (deflate p) = Some p.

Lemma spec_chunk_roundtrip : forall id ty choice ref rest, chunk_wf choice ref rest ->
  spec_decode_chunk inflate (spec_chunk_doc deflate id ty choice ref rest) = Some (spec_metrics_doc ref :: rest, ref).
Proof.
  intros id ty choice ref rest Hwf.
  unfold spec_decode_chunk, spec_chunk_doc.
  rewrite lookup_id_spec_chunk, lookup_data_spec_chunk.
  change (0 =? 0)%N with true. cbn [negb]. unfold spec_data.
  rewrite bs_read_le4 by apply Hwf.
  rewrite inflate_deflate, N.eqb_refl.
  apply spec_payload_decodes. exact Hwf.
Qed.

Lemma spec_class_chunk : forall id ty choice ref rest,
  spec_num_is 0 ty = false -> spec_num_is 1 ty = true ->
  spec_class (spec_chunk_doc deflate id ty choice ref rest) = SChunk.
Proof.
  intros id ty choice ref rest H0 H1. unfold spec_class, spec_chunk_doc.
  rewrite lookup_type_spec, H0, H1. reflexivity.
Qed.

Lemma spec_class_meta : forall id ty m, spec_num_is 0 ty = true -> spec_class (spec_meta_doc id ty m) = SMeta.
Proof. intros id ty m H0. unfold spec_class, spec_meta_doc. rewrite lookup_type_spec, H0. reflexivity. Qed.

(* every stream of the specification's encoder, whatever the cutting of the zero
   stretches, the encoding of the type field and the documents in between, decodes
   to the chunks it was built from *)
Theorem spec_stream_roundtrip : forall items, Forall item_wf items ->
  spec_decode_stream inflate (spec_encode deflate items) = Some (item_tables items).
Proof.
  induction items as [|it items IH]; intros Hwf; [reflexivity|].
  inversion Hwf as [|x y Hit Hrest]; subst. specialize (IH Hrest).
  destruct it as [id ty m|id ty choice ref rest|d]; cbn [spec_encode map spec_encode_item item_tables spec_decode_stream item_wf] in *.
  - rewrite spec_class_meta by exact Hit. exact IH.
  - destruct Hit as (H0 & H1 & Hc). rewrite spec_class_chunk by assumption.
    rewrite spec_chunk_roundtrip by exact Hc. fold (spec_encode deflate items). rewrite IH. reflexivity.
  - rewrite Hit. exact IH.
Qed.

End Zlib.

Print Assumptions spec_stream_roundtrip.
Print Assumptions canonical_maximal.
