(* C11: a refused SetMetadata changes nothing (Model/MetaBad.v). *)
From Coq Require Import ZArith NArith List Bool Lia Arith.
From FV.Model Require Import Bytes Bson Metrics Codec Collector MetaBad.
Import ListNotations.
Open Scope Z_scope.

Lemma step_setmeta_bad_state : forall s, fst (step_setmeta_bad s) = s.
Proof. reflexivity. Qed.

Lemma step_setmeta_bad_resp : forall s, snd (step_setmeta_bad s) = None.
Proof. reflexivity. Qed.

Section Zlib.
Variable deflate : bytes -> bytes.

Lemma step_bad_inl : forall st o, step_bad deflate st (inl o) = (fst (step deflate st o), Some (snd (step deflate st o))).
Proof. intros st o. cbn [step_bad]. destruct (step deflate st o) as [st' b]. reflexivity. Qed.

Lemma step_bad_inr : forall st u, step_bad deflate st (inr u) = (st, None).
Proof. reflexivity. Qed.

(* only the refused SetMetadata answers with the refusal *)
Lemma step_bad_refused : forall st o, snd (step_bad deflate st o) = None <-> exists u, o = inr u.
Proof.
  intros st [o|u].
  - rewrite step_bad_inl. cbn [snd]. split; [discriminate|intros [u H]; discriminate H].
  - split; [intros _; exists u; reflexivity|reflexivity].
Qed.

Lemma run_app_c : forall a b st,
  run deflate st (a ++ b) =
  (fst (run deflate (fst (run deflate st a)) b), snd (run deflate st a) ++ snd (run deflate (fst (run deflate st a)) b)).
Proof.
  induction a as [|o a IH]; intros b st.
  - cbn [app run fst snd]. destruct (run deflate st b); reflexivity.
  - cbn [app run]. destruct (step deflate st o) as [st' x]. rewrite IH.
    destruct (run deflate st' a) as [st'' xs]. cbn [fst snd]. reflexivity.
Qed.

Lemma run_bad_app : forall a b st,
  run_bad deflate st (a ++ b) =
  (fst (run_bad deflate (fst (run_bad deflate st a)) b),
   snd (run_bad deflate st a) ++ snd (run_bad deflate (fst (run_bad deflate st a)) b)).
Proof.
  induction a as [|o a IH]; intros b st.
  - cbn [app run_bad fst snd]. destruct (run_bad deflate st b); reflexivity.
  - cbn [app run_bad]. destruct (step_bad deflate st o) as [st' x]. rewrite IH.
    destruct (run_bad deflate st' a) as [st'' xs]. cbn [fst snd]. reflexivity.
Qed.

(* a history without refused calls is a history of Collector.v *)
Lemma run_bad_inl : forall ops st,
  run_bad deflate st (map inl ops) = (fst (run deflate st ops), map Some (snd (run deflate st ops))).
Proof.
  induction ops as [|o ops IH]; intros st; [reflexivity|].
  cbn [map run_bad run]. rewrite step_bad_inl. destruct (step deflate st o) as [st' b]. cbn [fst snd].
  rewrite IH. destruct (run deflate st' ops) as [st'' bs]. reflexivity.
Qed.

(* any number of refused calls anywhere: state and answers are those of the
   history without them, and the refusals are answered in place *)
Theorem run_bad_goods : forall h st,
  fst (run_bad deflate st h) = fst (run deflate st (goods h)) /\
  answered (snd (run_bad deflate st h)) = snd (run deflate st (goods h)) /\
  refusals (snd (run_bad deflate st h)) = refused_at h.
Proof.
  induction h as [|[o|u] h IH]; intros st.
  - repeat split.
  - cbn [run_bad]. rewrite step_bad_inl. change (goods (inl o :: h)) with (o :: goods h). cbn [run].
    destruct (step deflate st o) as [st' b]. cbn [fst snd]. specialize (IH st').
    destruct (run_bad deflate st' h) as [s1 rs]. destruct (run deflate st' (goods h)) as [s2 bs]. cbn [fst snd] in *.
    destruct IH as (A & B & C). split; [exact A|]. split.
    + change (answered (Some b :: rs)) with (b :: answered rs). rewrite B. reflexivity.
    + cbn [refusals refused_at map]. f_equal. exact C.
  - cbn [run_bad]. rewrite step_bad_inr. change (goods (inr u :: h)) with (goods h). specialize (IH st).
    destruct (run_bad deflate st h) as [s1 rs]. cbn [fst snd] in *. destruct IH as (A & B & C).
    split; [exact A|]. split; [exact B|]. cbn [refusals refused_at map]. f_equal. exact C.
Qed.

(* one refused call between two histories *)
Theorem refused_setmeta_keeps : forall st h1 h2,
  let s1 := fst (run deflate st h1) in
  run_bad deflate st (map inl h1 ++ inr tt :: map inl h2) =
    (fst (run deflate s1 h2), map Some (snd (run deflate st h1)) ++ None :: map Some (snd (run deflate s1 h2))) /\
  run deflate st (h1 ++ h2) = (fst (run deflate s1 h2), snd (run deflate st h1) ++ snd (run deflate s1 h2)).
Proof.
  intros st h1 h2 s1. subst s1. split; [|apply run_app_c].
  rewrite run_bad_app, run_bad_inl. cbn [fst snd]. cbn [run_bad]. rewrite step_bad_inr.
  rewrite run_bad_inl. cbn [fst snd]. reflexivity.
Qed.

End Zlib.

(* non-vacuity: a streaming collector with chunk size 1; metadata m, a sample, the
   refused SetMetadata, a second sample (its Add flushes the first chunk), Resolve:
   the record in the writer and the Resolve result both carry m *)
From FV.Model Require Import Instance.
Definition mb_m : doc := [([104]%N, VInt32 1)].
Definition mb_d (x : Z) : doc := [([120]%N, VInt64 x)].
Definition mb_h1 : list op := [OSetMeta (Some mb_m); OAdd (mb_d 5) 0].
Definition mb_h2 : list op := [OAdd (mb_d 7) 0; OResolve].

Lemma refused_setmeta_example :
  let rb := run_bad deflate_flag (new_coll KStream 1, mkWriter [] [] false) (map inl mb_h1 ++ inr tt :: map inl mb_h2) in
  exists d1 d2,
    w_log (snd (fst rb)) = [WFull (OFtdc [meta_doc 0 mb_m; chunk_doc 0 d1])] /\
    snd rb = [Some BSetMeta; Some (BAdd ROk); None; Some (BAdd ROk);
              Some (BResolve (Some (OFtdc [meta_doc 0 mb_m; chunk_doc 0 d2])))].
Proof. cbv zeta. eexists. eexists. split; vm_compute; reflexivity. Qed.
