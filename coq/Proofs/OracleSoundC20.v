(* Oracle soundness for C20: the executable oracles of Model/GennyOk.v accept the
   model's own observations (model_out, model_chunk_sizes, model_time) for every
   input that satisfies the hypotheses of the C20 theorems. *)
From Coq Require Import ZArith List Bool Lia Arith.
From FV.Model Require Import Genny GennyOk.
From FV.Proofs Require Import GennyProofs.
Import ListNotations.
Open Scope Z_scope.

(* ---- boolean equalities ---- *)
Lemma list_eqb_refl : forall (A : Type) (eqb : A -> A -> bool),
  (forall x, eqb x x = true) -> forall l, list_eqb eqb l l = true.
Proof. intros A eqb Hr. induction l as [|x r IH]; simpl; auto. rewrite Hr, IH. reflexivity. Qed.

Lemma list_eqb_eq : forall (A : Type) (eqb : A -> A -> bool),
  (forall x y, eqb x y = true -> x = y) -> forall a b, list_eqb eqb a b = true -> a = b.
Proof.
  intros A eqb He. induction a as [|x r IH]; intros [|y s] H; simpl in H; try discriminate; auto.
  apply andb_true_iff in H. destruct H as [H1 H2]. f_equal; auto.
Qed.

Lemma kv_eqb_refl : forall x, kv_eqb x x = true.
Proof. intros [a b]. unfold kv_eqb. simpl. rewrite !Z.eqb_refl. reflexivity. Qed.

Lemma kv_eqb_eq : forall x y, kv_eqb x y = true -> x = y.
Proof.
  intros [a b] [c d] H. unfold kv_eqb in H. simpl in H.
  apply andb_true_iff in H. destruct H as [H1 H2].
  apply Z.eqb_eq in H1. apply Z.eqb_eq in H2. subst. reflexivity.
Qed.

Lemma vals_eqb_refl : forall v, vals_eqb v v = true.
Proof. apply list_eqb_refl. apply kv_eqb_refl. Qed.

Lemma vals_eqb_eq : forall v w, vals_eqb v w = true -> v = w.
Proof. apply list_eqb_eq. apply kv_eqb_eq. Qed.

Lemma zlist_eqb_refl : forall l : list Z, list_eqb Z.eqb l l = true.
Proof. apply list_eqb_refl. apply Z.eqb_refl. Qed.

(* ---- find_from on lists ---- *)
Definition sec_is (psec : Z) (x : sample) : Prop := ceil_sec (fst x) = psec.

Lemma find_from_split_some : forall psec l j q s,
  find_from psec l j = Some (q, s) ->
  exists pre post, l = pre ++ s :: post /\ Forall (sec_is psec) pre /\
                   ceil_sec (fst s) <> psec /\ q = (j + length pre)%nat.
Proof.
  intros psec l. induction l as [|x r IH]; intros j q s H; simpl in H; [discriminate|].
  destruct (ceil_sec (fst x) =? psec) eqn:E.
  - apply Z.eqb_eq in E. apply IH in H. destruct H as (pre & post & Hl & Hp & Hs & Hq).
    exists (x :: pre), post. subst r. simpl. repeat split; auto. lia.
  - apply Z.eqb_neq in E. inversion H; subst. exists [], r. simpl. repeat split; auto.
Qed.

Lemma find_from_none_all : forall psec l j,
  find_from psec l j = None -> Forall (sec_is psec) l.
Proof.
  intros psec l j H. apply Forall_forall. intros x Hx. eapply find_from_none; eauto.
Qed.

Lemma find_from_app_skip : forall psec pre l j,
  Forall (sec_is psec) pre ->
  find_from psec (pre ++ l) j = find_from psec l (j + length pre).
Proof.
  intros psec pre. induction pre as [|x r IH]; intros l j H; simpl.
  - f_equal. lia.
  - inversion H as [|? ? Hx Hr]; subst. unfold sec_is in Hx.
    apply Z.eqb_eq in Hx. rewrite Hx. rewrite IH; auto. f_equal. lia.
Qed.

Lemma find_from_here : forall psec s post j,
  ceil_sec (fst s) <> psec -> find_from psec (s :: post) j = Some (j, s).
Proof. intros psec s post j H. simpl. apply Z.eqb_neq in H. rewrite H. reflexivity. Qed.

Lemma find_from_all_none : forall psec l j,
  Forall (sec_is psec) l -> find_from psec l j = None.
Proof.
  intros psec l. induction l as [|x r IH]; intros j H; simpl; auto.
  inversion H as [|? ? Hx Hr]; subst. unfold sec_is in Hx. apply Z.eqb_eq in Hx. rewrite Hx. auto.
Qed.

Lemma skipn_app_exact : forall (A : Type) (pre l : list A), skipn (length pre) (pre ++ l) = l.
Proof. intros A pre. induction pre; simpl; auto. Qed.

Lemma skipn_skipn : forall (A : Type) x y (l : list A), skipn x (skipn y l) = skipn (x + y) l.
Proof.
  intros A x y. revert x. induction y as [|y IH]; intros x l.
  - rewrite Nat.add_0_r. reflexivity.
  - rewrite Nat.add_succ_r. destruct l; [rewrite !skipn_nil; reflexivity|]. simpl. apply IH.
Qed.

Lemma In_skipn : forall (A : Type) n (l : list A) x, In x (skipn n l) -> In x l.
Proof.
  intros A n. induction n as [|n IH]; intros l x H; simpl in H; auto.
  destruct l; [destruct H|]. right. auto.
Qed.

(* ---- the stream still ahead of a cursor ---- *)
Definition rem (c : cursor) : list sample :=
  match c_cur c with
  | Some cur => skipn (c_idx c) cur ++ concat (c_rest c)
  | None => match c_rest c with [] => [] | h :: t => skipn (c_idx c) h ++ concat t end
  end.

Definition chunk_keys (ch : chunk) : Prop := forall s, In s ch -> select s <> [].
Definition ksafe (c : cursor) : Prop :=
  Forall chunk_keys (c_rest c) /\ match c_cur c with Some cur => chunk_keys cur | None => True end.

Lemma window_loop_flat : forall rest cur ci idx psec ps r c',
  chunk_keys cur -> Forall chunk_keys rest ->
  window_loop rest cur ci idx psec ps = (r, c') ->
  ksafe c' /\
  match r with
  | Some e => exists pre s post,
       skipn idx cur ++ concat rest = pre ++ s :: post /\ Forall (sec_is psec) pre /\
       ceil_sec (fst s) <> psec /\ e = select s /\ c_psec c' = ceil_sec (fst s) /\
       c_psample c' = e /\ rem c' = s :: post
  | None => c_psec c' = psec /\ c_psample c' = ps /\
       Forall (sec_is psec) (skipn idx cur ++ concat rest) /\
       exists pre, skipn idx cur ++ concat rest = pre ++ rem c'
  end.
Proof.
  intros rest. induction rest as [|c1 rr IH]; intros cur ci idx psec ps r c' Hk Hks H; simpl in H.
  - destruct (find_from psec (skipn idx cur) idx) as [[j s]|] eqn:F.
    + destruct (find_from_split_some _ _ _ _ _ F) as (pre & post & Hl & Hp & Hs & Hq).
      assert (Hin : In s cur). { apply (In_skipn _ idx). rewrite Hl. apply in_or_app. right. left. reflexivity. }
      destruct (select s) as [|kv e] eqn:E; [exfalso; apply (Hk s Hin); exact E|].
      inversion H; subst r c'; clear H. split; [split; simpl; auto|].
      exists pre, s, post. simpl. rewrite app_nil_r. repeat split; auto.
      unfold rem. simpl. rewrite app_nil_r.
      replace j with (length pre + idx)%nat by lia. rewrite <- skipn_skipn. rewrite Hl.
      apply skipn_app_exact.
    + inversion H; subst r c'; clear H. split; [split; simpl; auto|].
      simpl. rewrite app_nil_r. repeat split; auto.
      * eapply find_from_none_all; eauto.
      * exists []. unfold rem. simpl. rewrite app_nil_r. reflexivity.
  - inversion Hks as [|? ? Hk1 Hkr]; subst.
    destruct (find_from psec (skipn idx cur) idx) as [[j s]|] eqn:F.
    + destruct (find_from_split_some _ _ _ _ _ F) as (pre & post & Hl & Hp & Hs & Hq).
      assert (Hin : In s cur). { apply (In_skipn _ idx). rewrite Hl. apply in_or_app. right. left. reflexivity. }
      destruct (select s) as [|kv e] eqn:E; [exfalso; apply (Hk s Hin); exact E|].
      inversion H; subst r c'; clear H. split; [split; simpl; auto|].
      exists pre, s, (post ++ concat (c1 :: rr)). rewrite Hl. rewrite <- app_assoc. simpl.
      repeat split; auto.
      unfold rem. simpl. f_equal.
      replace j with (length pre + idx)%nat by lia. rewrite <- skipn_skipn. rewrite Hl.
      rewrite skipn_app_exact. reflexivity.
    + pose proof (find_from_none_all _ _ _ F) as Hall.
      destruct (IH _ _ _ _ _ _ _ Hk1 Hkr H) as (Hsafe & Hres). split; [auto|].
      simpl in Hres. destruct r as [e|].
      * destruct Hres as (pre & s & post & Hl & Hp & Hs & He & Hsec & Hsm & Hrem).
        exists (skipn idx cur ++ pre), s, post. simpl. rewrite Hl. rewrite <- app_assoc.
        repeat split; auto. apply Forall_app. split; auto.
      * destruct Hres as (Hsec & Hsm & Hfa & pre & Hl).
        repeat split; auto.
        { simpl. apply Forall_app. split; auto. }
        exists (skipn idx cur ++ pre). simpl. rewrite Hl. rewrite <- app_assoc. reflexivity.
Qed.

(* ---- one actor, one second, against the oracle's step ---- *)
Definition ahead (fl : list sample) (from : nat) (c : cursor) : Prop :=
  exists pre, skipn from fl = pre ++ rem c /\ Forall (sec_is (c_psec c)) pre.

Lemma step_actor_ostep : forall fl from t c c' v,
  ksafe c -> ahead fl from c ->
  step_actor t c = Some (c', v) ->
  ksafe c' /\ exists from',
    ahead fl from' c' /\
    In (from', c_psec c', c_psample c') (ostep fl v (from, c_psec c, c_psample c)).
Proof.
  intros fl from t c c' v Hsafe (pre0 & Hfl & Hp0) H. unfold step_actor in H.
  assert (Hstay : forall c0, c_psec c0 = c_psec c -> c_psample c0 = c_psample c ->
            In (from, c_psec c0, c_psample c0) (ostep fl (c_psample c0) (from, c_psec c, c_psample c))).
  { intros c0 H1 H2. unfold ostep. rewrite H1, H2. rewrite vals_eqb_refl. left. reflexivity. }
  destruct (c_psec c <=? t).
  - unfold next_window in H.
    set (c1 := match c_cur c with
               | Some _ => c
               | None => match c_rest c with
                         | [] => c
                         | h :: t0 => mkCur (Some h) t0 (S (c_ci c)) (c_idx c) (c_psec c) (c_psample c)
                         end
               end) in *.
    assert (Hc1 : rem c1 = rem c /\ c_psec c1 = c_psec c /\ c_psample c1 = c_psample c /\ ksafe c1).
    { subst c1. destruct Hsafe as [Hr Hc]. unfold rem, ksafe.
      destruct (c_cur c) eqn:Ec; [rewrite Ec; auto|].
      destruct (c_rest c) as [|h t0] eqn:Er; [rewrite Ec, Er; auto|].
      simpl. inversion Hr; subst. auto. }
    destruct Hc1 as (Hrem1 & Hsec1 & Hsm1 & [Hr1 Hcur1]).
    destruct (c_cur c1) as [ch|] eqn:Ecur; [|discriminate].
    destruct (window_loop (c_rest c1) ch (c_ci c1) (c_idx c1) (c_psec c1) (c_psample c1)) as [r c2] eqn:W.
    destruct (window_loop_flat _ _ _ _ _ _ _ _ Hcur1 Hr1 W) as (Hsafe2 & Hres).
    assert (Hl1 : skipn (c_idx c1) ch ++ concat (c_rest c1) = rem c).
    { rewrite <- Hrem1. unfold rem. rewrite Ecur. reflexivity. }
    rewrite Hl1, Hsec1, Hsm1 in Hres.
    destruct r as [e|]; inversion H; subst c' v; clear H.
    + destruct Hres as (pre & s & post & Hl & Hp & Hs & He & Hsec & Hsm & Hrem).
      split; [auto|]. exists (from + length (pre0 ++ pre))%nat. split.
      * exists []. simpl. split; [|constructor].
        rewrite Hrem. rewrite Nat.add_comm. rewrite <- skipn_skipn. rewrite Hfl, Hl.
        rewrite app_assoc. apply skipn_app_exact.
      * unfold ostep. apply in_or_app. right.
        rewrite Hfl, Hl, app_assoc.
        rewrite find_from_app_skip by (apply Forall_app; split; auto).
        rewrite find_from_here by auto.
        rewrite <- He. rewrite vals_eqb_refl. rewrite Hsec, Hsm. left. reflexivity.
    + destruct Hres as (Hsec & Hsm & Hfa & pre & Hl).
      split; [auto|]. exists from. split.
      * exists (pre0 ++ pre). rewrite Hsec. split.
        { rewrite Hfl, Hl. rewrite app_assoc. reflexivity. }
        apply Forall_app. split; auto. rewrite Hl in Hfa. apply Forall_app in Hfa. apply Hfa.
      * apply Hstay; auto.
  - inversion H; subst c' v; clear H. split; [auto|]. exists from. split.
    + exists pre0. auto.
    + apply Hstay; auto.
Qed.

(* ---- the oracle's state set ---- *)
Lemma ostep_third : forall fl v st st', In st' (ostep fl v st) -> snd st' = v.
Proof.
  intros fl v [[from psec] pv] st' H. unfold ostep in H. apply in_app_or in H. destruct H as [H|H].
  - destruct (vals_eqb v pv) eqn:E; [|destruct H]. destruct H as [H|[]]. subst st'. simpl.
    symmetry. apply vals_eqb_eq. exact E.
  - destruct (find_from psec (skipn from fl) from) as [[q s]|]; [|destruct H].
    destruct (vals_eqb v (select s)); [|destruct H]. destruct H as [H|[]]. subst st'. reflexivity.
Qed.

Definition all_third (v : vals) (l : list ostate) : Prop := forall st, In st l -> snd st = v.

Lemma add_state_third : forall v st l, snd st = v -> all_third v l -> all_third v (add_state st l).
Proof.
  intros v st l Hs Hl. unfold add_state. destruct (existsb (same_state st) l); auto.
  intros x [Hx|Hx]; [subst; auto|auto].
Qed.

Lemma same_state_eq : forall a b, same_state a b = true -> snd a = snd b -> a = b.
Proof.
  intros [[p1 s1] v1] [[p2 s2] v2] H Hv. simpl in *. apply andb_true_iff in H. destruct H as [H1 H2].
  apply Nat.eqb_eq in H1. apply Z.eqb_eq in H2. subst. reflexivity.
Qed.

Lemma add_state_in : forall v st l, snd st = v -> all_third v l -> In st (add_state st l).
Proof.
  intros v st l Hs Hl. unfold add_state. destruct (existsb (same_state st) l) eqn:E; [|left; reflexivity].
  apply existsb_exists in E. destruct E as (x & Hx & Hsame).
  rewrite (same_state_eq st x Hsame); auto. rewrite Hs. symmetry. auto.
Qed.

Lemma add_state_mono : forall st x l, In x l -> In x (add_state st l).
Proof. intros st x l H. unfold add_state. destruct (existsb (same_state st) l); [auto|right; auto]. Qed.

Lemma fold_add_third : forall v news acc,
  all_third v news -> all_third v acc -> all_third v (fold_right add_state acc news).
Proof.
  intros v news. induction news as [|n r IH]; intros acc Hn Ha; simpl; auto.
  apply add_state_third; [apply Hn; left; reflexivity|].
  apply IH; auto. intros x Hx. apply Hn. right. auto.
Qed.

Lemma fold_add_in : forall v news acc x,
  all_third v news -> all_third v acc -> (In x news \/ In x acc) -> In x (fold_right add_state acc news).
Proof.
  intros v news. induction news as [|n r IH]; intros acc x Hn Ha Hx; simpl.
  - destruct Hx as [[]|Hx]; auto.
  - assert (Hr : all_third v r) by (intros y Hy; apply Hn; right; auto).
    destruct Hx as [[Hx|Hx]|Hx].
    + subst n. apply (add_state_in v); [apply Hn; left; reflexivity|]. apply fold_add_third; auto.
    + apply add_state_mono. apply IH; auto.
    + apply add_state_mono. apply IH; auto.
Qed.

Lemma ostep_all_third : forall fl v sts, all_third v (ostep_all fl v sts).
Proof.
  intros fl v sts. unfold ostep_all. induction sts as [|st r IH]; simpl.
  - intros x [].
  - apply fold_add_third; auto. intros x Hx. eapply ostep_third; eauto.
Qed.

Lemma ostep_all_in : forall fl v sts st st',
  In st sts -> In st' (ostep fl v st) -> In st' (ostep_all fl v sts).
Proof.
  intros fl v sts st st' Hst Hst'. unfold ostep_all. induction sts as [|s r IH]; simpl; [destruct Hst|].
  assert (Hn : all_third v (ostep fl v s)) by (intros x Hx; eapply ostep_third; eauto).
  pose proof (ostep_all_third fl v r) as Ha. unfold ostep_all in Ha.
  destruct Hst as [Hst|Hst].
  - subst s. apply (fold_add_in v); auto.
  - apply (fold_add_in v); auto.
Qed.

(* ---- one actor over the seconds ---- *)
Fixpoint run_actor (n : nat) (t : Z) (c : cursor) : option (cursor * list vals) :=
  match n with
  | O => Some (c, [])
  | S k =>
      match step_actor t c with
      | None => None
      | Some (c', v) =>
          match run_actor k (t + 1) c' with
          | None => None
          | Some (cf, vs) => Some (cf, v :: vs)
          end
      end
  end.

Lemma run_actor_fold : forall fl n t c cf vs from sts,
  ksafe c -> ahead fl from c -> In (from, c_psec c, c_psample c) sts ->
  run_actor n t c = Some (cf, vs) ->
  fold_left (fun sts v => ostep_all fl v sts) vs sts <> [].
Proof.
  intros fl n. induction n as [|n IH]; intros t c cf vs from sts Hsafe Hah Hin H; simpl in H.
  - inversion H; subst. simpl. intros E. rewrite E in Hin. destruct Hin.
  - destruct (step_actor t c) as [[c' v]|] eqn:S1; [|discriminate].
    destruct (run_actor n (t + 1) c') as [[cf' vs']|] eqn:R; [|discriminate].
    inversion H; subst cf vs; clear H.
    destruct (step_actor_ostep fl from t c c' v Hsafe Hah S1) as (Hsafe' & from' & Hah' & Hin').
    simpl. eapply IH; eauto. eapply ostep_all_in; eauto.
Qed.

Lemma run_project : forall n t st stf outs,
  st <> [] -> run n t st = Some (stf, outs) ->
  forall j nc, nth_error st j = Some nc ->
  exists cf, run_actor n t (snd nc) = Some (cf, map (sub_vals j) outs).
Proof.
  induction n as [|n IH]; intros t st stf outs Hne H j nc Hj; simpl in H.
  - inversion H; subst. simpl. eauto.
  - destruct (step_all t st) as [[st' vs]|] eqn:S1; [|discriminate].
    destruct (run n (t + 1) st') as [[stf' outs']|] eqn:R; [|discriminate].
    inversion H; subst stf outs; clear H.
    destruct (step_all_nth _ _ _ _ S1 j nc Hj) as (c' & v & Hs & Hst' & Hvs).
    assert (Hne' : st' <> []). { intros E. rewrite E in Hst'. destruct j; discriminate. }
    destruct (IH _ _ _ _ Hne' R j (fst nc, c') Hst') as (cf & Hcf). simpl in Hcf.
    exists cf. simpl. rewrite Hs, Hcf.
    destruct vs as [|v0 vr]; [destruct j; discriminate|].
    simpl. do 3 f_equal. unfold sub_vals. cbn [snd].
    rewrite (nth_error_nth _ _ _ Hvs). reflexivity.
Qed.

Lemma ksafe_init : forall a,
  (forall ch s, In ch (a_chunks a) -> In s ch -> select s <> []) -> ksafe (init_cursor a).
Proof.
  intros a H. split; simpl; auto. apply Forall_forall. intros ch Hch s Hs. eapply H; eauto.
Qed.

Lemma ahead_init : forall a, ahead (flat a) 0 (init_cursor a).
Proof.
  intros a. exists []. split; [|constructor]. unfold flat, rem. simpl.
  destruct (a_chunks a); reflexivity.
Qed.

Lemma own_all_sound : forall actors j n t outs,
  keys_ok actors ->
  (forall k a, nth_error actors k = Some a ->
     exists cf, run_actor n t (init_cursor a) = Some (cf, map (sub_vals (j + k)) outs)) ->
  own_all actors j outs = true.
Proof.
  induction actors as [|a r IH]; intros j n t outs Hk H; simpl; auto.
  inversion Hk as [|? ? Hka Hkr]; subst.
  apply andb_true_iff. split.
  - destruct (H O a eq_refl) as (cf & Hcf). rewrite Nat.add_0_r in Hcf.
    unfold own_ok.
    pose proof (run_actor_fold (flat a) n t (init_cursor a) cf _ O [(O, 0, zeroed)]
                  (ksafe_init a Hka) (ahead_init a) (or_introl eq_refl) Hcf) as Hne.
    destruct (fold_left _ _ _); [congruence|reflexivity].
  - apply (IH (S j) n t outs Hkr). intros k a' Hk'.
    destruct (H (S k) a' Hk') as (cf & Hcf). exists cf.
    replace (S j + k)%nat with (j + S k)%nat by lia. exact Hcf.
Qed.

Lemma nth_error_init_states : forall actors k a,
  nth_error actors k = Some a -> nth_error (init_states actors) k = Some (a_name a, init_cursor a).
Proof. intros actors k a H. unfold init_states. rewrite nth_error_map, H. reflexivity. Qed.

Lemma c20_own_sound : forall actors start end_ out,
  keys_ok actors -> translate_span actors start end_ = Some out ->
  c20_ok_own actors out = true.
Proof.
  intros actors start end_ out Hk H. unfold translate_span in H.
  destruct (run (Z.to_nat (end_ - start)) start (init_states actors)) as [[stf outs]|] eqn:R; [|discriminate].
  simpl in H. inversion H; subst outs; clear H.
  destruct actors as [|a0 ar]; [reflexivity|].
  unfold c20_ok_own. apply (own_all_sound _ O (Z.to_nat (end_ - start)) start out Hk).
  intros k a Hka.
  apply nth_error_init_states in Hka.
  assert (Hne : init_states (a0 :: ar) <> []) by (simpl; discriminate).
  destruct (run_project _ _ _ _ _ Hne R k _ Hka) as (cf & Hcf). exists cf. exact Hcf.
Qed.

(* ---- count and shape ---- *)
Lemma c20_count_sound : forall actors start end_ out,
  has_chunks actors -> stamps_in_range start end_ ->
  translate_span actors start end_ = Some out ->
  c20_ok_count actors start end_ out = true.
Proof.
  intros actors start end_ out Hc [Hlo Hhi] H. unfold translate_span in H.
  destruct (run_spec actors (Z.to_nat (end_ - start)) start _ Hc (init_states_inv actors))
    as (stf & outs & Hr & _ & Hst & _).
  rewrite Hr in H. simpl in H. inversion H; subst outs; clear H.
  unfold c20_ok_count. destruct actors as [|a0 ar].
  - clear Hst. revert Hr. generalize (Z.to_nat (end_ - start)) as n. generalize start as t.
    intros t n. revert t stf out. induction n as [|n IH]; intros t stf out Hr; simpl in Hr.
    + inversion Hr; reflexivity.
    + destruct (run n (t + 1) []) as [[stf' outs']|] eqn:R; [|discriminate].
      inversion Hr; subst. eapply IH; eauto.
  - rewrite Hst by discriminate. unfold stamps, zrange_nat. rewrite map_map.
    erewrite map_ext_in; [apply zlist_eqb_refl|].
    intros i Hi. apply in_seq in Hi. cbv beta. apply stamp_ms_exact. lia.
Qed.

Lemma c20_shape_sound : forall actors start end_ out,
  has_chunks actors -> translate_span actors start end_ = Some out ->
  c20_ok_shape actors out = true.
Proof.
  intros actors start end_ out Hc H.
  destruct (genny_shape actors start end_ Hc) as (out' & H' & Hf).
  rewrite H in H'. inversion H'; subst out'; clear H'.
  unfold c20_ok_shape. apply forallb_forall. intros o Ho.
  rewrite Forall_forall in Hf. rewrite (Hf o Ho). apply zlist_eqb_refl.
Qed.

Lemma c20_oracle_out_sound : forall actors out,
  has_chunks actors -> keys_ok actors ->
  stamps_in_range (workload_start actors) (workload_end actors) ->
  model_out actors = Some out ->
  c20_ok_count actors (workload_start actors) (workload_end actors) out = true /\
  c20_ok_shape actors out = true /\ c20_ok_own actors out = true /\ c20_ok_out actors out = true.
Proof.
  intros actors out Hc Hk Hs H. unfold model_out, translate in H.
  pose proof (c20_count_sound _ _ _ _ Hc Hs H) as H1.
  pose proof (c20_shape_sound _ _ _ _ Hc H) as H2.
  pose proof (c20_own_sound _ _ _ _ Hk H) as H3.
  repeat split; auto. unfold c20_ok_out. rewrite H1, H2, H3. reflexivity.
Qed.

(* the model's translation exists whenever every stream has a chunk *)
Lemma c20_model_out_defined : forall actors, has_chunks actors -> exists out, model_out actors = Some out.
Proof.
  intros actors Hc. destruct (genny_shape actors (workload_start actors) (workload_end actors) Hc) as (out & H & _).
  exists out. exact H.
Qed.

(* ---- chunks ---- *)
Lemma abl_full_bool : forall (cs : list (list out_sample)),
  abl_full 300 cs -> all_but_last_full (map (fun c => Z.of_nat (length c)) cs) = true.
Proof.
  induction cs as [|c r IH]; intros H; [reflexivity|].
  destruct r as [|c2 r']; [reflexivity|].
  cbn [abl_full] in H. destruct H as [Hl Hr].
  change (map (fun c => Z.of_nat (length c)) (c :: c2 :: r'))
    with (Z.of_nat (length c) :: map (fun c => Z.of_nat (length c)) (c2 :: r')).
  cbn [all_but_last_full].
  change (map (fun c => Z.of_nat (length c)) (c2 :: r'))
    with (Z.of_nat (length c2) :: map (fun c => Z.of_nat (length c)) r') at 1.
  cbv iota. rewrite (IH Hr). rewrite Hl. reflexivity.
Qed.

Lemma sum_lengths : forall (cs : list (list out_sample)),
  fold_right Z.add 0 (map (fun c => Z.of_nat (length c)) cs) = Z.of_nat (length (concat cs)).
Proof.
  induction cs as [|c r IH]; [reflexivity|]. cbn [map fold_right concat].
  rewrite IH, app_length. lia.
Qed.

Lemma c20_oracle_chunks_sound : forall out,
  c20_ok_chunks (model_chunk_sizes out) (Z.of_nat (length out)) = true.
Proof.
  intros out. unfold c20_ok_chunks, model_chunk_sizes, output_chunks, max_samples.
  destruct (stream_collect_spec out_sample 300 out []) as (Hc & Hf & Ha); [lia|simpl; lia|].
  rewrite sum_lengths, Hc. simpl app. rewrite Z.eqb_refl. rewrite abl_full_bool by exact Ha.
  rewrite andb_true_r. simpl. apply forallb_forall. intros s Hs.
  apply in_map_iff in Hs. destruct Hs as (c & <- & Hcin).
  rewrite Forall_forall in Hf. specialize (Hf c Hcin).
  apply andb_true_iff. split; [apply Z.leb_le|apply Z.leb_le]; lia.
Qed.

(* ---- GetGennyTime ---- *)
Lemma nondecreasing_last : forall l x d, nondecreasing l = true -> In x l -> x <= last l d.
Proof.
  induction l as [|a r IH]; intros x d Hn Hin; [destruct Hin|].
  destruct r as [|b r'].
  - destruct Hin as [->|[]]. simpl. lia.
  - cbn [nondecreasing] in Hn. apply andb_true_iff in Hn. destruct Hn as [Hab Hn].
    apply Z.leb_le in Hab.
    change (last (a :: b :: r') d) with (last (b :: r') d).
    destruct Hin as [->|Hin]; [|apply IH; auto].
    specialize (IH b d Hn (or_introl eq_refl)). lia.
Qed.

Lemma last_app_ne : forall (A : Type) (l1 l2 : list A) d, l2 <> [] -> last (l1 ++ l2) d = last l2 d.
Proof.
  intros A l1. induction l1 as [|a r IH]; intros l2 d Hne; [reflexivity|].
  simpl. destruct (r ++ l2) eqn:E.
  - apply app_eq_nil in E. destruct E; congruence.
  - rewrite <- E. auto.
Qed.

Lemma last_map_fst : forall (ch : chunk) s0 d, ch <> [] -> last (map fst ch) d = fst (last ch s0).
Proof.
  induction ch as [|a r IH]; intros s0 d Hne; [congruence|].
  destruct r as [|b r']; [reflexivity|].
  change (last (map fst (a :: b :: r')) d) with (last (map fst (b :: r')) d).
  change (last (a :: b :: r') s0) with (last (b :: r') s0).
  apply IH. discriminate.
Qed.

(* last timestamp of the flattened stream = last timestamp of the last chunk *)
Lemma flat_last : forall chs d,
  chs <> [] -> Forall (fun ch => ch <> []) chs ->
  In (last (map fst (concat chs)) d) (map chunk_last_ts chs).
Proof.
  induction chs as [|ch r IH]; intros d Hne Hf; [congruence|].
  inversion Hf as [|? ? Hch Hr]; subst.
  destruct r as [|ch2 r'].
  - left. simpl. rewrite app_nil_r. destruct ch as [|s0 c0]; [congruence|].
    unfold chunk_last_ts. symmetry. apply last_map_fst. discriminate.
  - right. cbn [concat]. rewrite map_app. rewrite last_app_ne.
    + apply IH; auto. discriminate.
    + inversion Hr; subst. destruct ch2; [congruence|]. simpl. discriminate.
Qed.

Lemma chunk_last_in_flat : forall chs x,
  Forall (fun ch => ch <> []) chs -> In x (map chunk_last_ts chs) -> In x (map fst (concat chs)).
Proof.
  induction chs as [|ch r IH]; intros x Hf Hin; [destruct Hin|].
  inversion Hf as [|? ? Hch Hr]; subst. cbn [concat]. rewrite map_app. apply in_or_app.
  destruct Hin as [Hin|Hin]; [left|right; auto].
  subst x. destruct ch as [|s0 c0]; [congruence|]. unfold chunk_last_ts.
  apply in_map. assert (Hne : s0 :: c0 <> []) by discriminate.
  destruct (exists_last Hne) as (l' & a & E). rewrite E. rewrite last_last.
  apply in_or_app. right. left. reflexivity.
Qed.

Lemma forallb_nonempty : forall chs : list chunk,
  forallb (fun ch => match ch with [] => false | _ => true end) chs = true ->
  Forall (fun ch => ch <> []) chs.
Proof.
  intros chs H. apply Forall_forall. intros ch Hin. rewrite forallb_forall in H.
  specialize (H ch Hin). destruct ch; [discriminate|discriminate].
Qed.

Lemma c20_oracle_time_sound : forall a,
  (time_domain a = true -> exists st en, model_time a = Some (st, en)) /\
  (forall st en, model_time a = Some (st, en) -> c20_ok_time a st en = true).
Proof.
  intros a.
  assert (Hmain : time_domain a = true ->
     model_time a = Some (ceil_sec (hd 0 (map fst (flat a))), ceil_sec (last (map fst (flat a)) 0))).
  { intros Hd. unfold time_domain in Hd.
    destruct (map fst (flat a)) as [|t0 tr] eqn:Ets; [discriminate|].
    apply andb_true_iff in Hd. destruct Hd as [Hd Hne]. apply andb_true_iff in Hd. destruct Hd as [Hpos Hnd].
    apply Z.ltb_lt in Hpos. apply forallb_nonempty in Hne.
    unfold flat in Ets.
    destruct (a_chunks a) as [|ch0 rest] eqn:Ech; [discriminate|].
    destruct ch0 as [|s0 c0]; [inversion Hne; congruence|].
    assert (Ht0 : fst s0 = t0). { simpl in Ets. inversion Ets. reflexivity. }
    unfold model_time.
    set (a' := mkActor (a_name a) 0 0 (a_chunks a)).
    assert (Hch' : a_chunks a' = (s0 :: c0) :: rest) by (simpl; exact Ech).
    assert (Hne' : Forall (fun ch => ch <> []) (a_chunks a')) by (simpl; rewrite Ech; exact Hne).
    assert (Hs0 : ceil_sec (fst s0) <> 0).
    { rewrite Ht0. unfold ceil_sec. intros E.
      assert (1 <= (t0 + 999) / 1000) by (apply Z.div_le_lower_bound; lia). lia. }
    destruct (genny_time a' s0 c0 rest eq_refl Hch' Hne' Hs0) as (_ & HL).
    change (a_chunks a') with (a_chunks a) in HL. rewrite Ech in HL.
    simpl hd. subst t0. apply HL.
    - apply Z.le_trans with (fst s0); [lia|]. apply nondecreasing_last; auto. apply in_eq.
    - rewrite <- Ets. apply flat_last; [discriminate|exact Hne].
    - intros x Hx. apply nondecreasing_last; auto. rewrite <- Ets. apply chunk_last_in_flat; auto. }
  split.
  - intros Hd. rewrite (Hmain Hd). eauto.
  - intros st en Hm. unfold c20_ok_time. destruct (time_domain a) eqn:Hd; [|reflexivity].
    rewrite (Hmain eq_refl) in Hm. inversion Hm; subst. rewrite !Z.eqb_refl. reflexivity.
Qed.
