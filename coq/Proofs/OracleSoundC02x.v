(* C02 oracle soundness, executable instance: with the trivial codec and the model
   reader's evaluation cap (x_read, as the driver ocaml/c02_run.ml runs it). *)
From Coq Require Import ZArith NArith List Bool Lia Arith.
From Coq Require Import ZifyN ZifyNat.
From FV.Model Require Import Bytes Bson Metrics Codec Collector Wf RoundTrip CollectorOk Views ViewsOk Instance.
From FV.Proofs Require Import MetricsProofs CodecChunk ViewsProofs OracleSoundC02.
From FV.Proofs Require OracleSoundC01 OracleSoundC18rt.
Import ListNotations.
Open Scope Z_scope.

Lemma of_nat_le : forall a b, (a <= b)%nat -> (N.of_nat a <= N.of_nat b)%N.
Proof. intros a b H. lia. Qed.

Lemma in_concat_length : forall (A : Type) (g : list A) groups, In g groups -> (length g <= length (concat groups))%nat.
Proof.
  intros A g groups. induction groups as [|h r IH]; intro H; [destruct H|].
  cbn [concat]. rewrite app_length. destruct H as [->|H]; [lia|]. specialize (IH H). lia.
Qed.

Lemma c02_oracle_sound_x : forall k n docs nows,
  compressing k = true -> 1 <= n < 2 ^ 31 ->
  (docs <> [] /\ length nows = length docs /\ Forall (fun t => in_i64 t = true) nows /\
   same_schema docs /\
   Forall (fun d => doc_ok d = true /\ doc_leaves_ok d = true /\ small (enc_doc d)) docs /\
   (N.of_nat (length (flatten_doc (hd [] docs))) < 2 ^ 32)%N) ->
  fits k n docs ->
  Forall (fun d => doc_has_ts_seconds d = false) docs ->
  Forall (fun d => doc_keys_good d = true /\ doc_arrays_small d = true) docs ->
  (N.of_nat (length (flatten_doc (hd [] docs))) * N.of_nat (length docs) <= delta_cap)%N ->
  exists cs o,
    x_read (emitted (snd (fst (emit deflate_flag k n docs nows)))) = (cs, None) /\
    model_sobs cs false = Some o /\ c02_ok docs o = true.
Proof.
  intros k n docs nows Hk Hn Hin Hfits Hts Hgood Hcap.
  destruct (c02_oracle_sound deflate_flag inflate_flag OracleSoundC01.inflate_deflate_flag
              k n docs nows Hk Hn Hin Hfits Hts Hgood) as (cs & o & Hcs & Hm & Hok).
  exists cs, o. split; [|split; assumption].
  destruct (c02_table deflate_flag inflate_flag OracleSoundC01.inflate_deflate_flag
              k n docs nows Hk Hn Hin Hfits Hts) as (cs' & groups & Hcs' & Hcat & Htab).
  rewrite Hcs in Hcs'. injection Hcs' as <-.
  unfold x_read. apply OracleSoundC18rt.read_chunks_cap; [exact Hcs|].
  destruct Hin as (Hne & _ & _ & Hss & _).
  assert (Hhd : In (hd [] docs) docs) by (destruct docs; [congruence|left; reflexivity]).
  assert (Hsub : forall g, In g groups -> forall d, In d g -> In d docs).
  { intros g Hg d Hd. rewrite <- Hcat. apply in_concat. exists g. split; assumption. }
  assert (Hlen : forall g, In g groups -> (length g <= length docs)%nat).
  { intros g Hg. rewrite <- Hcat. apply in_concat_length. exact Hg. }
  clear Hcs Hm Hok Hcat. induction Htab as [|c g cs gs (Hgne & _ & Hnp & _ & Ht) _ IH]; [constructor|].
  constructor; [|apply IH; [intros g' Hg'; apply Hsub; right; exact Hg'|intros g' Hg'; apply Hlen; right; exact Hg']].
  assert (Hm : length (ck_metrics c) = length (flatten_doc (hd [] docs))).
  { transitivity (length (chunk_table c)); [unfold chunk_table; rewrite map_length; reflexivity|].
    rewrite Ht. unfold doc_table. rewrite map_length, combine_length, seq_length, Nat.min_id.
    rewrite metrics_of_doc_length. apply same_skeleton_length. apply Hss; [|exact Hhd].
    apply (Hsub g (or_introl eq_refl)). destruct g; [congruence|left; reflexivity]. }
  rewrite Hm, Hnp. eapply N.le_trans; [|exact Hcap]. apply N.mul_le_mono_l.
  specialize (Hlen g (or_introl eq_refl)).
  apply N.le_trans with (N.of_nat (length g)); [lia|]. apply of_nat_le. exact Hlen.
Qed.
