(* C01, reader side: one collector chunk (reference document + delta rows) is read
   back as the documents it was built from; a sequence of chunk documents is read
   as the concatenation.  Used by Proofs/CodecProofs.v. *)
From Coq Require Import ZArith NArith List Bool Lia Arith.
From FV.Model Require Import Bytes Bson Metrics Codec Collector.
From FV.Proofs Require Import BytesProofs BsonProofs MetricsProofs.
From FV.Model Require Import Wf RoundTrip.
Import ListNotations.
Open Scope Z_scope.

(* ------------------------------------------------------------------ generic list facts *)
Lemma cc_nth_map_lt : forall (A B : Type) (f : A -> B) (l : list A) i d d',
  (i < length l)%nat -> nth i (map f l) d = f (nth i l d').
Proof.
  intros A B f l i d d' Hi.
  rewrite (nth_indep (map f l) d (f d')) by (rewrite map_length; exact Hi).
  apply map_nth.
Qed.

Lemma cc_map_nth_seq : forall (A B : Type) (f : A -> B) (l : list A) d,
  map (fun i => f (nth i l d)) (seq 0 (length l)) = map f l.
Proof.
  intros A B f l d. induction l as [|a r IH]; [reflexivity|].
  cbn [length seq map nth]. f_equal.
  rewrite <- seq_shift, map_map. exact IH.
Qed.

Lemma cc_last_cons : forall (A : Type) (r : list A) a d, last (a :: r) d = last r a.
Proof.
  intros A r. induction r as [|b r IH]; intros a d; [reflexivity|].
  change (last (a :: b :: r) d) with (last (b :: r) d). rewrite (IH b d), (IH b a). reflexivity.
Qed.

Lemma cc_all_some_map : forall (A : Type) (l : list A), all_some (map (@Some A) l) = Some l.
Proof.
  intros A l. induction l as [|a r IH]; [reflexivity|].
  cbn [map all_some]. rewrite IH. reflexivity.
Qed.

(* ------------------------------------------------------------------ the rows of a group *)
(* the delta rows a base collector holds after the documents d0 :: ds *)
Fixpoint delta_rows (d0 : doc) (ds : list doc) : list (list Z) :=
  match ds with
  | [] => []
  | d :: r => delta_row (flatten_doc d) (flatten_doc d0) :: delta_rows d r
  end.

Definition vrow (d : doc) : list Z := map snd (flatten_doc d).

Lemma delta_rows_length : forall ds d0, length (delta_rows d0 ds) = length ds.
Proof. induction ds as [|d r IH]; intros d0; [reflexivity|]. cbn [delta_rows length]. rewrite IH. reflexivity. Qed.

Lemma delta_rows_snoc : forall ds d0 d,
  delta_rows d0 (ds ++ [d]) = delta_rows d0 ds ++ [delta_row (flatten_doc d) (flatten_doc (last ds d0))].
Proof.
  induction ds as [|d1 r IH]; intros d0 d; [reflexivity|].
  cbn [app delta_rows]. rewrite IH, cc_last_cons. reflexivity.
Qed.

Lemma same_skeleton_length : forall a b, skeleton_doc a = skeleton_doc b ->
  length (flatten_doc a) = length (flatten_doc b).
Proof.
  intros a b H. rewrite <- (map_length fst (flatten_doc a)), <- (map_length fst (flatten_doc b)).
  rewrite (flatten_types_same_schema a b H). reflexivity.
Qed.

Lemma types_agree_fst : forall a b : list (mtype * Z), map fst a = map fst b -> types_agree a b = true.
Proof.
  induction a as [|[t1 x1] a IH]; intros [|[t2 x2] b] H; cbn [map fst] in H; try discriminate H; [reflexivity|].
  injection H as Ht Hr. subst t2. cbn [types_agree]. rewrite (IH b Hr). destruct t1; reflexivity.
Qed.

Lemma delta_row_in_i64 : forall cur prev, Forall (fun x => in_i64 x = true) (delta_row cur prev).
Proof.
  induction cur as [|[t1 c] cur IH]; intros [|[t2 p] prev]; cbn [delta_row]; try constructor.
  - apply wrap64_range.
  - apply IH.
Qed.

Lemma delta_rows_in_i64 : forall ds d0, Forall (Forall (fun x => in_i64 x = true)) (delta_rows d0 ds).
Proof.
  induction ds as [|d r IH]; intros d0; cbn [delta_rows]; constructor; [apply delta_row_in_i64|apply IH].
Qed.

Lemma flat_map_column_in_i64 : forall rows a n, Forall (Forall (fun x => in_i64 x = true)) rows ->
  Forall (fun x => in_i64 x = true) (flat_map (fun i => column i rows) (seq a n)).
Proof.
  intros rows a n Hrows. apply Forall_forall. intros x Hx.
  apply in_flat_map in Hx. destruct Hx as [i [_ Hx]].
  unfold column in Hx. apply in_map_iff in Hx. destruct Hx as [row [Hx Hrow]]. subst x.
  rewrite Forall_forall in Hrows. specialize (Hrows row Hrow). rewrite Forall_forall in Hrows.
  destruct (nth_in_or_default i row 0) as [Hin|Hd]; [apply Hrows; exact Hin|rewrite Hd; reflexivity].
Qed.

Lemma nth_delta_row : forall cur prev i, length cur = length prev ->
  nth i (delta_row cur prev) 0 = wrap64 (nth i (map snd cur) 0 - nth i (map snd prev) 0).
Proof.
  induction cur as [|[t1 c] cur IH]; intros [|[t2 p] prev] i Hlen; cbn [length] in Hlen; try discriminate Hlen.
  - destruct i; reflexivity.
  - cbn [delta_row map snd]. destruct i as [|i]; [reflexivity|].
    cbn [nth]. apply IH. injection Hlen as Hlen. exact Hlen.
Qed.

Lemma column_delta_rows : forall i ds d0,
  Forall (fun d => length (flatten_doc d) = length (flatten_doc d0)) ds ->
  column i (delta_rows d0 ds) = deltas_of (nth i (vrow d0) 0) (map (fun d => nth i (vrow d) 0) ds).
Proof.
  intros i. induction ds as [|d r IH]; intros d0 Hall; [reflexivity|].
  inversion Hall as [|d' r' Hd Hr]; subst.
  unfold column in *. cbn [delta_rows map deltas_of]. f_equal.
  - apply nth_delta_row. exact Hd.
  - apply IH. revert Hr. apply Forall_impl. intros x Hx. rewrite Hx, Hd. reflexivity.
Qed.

(* ------------------------------------------------------------------ lookups in the outer documents *)
Lemma lookup_type_chunk : forall s data, lookup k_type (chunk_doc s data) = Some (VInt32 1).
Proof. intros s data. reflexivity. Qed.
Lemma lookup_data_chunk : forall s data, lookup k_data (chunk_doc s data) = Some (VBinary 0%N data).
Proof. intros s data. reflexivity. Qed.
Lemma lookup_id_chunk : forall s data, lookup k_id (chunk_doc s data) = Some (VDateTime s).
Proof. intros s data. reflexivity. Qed.

(* ------------------------------------------------------------------ one chunk *)
Section Chunk.
Variable deflate : bytes -> bytes.
Variable inflate : bytes -> option bytes.
Hypothesis inflate_deflate : forall p, inflate (deflate p) = Some p.

(* the outer document a base collector resolves to after d0 :: ds *)
Definition group_chunk (s : Z) (d0 : doc) (ds : list doc) : doc :=
  chunk_doc s (compress deflate (payload d0 (length (flatten_doc d0)) (delta_rows d0 ds))).

Definition group_cols (d0 : doc) (ds : list doc) : list (list Z) :=
  map (fun i => column i (delta_rows d0 ds)) (seq 0 (length (flatten_doc d0))).

Definition group_ck (meta : option doc) (s : Z) (d0 : doc) (ds : list doc) : chunk :=
  mkChunk (map (fun mc => (fst mc, undelta (m_start (fst mc)) (snd mc)))
               (combine (metrics_of_doc [] d0) (group_cols d0 ds)))
          (Z.of_N (N.of_nat (length ds)) + 1) (Some s) meta d0.

Lemma read_group_chunk : forall meta s d0 ds,
  doc_ok d0 = true -> small (enc_doc d0) ->
  (N.of_nat (length (flatten_doc d0)) < 2 ^ 32)%N -> (N.of_nat (length ds) < 2 ^ 32)%N ->
  read_chunk inflate meta (group_chunk s d0 ds) = inl (group_ck meta s d0 ds).
Proof.
  intros meta s d0 ds Hok Hsmall Hm Hd.
  unfold read_chunk, read_chunk_gen, group_chunk.
  rewrite lookup_data_chunk, lookup_id_chunk.
  unfold compress.
  set (m := length (flatten_doc d0)) in *.
  set (rows := delta_rows d0 ds).
  assert (Hrl : length rows = length ds) by apply delta_rows_length.
  set (p := payload d0 m rows).
  replace (Nat.ltb (length (le_enc 4 (N.of_nat (length p) mod 2 ^ 32) ++ deflate p)) 4) with false
    by (symmetry; apply Nat.ltb_ge; rewrite app_length, le_enc_length; lia).
  rewrite (skipn_app_exact _ (le_enc 4 (N.of_nat (length p) mod 2 ^ 32)) (deflate p) 4) by apply le_enc_length.
  rewrite inflate_deflate.
  unfold p, payload.
  rewrite (dec_enc_doc d0 _ Hok Hsmall).
  rewrite !N.mod_small by (rewrite ?Hrl; assumption).
  rewrite (app_assoc (le_enc 4 (N.of_nat m))).
  rewrite (bs_take_exact_app 8 (le_enc 4 (N.of_nat m) ++ le_enc 4 (N.of_nat (length rows))))
    by (rewrite app_length, !le_enc_length; reflexivity).
  cbv zeta.
  rewrite (firstn_app_exact _ (le_enc 4 (N.of_nat m)) (le_enc 4 (N.of_nat (length rows))) 4) by apply le_enc_length.
  rewrite (skipn_app_exact _ (le_enc 4 (N.of_nat m)) (le_enc 4 (N.of_nat (length rows))) 4) by apply le_enc_length.
  rewrite !le_dec_enc by (change (256 ^ N.of_nat 4)%N with (2 ^ 32)%N; rewrite ?Hrl; assumption).
  rewrite metrics_of_doc_length. fold m.
  rewrite N.eqb_refl. cbn [negb].
  assert (Hcnt : N.to_nat (N.of_nat m * N.of_nat (length rows)) = length (metric_major m rows)).
  { unfold metric_major. rewrite flat_map_column_length. lia. }
  rewrite Hcnt.
  rewrite <- (app_nil_r (rle 0%N (metric_major m rows))).
  rewrite rle_read_deltas.
  - rewrite Nat2N.id. unfold metric_major. rewrite split_every_flat_map_column.
    unfold group_ck, group_cols. fold m. fold rows. rewrite Hrl. reflexivity.
  - unfold metric_major. apply flat_map_column_in_i64. apply delta_rows_in_i64.
  - rewrite <- Hcnt. rewrite N2Nat.id. rewrite Hrl.
    assert (2 ^ 32 * 2 ^ 32 = 2 ^ 64)%N as H64 by reflexivity. nia.
Qed.

Lemma vrow_nth_i64 : forall d i, doc_leaves_ok d = true -> in_i64 (nth i (vrow d) 0) = true.
Proof.
  intros d i Hok. unfold vrow.
  destruct (nth_in_or_default i (map snd (flatten_doc d)) 0) as [Hin|Hd]; [|rewrite Hd; reflexivity].
  apply in_map_iff in Hin. destruct Hin as [x [Hx Hin]]. rewrite <- Hx.
  pose proof (flatten_in_i64 d Hok) as HF. rewrite Forall_forall in HF. apply HF. exact Hin.
Qed.

Definition dflt_metric : metric := mkMetric [] [] MBool 0.

Lemma group_sample_row : forall meta s d0 ds j,
  Forall (fun d => skeleton_doc d = skeleton_doc d0 /\ doc_leaves_ok d = true) ds ->
  doc_has_ts_seconds d0 = false -> (j < S (length ds))%nat ->
  sample_row (group_ck meta s d0 ds) j = vrow (nth j (d0 :: ds) []).
Proof.
  intros meta s d0 ds j Hall Hts Hj.
  set (m := length (flatten_doc d0)).
  assert (Hlens : Forall (fun d => length (flatten_doc d) = length (flatten_doc d0)) ds).
  { revert Hall. apply Forall_impl. intros d [Hd _]. apply same_skeleton_length. exact Hd. }
  assert (Hlenj : length (flatten_doc (nth j (d0 :: ds) [])) = m).
  { destruct j as [|j]; [reflexivity|]. cbn [nth]. cbn [length] in Hj.
    rewrite Forall_forall in Hlens. apply Hlens. apply nth_In. lia. }
  assert (Hms : length (metrics_of_doc [] d0) = m) by apply metrics_of_doc_length.
  assert (Hcols : length (group_cols d0 ds) = m) by (unfold group_cols; rewrite map_length, seq_length; reflexivity).
  unfold sample_row, group_ck. cbn [ck_metrics]. rewrite map_map. cbn [snd fst].
  apply (nth_ext _ _ 0 0).
  - rewrite map_length, combine_length, Hms, Hcols. unfold vrow. rewrite map_length, Hlenj. lia.
  - intros i Hi. rewrite map_length, combine_length, Hms, Hcols in Hi.
    assert (Him : (i < m)%nat) by lia.
    rewrite (cc_nth_map_lt _ _ _ _ i 0 (dflt_metric, [])) by (rewrite combine_length, Hms, Hcols; lia).
    rewrite combine_nth by (rewrite Hms, Hcols; reflexivity). cbn [fst snd].
    assert (Hst : m_start (nth i (metrics_of_doc [] d0) dflt_metric) = nth i (vrow d0) 0).
    { unfold vrow. rewrite <- (metrics_of_doc_start [] d0 Hts).
      symmetry. exact (map_nth m_start (metrics_of_doc [] d0) dflt_metric i). }
    rewrite Hst.
    unfold group_cols.
    rewrite (cc_nth_map_lt _ _ _ _ i [] 0%nat) by (rewrite seq_length; exact Him).
    rewrite seq_nth by exact Him. cbn [Nat.add].
    rewrite (column_delta_rows i ds d0 Hlens).
    rewrite undelta_deltas_of.
    + change (nth i (vrow d0) 0 :: map (fun d => nth i (vrow d) 0) ds)
        with (map (fun d => nth i (vrow d) 0) (d0 :: ds)).
      rewrite (cc_nth_map_lt doc Z (fun d => nth i (vrow d) 0) (d0 :: ds) j 0 []) by (cbn [length]; lia). reflexivity.
    + apply Forall_forall. intros x Hx. apply in_map_iff in Hx. destruct Hx as [d [Hx Hd]]. subst x.
      rewrite Forall_forall in Hall. apply vrow_nth_i64. apply (Hall d Hd).
Qed.

Lemma group_structured_docs : forall meta s d0 ds,
  Forall (fun d => skeleton_doc d = skeleton_doc d0 /\ doc_leaves_ok d = true) (d0 :: ds) ->
  doc_has_ts_seconds d0 = false ->
  structured_docs (group_ck meta s d0 ds) = map (fun d => Some (strip_doc d)) (d0 :: ds).
Proof.
  intros meta s d0 ds Hall Hts.
  assert (Hall' : Forall (fun d => skeleton_doc d = skeleton_doc d0 /\ doc_leaves_ok d = true) ds)
    by (inversion Hall; assumption).
  unfold structured_docs.
  replace (Z.to_nat (ck_npoints (group_ck meta s d0 ds))) with (length (d0 :: ds))
    by (unfold group_ck; cbn [ck_npoints length]; lia).
  rewrite <- (cc_map_nth_seq _ _ (fun d => Some (strip_doc d)) (d0 :: ds) []).
  apply map_ext_in. intros j Hj. apply in_seq in Hj. cbn [length] in Hj.
  rewrite (group_sample_row meta s d0 ds j Hall' Hts) by lia.
  change (ck_ref (group_ck meta s d0 ds)) with d0.
  assert (Hin : In (nth j (d0 :: ds) []) (d0 :: ds)) by (apply nth_In; cbn [length]; lia).
  rewrite Forall_forall in Hall. destruct (Hall _ Hin) as [Hsk Hlv].
  unfold vrow. rewrite <- (app_nil_r (map snd (flatten_doc (nth j (d0 :: ds) [])))).
  rewrite (restore_doc_same_schema d0 _ [] Hsk Hlv). reflexivity.
Qed.

(* ------------------------------------------------------------------ a sequence of chunks *)
Definition doc_good (sk : doc) (d : doc) : Prop :=
  skeleton_doc d = sk /\ doc_ok d = true /\ doc_leaves_ok d = true /\ small (enc_doc d) /\
  doc_has_ts_seconds d = false /\ (N.of_nat (length (flatten_doc d)) < 2 ^ 32)%N.

(* [cd] is the chunk document of the non-empty group [g] of at most n+1 documents *)
Definition is_chunk (n : Z) (cd : doc) (g : list doc) : Prop :=
  exists s d0 ds, g = d0 :: ds /\ in_i64 s = true /\ Z.of_nat (length ds) <= n /\ cd = group_chunk s d0 ds.

Lemma read_chunks_groups : forall n sk cds groups,
  n < 2 ^ 31 -> Forall2 (is_chunk n) cds groups -> Forall (doc_good sk) (concat groups) ->
  exists cs, read_chunks inflate None cds = (cs, None) /\
             flat_map structured_docs cs = map (fun d => Some (strip_doc d)) (concat groups).
Proof.
  intros n sk cds groups Hn HF. induction HF as [|cd g cds groups Hcd HF IH]; intros Hgood.
  - exists []. split; reflexivity.
  - cbn [concat] in Hgood. apply Forall_app in Hgood. destruct Hgood as [Hg Hrest].
    destruct (IH Hrest) as [cs [Hcs Hdocs]].
    destruct Hcd as [s [d0 [ds [Eg [Hs [Hlen Ecd]]]]]]. subst g cd.
    exists (group_ck None s d0 ds :: cs). split.
    + unfold read_chunks in *. cbn [read_chunks_gen]. unfold group_chunk at 1 2. rewrite lookup_type_chunk.
      change (is_num 0 (Some (VInt32 1))) with false. change (is_num 1 (Some (VInt32 1))) with true.
      cbn [negb]. fold (group_chunk s d0 ds). fold (read_chunk inflate None (group_chunk s d0 ds)).
      inversion Hg as [|x y Hd0 Hds]; subst.
      destruct Hd0 as (_ & Hok & _ & Hsm & _ & Hm).
      rewrite read_group_chunk by (try assumption; lia).
      rewrite Hcs. reflexivity.
    + cbn [flat_map concat]. rewrite map_app, Hdocs. f_equal.
      inversion Hg as [|x y Hd0 Hds]; subst.
      apply group_structured_docs.
      * assert (Hsk0 : skeleton_doc d0 = sk) by apply Hd0.
        revert Hg. apply Forall_impl. intros d Hd. destruct Hd as (Hsk & _ & Hlv & _).
        split; [congruence|assumption].
      * apply Hd0.
Qed.

Lemma read_structured_groups : forall n sk cds groups,
  n < 2 ^ 31 -> Forall2 (is_chunk n) cds groups -> Forall (doc_good sk) (concat groups) ->
  read_structured inflate cds = (Some (map strip_doc (concat groups)), None).
Proof.
  intros n sk cds groups Hn HF Hgood.
  destruct (read_chunks_groups n sk cds groups Hn HF Hgood) as [cs [Hcs Hdocs]].
  unfold read_structured. rewrite Hcs, Hdocs.
  rewrite <- (map_map strip_doc (@Some doc)), cc_all_some_map. reflexivity.
Qed.

(* ------------------------------------------------------------------ the chunk document as a BSON value *)
Hypothesis deflate_wf : forall p, wf_bytes (deflate p).

Lemma wf_bytes_ok : forall b, wf_bytes b -> bytes_ok b = true.
Proof.
  intros b H. unfold bytes_ok. apply forallb_forall. intros x Hx.
  unfold wf_bytes in H. rewrite Forall_forall in H. apply N.ltb_lt. apply H. exact Hx.
Qed.

Lemma is_chunk_doc_ok : forall n cd g, is_chunk n cd g -> doc_ok cd = true.
Proof.
  intros n cd g [s [d0 [ds [_ [Hs [_ Ecd]]]]]]. subst cd.
  unfold group_chunk, chunk_doc. cbn [doc_ok value_ok]. rewrite Hs.
  unfold compress. rewrite wf_bytes_ok.
  - reflexivity.
  - unfold wf_bytes. apply Forall_app. split; [apply le_enc_wf|apply deflate_wf].
Qed.

End Chunk.
