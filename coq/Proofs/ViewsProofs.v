(* C02: every chunk exposes one table (keys = full unique leaf paths, column i =
   normalised leaf values of sample i) and every reader view is a projection of it. *)
From Coq Require Import ZArith NArith List Bool Lia Arith.
From FV.Model Require Import Bytes Bson Metrics Codec Collector Wf RoundTrip CollectorOk Views ViewsOk.
From FV.Proofs Require Import BytesProofs BsonProofs MetricsProofs CodecChunk CodecProofs.
Import ListNotations.
Open Scope Z_scope.

(* ------------------------------------------------------------------ generic list facts *)
Lemma vp_map_fst_combine : forall (A B : Type) (l : list A) (m : list B),
  length l = length m -> map fst (combine l m) = l.
Proof.
  intros A B l. induction l as [|a l IH]; intros [|b m] H; cbn [length] in H; try discriminate H; [reflexivity|].
  cbn [combine map fst]. f_equal. apply IH. lia.
Qed.

Lemma vp_combine_map_r : forall (A B C : Type) (f : B -> C) (l : list A) (m : list B),
  combine l (map f m) = map (fun p => (snd p, f (fst p))) (combine m l).
Proof.
  intros A B C f l. induction l as [|a l IH]; intros [|b m]; try reflexivity.
  cbn [map combine fst snd]. f_equal. apply IH.
Qed.

Lemma vp_in_combine_seq : forall (A : Type) (l : list A) a n i x d,
  In (i, x) (combine (seq a n) l) -> (a <= i < a + n)%nat /\ nth (i - a) l d = x.
Proof.
  intros A l. induction l as [|y l IH]; intros a n i x d Hin.
  - destruct (seq a n); destruct Hin.
  - destruct n as [|n]; [destruct Hin|].
    cbn [seq combine] in Hin. destruct Hin as [Heq|Hin].
    + injection Heq as <- <-. split; [lia|]. rewrite Nat.sub_diag. reflexivity.
    + destruct (IH (S a) n i x d Hin) as [Hr Hn]. split; [lia|].
      replace (i - a)%nat with (S (i - S a)) by lia. exact Hn.
Qed.

(* ------------------------------------------------------------------ the key specification *)
Lemma lpaths_eq : forall p v, lpaths p v = leaf_paths p v.
Proof. reflexivity. Qed.

Lemma lpaths_doc_eq : forall d p, lpaths_doc p d = leaf_paths_doc p d.
Proof.
  induction d as [|[k x] r IH]; intros p; [reflexivity|].
  cbn [lpaths_doc leaf_paths_doc]. rewrite IH, lpaths_eq. reflexivity.
Qed.

Lemma spec_keys_metrics : forall d, spec_keys d = map metric_key (metrics_of_doc [] d).
Proof. intro d. unfold spec_keys. rewrite lpaths_doc_eq. symmetry. apply metric_keys_are_paths. Qed.

Lemma spec_keys_nodup : forall d, doc_keys_good d = true -> doc_arrays_small d = true -> NoDup (spec_keys d).
Proof. intros d Hg Hs. rewrite spec_keys_metrics. apply metric_keys_nodup; assumption. Qed.

(* the executable distinctness test of the oracle is sound *)
Lemma nodupb_sound : forall l, nodupb l = true -> NoDup l.
Proof.
  induction l as [|x r IH]; intro H; [constructor|].
  cbn [nodupb] in H. apply andb_true_iff in H. destruct H as [Hx Hr].
  constructor; [|apply IH; exact Hr].
  apply existsb_bytes_eqb_false. apply negb_true_iff. exact Hx.
Qed.

(* ------------------------------------------------------------------ the reader, any stream *)
Lemma read_deltas_length : forall cnt nz l ds r, read_deltas cnt nz l = Some (ds, r) -> length ds = cnt.
Proof.
  induction cnt as [|c IH]; intros nz l ds r H; cbn [read_deltas] in H.
  - injection H as <- _. reflexivity.
  - destruct (nz =? 0)%N.
    + destruct (uvarint_dec l) as [d r1| | |]; try discriminate H.
      destruct (d =? 0)%N.
      * destruct (uvarint_dec r1) as [z r2| | |]; try discriminate H.
        destruct (read_deltas c z r2) as [[ds' r']|] eqn:E; [|discriminate H].
        injection H as <- _. cbn [length]. f_equal. exact (IH _ _ _ _ E).
      * destruct (read_deltas c 0%N r1) as [[ds' r']|] eqn:E; [|discriminate H].
        injection H as <- _. cbn [length]. f_equal. exact (IH _ _ _ _ E).
    + destruct (read_deltas c (nz - 1)%N l) as [[ds' r']|] eqn:E; [|discriminate H].
      injection H as <- _. cbn [length]. f_equal. exact (IH _ _ _ _ E).
Qed.

Lemma split_every_length : forall n k l, length (split_every n k l) = k.
Proof. intros n k. induction k as [|k IH]; intro l; [reflexivity|]. cbn [split_every length]. rewrite IH. reflexivity. Qed.

Lemma split_every_each : forall n k l, length l = (k * n)%nat ->
  Forall (fun c => length c = n) (split_every n k l).
Proof.
  intros n k. induction k as [|k IH]; intros l Hl; cbn [split_every]; constructor.
  - rewrite firstn_length. lia.
  - apply IH. rewrite skipn_length. lia.
Qed.

Section Read.
Variable inflate : bytes -> option bytes.

(* whatever the bytes: a chunk that the reader returns has one series per metric
   of its reference document, in that order, each with exactly npoints values *)
Lemma read_chunk_inv : forall cap meta d c, read_chunk_gen inflate cap meta d = inl c ->
  map fst (ck_metrics c) = metrics_of_doc [] (ck_ref c) /\
  Forall (fun mv => length (snd mv) = Z.to_nat (ck_npoints c)) (ck_metrics c) /\
  1 <= ck_npoints c.
Proof.
  intros cap meta d c H. unfold read_chunk_gen in H.
  destruct (lookup k_data d) as [v|]; [|discriminate H].
  destruct v; try discriminate H.
  match type of H with context [Nat.ltb (length ?zb) 4] =>
    destruct (Nat.ltb (length zb) 4); [discriminate H|];
    destruct (inflate (skipn 4 zb)) as [p|]; [|discriminate H]
  end.
  destruct (dec_doc p) as [[ref r1]|]; [|discriminate H].
  destruct (take_exact 8 r1) as [[w r2]|]; [|discriminate H].
  cbv zeta in H.
  set (ms := metrics_of_doc [] ref) in *.
  set (nm := le_dec (firstn 4 w)) in *. set (nd := le_dec (skipn 4 w)) in *.
  destruct (negb (nm =? N.of_nat (length ms))%N) eqn:Hn; [discriminate H|].
  destruct (match cap with Some c0 => (c0 <? nm * nd)%N | None => false end); [discriminate H|].
  destruct (read_deltas (N.to_nat (nm * nd)) 0%N r2) as [[ds rest]|] eqn:Hrd; [|discriminate H].
  injection H as <-. cbn [ck_metrics ck_ref ck_npoints].
  apply negb_false_iff, N.eqb_eq in Hn.
  pose proof (read_deltas_length _ _ _ _ _ Hrd) as Hlen.
  set (cols := split_every (N.to_nat nd) (length ms) ds).
  assert (Hcl : length cols = length ms) by apply split_every_length.
  assert (Hce : Forall (fun c => length c = N.to_nat nd) cols).
  { apply split_every_each. rewrite Hlen, Hn. rewrite N2Nat.inj_mul, Nat2N.id. reflexivity. }
  split; [|split].
  - rewrite map_map. cbn [fst]. apply vp_map_fst_combine. symmetry. exact Hcl.
  - apply Forall_forall. intros mv Hin. apply in_map_iff in Hin. destruct Hin as [[m col] [<- Hin]].
    cbn [fst snd]. rewrite undelta_length.
    apply in_combine_r in Hin. rewrite Forall_forall in Hce. rewrite (Hce col Hin). lia.
  - lia.
Qed.

Lemma read_chunks_all : forall (P : chunk -> Prop) cap,
  (forall meta d c, read_chunk_gen inflate cap meta d = inl c -> P c) ->
  forall ds meta cs e, read_chunks_gen inflate cap meta ds = (cs, e) -> Forall P cs.
Proof.
  intros P cap HP. induction ds as [|d r IH]; intros meta cs e H; cbn [read_chunks_gen] in H.
  - injection H as <- _. constructor.
  - destruct (is_num 0 (lookup k_type d)); [exact (IH _ _ _ H)|].
    destruct (negb (is_num 1 (lookup k_type d))); [exact (IH _ _ _ H)|].
    destruct (read_chunk_gen inflate cap meta d) as [c|err] eqn:Hc.
    + destruct (read_chunks_gen inflate cap meta r) as [cs' e'] eqn:Hr.
      injection H as <- _. constructor; [exact (HP _ _ _ Hc)|exact (IH _ _ _ Hr)].
    + injection H as <- _. constructor.
Qed.

(* the rows of the table of a chunk that was read: keys, types *)
Lemma chunk_table_keys : forall c, map r_key (chunk_table c) = map metric_key (map fst (ck_metrics c)).
Proof. intro c. unfold chunk_table. rewrite !map_map. reflexivity. Qed.

Lemma chunk_table_types : forall c, map r_type (chunk_table c) = map m_type (map fst (ck_metrics c)).
Proof. intro c. unfold chunk_table. rewrite !map_map. reflexivity. Qed.

Lemma chunk_table_wf : forall c,
  Forall (fun mv => length (snd mv) = Z.to_nat (ck_npoints c)) (ck_metrics c) ->
  table_wf (Z.to_nat (ck_npoints c)) (chunk_table c).
Proof.
  intros c H. unfold table_wf, chunk_table. apply Forall_forall. intros r Hin.
  apply in_map_iff in Hin. destruct Hin as [mv [<- Hin]]. cbn [r_col].
  rewrite Forall_forall in H. exact (H mv Hin).
Qed.

(* C02, keys and sample counts, for ANY sequence of outer documents *)
Theorem read_keys_full_paths : forall cap meta ds cs e,
  read_chunks_gen inflate cap meta ds = (cs, e) ->
  Forall (fun c => map r_key (chunk_table c) = map join_dot (leaf_paths_doc [] (ck_ref c)) /\
                   map r_type (chunk_table c) = map fst (flatten_doc (ck_ref c)) /\
                   table_wf (Z.to_nat (ck_npoints c)) (chunk_table c) /\ 1 <= ck_npoints c) cs.
Proof.
  intros cap meta ds cs e H.
  apply (read_chunks_all _ cap) with (ds := ds) (meta := meta) (e := e); [|exact H].
  intros meta' d c Hc. destruct (read_chunk_inv _ _ _ _ Hc) as (Hm & Hw & Hn).
  split; [|split; [|split]].
  - rewrite chunk_table_keys, Hm. apply metric_keys_are_paths.
  - rewrite chunk_table_types, Hm. apply metrics_of_doc_types.
  - apply chunk_table_wf. exact Hw.
  - exact Hn.
Qed.

Theorem read_keys_unique : forall cap meta ds cs e c,
  read_chunks_gen inflate cap meta ds = (cs, e) -> In c cs ->
  doc_keys_good (ck_ref c) = true -> doc_arrays_small (ck_ref c) = true ->
  NoDup (map r_key (chunk_table c)).
Proof.
  intros cap meta ds cs e c H Hin Hg Hs.
  pose proof (read_keys_full_paths _ _ _ _ _ H) as HF. rewrite Forall_forall in HF.
  destruct (HF c Hin) as (Hk & _). rewrite Hk, <- metric_keys_are_paths.
  apply metric_keys_nodup; assumption.
Qed.

End Read.

(* ------------------------------------------------------------------ the table of a group *)
Lemma group_column : forall d0 ds i,
  Forall (fun d => skeleton_doc d = skeleton_doc d0 /\ doc_leaves_ok d = true) ds ->
  doc_has_ts_seconds d0 = false -> (i < length (flatten_doc d0))%nat ->
  undelta (m_start (nth i (metrics_of_doc [] d0) dflt_metric)) (column i (delta_rows d0 ds))
  = map (fun d => nth i (map snd (flatten_doc d)) 0) (d0 :: ds).
Proof.
  intros d0 ds i Hall Hts Hi.
  assert (Hlens : Forall (fun d => length (flatten_doc d) = length (flatten_doc d0)) ds).
  { revert Hall. apply Forall_impl. intros d [Hd _]. apply same_skeleton_length. exact Hd. }
  assert (Hst : m_start (nth i (metrics_of_doc [] d0) dflt_metric) = nth i (CodecChunk.vrow d0) 0).
  { unfold CodecChunk.vrow. rewrite <- (metrics_of_doc_start [] d0 Hts).
    symmetry. exact (map_nth m_start (metrics_of_doc [] d0) dflt_metric i). }
  rewrite Hst, (column_delta_rows i ds d0 Hlens), undelta_deltas_of.
  - reflexivity.
  - apply Forall_forall. intros x Hx. apply in_map_iff in Hx. destruct Hx as [d [Hx Hd]]. subst x.
    rewrite Forall_forall in Hall. apply vrow_nth_i64. apply (Hall d Hd).
Qed.

Lemma group_table : forall meta s d0 ds,
  Forall (fun d => skeleton_doc d = skeleton_doc d0 /\ doc_leaves_ok d = true) ds ->
  doc_has_ts_seconds d0 = false ->
  chunk_table (group_ck meta s d0 ds) = doc_table d0 (d0 :: ds).
Proof.
  intros meta s d0 ds Hall Hts.
  unfold chunk_table, group_ck, doc_table. cbn [ck_metrics].
  rewrite map_map. cbn [fst snd].
  unfold group_cols. rewrite <- (metrics_of_doc_length [] d0).
  rewrite vp_combine_map_r, map_map. cbn [fst snd].
  apply map_ext_in. intros [i m] Hin. cbn [fst snd].
  destruct (vp_in_combine_seq _ _ _ _ _ _ dflt_metric Hin) as [Hi Hm].
  rewrite Nat.sub_0_r in Hm. subst m.
  f_equal. apply group_column; [exact Hall|exact Hts|].
  rewrite <- (metrics_of_doc_length [] d0). lia.
Qed.

Lemma group_npoints : forall meta s d0 ds, ck_npoints (group_ck meta s d0 ds) = Z.of_nat (length (d0 :: ds)).
Proof. intros. unfold group_ck. cbn [ck_npoints length]. lia. Qed.

(* ------------------------------------------------------------------ a sequence of chunk documents *)
Section Emit.
Variable deflate : bytes -> bytes.
Variable inflate : bytes -> option bytes.
Hypothesis inflate_deflate : forall p, inflate (deflate p) = Some p.

(* what C02 says about one chunk [c] and the group [g] of input documents it holds *)
Definition chunk_is_table (c : chunk) (g : list doc) : Prop :=
  g <> [] /\ ck_ref c = hd [] g /\ ck_npoints c = Z.of_nat (length g) /\
  chunk_table c = doc_table (hd [] g) g.

Lemma read_chunks_tables : forall n sk cds groups,
  n < 2 ^ 31 -> Forall2 (is_chunk deflate n) cds groups -> Forall (doc_good sk) (concat groups) ->
  exists cs, read_chunks inflate None cds = (cs, None) /\ Forall2 chunk_is_table cs groups.
Proof.
  intros n sk cds groups Hn HF. induction HF as [|cd g cds groups Hcd HF IH]; intros Hgood.
  - exists []. split; [reflexivity|constructor].
  - cbn [concat] in Hgood. apply Forall_app in Hgood. destruct Hgood as [Hg Hrest].
    destruct (IH Hrest) as [cs [Hcs Htab]].
    destruct Hcd as [s [d0 [ds [Eg [Hs [Hlen Ecd]]]]]]. subst g cd.
    inversion Hg as [|x y Hd0 Hds]; subst.
    exists (group_ck None s d0 ds :: cs). split.
    + unfold read_chunks in *. cbn [read_chunks_gen]. unfold group_chunk at 1 2. rewrite lookup_type_chunk.
      change (is_num 0 (Some (VInt32 1))) with false. change (is_num 1 (Some (VInt32 1))) with true.
      cbn [negb]. fold (group_chunk deflate s d0 ds). fold (read_chunk inflate None (group_chunk deflate s d0 ds)).
      destruct Hd0 as (_ & Hok & _ & Hsm & _ & Hm).
      rewrite (read_group_chunk deflate inflate inflate_deflate) by (try assumption; lia).
      rewrite Hcs. reflexivity.
    + constructor; [|exact Htab].
      split; [discriminate|]. split; [reflexivity|]. split; [apply group_npoints|].
      cbn [hd]. apply group_table.
      * destruct Hd0 as (Hsk0 & _). revert Hds. apply Forall_impl.
        intros d (Hsk & _ & Hlv & _). split; [congruence|exact Hlv].
      * apply Hd0.
Qed.

(* every compressing collector kind: the chunks read back from the emitted outer
   documents are the tables of consecutive groups of the input *)
Theorem emit_tables : forall k n docs nows,
  compressing k = true -> 1 <= n < 2 ^ 31 ->
  (docs <> [] /\ length nows = length docs /\ Forall (fun t => in_i64 t = true) nows /\
   same_schema docs /\
   Forall (fun d => doc_ok d = true /\ doc_leaves_ok d = true /\ Wf.small (enc_doc d)) docs /\
   (N.of_nat (length (flatten_doc (hd [] docs))) < 2 ^ 32)%N) ->
  fits k n docs ->
  Forall (fun d => doc_has_ts_seconds d = false) docs ->
  exists cs groups,
    read_chunks inflate None (emitted (snd (fst (emit deflate k n docs nows)))) = (cs, None) /\
    concat groups = docs /\ Forall2 chunk_is_table cs groups.
Proof.
  intros k n docs nows Hk Hn (Hne & Hlen & Hnows & Hss & Hall & Hm) Hfits Hts.
  set (sk := skeleton_doc (hd [] docs)).
  assert (Hsk : forall d, In d docs -> skeleton_doc d = sk).
  { intros d Hd. apply Hss; [exact Hd|apply hd_in; exact Hne]. }
  assert (Hcol : Forall (dcol sk) docs).
  { apply Forall_forall. intros d Hd. rewrite Forall_forall in Hall. split; [apply Hsk; exact Hd|apply (Hall d Hd)]. }
  destruct (emit_groups deflate k n sk docs nows Hk ltac:(lia) Hne Hlen Hnows Hcol Hfits)
    as (c & w & groups & Hemit & [_ Hem] & Hcat).
  rewrite Hemit. cbn [fst snd].
  destruct (read_chunks_tables n sk (emitted w) groups ltac:(lia) Hem) as [cs [Hcs Htab]].
  - rewrite Hcat. apply Forall_forall. intros d Hd.
    rewrite Forall_forall in Hall, Hts. destruct (Hall d Hd) as (Hok & Hlv & Hsm).
    split; [apply Hsk; exact Hd|]. split; [exact Hok|]. split; [exact Hlv|]. split; [exact Hsm|].
    split; [apply Hts; exact Hd|].
    rewrite (same_skeleton_length d (hd [] docs)); [exact Hm|apply Hsk; exact Hd].
  - exists cs, groups. split; [exact Hcs|]. split; [exact Hcat|exact Htab].
Qed.

End Emit.

(* ------------------------------------------------------------------ the views are projections of the table *)
Definition row_of (mv : metric * list Z) : trow := mkRow (metric_key (fst mv)) (m_type (fst mv)) (snd mv).

Lemma chunk_table_rows : forall c, chunk_table c = map row_of (ck_metrics c).
Proof. reflexivity. Qed.

Lemma flat_docs_table : forall c, flat_docs c = tbl_flat (chunk_table c) (Z.to_nat (ck_npoints c)).
Proof.
  intro c. unfold flat_docs, tbl_flat. apply map_ext. intro i.
  unfold tbl_flat_doc, chunk_table. rewrite map_map. reflexivity.
Qed.

Lemma series_doc_table : forall c, series_doc c = tbl_series (chunk_table c).
Proof. intro c. unfold series_doc, tbl_series, chunk_table. rewrite map_map. reflexivity. Qed.

Lemma structured_docs_table : forall c,
  structured_docs c = tbl_structured (ck_ref c) (chunk_table c) (Z.to_nat (ck_npoints c)).
Proof.
  intro c. unfold structured_docs, tbl_structured. apply map_ext. intro i.
  unfold sample_row, tbl_row, chunk_table. rewrite map_map. reflexivity.
Qed.

Lemma matrix_elems_table : forall fuel ms, (length ms < fuel)%nat ->
  matrix_elems fuel ms = tbl_matrix (map row_of ms).
Proof.
  induction fuel as [|f IH]; intros ms Hlen; [lia|].
  destruct ms as [|[m vs] r]; [reflexivity|].
  cbn [matrix_elems map tbl_matrix]. unfold row_of at 1. cbn [r_type r_key r_col fst snd].
  cbn [length] in Hlen.
  destruct (m_type m) eqn:Ht;
    try (rewrite (IH r) by lia; reflexivity).
  destruct r as [|[m2 is] r']; [reflexivity|].
  cbn [map]. unfold row_of at 1. cbn [r_col snd].
  cbn [length] in Hlen. rewrite (IH r') by lia. reflexivity.
Qed.

Lemma matrix_doc_table : forall c, matrix_doc c = tbl_matrix (chunk_table c).
Proof. intro c. unfold matrix_doc. rewrite chunk_table_rows. apply matrix_elems_table. lia. Qed.

(* ---- what the projections look like ---- *)
Lemma tbl_flat_length : forall t n, length (tbl_flat t n) = n.
Proof. intros t n. unfold tbl_flat. rewrite map_length, seq_length. reflexivity. Qed.

Lemma tbl_flat_nth : forall t n i, (i < n)%nat -> nth i (tbl_flat t n) [] = tbl_flat_doc t i.
Proof.
  intros t n i Hi. unfold tbl_flat.
  rewrite (cc_nth_map_lt _ _ (tbl_flat_doc t) (seq 0 n) i [] 0%nat) by (rewrite seq_length; exact Hi).
  rewrite seq_nth by exact Hi. reflexivity.
Qed.

Lemma tbl_flat_doc_keys : forall t i, map fst (tbl_flat_doc t i) = map r_key t.
Proof. intros t i. unfold tbl_flat_doc. rewrite map_map. reflexivity. Qed.

Lemma tbl_flat_doc_values : forall t i,
  map snd (tbl_flat_doc t i) = map (fun r => restore_flat (r_type r) (nth i (r_col r) 0)) t.
Proof. intros t i. unfold tbl_flat_doc. rewrite map_map. reflexivity. Qed.

Lemma tbl_series_keys : forall t, map fst (tbl_series t) = map r_key t.
Proof. intro t. unfold tbl_series. rewrite map_map. reflexivity. Qed.

Lemma tbl_series_values : forall t,
  map snd (tbl_series t) = map (fun r => VArr (map (series_value (r_type r)) (r_col r))) t.
Proof. intro t. unfold tbl_series. rewrite map_map. reflexivity. Qed.

Lemma zip_ts_length : forall ts is, length (zip_ts ts is) = length ts.
Proof. induction ts as [|t r IH]; intro is; [reflexivity|]. cbn [zip_ts length]. rewrite IH. reflexivity. Qed.

(* arrays of the matrix document: keys with the ".inc" halves dropped, every array of length n *)
Lemma tbl_matrix_shape_len : forall k t d, (length t <= k)%nat -> tbl_matrix t = Some d ->
  map fst d = matrix_keys t /\
  (forall n, table_wf n t -> Forall (fun kv => exists a, snd kv = VArr a /\ length a = n) d).
Proof.
  induction k as [|k IH]; intros t d Hk H.
  - destruct t; [|cbn [length] in Hk; lia]. injection H as <-. split; [reflexivity|]. intros; constructor.
  - destruct t as [|r rest]; [injection H as <-; split; [reflexivity|intros; constructor]|].
    cbn [length] in Hk. cbn [tbl_matrix matrix_keys] in *.
    destruct (r_type r) eqn:Ht;
      try (destruct (tbl_matrix rest) as [es|] eqn:E; [|discriminate H]; injection H as <-;
           destruct (IH rest es ltac:(lia) E) as [Hkeys Harr];
           split; [cbn [map fst]; rewrite Hkeys; reflexivity|];
           intros n Hwf; unfold table_wf in Hwf; pose proof (Forall_inv Hwf) as Hr; pose proof (Forall_inv_tail Hwf) as Hrest;
           constructor; [eexists; split; [reflexivity|]; rewrite map_length; exact Hr|apply Harr; exact Hrest]).
    destruct rest as [|r2 rest']; [discriminate H|].
    cbn [length] in Hk.
    destruct (tbl_matrix rest') as [es|] eqn:E; [|discriminate H]. injection H as <-.
    destruct (IH rest' es ltac:(lia) E) as [Hkeys Harr].
    split; [cbn [map fst]; rewrite Hkeys; reflexivity|].
    intros n Hwf. unfold table_wf in Hwf. pose proof (Forall_inv Hwf) as Hr. pose proof (Forall_inv_tail (Forall_inv_tail Hwf)) as Hrest'.
    constructor; [eexists; split; [reflexivity|]; rewrite zip_ts_length; exact Hr|apply Harr; exact Hrest'].
Qed.

Lemma tbl_matrix_shape : forall t d, tbl_matrix t = Some d ->
  map fst d = matrix_keys t /\
  (forall n, table_wf n t -> Forall (fun kv => exists a, snd kv = VArr a /\ length a = n) d).
Proof. intros t d. apply (tbl_matrix_shape_len (length t)). lia. Qed.

(* a table whose timestamp rows come in pairs has a matrix document *)
Lemma ts_paired_app_len : forall k a b, (length a <= k)%nat -> ts_paired a = true -> ts_paired b = true ->
  ts_paired (a ++ b) = true.
Proof.
  induction k as [|k IH]; intros a b Hk Ha Hb.
  - destruct a; [exact Hb|cbn [length] in Hk; lia].
  - destruct a as [|t r]; [exact Hb|]. cbn [length] in Hk.
    destruct t; cbn [app ts_paired] in *; try (apply IH; [lia|assumption|assumption]).
    destruct r as [|t2 r']; [discriminate Ha|]. destruct t2; try discriminate Ha.
    cbn [app]. cbn [length] in Hk. apply IH; [lia|assumption|assumption].
Qed.

Lemma ts_paired_app : forall a b, ts_paired a = true -> ts_paired b = true -> ts_paired (a ++ b) = true.
Proof. intros a b. apply (ts_paired_app_len (length a)). lia. Qed.

Definition paired_P (v : value) : Prop := ts_paired (map fst (flatten v)) = true.

Lemma flatten_doc_paired_F : forall d, Forall (fun kv => paired_P (snd kv)) d ->
  ts_paired (map fst (flatten_doc d)) = true.
Proof.
  intros d HF. induction HF as [|[k x] r Hx HF IH]; [reflexivity|].
  cbn [flatten_doc]. rewrite map_app. apply ts_paired_app; [exact Hx|exact IH].
Qed.

Lemma flatten_arr_paired_F : forall a, Forall paired_P a -> ts_paired (map fst (flatten_arr a)) = true.
Proof.
  intros a HF. induction HF as [|x r Hx HF IH]; [reflexivity|].
  cbn [flatten_arr]. rewrite map_app. apply ts_paired_app; [exact Hx|exact IH].
Qed.

Lemma flatten_paired : forall v, paired_P v.
Proof.
  induction v using value_ind'; unfold paired_P; try reflexivity.
  - rewrite flatten_VDoc. apply flatten_doc_paired_F. assumption.
  - rewrite flatten_VArr. apply flatten_arr_paired_F. assumption.
Qed.

Lemma flatten_doc_paired : forall d, ts_paired (map fst (flatten_doc d)) = true.
Proof. intro d. rewrite flatten_doc_eq. apply flatten_paired. Qed.

Lemma tbl_matrix_some_len : forall k t, (length t <= k)%nat -> ts_paired (map r_type t) = true ->
  exists d, tbl_matrix t = Some d.
Proof.
  induction k as [|k IH]; intros t Hk Hp.
  - destruct t; [exists []; reflexivity|cbn [length] in Hk; lia].
  - destruct t as [|r rest]; [exists []; reflexivity|].
    cbn [length] in Hk. cbn [map ts_paired tbl_matrix] in *.
    destruct (r_type r);
      try (destruct (IH rest ltac:(lia) Hp) as [es E]; rewrite E; eexists; reflexivity).
    destruct rest as [|r2 rest']; [discriminate Hp|]. cbn [map] in Hp.
    destruct (r_type r2); try discriminate Hp.
    cbn [length] in Hk. destruct (IH rest' ltac:(lia) Hp) as [es E]. rewrite E. eexists; reflexivity.
Qed.

Lemma tbl_matrix_some : forall t, ts_paired (map r_type t) = true -> exists d, tbl_matrix t = Some d.
Proof. intro t. apply (tbl_matrix_some_len (length t)). lia. Qed.

(* ---- types ---- *)
Lemma restore_flat_tag : forall t x, t <> MTs -> tag (restore_flat t x) = mtype_tag t.
Proof. intros t x H. destruct t; try reflexivity. congruence. Qed.

Lemma series_value_tag : forall t x, t <> MTs -> tag (series_value t x) = mtype_tag t.
Proof. intros t x H. destruct t; try reflexivity. congruence. Qed.

Lemma ts_views_tag : forall x, tag (restore_flat MTs x) = 18%N /\ tag (series_value MTs x) = 18%N.
Proof. intro x. split; reflexivity. Qed.

(* the metric type of a leaf names its BSON type *)
Lemma leaf_mtype_tag : forall v t x, In (t, x) (flatten v) ->
  match v with VDoc _ | VArr _ => False | _ => True end -> mtype_tag t = tag v.
Proof.
  intros v t x Hin Hleaf. destruct v; try (destruct Hleaf); cbn [flatten] in Hin;
    repeat (destruct Hin as [Hin|Hin]; [injection Hin as <- _; reflexivity|]); destruct Hin.
Qed.

(* ------------------------------------------------------------------ all of it, for one chunk *)
Theorem views_project : forall c : chunk,
  let t := chunk_table c in
  let n := Z.to_nat (ck_npoints c) in
  table_wf n t ->
  (* the four views are the table's projections *)
  flat_docs c = tbl_flat t n /\ series_doc c = tbl_series t /\ matrix_doc c = tbl_matrix t /\
  structured_docs c = tbl_structured (ck_ref c) t n /\
  (* sample counts *)
  length (flat_docs c) = n /\ length (structured_docs c) = n /\
  Forall (fun kv => exists a, snd kv = VArr a /\ length a = n) (series_doc c) /\
  (forall d, matrix_doc c = Some d -> Forall (fun kv => exists a, snd kv = VArr a /\ length a = n) d) /\
  (* keys, order, values *)
  (forall i, (i < n)%nat ->
     map fst (nth i (flat_docs c) []) = map r_key t /\
     map snd (nth i (flat_docs c) []) = map (fun r => restore_flat (r_type r) (nth i (r_col r) 0)) t) /\
  map fst (series_doc c) = map r_key t /\
  map snd (series_doc c) = map (fun r => VArr (map (series_value (r_type r)) (r_col r))) t /\
  (forall d, matrix_doc c = Some d -> map fst d = matrix_keys t) /\
  (ts_paired (map r_type t) = true -> exists d, matrix_doc c = Some d).
Proof.
  intros c t n Hwf. subst t n.
  rewrite flat_docs_table, series_doc_table, matrix_doc_table, structured_docs_table.
  split; [reflexivity|]. split; [reflexivity|]. split; [reflexivity|]. split; [reflexivity|].
  split; [apply tbl_flat_length|].
  split; [unfold tbl_structured; rewrite map_length, seq_length; reflexivity|].
  split.
  { unfold tbl_series. apply Forall_forall. intros kv Hin. apply in_map_iff in Hin.
    destruct Hin as [r [<- Hin]]. cbn [snd]. eexists. split; [reflexivity|].
    rewrite map_length. unfold table_wf in Hwf. rewrite Forall_forall in Hwf. exact (Hwf r Hin). }
  split; [intros d Hd; exact (proj2 (tbl_matrix_shape _ _ Hd) _ Hwf)|].
  split.
  { intros i Hi. rewrite tbl_flat_nth by exact Hi. split; [apply tbl_flat_doc_keys|apply tbl_flat_doc_values]. }
  split; [apply tbl_series_keys|]. split; [apply tbl_series_values|].
  split; [intros d Hd; exact (proj1 (tbl_matrix_shape _ _ Hd))|].
  apply tbl_matrix_some.
Qed.

Theorem views_types : forall t x,
  (t <> MTs -> tag (restore_flat t x) = mtype_tag t /\ tag (series_value t x) = mtype_tag t) /\
  (forall v y, In (t, y) (flatten v) -> match v with VDoc _ | VArr _ => False | _ => True end -> mtype_tag t = tag v).
Proof.
  intros t x. split.
  - intro H. split; [apply restore_flat_tag|apply series_value_tag]; exact H.
  - intros v y. apply leaf_mtype_tag.
Qed.

(* ------------------------------------------------------------------ the statements of Props/C02.v *)
Section C02.
Variable deflate : bytes -> bytes.
Variable inflate : bytes -> option bytes.
Hypothesis inflate_deflate : forall p, inflate (deflate p) = Some p.

Theorem c02_keys_full_paths : forall meta ds cs e,
  read_chunks inflate meta ds = (cs, e) ->
  Forall (fun c => map r_key (chunk_table c) = map join_dot (lpaths_doc [] (ck_ref c)) /\
                   map r_type (chunk_table c) = map fst (flatten_doc (ck_ref c)) /\
                   ts_paired (map r_type (chunk_table c)) = true /\
                   table_wf (Z.to_nat (ck_npoints c)) (chunk_table c) /\ 1 <= ck_npoints c) cs.
Proof.
  intros meta ds cs e H. unfold read_chunks in H.
  pose proof (read_keys_full_paths inflate None meta ds cs e H) as HF.
  revert HF. apply Forall_impl. intros c (Hk & Ht & Hw & Hn).
  split; [rewrite lpaths_doc_eq; exact Hk|]. split; [exact Ht|].
  split; [rewrite Ht; apply flatten_doc_paired|]. split; assumption.
Qed.

Theorem c02_keys_unique : forall meta ds cs e c,
  read_chunks inflate meta ds = (cs, e) -> In c cs ->
  doc_keys_good (ck_ref c) = true -> doc_arrays_small (ck_ref c) = true ->
  NoDup (map r_key (chunk_table c)).
Proof. intros meta ds cs e c H. unfold read_chunks in H. exact (read_keys_unique inflate None meta ds cs e c H). Qed.

Theorem c02_table : forall k n docs nows,
  compressing k = true -> 1 <= n < 2 ^ 31 ->
  (docs <> [] /\ length nows = length docs /\ Forall (fun t => in_i64 t = true) nows /\
   same_schema docs /\
   Forall (fun d => doc_ok d = true /\ doc_leaves_ok d = true /\ Wf.small (enc_doc d)) docs /\
   (N.of_nat (length (flatten_doc (hd [] docs))) < 2 ^ 32)%N) ->
  fits k n docs ->
  Forall (fun d => doc_has_ts_seconds d = false) docs ->
  exists cs groups,
    read_chunks inflate None (emitted (snd (fst (emit deflate k n docs nows)))) = (cs, None) /\
    concat groups = docs /\
    Forall2 (fun c g => g <> [] /\ ck_ref c = hd [] g /\ ck_npoints c = Z.of_nat (length g) /\
                        map r_key (chunk_table c) = spec_keys (hd [] g) /\
                        chunk_table c = doc_table (hd [] g) g) cs groups.
Proof.
  intros k n docs nows Hk Hn Hin Hfits Hts.
  destruct (emit_tables deflate inflate inflate_deflate k n docs nows Hk Hn Hin Hfits Hts) as (cs & groups & Hcs & Hcat & Htab).
  exists cs, groups. split; [exact Hcs|]. split; [exact Hcat|].
  pose proof (c02_keys_full_paths None _ _ _ Hcs) as HF.
  clear Hcs Hcat. induction Htab as [|c g cs gs Hcg Htab IH]; [constructor|].
  inversion HF as [|c' cs' Hc HF']; subst.
  constructor; [|apply IH; exact HF'].
  destruct Hcg as (Hne & Hr & Hnp & Ht). destruct Hc as (Hkeys & _).
  split; [exact Hne|]. split; [exact Hr|]. split; [exact Hnp|]. split; [|exact Ht].
  rewrite Hkeys, Hr. reflexivity.
Qed.

End C02.

(* non-vacuity: two samples of a depth-4 document with sibling sub-documents, an
   array of documents and a timestamp (zero seconds) satisfy every hypothesis, and
   their keys are the expected dotted paths *)
Definition ex_doc (v : Z) (b : bool) : doc :=
  [([97]%N, VDoc [([98]%N, VDoc [([115; 49]%N, VDoc [([120]%N, VInt32 v)]);
                                 ([115; 50]%N, VDoc [([120]%N, VInt64 (v + 1)); ([121]%N, VBool b)])])]);
   ([114]%N, VArr [VDoc [([112]%N, VDouble v); ([113]%N, VDateTime (v * 1000)); ([122]%N, VString [104]%N)];
                   VDoc [([112]%N, VInt64 (- v))]]);
   ([116]%N, VTimestamp 0 (v + 5))].

Theorem c02_example :
  let docs := [ex_doc 1 true; ex_doc 7 false] in
  (docs <> [] /\ length [0; 0] = length docs /\ Forall (fun t => in_i64 t = true) [0; 0] /\
   same_schema docs /\
   Forall (fun d => doc_ok d = true /\ doc_leaves_ok d = true /\ Wf.small (enc_doc d)) docs /\
   (N.of_nat (length (flatten_doc (hd [] docs))) < 2 ^ 32)%N) /\
  Forall (fun d => doc_has_ts_seconds d = false) docs /\
  doc_keys_good (ex_doc 1 true) = true /\ doc_arrays_small (ex_doc 1 true) = true /\
  spec_keys (ex_doc 1 true) =
    [[97; 46; 98; 46; 115; 49; 46; 120]; [97; 46; 98; 46; 115; 50; 46; 120]; [97; 46; 98; 46; 115; 50; 46; 121];
     [114; 46; 48; 46; 112]; [114; 46; 48; 46; 113]; [114; 46; 49; 46; 112]; [116]; [116; 46; 105; 110; 99]]%N /\
  map r_col (doc_table (ex_doc 1 true) docs) = [[1; 7]; [2; 8]; [1; 0]; [1; 7]; [1000; 7000]; [-1; -7]; [0; 0]; [6; 12]].
Proof.
  intro docs. subst docs. split; [|split; [|split; [|split; [|split]]]].
  - split; [discriminate|]. split; [reflexivity|]. split; [repeat constructor|].
    split. { intros a b [<-|[<-|[]]] [<-|[<-|[]]]; reflexivity. }
    split. { repeat constructor; try (unfold Wf.small; vm_compute; reflexivity). }
    vm_compute. reflexivity.
  - repeat constructor.
  - vm_compute. reflexivity.
  - vm_compute. reflexivity.
  - vm_compute. reflexivity.
  - vm_compute. reflexivity.
Qed.

(* the known finding D1 on the faithful model: the column of a timestamp's seconds
   is not the leaf's value (witness by computation, trivial codec in place of zlib) *)
Theorem c02_timestamp_refuted :
  exists docs nows,
    let deflate := (fun p : bytes => 1%N :: p) in
    let inflate := (fun z : bytes => match z with b :: p => if (b =? 1)%N then Some p else None | [] => None end) in
    (docs <> [] /\ length nows = length docs /\ Forall (fun t => in_i64 t = true) nows /\
     same_schema docs /\
     Forall (fun d => doc_ok d = true /\ doc_leaves_ok d = true /\ Wf.small (enc_doc d)) docs /\
     (N.of_nat (length (flatten_doc (hd [] docs))) < 2 ^ 32)%N) /\
    map chunk_table (fst (read_chunks inflate None (emitted (snd (fst (emit deflate KBase 3 docs nows))))))
      <> [doc_table (hd [] docs) docs].
Proof.
  exists [[([116]%N, VTimestamp 5 7)]], [0]. cbv zeta. split.
  - split; [discriminate|]. split; [reflexivity|]. split; [repeat constructor|].
    split. { intros a b [<-|[]] [<-|[]]. reflexivity. }
    split. { constructor; [|constructor]. split; [reflexivity|]. split; [reflexivity|]. unfold Wf.small. vm_compute. reflexivity. }
    vm_compute. reflexivity.
  - vm_compute. intro H. discriminate H.
Qed.

Print Assumptions read_keys_full_paths.
Print Assumptions read_keys_unique.
Print Assumptions emit_tables.
Print Assumptions views_project.
Print Assumptions views_types.
Print Assumptions c02_keys_full_paths.
Print Assumptions c02_keys_unique.
Print Assumptions c02_table.
Print Assumptions c02_example.
Print Assumptions c02_timestamp_refuted.
