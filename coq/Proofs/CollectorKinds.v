(* C07/C08: the five compressing collector kinds as logs of groups.  Every lemma
   about an Add is exact: it says which group the document joined, or that the
   state is literally unchanged.  No assumption that the documents share a schema. *)
From Coq Require Import ZArith NArith List Bool Lia Arith.
From FV.Model Require Import Bytes Bson Metrics Codec Collector Wf RoundTrip CollectorOk.
From FV.Proofs Require Import BytesProofs BsonProofs MetricsProofs CodecChunk CodecProofs CollectorBase.
Import ListNotations.
Open Scope Z_scope.

Lemma of_add_res_ok : forall r, r <> AddOk -> of_add_res r <> ROk.
Proof. intros [] H; try discriminate. congruence. Qed.

Lemma glen_snoc : forall (g : list doc) d, glen (g ++ [d]) = glen g + 1.
Proof. intros g d. unfold glen. rewrite app_length. cbn [length]. lia. Qed.

Lemma glen_nonneg : forall g : list doc, 0 <= glen g.
Proof. intros g. unfold glen. lia. Qed.

Lemma glen_pos : forall g : list doc, g <> [] -> 1 <= glen g.
Proof. intros [|a g] H; [congruence|]. unfold glen. cbn [length]. lia. Qed.

Lemma glen_zero : forall g : list doc, glen g = 0 -> g = [].
Proof. intros [|a g] H; [reflexivity|]. unfold glen in H. cbn [length] in H. lia. Qed.

Lemma glen_app : forall a b : list doc, glen (a ++ b) = glen a + glen b.
Proof. intros a b. unfold glen. rewrite app_length. lia. Qed.

(* the groups a collector resolves to: the group it holds unless empty *)
Definition ne (g : list doc) : list (list doc) := match g with [] => [] | _ => [g] end.

Lemma ne_concat : forall g, concat (ne g) = g.
Proof. intros [|a g]; [reflexivity|]. cbn [ne concat]. apply app_nil_r. Qed.

Lemma ne_cons : forall g, g <> [] -> ne g = [g].
Proof. intros [|a g] H; [congruence|reflexivity]. Qed.

Section Kinds.
Variable deflate : bytes -> bytes.
Variable D : doc -> Prop.
Variable aware : bool.
Hypothesis D_wf : forall d, D d -> doc_wf d.
Hypothesis D_dist : forall a b, D a -> D b -> map fst (flatten_doc a) = map fst (flatten_doc b) ->
  (aware = true -> schema_sig a = schema_sig b) -> skeleton_doc a = skeleton_doc b.

Definition sigprem (g : list doc) (d : doc) : Prop :=
  aware = true -> forall x, In x g -> fst (schema_sig x) = fst (schema_sig d).

Definition same_types (d : doc) (g : list doc) : Prop :=
  map fst (flatten_doc d) = map fst (flatten_doc (hd [] g)).

Definition gs_ok (n : Z) (gs : list (list doc)) : Prop :=
  Forall (fun g : list doc => g <> [] /\ glen g <= n) gs.

Lemma gs_ok_snoc : forall n gs g, gs_ok n gs -> g <> [] -> glen g <= n -> gs_ok n (gs ++ [g]).
Proof. intros n gs g H Hne Hl. apply Forall_app. split; [exact H|]. constructor; [split; assumption|constructor]. Qed.

Lemma gs_ok_init : forall n gs g, gs_ok n (gs ++ [g]) -> gs_ok n gs /\ g <> [] /\ glen g <= n.
Proof.
  intros n gs g H. apply Forall_app in H. destruct H as [H1 H2]. split; [exact H1|].
  inversion H2 as [|x y Hg _]; subst. exact Hg.
Qed.

(* ------------------------------------------------------------------ batch collector *)
Definition batch_inv (n : Z) (b : batch) (gs : list (list doc)) : Prop :=
  ba_max b = n /\
  ((gs = [] /\ exists c, ba_chunks b = [c] /\ bch D n c []) \/
   (gs <> [] /\ Forall2 (bch D n) (ba_chunks b) gs /\ gs_ok n gs)).

Lemma ba_new_inv : forall n, batch_inv n (ba_new n) [].
Proof. intros n. split; [reflexivity|]. left. split; [reflexivity|]. exists (bc_new n). split; [reflexivity|apply bch_new]. Qed.

Lemma ba_set_meta_inv : forall n b gs m, batch_inv n b gs -> batch_inv n (ba_set_meta b m) gs.
Proof.
  intros n b gs m [Hmax Hst]. unfold ba_set_meta. destruct Hst as [(Egs & c & Ecs & Hc)|(Hne & HF & Hok)].
  - rewrite Ecs. split; [exact Hmax|]. left. split; [exact Egs|].
    exists (bc_set_meta c m). split; [reflexivity|exact Hc].
  - destruct (ba_chunks b) as [|c cs] eqn:Ecs.
    + inversion HF as [E1|]. congruence.
    + inversion HF as [|c' g cs' gs' Hc HF' E1 E2]. subst gs.
      split; [exact Hmax|]. right. split; [exact Hne|]. split; [|exact Hok].
      cbn [ba_chunks]. constructor; [exact Hc|exact HF'].
Qed.

Lemma batch_eta : forall b, mkBatch (ba_max b) (ba_chunks b) = b.
Proof. intros []. reflexivity. Qed.

Lemma ba_add_fresh : forall n b d now, 1 <= n -> batch_inv n b [] -> D d ->
  exists b', ba_add b d now = (b', ROk) /\ batch_inv n b' [[d]].
Proof.
  intros n b d now Hn [Hmax Hst] Hd. destruct Hst as [(_ & c & Ecs & Hc)|(Hne & _)]; [|congruence].
  unfold ba_add. rewrite Ecs. cbn [last removelast app]. rewrite Hmax.
  rewrite (bch_info D aware D_wf D_dist _ _ _ Hc). change (glen []) with 0.
  replace (n <=? 0) with false by (symmetry; apply Z.leb_gt; lia).
  destruct (bch_add_empty D n c d now Hc Hd) as [c' [Hadd Hc']]. rewrite Hadd.
  eexists. split; [reflexivity|]. split; [reflexivity|]. right. split; [discriminate|].
  cbn [ba_chunks]. split; [constructor; [exact Hc'|constructor]|].
  constructor; [|constructor]. split; [discriminate|]. change (glen [d]) with 1. lia.
Qed.

Lemma batch_inv_snoc : forall n b gs0 g, batch_inv n b (gs0 ++ [g]) ->
  ba_max b = n /\ exists cs0 c, ba_chunks b = cs0 ++ [c] /\ Forall2 (bch D n) cs0 gs0 /\ bch D n c g /\
                                gs_ok n gs0 /\ g <> [] /\ glen g <= n.
Proof.
  intros n b gs0 g [Hmax Hst]. split; [exact Hmax|].
  destruct Hst as [(E & _)|(Hne & HF & Hok)]; [destruct gs0; discriminate E|].
  apply Forall2_app_inv_r in HF. destruct HF as (cs0 & cl & HF0 & HFl & Ecs).
  destruct (cp_Forall2_single _ _ _ _ _ HFl) as [c [Ecl Hc]]. subst cl.
  destruct (gs_ok_init _ _ _ Hok) as (Hok0 & Hgne & Hgl).
  exists cs0, c. repeat (split; [assumption|]). assumption.
Qed.

Lemma ba_add_full : forall n b gs0 g d now, 1 <= n -> batch_inv n b (gs0 ++ [g]) -> n <= glen g -> D d ->
  exists b', ba_add b d now = (b', ROk) /\ batch_inv n b' ((gs0 ++ [g]) ++ [[d]]).
Proof.
  intros n b gs0 g d now Hn Hinv Hfull Hd.
  destruct (batch_inv_snoc _ _ _ _ Hinv) as (Hmax & cs0 & c & Ecs & HF0 & Hc & Hok0 & Hgne & Hgl).
  unfold ba_add. rewrite Ecs, last_last, Hmax, (bch_info D aware D_wf D_dist _ _ _ Hc).
  rewrite (proj2 (Z.leb_le _ _) Hfull).
  destruct (bch_add_empty D n (bc_new n) d now (bch_new D n) Hd) as [c' [Hadd Hc']]. rewrite Hadd.
  eexists. split; [reflexivity|]. split; [reflexivity|]. right.
  split; [apply snoc_nonempty|]. cbn [ba_chunks]. split.
  - apply cp_Forall2_snoc; [apply cp_Forall2_snoc; assumption|exact Hc'].
  - apply gs_ok_snoc; [apply gs_ok_snoc; assumption|discriminate|]. change (glen [d]) with 1. lia.
Qed.

Lemma ba_add_room : forall n b gs0 g d now, batch_inv n b (gs0 ++ [g]) -> glen g < n -> D d -> sigprem g d ->
  (exists b', ba_add b d now = (b', ROk) /\ batch_inv n b' (gs0 ++ [g ++ [d]]) /\ same_types d g) \/
  (exists r, ba_add b d now = (b, r) /\ r <> ROk /\ ~ same_types d g).
Proof.
  intros n b gs0 g d now Hinv Hroom Hd Hsig.
  destruct (batch_inv_snoc _ _ _ _ Hinv) as (Hmax & cs0 & c & Ecs & HF0 & Hc & Hok0 & Hgne & Hgl).
  unfold ba_add. rewrite Ecs, last_last, removelast_last, Hmax, (bch_info D aware D_wf D_dist _ _ _ Hc).
  rewrite (proj2 (Z.leb_gt _ _) Hroom).
  destruct (bch_add D aware D_wf D_dist n c g d now Hc Hgne Hd Hsig)
    as [(c' & Hadd & Hc' & _ & Hty)|(r & Hadd & Hr & Hwhy)]; rewrite Hadd.
  - left. eexists. split; [reflexivity|]. split; [|exact Hty]. split; [reflexivity|]. right.
    split; [apply snoc_nonempty|]. cbn [ba_chunks]. split; [apply cp_Forall2_snoc; assumption|].
    apply gs_ok_snoc; [exact Hok0|apply snoc_nonempty|rewrite glen_snoc; lia].
  - right. exists (of_add_res r). split; [|split; [apply of_add_res_ok; exact Hr|]].
    + rewrite <- Hmax, <- Ecs, batch_eta. reflexivity.
    + destruct Hwhy as [Hw|Hw]; [lia|exact Hw].
Qed.

Lemma info_fold' : forall n cs gs, Forall2 (bch D n) cs gs -> forall m s,
  snd (fold_left info_step cs (m, s)) = s + glen (concat gs).
Proof.
  intros n cs gs HF. induction HF as [|c g cs gs Hc HF IH]; intros m s.
  - cbn [fold_left snd concat]. change (glen []) with 0. lia.
  - cbn [fold_left]. unfold info_step at 2. pose proof (bch_info D aware D_wf D_dist _ _ _ Hc) as Hi.
    destruct (bc_info c) as [m' s']. cbn [snd] in Hi. rewrite IH. cbn [concat]. rewrite glen_app. lia.
Qed.

Lemma ba_info_inv : forall n b gs, batch_inv n b gs -> snd (ba_info b) = glen (concat gs).
Proof.
  intros n b gs [_ Hst]. rewrite ba_info_eq. destruct Hst as [(Egs & c & Ecs & Hc)|(_ & HF & _)].
  - subst gs. rewrite Ecs. rewrite (info_fold' n [c] [[]]); [reflexivity|]. constructor; [exact Hc|constructor].
  - rewrite (info_fold' n _ _ HF). lia.
Qed.

Lemma resolve_fold' : forall n cs gs, Forall2 (bch D n) cs gs -> gs_ok n gs ->
  forall acc, exists out, fold_left (resolve_step deflate) cs (Some acc) = Some (acc ++ out) /\
                          wstream deflate (n - 1) out gs.
Proof.
  intros n cs gs HF. induction HF as [|c g cs gs Hc HF IH]; intros Hok acc.
  - exists []. split; [rewrite app_nil_r; reflexivity|constructor].
  - inversion Hok as [|x y [Hgne Hgl] Hok']; subst.
    destruct g as [|d0 ds]; [congruence|].
    destruct (bch_resolve deflate D D_wf n (n - 1) c d0 ds Hc) as [o1 [Hres Hws]].
    { unfold glen in Hgl. cbn [length] in Hgl. lia. }
    destruct (IH Hok' (acc ++ o1)) as [out [Hfold Hout]].
    exists (o1 ++ out). split.
    + cbn [fold_left]. unfold resolve_step at 2. rewrite Hres, Hfold, <- app_assoc. reflexivity.
    + apply (wstream_app deflate (n - 1) o1 [d0 :: ds] out gs Hws Hout).
Qed.

Lemma ba_resolve_nil : forall n b, batch_inv n b [] -> ba_resolve deflate b = None.
Proof.
  intros n b [_ Hst]. destruct Hst as [(_ & c & Ecs & Hc)|(Hne & _)]; [|congruence].
  rewrite ba_resolve_eq, Ecs. cbn [fold_left]. unfold resolve_step.
  rewrite (bch_resolve_nil deflate D n c Hc). reflexivity.
Qed.

Lemma ba_resolve_inv : forall n b gs, batch_inv n b gs -> gs <> [] ->
  exists out, ba_resolve deflate b = Some out /\ wstream deflate (n - 1) out gs.
Proof.
  intros n b gs [_ Hst] Hne. destruct Hst as [(E & _)|(_ & HF & Hok)]; [congruence|].
  destruct (resolve_fold' n _ _ HF Hok []) as [out [Hfold Hout]].
  exists out. rewrite ba_resolve_eq, Hfold. split; [reflexivity|exact Hout].
Qed.

(* ------------------------------------------------------------------ dynamic collector *)
Definition dyn_inv (n : Z) (x : dyn) (bss : list (list (list doc))) : Prop :=
  dy_max x = n /\
  match dy_hash x with
  | None => bss = [] /\ exists b0, dy_chunks x = [b0] /\ batch_inv n b0 []
  | Some h => bss <> [] /\ Forall2 (batch_inv n) (dy_chunks x) bss /\
              Forall (fun gs : list (list doc) => gs <> []) bss /\
              forall y, In y (concat (last bss [])) -> fst (schema_sig y) = h
  end.

Lemma dy_new_inv : forall n, dyn_inv n (dy_new n) [].
Proof.
  intros n. split; [reflexivity|]. cbn [dy_new dy_hash]. split; [reflexivity|].
  exists (ba_new n). split; [reflexivity|apply ba_new_inv].
Qed.

Lemma dy_set_meta_inv : forall n x bss m, dyn_inv n x bss -> dyn_inv n (dy_set_meta x m) bss.
Proof.
  intros n x bss m [Hmax Hst]. unfold dy_set_meta. destruct (dy_hash x) as [h|] eqn:Eh.
  - destruct Hst as (Hne & HF & Hnes & Hsig).
    destruct (dy_chunks x) as [|b bs] eqn:Ebs.
    { inversion HF as [E1|]. congruence. }
    inversion HF as [|b' gs bs' bss' Hb HF' E1 E2]. subst bss.
    split; [exact Hmax|]. cbn [dy_hash]. split; [exact Hne|].
    split; [|split; assumption]. cbn [dy_chunks]. constructor; [apply ba_set_meta_inv; exact Hb|exact HF'].
  - destruct Hst as (Ebss & b0 & Ecs & Hb0). rewrite Ecs.
    split; [exact Hmax|]. cbn [dy_hash]. split; [exact Ebss|].
    exists (ba_set_meta b0 m). split; [reflexivity|apply ba_set_meta_inv; exact Hb0].
Qed.

Lemma dyn_eta : forall x, mkDyn (dy_max x) (dy_chunks x) (dy_hash x) = x.
Proof. intros []. reflexivity. Qed.

Lemma dy_add_fresh : forall n x bss d now, 1 <= n -> dyn_inv n x bss -> dy_hash x = None -> D d ->
  bss = [] /\ exists x', dy_add x d now = (x', ROk) /\ dyn_inv n x' [[[d]]].
Proof.
  intros n x bss d now Hn [Hmax Hst] Eh Hd. rewrite Eh in Hst. destruct Hst as (Ebss & b0 & Ecs & Hb0).
  split; [exact Ebss|]. unfold dy_add. rewrite Eh, Ecs.
  destruct (ba_add_fresh n b0 d now Hn Hb0 Hd) as [b' [Hadd Hb']]. rewrite Hadd.
  eexists. split; [reflexivity|]. split; [exact Hmax|]. cbn [dy_hash dy_chunks].
  split; [discriminate|]. split; [constructor; [exact Hb'|constructor]|].
  split; [constructor; [discriminate|constructor]|].
  cbn [last concat app]. intros y [<-|[]]. reflexivity.
Qed.

Lemma dy_add_change : forall n x bss h d now, 1 <= n -> dyn_inv n x bss -> dy_hash x = Some h ->
  h <> fst (schema_sig d) -> D d ->
  exists x', dy_add x d now = (x', ROk) /\ dyn_inv n x' (bss ++ [[[d]]]).
Proof.
  intros n x bss h d now Hn [Hmax Hst] Eh Hdiff Hd. rewrite Eh in Hst. destruct Hst as (Hne & HF & Hnes & Hsig).
  unfold dy_add. rewrite Eh.
  destruct (bytes_eqb h (fst (schema_sig d))) eqn:E; [apply cb_bytes_eqb_true in E; congruence|].
  rewrite Hmax. destruct (ba_add_fresh n (ba_new n) d now Hn (ba_new_inv n) Hd) as [b' [Hadd Hb']]. rewrite Hadd.
  eexists. split; [reflexivity|]. split; [reflexivity|]. cbn [dy_hash dy_chunks].
  split; [apply snoc_nonempty|]. split; [apply cp_Forall2_snoc; assumption|].
  split; [apply Forall_app; split; [exact Hnes|constructor; [discriminate|constructor]]|].
  rewrite last_last. cbn [concat app]. intros y [<-|[]]. reflexivity.
Qed.

Lemma dyn_inv_snoc : forall n x bss0 gs h, dyn_inv n x (bss0 ++ [gs]) -> dy_hash x = Some h ->
  dy_max x = n /\ exists bs0 b, dy_chunks x = bs0 ++ [b] /\ Forall2 (batch_inv n) bs0 bss0 /\ batch_inv n b gs /\
    Forall (fun gs : list (list doc) => gs <> []) bss0 /\ gs <> [] /\
    forall y, In y (concat gs) -> fst (schema_sig y) = h.
Proof.
  intros n x bss0 gs h [Hmax Hst] Eh. rewrite Eh in Hst. destruct Hst as (_ & HF & Hnes & Hsig).
  split; [exact Hmax|].
  apply Forall2_app_inv_r in HF. destruct HF as (bs0 & bl & HF0 & HFl & Ebs).
  destruct (cp_Forall2_single _ _ _ _ _ HFl) as [b [Ebl Hb]]. subst bl.
  apply Forall_app in Hnes. destruct Hnes as [Hnes0 Hnesl]. inversion Hnesl as [|u v Hgsne _]; subst.
  rewrite last_last in Hsig. exists bs0, b. repeat (split; [assumption|]). assumption.
Qed.

Lemma sig_in_last : forall (gs0 : list (list doc)) g (P : doc -> Prop),
  (forall y, In y (concat (gs0 ++ [g])) -> P y) -> forall y, In y g -> P y.
Proof. intros gs0 g P H y Hy. apply H. rewrite cp_concat_snoc. apply in_or_app. right. exact Hy. Qed.

Lemma dy_add_same_full : forall n x bss0 gs0 g h d now, 1 <= n ->
  dyn_inv n x (bss0 ++ [gs0 ++ [g]]) -> dy_hash x = Some h -> h = fst (schema_sig d) -> n <= glen g -> D d ->
  exists x', dy_add x d now = (x', ROk) /\ dyn_inv n x' (bss0 ++ [(gs0 ++ [g]) ++ [[d]]]) /\ dy_hash x' = Some h.
Proof.
  intros n x bss0 gs0 g h d now Hn Hinv Eh Hsame Hfull Hd.
  destruct (dyn_inv_snoc _ _ _ _ _ Hinv Eh) as (Hmax & bs0 & b & Ebs & HF0 & Hb & Hnes0 & _ & Hsig).
  unfold dy_add. rewrite Eh.
  replace (bytes_eqb h (fst (schema_sig d))) with true by (rewrite <- Hsame; symmetry; apply cb_bytes_eqb_refl).
  rewrite Ebs, last_last, removelast_last.
  destruct (ba_add_full n b gs0 g d now Hn Hb Hfull Hd) as [b' [Hadd Hb']]. rewrite Hadd.
  eexists. split; [reflexivity|]. split; [|reflexivity]. split; [exact Hmax|]. cbn [dy_hash dy_chunks].
  split; [apply snoc_nonempty|]. split; [apply cp_Forall2_snoc; assumption|].
  split; [apply Forall_app; split; [exact Hnes0|constructor; [apply snoc_nonempty|constructor]]|].
  rewrite last_last. intros y Hy. rewrite cp_concat_snoc in Hy. apply in_app_or in Hy.
  destruct Hy as [Hy|[<-|[]]]; [apply Hsig; exact Hy|symmetry; exact Hsame].
Qed.

Lemma dy_add_same_room : forall n x bss0 gs0 g h d now,
  dyn_inv n x (bss0 ++ [gs0 ++ [g]]) -> dy_hash x = Some h -> h = fst (schema_sig d) -> glen g < n -> D d ->
  (exists x', dy_add x d now = (x', ROk) /\ dyn_inv n x' (bss0 ++ [gs0 ++ [g ++ [d]]]) /\ dy_hash x' = Some h /\
              same_types d g) \/
  (exists r, dy_add x d now = (x, r) /\ r <> ROk /\ ~ same_types d g).
Proof.
  intros n x bss0 gs0 g h d now Hinv Eh Hsame Hroom Hd.
  destruct (dyn_inv_snoc _ _ _ _ _ Hinv Eh) as (Hmax & bs0 & b & Ebs & HF0 & Hb & Hnes0 & _ & Hsig).
  unfold dy_add. rewrite Eh.
  replace (bytes_eqb h (fst (schema_sig d))) with true by (rewrite <- Hsame; symmetry; apply cb_bytes_eqb_refl).
  rewrite Ebs, last_last, removelast_last.
  assert (Hprem : sigprem g d).
  { intros _ y Hy. rewrite <- Hsame. apply (sig_in_last gs0 g _ Hsig y Hy). }
  destruct (ba_add_room n b gs0 g d now Hb Hroom Hd Hprem) as [(b' & Hadd & Hb' & Hty)|(r & Hadd & Hr & Hty)];
    rewrite Hadd.
  - left. eexists. split; [reflexivity|]. split; [|split; [reflexivity|exact Hty]].
    split; [exact Hmax|]. cbn [dy_hash dy_chunks].
    split; [apply snoc_nonempty|]. split; [apply cp_Forall2_snoc; assumption|].
    split; [apply Forall_app; split; [exact Hnes0|constructor; [apply snoc_nonempty|constructor]]|].
    rewrite last_last. intros y Hy. rewrite cp_concat_snoc in Hy. apply in_app_or in Hy.
    destruct Hy as [Hy|Hy].
    + apply Hsig. rewrite cp_concat_snoc. apply in_or_app. left. exact Hy.
    + apply in_app_or in Hy. destruct Hy as [Hy|[<-|[]]]; [|symmetry; exact Hsame].
      apply Hsig. rewrite cp_concat_snoc. apply in_or_app. right. exact Hy.
  - right. exists r. split; [|split; assumption].
    rewrite <- Ebs, <- Eh, dyn_eta. reflexivity.
Qed.

Lemma dinfo_fold' : forall n bs bss, Forall2 (batch_inv n) bs bss -> forall m s,
  snd (fold_left dinfo_step bs (m, s)) = s + glen (concat (concat bss)).
Proof.
  intros n bs bss HF. induction HF as [|b gs bs bss Hb HF IH]; intros m s.
  - cbn [fold_left snd concat]. change (glen []) with 0. lia.
  - cbn [fold_left]. unfold dinfo_step at 2. pose proof (ba_info_inv _ _ _ Hb) as Hi.
    destruct (ba_info b) as [m' s']. cbn [snd] in Hi. rewrite IH. cbn [concat]. rewrite concat_app, glen_app. lia.
Qed.

Lemma dy_info_inv : forall n x bss, dyn_inv n x bss -> snd (dy_info x) = glen (concat (concat bss)).
Proof.
  intros n x bss [_ Hst]. rewrite dy_info_eq. destruct (dy_hash x) as [h|].
  - destruct Hst as (_ & HF & _). rewrite (dinfo_fold' n _ _ HF). lia.
  - destruct Hst as (Ebss & b0 & Ecs & Hb0). subst bss. rewrite Ecs.
    rewrite (dinfo_fold' n [b0] [[]]); [reflexivity|]. constructor; [exact Hb0|constructor].
Qed.

Lemma dresolve_fold' : forall n bs bss, Forall2 (batch_inv n) bs bss ->
  Forall (fun gs : list (list doc) => gs <> []) bss ->
  forall acc, exists out, fold_left (dresolve_step deflate) bs (Some acc) = Some (acc ++ out) /\
                          wstream deflate (n - 1) out (concat bss).
Proof.
  intros n bs bss HF. induction HF as [|b gs bs bss Hb HF IH]; intros Hnes acc.
  - exists []. split; [rewrite app_nil_r; reflexivity|constructor].
  - inversion Hnes as [|u v Hne Hnes']; subst.
    destruct (ba_resolve_inv n b gs Hb Hne) as [o1 [Hres Hws]].
    destruct (IH Hnes' (acc ++ o1)) as [out [Hfold Hout]].
    exists (o1 ++ out). split.
    + cbn [fold_left]. unfold dresolve_step at 2. rewrite Hres, Hfold, <- app_assoc. reflexivity.
    + cbn [concat]. apply wstream_app; assumption.
Qed.

Lemma dy_resolve_nil : forall n x, dyn_inv n x [] -> dy_resolve deflate x = None.
Proof.
  intros n x [_ Hst]. destruct (dy_hash x) as [h|]; [destruct Hst as [Hne _]; congruence|].
  destruct Hst as (_ & b0 & Ecs & Hb0). rewrite dy_resolve_eq, Ecs. cbn [fold_left]. unfold dresolve_step.
  rewrite (ba_resolve_nil n b0 Hb0). reflexivity.
Qed.

Lemma dy_resolve_inv : forall n x bss, dyn_inv n x bss -> bss <> [] ->
  exists out, dy_resolve deflate x = Some out /\ wstream deflate (n - 1) out (concat bss).
Proof.
  intros n x bss [_ Hst] Hne. destruct (dy_hash x) as [h|]; [|destruct Hst as [E _]; congruence].
  destruct Hst as (_ & HF & Hnes & _).
  destruct (dresolve_fold' n _ _ HF Hnes []) as [out [Hfold Hout]].
  exists out. rewrite dy_resolve_eq, Hfold. split; [reflexivity|exact Hout].
Qed.

Lemma dyn_nes : forall n x bss, dyn_inv n x bss -> Forall (fun gs : list (list doc) => gs <> []) bss.
Proof.
  intros n x bss [_ Hst]. destruct (dy_hash x) as [h|].
  - apply Hst.
  - destruct Hst as [E _]. subst bss. constructor.
Qed.

Lemma dyn_gs_ok : forall n x bss, dyn_inv n x bss -> gs_ok n (concat bss).
Proof.
  intros n x bss [_ Hst]. destruct (dy_hash x) as [h|].
  - destruct Hst as (_ & HF & Hnes & _). clear - HF Hnes.
    induction HF as [|b gs bs bss Hb HF IH]; [constructor|].
    inversion Hnes as [|u v Hne Hnes']; subst. cbn [concat]. apply Forall_app. split; [|apply IH; exact Hnes'].
    destruct Hb as [_ [(E & _)|(_ & _ & Hok)]]; [congruence|exact Hok].
  - destruct Hst as [E _]. subst bss. constructor.
Qed.

(* ------------------------------------------------------------------ streaming collector *)
Definition stream_inv (n : Z) (s : scoll) (g : list doc) : Prop :=
  exists b, sc_inner s = IB b /\ sc_max s = n /\ sc_count s = glen g /\ bch D n b g /\ glen g <= n.

Lemma stream_new_inv : forall n, 0 <= n -> stream_inv n (mkScoll n 0 (IB (bc_new n))) [].
Proof.
  intros n Hn. exists (bc_new n). cbn [sc_inner sc_max sc_count]. change (glen []) with 0.
  split; [reflexivity|]. split; [reflexivity|]. split; [reflexivity|]. split; [apply bch_new|lia].
Qed.

Lemma sc_reset_inv : forall n s g, 0 <= n -> stream_inv n s g -> stream_inv n (sc_reset s) [].
Proof.
  intros n s g Hn (b & Hin & Hmax & _ & Hb & _). exists (bc_reset b). unfold sc_reset. rewrite Hin.
  cbn [sc_inner sc_max sc_count in_reset]. change (glen []) with 0.
  split; [reflexivity|]. split; [exact Hmax|]. split; [reflexivity|]. split; [apply (bch_reset D n b g Hb)|lia].
Qed.

Lemma sc_set_meta_inv : forall n s g m, stream_inv n s g ->
  stream_inv n (mkScoll (sc_max s) (sc_count s) (in_set_meta (sc_inner s) m)) g.
Proof.
  intros n s g m (b & Hin & Hmax & Hcnt & Hb & Hl). exists (bc_set_meta b m). rewrite Hin.
  cbn [sc_inner sc_max sc_count in_set_meta].
  split; [reflexivity|]. split; [exact Hmax|]. split; [exact Hcnt|]. split; [exact Hb|exact Hl].
Qed.

Lemma sc_info_inv : forall n s g, stream_inv n s g -> snd (in_info (sc_inner s)) = glen g.
Proof. intros n s g (b & Hin & _ & _ & Hb & _). rewrite Hin. cbn [in_info]. apply (bch_info D aware D_wf D_dist _ _ _ Hb). Qed.

Lemma sc_resolve_nil : forall n s, stream_inv n s [] -> in_resolve deflate (sc_inner s) = None.
Proof.
  intros n s (b & Hin & _ & _ & Hb & _). rewrite Hin. cbn [in_resolve].
  rewrite (bch_resolve_nil deflate D n b Hb). reflexivity.
Qed.

Lemma sc_resolve_inv : forall n s g, stream_inv n s g -> g <> [] ->
  exists out, in_resolve deflate (sc_inner s) = Some (OFtdc out) /\ wstream deflate (n - 1) out [g].
Proof.
  intros n s g (b & Hin & _ & _ & Hb & Hl) Hne. destruct g as [|d0 ds]; [congruence|].
  destruct (bch_resolve deflate D D_wf n (n - 1) b d0 ds Hb) as [out [Hres Hws]].
  { unfold glen in Hl. cbn [length] in Hl. lia. }
  exists out. rewrite Hin. cbn [in_resolve]. rewrite Hres. split; [reflexivity|exact Hws].
Qed.

Lemma scoll_eta : forall s, mkScoll (sc_max s) (sc_count s) (sc_inner s) = s.
Proof. intros []. reflexivity. Qed.

Lemma sc_tail_empty : forall n s w d now, 1 <= n -> stream_inv n s [] -> D d ->
  exists s', sc_add_tail s w d now = (s', w, ROk) /\ stream_inv n s' [d].
Proof.
  intros n s w d now Hn (b & Hin & Hmax & Hcnt & Hb & _) Hd.
  destruct (bch_add_empty D n b d now Hb Hd) as [b' [Hadd Hb']].
  unfold sc_add_tail. rewrite Hin. cbn [in_add]. rewrite Hadd. cbn [of_add_res].
  eexists. split; [reflexivity|]. exists b'. cbn [sc_inner sc_max sc_count].
  split; [reflexivity|]. split; [exact Hmax|]. split; [rewrite Hcnt; reflexivity|]. split; [exact Hb'|].
  change (glen [d]) with 1. lia.
Qed.

Lemma sc_tail_room : forall n s g w d now, stream_inv n s g -> g <> [] -> glen g < n -> D d -> sigprem g d ->
  (exists s', sc_add_tail s w d now = (s', w, ROk) /\ stream_inv n s' (g ++ [d]) /\ same_types d g) \/
  (exists r, sc_add_tail s w d now = (s, w, r) /\ r <> ROk /\ ~ same_types d g).
Proof.
  intros n s g w d now (b & Hin & Hmax & Hcnt & Hb & Hl) Hne Hroom Hd Hsig.
  unfold sc_add_tail. rewrite Hin. cbn [in_add].
  destruct (bch_add D aware D_wf D_dist n b g d now Hb Hne Hd Hsig)
    as [(b' & Hadd & Hb' & _ & Hty)|(r & Hadd & Hr & Hwhy)]; rewrite Hadd.
  - left. cbn [of_add_res]. eexists. split; [reflexivity|]. split; [|exact Hty].
    exists b'. cbn [sc_inner sc_max sc_count]. rewrite glen_snoc.
    split; [reflexivity|]. split; [exact Hmax|]. split; [lia|]. split; [exact Hb'|lia].
  - right. exists (of_add_res r). pose proof (of_add_res_ok r Hr) as Hr'.
    split; [|split; [exact Hr'|destruct Hwhy as [Hw|Hw]; [lia|exact Hw]]].
    rewrite <- Hin, scoll_eta. destruct (of_add_res r); try reflexivity. congruence.
Qed.

Lemma sc_flush_nil : forall n s w, stream_inv n s [] -> sc_flush deflate s w = (s, w, true).
Proof.
  intros n s w Hinv. unfold sc_flush, flush_with. rewrite (sc_info_inv _ _ _ Hinv). reflexivity.
Qed.

Lemma sc_flush_inv : forall n s g w, 0 <= n -> stream_inv n s g -> g <> [] -> w_faults w = [] ->
  exists out, sc_flush deflate s w = (sc_reset s, w_push w out, true) /\ wstream deflate (n - 1) out [g] /\
              stream_inv n (sc_reset s) [].
Proof.
  intros n s g w Hn Hinv Hne Hf. destruct (sc_resolve_inv _ _ _ Hinv Hne) as [out [Hres Hws]].
  exists out. split; [|split; [exact Hws|apply (sc_reset_inv n s g Hn Hinv)]].
  unfold sc_flush. apply (flush_with_ok scoll (fun s => in_info (sc_inner s))); try assumption.
  rewrite (sc_info_inv _ _ _ Hinv). pose proof (glen_pos g Hne). lia.
Qed.

Lemma sc_add_room : forall n s g w d now, stream_inv n s g -> glen g < n ->
  sc_add deflate s w d now = sc_add_tail s w d now.
Proof.
  intros n s g w d now (b & _ & Hmax & Hcnt & _) Hroom. rewrite sc_add_eq, Hmax, Hcnt.
  rewrite (proj2 (Z.leb_gt _ _) Hroom). reflexivity.
Qed.

Lemma sc_add_full : forall n s g w d now, 1 <= n -> stream_inv n s g -> n <= glen g -> w_faults w = [] -> D d ->
  exists out s', sc_add deflate s w d now = (s', w_push w out, ROk) /\ wstream deflate (n - 1) out [g] /\
                 stream_inv n s' [d].
Proof.
  intros n s g w d now Hn Hinv Hfull Hf Hd.
  assert (Hne : g <> []) by (intros E; subst g; change (glen []) with 0 in Hfull; lia).
  destruct (sc_flush_inv n s g w ltac:(lia) Hinv Hne Hf) as [out (Hfl & Hws & Hinv')].
  destruct (sc_tail_empty n (sc_reset s) (w_push w out) d now Hn Hinv' Hd) as [s' [Htail Hs']].
  exists out, s'. split; [|split; assumption].
  destruct Hinv as (b & _ & Hmax & Hcnt & _). rewrite sc_add_eq, Hmax, Hcnt.
  rewrite (proj2 (Z.leb_le _ _) Hfull), Hfl. cbn [negb]. exact Htail.
Qed.

(* ------------------------------------------------------------------ streaming dynamic collector *)
Definition sdyn_inv (n : Z) (c : sdcoll) (g : list doc) : Prop :=
  stream_inv n (sd_s c) g /\
  match sd_hash c with
  | None => g = []
  | Some h => forall y, In y g -> schema_sig y = (h, sd_mcount c)
  end.

Lemma sd_new_inv : forall n, 0 <= n -> sdyn_inv n (mkSdcoll None 0 (mkScoll n 0 (IB (bc_new n)))) [].
Proof. intros n Hn. split; [apply stream_new_inv; exact Hn|reflexivity]. Qed.

Lemma sd_reset_inv : forall n c g, 0 <= n -> sdyn_inv n c g -> sdyn_inv n (sd_reset c) [].
Proof. intros n c g Hn [Hs _]. split; [apply (sc_reset_inv n _ g Hn Hs)|reflexivity]. Qed.

Lemma sdcoll_eta : forall c, mkSdcoll (sd_hash c) (sd_mcount c) (sd_s c) = c.
Proof. intros []. reflexivity. Qed.

Lemma sd_flush_inv : forall n c g w, 0 <= n -> sdyn_inv n c g -> g <> [] -> w_faults w = [] ->
  exists out, sd_flush deflate c w = (sd_reset c, w_push w out, true) /\ wstream deflate (n - 1) out [g].
Proof.
  intros n c g w Hn [Hinv _] Hne Hf. destruct (sc_resolve_inv _ _ _ Hinv Hne) as [out [Hres Hws]].
  exists out. split; [|exact Hws].
  unfold sd_flush. apply (flush_with_ok sdcoll (fun c => in_info (sc_inner (sd_s c)))); try assumption.
  rewrite (sc_info_inv _ _ _ Hinv). pose proof (glen_pos g Hne). lia.
Qed.

Lemma sd_flush_nil : forall n c w, sdyn_inv n c [] -> sd_flush deflate c w = (c, w, true).
Proof.
  intros n c w [Hinv _]. unfold sd_flush, flush_with. rewrite (sc_info_inv _ _ _ Hinv). reflexivity.
Qed.

(* the signature differs from that of the documents held (or nothing is held) *)
Definition sd_changed (c : sdcoll) (d : doc) : bool :=
  match sd_hash c with
  | None => true
  | Some h => negb (sd_mcount c =? snd (schema_sig d)) || negb (bytes_eqb h (fst (schema_sig d)))
  end.

Lemma sd_add_eq : forall c w d now,
  sd_add deflate c w d now =
  (let '(c1, w1, ok) :=
     if sd_changed c d then
       let '(c', w', ok') := if 0 <? sc_count (sd_s c) then sd_flush deflate c w else (c, w, true) in
       if ok' then (mkSdcoll (Some (fst (schema_sig d))) (snd (schema_sig d)) (sd_s c'), w', true) else (c', w', false)
     else (c, w, true) in
   if negb ok then (c1, w1, RFlush)
   else let '(s', w2, r) := sc_add deflate (sd_s c1) w1 d now in
        (mkSdcoll (sd_hash c1) (sd_mcount c1) s', w2, r)).
Proof. intros c w d now. unfold sd_add, sd_changed. destruct (schema_sig d) as [sig num]. reflexivity. Qed.

Lemma sd_unchanged_sig : forall n c g d, sdyn_inv n c g -> sd_changed c d = false ->
  forall y, In y g -> schema_sig y = schema_sig d.
Proof.
  intros n c g d [_ Hh] Hch y Hy. unfold sd_changed in Hch. destruct (sd_hash c) as [h|]; [|discriminate Hch].
  apply orb_false_iff in Hch. destruct Hch as [H1 H2]. apply negb_false_iff in H1, H2.
  apply Z.eqb_eq in H1. apply cb_bytes_eqb_true in H2. rewrite (Hh y Hy).
  destruct (schema_sig d) as [sig num]. cbn [fst snd] in *. congruence.
Qed.

Lemma sd_changed_sig : forall n c g d, sdyn_inv n c g -> sd_changed c d = true ->
  forall y, In y g -> schema_sig y <> schema_sig d.
Proof.
  intros n c g d [_ Hh] Hch y Hy E. unfold sd_changed in Hch. destruct (sd_hash c) as [h|].
  - rewrite (Hh y Hy) in E. rewrite <- E in Hch. cbn [fst snd] in Hch.
    rewrite Z.eqb_refl, cb_bytes_eqb_refl in Hch. discriminate Hch.
  - subst g. destruct Hy.
Qed.

(* signature changed: flush what is held, then the document opens a new chunk *)
Lemma sd_add_changed : forall n c g w d now, 1 <= n -> sdyn_inv n c g -> sd_changed c d = true ->
  w_faults w = [] -> D d ->
  exists c' w', sd_add deflate c w d now = (c', w', ROk) /\ sdyn_inv n c' [d] /\
    ((g = [] /\ w' = w) \/ (g <> [] /\ exists out, w' = w_push w out /\ wstream deflate (n - 1) out [g])).
Proof.
  intros n c g w d now Hn Hinv Hch Hf Hd. rewrite sd_add_eq, Hch.
  pose proof Hinv as [Hs _]. pose proof Hs as (b & _ & Hmax & Hcnt & _).
  destruct g as [|d0 ds].
  - change (glen []) with 0 in Hcnt. rewrite Hcnt. cbn [Z.ltb Z.compare negb sd_s sd_hash sd_mcount].
    rewrite (sc_add_room n (sd_s c) [] w d now Hs) by (change (glen []) with 0; lia).
    destruct (sc_tail_empty n (sd_s c) w d now Hn Hs Hd) as [s' [Htail Hs']]. rewrite Htail.
    eexists. eexists. split; [reflexivity|]. split; [|left; split; reflexivity].
    split; [exact Hs'|]. cbn [sd_hash sd_mcount]. intros y [<-|[]]. destruct (schema_sig d); reflexivity.
  - assert (Hne : d0 :: ds <> []) by discriminate.
    pose proof (glen_pos _ Hne) as Hpos. rewrite Hcnt. rewrite (proj2 (Z.ltb_lt _ _)) by lia.
    destruct (sd_flush_inv n c _ w ltac:(lia) Hinv Hne Hf) as [out [Hfl Hws]]. rewrite Hfl.
    cbn [negb sd_s sd_hash sd_mcount sd_reset].
    pose proof (sc_reset_inv n _ _ ltac:(lia) Hs) as Hs0.
    rewrite (sc_add_room n _ [] (w_push w out) d now Hs0) by (change (glen []) with 0; lia).
    destruct (sc_tail_empty n _ (w_push w out) d now Hn Hs0 Hd) as [s' [Htail Hs']]. rewrite Htail.
    eexists. eexists. split; [reflexivity|]. split; [|right; split; [exact Hne|exists out; split; [reflexivity|exact Hws]]].
    split; [exact Hs'|]. cbn [sd_hash sd_mcount]. intros y [<-|[]]. destruct (schema_sig d); reflexivity.
Qed.

Lemma sd_add_same_eq : forall c w d now, sd_changed c d = false ->
  sd_add deflate c w d now =
  (let '(s', w2, r) := sc_add deflate (sd_s c) w d now in (mkSdcoll (sd_hash c) (sd_mcount c) s', w2, r)).
Proof. intros c w d now Hch. rewrite sd_add_eq, Hch. reflexivity. Qed.

Lemma sd_hash_some : forall c d, sd_changed c d = false -> exists h, sd_hash c = Some h.
Proof. intros c d H. unfold sd_changed in H. destruct (sd_hash c) as [h|]; [exists h; reflexivity|discriminate]. Qed.

(* same signature, chunk full: flush, then a new chunk *)
Lemma sd_add_same_full : forall n c g w d now, 1 <= n -> sdyn_inv n c g -> sd_changed c d = false ->
  n <= glen g -> w_faults w = [] -> D d ->
  exists out c', sd_add deflate c w d now = (c', w_push w out, ROk) /\ wstream deflate (n - 1) out [g] /\
                 sdyn_inv n c' [d].
Proof.
  intros n c g w d now Hn Hinv Hch Hfull Hf Hd. rewrite (sd_add_same_eq _ _ _ _ Hch).
  pose proof Hinv as [Hs Hh].
  destruct (sc_add_full n (sd_s c) g w d now Hn Hs Hfull Hf Hd) as (out & s' & Hadd & Hws & Hs'). rewrite Hadd.
  exists out. eexists. split; [reflexivity|]. split; [exact Hws|]. split; [exact Hs'|].
  cbn [sd_hash sd_mcount]. destruct (sd_hash_some _ _ Hch) as [h Eh]. rewrite Eh.
  intros y [<-|[]]. unfold sd_changed in Hch. rewrite Eh in Hch.
  apply orb_false_iff in Hch. destruct Hch as [H1 H2]. apply negb_false_iff in H1, H2.
  apply Z.eqb_eq in H1. apply cb_bytes_eqb_true in H2. destruct (schema_sig d). cbn [fst snd] in *. congruence.
Qed.

(* same signature, room left: joins the chunk, or is refused and nothing changes *)
Lemma sd_add_same_room : forall n c g w d now, 1 <= n -> sdyn_inv n c g -> sd_changed c d = false ->
  glen g < n -> D d ->
  (exists c', sd_add deflate c w d now = (c', w, ROk) /\ sdyn_inv n c' (g ++ [d]) /\ (g = [] \/ same_types d g)) \/
  (exists r, sd_add deflate c w d now = (c, w, r) /\ r <> ROk /\ g <> [] /\ ~ same_types d g).
Proof.
  intros n c g w d now Hn Hinv Hch Hroom Hd. rewrite (sd_add_same_eq _ _ _ _ Hch).
  pose proof Hinv as [Hs Hh]. rewrite (sc_add_room n (sd_s c) g w d now Hs Hroom).
  destruct (sd_hash_some _ _ Hch) as [h Eh].
  assert (Hsigs : forall y, In y (g ++ [d]) -> schema_sig y = (h, sd_mcount c)).
  { intros y Hy. apply in_app_or in Hy. rewrite Eh in Hh. destruct Hy as [Hy|[<-|[]]]; [apply Hh; exact Hy|].
    unfold sd_changed in Hch. rewrite Eh in Hch.
    apply orb_false_iff in Hch. destruct Hch as [H1 H2]. apply negb_false_iff in H1, H2.
    apply Z.eqb_eq in H1. apply cb_bytes_eqb_true in H2. destruct (schema_sig d). cbn [fst snd] in *. congruence. }
  destruct g as [|d0 ds].
  - destruct (sc_tail_empty n (sd_s c) w d now Hn Hs Hd) as [s' [Htail Hs']]. rewrite Htail.
    left. eexists. split; [reflexivity|]. split; [|left; reflexivity].
    split; [exact Hs'|]. cbn [sd_hash sd_mcount]. rewrite Eh. exact Hsigs.
  - assert (Hne : d0 :: ds <> []) by discriminate.
    assert (Hprem : sigprem (d0 :: ds) d).
    { intros _ y Hy. rewrite (sd_unchanged_sig n c _ d Hinv Hch y Hy). reflexivity. }
    destruct (sc_tail_room n (sd_s c) _ w d now Hs Hne Hroom Hd Hprem) as [(s' & Htail & Hs' & Hty)|(r & Htail & Hr & Hty)];
      rewrite Htail.
    + left. eexists. split; [reflexivity|]. split; [|right; exact Hty].
      split; [exact Hs'|]. cbn [sd_hash sd_mcount]. rewrite Eh. exact Hsigs.
    + right. exists r. rewrite sdcoll_eta. repeat split; assumption.
Qed.

(* ------------------------------------------------------------------ everything held was offered *)
Lemma bch_D : forall n b g, bch D n b g -> Forall D g.
Proof. intros n b g (_ & [H _] & _). exact H. Qed.

Lemma bchs_D : forall n cs gs, Forall2 (bch D n) cs gs -> Forall D (concat gs).
Proof.
  intros n cs gs HF. induction HF as [|c g cs gs Hc HF IH]; [constructor|].
  cbn [concat]. apply Forall_app. split; [apply (bch_D n c g Hc)|exact IH].
Qed.

Lemma batch_inv_D : forall n b gs, batch_inv n b gs -> Forall D (concat gs).
Proof.
  intros n b gs [_ [(-> & _)|(_ & HF & _)]]; [constructor|apply (bchs_D n _ _ HF)].
Qed.

Lemma dyn_inv_D : forall n x bss, dyn_inv n x bss -> Forall D (concat (concat bss)).
Proof.
  intros n x bss [_ Hst]. destruct (dy_hash x) as [h|].
  - destruct Hst as (_ & HF & _). clear - HF. induction HF as [|b gs bs bss Hb HF IH]; [constructor|].
    cbn [concat]. rewrite concat_app. apply Forall_app. split; [apply (batch_inv_D n b gs Hb)|exact IH].
  - destruct Hst as [-> _]. constructor.
Qed.

Lemma stream_inv_D : forall n s g, stream_inv n s g -> Forall D g.
Proof. intros n s g (b & _ & _ & _ & Hb & _). apply (bch_D n b g Hb). Qed.

Lemma hd_in_D : forall g : list doc, g <> [] -> Forall D g -> D (hd [] g).
Proof. intros [|a g] Hne HF; [congruence|]. inversion HF; assumption. Qed.

End Kinds.
