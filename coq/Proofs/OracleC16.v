(* Oracle soundness for C16: the executable oracles [c16_ok_sys] and [c16_ok_stress]
   (Model/SysInterval.v) accept the observation of EVERY complete schedule of the model.

   A schedule is complete when it ends in a QUIESCENT state: no goroutine (user or flusher;
   the ticker event is not a goroutine) has a step.  The observation of such a state is what
   Model/SysInterval.v's own [obs_of] / [model_obs_stress] read off a state.

   The route: the outcome of any interleaving is the outcome of the SERIAL execution of the
   calls in the order in which they acquired the mutex ([lock_log], newest first):
   number of flushers started, whether a flusher's cancel function is stored, and the counters
   persisted by user goroutines are functions of that order ([n_flushers], [has_canceler],
   [user_log]); read oldest first, [user_log] is the oracle's specification
   [spec_end_samples]. *)
From Coq Require Import ZArith List Bool Arith Lia Permutation.
From FV.Model Require Import SysInterval.
From FV.Proofs Require Import SysIntervalProofs.
Import ListNotations.
Open Scope Z_scope.

(* ---------------------------------------------------------------- functions of the lock order (newest first) *)
Fixpoint has_canceler (l : list call) : bool :=
  match l with
  | [] => false
  | Begin :: _ => true
  | EndTest :: _ => false
  | Reset :: _ => false
  | _ :: r => has_canceler r
  end.
Fixpoint n_flushers (l : list call) : nat :=
  match l with
  | [] => O
  | Begin :: r => ((if has_canceler r then 0 else 1) + n_flushers r)%nat
  | _ :: r => n_flushers r
  end.
(* counters persisted by user goroutines, newest first; wf = with_flusher *)
Fixpoint user_log (wf : bool) (l : list call) : list Z :=
  match l with
  | [] => []
  | EndTest :: r => (if cycle_stamped r then [wrap64 (sumZ (cycle_incs r))] else []) ++ user_log wf r
  | End :: r => (if wf then [] else [wrap64 (sumZ (cycle_incs r))]) ++ user_log wf r
  | _ :: r => user_log wf r
  end.

Definition is_resetb (cl : call) : bool := match cl with EndTest | Reset => true | _ => false end.
Definition n_resets (l : list call) : nat := length (filter is_resetb l).
(* the increments of a program, in program order (the driver's [incs]) *)
Definition incs_of (p : list call) : list Z :=
  flat_map (fun cl => match cl with Inc k => [k] | _ => [] end) p.

(* oldest first: no increment is dropped - every increment is followed by an EndTest that finds
   the point stamped (a Begin/EndIteration acquired the mutex since the previous EndTest/Reset),
   none is followed by a Reset or by the end *)
Fixpoint all_counted (st pending : bool) (p : list call) : bool :=
  match p with
  | [] => negb pending
  | Inc _ :: r => all_counted st true r
  | Begin :: r => all_counted true pending r
  | End :: r => all_counted true pending r
  | SetGauge _ :: r => all_counted st pending r
  | EndTest :: r => (st || negb pending) && all_counted false false r
  | Reset :: r => negb pending && all_counted false false r
  end.

(* what a user goroutine still has to ACQUIRE the mutex for *)
Definition pending (u : ustate) : list call :=
  match u_pc u with UIdle => u_prog u | _ => tl (u_prog u) end.

(* ---------------------------------------------------------------- arithmetic *)
Lemma sumZ_app : forall a b, sumZ (a ++ b) = sumZ a + sumZ b.
Proof.
  unfold sumZ. induction a as [|x a IH]; intros b; cbn [app fold_right]; [reflexivity|]. rewrite IH. lia.
Qed.

Lemma sumZ_cons : forall x a, sumZ (x :: a) = x + sumZ a.
Proof. reflexivity. Qed.

Lemma sumZ_rev : forall a, sumZ (rev a) = sumZ a.
Proof.
  induction a as [|x a IH]; [reflexivity|]. cbn [rev]. rewrite sumZ_app, IH, !sumZ_cons. unfold sumZ at 2. cbn [fold_right]. lia.
Qed.

Lemma wrap64_add_r : forall a b, wrap64 (a + wrap64 b) = wrap64 (a + b).
Proof. intros a b. rewrite Z.add_comm, wrap64_add_l, Z.add_comm. reflexivity. Qed.

Lemma zlist_eqb_refl : forall l, zlist_eqb l l = true.
Proof. induction l as [|x l IH]; cbn [zlist_eqb]; [reflexivity | rewrite Z.eqb_refl, IH; reflexivity]. Qed.

(* ---------------------------------------------------------------- user_log, read oldest first, is spec_end_samples *)
Lemma user_log_spec : forall p l0,
  rev (user_log true (rev p ++ l0)) =
  rev (user_log true l0) ++ spec_end_samples (cycle_stamped l0) (wrap64 (sumZ (cycle_incs l0))) p.
Proof.
  induction p as [|cl r IH]; intros l0.
  - cbn [rev app spec_end_samples]. rewrite app_nil_r. reflexivity.
  - cbn [rev]. rewrite <- app_assoc. cbn [app]. rewrite IH.
    destruct cl; cbn [user_log cycle_stamped cycle_incs spec_end_samples app].
    + (* Inc *) cbn [sumZ fold_right]. rewrite wrap64_add_l. f_equal. f_equal. f_equal. unfold sumZ. lia.
    + reflexivity.
    + reflexivity.
    + reflexivity.
    + (* EndTest *) rewrite rev_app_distr, <- app_assoc. f_equal.
      cbn [sumZ fold_right]. rewrite wrap64_0.
      destruct (cycle_stamped l0); reflexivity.
    + (* Reset *) cbn [sumZ fold_right]. rewrite wrap64_0. reflexivity.
Qed.

Lemma user_log_spec0 : forall p, rev (user_log true (rev p)) = spec_end_samples false 0 p.
Proof.
  intros p. pose proof (user_log_spec p []) as H. rewrite app_nil_r in H. rewrite H.
  cbn [user_log rev app cycle_stamped cycle_incs sumZ fold_right]. rewrite wrap64_0. reflexivity.
Qed.

(* if no increment is dropped, the persisted counters add up to the sum of all increments *)
Lemma all_counted_sum : forall p st pend acc,
  all_counted st pend p = true -> (pend = false -> acc = 0) ->
  wrap64 (sumZ (spec_end_samples st acc p)) = wrap64 (acc + sumZ (incs_of p)).
Proof.
  induction p as [|cl r IH]; intros st pend acc Hc Hacc.
  - cbn [all_counted] in Hc. apply negb_true_iff in Hc. rewrite (Hacc Hc). reflexivity.
  - destruct cl; cbn [all_counted spec_end_samples incs_of flat_map app] in *.
    + (* Inc *) fold (incs_of r). rewrite (IH st true _ Hc) by discriminate.
      rewrite wrap64_add_l. cbn [sumZ fold_right]. f_equal. unfold sumZ. lia.
    + fold (incs_of r). exact (IH true pend acc Hc Hacc).
    + fold (incs_of r). exact (IH true pend acc Hc Hacc).
    + fold (incs_of r). exact (IH st pend acc Hc Hacc).
    + (* EndTest *) fold (incs_of r). apply andb_true_iff in Hc. destruct Hc as [Hs Hr].
      pose proof (IH false false 0 Hr (fun _ => eq_refl)) as E. rewrite Z.add_0_l in E.
      destruct st.
      * rewrite sumZ_app. cbn [sumZ fold_right]. rewrite Z.add_0_r.
        rewrite <- wrap64_add_r. unfold sumZ in E |- *. rewrite E. apply wrap64_add_r.
      * cbn [orb] in Hs. apply negb_true_iff in Hs. rewrite (Hacc Hs). cbn [app]. rewrite Z.add_0_l. exact E.
    + (* Reset *) fold (incs_of r). apply andb_true_iff in Hc. destruct Hc as [Hs Hr].
      apply negb_true_iff in Hs. rewrite (Hacc Hs), Z.add_0_l.
      pose proof (IH false false 0 Hr (fun _ => eq_refl)) as E. rewrite Z.add_0_l in E. exact E.
Qed.

Lemma n_flushers_le : forall l,
  (n_flushers l <= n_resets l + (if has_canceler l then 1 else 0))%nat.
Proof.
  unfold n_resets. induction l as [|cl r IH]; [cbn; lia|].
  destruct cl; cbn [n_flushers has_canceler filter is_resetb length]; try exact IH.
  - destruct (has_canceler r); lia.
  - destruct (has_canceler r); lia.
  - destruct (has_canceler r); lia.
Qed.

(* without EndTest/Reset the current cycle holds all increments *)
Lemma cycle_incs_all : forall l, n_resets l = O -> cycle_incs l = incs_of l.
Proof.
  unfold n_resets. induction l as [|cl r IH]; intros H; [reflexivity|].
  destruct cl; cbn [filter is_resetb length] in H; try discriminate H;
    cbn [cycle_incs incs_of flat_map app]; fold (incs_of r); rewrite (IH H); reflexivity.
Qed.

(* sums and counts do not depend on the order *)
Lemma incs_perm : forall a b, Permutation a b -> sumZ (incs_of a) = sumZ (incs_of b).
Proof.
  intros a b H. induction H as [|x a b H IH|x y a|a b d H1 IH1 H2 IH2].
  - reflexivity.
  - cbn [incs_of flat_map]. fold (incs_of a) (incs_of b). rewrite !sumZ_app, IH. reflexivity.
  - cbn [incs_of flat_map]. fold (incs_of a). rewrite !sumZ_app. lia.
  - congruence.
Qed.

Lemma resets_perm : forall a b, Permutation a b -> n_resets a = n_resets b.
Proof.
  intros a b H. unfold n_resets. induction H as [|x a b H IH|x y a|a b d H1 IH1 H2 IH2].
  - reflexivity.
  - cbn [filter]. destruct (is_resetb x); cbn [length]; congruence.
  - cbn [filter]. destruct (is_resetb x), (is_resetb y); reflexivity.
  - congruence.
Qed.

(* ---------------------------------------------------------------- list update *)
Lemma upd_split : forall {A} (l : list A) g u x, nth_error l g = Some u ->
  exists pre post, l = pre ++ u :: post /\ upd g x l = pre ++ x :: post.
Proof.
  intros A l. induction l as [|a l IH]; intros g u x H.
  - destruct g; discriminate.
  - destruct g as [|g]; cbn [nth_error] in H.
    + inversion H; subst. exists [], l. split; reflexivity.
    + destruct (IH g u x H) as (pre & post & E1 & E2). exists (a :: pre), post.
      cbn [upd app]. rewrite <- E1, E2. split; reflexivity.
Qed.

Lemma map_upd_same : forall {A B} (f : A -> B) (l : list A) g u x,
  nth_error l g = Some u -> f x = f u -> map f (upd g x l) = map f l.
Proof.
  intros A B f l g u x Hn E. destruct (upd_split l g u x Hn) as (pre & post & E1 & E2).
  rewrite E2, E1, !map_app. cbn [map]. rewrite E. reflexivity.
Qed.

Lemma all_returnedb_iff : forall s, all_returnedb s = true <-> all_user_calls_returned s.
Proof.
  intros s. unfold all_returnedb, all_user_calls_returned. rewrite forallb_forall, Forall_forall.
  split; intros H u Hu; specialize (H u Hu); destruct (u_prog u); congruence.
Qed.

(* ================================================================ *)
Section Sound.
Variable c : cfg.
Hypothesis Hc : flusher_unlocks_on_cancel c = true.

(* ---------------------------------------------------------------- how one step changes the applied log *)
Lemma applied_log_step : forall s t s', InvMu s -> InvSum s -> Step c s t s' ->
  (exists g cl rest, nth_error (users s) g = Some (mkU UCrit (cl :: rest)) /\
     applied_log s' = cl :: applied_log s /\
     rc s' = fst (body c g cl (rc s) (flushers s)) /\ flushers s' = snd (body c g cl (rc s) (flushers s))) \/
  (applied_log s' = applied_log s /\
   (rc s' = rc s \/ exists f, rc s' = persist (OF f) (stamp (rc s))) /\
   length (flushers s') = length (flushers s)).
Proof.
  intros s t s' IM I HS.
  assert (Hfl : forall f fl, nth_error (flushers s) f = Some fl -> f_holds (f_pc fl) = true ->
                 applied_log s = lock_log s).
  { intros f fl Hn Hh. unfold applied_log. now rewrite (f_mu _ IM _ _ Hn Hh). }
  assert (Hfree : mu s = None -> applied_log s = lock_log s).
  { intros E. unfold applied_log. now rewrite E. }
  destruct HS as [g cl rest Hn Hm|g cl rest Hn|g cl rest Hn|f b Hn|f Hn|f b Hn Hm|f b Hn|f b Hn|f b Hn|f b Hn];
    try rewrite Hc; cbn [rc flushers].
  - (* ULock *) right. split; [|split; [left; reflexivity | reflexivity]].
    unfold applied_log at 1; cbn [mu users lock_log]. nu. rewrite Nat.eqb_refl, Hn. cbn [u_pc tl].
    now rewrite Hfree.
  - (* UBody *) left. exists g, cl, rest.
    pose proof (u_mu _ IM _ _ Hn eq_refl) as Hmu. destruct (log_hd _ I _ _ _ Hn) as [l Hl].
    assert (Ea : applied_log s = l).
    { unfold applied_log. rewrite Hmu, Hn. cbn [u_pc]. now rewrite Hl. }
    split; [exact Hn|]. split; [|split; reflexivity].
    rewrite Ea. unfold applied_log; cbn [mu users lock_log]. rewrite Hmu. nu. rewrite Nat.eqb_refl, Hn. cbn [u_pc].
    exact Hl.
  - (* UUnlock *) right. split; [|split; [left; reflexivity | reflexivity]].
    pose proof (u_mu _ IM _ _ Hn eq_refl) as Hmu.
    unfold applied_log; cbn [mu lock_log]. rewrite Hmu, Hn. reflexivity.
  - (* Tick *) right. split; [reflexivity|]. split; [left; reflexivity | apply length_upd].
  - (* FDoneArm *) right. split; [reflexivity|]. split; [left; reflexivity | apply length_upd].
  - (* FLock *) right. split; [|split; [left; reflexivity | apply length_upd]].
    unfold applied_log at 1; cbn [mu lock_log]. now rewrite Hfree.
  - (* FCheck *) right. split; [reflexivity|]. split; [left; reflexivity | apply length_upd].
  - (* FCancelRet *) right. split; [|split; [left; reflexivity | apply length_upd]].
    unfold applied_log at 1; cbn [mu lock_log]. now rewrite (Hfl _ _ Hn eq_refl).
  - (* FPersist *) right. split; [reflexivity|]. split; [right; exists f; reflexivity | apply length_upd].
  - (* FUnlock *) right. split; [|split; [left; reflexivity | apply length_upd]].
    unfold applied_log at 1; cbn [mu lock_log]. now rewrite (Hfl _ _ Hn eq_refl).
Qed.

(* ---------------------------------------------------------------- the observables are functions of the applied log *)
Definition has_can (r : recst) : bool := match canceler r with Some _ => true | None => false end.
Definition usamples (r : recst) : list Z := map s_ops (filter by_user (persisted r)).

Definition obs_ok (l : list call) (r : recst) (fls : list flusher) : Prop :=
  (with_flusher c = true -> has_can r = has_canceler l /\ length fls = n_flushers l) /\
  (with_flusher c = false -> fls = []) /\
  usamples r = user_log (with_flusher c) l.

Lemma length_cancel_fl : forall i fls, length (cancel_fl i fls) = length fls.
Proof. intros i fls. unfold cancel_fl. destruct (nth_error fls i); [apply length_upd | reflexivity]. Qed.

Lemma reset_fls_length : forall r fls, length (snd (do_reset r fls)) = length fls.
Proof. intros r fls. unfold do_reset. cbn [snd]. destruct (canceler r); [apply length_cancel_fl | reflexivity]. Qed.

Lemma reset_fls_nil : forall r, snd (do_reset r []) = [].
Proof. intros r. unfold do_reset. cbn [snd]. destruct (canceler r) as [i|]; [|reflexivity]. unfold cancel_fl. destruct i; reflexivity. Qed.

Lemma obs_ok_body : forall g cl l r fls,
  obs_ok l r fls -> ops r = wrap64 (sumZ (cycle_incs l)) -> stamped r = cycle_stamped l ->
  obs_ok (cl :: l) (fst (body c g cl r fls)) (snd (body c g cl r fls)).
Proof.
  intros g cl l r fls (H1 & H2 & H3) Hops Hst. unfold obs_ok, has_can, usamples in *.
  destruct cl; cbn [body].
  - (* Inc *) cbn [fst snd canceler persisted has_canceler n_flushers user_log]. auto.
  - (* Begin *) destruct (canceler r) as [i|] eqn:Ec.
    + cbn [fst snd canceler persisted has_canceler n_flushers user_log]. split; [|auto].
      intros W. destruct (H1 W) as [Ha Hb]. rewrite <- Ha. split; [reflexivity | exact Hb].
    + destruct (with_flusher c) eqn:W; cbn [fst snd canceler persisted has_canceler n_flushers user_log].
      * split; [|split; [discriminate | exact H3]].
        intros _. destruct (H1 eq_refl) as [Ha Hb]. rewrite <- Ha. split; [reflexivity|].
        rewrite app_length, Hb. cbn [length]. lia.
      * split; [discriminate|]. split; [exact H2 | exact H3].
  - (* End *) destruct (with_flusher c) eqn:W; cbn [fst snd canceler persisted persist has_canceler n_flushers user_log app].
    + split; [|split; [discriminate | exact H3]]. intros _. exact (H1 eq_refl).
    + split; [discriminate|]. split; [exact H2|].
      cbn [filter by_user s_by map s_ops]. rewrite H3, Hops. reflexivity.
  - (* SetGauge *) cbn [fst snd canceler persisted has_canceler n_flushers user_log]. auto.
  - (* EndTest *) cbn [has_canceler n_flushers user_log].
    split; [|split].
    + intros W. destruct (H1 W) as [_ Hb]. split; [reflexivity|]. rewrite reset_fls_length. exact Hb.
    + intros W. rewrite (H2 W). apply reset_fls_nil.
    + unfold do_reset. cbn [fst persisted]. rewrite <- Hst.
      destruct (stamped r); cbn [persist persisted filter by_user s_by map s_ops app].
      * rewrite H3, Hops. reflexivity.
      * exact H3.
  - (* Reset *) cbn [has_canceler n_flushers user_log].
    split; [|split].
    + intros W. destruct (H1 W) as [_ Hb]. split; [reflexivity|]. rewrite reset_fls_length. exact Hb.
    + intros W. rewrite (H2 W). apply reset_fls_nil.
    + unfold do_reset. cbn [fst persisted]. exact H3.
Qed.

Definition InvObs (s : state) : Prop := obs_ok (applied_log s) (rc s) (flushers s).

Lemma InvObs_init : forall progs, InvObs (init progs).
Proof.
  intros progs. unfold InvObs, obs_ok, has_can, usamples. cbn.
  split; [intros _; split; reflexivity|]. split; reflexivity.
Qed.

Lemma length_nil : forall {A} (l : list A), length l = O -> l = [].
Proof. intros A [|x l] H; [reflexivity | discriminate H]. Qed.

Lemma InvObs_step : forall s t s', Inv s -> InvObs s -> step c s t = Some s' -> InvObs s'.
Proof.
  intros s t s' [IM [IF IS]] IO H. apply step_Step in H.
  destruct (applied_log_step s t s' IM IS H) as [(g & cl & rest & Hn & Ea & Er & Ef) | (Ea & Er & Ef)].
  - unfold InvObs. rewrite Ea, Er, Ef. apply obs_ok_body; [exact IO | exact (sum_ok _ IS) | exact (stamp_ok _ IS)].
  - unfold InvObs in *. rewrite Ea. destruct IO as (H1 & H2 & H3). unfold obs_ok, has_can, usamples in *.
    split; [|split].
    + intros W. destruct (H1 W) as [Ha Hb]. rewrite Ef. split; [|exact Hb].
      destruct Er as [-> | [f ->]]; exact Ha.
    + intros W. apply length_nil. rewrite Ef, (H2 W). reflexivity.
    + destruct Er as [-> | [f ->]]; [exact H3|]. cbn [persist stamp persisted filter by_user s_by]. exact H3.
Qed.

Lemma InvObs_run : forall sched s s', Inv s -> InvObs s -> run c s sched = Some s' -> InvObs s'.
Proof.
  induction sched as [|t r IH]; intros s s' I IO H; cbn [run] in H.
  - now inversion H; subst.
  - destruct (step c s t) as [s1|] eqn:E; [|discriminate].
    apply (IH s1 s'); [eapply (Inv_step c Hc); eauto | eapply InvObs_step; eauto | exact H].
Qed.

(* ---------------------------------------------------------------- the lock order is an interleaving of the programs *)
Definition LogPerm (progs : list (list call)) (s : state) : Prop :=
  Permutation (lock_log s ++ concat (map pending (users s))) (concat progs).

Lemma LogPerm_init : forall progs, LogPerm progs (init progs).
Proof.
  intros progs. unfold LogPerm, init. cbn [lock_log users app]. rewrite map_map.
  unfold pending. cbn [u_pc u_prog]. rewrite map_id. apply Permutation_refl.
Qed.

Lemma LogPerm_step : forall progs s t s', LogPerm progs s -> step c s t = Some s' -> LogPerm progs s'.
Proof.
  intros progs s t s' P H. apply step_Step in H. unfold LogPerm in *.
  destruct H as [g cl rest Hn Hm|g cl rest Hn|g cl rest Hn|f b Hn|f Hn|f b Hn Hm|f b Hn|f b Hn|f b Hn|f b Hn];
    cbn [lock_log users]; try exact P.
  - destruct (upd_split (users s) g _ (mkU UCrit (cl :: rest)) Hn) as (pre & post & E1 & E2).
    rewrite E2. rewrite E1 in P. rewrite !map_app, !concat_app in *. cbn [map concat] in *.
    unfold pending at 2 in P. unfold pending at 2. cbn [u_pc u_prog tl] in *.
    set (A := lock_log s) in *. set (B := concat (map pending pre)) in *. set (D := concat (map pending post)) in *.
    eapply Permutation_trans; [|exact P].
    replace (A ++ B ++ (cl :: rest) ++ D) with ((A ++ B) ++ cl :: (rest ++ D)) by (rewrite <- app_assoc; reflexivity).
    replace ((cl :: A) ++ B ++ rest ++ D) with (cl :: (A ++ B) ++ (rest ++ D)) by (cbn [app]; rewrite <- app_assoc; reflexivity).
    apply Permutation_middle.
  - rewrite (map_upd_same pending (users s) g _ (mkU UUnlock (cl :: rest)) Hn eq_refl). exact P.
  - rewrite (map_upd_same pending (users s) g _ (mkU UIdle rest) Hn eq_refl). exact P.
Qed.

Lemma LogPerm_run : forall progs sched s s', LogPerm progs s -> run c s sched = Some s' -> LogPerm progs s'.
Proof.
  induction sched as [|t r IH]; intros s s' P H; cbn [run] in H.
  - now inversion H; subst.
  - destruct (step c s t) as [s1|] eqn:E; [|discriminate]. apply (IH s1 s'); [eapply LogPerm_step; eauto | exact H].
Qed.

Lemma pending_returned : forall us, Forall (fun u => u_prog u = []) us -> concat (map pending us) = [].
Proof.
  induction us as [|u us IH]; intros H; [reflexivity|]. inversion H as [|? ? Hu Hr]; subst.
  cbn [map concat]. rewrite (IH Hr). unfold pending. rewrite Hu. destruct (u_pc u); reflexivity.
Qed.

(* one goroutine: the lock order is the program order *)
Lemma single_log_step : forall prog s t s',
  (exists u, users s = [u] /\ prog = rev (lock_log s) ++ pending u) -> step c s t = Some s' ->
  exists u, users s' = [u] /\ prog = rev (lock_log s') ++ pending u.
Proof.
  intros prog s t s' (u & Hu & Hp) H. apply step_Step in H.
  destruct H as [g cl rest Hn Hm|g cl rest Hn|g cl rest Hn|f b Hn|f Hn|f b Hn Hm|f b Hn|f b Hn|f b Hn|f b Hn];
    cbn [lock_log users]; try (exists u; split; [exact Hu | exact Hp]);
    rewrite Hu in Hn |- *; (destruct g as [|g]; [|destruct g; discriminate Hn]);
    cbn [nth_error] in Hn; inversion Hn; subst u; cbn [upd]; eexists; (split; [reflexivity|]);
    unfold pending in *; cbn [u_pc u_prog tl rev] in *.
  - rewrite <- app_assoc. exact Hp.
  - exact Hp.
  - exact Hp.
Qed.

Lemma single_log : forall prog sched s, run c (init [prog]) sched = Some s -> all_user_calls_returned s ->
  lock_log s = rev prog.
Proof.
  intros prog sched s H R.
  assert (G : forall sched s0 s1, (exists u, users s0 = [u] /\ prog = rev (lock_log s0) ++ pending u) ->
                run c s0 sched = Some s1 -> exists u, users s1 = [u] /\ prog = rev (lock_log s1) ++ pending u).
  { induction sched0 as [|t r IH]; intros s0 s1 P0 H0; cbn [run] in H0.
    - now inversion H0; subst.
    - destruct (step c s0 t) as [s2|] eqn:E; [|discriminate].
      apply (IH s2 s1); [eapply single_log_step; eauto | exact H0]. }
  destruct (G sched (init [prog]) s) as (u & Hu & Hp); [|exact H|].
  - exists (mkU UIdle prog). split; [reflexivity|]. reflexivity.
  - unfold all_user_calls_returned in R. rewrite Hu in R. apply Forall_inv in R.
    unfold pending in Hp. rewrite R in Hp.
    assert (E : prog = rev (lock_log s)) by (destruct (u_pc u); cbn [tl] in Hp; rewrite app_nil_r in Hp; exact Hp).
    rewrite E, rev_involutive. reflexivity.
Qed.

(* ---------------------------------------------------------------- quiescent states *)
Definition quiescent (s : state) : Prop := forall t, is_goroutine t = true -> step c s t = None.

Lemma run_repeat_enabled : forall s t n s', (1 <= n)%nat -> run c s (repeat t n) = Some s' -> step c s t <> None.
Proof.
  intros s t n s' Hn H. destruct n as [|n]; [lia|]. cbn [repeat run] in H. intros E. rewrite E in H. discriminate.
Qed.

Lemma quiescent_returned : forall s, Inv s -> quiescent s -> all_user_calls_returned s.
Proof.
  intros s I Q. destruct (all_returnedb s) eqn:E; [apply all_returnedb_iff; exact E|]. exfalso.
  assert (Hnr : ~ all_user_calls_returned s) by (intros H; apply all_returnedb_iff in H; congruence).
  destruct (progress c Hc s I Hnr) as [[g H] | (f & n & s' & _ & Hn & Hr & _)].
  - apply H. apply Q. reflexivity.
  - apply (run_repeat_enabled s (F f) n s'); [lia | exact Hr | apply Q; reflexivity].
Qed.

Lemma quiescent_free : forall s, Inv s -> quiescent s -> mu s = None.
Proof.
  intros s I Q. destruct (mu s) as [o|] eqn:Hm; [|reflexivity]. exfalso.
  destruct (owner_releases c Hc s o I Hm) as (_ & n & s' & Hn & Hr & _).
  apply (run_repeat_enabled s (tid_of o) n s'); [lia | exact Hr | apply Q; destruct o; reflexivity].
Qed.

Lemma quiescent_cancelled_done : forall s f fl, Inv s -> quiescent s ->
  nth_error (flushers s) f = Some fl -> f_cancelled fl = true -> f_pc fl = FDone.
Proof.
  intros s f fl I Q Hn Hcn. pose proof (quiescent_free s I Q) as Hm.
  pose proof (Q (F f) eq_refl) as E. cbn [step] in E. rewrite Hn in E.
  destruct fl as [pc b]. cbn [f_pc f_cancelled] in *. subst b.
  destruct pc; try discriminate E; [rewrite Hm in E; discriminate E | reflexivity].
Qed.

(* the last call that acquired the mutex was EndTest or Reset *)
Definition closed_log (s : state) : Prop := exists cl l, lock_log s = cl :: l /\ is_resetb cl = true.

Lemma closed_no_canceler : forall s, Inv s -> quiescent s -> closed_log s -> canceler (rc s) = None.
Proof.
  intros s I Q (cl & l & Hl & Hcl). pose proof (quiescent_free s I Q) as Hm.
  destruct I as [_ [_ IS]]. destruct (canceler (rc s)) as [i|] eqn:Ec; [|reflexivity]. exfalso.
  pose proof (can_stamp _ IS _ Ec) as Hs. unfold applied_log in Hs. rewrite Hm, Hl in Hs.
  destruct cl; discriminate.
Qed.

Lemma closed_all_done : forall s, Inv s -> quiescent s -> closed_log s ->
  forall f fl, nth_error (flushers s) f = Some fl -> f_pc fl = FDone.
Proof.
  intros s I Q Cl f fl Hn. apply (quiescent_cancelled_done s f fl I Q Hn).
  destruct (no_canceler_all_cancelled s I (closed_no_canceler s I Q Cl)) as [_ H]. exact (H f fl Hn).
Qed.

Lemma closed_no_live : forall s, Inv s -> quiescent s -> closed_log s -> live_flushers s = O.
Proof.
  intros s I Q Cl. unfold live_flushers. rewrite filter_none; [reflexivity|].
  intros fl Hin. destruct (In_nth_error _ _ Hin) as [f Hf]. rewrite (closed_all_done s I Q Cl f fl Hf). reflexivity.
Qed.

(* ... and no flusher event is possible any more: nothing can be observed "late" *)
Lemma closed_no_flusher_event : forall s, Inv s -> quiescent s -> closed_log s ->
  forall f, step c s (Tick f) = None /\ step c s (F f) = None.
Proof.
  intros s I Q Cl f. cbn [step]. destruct (nth_error (flushers s) f) as [fl|] eqn:Hn; [|split; reflexivity].
  rewrite (closed_all_done s I Q Cl f fl Hn). split; reflexivity.
Qed.

(* ---------------------------------------------------------------- the observation of a complete run *)
Record Complete (progs : list (list call)) (s : state) : Prop := {
  co_inv : Inv s; co_obs : InvObs s; co_perm : Permutation (lock_log s) (concat progs);
  co_ret : all_returnedb s = true; co_free : applied_log s = lock_log s }.

Lemma complete_run : forall progs sched s, run c (init progs) sched = Some s -> quiescent s -> Complete progs s.
Proof.
  intros progs sched s H Q.
  assert (I : Inv s) by (eapply (Inv_run c Hc); [apply Inv_init | exact H]).
  pose proof (quiescent_returned s I Q) as R.
  constructor.
  - exact I.
  - eapply InvObs_run; [apply Inv_init | apply InvObs_init | exact H].
  - pose proof (LogPerm_run progs sched _ _ (LogPerm_init progs) H) as P. unfold LogPerm in P.
    rewrite (pending_returned _ R), app_nil_r in P. exact P.
  - apply all_returnedb_iff. exact R.
  - unfold applied_log. rewrite (quiescent_free s I Q). reflexivity.
Qed.

(* ---------------------------------------------------------------- c16_ok_sys *)
Lemma c16_sys_oracle_sound : forall prog sched s,
  with_flusher c = true ->
  run c (init [prog]) sched = Some s -> quiescent s ->
  (exists p cl, prog = p ++ [cl] /\ is_resetb cl = true) ->
  c16_ok_sys (n_flushers (rev prog)) prog (obs_of (Some s)) = true /\
  (forall f, step c s (Tick f) = None /\ step c s (F f) = None).
Proof.
  intros prog sched s W H Q (p & cl & Hp & Hcl).
  destruct (complete_run [prog] sched s H Q) as [I IO _ R Ea].
  pose proof (single_log prog sched s H (quiescent_returned s I Q)) as Hl.
  assert (Cl : closed_log s).
  { exists cl, (rev p). split; [|exact Hcl]. rewrite Hl, Hp, rev_app_distr. reflexivity. }
  split; [|exact (closed_no_flusher_event s I Q Cl)].
  unfold InvObs in IO. rewrite Ea, Hl in IO. destruct IO as (H1 & _ & H3). destruct (H1 W) as [_ Hn].
  unfold c16_ok_sys, obs_of. cbn [o_blocked o_live o_late o_flushers o_end].
  rewrite R, (closed_no_live s I Q Cl), Hn, !Nat.eqb_refl. cbn [negb andb].
  unfold usamples in H3. rewrite H3, W, user_log_spec0. apply zlist_eqb_refl.
Qed.

(* ---------------------------------------------------------------- c16_ok_stress *)
Definition stress_obs_of (s : state) : stress_obs :=
  mkSObs (negb (all_returnedb s)) (live_flushers s) O O
         (if with_flusher c then wrap64 (sumZ (user_samples s))
          else match user_samples s with x :: _ => x | [] => 0 end).

(* interval recorders *)
Lemma c16_stress_oracle_sound : forall progs sched s,
  with_flusher c = true ->
  run c (init progs) sched = Some s -> quiescent s ->
  closed_log s -> all_counted false false (rev (lock_log s)) = true ->
  c16_ok_stress (incs_of (concat progs)) (n_resets (concat progs)) (length (flushers s)) (stress_obs_of s) = true /\
  (forall f, step c s (Tick f) = None /\ step c s (F f) = None).
Proof.
  intros progs sched s W H Q Cl AC.
  destruct (complete_run progs sched s H Q) as [I IO P R Ea].
  split; [|exact (closed_no_flusher_event s I Q Cl)].
  unfold InvObs in IO. rewrite Ea in IO. destruct IO as (H1 & _ & H3). destruct (H1 W) as [Hcan Hn].
  unfold c16_ok_stress, stress_obs_of. cbn [so_blocked so_live so_late so_overlap so_total].
  rewrite R, (closed_no_live s I Q Cl), W. cbn [negb andb Nat.eqb].
  assert (Hle : Nat.leb (length (flushers s)) (n_resets (concat progs)) = true).
  { apply Nat.leb_le. rewrite Hn, <- (resets_perm _ _ P).
    pose proof (n_flushers_le (lock_log s)) as Hb. rewrite <- Hcan in Hb.
    unfold has_can in Hb. rewrite (closed_no_canceler s I Q Cl) in Hb. lia. }
  rewrite Hle. cbn [andb]. apply Z.eqb_eq.
  unfold user_samples. fold (usamples (rc s)). rewrite H3, W.
  rewrite <- sumZ_rev. rewrite <- (rev_involutive (lock_log s)) at 1. rewrite user_log_spec0.
  rewrite (all_counted_sum _ false false 0 AC (fun _ => eq_refl)), Z.add_0_l.
  f_equal. apply incs_perm. eapply Permutation_trans; [apply Permutation_sym, Permutation_rev | exact P].
Qed.

(* synchronized wrapper over the raw recorder: the closing EndTest persists the sum of all increments *)
Lemma c16_stress_sync_oracle_sound : forall progs sched s l,
  with_flusher c = false ->
  run c (init progs) sched = Some s -> quiescent s ->
  lock_log s = EndTest :: l -> n_resets l = O -> cycle_stamped l = true ->
  c16_ok_stress (incs_of (concat progs)) (n_resets (concat progs)) (length (flushers s)) (stress_obs_of s) = true.
Proof.
  intros progs sched s l W H Q Hl Hnr Hst.
  destruct (complete_run progs sched s H Q) as [I IO P R Ea].
  unfold InvObs in IO. rewrite Ea in IO. destruct IO as (_ & H2 & H3).
  unfold c16_ok_stress, stress_obs_of, live_flushers. cbn [so_blocked so_live so_late so_overlap so_total].
  rewrite R, (H2 W), W. cbn [negb andb Nat.eqb filter length Nat.leb]. apply Z.eqb_eq.
  unfold user_samples. fold (usamples (rc s)). rewrite H3, W, Hl. cbn [user_log]. rewrite Hst. cbn [app].
  rewrite (cycle_incs_all l Hnr). f_equal.
  rewrite <- (incs_perm _ _ P), Hl. reflexivity.
Qed.

End Sound.

(* the number of flushers the systematic program of the harness starts *)
Lemma sys_prog_flushers : forall use_reset a b a2 b2, n_flushers (rev (sys_prog use_reset a b a2 b2)) = 2%nat.
Proof. intros [|] a b a2 b2; reflexivity. Qed.

Lemma sys_prog_closed : forall use_reset a b a2 b2,
  exists p cl, sys_prog use_reset a b a2 b2 = p ++ [cl] /\ is_resetb cl = true.
Proof.
  intros use_reset a b a2 b2. unfold sys_prog.
  exists (sys_cycle_prog use_reset a b ++ sys_cycle_prog use_reset a2 b2 ++ [End]), EndTest.
  split; [|reflexivity]. rewrite <- !app_assoc. reflexivity.
Qed.

(* the systematic program of the harness: two flushers *)
Lemma c16_sys_prog_oracle_sound : forall c,
  flusher_unlocks_on_cancel c = true -> with_flusher c = true ->
  forall use_reset a b a2 b2 sched s,
  run c (init [sys_prog use_reset a b a2 b2]) sched = Some s -> quiescent c s ->
  c16_ok_sys 2 (sys_prog use_reset a b a2 b2) (obs_of (Some s)) = true /\
  (forall f, step c s (Tick f) = None /\ step c s (F f) = None).
Proof.
  intros c Hc W use_reset a b a2 b2 sched s H Q.
  rewrite <- (sys_prog_flushers use_reset a b a2 b2).
  exact (c16_sys_oracle_sound c Hc _ sched s W H Q (sys_prog_closed use_reset a b a2 b2)).
Qed.

(* non-vacuity of the stress statement: two goroutines, goroutine 1's increment acquires the mutex
   between goroutine 0's Begin and Inc, the flusher persists once (12) before EndIteration, EndTest
   persists 12 = 5 + 7; the run ends quiescent, closed, nothing dropped *)
Definition ex_progs : list (list call) := [[Begin; Inc 5; End; EndTest]; [Inc 7]].
Definition ex_sched : list tid :=
  call_steps 0 ++ [U 1; U 1; U 1] ++ call_steps 0 ++ [Tick 0; F 0; F 0; F 0; F 0] ++ call_steps 0 ++ call_steps 0 ++ [F 0].

Lemma c16_stress_example : forall c, flusher_unlocks_on_cancel c = true -> with_flusher c = true ->
  exists s, run c (init ex_progs) ex_sched = Some s /\ quiescent c s /\ closed_log s /\
            all_counted false false (rev (lock_log s)) = true /\
            incs_of (concat ex_progs) = [5; 7] /\ map s_ops (persisted (rc s)) = [12; 12] /\
            length (flushers s) = 1%nat.
Proof.
  intros [u w] Hu Hw. cbn in Hu, Hw. subst u w.
  eexists. split; [vm_compute; reflexivity|]. split; [|split; [|split; [|split; [|split]]]].
  - intros t Ht. destruct t as [g|f|f]; [| |discriminate Ht].
    + destruct g as [|[|[|g]]]; reflexivity.
    + destruct f as [|[|f]]; reflexivity.
  - eexists _, _. split; reflexivity.
  - reflexivity.
  - reflexivity.
  - reflexivity.
  - reflexivity.
Qed.

Lemma c16_serializable : forall c, flusher_unlocks_on_cancel c = true ->
  forall progs sched s,
  run c (init progs) sched = Some s -> quiescent c s ->
  Permutation (lock_log s) (concat progs) /\ all_returnedb s = true /\ mu s = None /\
  map s_ops (filter by_user (persisted (rc s))) = user_log (with_flusher c) (lock_log s) /\
  (with_flusher c = true -> length (flushers s) = n_flushers (lock_log s)) /\
  (forall p, rev (user_log true (rev p)) = spec_end_samples false 0 p).
Proof.
  intros c Hc progs sched s H Q.
  destruct (complete_run c Hc progs sched s H Q) as [I IO P R Ea].
  unfold InvObs in IO. rewrite Ea in IO. destruct IO as (H1 & _ & H3).
  split; [exact P|]. split; [exact R|]. split; [exact (quiescent_free c Hc s I Q)|].
  split; [exact H3|]. split; [intros W; exact (proj2 (H1 W)) | exact user_log_spec0].
Qed.
