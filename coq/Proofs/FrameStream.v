(* C09: streaming collectors and a writer with a fault schedule (Model/Collector.v)
   against the byte-level reader (Model/Frame.v). *)
From Coq Require Import ZArith NArith List Bool Lia Arith.
From FV.Model Require Import Bytes Bson Metrics Codec Collector Wf RoundTrip CollectorOk Validate Frame Views FrameOk.
From FV.Proofs Require Import BytesProofs BsonProofs MetricsProofs CodecChunk CodecProofs CollectorBase
  CollectorKinds CollectorInv CollectorLog FrameValidate FrameProofs.
Import ListNotations.
Open Scope Z_scope.

(* ------------------------------------------------------------------ a write under a schedule without short writes *)
Lemma emitted_strip : forall w, emitted (strip_w w) = emitted w.
Proof. reflexivity. Qed.

Lemma no_short_tl : forall fs, no_short fs -> no_short (tl fs).
Proof. intros [|f fs] H; [exact H|]. inversion H; assumption. Qed.

Lemma w_write_cases : forall w p, no_short (w_faults w) ->
  (exists w1, w_write w p = (w1, true) /\ w_log w1 = w_log w ++ [WFull p] /\
              w_write (strip_w w) p = (strip_w w1, true) /\ no_short (w_faults w1)) \/
  (exists w1, w_write w p = (w1, false) /\ strip_w w1 = strip_w w /\ no_short (w_faults w1) /\
              (length (w_faults w1) < length (w_faults w))%nat).
Proof.
  intros [log fs cl] p H. unfold w_write, strip_w. cbn [w_faults w_log w_closed] in *.
  destruct fs as [|[| |k] fs].
  - left. eexists. split; [reflexivity|]. cbn [w_log w_faults tl]. repeat split. constructor.
  - left. eexists. split; [reflexivity|]. cbn [w_log w_faults tl]. repeat split. inversion H; assumption.
  - right. eexists. split; [reflexivity|]. cbn [w_log w_faults w_closed]. split; [reflexivity|].
    split; [inversion H; assumption|]. cbn [length]. lia.
  - inversion H as [|x y Hs]. discriminate Hs.
Qed.

Section FlushSim.
Context {A : Type} (info : A -> Z * Z) (res : A -> option outp) (rst : A -> A).

(* the three outcomes of FlushCollector *)
Definition fl_none (c : A) (w : writer) (r : A * writer * bool) : Prop :=
  exists ok, r = (c, w, ok) /\ (snd (info c) = 0 \/ res c = None) /\
             flush_with info res rst c (strip_w w) = (c, strip_w w, ok).
Definition fl_wrote (c : A) (w : writer) (r : A * writer * bool) : Prop :=
  exists p w1, r = (rst c, w1, true) /\ snd (info c) <> 0 /\ res c = Some p /\
               w_log w1 = w_log w ++ [WFull p] /\
               flush_with info res rst c (strip_w w) = (rst c, strip_w w1, true) /\ no_short (w_faults w1).
Definition fl_failed (c : A) (w : writer) (r : A * writer * bool) : Prop :=
  exists w1, r = (c, w1, false) /\ snd (info c) <> 0 /\ res c <> None /\
             strip_w w1 = strip_w w /\ no_short (w_faults w1) /\ (length (w_faults w1) < length (w_faults w))%nat.

Lemma flush_with_out : forall c w, no_short (w_faults w) ->
  let r := flush_with info res rst c w in fl_none c w r \/ fl_wrote c w r \/ fl_failed c w r.
Proof.
  intros c w H r. subst r. unfold flush_with.
  destruct (snd (info c) =? 0) eqn:E0.
  - left. exists true. split; [reflexivity|]. split; [left; apply Z.eqb_eq; exact E0|].
    unfold flush_with. rewrite E0. reflexivity.
  - apply Z.eqb_neq in E0. destruct (res c) as [p|] eqn:Er.
    + destruct (w_write_cases w p H) as [(w1 & Hw & Hlog & Hs & Hns)|(w1 & Hw & Hst & Hns & Hlen)]; rewrite Hw.
      * right. left. exists p, w1. unfold flush_with. rewrite (proj2 (Z.eqb_neq _ _) E0), Er, Hs. repeat split; assumption.
      * right. right. exists w1. repeat split; try assumption. rewrite Er. discriminate.
    + left. exists false. split; [reflexivity|]. split; [right; exact Er|].
      unfold flush_with. rewrite (proj2 (Z.eqb_neq _ _) E0), Er. reflexivity.
Qed.
End FlushSim.

(* ------------------------------------------------------------------ one operation *)
Section Sim.
Variable deflate : bytes -> bytes.

(* either the operation behaves as on the fault-free writer (and wrote at most the
   collector's Resolve output), or a Write failed: the operation reports an error
   and changes neither the collector nor the log *)
Definition sim_same {C R : Type} (run0 : writer -> C * writer * R) (resolve : option outp) (w : writer)
           (r : C * writer * R) : Prop :=
  exists c1 w1 x, r = (c1, w1, x) /\ run0 (strip_w w) = (c1, strip_w w1, x) /\ no_short (w_faults w1) /\
    (w1 = w \/ exists p, resolve = Some p /\ w_log w1 = w_log w ++ [WFull p]).
Definition sim_fail {C R : Type} (fail : R -> bool) (c : C) (w : writer) (r : C * writer * R) : Prop :=
  exists w1 x, r = (c, w1, x) /\ fail x = true /\ strip_w w1 = strip_w w /\ no_short (w_faults w1) /\
    (length (w_faults w1) < length (w_faults w))%nat.

Definition is_rflush (r : ares) : bool := match r with RFlush => true | _ => false end.

Lemma sc_tail_w : forall s (w : writer) d now, exists s' r, forall w', sc_add_tail s w' d now = (s', w', r).
Proof.
  intros s w d now. unfold sc_add_tail. destruct (in_add (sc_inner s) d now) as [i' r].
  destruct r; eexists; eexists; intros w'; reflexivity.
Qed.

(* streamingCollector.Add; in the failing case a flush was due and had something to write *)
Lemma sc_add_sim : forall s w d now, no_short (w_faults w) ->
  let r := sc_add deflate s w d now in
  sim_same (fun w' => sc_add deflate s w' d now) (in_resolve deflate (sc_inner s)) w r \/
  (sim_fail is_rflush s w r /\ sc_max s <= sc_count s /\ snd (in_info (sc_inner s)) <> 0 /\
   in_resolve deflate (sc_inner s) <> None).
Proof.
  intros s w d now H r. subst r. rewrite !sc_add_eq.
  destruct (sc_max s <=? sc_count s) eqn:Efull.
  - unfold sc_flush.
    destruct (flush_with_out (fun s => in_info (sc_inner s)) (fun s => in_resolve deflate (sc_inner s)) sc_reset s w H)
      as [(ok & Hr & _ & Hs)|[(p & w1 & Hr & Hi & Hres & Hlog & Hs & Hns)|(w1 & Hr & Hi & Hres & Hst & Hns & Hlen)]];
      rewrite Hr.
    + left. destruct ok; cbn [negb].
      * destruct (sc_tail_w s w d now) as (s' & x & Ht). rewrite Ht.
        exists s', w, x. split; [reflexivity|]. rewrite sc_add_eq, Efull. unfold sc_flush. rewrite Hs. cbn [negb].
        rewrite Ht. repeat split; [exact H|left; reflexivity].
      * exists s, w, RFlush. split; [reflexivity|]. rewrite sc_add_eq, Efull. unfold sc_flush. rewrite Hs. cbn [negb].
        repeat split; [exact H|left; reflexivity].
    + left. cbn [negb]. destruct (sc_tail_w (sc_reset s) w1 d now) as (s' & x & Ht). rewrite Ht.
      exists s', w1, x. split; [reflexivity|]. rewrite sc_add_eq, Efull. unfold sc_flush. rewrite Hs. cbn [negb].
      rewrite Ht. repeat split; [exact Hns|right; exists p; split; assumption].
    + right. cbn [negb]. split; [|split; [apply Z.leb_le; exact Efull|split; assumption]].
      exists w1, RFlush. repeat split; assumption.
  - left. cbn [negb]. destruct (sc_tail_w s w d now) as (s' & x & Ht). rewrite Ht.
    exists s', w, x. split; [reflexivity|]. rewrite sc_add_eq, Efull. cbn [negb]. rewrite Ht.
    repeat split; [exact H|left; reflexivity].
Qed.

Lemma sdcoll_eta : forall c, mkSdcoll (sd_hash c) (sd_mcount c) (sd_s c) = c.
Proof. intros []. reflexivity. Qed.

(* streamingDynamicCollector.Add *)
Lemma sd_add_sim : forall c w d now, no_short (w_faults w) -> 1 <= sc_max (sd_s c) ->
  let r := sd_add deflate c w d now in
  sim_same (fun w' => sd_add deflate c w' d now) (in_resolve deflate (sc_inner (sd_s c))) w r \/
  sim_fail is_rflush c w r.
Proof.
  intros c w d now H Hmax r. subst r. rewrite !sd_add_eq.
  destruct (sd_changed c d) eqn:Ech.
  - destruct (0 <? sc_count (sd_s c)) eqn:Ecnt.
    + unfold sd_flush.
      destruct (flush_with_out (fun c => in_info (sc_inner (sd_s c))) (fun c => in_resolve deflate (sc_inner (sd_s c))) sd_reset c w H)
        as [(ok & Hr & Hwhy & Hs)|[(p & w1 & Hr & Hi & Hres & Hlog & Hs & Hns)|(w1 & Hr & Hi & Hres & Hst & Hns & Hlen)]];
        rewrite Hr.
      * (* nothing to write: the later flush of the streaming collector has nothing to write either *)
        destruct ok; cbn [negb sd_s sd_hash sd_mcount].
        -- destruct (sc_add_sim (sd_s c) w d now H) as [(s1 & w1 & x & Hr1 & Hs1 & Hns1 & Hw1)|[_ (_ & Hi & Hres)]].
           ++ left. rewrite Hr1. eexists _, w1, x. split; [reflexivity|].
              rewrite sd_add_eq, Ech, Ecnt. unfold sd_flush. rewrite Hs. cbn [negb sd_s sd_hash sd_mcount].
              rewrite Hs1. repeat split; assumption.
           ++ exfalso. destruct Hwhy as [Hz|Hn]; [apply Hi; exact Hz|apply Hres; exact Hn].
        -- left. exists c, w, RFlush. split; [reflexivity|].
           rewrite sd_add_eq, Ech, Ecnt. unfold sd_flush. rewrite Hs. cbn [negb].
           repeat split; [exact H|left; reflexivity].
      * (* wrote: the streaming collector is empty now and has room *)
        left. cbn [negb sd_s sd_hash sd_mcount sd_reset].
        assert (Eroom : sc_max (sc_reset (sd_s c)) <=? sc_count (sc_reset (sd_s c)) = false).
        { unfold sc_reset. cbn [sc_max sc_count]. apply Z.leb_gt. lia. }
        rewrite sc_add_eq, Eroom. cbn [negb].
        destruct (sc_tail_w (sc_reset (sd_s c)) w1 d now) as (s' & x & Ht). rewrite Ht.
        eexists _, w1, x. split; [reflexivity|].
        rewrite sd_add_eq, Ech, Ecnt. unfold sd_flush. rewrite Hs. cbn [negb sd_s sd_hash sd_mcount sd_reset].
        rewrite sc_add_eq, Eroom. cbn [negb]. rewrite Ht.
        repeat split; [exact Hns|right; exists p; split; assumption].
      * right. cbn [negb]. exists w1, RFlush. repeat split; assumption.
    + (* count = 0: no flush here, and none in the streaming collector *)
      cbn [negb sd_s sd_hash sd_mcount]. apply Z.ltb_ge in Ecnt.
      assert (Eroom : sc_max (sd_s c) <=? sc_count (sd_s c) = false) by (apply Z.leb_gt; lia).
      left. rewrite sc_add_eq, Eroom. cbn [negb].
      destruct (sc_tail_w (sd_s c) w d now) as (s' & x & Ht). rewrite Ht.
      eexists _, w, x. split; [reflexivity|].
      rewrite sd_add_eq, Ech. replace (0 <? sc_count (sd_s c)) with false by (symmetry; apply Z.ltb_ge; exact Ecnt).
      cbn [negb sd_s sd_hash sd_mcount]. rewrite sc_add_eq, Eroom. cbn [negb]. rewrite Ht.
      repeat split; [exact H|left; reflexivity].
  - cbn [negb].
    destruct (sc_add_sim (sd_s c) w d now H) as [(s1 & w1 & x & Hr1 & Hs1 & Hns1 & Hw1)|[(w1 & x & Hr1 & Hx & Hst & Hns & Hlen) _]];
      rewrite Hr1.
    + left. eexists _, w1, x. split; [reflexivity|]. rewrite sd_add_eq, Ech. cbn [negb]. rewrite Hs1.
      repeat split; assumption.
    + right. exists w1, x. rewrite sdcoll_eta. repeat split; assumption.
Qed.
End Sim.

Section StepSim.
Variable deflate : bytes -> bytes.

Definition max_ok (c : coll) : Prop := match c with CSDyn x => 1 <= sc_max (sd_s x) | _ => True end.

Definition step_same (c : coll) (w : writer) (o : op) (r : (coll * writer) * obs) : Prop :=
  exists c1 w1 ob, r = ((c1, w1), ob) /\ step deflate (c, strip_w w) o = ((c1, strip_w w1), ob) /\
    no_short (w_faults w1) /\
    (w1 = w \/ exists p, c_resolve deflate c = Some p /\ w_log w1 = w_log w ++ [WFull p]).
Definition step_fail (c : coll) (w : writer) (r : (coll * writer) * obs) : Prop :=
  exists w1 ob, r = ((c, w1), ob) /\ failed_obs ob = true /\ strip_w w1 = strip_w w /\
    no_short (w_faults w1) /\ (length (w_faults w1) < length (w_faults w))%nat.

Lemma step_sim : forall c w o, no_short (w_faults w) -> max_ok c ->
  step_same c w o (step deflate (c, w) o) \/ step_fail c w (step deflate (c, w) o).
Proof.
  intros c w o H Hmax. destruct o as [d now| | | | |m|]; cbn [step].
  - (* Add *)
    destruct c as [b|b|x|s|x|u]; cbn [c_add].
    + left. destruct (bc_add b d now) as [b' r] eqn:E. eexists _, w, _. split; [reflexivity|].
      split; [cbn [step c_add]; rewrite E; reflexivity|]. split; [exact H|left; reflexivity].
    + left. destruct (ba_add b d now) as [b' r] eqn:E. eexists _, w, _. split; [reflexivity|].
      split; [cbn [step c_add]; rewrite E; reflexivity|]. split; [exact H|left; reflexivity].
    + left. destruct (dy_add x d now) as [b' r] eqn:E. eexists _, w, _. split; [reflexivity|].
      split; [cbn [step c_add]; rewrite E; reflexivity|]. split; [exact H|left; reflexivity].
    + destruct (sc_add_sim deflate s w d now H) as [(s1 & w1 & r & Hr & Hs & Hns & Hw)|[(w1 & r & Hr & Hx & Hst & Hns & Hlen) _]];
        rewrite Hr.
      * left. eexists _, w1, _. split; [reflexivity|]. split; [cbn [step c_add]; rewrite Hs; reflexivity|].
        split; assumption.
      * right. eexists w1, _. split; [reflexivity|]. destruct r; try discriminate Hx. repeat split; assumption.
    + destruct (sd_add_sim deflate x w d now H Hmax) as [(s1 & w1 & r & Hr & Hs & Hns & Hw)|(w1 & r & Hr & Hx & Hst & Hns & Hlen)];
        rewrite Hr.
      * left. eexists _, w1, _. split; [reflexivity|]. split; [cbn [step c_add]; rewrite Hs; reflexivity|].
        split; assumption.
      * right. eexists w1, _. split; [reflexivity|]. destruct r; try discriminate Hx. repeat split; assumption.
    + left. destruct (uc_add u d) as [b' r] eqn:E. eexists _, w, _. split; [reflexivity|].
      split; [cbn [step c_add]; rewrite E; reflexivity|]. split; [exact H|left; reflexivity].
  - (* Add of unreadable input *)
    destruct c as [b|b|x|s|x|u]; cbn [c_add_bad];
      try (left; eexists _, w, _; split; [reflexivity|]; split; [reflexivity|]; split; [exact H|left; reflexivity]).
    destruct (sc_max s <=? sc_count s) eqn:Efull.
    + unfold sc_flush.
      destruct (flush_with_out (fun s => in_info (sc_inner s)) (fun s => in_resolve deflate (sc_inner s)) sc_reset s w H)
        as [(ok & Hr & _ & Hs)|[(p & w1 & Hr & Hi & Hres & Hlog & Hs & Hns)|(w1 & Hr & Hi & Hres & Hst & Hns & Hlen)]];
        rewrite Hr.
      * left. eexists _, w, _. split; [reflexivity|].
        split; [cbn [step c_add_bad]; rewrite Efull; unfold sc_flush; rewrite Hs; reflexivity|].
        split; [exact H|left; reflexivity].
      * left. eexists _, w1, _. split; [reflexivity|].
        split; [cbn [step c_add_bad]; rewrite Efull; unfold sc_flush; rewrite Hs; reflexivity|].
        split; [exact Hns|right; exists p; split; assumption].
      * right. eexists w1, _. repeat split; assumption.
    + left. eexists _, w, _. split; [reflexivity|]. split; [cbn [step c_add_bad]; rewrite Efull; reflexivity|].
      split; [exact H|left; reflexivity].
  - (* Resolve *) left. eexists _, w, _. split; [reflexivity|]. split; [reflexivity|]. split; [exact H|left; reflexivity].
  - (* Reset *) left. eexists _, w, _. split; [reflexivity|]. split; [reflexivity|]. split; [exact H|left; reflexivity].
  - (* Flush *)
    rewrite !c_flush_eq.
    destruct (flush_with_out c_info (c_resolve deflate) c_reset c w H)
      as [(ok & Hr & _ & Hs)|[(p & w1 & Hr & Hi & Hres & Hlog & Hs & Hns)|(w1 & Hr & Hi & Hres & Hst & Hns & Hlen)]];
      rewrite Hr.
    + left. eexists _, w, _. split; [reflexivity|]. split; [cbn [step]; rewrite c_flush_eq, Hs; reflexivity|].
      split; [exact H|left; reflexivity].
    + left. eexists _, w1, _. split; [reflexivity|]. split; [cbn [step]; rewrite c_flush_eq, Hs; reflexivity|].
      split; [exact Hns|right; exists p; split; assumption].
    + right. eexists w1, _. repeat split; assumption.
  - (* SetMetadata *) left. eexists _, w, _. split; [reflexivity|]. split; [reflexivity|]. split; [exact H|left; reflexivity].
  - (* Info *) left. destruct (c_info c) as [mm ss] eqn:E. eexists _, w, _. split; [reflexivity|].
    split; [cbn [step]; rewrite E; reflexivity|]. split; [exact H|left; reflexivity].
Qed.
End StepSim.

(* ------------------------------------------------------------------ C09_faults_error *)
Lemma step_obs_kind : forall deflate st o,
  match snd (step deflate st o) with
  | BAdd _ => opk_of o = KAdd
  | BResolve _ => opk_of o = KResolve
  | BReset => opk_of o = KReset
  | BFlush _ => opk_of o = KFlush
  | BSetMeta => opk_of o = KSetMeta
  | BInfo _ _ => opk_of o = KInfo
  end.
Proof.
  intros deflate [c w] o. destruct o as [d now| | | | |m|]; cbn [step opk_of].
  - destruct (c_add deflate c w d now) as [[c' w'] r]. reflexivity.
  - destruct (c_add_bad deflate c w) as [[c' w'] r]. reflexivity.
  - reflexivity.
  - reflexivity.
  - destruct (c_flush deflate c w) as [[c' w'] ok]. reflexivity.
  - reflexivity.
  - destruct (c_info c). reflexivity.
Qed.

Definition log_full (w : writer) : Prop := Forall (fun r => exists ds, r = WFull (OFtdc ds)) (w_log w).

Section Faults.
Variable deflate : bytes -> bytes.
Variable inflate : bytes -> option bytes.
Hypothesis inflate_deflate : forall p, inflate (deflate p) = Some p.
Variable D : doc -> Prop.

Lemma holds_max_ok : forall k n c gsp, 1 <= n -> holds D k n c gsp -> max_ok c.
Proof.
  intros k n c gsp Hn H. destruct c as [b|b|x|s|x|u]; try exact I. cbn [max_ok].
  destruct k; cbn [holds] in H; try contradiction.
  destruct H as (g & [(b & _ & Hm & _) _] & _). rewrite Hm. exact Hn.
Qed.

Lemma c09_from : forall k n, compressing k = true -> env_ok D k -> 1 <= n < 2 ^ 31 ->
  forall ops c w gsw gsp, INV deflate D k n (c, strip_w w) gsw gsp -> no_short (w_faults w) ->
  log_full w -> Forall (op_ok D) ops ->
  c09_run_from deflate inflate (cap_of k n) (c, w) (map strip_doc (contents gsw gsp)) ops = true.
Proof.
  intros k n Hk Henv Hn. induction ops as [|o ops IH]; intros c w gsw gsp Hinv Hns Hlf Hops; [reflexivity|].
  inversion Hops as [|x y Hop Hops']; subst.
  assert (Hmax : max_ok c). { destruct Hinv as (_ & _ & Hh). apply (holds_max_ok k n c gsp ltac:(lia) Hh). }
  assert (Hres : forall p, c_resolve deflate c = Some p -> exists ds, p = OFtdc ds).
  { intros p Hp. destruct Hinv as (_ & _ & Hh). cbn [fst] in Hh. destruct gsp as [|g0 gsp0].
    - rewrite (holds_resolve_nil deflate D k n c Hh) in Hp. discriminate Hp.
    - destruct (holds_resolve deflate D k n c _ Henv Hh ltac:(discriminate)) as (out & Ho & _).
      rewrite Ho in Hp. injection Hp as <-. exists out. reflexivity. }
  cbn [c09_run_from].
  pose proof (step_obs_kind deflate (c, w) o) as Hkind.
  destruct (step_sim deflate c w o Hns Hmax) as [(c1 & w1 & ob & Hr & Hs & Hns1 & Hw)|(w1 & ob & Hr & Hfail & Hst & Hns1 & Hlen)];
    rewrite Hr in *; cbn [fst snd] in *.
  - (* as on the fault-free writer *)
    assert (Hflag : negb (Nat.eqb (length (w_faults w1)) (length (w_faults w))) &&
                    Nat.eqb (length (w_log w1)) (length (w_log w)) = false).
    { destruct Hw as [->|(p & _ & Hlog)].
      - rewrite Nat.eqb_refl. reflexivity.
      - rewrite Hlog, app_length. cbn [length]. apply andb_false_iff. right. apply Nat.eqb_neq. lia. }
    rewrite Hflag.
    assert (Hlf1 : log_full w1).
    { destruct Hw as [->|(p & Hp & Hlog)]; [exact Hlf|]. unfold log_full. rewrite Hlog. apply Forall_app. split; [exact Hlf|].
      constructor; [|constructor]. destruct (Hres p Hp) as [ds ->]. exists ds. reflexivity. }
    rewrite (log_bytes_emitted w1 Hlf1), cb_bytes_eqb_refl.
    assert (Hex : exists gsw' gsp', INV deflate D k n (c1, strip_w w1) gsw' gsp' /\
              (match o with
               | OAdd d _ => if obs_add_ok ob then contents gsw' gsp' = contents gsw gsp ++ [d]
                             else gsw' = gsw /\ gsp' = gsp
               | OReset => gsw' = gsw /\ gsp' = []
               | _ => contents gsw' gsp' = contents gsw gsp
               end) /\
              (match ob with BFlush true => gsp' = [] | _ => True end)).
    { destruct (match o with OFlush => true | _ => false end) eqn:Eo.
      - destruct o; try discriminate Eo. cbn [step] in Hs.
        destruct (inv_flush deflate D k n c (strip_w w) gsw gsp Henv ltac:(lia) Hinv) as (c' & w' & Hfl & Hinv' & _).
        rewrite Hfl in Hs. injection Hs as <- Hw' <-. rewrite Hw' in Hinv'.
        exists (gsw ++ gsp), []. split; [exact Hinv'|]. split; [apply contents_flushed|reflexivity].
      - destruct (inv_step deflate D k n (c, strip_w w) gsw gsp o Hk Henv ltac:(lia) Hinv Hop) as (gsw' & gsp' & Hinv' & Hrel).
        rewrite Hs in Hinv', Hrel. cbn [fst snd] in Hinv', Hrel.
        exists gsw', gsp'. split; [exact Hinv'|]. split.
        + destruct o as [d now| | | | |m|]; try exact Hrel.
          * destruct (obs_add_ok ob); [exact Hrel|]. destruct Hrel as (_ & H1 & H2). split; assumption.
          * destruct Hrel as (_ & H1 & _). exact H1.
        + destruct ob as [r|r| |[|]| |a b]; try exact I.
          destruct o; cbn [opk_of] in Hkind; try discriminate Hkind. discriminate Eo. }
    destruct Hex as (gsw' & gsp' & Hinv' & Hrel & Hfl).
    destruct (inv_check deflate inflate inflate_deflate D k n (c1, strip_w w1) gsw' gsp' Hk Henv Hn Hinv')
      as (wd & rd & Hdw & Hdr & Hwdocs & Hrdocs & _ & _ & Hsz & Hinfo).
    cbn [fst snd] in Hdw, Hdr, Hinfo. rewrite emitted_strip in Hdw. rewrite Hdw, Hdr.
    assert (Hstep : c07_step (cap_of k n) (map strip_doc (contents gsw gsp)) (opk_of o) (obs_add_ok ob) (op_doc o) wd rd
                      (snd (c_info c1)) = (map strip_doc (contents gsw' gsp'), true)).
    { apply c07_step_ok; try assumption.
      - destruct o as [d now| | | | |m|]; cbn [opk_of op_doc].
        + destruct (obs_add_ok ob).
          * rewrite Hrel, map_app. reflexivity.
          * destruct Hrel as (-> & ->). reflexivity.
        + destruct ob as [r|r| |[|]| |a b]; cbn [opk_of] in Hkind; try discriminate Hkind.
          rewrite Hrel. destruct (obs_add_ok (BAdd r)) eqn:Eok; [|reflexivity].
          exfalso. destruct (inv_step deflate D k n (c, strip_w w) gsw gsp OAddBad Hk Henv ltac:(lia) Hinv I) as (g1 & g2 & _ & Hbad & _).
          rewrite Hs in Hbad. cbn [snd] in Hbad. rewrite Eok in Hbad. discriminate Hbad.
        + rewrite Hrel. reflexivity.
        + destruct Hrel as [-> ->]. rewrite Hwdocs. unfold contents. cbn [concat]. rewrite app_nil_r.
          symmetry. apply cb_firstn_map_app.
        + rewrite Hrel. reflexivity.
        + rewrite Hrel. reflexivity.
        + rewrite Hrel. reflexivity.
      - rewrite Hwdocs, Hrdocs. unfold contents. rewrite map_app. reflexivity.
      - rewrite Hinfo, Hwdocs. unfold contents, glen. rewrite !map_length, app_length. lia. }
    rewrite Hstep. cbn [andb].
    replace (match ob with BFlush true => docs_eqb (dc_docs wd) (map strip_doc (contents gsw' gsp')) | _ => true end) with true.
    + cbn [andb]. apply IH; assumption.
    + destruct ob as [r|r| |[|]| |a b]; try reflexivity. subst gsp'. rewrite Hwdocs. unfold contents. cbn [concat].
      rewrite app_nil_r. symmetry. apply cb_docs_eqb_refl.
  - (* a Write failed *)
    destruct (inv_check deflate inflate inflate_deflate D k n (c, strip_w w) gsw gsp Hk Henv Hn Hinv)
      as (wd & rd & Hdw & Hdr & Hwdocs & Hrdocs & _ & _ & Hsz & Hinfo).
    cbn [fst snd] in Hdw, Hdr, Hinfo. rewrite <- Hst, emitted_strip in Hdw. rewrite Hdw, Hdr.
    assert (Hstep : c07_step (cap_of k n) (map strip_doc (contents gsw gsp)) (opk_of o) (obs_add_ok ob) (op_doc o) wd rd
                      (snd (c_info c)) = (map strip_doc (contents gsw gsp), true)).
    { apply c07_step_ok; try assumption.
      - destruct ob as [r|r| |[|]| |a b]; try discriminate Hfail; rewrite Hkind.
        + destruct r; try discriminate Hfail. reflexivity.
        + reflexivity.
      - rewrite Hwdocs, Hrdocs. unfold contents. rewrite map_app. reflexivity.
      - rewrite Hinfo, Hwdocs. unfold contents, glen. rewrite !map_length, app_length. lia. }
    assert (Hlf1 : log_full w1).
    { unfold log_full. replace (w_log w1) with (w_log (strip_w w1)) by reflexivity. rewrite Hst. exact Hlf. }
    rewrite (log_bytes_emitted w1 Hlf1), cb_bytes_eqb_refl.
    rewrite Hstep, Hfail. cbn [andb].
    replace (if negb (Nat.eqb (length (w_faults w1)) (length (w_faults w))) && Nat.eqb (length (w_log w1)) (length (w_log w)) then true else true)
      with true by (destruct (negb _ && _); reflexivity).
    replace (match ob with BFlush true => docs_eqb (dc_docs wd) (map strip_doc (contents gsw gsp)) | _ => true end) with true
      by (destruct ob as [r|r| |[|]| |a b]; try reflexivity; discriminate Hfail).
    cbn [andb]. apply IH; try assumption. rewrite Hst. exact Hinv.
Qed.

End Faults.

Section FaultThm.
Variable deflate : bytes -> bytes.
Variable inflate : bytes -> option bytes.
Hypothesis inflate_deflate : forall p, inflate (deflate p) = Some p.

Lemma streaming_compressing : forall k, streaming k = true -> compressing k = true.
Proof. intros []; intros H; try discriminate H; reflexivity. Qed.

Theorem c09_faults : forall k n fs ops, compressing k = true -> 1 <= n < 2 ^ 31 -> ops_ok k ops -> no_short fs ->
  c09_run deflate inflate k n fs ops = true.
Proof.
  intros k n fs ops Hk Hn Hok Hfs. unfold c09_run.
  apply (c09_from deflate inflate inflate_deflate (ops_added ops) k n Hk (ops_ok_env k ops Hok) Hn ops _ _ [] []).
  - apply inv_init; [exact Hk|lia].
  - exact Hfs.
  - constructor.
  - apply ops_ok_each. intros o Ho. exact Ho.
Qed.
End FaultThm.

(* ------------------------------------------------------------------ the first datetime leaf is an int64 *)
Fixpoint fts_doc (l : list (bytes * value)) : ts_res :=
  match l with [] => TsNone | (_, x) :: r => match first_ts x with TsNone => fts_doc r | t => t end end.
Fixpoint fts_arr (l : list value) : ts_res :=
  match l with [] => TsNone | x :: r => match first_ts x with TsNone => fts_arr r | t => t end end.

Lemma first_ts_VDoc : forall d, first_ts (VDoc d) = match fts_doc d with TsNone => TsNow | t => t end.
Proof. reflexivity. Qed.
Lemma first_ts_VArr : forall a, first_ts (VArr a) = fts_arr a.
Proof. reflexivity. Qed.

Definition fts_P (v : value) : Prop := value_ok v = true -> forall t, first_ts v = TsAt t -> in_i64 t = true.

Lemma fts_doc_F : forall d, Forall (fun kv => fts_P (snd kv)) d -> doc_ok d = true ->
  forall t, fts_doc d = TsAt t -> in_i64 t = true.
Proof.
  induction d as [|[k x] r IH]; intros HF Hok t Ht; [discriminate Ht|].
  inversion HF as [|y z Hx Hr]; subst. cbn [snd] in Hx.
  apply bs_doc_ok_cons in Hok. destruct Hok as (_ & Hvx & Hvr).
  cbn [fts_doc] in Ht. destruct (first_ts x) as [| |t'] eqn:E.
  - apply (IH Hr Hvr t Ht).
  - discriminate Ht.
  - injection Ht as <-. apply (Hx Hvx t' E).
Qed.

Lemma fts_arr_F : forall a, Forall fts_P a -> arr_ok a = true ->
  forall t, fts_arr a = TsAt t -> in_i64 t = true.
Proof.
  induction a as [|x r IH]; intros HF Hok t Ht; [discriminate Ht|].
  inversion HF as [|y z Hx Hr]; subst.
  cbn [arr_ok] in Hok. apply andb_true_iff in Hok. destruct Hok as [Hvx Hvr].
  cbn [fts_arr] in Ht. destruct (first_ts x) as [| |t'] eqn:E.
  - apply (IH Hr Hvr t Ht).
  - discriminate Ht.
  - injection Ht as <-. apply (Hx Hvx t' E).
Qed.

Lemma fts_value : forall v, fts_P v.
Proof.
  apply BsonProofs.value_ind'; unfold fts_P; intros; try discriminate.
  - rewrite first_ts_VDoc in H1. rewrite bs_ok_VDoc in H0.
    destruct (fts_doc d) as [| |t'] eqn:E; try discriminate H1. injection H1 as <-.
    apply (fts_doc_F d H H0 t' E).
  - rewrite first_ts_VArr in H1. rewrite bs_ok_VArr in H0. apply (fts_arr_F a H H0 t H1).
  - cbn [first_ts] in H0. cbn [value_ok] in H. destruct (ms =? go_zero_time_ms); [discriminate H0|].
    injection H0 as <-. exact H.
Qed.

Lemma first_ts_doc_i64 : forall d t, doc_ok d = true -> first_ts_doc d = TsAt t -> in_i64 t = true.
Proof. intros d t Hok Ht. apply (fts_value (VDoc d)); [rewrite bs_ok_VDoc; exact Hok|exact Ht]. Qed.

(* ------------------------------------------------------------------ what reaches the writer is framed *)
Definition outer_ok (d : doc) : Prop := doc_ok d = true /\ doc_bin_ok d = true.

Definition inner_ok (i : inner) : Prop :=
  match i with
  | IB b => in_i64 (bc_started b) = true /\ match bc_meta b with Some m => outer_ok m | None => True end
  | IU _ => False
  end.

Definition coll_ok (c : coll) : Prop :=
  match c with
  | CStream s => inner_ok (sc_inner s)
  | CSDyn x => inner_ok (sc_inner (sd_s x))
  | _ => False
  end.

Definition log_ok (w : writer) : Prop :=
  Forall (fun r => exists ds, r = WFull (OFtdc ds) /\ Forall outer_ok ds) (w_log w).

Lemma fs_wf_bytes_ok : forall b, wf_bytes b -> bytes_ok b = true.
Proof.
  induction 1 as [|x l Hx _ IH]; [reflexivity|]. cbn [bytes_ok forallb].
  rewrite (proj2 (N.ltb_lt _ _) Hx). exact IH.
Qed.

Section Framed.
Variable deflate : bytes -> bytes.
Hypothesis deflate_wf : forall p, wf_bytes (deflate p).

Lemma meta_doc_outer : forall s m, in_i64 s = true -> outer_ok m -> outer_ok (meta_doc s m).
Proof.
  intros s m Hs [Hm Hb]. split.
  - unfold meta_doc. apply bs_doc_ok_cons. split; [reflexivity|]. split; [exact Hs|].
    apply bs_doc_ok_cons. split; [reflexivity|]. split; [reflexivity|].
    apply bs_doc_ok_cons. split; [reflexivity|]. split; [rewrite bs_ok_VDoc; exact Hm|reflexivity].
  - unfold meta_doc. cbn [doc_bin_ok]. rewrite fv_bin_VDoc, Hb. reflexivity.
Qed.

Lemma chunk_doc_outer : forall s p, in_i64 s = true -> outer_ok (chunk_doc s (compress deflate p)).
Proof.
  intros s p Hs. split; [|reflexivity].
  unfold chunk_doc. cbn [doc_ok value_ok]. rewrite Hs.
  rewrite fs_wf_bytes_ok; [reflexivity|].
  unfold compress. apply bs_wf_app; [apply bs_le_enc_wf|apply deflate_wf].
Qed.

Lemma inner_resolve_outer : forall i p, inner_ok i -> in_resolve deflate i = Some p ->
  exists ds, p = OFtdc ds /\ Forall outer_ok ds.
Proof.
  intros [b|u] p Hi Hp; [|destruct Hi]. destruct Hi as [Hs Hm]. cbn [in_resolve] in Hp.
  unfold bc_resolve in Hp. destruct (bc_ref b) as [ref|]; [|discriminate Hp]. injection Hp as <-.
  eexists. split; [reflexivity|]. apply Forall_app. split.
  - destruct (bc_meta b) as [m|]; [|constructor]. constructor; [|constructor]. apply meta_doc_outer; assumption.
  - constructor; [|constructor]. apply chunk_doc_outer. exact Hs.
Qed.

Lemma coll_resolve_outer : forall c p, coll_ok c -> c_resolve deflate c = Some p ->
  exists ds, p = OFtdc ds /\ Forall outer_ok ds.
Proof.
  intros c p Hc Hp. destruct c as [b|b|x|s|x|u]; try destruct Hc; cbn [c_resolve coll_ok] in *;
    eapply inner_resolve_outer; eassumption.
Qed.

Lemma in_reset_ok : forall i, inner_ok i -> inner_ok (in_reset i).
Proof. intros [b|u] H; [exact H|destruct H]. Qed.

Lemma in_add_ok : forall i d now, inner_ok i -> in_i64 now = true -> doc_ok d = true ->
  inner_ok (fst (in_add i d now)).
Proof.
  intros [b|u] d now Hi Hnow Hd; [destruct Hi as [Hs Hm]|destruct Hi]. cbn [in_add]. unfold bc_add.
  destruct (bc_ref b).
  - destruct (bc_max b <=? Z.of_nat (length (bc_rows b))); [split; assumption|].
    destruct (negb (Nat.eqb (length (flatten_doc d)) (length (bc_last b)))); [split; assumption|].
    destruct (negb (types_agree (flatten_doc d) (bc_last b))); split; assumption.
  - cbn [fst inner_ok bc_started bc_meta]. split; [|exact Hm].
    destruct (first_ts_doc d) as [| |t] eqn:E; try exact Hnow. apply (first_ts_doc_i64 d t Hd E).
Qed.

Lemma flush_with_fst : forall (A : Type) info res rst (c : A) w,
  fst (fst (flush_with info res rst c w)) = c \/ fst (fst (flush_with info res rst c w)) = rst c.
Proof.
  intros. unfold flush_with. destruct (snd (info c) =? 0); [left; reflexivity|].
  destruct (res c); [|left; reflexivity]. destruct (w_write w o) as [w' [|]]; [right|left]; reflexivity.
Qed.

Definition sc_ok (s : scoll) : Prop := inner_ok (sc_inner s).

Lemma sc_reset_ok : forall s, sc_ok s -> sc_ok (sc_reset s).
Proof. intros s H. apply in_reset_ok. exact H. Qed.

Lemma sc_tail_ok : forall s w d now, sc_ok s -> in_i64 now = true -> doc_ok d = true ->
  sc_ok (fst (fst (sc_add_tail s w d now))).
Proof.
  intros s w d now Hs Hnow Hd. unfold sc_add_tail.
  pose proof (in_add_ok (sc_inner s) d now Hs Hnow Hd) as H.
  destruct (in_add (sc_inner s) d now) as [i' r]. cbn [fst] in H. destruct r; exact H.
Qed.

Lemma sc_add_ok : forall s w d now, sc_ok s -> in_i64 now = true -> doc_ok d = true ->
  sc_ok (fst (fst (sc_add deflate s w d now))).
Proof.
  intros s w d now Hs Hnow Hd. rewrite sc_add_eq.
  assert (Hfl : forall r : scoll * writer * bool, (fst (fst r) = s \/ fst (fst r) = sc_reset s) ->
            sc_ok (fst (fst (let '(s1, w1, ok) := r in if negb ok then (s1, w1, RFlush) else sc_add_tail s1 w1 d now)))).
  { intros [[s1 w1] ok] Hr. cbn [fst] in Hr.
    assert (H1 : sc_ok s1) by (destruct Hr as [->| ->]; [exact Hs|apply sc_reset_ok; exact Hs]).
    destruct ok; cbn [negb]; [apply sc_tail_ok; assumption|exact H1]. }
  destruct (sc_max s <=? sc_count s).
  - apply (Hfl (sc_flush deflate s w)). unfold sc_flush. apply flush_with_fst.
  - apply (Hfl (s, w, true)). left. reflexivity.
Qed.

Lemma sd_add_ok : forall c w d now, sc_ok (sd_s c) -> in_i64 now = true -> doc_ok d = true ->
  sc_ok (sd_s (fst (fst (sd_add deflate c w d now)))).
Proof.
  intros c w d now Hs Hnow Hd. rewrite sd_add_eq.
  assert (Hfin : forall c1 w1 (ok : bool), sc_ok (sd_s c1) ->
            sc_ok (sd_s (fst (fst (if negb ok then (c1, w1, RFlush)
                                   else let '(s', w2, r) := sc_add deflate (sd_s c1) w1 d now in
                                        (mkSdcoll (sd_hash c1) (sd_mcount c1) s', w2, r)))))).
  { intros c1 w1 ok H1. destruct ok; cbn [negb]; [|exact H1].
    pose proof (sc_add_ok (sd_s c1) w1 d now H1 Hnow Hd) as H2.
    destruct (sc_add deflate (sd_s c1) w1 d now) as [[s' w2] r]. exact H2. }
  destruct (sd_changed c d).
  - assert (Hfl : forall r : sdcoll * writer * bool, (fst (fst r) = c \/ fst (fst r) = sd_reset c) ->
              sc_ok (sd_s (fst (fst r)))).
    { intros [[c1 w1] ok] Hr. cbn [fst] in *. destruct Hr as [->| ->]; [exact Hs|]. apply sc_reset_ok. exact Hs. }
    destruct (0 <? sc_count (sd_s c)).
    + pose proof (Hfl _ (flush_with_fst sdcoll (fun c => in_info (sc_inner (sd_s c)))
                          (fun c => in_resolve deflate (sc_inner (sd_s c))) sd_reset c w)) as H1.
      unfold sd_flush. destruct (flush_with _ _ sd_reset c w) as [[c' w'] ok']. cbn [fst] in H1.
      destruct ok'; apply Hfin; exact H1.
    + apply Hfin. exact Hs.
  - apply Hfin. exact Hs.
Qed.

Lemma in_set_meta_ok : forall i m, inner_ok i -> match m with Some x => outer_ok x | None => True end ->
  inner_ok (in_set_meta i m).
Proof. intros [b|u] m Hi Hx; [destruct Hi as [Hs Hm]|destruct Hi]. split; [exact Hs|exact Hx]. Qed.

(* the collector part of the invariant is kept by every operation, whatever the writer does *)
Lemma coll_ok_step : forall c w o, coll_ok c -> op_frame_ok o ->
  (forall d now, o = OAdd d now -> doc_ok d = true) ->
  coll_ok (fst (fst (step deflate (c, w) o))).
Proof.
  intros c w o Hc Hof Hd. destruct c as [b|b|x|s|x|u]; try destruct Hc.
  - (* streaming *)
    destruct o as [d now| | | | |m|]; cbn [step].
    + cbn [c_add]. pose proof (sc_add_ok s w d now Hc Hof (Hd d now eq_refl)) as H.
      destruct (sc_add deflate s w d now) as [[s' w'] r]. exact H.
    + cbn [c_add_bad].
      destruct (sc_max s <=? sc_count s).
      * pose proof (flush_with_fst scoll (fun s => in_info (sc_inner s)) (fun s => in_resolve deflate (sc_inner s)) sc_reset s w) as H.
        unfold sc_flush. destruct (flush_with _ _ sc_reset s w) as [[s1 w1] ok]. cbn [fst coll_ok] in *.
        destruct H as [->| ->]; [exact Hc|apply sc_reset_ok; exact Hc].
      * exact Hc.
    + exact Hc.
    + cbn [c_reset fst coll_ok]. apply sc_reset_ok. exact Hc.
    + cbn [c_flush].
      pose proof (flush_with_fst scoll (fun s => in_info (sc_inner s)) (fun s => in_resolve deflate (sc_inner s)) sc_reset s w) as H.
      unfold sc_flush. destruct (flush_with _ _ sc_reset s w) as [[s1 w1] ok]. cbn [fst coll_ok] in *.
      destruct H as [->| ->]; [exact Hc|apply sc_reset_ok; exact Hc].
    + cbn [c_set_meta fst coll_ok sc_inner]. apply in_set_meta_ok; [exact Hc|]. destruct m; [split; [exact Hof|apply doc_ok_bin_ok; exact Hof]|exact I].
    + destruct (c_info (CStream s)). exact Hc.
  - (* streaming dynamic *)
    destruct o as [d now| | | | |m|]; cbn [step].
    + cbn [c_add]. pose proof (sd_add_ok x w d now Hc Hof (Hd d now eq_refl)) as H.
      destruct (sd_add deflate x w d now) as [[s' w'] r]. exact H.
    + exact Hc.
    + exact Hc.
    + cbn [c_reset fst coll_ok sd_reset sd_s]. apply sc_reset_ok. exact Hc.
    + cbn [c_flush].
      pose proof (flush_with_fst sdcoll (fun c => in_info (sc_inner (sd_s c)))
                    (fun c => in_resolve deflate (sc_inner (sd_s c))) sd_reset x w) as H.
      unfold sd_flush. destruct (flush_with _ _ sd_reset x w) as [[s1 w1] ok]. cbn [fst coll_ok] in *.
      destruct H as [->| ->]; [exact Hc|apply sc_reset_ok; exact Hc].
    + cbn [c_set_meta fst coll_ok sd_s sc_inner]. apply in_set_meta_ok; [exact Hc|]. destruct m; [split; [exact Hof|apply doc_ok_bin_ok; exact Hof]|exact I].
    + destruct (c_info (CSDyn x)). exact Hc.
Qed.

Lemma log_ok_step : forall c w o, coll_ok c -> log_ok w -> no_short (w_faults w) -> max_ok c ->
  log_ok (snd (fst (step deflate (c, w) o))).
Proof.
  intros c w o Hc Hl Hns Hmax.
  destruct (step_sim deflate c w o Hns Hmax) as [(c1 & w1 & ob & Hr & _ & _ & Hw)|(w1 & ob & Hr & _ & Hst & _)];
    rewrite Hr; cbn [fst snd].
  - destruct Hw as [->|(p & Hp & Hlog)]; [exact Hl|]. unfold log_ok. rewrite Hlog. apply Forall_app. split; [exact Hl|].
    constructor; [|constructor]. destruct (coll_resolve_outer c p Hc Hp) as (ds & -> & Hds). exists ds. split; [reflexivity|exact Hds].
  - unfold log_ok. replace (w_log w1) with (w_log (strip_w w1)) by reflexivity. rewrite Hst. exact Hl.
Qed.

Lemma log_ok_bytes : forall w, log_ok w ->
  log_bytes w = enc_stream (emitted w) /\ Forall outer_ok (emitted w).
Proof.
  intros w H. split.
  - apply log_bytes_emitted. revert H. apply Forall_impl. intros r (ds & -> & _). exists ds. reflexivity.
  - unfold emitted. unfold log_ok in H. induction H as [|r l (ds & -> & Hds) _ IH]; [constructor|].
    cbn [flat_map]. apply Forall_app. split; assumption.
Qed.

End Framed.

(* ------------------------------------------------------------------ the bridge over a writer's documents *)
Section WBridge.
Variable deflate : bytes -> bytes.
Variable inflate : bytes -> option bytes.
Hypothesis inflate_deflate : forall p, inflate (deflate p) = Some p.
Variable limit : N.

Definition group_ok (g : list doc) : Prop :=
  (N.of_nat (length (flatten_doc (hd [] g))) * N.of_nat (length g - 1) <= limit)%N /\
  (N.of_nat (length g - 1) <= limit)%N.

Lemma read_chunks_b_wstream : forall m ds gs, m < 2 ^ 31 -> wstream deflate m ds gs -> Forall group_ok gs ->
  forall meta, read_chunks_b inflate limit None meta ds = read_chunks inflate meta ds.
Proof.
  intros m ds gs Hm H. induction H as [|s md ds gs H IH|cd g ds gs Hc Hg H IH]; intros HF meta.
  - reflexivity.
  - unfold read_chunks. cbn [read_chunks_b read_chunks_gen].
    change (is_num 0 (lookup k_type (meta_doc s md))) with true. cbv iota. apply (IH HF).
  - inversion HF as [|x y Hgo HF']; subst.
    destruct Hc as (s & d0 & ds' & Eg & Hlen & Ecd). subst g cd.
    destruct Hg as [Hwf Hsk].
    assert (Hd0 : doc_wf d0) by (inversion Hwf; assumption).
    destruct Hd0 as (Hok & Hlv & Hsm & Hts & Hcnt).
    destruct Hgo as (Hl2 & Hl1). cbn [hd] in Hl1, Hl2.
    replace (length (d0 :: ds') - 1)%nat with (length ds') in Hl1, Hl2 by (cbn [length]; lia).
    unfold read_chunks. cbn [read_chunks_b read_chunks_gen]. unfold group_chunk at 1 2 4 5. rewrite lookup_type_chunk.
    change (is_num 0 (Some (VInt32 1))) with false. change (is_num 1 (Some (VInt32 1))) with true.
    cbn [negb]. fold (group_chunk deflate s d0 ds'). fold (read_chunk inflate meta (group_chunk deflate s d0 ds')).
    rewrite (bridge_chunk deflate inflate inflate_deflate limit) by (try assumption; lia).
    fold (read_chunks inflate meta ds). rewrite (IH HF' meta). reflexivity.
Qed.

Lemma wstream_firstn : forall m ds gs, wstream deflate m ds gs -> forall j,
  exists gs', wstream deflate m (firstn j ds) gs' /\ forall P : list doc -> Prop, Forall P gs -> Forall P gs'.
Proof.
  intros m ds gs H. induction H as [|s md ds gs H IH|cd g ds gs Hc Hg H IH]; intros j.
  - exists []. rewrite firstn_nil. split; [constructor|intros; constructor].
  - destruct j as [|j]; [exists []; split; [constructor|intros; constructor]|].
    destruct (IH j) as (gs' & Hw & HP). exists gs'. cbn [firstn]. split; [constructor; exact Hw|exact HP].
  - destruct j as [|j]; [exists []; split; [constructor|intros; constructor]|].
    destruct (IH j) as (gs' & Hw & HP). exists (g :: gs'). cbn [firstn]. split; [constructor; assumption|].
    intros P HF. inversion HF; subst. constructor; [assumption|apply HP; assumption].
Qed.
End WBridge.

(* ------------------------------------------------------------------ every state of a history on a writer with faults *)
Section RunInv.
Variable deflate : bytes -> bytes.
Hypothesis deflate_wf : forall p, wf_bytes (deflate p).
Variable D : doc -> Prop.
Variable Q : doc -> Prop.
Hypothesis DQ : forall d, D d -> Q d.

Definition RI (k : kind) (n : Z) (st : coll * writer) (gsw gsp : list (list doc)) : Prop :=
  INV deflate D k n (fst st, strip_w (snd st)) gsw gsp /\ no_short (w_faults (snd st)) /\
  coll_ok (fst st) /\ log_ok (snd st) /\ Forall Q (contents gsw gsp).

Definition op_pre (o : op) : Prop := op_ok D o /\ op_frame_ok o.

Lemma ri_step : forall k n st gsw gsp o, compressing k = true -> env_ok D k -> 1 <= n ->
  RI k n st gsw gsp -> op_pre o -> exists gsw' gsp', RI k n (fst (step deflate st o)) gsw' gsp'.
Proof.
  intros k n [c w] gsw gsp o Hk Henv Hn (Hinv & Hns & Hc & Hl & HQ) [Hop Hof]. cbn [fst snd] in *.
  assert (Hmax : max_ok c). { destruct Hinv as (_ & _ & Hh). apply (holds_max_ok D k n c gsp Hn Hh). }
  assert (Hc' : coll_ok (fst (fst (step deflate (c, w) o)))).
  { apply coll_ok_step; try assumption. intros d now ->. cbn [op_ok] in Hop. apply (proj1 Henv d Hop). }
  pose proof (log_ok_step deflate deflate_wf c w o Hc Hl Hns Hmax) as Hl'.
  destruct (step_sim deflate c w o Hns Hmax) as [(c1 & w1 & ob & Hr & Hs & Hns1 & Hw)|(w1 & ob & Hr & Hfail & Hst & Hns1 & Hlen)];
    rewrite Hr in *; cbn [fst snd] in *.
  - destruct (inv_step deflate D k n (c, strip_w w) gsw gsp o Hk Henv Hn Hinv Hop) as (gsw' & gsp' & Hinv' & Hrel).
    rewrite Hs in Hinv', Hrel. cbn [fst snd] in Hinv', Hrel.
    exists gsw', gsp'. split; [exact Hinv'|]. split; [exact Hns1|]. split; [exact Hc'|]. split; [exact Hl'|].
    destruct o as [d now| | | | |m|].
    + destruct (obs_add_ok ob).
      * rewrite Hrel. apply Forall_app. split; [exact HQ|]. constructor; [apply DQ; exact Hop|constructor].
      * destruct Hrel as (_ & -> & ->). exact HQ.
    + destruct Hrel as (_ & -> & _). exact HQ.
    + rewrite Hrel. exact HQ.
    + destruct Hrel as [-> ->]. unfold contents in *. cbn [concat]. apply Forall_app in HQ. destruct HQ as [HQ1 _].
      apply Forall_app. split; [exact HQ1|constructor].
    + rewrite Hrel. exact HQ.
    + rewrite Hrel. exact HQ.
    + rewrite Hrel. exact HQ.
  - exists gsw, gsp. unfold RI. cbn [fst snd]. rewrite Hst.
    split; [exact Hinv|]. split; [exact Hns1|]. split; [exact Hc'|]. split; [exact Hl'|exact HQ].
Qed.

Lemma ri_run : forall k n, compressing k = true -> env_ok D k -> 1 <= n ->
  forall ops st gsw gsp, RI k n st gsw gsp -> Forall op_pre ops ->
  exists gsw' gsp', RI k n (fst (run deflate st ops)) gsw' gsp'.
Proof.
  intros k n Hk Henv Hn. induction ops as [|o ops IH]; intros st gsw gsp Hri Hops.
  - exists gsw, gsp. exact Hri.
  - inversion Hops as [|x y Hop Hops']; subst.
    destruct (ri_step k n st gsw gsp o Hk Henv Hn Hri Hop) as (gsw' & gsp' & Hri').
    cbn [run]. destruct (step deflate st o) as [st' ob]. cbn [fst] in Hri'.
    destruct (IH st' gsw' gsp' Hri' Hops') as (gsw'' & gsp'' & Hri'').
    destruct (run deflate st' ops) as [st'' bs]. exists gsw'', gsp''. exact Hri''.
Qed.

Lemma ri_init : forall k n fs, streaming k = true -> 1 <= n -> no_short fs ->
  RI k n (new_coll k n, mkWriter [] fs false) [] [].
Proof.
  intros k n fs Hk Hn Hfs. split; [|split; [exact Hfs|split; [|split; [constructor|constructor]]]].
  - apply (inv_init deflate D k n (streaming_compressing k Hk) Hn).
  - destruct k; try discriminate Hk; cbn; split; trivial.
Qed.

End RunInv.

(* ------------------------------------------------------------------ C09 theorems *)
Section C09.
Variable deflate : bytes -> bytes.
Variable inflate : bytes -> option bytes.
Hypothesis inflate_deflate : forall p, inflate (deflate p) = Some p.
Hypothesis deflate_wf : forall p, wf_bytes (deflate p).

Lemma reach_ri : forall (Q : doc -> Prop) k n fs ops, streaming k = true -> 1 <= n -> ops_ok k ops ->
  Forall op_frame_ok ops -> (forall d, ops_added ops d -> Q d) -> no_short fs ->
  exists gsw gsp, RI deflate (ops_added ops) Q k n (c09_reach deflate k n fs ops) gsw gsp.
Proof.
  intros Q k n fs ops Hk Hn Hok Hfr HQ Hfs. unfold c09_reach.
  apply (ri_run deflate deflate_wf (ops_added ops) Q HQ k n (streaming_compressing k Hk) (ops_ok_env k ops Hok) Hn ops _ [] []).
  - apply ri_init; assumption.
  - apply Forall_forall. intros o Ho. split.
    + pose proof (ops_ok_each ops ops (fun o H => H)) as HF. rewrite Forall_forall in HF. apply HF. exact Ho.
    + rewrite Forall_forall in Hfr. apply Hfr. exact Ho.
Qed.

(* at every instant the writer's bytes are the concatenated encodings of complete
   documents, each of which the reader frames *)
Theorem c09_log_wellformed : forall k n fs ops, streaming k = true -> 1 <= n -> ops_ok k ops ->
  Forall op_frame_ok ops -> no_short fs ->
  let w := snd (c09_reach deflate k n fs ops) in
  log_bytes w = enc_stream (emitted w) /\
  Forall (fun d => doc_ok d = true /\ doc_bin_ok d = true) (emitted w) /\
  (Forall (fun d => small (enc_doc d)) (emitted w) -> Forall frame_ok (emitted w)).
Proof.
  intros k n fs ops Hk Hn Hok Hfr Hfs w.
  destruct (reach_ri (fun _ => True) k n fs ops Hk Hn Hok Hfr (fun _ _ => I) Hfs) as (gsw & gsp & _ & _ & _ & Hl & _).
  destruct (log_ok_bytes (snd (c09_reach deflate k n fs ops)) Hl) as [Hb Ho]. fold w in Hb, Ho.
  split; [exact Hb|]. split; [exact Ho|]. intros Hsm. apply Forall_forall. intros d Hd.
  rewrite Forall_forall in Ho, Hsm. destruct (Ho d Hd) as [H1 H2]. apply frame_ok_enc; [exact H1|apply (Hsm d Hd)].
Qed.

Definition qfit (n : Z) (d : doc) : Prop :=
  (N.of_nat (length (flatten_doc d)) * Z.to_N n <= reader_limit)%N.

Lemma wstream_group_ok : forall n m ds gs, 0 <= m -> m + 1 <= n -> (Z.to_N n <= reader_limit)%N ->
  wstream deflate m ds gs -> Forall (qfit n) (concat gs) -> Forall (group_ok reader_limit) gs.
Proof.
  intros n m ds gs Hm0 Hm Hlim H. induction H as [|s md ds gs H IH|cd g ds gs Hc Hg H IH]; intros HQ.
  - constructor.
  - apply IH. exact HQ.
  - cbn [concat] in HQ. apply Forall_app in HQ. destruct HQ as [HQg HQr]. constructor; [|apply IH; exact HQr].
    destruct Hc as (s & d0 & ds' & -> & Hlen & _). inversion HQg as [|x y Hf _]; subst. unfold qfit in Hf.
    unfold group_ok. cbn [hd]. replace (length (d0 :: ds') - 1)%nat with (length ds') by (cbn [length]; lia).
    assert (Hle : (N.of_nat (length ds') <= Z.to_N n)%N) by lia.
    split; [|lia].
    eapply N.le_trans; [|exact Hf]. apply N.mul_le_mono_l. exact Hle.
Qed.

Lemma ops_fit_q : forall n ops, ops_fit n ops -> forall d, ops_added ops d -> qfit n d.
Proof. intros n ops [_ Hfit] d Hd. apply Hfit. exact Hd. Qed.

Lemma streaming_cap : forall k n, streaming k = true -> cap_of k n - 1 = n - 1.
Proof. intros [] n H; try discriminate H; reflexivity. Qed.

(* every crash point *)
Theorem c09_prefix : forall k n fs ops, streaming k = true -> 1 <= n < 2 ^ 31 -> ops_ok k ops ->
  Forall op_frame_ok ops -> ops_fit n ops -> no_short fs ->
  let w := snd (c09_reach deflate k n fs ops) in
  Forall (fun d => small (enc_doc d)) (emitted w) ->
  forall j, (j <= length (log_bytes w))%nat ->
  exists cs,
    read_chunks inflate None (firstn (within j (doc_lens (emitted w))) (emitted w)) = (cs, None) /\
    read_stream inflate reader_limit None (firstn j (log_bytes w)) =
      (cs, negb (at_boundary j (doc_lens (emitted w)))).
Proof.
  intros k n fs ops Hk Hn Hok Hfr Hfit Hfs w Hsm j Hj.
  destruct (reach_ri (qfit n) k n fs ops Hk ltac:(lia) Hok Hfr (ops_fit_q n ops Hfit) Hfs)
    as (gsw & gsp & Hinv & _ & _ & Hl & HQ).
  destruct (c09_log_wellformed k n fs ops Hk ltac:(lia) Hok Hfr Hfs) as (Hb & _ & Hframe). fold w in Hb, Hframe, Hinv, Hl.
  specialize (Hframe Hsm). rewrite Hb in *.
  destruct Hinv as (_ & Hws & _). cbn [fst snd] in Hws. rewrite emitted_strip, (streaming_cap k n Hk) in Hws.
  set (m := within j (doc_lens (emitted w))).
  destruct (wstream_firstn deflate (n - 1) _ _ Hws m) as (gs' & Hws' & HP).
  assert (Hgo : Forall (group_ok reader_limit) gs').
  { apply HP. apply (wstream_group_ok n (n - 1) _ _ ltac:(lia) ltac:(lia) (proj1 Hfit) Hws).
    unfold contents in HQ. apply Forall_app in HQ. exact (proj1 HQ). }
  destruct (read_wstream deflate inflate inflate_deflate (n - 1) _ _ ltac:(lia) Hws' None) as (cs & Hcs & _).
  exists cs. split; [exact Hcs|].
  unfold read_stream. rewrite (read_docs_truncated _ j Hframe Hj). fold m.
  rewrite (read_chunks_b_wstream deflate inflate inflate_deflate reader_limit (n - 1) _ _ ltac:(lia) Hws' Hgo None), Hcs.
  destruct (at_boundary j (doc_lens (emitted w))); reflexivity.
Qed.

(* C04_bridge, corollary: the byte-level reader on the bytes of a streaming history *)
Lemma within_all : forall lens, within (list_sum lens) lens = length lens.
Proof.
  induction lens as [|a r IH]; [reflexivity|]. cbn [within]. rewrite list_sum_cons.
  replace (Nat.leb a (a + list_sum r)) with true by (symmetry; apply Nat.leb_le; lia).
  replace (a + list_sum r - a)%nat with (list_sum r) by lia. rewrite IH. reflexivity.
Qed.

Lemma enc_stream_length : forall ds, length (enc_stream ds) = list_sum (doc_lens ds).
Proof.
  induction ds as [|d r IH]; [reflexivity|]. unfold enc_stream, doc_lens in *. cbn [map concat].
  rewrite app_length, list_sum_cons, IH. reflexivity.
Qed.

Theorem c09_whole_log : forall k n fs ops, streaming k = true -> 1 <= n < 2 ^ 31 -> ops_ok k ops ->
  Forall op_frame_ok ops -> ops_fit n ops -> no_short fs ->
  let w := snd (c09_reach deflate k n fs ops) in
  Forall (fun d => small (enc_doc d)) (emitted w) ->
  exists cs, read_chunks inflate None (emitted w) = (cs, None) /\
             read_stream inflate reader_limit None (log_bytes w) = (cs, false).
Proof.
  intros k n fs ops Hk Hn Hok Hfr Hfit Hfs w Hsm.
  destruct (c09_prefix k n fs ops Hk Hn Hok Hfr Hfit Hfs Hsm (length (log_bytes w)) (le_n _)) as (cs & Hcs & Hrs).
  fold w in Hcs, Hrs.
  destruct (c09_log_wellformed k n fs ops Hk ltac:(lia) Hok Hfr Hfs) as (Hb & _). fold w in Hb.
  rewrite firstn_all in Hrs. rewrite Hb, enc_stream_length in Hcs, Hrs.
  unfold at_boundary in Hrs. rewrite within_all in Hcs, Hrs.
  unfold doc_lens in Hcs, Hrs. rewrite map_length in Hcs, Hrs. rewrite firstn_all in Hcs.
  rewrite <- (map_length (fun d => length (enc_doc d)) (emitted w)) in Hrs. rewrite firstn_all, Nat.eqb_refl in Hrs.
  exists cs. split; [exact Hcs|]. rewrite Hb. exact Hrs.
Qed.

(* a failed Write: the operation reports it and changes neither collector nor log *)
Theorem c09_failed_write : forall k n fs ops o, streaming k = true -> 1 <= n -> ops_ok k (ops ++ [o]) ->
  Forall op_frame_ok ops -> no_short fs ->
  let st := c09_reach deflate k n fs ops in
  let r := step deflate st o in
  w_log (snd (fst r)) = w_log (snd st) -> w_faults (snd (fst r)) <> w_faults (snd st) ->
  failed_obs (snd r) = true /\ fst (fst r) = fst st /\ log_bytes (snd (fst r)) = log_bytes (snd st).
Proof.
  intros k n fs ops o Hk Hn Hok Hfr Hfs st r Hlog Hfa.
  assert (Hok' : ops_ok k ops).
  { destruct Hok as [H1 H2]. split.
    - intros d [now Hd]. apply H1. exists now. apply in_or_app. left. exact Hd.
    - intros a b [na Ha] [nb Hb']. apply H2; [exists na|exists nb]; apply in_or_app; left; assumption. }
  destruct (reach_ri (fun _ => True) k n fs ops Hk Hn Hok' Hfr (fun _ _ => I) Hfs) as (gsw & gsp & Hinv & Hns & _).
  fold st in Hinv, Hns. destruct st as [c w]. cbn [fst snd] in *.
  assert (Hmax : max_ok c). { destruct Hinv as (_ & _ & Hh). apply (holds_max_ok _ k n c gsp Hn Hh). }
  subst r.
  destruct (step_sim deflate c w o Hns Hmax) as [(c1 & w1 & ob & Hr & _ & _ & Hw)|(w1 & ob & Hr & Hfail & Hst & _)];
    rewrite Hr in *; cbn [fst snd] in *.
  - exfalso. destruct Hw as [->|(p & _ & Hl)]; [apply Hfa; reflexivity|].
    rewrite Hl in Hlog. apply (f_equal (@length wrec)) in Hlog. rewrite app_length in Hlog. cbn [length] in Hlog. lia.
  - split; [exact Hfail|]. split; [reflexivity|]. unfold log_bytes. rewrite Hlog. reflexivity.
Qed.

End C09.

(* ------------------------------------------------------------------ the known finding: a short write *)
Definition sw_deflate (p : bytes) : bytes := 1%N :: p.
Definition sw_inflate (z : bytes) : option bytes :=
  match z with b :: p => if (b =? 1)%N then Some p else None | [] => None end.
Definition sw_doc (x : Z) : doc := [([97]%N, VInt64 x)].
Definition sw_ops : list op := [OAdd (sw_doc 1) 0; OAdd (sw_doc 2) 0; OAdd (sw_doc 2) 0; OFlush].

Theorem c09_short_write_refuted :
  (forall p, sw_inflate (sw_deflate p) = Some p) /\ ops_ok KStream sw_ops /\ Forall op_frame_ok sw_ops /\
  ops_fit 1 sw_ops /\
  (* two Write calls: the first consumes three bytes and fails, the retry succeeds *)
  let fs := [FShort 3] in
  let res := run sw_deflate (new_coll KStream 1, mkWriter [] fs false) sw_ops in
  snd res = [BAdd ROk; BAdd RFlush; BAdd ROk; BFlush true] /\
  (* the bytes in the writer are no stream any more: the reader reports an error and delivers nothing *)
  read_stream sw_inflate reader_limit None (log_bytes (snd (fst res))) = ([], true) /\
  c09_run sw_deflate sw_inflate KStream 1 fs sw_ops = false /\
  (* with an error that consumes nothing in place of the short write the statement holds *)
  c09_run sw_deflate sw_inflate KStream 1 [FError] sw_ops = true /\
  fst (read_stream sw_inflate reader_limit None
         (log_bytes (snd (c09_reach sw_deflate KStream 1 [FError] sw_ops)))) <> [].
Proof.
  split; [intros p; reflexivity|]. split.
  { split.
    - intros d [now Hd]. cbn [sw_ops In] in Hd.
      assert (Hd' : d = sw_doc 1 \/ d = sw_doc 2).
      { destruct Hd as [H|[H|[H|[H|[]]]]]; try discriminate H; injection H as <- _; [left|right|right]; reflexivity. }
      destruct Hd' as [-> | ->]; (split; [reflexivity|]; split; [reflexivity|]; split; [unfold small; vm_compute; reflexivity|];
        split; [reflexivity|vm_compute; reflexivity]).
    - intros a b [na Ha] [nb Hb] _ _. cbn [sw_ops In] in Ha, Hb.
      assert (Ha' : a = sw_doc 1 \/ a = sw_doc 2).
      { destruct Ha as [H|[H|[H|[H|[]]]]]; try discriminate H; injection H as <- _; [left|right|right]; reflexivity. }
      assert (Hb' : b = sw_doc 1 \/ b = sw_doc 2).
      { destruct Hb as [H|[H|[H|[H|[]]]]]; try discriminate H; injection H as <- _; [left|right|right]; reflexivity. }
      destruct Ha' as [-> | ->], Hb' as [-> | ->]; reflexivity. }
  split. { repeat constructor. }
  split.
  { split; [vm_compute; discriminate|]. intros d [now Hd]. cbn [sw_ops In] in Hd.
    destruct Hd as [H|[H|[H|[H|[]]]]]; try discriminate H; injection H as <- _; vm_compute; discriminate. }
  cbv zeta. split; [vm_compute; reflexivity|]. split; [vm_compute; reflexivity|].
  split; [vm_compute; reflexivity|]. split; [vm_compute; reflexivity|]. vm_compute. discriminate.
Qed.

(* ------------------------------------------------------------------ C09_durability *)
Section Durable.
Variable deflate : bytes -> bytes.
Variable inflate : bytes -> option bytes.
Hypothesis inflate_deflate : forall p, inflate (deflate p) = Some p.
Variable docs : list doc.
Hypothesis docs_wf : Forall doc_wf docs.
Hypothesis docs_schema : same_schema docs.
Hypothesis docs_sig : forall a b, In a docs -> In b docs -> schema_sig a = schema_sig b.

Let D := fun d : doc => In d docs.

Lemma du_wf : forall d, D d -> doc_wf d.
Proof. intros d Hd. unfold D in Hd. rewrite Forall_forall in docs_wf. apply docs_wf. exact Hd. Qed.

Lemma du_dist : forall aware a b, D a -> D b -> map fst (flatten_doc a) = map fst (flatten_doc b) ->
  (aware = true -> schema_sig a = schema_sig b) -> skeleton_doc a = skeleton_doc b.
Proof. intros aware a b Ha Hb _ _. apply docs_schema; assumption. Qed.

Definition DI (k : kind) (n : Z) (st : coll * writer) (gsw : list (list doc)) (g : list doc) : Prop :=
  w_faults (snd st) = [] /\ wstream deflate (n - 1) (emitted (snd st)) gsw /\
  Forall (fun x : list doc => glen x = n) gsw /\ glen g <= n /\
  match k, fst st with
  | KStream, CStream s => stream_inv D n s g
  | KSDyn, CSDyn x => sdyn_inv D n x g
  | _, _ => False
  end.

Lemma du_same_types : forall d g, D d -> Forall D g -> g <> [] -> same_types d g.
Proof.
  intros d g Hd Hg Hne. unfold same_types. apply flatten_types_same_schema. apply docs_schema; [exact Hd|].
  destruct g as [|x r]; [congruence|]. inversion Hg; assumption.
Qed.

Lemma stream_inv_D : forall n s g, stream_inv D n s g -> Forall D g.
Proof. intros n s g (b & _ & _ & _ & (_ & [Hd _] & _) & _). exact Hd. Qed.

(* one accepted Add of the common schema through the streaming collector *)
Lemma du_sc_add : forall aware n s g w d now, 1 <= n -> stream_inv D n s g -> w_faults w = [] -> D d ->
  sigprem aware g d ->
  (glen g < n /\ exists s', sc_add deflate s w d now = (s', w, ROk) /\ stream_inv D n s' (g ++ [d])) \/
  (n <= glen g /\ exists out s', sc_add deflate s w d now = (s', w_push w out, ROk) /\
                  wstream deflate (n - 1) out [g] /\ stream_inv D n s' [d]).
Proof.
  intros aware n s g w d now Hn Hinv Hf Hd Hsp.
  destruct (Z_lt_le_dec (glen g) n) as [Hroom|Hfull].
  - left. split; [exact Hroom|]. rewrite (sc_add_room deflate D n s g w d now Hinv Hroom).
    destruct g as [|x r].
    + apply (sc_tail_empty D aware du_wf (du_dist aware) n s w d now Hn Hinv Hd).
    + destruct (sc_tail_room D aware du_wf (du_dist aware) n s (x :: r) w d now Hinv ltac:(discriminate) Hroom Hd Hsp)
        as [(s' & Ht & Hs' & _)|(r' & _ & _ & Hnot)].
      * exists s'. split; assumption.
      * exfalso. apply Hnot. apply du_same_types; [exact Hd|apply (stream_inv_D n s _ Hinv)|discriminate].
  - right. split; [exact Hfull|]. apply (sc_add_full deflate D aware du_wf (du_dist aware) n s g w d now Hn Hinv Hfull Hf Hd).
Qed.

Lemma du_sd_unchanged : forall n c g d, sdyn_inv D n c g -> g <> [] -> D d -> sd_changed c d = false.
Proof.
  intros n c g d [Hs Hh] Hne Hd. unfold sd_changed. destruct (sd_hash c) as [h|]; [|congruence].
  destruct g as [|y r]; [congruence|]. specialize (Hh y (or_introl eq_refl)).
  assert (Hy : D y). { pose proof (stream_inv_D n _ _ Hs) as HF. inversion HF; assumption. }
  rewrite <- (docs_sig y d Hy Hd), Hh. cbn [fst snd]. rewrite Z.eqb_refl, cb_bytes_eqb_refl. reflexivity.
Qed.

Lemma du_step : forall k n c w gsw g d now, streaming k = true -> 1 <= n -> DI k n (c, w) gsw g -> D d ->
  exists c' w' gsw' g', c_add deflate c w d now = (c', w', ROk) /\ DI k n (c', w') gsw' g' /\
    concat gsw' ++ g' = (concat gsw ++ g) ++ [d] /\ 1 <= glen g'.
Proof.
  intros k n c w gsw g d now Hk Hn (Hf & Hws & Hfull & Hgl & Hc) Hd. cbn [fst snd] in *.
  assert (Hpush : forall out, wstream deflate (n - 1) out [g] -> glen g = n ->
            w_faults (w_push w out) = [] /\ wstream deflate (n - 1) (emitted (w_push w out)) (gsw ++ [g]) /\
            Forall (fun x : list doc => glen x = n) (gsw ++ [g])).
  { intros out Hout Hg. split; [reflexivity|]. split.
    - rewrite emitted_push. apply wstream_app; assumption.
    - apply Forall_app. split; [exact Hfull|]. constructor; [exact Hg|constructor]. }
  destruct k; try discriminate Hk; destruct c as [b|b|x|s|x|u]; try contradiction; cbn [c_add].
  - (* streaming *)
    destruct (du_sc_add false n s g w d now Hn Hc Hf Hd ltac:(intros H; discriminate H))
      as [(Hroom & s' & Hadd & Hs')|(Hfl & out & s' & Hadd & Hout & Hs')]; rewrite Hadd.
    + exists (CStream s'), w, gsw, (g ++ [d]). split; [reflexivity|]. split.
      * split; [exact Hf|]. split; [exact Hws|]. split; [exact Hfull|]. split; [rewrite glen_snoc; lia|exact Hs'].
      * split; [rewrite app_assoc; reflexivity|]. rewrite glen_snoc. unfold glen. lia.
    + destruct (Hpush out Hout ltac:(lia)) as (H1 & H2 & H3).
      exists (CStream s'), (w_push w out), (gsw ++ [g]), [d]. split; [reflexivity|]. split.
      * split; [exact H1|]. split; [exact H2|]. split; [exact H3|]. split; [change (glen [d]) with 1; lia|exact Hs'].
      * split; [rewrite cp_concat_snoc; reflexivity|]. change (glen [d]) with 1. lia.
  - (* streaming dynamic *)
    pose proof Hc as [Hs Hh].
    destruct (sd_changed x d) eqn:Ech.
    + (* only possible while nothing is held *)
      assert (Hg : g = []).
      { destruct g as [|y r]; [reflexivity|]. rewrite (du_sd_unchanged n x (y :: r) d Hc ltac:(discriminate) Hd) in Ech. discriminate Ech. }
      subst g.
      destruct (sd_add_changed deflate D true du_wf (du_dist true) n x [] w d now Hn Hc Ech Hf Hd)
        as (c' & w' & Hadd & Hc' & [[_ ->]|[Hne _]]); [|congruence].
      rewrite Hadd. exists (CSDyn c'), w, gsw, [d]. split; [reflexivity|]. split.
      * split; [exact Hf|]. split; [exact Hws|]. split; [exact Hfull|]. split; [change (glen [d]) with 1; lia|exact Hc'].
      * split; [rewrite app_nil_r; reflexivity|]. change (glen [d]) with 1. lia.
    + rewrite (sd_add_same_eq deflate x w d now Ech).
      assert (Hsig : forall y, In y (g ++ [d]) -> schema_sig y = match sd_hash x with Some h => (h, sd_mcount x) | None => schema_sig y end).
      { destruct (sd_hash_some x d Ech) as [h Eh]. rewrite Eh. rewrite Eh in Hh. intros y Hy. apply in_app_or in Hy.
        destruct Hy as [Hy|[<-|[]]]; [apply Hh; exact Hy|].
        unfold sd_changed in Ech. rewrite Eh in Ech. apply orb_false_iff in Ech. destruct Ech as [H1 H2].
        apply negb_false_iff in H1, H2. apply Z.eqb_eq in H1. apply cb_bytes_eqb_true in H2.
        destruct (schema_sig d). cbn [fst snd] in *. congruence. }
      assert (Hsp : sigprem true g d).
      { intros _ y Hy. destruct (sd_hash_some x d Ech) as [h Eh]. rewrite Eh in Hsig.
        rewrite (Hsig y (in_or_app g [d] y (or_introl Hy))), (Hsig d (in_or_app g [d] d (or_intror (in_eq d [])))). reflexivity. }
      destruct (du_sc_add true n (sd_s x) g w d now Hn Hs Hf Hd Hsp)
        as [(Hroom & s' & Hadd & Hs')|(Hfl & out & s' & Hadd & Hout & Hs')]; rewrite Hadd.
      * eexists (CSDyn _), w, gsw, (g ++ [d]). split; [reflexivity|]. split.
        -- split; [exact Hf|]. split; [exact Hws|]. split; [exact Hfull|]. split; [rewrite glen_snoc; lia|].
           split; [exact Hs'|]. cbn [sd_hash sd_mcount]. destruct (sd_hash_some x d Ech) as [h Eh]. rewrite Eh in *. exact Hsig.
        -- split; [rewrite app_assoc; reflexivity|]. rewrite glen_snoc. unfold glen. lia.
      * destruct (Hpush out Hout ltac:(lia)) as (H1 & H2 & H3).
        eexists (CSDyn _), (w_push w out), (gsw ++ [g]), [d]. split; [reflexivity|]. split.
        -- split; [exact H1|]. split; [exact H2|]. split; [exact H3|]. split; [change (glen [d]) with 1; lia|].
           split; [exact Hs'|]. cbn [sd_hash sd_mcount]. destruct (sd_hash_some x d Ech) as [h Eh]. rewrite Eh in *.
           intros y [<-|[]]. apply Hsig. apply in_or_app. right. left. reflexivity.
        -- split; [rewrite cp_concat_snoc; reflexivity|]. change (glen [d]) with 1. lia.
Qed.

Lemma du_run : forall k n, streaming k = true -> 1 <= n ->
  forall rest nows st gsw g, length nows = length rest -> (forall d, In d rest -> D d) -> DI k n st gsw g ->
  (rest <> [] \/ 1 <= glen g \/ (gsw = [] /\ g = [])) ->
  exists st' gsw' g', run deflate st (add_ops rest nows) = (st', map (fun _ => BAdd ROk) rest) /\
    DI k n st' gsw' g' /\ concat gsw' ++ g' = (concat gsw ++ g) ++ rest /\
    (1 <= glen g' \/ (gsw' = [] /\ g' = [])).
Proof.
  intros k n Hk Hn. induction rest as [|d rest IH]; intros nows st gsw g Hlen Hsub Hdi Hnz.
  - exists st, gsw, g. destruct nows; [|discriminate Hlen]. split; [reflexivity|]. split; [exact Hdi|].
    split; [rewrite app_nil_r; reflexivity|]. destruct Hnz as [H|H]; [congruence|exact H].
  - destruct nows as [|now nows]; [discriminate Hlen|]. destruct st as [c w].
    destruct (du_step k n c w gsw g d now Hk Hn Hdi (Hsub d (or_introl eq_refl))) as (c' & w' & gsw' & g' & Hadd & Hdi' & Hcat & Hpos).
    destruct (IH nows (c', w') gsw' g' ltac:(cbn [length] in Hlen; lia) (fun x Hx => Hsub x (or_intror Hx)) Hdi' (or_intror (or_introl Hpos)))
      as (st'' & gsw'' & g'' & Hrun & Hdi'' & Hcat'' & Hpos'').
    exists st'', gsw'', g''. split.
    + unfold add_ops. cbn [combine map run step fst snd]. rewrite Hadd. fold (add_ops rest nows). rewrite Hrun. reflexivity.
    + split; [exact Hdi''|]. split; [|exact Hpos'']. rewrite Hcat'', Hcat, <- app_assoc. reflexivity.
Qed.

Lemma concat_full_length : forall n (gs : list (list doc)), Forall (fun x : list doc => glen x = n) gs ->
  Z.of_nat (length (concat gs)) = n * Z.of_nat (length gs).
Proof.
  intros n gs H. induction H as [|g gs Hg _ IH]; [cbn; lia|].
  cbn [concat length]. rewrite app_length. unfold glen in Hg. lia.
Qed.

Theorem c09_durability : forall k n nows, streaming k = true -> 1 <= n < 2 ^ 31 -> length nows = length docs ->
  let res := run deflate (new_coll k n, mkWriter [] [] false) (add_ops docs nows) in
  snd res = map (fun _ => BAdd ROk) docs /\
  exists m, samples_in inflate (snd (fst res)) = Some m /\
            n * ((Z.of_nat (length docs) - 1) / n) <= Z.of_nat m.
Proof.
  intros k n nows Hk Hn Hlen res. subst res.
  assert (Hinit : DI k n (new_coll k n, mkWriter [] [] false) [] []).
  { split; [reflexivity|]. split; [constructor|]. split; [constructor|]. split; [change (glen []) with 0; lia|].
    destruct k; try discriminate Hk; cbn [fst new_coll]; [apply stream_new_inv|apply sd_new_inv]; lia. }
  destruct (du_run k n Hk ltac:(lia) docs nows _ [] [] Hlen (fun d H => H) Hinit (or_intror (or_intror (conj eq_refl eq_refl))))
    as (st' & gsw' & g' & Hrun & (Hf & Hws & Hfull & Hgl & _) & Hcat & Hpos).
  rewrite Hrun. cbn [fst snd]. split; [reflexivity|].
  destruct (decode_wstream deflate inflate inflate_deflate (n - 1) _ _ ltac:(lia) Hws) as [metas Hdec].
  exists (length (concat gsw')). unfold samples_in. rewrite Hdec. cbn [dc_docs]. rewrite map_length.
  split; [reflexivity|].
  cbn [concat app] in Hcat. apply (f_equal (@length doc)) in Hcat. rewrite app_length in Hcat.
  pose proof (concat_full_length n gsw' Hfull) as Hw.
  destruct Hpos as [Hp|[-> ->]].
  - unfold glen in Hp, Hgl. rewrite <- Hcat. rewrite Nat2Z.inj_add, Hw.
    replace (n * Z.of_nat (length gsw') + Z.of_nat (length g') - 1) with ((Z.of_nat (length g') - 1) + Z.of_nat (length gsw') * n) by lia.
    rewrite Z.div_add by lia. rewrite Z.div_small by lia. lia.
  - assert (Hz : Z.of_nat (length docs) = 0) by (cbn [concat length] in Hcat; lia). rewrite Hz.
    assert (H : (0 - 1) / n = -1). { symmetry. apply (Z.div_unique (0 - 1) n (-1) (n - 1)); lia. }
    rewrite H. cbn [concat length Z.of_nat]. lia.
Qed.

End Durable.

(* ------------------------------------------------------------------ non-vacuity *)
Definition ex_dA (x : Z) : doc := [([120]%N, VInt64 x); ([115]%N, VBinary 128 [1; 2]%N)].
Definition ex_dB : doc := [([120]%N, VInt64 9); ([121]%N, VDoc [([122]%N, VBool true)])].
Definition ex_ops : list op :=
  [OSetMeta (Some [([109]%N, VInt32 1)]); OAdd (ex_dA 1) 0; OAdd (ex_dA 2) 0; OAdd (ex_dA 3) 0; OAdd (ex_dA 3) 0;
   OAdd ex_dB 5; OFlush].

Theorem c09_example :
  ops_ok KSDyn ex_ops /\ Forall op_frame_ok ex_ops /\ ops_fit 2 ex_ops /\ no_short [FError; FNone; FError] /\
  snd (run sw_deflate (new_coll KSDyn 2, mkWriter [] [FError; FNone; FError] false) ex_ops) =
    [BSetMeta; BAdd ROk; BAdd ROk; BAdd RFlush; BAdd ROk; BAdd RFlush; BFlush true] /\
  c09_run sw_deflate sw_inflate KSDyn 2 [FError; FNone; FError] ex_ops = true /\
  Forall (fun d => small (enc_doc d)) (emitted (snd (c09_reach sw_deflate KSDyn 2 [FError; FNone; FError] ex_ops))) /\
  length (emitted (snd (c09_reach sw_deflate KSDyn 2 [FError; FNone; FError] ex_ops))) = 4%nat.
Proof.
  assert (Hin : forall d, ops_added ex_ops d -> d = ex_dA 1 \/ d = ex_dA 2 \/ d = ex_dA 3 \/ d = ex_dB).
  { intros d [now Hd]. cbn [ex_ops In] in Hd.
    destruct Hd as [H|[H|[H|[H|[H|[H|[H|[]]]]]]]]; try discriminate H; injection H as <- _; tauto. }
  split.
  { split.
    - intros d Hd. destruct (Hin d Hd) as [-> |[-> |[-> | ->]]];
        (split; [reflexivity|]; split; [reflexivity|]; split; [unfold small; vm_compute; reflexivity|];
         split; [reflexivity|vm_compute; reflexivity]).
    - intros a b Ha Hb Ht _.
      destruct (Hin a Ha) as [-> |[-> |[-> | ->]]]; destruct (Hin b Hb) as [-> |[-> |[-> | ->]]];
        try reflexivity; vm_compute in Ht; discriminate Ht. }
  split. { repeat constructor. }
  split.
  { split; [vm_compute; discriminate|]. intros d Hd.
    destruct (Hin d Hd) as [-> |[-> |[-> | ->]]]; vm_compute; discriminate. }
  split. { repeat constructor. }
  split; [vm_compute; reflexivity|]. split; [vm_compute; reflexivity|].
  split; [|vm_compute; reflexivity].
  apply Forall_forall. intros d Hd. unfold small.
  assert (Hall : forallb (fun d => (N.of_nat (length (enc_doc d)) <? 2 ^ 31)%N)
            (emitted (snd (c09_reach sw_deflate KSDyn 2 [FError; FNone; FError] ex_ops))) = true) by (vm_compute; reflexivity).
  rewrite forallb_forall in Hall. apply N.ltb_lt. apply (Hall d Hd).
Qed.
