(* Oracle soundness for C01: the executable oracle c01_ok of Model/Instance.v
   accepts the model's own structured read-back of what the model emitted. *)
From Coq Require Import ZArith NArith List Bool.
From FV.Model Require Import Bytes Bson Metrics Codec Collector Wf RoundTrip CollectorOk Instance.
From FV.Proofs Require Import CodecProofs CollectorBase.
Import ListNotations.
Open Scope Z_scope.

(* the codec used in extraction is a zlib in the sense of the C01 section *)
Lemma inflate_deflate_flag : forall p, inflate_flag (deflate_flag p) = Some p.
Proof. intros p. reflexivity. Qed.

Lemma c01_oracle_sound : forall (deflate : bytes -> bytes) (inflate : bytes -> option bytes),
  (forall p, inflate (deflate p) = Some p) ->
  forall k n docs nows,
  compressing k = true -> 1 <= n < 2 ^ 31 ->
  (docs <> [] /\ length nows = length docs /\ Forall (fun t => in_i64 t = true) nows /\
   same_schema docs /\
   Forall (fun d => doc_ok d = true /\ doc_leaves_ok d = true /\ small (enc_doc d)) docs /\
   (N.of_nat (length (flatten_doc (hd [] docs))) < 2 ^ 32)%N) ->
  fits k n docs ->
  Forall (fun d => doc_has_ts_seconds d = false) docs ->
  exists decoded,
    read_structured inflate (emitted (snd (fst (emit deflate k n docs nows)))) = (Some decoded, None) /\
    c01_ok docs decoded = true.
Proof.
  intros deflate inflate Hid k n docs nows Hk Hn Hin Hfit Hts.
  destruct (codec_roundtrip deflate inflate Hid k n docs nows Hk Hn Hin Hfit Hts) as [_ Hr].
  exists (map strip_doc docs). split; [exact Hr|].
  unfold c01_ok. apply cb_docs_eqb_refl.
Qed.

Lemma c01_oracle_sound_flag : forall k n docs nows,
  compressing k = true -> 1 <= n < 2 ^ 31 ->
  (docs <> [] /\ length nows = length docs /\ Forall (fun t => in_i64 t = true) nows /\
   same_schema docs /\
   Forall (fun d => doc_ok d = true /\ doc_leaves_ok d = true /\ small (enc_doc d)) docs /\
   (N.of_nat (length (flatten_doc (hd [] docs))) < 2 ^ 32)%N) ->
  fits k n docs ->
  Forall (fun d => doc_has_ts_seconds d = false) docs ->
  exists decoded,
    read_structured inflate_flag (emitted (snd (fst (emit deflate_flag k n docs nows)))) = (Some decoded, None) /\
    c01_ok docs decoded = true.
Proof. exact (c01_oracle_sound deflate_flag inflate_flag inflate_deflate_flag). Qed.
