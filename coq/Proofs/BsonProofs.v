(* Round-trip proofs for the BSON model: dec_value (enc_value v ++ rest) = (v, rest),
   byte well-formedness of the encoder output, documents and document streams. *)
From Coq Require Import ZArith NArith List Bool Lia.
From FV.Model Require Import Bytes Bson.
Import ListNotations.

(* fits BSON's signed 32-bit length fields (identical to FV.Model.Wf.small) *)
Definition small (b : bytes) : Prop := (N.of_nat (length b) < 2 ^ 31)%N.

(* ------------------------------------------------------------------ *)
(* little endian words                                                 *)
(* ------------------------------------------------------------------ *)

Lemma bs_le_enc_length : forall n x, length (le_enc n x) = n.
Proof. induction n; intros; cbn [le_enc length]; auto. Qed.

Lemma bs_le_dec_enc : forall n x, (x < 256 ^ N.of_nat n)%N -> le_dec (le_enc n x) = x.
Proof.
  induction n; intros x H.
  - cbn [le_enc le_dec]. change (256 ^ N.of_nat 0)%N with 1%N in H. lia.
  - cbn [le_enc le_dec].
    rewrite Nat2N.inj_succ, N.pow_succ_r' in H.
    rewrite IHn.
    + pose proof (N.div_mod x 256). lia.
    + apply N.div_lt_upper_bound; lia.
Qed.

Lemma bs_le_enc_wf : forall n x, wf_bytes (le_enc n x).
Proof.
  unfold wf_bytes. induction n; intros; cbn [le_enc]; constructor; auto.
  apply N.mod_lt. lia.
Qed.

(* ------------------------------------------------------------------ *)
(* take_exact / read_le                                                *)
(* ------------------------------------------------------------------ *)

Lemma bs_firstn_app : forall (a b : bytes), firstn (length a) (a ++ b) = a.
Proof. induction a; intros; cbn [length firstn app]; f_equal; auto. Qed.

Lemma bs_skipn_app : forall (a b : bytes), skipn (length a) (a ++ b) = b.
Proof. induction a; intros; cbn [length skipn app]; auto. Qed.

Lemma bs_take_exact_app : forall n (a b : bytes),
  n = length a -> take_exact n (a ++ b) = Some (a, b).
Proof.
  intros n a b ->. unfold take_exact.
  replace (Nat.leb (length a) (length (a ++ b))) with true.
  - rewrite bs_firstn_app, bs_skipn_app. reflexivity.
  - symmetry. apply Nat.leb_le. rewrite app_length. lia.
Qed.

Lemma bs_read_le_enc : forall n x rest, (x < 256 ^ N.of_nat n)%N ->
  read_le n (le_enc n x ++ rest) = Some (x, rest).
Proof.
  intros. unfold read_le.
  rewrite bs_take_exact_app by (symmetry; apply bs_le_enc_length).
  rewrite bs_le_dec_enc by assumption. reflexivity.
Qed.

Lemma bs_pow4 : (256 ^ N.of_nat 4 = 2 ^ 32)%N.
Proof. reflexivity. Qed.
Lemma bs_pow8 : (256 ^ N.of_nat 8 = 2 ^ 64)%N.
Proof. reflexivity. Qed.

Lemma bs_read_le4 : forall x rest, (x < 2 ^ 32)%N ->
  read_le 4 (le_enc 4 x ++ rest) = Some (x, rest).
Proof. intros. apply bs_read_le_enc. rewrite bs_pow4. assumption. Qed.

Lemma bs_read_le8 : forall x rest, (x < 2 ^ 64)%N ->
  read_le 8 (le_enc 8 x ++ rest) = Some (x, rest).
Proof. intros. apply bs_read_le_enc. rewrite bs_pow8. assumption. Qed.

(* ------------------------------------------------------------------ *)
(* two's complement views                                              *)
(* ------------------------------------------------------------------ *)

Lemma bs_u64_lt : forall z, (u64 z < 2 ^ 64)%N.
Proof.
  intros. unfold u64.
  pose proof (Z.mod_pos_bound z (2 ^ 64) ltac:(lia)). lia.
Qed.

Lemma bs_u32_lt : forall z, (u32 z < 2 ^ 32)%N.
Proof.
  intros. unfold u32.
  pose proof (Z.mod_pos_bound z (2 ^ 32) ltac:(lia)). lia.
Qed.

Lemma bs_s64_u64 : forall z, in_i64 z = true -> s64 (u64 z) = z.
Proof.
  intros z H. unfold in_i64 in H. apply andb_true_iff in H. destruct H as [H1 H2].
  apply Z.leb_le in H1. apply Z.ltb_lt in H2.
  unfold s64, u64, wrap64.
  pose proof (Z.mod_pos_bound z (2 ^ 64) ltac:(lia)).
  rewrite Z2N.id by lia.
  Z.div_mod_to_equations. lia.
Qed.

Lemma bs_s32_u32 : forall z, in_i32 z = true -> s32 (u32 z) = z.
Proof.
  intros z H. unfold in_i32 in H. apply andb_true_iff in H. destruct H as [H1 H2].
  apply Z.leb_le in H1. apply Z.ltb_lt in H2.
  unfold s32, u32, wrap32.
  pose proof (Z.mod_pos_bound z (2 ^ 32) ltac:(lia)).
  rewrite Z2N.id by lia.
  Z.div_mod_to_equations. lia.
Qed.

Lemma bs_ofN_u32 : forall z, in_u32 z = true -> Z.of_N (u32 z) = z.
Proof.
  intros z H. unfold in_u32 in H. apply andb_true_iff in H. destruct H as [H1 H2].
  apply Z.leb_le in H1. apply Z.ltb_lt in H2.
  unfold u32. rewrite Z.mod_small by lia. lia.
Qed.

(* ------------------------------------------------------------------ *)
(* cstrings, keys, decimal digits                                      *)
(* ------------------------------------------------------------------ *)

Lemma bs_key_ok_cons : forall a k,
  key_ok (a :: k) = true <-> ((0 < a)%N /\ (a < 256)%N) /\ key_ok k = true.
Proof.
  intros. unfold key_ok. cbn [forallb].
  rewrite !andb_true_iff, !N.ltb_lt. tauto.
Qed.

Lemma bs_bytes_ok_cons : forall a k,
  bytes_ok (a :: k) = true <-> (a < 256)%N /\ bytes_ok k = true.
Proof.
  intros. unfold bytes_ok. cbn [forallb].
  rewrite !andb_true_iff, !N.ltb_lt. tauto.
Qed.

Lemma bs_bytes_ok_wf : forall s, bytes_ok s = true -> wf_bytes s.
Proof.
  unfold wf_bytes. induction s; intros H; constructor;
    apply bs_bytes_ok_cons in H; tauto.
Qed.

Lemma bs_key_ok_wf : forall s, key_ok s = true -> wf_bytes s.
Proof.
  unfold wf_bytes. induction s; intros H; constructor;
    apply bs_key_ok_cons in H; tauto.
Qed.

Lemma bs_split_cstring : forall k rest, key_ok k = true ->
  split_cstring (cstring k ++ rest) = Some (k, rest).
Proof.
  unfold cstring. induction k; intros rest H.
  - reflexivity.
  - apply bs_key_ok_cons in H. destruct H as [[H0 _] Hk].
    cbn [app split_cstring].
    replace (a =? 0)%N with false by (symmetry; apply N.eqb_neq; lia).
    specialize (IHk rest Hk). cbn [app] in IHk. rewrite IHk. reflexivity.
Qed.

Lemma bs_digits_fuel_ok : forall fuel n acc,
  key_ok acc = true -> key_ok (dec_digits_fuel fuel n acc) = true.
Proof.
  induction fuel; intros n acc H; cbn [dec_digits_fuel]; auto.
  assert (Hc : key_ok ((48 + n mod 10)%N :: acc) = true).
  { apply bs_key_ok_cons. pose proof (N.mod_lt n 10 ltac:(lia)) as Hm.
    split; [ | assumption]. generalize dependent (n mod 10)%N. intros; lia. }
  destruct (n <? 10)%N; auto.
Qed.

Lemma bs_digits_ok : forall n, key_ok (dec_digits n) = true.
Proof. intros. unfold dec_digits. apply bs_digits_fuel_ok. reflexivity. Qed.

(* ------------------------------------------------------------------ *)
(* frames and length-prefixed strings                                  *)
(* ------------------------------------------------------------------ *)

Lemma bs_cstring_length : forall k, length (cstring k) = length k + 1.
Proof. intros. unfold cstring. rewrite app_length. reflexivity. Qed.

Lemma bs_frame_length : forall body, length (frame body) = length body + 5.
Proof.
  intros. unfold frame. rewrite !app_length, bs_le_enc_length. cbn [length]. lia.
Qed.

Lemma bs_bstring_length : forall s, length (bstring s) = length s + 5.
Proof.
  intros. unfold bstring. rewrite !app_length, bs_le_enc_length. cbn [length]. lia.
Qed.

Lemma bs_read_frame : forall body rest,
  (N.of_nat (length body + 5) < 2 ^ 32)%N ->
  read_frame (frame body ++ rest) = Some (body, rest).
Proof.
  intros body rest H. unfold read_frame, frame.
  rewrite <- app_assoc. rewrite bs_read_le4 by assumption.
  replace (N.of_nat (length body + 5) <? 5)%N with false
    by (symmetry; apply N.ltb_ge; lia).
  rewrite Nat2N.id. rewrite <- app_assoc.
  rewrite bs_take_exact_app by lia.
  reflexivity.
Qed.

Lemma bs_read_bstring : forall s rest,
  (N.of_nat (length s + 1) < 2 ^ 32)%N ->
  read_bstring (bstring s ++ rest) = Some (s, rest).
Proof.
  intros s rest H. unfold read_bstring, bstring.
  rewrite <- app_assoc. rewrite bs_read_le4 by assumption.
  replace (N.of_nat (length s + 1) <? 1)%N with false
    by (symmetry; apply N.ltb_ge; lia).
  rewrite Nat2N.id. rewrite <- app_assoc.
  rewrite bs_take_exact_app by lia.
  reflexivity.
Qed.

Lemma bs_frame_wf : forall body, wf_bytes body -> wf_bytes (frame body).
Proof.
  intros. unfold frame, wf_bytes. rewrite !Forall_app. repeat split.
  - apply bs_le_enc_wf.
  - assumption.
  - constructor; [lia | constructor].
Qed.

Lemma bs_bstring_wf : forall s, wf_bytes s -> wf_bytes (bstring s).
Proof.
  intros. unfold bstring, wf_bytes. rewrite !Forall_app. repeat split.
  - apply bs_le_enc_wf.
  - assumption.
  - constructor; [lia | constructor].
Qed.

Lemma bs_cstring_wf : forall s, wf_bytes s -> wf_bytes (cstring s).
Proof.
  intros. unfold cstring, wf_bytes. rewrite Forall_app. split; auto.
  constructor; [lia | constructor].
Qed.

(* ------------------------------------------------------------------ *)
(* standalone views of the nested fixpoints                            *)
(* ------------------------------------------------------------------ *)

(* array elements with their index keys *)
Fixpoint arr_keys (i : N) (a : list value) : list (bytes * value) :=
  match a with
  | [] => []
  | x :: r => (dec_digits i, x) :: arr_keys (i + 1)%N r
  end.

Fixpoint arr_ok (a : list value) : bool :=
  match a with [] => true | x :: r => value_ok x && arr_ok r end.

Lemma bs_map_snd_arr_keys : forall a i, map snd (arr_keys i a) = a.
Proof. induction a; intros; cbn [arr_keys map snd]; f_equal; auto. Qed.

Lemma bs_enc_VDoc : forall d, enc_value (VDoc d) = frame (enc_elems d).
Proof. reflexivity. Qed.

Lemma bs_enc_VCws : forall c s,
  enc_value (VCodeWithScope c s) =
  le_enc 4 (N.of_nat (length (bstring c ++ frame (enc_elems s)) + 4))
    ++ bstring c ++ frame (enc_elems s).
Proof. reflexivity. Qed.

Lemma bs_enc_VArr : forall a, enc_value (VArr a) = frame (enc_elems (arr_keys 0 a)).
Proof.
  intros. cbn [enc_value]. f_equal. generalize 0%N.
  induction a; intros i; cbn [arr_keys enc_elems]; [reflexivity|].
  rewrite IHa. reflexivity.
Qed.

Lemma bs_ok_VDoc : forall d, value_ok (VDoc d) = doc_ok d.
Proof. reflexivity. Qed.

Lemma bs_ok_VCws : forall c s, value_ok (VCodeWithScope c s) = bytes_ok c && doc_ok s.
Proof. reflexivity. Qed.

Lemma bs_ok_VArr : forall a, value_ok (VArr a) = arr_ok a.
Proof. reflexivity. Qed.

Lemma bs_doc_ok_arr_keys : forall a i, arr_ok a = true -> doc_ok (arr_keys i a) = true.
Proof.
  induction a; intros i H; cbn [arr_keys doc_ok]; [reflexivity|].
  cbn [arr_ok] in H. apply andb_true_iff in H. destruct H as [H1 H2].
  rewrite bs_digits_ok, H1, IHa by assumption. reflexivity.
Qed.

Lemma bs_enc_elems_cons : forall k x r,
  enc_elems ((k, x) :: r) = tag x :: cstring k ++ enc_value x ++ enc_elems r.
Proof. reflexivity. Qed.

Lemma bs_enc_elems_cons_length : forall k x r,
  length (enc_elems ((k, x) :: r)) =
  1 + (length k + 1) + length (enc_value x) + length (enc_elems r).
Proof.
  intros. rewrite bs_enc_elems_cons. cbn [length].
  rewrite !app_length, bs_cstring_length. lia.
Qed.

Lemma bs_doc_ok_cons : forall k x r,
  doc_ok ((k, x) :: r) = true <-> key_ok k = true /\ value_ok x = true /\ doc_ok r = true.
Proof. intros. cbn [doc_ok]. rewrite !andb_true_iff. tauto. Qed.

(* the decoder's inner element loop, for outer fuel [f] *)
Section Go.
  Variable f : nat.
  Fixpoint dec_elems_go (fuel' : nat) (body : bytes) {struct fuel'}
    : option (list (bytes * value)) :=
    match fuel' with
    | O => None
    | S f' =>
        match body with
        | [] => Some []
        | tg :: r =>
            match split_cstring r with
            | Some (k, r1) =>
                match dec_value f tg r1 with
                | Some (v, r2) => match dec_elems_go f' r2 with
                                  | Some es => Some ((k, v) :: es)
                                  | None => None
                                  end
                | None => None
                end
            | None => None
            end
        end
    end.
End Go.

Lemma bs_go_nil : forall f f', dec_elems_go f (S f') [] = Some [].
Proof. reflexivity. Qed.

Lemma bs_go_cons : forall f f' tg r,
  dec_elems_go f (S f') (tg :: r) =
  match split_cstring r with
  | Some (k, r1) =>
      match dec_value f tg r1 with
      | Some (v, r2) => match dec_elems_go f f' r2 with
                        | Some es => Some ((k, v) :: es)
                        | None => None
                        end
      | None => None
      end
  | None => None
  end.
Proof. reflexivity. Qed.

(* one unfolding lemma per tag, all by computation *)
Lemma bs_dec_1 : forall f l, dec_value (S f) 1 l =
  match read_le 8 l with Some (x, r) => Some (VDouble (s64 x), r) | None => None end.
Proof. reflexivity. Qed.
Lemma bs_dec_2 : forall f l, dec_value (S f) 2 l =
  match read_bstring l with Some (s, r) => Some (VString s, r) | None => None end.
Proof. reflexivity. Qed.
Lemma bs_dec_3 : forall f l, dec_value (S f) 3 l =
  match read_frame l with
  | Some (body, r) => match dec_elems_go f (S (length body)) body with
                      | Some es => Some (VDoc es, r) | None => None end
  | None => None end.
Proof. reflexivity. Qed.
Lemma bs_dec_4 : forall f l, dec_value (S f) 4 l =
  match read_frame l with
  | Some (body, r) => match dec_elems_go f (S (length body)) body with
                      | Some es => Some (VArr (map snd es), r) | None => None end
  | None => None end.
Proof. reflexivity. Qed.
Lemma bs_dec_5 : forall f l, dec_value (S f) 5 l =
  match read_le 4 l with
  | Some (n, r) => match r with
                   | st :: r1 => match take_exact (N.to_nat n) r1 with
                                 | Some (b, r2) => Some (VBinary st b, r2) | None => None end
                   | [] => None end
  | None => None end.
Proof. reflexivity. Qed.
Lemma bs_dec_6 : forall f l, dec_value (S f) 6 l = Some (VUndefined, l).
Proof. reflexivity. Qed.
Lemma bs_dec_7 : forall f l, dec_value (S f) 7 l =
  match take_exact 12 l with Some (b, r) => Some (VObjectID b, r) | None => None end.
Proof. reflexivity. Qed.
Lemma bs_dec_8 : forall f l, dec_value (S f) 8 l =
  match l with
  | b :: r => if (b =? 0)%N then Some (VBool false, r)
              else if (b =? 1)%N then Some (VBool true, r) else None
  | [] => None end.
Proof. reflexivity. Qed.
Lemma bs_dec_9 : forall f l, dec_value (S f) 9 l =
  match read_le 8 l with Some (x, r) => Some (VDateTime (s64 x), r) | None => None end.
Proof. reflexivity. Qed.
Lemma bs_dec_10 : forall f l, dec_value (S f) 10 l = Some (VNull, l).
Proof. reflexivity. Qed.
Lemma bs_dec_11 : forall f l, dec_value (S f) 11 l =
  match split_cstring l with
  | Some (p, r) => match split_cstring r with
                   | Some (o, r') => Some (VRegex p o, r') | None => None end
  | None => None end.
Proof. reflexivity. Qed.
Lemma bs_dec_12 : forall f l, dec_value (S f) 12 l =
  match read_bstring l with
  | Some (ns, r) => match take_exact 12 r with
                    | Some (oid, r') => Some (VDBPointer ns oid, r') | None => None end
  | None => None end.
Proof. reflexivity. Qed.
Lemma bs_dec_13 : forall f l, dec_value (S f) 13 l =
  match read_bstring l with Some (s, r) => Some (VJavaScript s, r) | None => None end.
Proof. reflexivity. Qed.
Lemma bs_dec_14 : forall f l, dec_value (S f) 14 l =
  match read_bstring l with Some (s, r) => Some (VSymbol s, r) | None => None end.
Proof. reflexivity. Qed.
Lemma bs_dec_15 : forall f l, dec_value (S f) 15 l =
  match read_le 4 l with
  | Some (n, r) =>
      match read_bstring r with
      | Some (code, r1) =>
          match read_frame r1 with
          | Some (body, r2) =>
              match dec_elems_go f (S (length body)) body with
              | Some es =>
                  if (N.to_nat n =? 4 + (length r - length r2))%nat
                  then Some (VCodeWithScope code es, r2) else None
              | None => None end
          | None => None end
      | None => None end
  | None => None end.
Proof. reflexivity. Qed.
Lemma bs_dec_16 : forall f l, dec_value (S f) 16 l =
  match read_le 4 l with Some (x, r) => Some (VInt32 (s32 x), r) | None => None end.
Proof. reflexivity. Qed.
Lemma bs_dec_17 : forall f l, dec_value (S f) 17 l =
  match read_le 4 l with
  | Some (i, r) => match read_le 4 r with
                   | Some (t', r') => Some (VTimestamp (Z.of_N t') (Z.of_N i), r')
                   | None => None end
  | None => None end.
Proof. reflexivity. Qed.
Lemma bs_dec_18 : forall f l, dec_value (S f) 18 l =
  match read_le 8 l with Some (x, r) => Some (VInt64 (s64 x), r) | None => None end.
Proof. reflexivity. Qed.
Lemma bs_dec_19 : forall f l, dec_value (S f) 19 l =
  match take_exact 16 l with Some (b, r) => Some (VDecimal128 b, r) | None => None end.
Proof. reflexivity. Qed.
Lemma bs_dec_255 : forall f l, dec_value (S f) 255 l = Some (VMinKey, l).
Proof. reflexivity. Qed.
Lemma bs_dec_127 : forall f l, dec_value (S f) 127 l = Some (VMaxKey, l).
Proof. reflexivity. Qed.

(* ------------------------------------------------------------------ *)
(* the element loop inverts enc_elems                                  *)
(* ------------------------------------------------------------------ *)

Lemma bs_small_le : forall (a b : bytes), (length a <= length b)%nat -> small b -> small a.
Proof. unfold small. intros. lia. Qed.

Lemma bs_go_enc_elems : forall f,
  (forall x rest, value_ok x = true -> small (enc_value x) ->
                  (length (enc_value x) < f)%nat ->
                  dec_value f (tag x) (enc_value x ++ rest) = Some (x, rest)) ->
  forall l fuel',
    doc_ok l = true -> small (enc_elems l) ->
    (length (enc_elems l) < f)%nat -> (length (enc_elems l) < fuel')%nat ->
    dec_elems_go f fuel' (enc_elems l) = Some l.
Proof.
  intros f Hdec. induction l as [|[k x] r IH]; intros fuel' Hok Hs Hf Hfu.
  - destruct fuel' as [|f']; [cbn [enc_elems length] in Hfu; lia|]. reflexivity.
  - destruct fuel' as [|f']; [lia|].
    apply bs_doc_ok_cons in Hok. destruct Hok as (Hk & Hx & Hr).
    unfold small in Hs. rewrite bs_enc_elems_cons_length in Hs, Hf, Hfu.
    rewrite bs_enc_elems_cons, bs_go_cons.
    rewrite bs_split_cstring by assumption. cbv beta iota.
    rewrite Hdec by (try assumption; unfold small; lia). cbv beta iota.
    rewrite IH by (try assumption; unfold small; lia).
    reflexivity.
Qed.

(* ------------------------------------------------------------------ *)
(* main round trip                                                     *)
(* ------------------------------------------------------------------ *)

Lemma bs_bool_split : forall a b, a && b = true -> a = true /\ b = true.
Proof. intros. apply andb_true_iff. assumption. Qed.

Lemma dec_enc_value_fuel : forall fuel v rest,
  value_ok v = true -> small (enc_value v) -> (length (enc_value v) < fuel)%nat ->
  dec_value fuel (tag v) (enc_value v ++ rest) = Some (v, rest).
Proof.
  induction fuel as [|f IHf]; intros v rest Hok Hs Hf; [lia|].
  pose proof (bs_go_enc_elems f IHf) as Hgo.
  destruct v as [bits|s|d|a|st b| |b|bb|ms| |p o|ns oid|s|s|code scope|i|t i|i|b| | ];
    cbn [tag].
  - (* VDouble *)
    cbn [enc_value value_ok] in *. rewrite bs_dec_1, bs_read_le8 by apply bs_u64_lt.
    rewrite bs_s64_u64 by assumption. reflexivity.
  - (* VString *)
    cbn [enc_value value_ok] in *. unfold small in Hs. rewrite bs_bstring_length in Hs.
    rewrite bs_dec_2, bs_read_bstring by lia. reflexivity.
  - (* VDoc *)
    rewrite bs_enc_VDoc in *. rewrite bs_ok_VDoc in Hok.
    unfold small in Hs. rewrite bs_frame_length in Hs, Hf.
    rewrite bs_dec_3, bs_read_frame by lia. cbv beta iota.
    rewrite Hgo by (try assumption; unfold small; lia). reflexivity.
  - (* VArr *)
    rewrite bs_enc_VArr in *. rewrite bs_ok_VArr in Hok.
    unfold small in Hs. rewrite bs_frame_length in Hs, Hf.
    rewrite bs_dec_4, bs_read_frame by lia. cbv beta iota.
    rewrite Hgo by (try (apply bs_doc_ok_arr_keys; assumption); unfold small; lia).
    rewrite bs_map_snd_arr_keys. reflexivity.
  - (* VBinary *)
    cbn [enc_value value_ok] in *. unfold small in Hs.
    rewrite app_length, bs_le_enc_length in Hs. cbn [length] in Hs.
    rewrite bs_dec_5. rewrite <- app_assoc. rewrite bs_read_le4 by lia.
    cbn [app]. cbv beta iota. rewrite Nat2N.id.
    rewrite bs_take_exact_app by reflexivity. reflexivity.
  - (* VUndefined *) reflexivity.
  - (* VObjectID *)
    cbn [enc_value value_ok] in *. apply bs_bool_split in Hok. destruct Hok as [_ Hl].
    apply Nat.eqb_eq in Hl.
    rewrite bs_dec_7, bs_take_exact_app by (symmetry; assumption). reflexivity.
  - (* VBool *)
    rewrite bs_dec_8. destruct bb; reflexivity.
  - (* VDateTime *)
    cbn [enc_value value_ok] in *. rewrite bs_dec_9, bs_read_le8 by apply bs_u64_lt.
    rewrite bs_s64_u64 by assumption. reflexivity.
  - (* VNull *) reflexivity.
  - (* VRegex *)
    cbn [enc_value value_ok] in *. apply bs_bool_split in Hok. destruct Hok as [Hp Ho].
    rewrite bs_dec_11. rewrite <- app_assoc.
    rewrite bs_split_cstring by assumption. cbv beta iota.
    rewrite bs_split_cstring by assumption. reflexivity.
  - (* VDBPointer *)
    cbn [enc_value value_ok] in *. apply bs_bool_split in Hok. destruct Hok as [Hok Hl].
    apply Nat.eqb_eq in Hl.
    unfold small in Hs. rewrite app_length, bs_bstring_length in Hs.
    rewrite bs_dec_12. rewrite <- app_assoc. rewrite bs_read_bstring by lia.
    cbv beta iota. rewrite bs_take_exact_app by (symmetry; assumption). reflexivity.
  - (* VJavaScript *)
    cbn [enc_value value_ok] in *. unfold small in Hs. rewrite bs_bstring_length in Hs.
    rewrite bs_dec_13, bs_read_bstring by lia. reflexivity.
  - (* VSymbol *)
    cbn [enc_value value_ok] in *. unfold small in Hs. rewrite bs_bstring_length in Hs.
    rewrite bs_dec_14, bs_read_bstring by lia. reflexivity.
  - (* VCodeWithScope *)
    rewrite bs_enc_VCws in *. rewrite bs_ok_VCws in Hok.
    apply bs_bool_split in Hok. destruct Hok as [Hc Hsc].
    unfold small in Hs.
    rewrite !app_length, bs_le_enc_length, bs_bstring_length, bs_frame_length in Hs, Hf.
    rewrite bs_dec_15.
    rewrite <- (app_assoc (le_enc 4 _)).
    rewrite bs_read_le4
      by (rewrite !app_length, bs_bstring_length, bs_frame_length; lia).
    cbv beta iota.
    rewrite <- (app_assoc (bstring code)).
    rewrite bs_read_bstring by lia. cbv beta iota.
    rewrite bs_read_frame by lia. cbv beta iota.
    rewrite Hgo by (try assumption; unfold small; lia). 
    rewrite Nat2N.id.
    replace (_ =? _)%nat with true; [reflexivity|].
    symmetry. apply Nat.eqb_eq.
    rewrite !app_length, bs_bstring_length, bs_frame_length. lia.
  - (* VInt32 *)
    cbn [enc_value value_ok] in *. rewrite bs_dec_16, bs_read_le4 by apply bs_u32_lt.
    rewrite bs_s32_u32 by assumption. reflexivity.
  - (* VTimestamp *)
    cbn [enc_value value_ok] in *. apply bs_bool_split in Hok. destruct Hok as [Ht Hi].
    rewrite bs_dec_17. rewrite <- app_assoc.
    rewrite bs_read_le4 by apply bs_u32_lt. cbv beta iota.
    rewrite bs_read_le4 by apply bs_u32_lt.
    rewrite !bs_ofN_u32 by assumption. reflexivity.
  - (* VInt64 *)
    cbn [enc_value value_ok] in *. rewrite bs_dec_18, bs_read_le8 by apply bs_u64_lt.
    rewrite bs_s64_u64 by assumption. reflexivity.
  - (* VDecimal128 *)
    cbn [enc_value value_ok] in *. apply bs_bool_split in Hok. destruct Hok as [_ Hl].
    apply Nat.eqb_eq in Hl.
    rewrite bs_dec_19, bs_take_exact_app by (symmetry; assumption). reflexivity.
  - (* VMinKey *) reflexivity.
  - (* VMaxKey *) reflexivity.
Qed.

Lemma dec_enc_value : forall v rest fuel,
  value_ok v = true -> small (enc_value v) -> (length (enc_value v) < fuel)%nat ->
  dec_value fuel (tag v) (enc_value v ++ rest) = Some (v, rest).
Proof. intros. apply dec_enc_value_fuel; assumption. Qed.

(* ------------------------------------------------------------------ *)
(* induction principle for the nested inductive                        *)
(* ------------------------------------------------------------------ *)

Section ValueInd.
  Variable P : value -> Prop.
  Hypothesis HDouble : forall b, P (VDouble b).
  Hypothesis HString : forall s, P (VString s).
  Hypothesis HDoc : forall d, Forall (fun kv => P (snd kv)) d -> P (VDoc d).
  Hypothesis HArr : forall a, Forall P a -> P (VArr a).
  Hypothesis HBinary : forall st b, P (VBinary st b).
  Hypothesis HUndefined : P VUndefined.
  Hypothesis HObjectID : forall b, P (VObjectID b).
  Hypothesis HBool : forall b, P (VBool b).
  Hypothesis HDateTime : forall ms, P (VDateTime ms).
  Hypothesis HNull : P VNull.
  Hypothesis HRegex : forall p o, P (VRegex p o).
  Hypothesis HDBPointer : forall ns oid, P (VDBPointer ns oid).
  Hypothesis HJavaScript : forall s, P (VJavaScript s).
  Hypothesis HSymbol : forall s, P (VSymbol s).
  Hypothesis HCws : forall c s, Forall (fun kv => P (snd kv)) s -> P (VCodeWithScope c s).
  Hypothesis HInt32 : forall i, P (VInt32 i).
  Hypothesis HTimestamp : forall t i, P (VTimestamp t i).
  Hypothesis HInt64 : forall i, P (VInt64 i).
  Hypothesis HDecimal128 : forall b, P (VDecimal128 b).
  Hypothesis HMinKey : P VMinKey.
  Hypothesis HMaxKey : P VMaxKey.

  Fixpoint value_ind' (v : value) : P v :=
    let elems := fix go (l : list (bytes * value)) : Forall (fun kv => P (snd kv)) l :=
      match l with
      | [] => Forall_nil _
      | (k, x) :: r => Forall_cons (k, x) (value_ind' x : P (snd (k, x))) (go r)
      end in
    match v with
    | VDouble b => HDouble b
    | VString s => HString s
    | VDoc d => HDoc d (elems d)
    | VArr a => HArr a ((fix go (l : list value) : Forall P l :=
                           match l with
                           | [] => Forall_nil _
                           | x :: r => Forall_cons x (value_ind' x) (go r)
                           end) a)
    | VBinary st b => HBinary st b
    | VUndefined => HUndefined
    | VObjectID b => HObjectID b
    | VBool b => HBool b
    | VDateTime ms => HDateTime ms
    | VNull => HNull
    | VRegex p o => HRegex p o
    | VDBPointer ns oid => HDBPointer ns oid
    | VJavaScript s => HJavaScript s
    | VSymbol s => HSymbol s
    | VCodeWithScope c s => HCws c s (elems s)
    | VInt32 i => HInt32 i
    | VTimestamp t i => HTimestamp t i
    | VInt64 i => HInt64 i
    | VDecimal128 b => HDecimal128 b
    | VMinKey => HMinKey
    | VMaxKey => HMaxKey
    end.
End ValueInd.

(* ------------------------------------------------------------------ *)
(* every produced byte is < 256                                        *)
(* ------------------------------------------------------------------ *)

Lemma bs_tag_lt : forall v, (tag v < 256)%N.
Proof. destruct v; reflexivity. Qed.

Lemma bs_wf_app : forall a b, wf_bytes a -> wf_bytes b -> wf_bytes (a ++ b).
Proof. unfold wf_bytes. intros. apply Forall_app. split; assumption. Qed.

Lemma bs_enc_elems_wf : forall l,
  Forall (fun kv => value_ok (snd kv) = true -> wf_bytes (enc_value (snd kv))) l ->
  doc_ok l = true -> wf_bytes (enc_elems l).
Proof.
  induction 1 as [|[k x] r Hx _ IH]; intros Hok.
  - constructor.
  - apply bs_doc_ok_cons in Hok. destruct Hok as (Hk & Hvx & Hr).
    rewrite bs_enc_elems_cons. constructor; [apply bs_tag_lt|].
    apply bs_wf_app; [apply bs_cstring_wf, bs_key_ok_wf; assumption|].
    apply bs_wf_app; [apply Hx; assumption | apply IH; assumption].
Qed.

Lemma bs_Forall_arr_keys : forall (Q : value -> Prop) a i,
  Forall Q a -> Forall (fun kv => Q (snd kv)) (arr_keys i a).
Proof.
  intros Q a. induction a; intros i H; cbn [arr_keys]; constructor;
    inversion H; subst; auto.
Qed.

Lemma enc_value_wf : forall v, value_ok v = true -> wf_bytes (enc_value v).
Proof.
  induction v using value_ind'; intros Hok.
  - apply bs_le_enc_wf.
  - apply bs_bstring_wf, bs_bytes_ok_wf. assumption.
  - rewrite bs_enc_VDoc. rewrite bs_ok_VDoc in Hok.
    apply bs_frame_wf, bs_enc_elems_wf; assumption.
  - rewrite bs_enc_VArr. rewrite bs_ok_VArr in Hok.
    apply bs_frame_wf, bs_enc_elems_wf.
    + apply (bs_Forall_arr_keys (fun x => value_ok x = true -> wf_bytes (enc_value x))).
      assumption.
    + apply bs_doc_ok_arr_keys. assumption.
  - cbn [enc_value value_ok] in *. apply bs_bool_split in Hok. destruct Hok as [Hst Hb].
    assert (Hst' : (st < 256)%N).
    { apply orb_true_iff in Hst. destruct Hst as [Hst | Hst].
      - apply N.leb_le in Hst. lia.
      - apply andb_true_iff in Hst. destruct Hst as [_ Hst]. apply N.ltb_lt in Hst. exact Hst. }
    apply bs_wf_app; [apply bs_le_enc_wf|]. constructor; [exact Hst'|].
    apply bs_bytes_ok_wf. assumption.
  - constructor.
  - cbn [enc_value value_ok] in *. apply bs_bool_split in Hok.
    apply bs_bytes_ok_wf. tauto.
  - cbn [enc_value]. constructor; [destruct b; reflexivity | constructor].
  - apply bs_le_enc_wf.
  - constructor.
  - cbn [enc_value value_ok] in *. apply bs_bool_split in Hok. destruct Hok.
    apply bs_wf_app; apply bs_cstring_wf, bs_key_ok_wf; assumption.
  - cbn [enc_value value_ok] in *. apply bs_bool_split in Hok. destruct Hok as [Hok _].
    apply bs_bool_split in Hok. destruct Hok.
    apply bs_wf_app; [apply bs_bstring_wf|]; apply bs_bytes_ok_wf; assumption.
  - apply bs_bstring_wf, bs_bytes_ok_wf. assumption.
  - apply bs_bstring_wf, bs_bytes_ok_wf. assumption.
  - rewrite bs_enc_VCws. rewrite bs_ok_VCws in Hok.
    apply bs_bool_split in Hok. destruct Hok as [Hc Hs].
    apply bs_wf_app; [apply bs_le_enc_wf|].
    apply bs_wf_app; [apply bs_bstring_wf, bs_bytes_ok_wf; assumption|].
    apply bs_frame_wf, bs_enc_elems_wf; assumption.
  - apply bs_le_enc_wf.
  - apply bs_wf_app; apply bs_le_enc_wf.
  - apply bs_le_enc_wf.
  - cbn [enc_value value_ok] in *. apply bs_bool_split in Hok.
    apply bs_bytes_ok_wf. tauto.
  - constructor.
  - constructor.
Qed.

(* ------------------------------------------------------------------ *)
(* documents and document streams                                      *)
(* ------------------------------------------------------------------ *)

Lemma enc_doc_eq : forall d, enc_doc d = enc_value (VDoc d).
Proof. reflexivity. Qed.

Lemma doc_ok_value_ok : forall d, doc_ok d = true <-> value_ok (VDoc d) = true.
Proof. intros. rewrite bs_ok_VDoc. tauto. Qed.

Lemma dec_enc_doc : forall d rest,
  doc_ok d = true -> small (enc_doc d) ->
  dec_doc (enc_doc d ++ rest) = Some (d, rest).
Proof.
  intros d rest Hok Hs. unfold dec_doc.
  rewrite enc_doc_eq in *.
  change 3%N with (tag (VDoc d)).
  rewrite dec_enc_value.
  - reflexivity.
  - apply doc_ok_value_ok. assumption.
  - assumption.
  - rewrite app_length. lia.
Qed.

Lemma bs_dec_docs_fuel_cons : forall f b l,
  dec_docs_fuel (S f) (b :: l) =
  match dec_doc (b :: l) with
  | Some (d, r) => match dec_docs_fuel f r with
                   | Some ds => Some (d :: ds) | None => None end
  | None => None
  end.
Proof. reflexivity. Qed.

Lemma bs_dec_docs_fuel_concat : forall ds fuel,
  Forall (fun d => doc_ok d = true /\ small (enc_doc d)) ds ->
  (length (concat (map enc_doc ds)) < fuel)%nat ->
  dec_docs_fuel fuel (concat (map enc_doc ds)) = Some ds.
Proof.
  induction ds as [|d ds IH]; intros fuel HF Hfu.
  - destruct fuel; [cbn in Hfu; lia|]. reflexivity.
  - destruct fuel as [|f]; [lia|].
    inversion HF as [|? ? [Hok Hs] HF']; subst.
    cbn [map concat] in *. rewrite app_length in Hfu.
    assert (Hlen : length (enc_doc d) = length (enc_elems d) + 5)
      by (unfold enc_doc; apply bs_frame_length).
    destruct (enc_doc d ++ concat (map enc_doc ds)) as [|b l] eqn:E.
    + apply (f_equal (@length _)) in E. rewrite app_length in E. cbn [length] in E. lia.
    + rewrite bs_dec_docs_fuel_cons. rewrite <- E.
      rewrite dec_enc_doc by assumption.
      rewrite IH by (try assumption; lia). reflexivity.
Qed.

Lemma dec_docs_concat : forall ds,
  Forall (fun d => doc_ok d = true /\ small (enc_doc d)) ds ->
  dec_docs (concat (map enc_doc ds)) = Some ds.
Proof.
  intros. unfold dec_docs. apply bs_dec_docs_fuel_concat; [assumption | lia].
Qed.

Print Assumptions dec_enc_value.
Print Assumptions dec_docs_concat.
