(* Oracle soundness for C02: the executable oracle c02_check / c02_ok of
   Model/ViewsOk.v accepts the model's own observation (model_sobs of the chunks
   the model's reader returns for the model's own emission). *)
From Coq Require Import ZArith NArith List Bool Lia Arith.
From FV.Model Require Import Bytes Bson Metrics Codec Collector Wf RoundTrip CollectorOk Views ViewsOk.
From FV.Proofs Require Import BytesProofs BsonProofs MetricsProofs CodecChunk CodecProofs CollectorBase ViewsProofs.
Import ListNotations.
Open Scope Z_scope.

(* ------------------------------------------------------------------ boolean equalities are reflexive *)
Lemma value_eqb_refl : forall v, value_eqb v v = true.
Proof.
  induction v using value_ind'; cbn [value_eqb];
    rewrite ?Z.eqb_refl, ?N.eqb_refl, ?cb_bytes_eqb_refl, ?Bool.eqb_reflx; try reflexivity.
  - induction H as [|[k x] r Hx _ IH]; [reflexivity|]. cbn [snd] in Hx.
    rewrite cb_bytes_eqb_refl, Hx, IH. reflexivity.
  - induction H as [|x r Hx _ IH]; [reflexivity|]. rewrite Hx, IH. reflexivity.
  - cbn [andb]. induction H as [|[k x] r Hx _ IH]; [reflexivity|]. cbn [snd] in Hx.
    rewrite cb_bytes_eqb_refl, Hx, IH. reflexivity.
Qed.

Lemma sdocs_eqb_refl : forall l, sdocs_eqb l l = true.
Proof.
  induction l as [|d r IH]; [reflexivity|]. cbn [sdocs_eqb]. unfold sdoc_eqb.
  rewrite value_eqb_refl, IH. reflexivity.
Qed.

Lemma keys_eqb_refl : forall l, keys_eqb l l = true.
Proof. intro l. unfold keys_eqb. destruct (list_eq_dec (list_eq_dec N.eq_dec) l l); [reflexivity|congruence]. Qed.

Lemma zs_eqb_refl : forall l, zs_eqb l l = true.
Proof. intro l. unfold zs_eqb. destruct (list_eq_dec Z.eq_dec l l); [reflexivity|congruence]. Qed.

Lemma existsb_bytes_eqb_notin : forall x r, ~ In x r -> existsb (bytes_eqb x) r = false.
Proof.
  intros x r. induction r as [|a r IH]; intro H; [reflexivity|]. cbn [existsb].
  destruct (bytes_eqb x a) eqn:E.
  - apply cb_bytes_eqb_true in E. subst. exfalso. apply H. left. reflexivity.
  - apply IH. intro Hin. apply H. right. exact Hin.
Qed.

Lemma nodupb_complete : forall l, NoDup l -> nodupb l = true.
Proof.
  induction l as [|x r IH]; intro H; [reflexivity|]. inversion H as [|? ? Hx Hr]; subst.
  cbn [nodupb]. rewrite (existsb_bytes_eqb_notin x r Hx), (IH Hr). reflexivity.
Qed.

(* ------------------------------------------------------------------ list facts *)
Lemma combine_map_same : forall (A B C : Type) (f : A -> B) (g : A -> C) (l : list A),
  combine (map f l) (map g l) = map (fun x => (f x, g x)) l.
Proof. induction l as [|a l IH]; [reflexivity|]. cbn [map combine]. rewrite IH. reflexivity. Qed.

Lemma in_combine_seq_map : forall (A B : Type) (F : nat * A -> B) (ms : list A) a n i y,
  In (i, y) (combine (seq a n) (map F (combine (seq a n) ms))) -> exists m, y = F (i, m).
Proof.
  intros A B F ms. induction ms as [|m r IH]; intros a n i y H.
  - destruct n; cbn in H; destruct H.
  - destruct n as [|n]; [destruct H|]. cbn [seq combine map] in H. destruct H as [H|H].
    + injection H as <- <-. exists m. reflexivity.
    + exact (IH (S a) n i y H).
Qed.

Lemma skipn_app_len : forall (A : Type) (a b : list A), skipn (length a) (a ++ b) = b.
Proof. intros A a b. induction a; [reflexivity|assumption]. Qed.

Lemma firstn_app_len : forall (A : Type) (a b : list A), firstn (length a) (a ++ b) = a.
Proof. intros A a b. induction a as [|x a IH]; [reflexivity|]. cbn [length app firstn]. rewrite IH. reflexivity. Qed.

Lemma all_some_map_some : forall (A B : Type) (f : A -> option B) (l : list A),
  Forall (fun x => exists y, f x = Some y) l -> exists ys, all_some (map f l) = Some ys.
Proof.
  intros A B f l H. induction H as [|x l [y Hy] _ [ys IH]]; [exists []; reflexivity|].
  exists (y :: ys). cbn [map all_some]. rewrite Hy, IH. reflexivity.
Qed.

(* ------------------------------------------------------------------ one chunk and its group *)
Definition pair_ok (c : chunk) (g : list doc) : Prop :=
  g <> [] /\ ck_ref c = hd [] g /\ ck_npoints c = Z.of_nat (length g) /\
  map r_key (chunk_table c) = spec_keys (hd [] g) /\
  chunk_table c = doc_table (hd [] g) g /\
  map r_type (chunk_table c) = map fst (flatten_doc (hd [] g)) /\
  NoDup (spec_keys (hd [] g)) /\
  Forall (fun d => length (flatten_doc d) = length (flatten_doc (hd [] g))) g.

Lemma model_cobs_series : forall c,
  co_series (model_cobs c) = map (fun r => (r_key r, r_col r)) (chunk_table c).
Proof. intro c. unfold model_cobs, chunk_table. cbn [co_series]. rewrite map_map. reflexivity. Qed.

Lemma series_keys : forall c, map fst (co_series (model_cobs c)) = map r_key (chunk_table c).
Proof. intro c. rewrite model_cobs_series, map_map. reflexivity. Qed.

Lemma series_length : forall c, length (co_series (model_cobs c)) = length (chunk_table c).
Proof. intro c. rewrite model_cobs_series, map_length. reflexivity. Qed.

Lemma table_length : forall c g, pair_ok c g -> length (chunk_table c) = length (flatten_doc (hd [] g)).
Proof.
  intros c g (_ & _ & _ & _ & _ & Hty & _).
  rewrite <- (map_length r_type), Hty, map_length. reflexivity.
Qed.

Lemma obs_table_model : forall c g, pair_ok c g -> obs_table g (model_cobs c) = chunk_table c.
Proof.
  intros c g (_ & _ & _ & _ & _ & Hty & _). unfold obs_table.
  rewrite model_cobs_series, <- Hty, combine_map_same, map_map. cbn [fst snd].
  rewrite <- (map_id (chunk_table c)) at 2. apply map_ext. intros [k t col]. reflexivity.
Qed.

Lemma npoints_model : forall c g, pair_ok c g -> Z.to_nat (co_npoints (model_cobs c)) = length g.
Proof. intros c g (_ & _ & Hn & _). cbn [model_cobs co_npoints]. rewrite Hn. apply Nat2Z.id. Qed.

Lemma keys_ok_model : forall c g, pair_ok c g -> keys_ok g (model_cobs c) = true.
Proof.
  intros c g (_ & _ & _ & Hk & _ & _ & Hnd & _). unfold keys_ok.
  rewrite series_keys, Hk, keys_eqb_refl, (nodupb_complete _ Hnd). reflexivity.
Qed.

Lemma types_ok_model : forall c g, pair_ok c g -> types_ok g (model_cobs c) = true.
Proof.
  intros c g H. unfold types_ok. rewrite series_length, (table_length c g H). apply Nat.eqb_refl.
Qed.

Lemma values_ok_model : forall c g, pair_ok c g -> values_ok g (model_cobs c) = true.
Proof.
  intros c g H. pose proof (table_length c g H) as Hlen.
  destruct H as (_ & _ & Hn & _ & Ht & _ & _ & Hfl). unfold values_ok.
  apply andb_true_iff. split; [apply andb_true_iff; split|].
  - cbn [model_cobs co_npoints]. rewrite Hn. apply Z.eqb_refl.
  - apply forallb_forall. intros d Hd. rewrite Forall_forall in Hfl.
    rewrite series_length, Hlen, (Hfl d Hd). apply Nat.eqb_refl.
  - apply forallb_forall. intros [i [k col]] Hin. cbn [fst snd].
    rewrite series_length in Hin. rewrite model_cobs_series in Hin.
    rewrite Ht in Hin. unfold doc_table in Hin. rewrite map_map in Hin. cbn [r_key r_col] in Hin.
    rewrite map_length, combine_length, seq_length, Nat.min_id in Hin.
    apply in_combine_seq_map in Hin. destruct Hin as [m Hm]. cbn [fst snd] in Hm.
    injection Hm as _ ->. rewrite map_map. unfold vrow. apply zs_eqb_refl.
Qed.

(* ------------------------------------------------------------------ all chunks *)
Definition sl_of (cs : list chunk) (groups : list (list doc)) : list (list doc * cobs) :=
  map (fun cg => (snd cg, model_cobs (fst cg))) (combine cs groups).

Lemma slices_model : forall cs groups, Forall2 pair_ok cs groups ->
  slices (concat groups) (map model_cobs cs) = Some (sl_of cs groups).
Proof.
  intros cs groups H. induction H as [|c g cs groups Hcg _ IH]; [reflexivity|].
  cbn [concat map slices]. rewrite (npoints_model c g Hcg).
  destruct Hcg as (Hne & _).
  assert (Hl : Nat.eqb (length g) 0 = false) by (destruct g; [congruence|reflexivity]).
  rewrite Hl. cbn [orb].
  assert (Hlt : Nat.ltb (length (g ++ concat groups)) (length g) = false).
  { apply Nat.ltb_ge. rewrite app_length. lia. }
  rewrite Hlt, skipn_app_len, IH, firstn_app_len. reflexivity.
Qed.

Lemma sl_forallb : forall (P : list doc * cobs -> bool) cs groups,
  Forall2 pair_ok cs groups -> (forall c g, pair_ok c g -> P (g, model_cobs c) = true) ->
  forallb P (sl_of cs groups) = true.
Proof.
  intros P cs groups H HP. induction H as [|c g cs groups Hcg _ IH]; [reflexivity|].
  unfold sl_of. cbn [combine map forallb fst snd]. rewrite (HP c g Hcg). exact IH.
Qed.

Lemma sl_map : forall (B : Type) (F : list doc * cobs -> B) (G : chunk -> B) cs groups,
  Forall2 pair_ok cs groups -> (forall c g, pair_ok c g -> F (g, model_cobs c) = G c) ->
  map F (sl_of cs groups) = map G cs.
Proof.
  intros B F G cs groups H HF. induction H as [|c g cs groups Hcg _ IH]; [reflexivity|].
  unfold sl_of. cbn [combine map fst snd]. rewrite (HF c g Hcg). f_equal. exact IH.
Qed.

Lemma exp_flat_model : forall cs groups, Forall2 pair_ok cs groups ->
  exp_flat (sl_of cs groups) = flat_map flat_docs cs.
Proof.
  intros cs groups H. unfold exp_flat. rewrite !flat_map_concat_map. f_equal.
  apply sl_map; [exact H|]. intros c g Hcg. cbn [fst snd].
  rewrite (obs_table_model c g Hcg), flat_docs_table. reflexivity.
Qed.

Lemma exp_structured_model : forall cs groups, Forall2 pair_ok cs groups ->
  exp_structured (sl_of cs groups) = all_some (flat_map structured_docs cs).
Proof.
  intros cs groups H. unfold exp_structured. rewrite !flat_map_concat_map. do 2 f_equal.
  apply sl_map; [exact H|]. intros c g Hcg. cbn [fst snd].
  rewrite (obs_table_model c g Hcg), structured_docs_table.
  destruct Hcg as (_ & Hr & _). rewrite Hr. reflexivity.
Qed.

Lemma exp_matrix_model : forall cs groups, Forall2 pair_ok cs groups ->
  exp_matrix (sl_of cs groups) = all_some (map matrix_doc cs).
Proof.
  intros cs groups H. unfold exp_matrix. f_equal.
  apply sl_map; [exact H|]. intros c g Hcg. cbn [fst snd].
  rewrite (obs_table_model c g Hcg), matrix_doc_table. reflexivity.
Qed.

Lemma exp_series_model : forall cs groups, Forall2 pair_ok cs groups ->
  exp_series (sl_of cs groups) = map series_doc cs.
Proof.
  intros cs groups H. unfold exp_series.
  apply sl_map; [exact H|]. intros c g Hcg. cbn [fst snd].
  rewrite (obs_table_model c g Hcg), series_doc_table. reflexivity.
Qed.

Lemma c02_ok_model : forall cs groups sd md,
  Forall2 pair_ok cs groups ->
  all_some (flat_map structured_docs cs) = Some sd -> all_some (map matrix_doc cs) = Some md ->
  exists o, model_sobs cs false = Some o /\ c02_ok (concat groups) o = true.
Proof.
  intros cs groups sd md H Hsd Hmd. unfold model_sobs. rewrite Hsd, Hmd.
  eexists. split; [reflexivity|].
  unfold c02_ok, c02_check. cbn [so_chunks so_err so_cf so_cs so_rs so_rf so_rm so_re].
  rewrite (slices_model cs groups H).
  rewrite (sl_forallb (fun gc => keys_ok (fst gc) (snd gc)) cs groups H keys_ok_model).
  rewrite (sl_forallb (fun gc => values_ok (fst gc) (snd gc)) cs groups H values_ok_model).
  rewrite (sl_forallb (fun gc => types_ok (fst gc) (snd gc)) cs groups H types_ok_model).
  rewrite (exp_flat_model cs groups H), (exp_structured_model cs groups H),
    (exp_matrix_model cs groups H), (exp_series_model cs groups H), Hsd, Hmd.
  unfold opt_docs_eqb. rewrite !sdocs_eqb_refl. reflexivity.
Qed.

(* ------------------------------------------------------------------ the theorem *)
Lemma hd_in_concat : forall (g : list doc) groups, In g groups -> g <> [] -> In (hd [] g) (concat groups).
Proof.
  intros g groups Hin Hne. apply in_concat. exists g. split; [exact Hin|].
  destruct g; [congruence|left; reflexivity].
Qed.

Lemma c02_oracle_sound : forall (deflate : bytes -> bytes) (inflate : bytes -> option bytes),
  (forall p, inflate (deflate p) = Some p) ->
  forall k n docs nows,
  compressing k = true -> 1 <= n < 2 ^ 31 ->
  (docs <> [] /\ length nows = length docs /\ Forall (fun t => in_i64 t = true) nows /\
   same_schema docs /\
   Forall (fun d => doc_ok d = true /\ doc_leaves_ok d = true /\ small (enc_doc d)) docs /\
   (N.of_nat (length (flatten_doc (hd [] docs))) < 2 ^ 32)%N) ->
  fits k n docs ->
  Forall (fun d => doc_has_ts_seconds d = false) docs ->
  Forall (fun d => doc_keys_good d = true /\ doc_arrays_small d = true) docs ->
  exists cs o,
    read_chunks inflate None (emitted (snd (fst (emit deflate k n docs nows)))) = (cs, None) /\
    model_sobs cs false = Some o /\ c02_ok docs o = true.
Proof.
  intros deflate inflate Hid k n docs nows Hk Hn Hin Hfits Hts Hgood.
  destruct (c02_table deflate inflate Hid k n docs nows Hk Hn Hin Hfits Hts) as (cs & groups & Hcs & Hcat & Htab).
  pose proof (c02_keys_full_paths inflate None _ _ _ Hcs) as HF.
  destruct (codec_roundtrip deflate inflate Hid k n docs nows Hk Hn Hin Hfits Hts) as [_ Hrs].
  unfold read_structured in Hrs. rewrite Hcs in Hrs. injection Hrs as Hsd.
  destruct Hin as (_ & _ & _ & Hss & _).
  (* the matrix document of every chunk exists *)
  destruct (all_some_map_some _ _ matrix_doc cs) as [md Hmd].
  { revert HF. apply Forall_impl. intros c (_ & _ & Hp & _). rewrite matrix_doc_table. apply tbl_matrix_some. exact Hp. }
  (* strengthen the per-chunk facts *)
  assert (Hpairs : Forall2 pair_ok cs groups).
  { assert (Hsub : forall g, In g groups -> forall d, In d g -> In d docs).
    { intros g Hg d Hd. rewrite <- Hcat. apply in_concat. exists g. split; assumption. }
    clear Hcs Hcat Hsd Hmd. induction Htab as [|c g cs gs Hcg Htab IH]; [constructor|].
    inversion HF as [|c' cs' Hc HF']; subst.
    constructor; [|apply IH; [exact HF'|intros g' Hg'; apply Hsub; right; exact Hg']].
    destruct Hcg as (Hne & Hr & Hnp & Hkeys & Ht). destruct Hc as (_ & Hty & _).
    assert (Hhd : In (hd [] g) docs).
    { apply (Hsub g (or_introl eq_refl)). destruct g; [congruence|left; reflexivity]. }
    split; [exact Hne|]. split; [exact Hr|]. split; [exact Hnp|]. split; [exact Hkeys|].
    split; [exact Ht|]. split; [rewrite Hty, Hr; reflexivity|]. split.
    - rewrite Forall_forall in Hgood. destruct (Hgood _ Hhd) as [Hg1 Hg2]. apply spec_keys_nodup; assumption.
    - apply Forall_forall. intros d Hd. apply same_skeleton_length. apply Hss; [|exact Hhd].
      apply (Hsub g (or_introl eq_refl)). exact Hd. }
  destruct (c02_ok_model cs groups _ md Hpairs Hsd Hmd) as (o & Ho & Hok).
  exists cs, o. rewrite Hcat in Hok. auto.
Qed.
