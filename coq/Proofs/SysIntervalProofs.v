(* Proofs about Model/SysInterval.v (property C16).  No axioms, no admits. *)
From Coq Require Import ZArith List Bool Arith Lia.
From FV.Model Require Import SysInterval.
Import ListNotations.
Open Scope Z_scope.

(* ====================================================================== *)
(* lists                                                                    *)
(* ====================================================================== *)
Lemma nth_error_upd : forall {A} (l : list A) n m x,
  nth_error (upd n x l) m =
  if Nat.eqb n m then match nth_error l n with Some _ => Some x | None => None end
  else nth_error l m.
Proof.
  induction l as [|y l IH]; intros n m x.
  - destruct n, m; cbn; try reflexivity; destruct (Nat.eqb n m); reflexivity.
  - destruct n as [|n], m as [|m]; try reflexivity.
    cbn [upd nth_error Nat.eqb]. apply IH.
Qed.

Lemma length_upd : forall {A} (l : list A) n x, length (upd n x l) = length l.
Proof.
  induction l as [|y l IH]; intros [|n] x; cbn [upd length]; try reflexivity.
  now rewrite IH.
Qed.

Lemma nth_error_snoc : forall {A} (l : list A) x m,
  nth_error (l ++ [x]) m =
  if Nat.ltb m (length l) then nth_error l m
  else if Nat.eqb m (length l) then Some x else None.
Proof.
  intros A l x m. destruct (Nat.ltb_spec m (length l)) as [Hlt|Hge].
  - now apply nth_error_app1.
  - rewrite nth_error_app2 by exact Hge.
    destruct (Nat.eqb_spec m (length l)) as [->|Hne].
    + now rewrite Nat.sub_diag.
    + destruct (m - length l)%nat as [|k] eqn:E; [lia|]. cbn. now destruct k.
Qed.

Lemma nth_error_cancel_fl : forall i fls m,
  nth_error (cancel_fl i fls) m =
  match nth_error fls m with
  | Some fl => Some (if Nat.eqb i m then mkF (f_pc fl) true else fl)
  | None => None
  end.
Proof.
  intros i fls m. unfold cancel_fl. destruct (nth_error fls i) as [fl|] eqn:Ei.
  - rewrite nth_error_upd, Ei. destruct (Nat.eqb_spec i m) as [->|Hne].
    + now rewrite Ei.
    + now destruct (nth_error fls m).
  - destruct (Nat.eqb_spec i m) as [->|Hne].
    + now rewrite Ei.
    + now destruct (nth_error fls m).
Qed.

(* ====================================================================== *)
(* wrap-around arithmetic                                                   *)
(* ====================================================================== *)
Lemma wrap64_add_l : forall a b, wrap64 (wrap64 a + b) = wrap64 (a + b).
Proof.
  intros a b. unfold wrap64, two63, two64.
  replace (a + 9223372036854775808) with (a + 9223372036854775808 + 0) by lia.
  f_equal.
  replace ((a + 9223372036854775808 + 0) mod 18446744073709551616 - 9223372036854775808 + b + 9223372036854775808)
    with ((a + 9223372036854775808 + 0) mod 18446744073709551616 + b) by lia.
  rewrite Z.add_0_r. rewrite Zplus_mod_idemp_l. f_equal. lia.
Qed.
Lemma wrap64_0 : wrap64 0 = 0.
Proof. reflexivity. Qed.

(* ====================================================================== *)
(* the step function as a relation                                          *)
(* ====================================================================== *)
Inductive Step (c : cfg) (s : state) : tid -> state -> Prop :=
| SULock : forall g cl rest,
    nth_error (users s) g = Some (mkU UIdle (cl :: rest)) -> mu s = None ->
    Step c s (U g) (mkSt (upd g (mkU UCrit (cl :: rest)) (users s)) (flushers s)
                         (Some (OU g)) (rc s) (cl :: lock_log s))
| SUBody : forall g cl rest,
    nth_error (users s) g = Some (mkU UCrit (cl :: rest)) ->
    Step c s (U g) (mkSt (upd g (mkU UUnlock (cl :: rest)) (users s))
                         (snd (body c g cl (rc s) (flushers s))) (mu s)
                         (fst (body c g cl (rc s) (flushers s))) (lock_log s))
| SUUnl : forall g cl rest,
    nth_error (users s) g = Some (mkU UUnlock (cl :: rest)) ->
    Step c s (U g) (mkSt (upd g (mkU UIdle rest) (users s)) (flushers s) None (rc s) (lock_log s))
| STick : forall f b,
    nth_error (flushers s) f = Some (mkF FWait b) ->
    Step c s (Tick f) (mkSt (users s) (upd f (mkF FTick b) (flushers s)) (mu s) (rc s) (lock_log s))
| SFDoneArm : forall f,
    nth_error (flushers s) f = Some (mkF FWait true) ->
    Step c s (F f) (mkSt (users s) (upd f (mkF FDone true) (flushers s)) (mu s) (rc s) (lock_log s))
| SFLock : forall f b,
    nth_error (flushers s) f = Some (mkF FTick b) -> mu s = None ->
    Step c s (F f) (mkSt (users s) (upd f (mkF FLocked b) (flushers s)) (Some (OF f)) (rc s) (lock_log s))
| SFCheck : forall f b,
    nth_error (flushers s) f = Some (mkF FLocked b) ->
    Step c s (F f) (mkSt (users s) (upd f (mkF (if b then FCancelled else FChecked) b) (flushers s))
                         (mu s) (rc s) (lock_log s))
| SFCancelRet : forall f b,
    nth_error (flushers s) f = Some (mkF FCancelled b) ->
    Step c s (F f) (mkSt (users s) (upd f (mkF FDone b) (flushers s))
                         (if flusher_unlocks_on_cancel c then None else mu s) (rc s) (lock_log s))
| SFPersist : forall f b,
    nth_error (flushers s) f = Some (mkF FChecked b) ->
    Step c s (F f) (mkSt (users s) (upd f (mkF FPersisted b) (flushers s)) (mu s)
                         (persist (OF f) (stamp (rc s))) (lock_log s))
| SFUnl : forall f b,
    nth_error (flushers s) f = Some (mkF FPersisted b) ->
    Step c s (F f) (mkSt (users s) (upd f (mkF FWait b) (flushers s)) None (rc s) (lock_log s)).

Lemma step_Step : forall c s t s', step c s t = Some s' -> Step c s t s'.
Proof.
  intros c s t s' H. destruct t as [g|f|f]; cbn [step] in H.
  - destruct (nth_error (users s) g) as [[pc prog]|] eqn:En; [|discriminate].
    cbn [u_prog u_pc] in H. destruct prog as [|cl rest]; [discriminate|].
    destruct pc.
    + destruct (mu s) eqn:Em; [discriminate|]. inversion H; subst. now apply SULock.
    + inversion H; subst. now apply SUBody.
    + inversion H; subst. now apply SUUnl with (cl := cl).
  - destruct (nth_error (flushers s) f) as [[pc b]|] eqn:En; [|discriminate].
    cbn [f_pc f_cancelled] in H. destruct pc.
    + destruct b; [|discriminate]. inversion H; subst. now apply SFDoneArm.
    + destruct (mu s) eqn:Em; [discriminate|]. inversion H; subst. now apply SFLock.
    + inversion H; subst. now apply SFCheck.
    + inversion H; subst. now apply SFCancelRet.
    + inversion H; subst. now apply SFPersist.
    + inversion H; subst. now apply SFUnl.
    + discriminate.
  - destruct (nth_error (flushers s) f) as [[pc b]|] eqn:En; [|discriminate].
    cbn [f_pc f_cancelled] in H. destruct pc; try discriminate.
    inversion H; subst. now apply STick.
Qed.

(* ====================================================================== *)
(* what a critical-section body does to the flusher table                   *)
(* ====================================================================== *)
Lemma body_fls_back : forall c g cl r fls m fl',
  nth_error (snd (body c g cl r fls)) m = Some fl' ->
  (exists fl, nth_error fls m = Some fl /\ f_pc fl' = f_pc fl /\
              (f_cancelled fl = true -> f_cancelled fl' = true)) \/
  (fl' = mkF FWait false /\ m = length fls /\ cl = Begin /\ canceler r = None /\ with_flusher c = true).
Proof.
  intros c g cl r fls m fl' H.
  assert (Hreset : forall r0, nth_error (snd (do_reset r0 fls)) m = Some fl' ->
     exists fl, nth_error fls m = Some fl /\ f_pc fl' = f_pc fl /\
                (f_cancelled fl = true -> f_cancelled fl' = true)).
  { intros r0 H0. unfold do_reset in H0. cbn [snd] in H0.
    destruct (canceler r0) as [i|].
    - rewrite nth_error_cancel_fl in H0. destruct (nth_error fls m) as [fl|]; [|discriminate].
      exists fl. split; [reflexivity|]. inversion H0; subst.
      destruct (Nat.eqb i m); cbn; auto.
    - exists fl'. auto. }
  destruct cl; cbn [body snd] in H;
    try (left; exists fl'; now auto);
    try (left; now apply Hreset with (r0 := if stamped r then persist (OU g) r else r));
    try (left; now apply Hreset with (r0 := r)).
  destruct (canceler r) as [i|] eqn:Ec.
  - left; exists fl'; auto.
  - destruct (with_flusher c) eqn:Ew; cbn [snd] in H.
    + rewrite nth_error_snoc in H.
      destruct (Nat.ltb m (length fls)).
      * left; exists fl'; auto.
      * destruct (Nat.eqb_spec m (length fls)); [|discriminate].
        inversion H; subst. right. auto.
    + left; exists fl'; auto.
Qed.

Lemma body_fls_fwd : forall c g cl r fls m fl,
  nth_error fls m = Some fl ->
  exists fl', nth_error (snd (body c g cl r fls)) m = Some fl' /\ f_pc fl' = f_pc fl /\
              (f_cancelled fl = true -> f_cancelled fl' = true).
Proof.
  intros c g cl r fls m fl H.
  assert (Hreset : forall r0, exists fl', nth_error (snd (do_reset r0 fls)) m = Some fl' /\
             f_pc fl' = f_pc fl /\ (f_cancelled fl = true -> f_cancelled fl' = true)).
  { intros r0. unfold do_reset. cbn [snd]. destruct (canceler r0) as [i|].
    - rewrite nth_error_cancel_fl, H. eexists; split; [reflexivity|].
      destruct (Nat.eqb i m); cbn; auto.
    - exists fl; auto. }
  destruct cl; cbn [body snd]; try (exists fl; now auto); try apply Hreset.
  destruct (canceler r) as [i|]; [exists fl; now auto|].
  destruct (with_flusher c); cbn [snd]; [|exists fl; now auto].
  exists fl. split; [|auto]. rewrite nth_error_snoc.
  assert (Hlt : (m < length fls)%nat) by (apply nth_error_Some; congruence).
  apply Nat.ltb_lt in Hlt. now rewrite Hlt.
Qed.

(* ====================================================================== *)
(* Invariant, part 1: the mutex and the program counters agree              *)
(* ====================================================================== *)
Record InvMu (s : state) : Prop := {
  mu_u : forall g, mu s = Some (OU g) ->
         exists u, nth_error (users s) g = Some u /\ u_holds (u_pc u) = true /\ u_prog u <> [];
  u_mu : forall g u, nth_error (users s) g = Some u -> u_holds (u_pc u) = true -> mu s = Some (OU g);
  mu_f : forall f, mu s = Some (OF f) ->
         exists fl, nth_error (flushers s) f = Some fl /\ f_holds (f_pc fl) = true;
  f_mu : forall f fl, nth_error (flushers s) f = Some fl -> f_holds (f_pc fl) = true -> mu s = Some (OF f)
}.

Lemma InvMu_init : forall progs, InvMu (init progs).
Proof.
  intros progs. constructor; cbn [init mu users flushers]; try discriminate.
  - intros g u Hn Hh. apply nth_error_In, in_map_iff in Hn. destruct Hn as [p [<- _]]. discriminate.
  - intros f fl Hn. destruct f; discriminate.
Qed.

Ltac nu :=
  repeat match goal with
  | H : context [nth_error (upd _ _ _) _] |- _ => rewrite nth_error_upd in H
  | |- context [nth_error (upd _ _ _) _] => rewrite nth_error_upd
  end.

Section Repaired.
Variable c : cfg.
Hypothesis Hc : flusher_unlocks_on_cancel c = true.

Lemma InvMu_step : forall s t s', InvMu s -> Step c s t s' -> InvMu s'.
Proof.
  intros s t s' I HS.
  destruct HS as [g cl rest Hn Hm|g cl rest Hn|g cl rest Hn|f b Hn|f Hn|f b Hn Hm|f b Hn|f b Hn|f b Hn|f b Hn];
    constructor; cbn [mu users flushers]; try rewrite Hc.
  (* ---- ULock ---- *)
  - intros g' E; inversion E; subst g'. nu. rewrite Nat.eqb_refl, Hn.
    eexists; repeat split; cbn; congruence.
  - intros g' u. nu. destruct (Nat.eqb_spec g g') as [->|Hne]; [reflexivity|].
    intros Hn' Hh. pose proof (u_mu _ I _ _ Hn' Hh). congruence.
  - discriminate.
  - intros f fl Hn' Hh. pose proof (f_mu _ I _ _ Hn' Hh). congruence.
  (* ---- UBody ---- *)
  - pose proof (u_mu _ I _ _ Hn eq_refl) as Hmu. intros g' E. rewrite Hmu in E; inversion E; subst g'.
    nu. rewrite Nat.eqb_refl, Hn. eexists; repeat split; cbn; congruence.
  - pose proof (u_mu _ I _ _ Hn eq_refl) as Hmu. intros g' u. nu.
    destruct (Nat.eqb_spec g g') as [->|Hne]; [intros; exact Hmu|]. apply (u_mu _ I).
  - pose proof (u_mu _ I _ _ Hn eq_refl) as Hmu. intros f E. congruence.
  - pose proof (u_mu _ I _ _ Hn eq_refl) as Hmu. intros f fl' Hn' Hh.
    destruct (body_fls_back _ _ _ _ _ _ _ Hn') as [[fl [Hfl [Hpc _]]]|[-> _]]; [|discriminate].
    rewrite Hpc in Hh. pose proof (f_mu _ I _ _ Hfl Hh). congruence.
  (* ---- UUnlock ---- *)
  - discriminate.
  - pose proof (u_mu _ I _ _ Hn eq_refl) as Hmu. intros g' u. nu.
    destruct (Nat.eqb_spec g g') as [->|Hne].
    + rewrite Hn. intros E; inversion E; subst; discriminate.
    + intros Hn' Hh. pose proof (u_mu _ I _ _ Hn' Hh). congruence.
  - discriminate.
  - pose proof (u_mu _ I _ _ Hn eq_refl) as Hmu. intros f fl Hn' Hh.
    pose proof (f_mu _ I _ _ Hn' Hh). congruence.
  (* ---- Tick ---- *)
  - apply (mu_u _ I).
  - apply (u_mu _ I).
  - intros f' E. destruct (mu_f _ I _ E) as [fl [Hfl Hh]]. nu.
    destruct (Nat.eqb_spec f f') as [->|Hne]; [|eauto]. rewrite Hn in Hfl; inversion Hfl; subst; discriminate.
  - intros f' fl. nu. destruct (Nat.eqb_spec f f') as [->|Hne]; [|apply (f_mu _ I)].
    rewrite Hn. intros E; inversion E; subst; discriminate.
  (* ---- Done arm ---- *)
  - apply (mu_u _ I).
  - apply (u_mu _ I).
  - intros f' E. destruct (mu_f _ I _ E) as [fl [Hfl Hh]]. nu.
    destruct (Nat.eqb_spec f f') as [->|Hne]; [|eauto]. rewrite Hn in Hfl; inversion Hfl; subst; discriminate.
  - intros f' fl. nu. destruct (Nat.eqb_spec f f') as [->|Hne]; [|apply (f_mu _ I)].
    rewrite Hn. intros E; inversion E; subst; discriminate.
  (* ---- FLock ---- *)
  - discriminate.
  - intros g u Hn' Hh. pose proof (u_mu _ I _ _ Hn' Hh). congruence.
  - intros f' E; inversion E; subst f'. nu. rewrite Nat.eqb_refl, Hn. eexists; split; reflexivity.
  - intros f' fl. nu. destruct (Nat.eqb_spec f f') as [->|Hne]; [reflexivity|].
    intros Hn' Hh. pose proof (f_mu _ I _ _ Hn' Hh). congruence.
  (* ---- FCheck ---- *)
  - apply (mu_u _ I).
  - apply (u_mu _ I).
  - pose proof (f_mu _ I _ _ Hn eq_refl) as Hmu. intros f' E. rewrite Hmu in E; inversion E; subst f'.
    nu. rewrite Nat.eqb_refl, Hn. eexists; split; [reflexivity|]. now destruct b.
  - pose proof (f_mu _ I _ _ Hn eq_refl) as Hmu. intros f' fl. nu.
    destruct (Nat.eqb_spec f f') as [->|Hne]; [intros; exact Hmu|apply (f_mu _ I)].
  (* ---- FCancelRet (unlocks) ---- *)
  - discriminate.
  - pose proof (f_mu _ I _ _ Hn eq_refl) as Hmu. intros g u Hn' Hh.
    pose proof (u_mu _ I _ _ Hn' Hh). congruence.
  - discriminate.
  - pose proof (f_mu _ I _ _ Hn eq_refl) as Hmu. intros f' fl. nu.
    destruct (Nat.eqb_spec f f') as [->|Hne].
    + rewrite Hn. intros E; inversion E; subst; discriminate.
    + intros Hn' Hh. pose proof (f_mu _ I _ _ Hn' Hh). congruence.
  (* ---- FPersist ---- *)
  - apply (mu_u _ I).
  - apply (u_mu _ I).
  - pose proof (f_mu _ I _ _ Hn eq_refl) as Hmu. intros f' E. rewrite Hmu in E; inversion E; subst f'.
    nu. rewrite Nat.eqb_refl, Hn. eexists; split; reflexivity.
  - pose proof (f_mu _ I _ _ Hn eq_refl) as Hmu. intros f' fl. nu.
    destruct (Nat.eqb_spec f f') as [->|Hne]; [intros; exact Hmu|apply (f_mu _ I)].
  (* ---- FUnlock ---- *)
  - discriminate.
  - pose proof (f_mu _ I _ _ Hn eq_refl) as Hmu. intros g u Hn' Hh.
    pose proof (u_mu _ I _ _ Hn' Hh). congruence.
  - discriminate.
  - pose proof (f_mu _ I _ _ Hn eq_refl) as Hmu. intros f' fl. nu.
    destruct (Nat.eqb_spec f f') as [->|Hne].
    + rewrite Hn. intros E; inversion E; subst; discriminate.
    + intros Hn' Hh. pose proof (f_mu _ I _ _ Hn' Hh). congruence.
Qed.

End Repaired.
